// Package c12 decides C12: proposer rotation equals the specified weighted
// round-robin and validator-set updates are well-formed. The real
// types.ValidatorSet is driven by generated histories and compared after every
// step with an executable transcription of the specification in big.Int.
package c12

import (
	"bytes"
	"fmt"
	"math/big"
	"math/rand"
	"sort"

	"github.com/kardiachain/go-kardia/lib/common"
	"github.com/kardiachain/go-kardia/types"

	"verifharness/core"
)

func init() { core.Register("C12", Main) }

type bigInt = big.Int

// ---- specification transcription (no go-kardia logic, plain big.Int) ----

type sv struct {
	addr  common.Address
	power *big.Int
	prio  *big.Int
}

type sset struct {
	vals     []*sv
	proposer *sv
}

var capTotal = new(big.Int).Div(new(big.Int).SetUint64(1<<63-1), big.NewInt(8))

func (s *sset) total() *big.Int {
	t := new(big.Int)
	for _, v := range s.vals {
		t.Add(t, v.power)
	}
	return t
}

func (s *sset) maxmin() (*big.Int, *big.Int) {
	max, min := new(big.Int).Set(s.vals[0].prio), new(big.Int).Set(s.vals[0].prio)
	for _, v := range s.vals {
		if v.prio.Cmp(max) > 0 {
			max.Set(v.prio)
		}
		if v.prio.Cmp(min) < 0 {
			min.Set(v.prio)
		}
	}
	return max, min
}

// rescale: when max-min exceeds 2*total divide every priority by ceil(diff/(2*total)), truncating toward zero.
func (s *sset) rescale() bool {
	diffMax := new(big.Int).Mul(big.NewInt(2), s.total())
	if diffMax.Sign() <= 0 {
		return false
	}
	max, min := s.maxmin()
	diff := new(big.Int).Sub(max, min)
	if diff.Cmp(diffMax) > 0 {
		ratio := new(big.Int).Quo(new(big.Int).Sub(new(big.Int).Add(diff, diffMax), big.NewInt(1)), diffMax)
		for _, v := range s.vals {
			v.prio = new(big.Int).Quo(v.prio, ratio)
		}
		return true
	}
	return false
}

// center: subtract the floor of the average.
func (s *sset) center() {
	sum := new(big.Int)
	for _, v := range s.vals {
		sum.Add(sum, v.prio)
	}
	avg := new(big.Int).Div(sum, big.NewInt(int64(len(s.vals)))) // Euclidean division: floor for a positive divisor
	for _, v := range s.vals {
		v.prio = new(big.Int).Sub(v.prio, avg)
	}
}

func (s *sset) incrementOnce() *sv {
	for _, v := range s.vals {
		v.prio = new(big.Int).Add(v.prio, v.power)
	}
	var most *sv
	for _, v := range s.vals {
		if most == nil || v.prio.Cmp(most.prio) > 0 || (v.prio.Cmp(most.prio) == 0 && bytes.Compare(v.addr.Bytes(), most.addr.Bytes()) < 0) {
			most = v
		}
	}
	most.prio = new(big.Int).Sub(most.prio, s.total())
	return most
}

func (s *sset) increment(times int) (rescaled bool) {
	rescaled = s.rescale()
	s.center()
	var p *sv
	for i := 0; i < times; i++ {
		p = s.incrementOnce()
	}
	s.proposer = p
	return
}

func (s *sset) find(a common.Address) *sv {
	for _, v := range s.vals {
		if v.addr == a {
			return v
		}
	}
	return nil
}

// valid is the property's acceptance rule for a change set.
func (s *sset) valid(changes []*types.Validator, allowDeletes bool) (bool, string) {
	seen := map[common.Address]bool{}
	for _, c := range changes {
		if seen[c.Address] {
			return false, "duplicate"
		}
		seen[c.Address] = true
		if c.VotingPower < 0 {
			return false, "negative"
		}
		if big.NewInt(c.VotingPower).Cmp(capTotal) > 0 {
			return false, "power-above-cap"
		}
	}
	final := s.total()
	size := len(s.vals)
	for _, c := range changes {
		old := s.find(c.Address)
		if c.VotingPower == 0 {
			if !allowDeletes {
				return false, "delete-not-allowed"
			}
			if old == nil {
				return false, "remove-unknown"
			}
			final.Sub(final, old.power)
			size--
		} else if old != nil {
			final.Add(final, new(big.Int).Sub(big.NewInt(c.VotingPower), old.power))
		} else {
			final.Add(final, big.NewInt(c.VotingPower))
			size++
		}
	}
	if final.Cmp(capTotal) > 0 {
		return false, "total-above-cap"
	}
	if size == 0 {
		return false, "empty"
	}
	return true, ""
}

// update applies a valid change set.
func (s *sset) update(changes []*types.Validator) (rescaled bool) {
	if len(changes) == 0 {
		return false
	}
	tvp := s.total() // total after updates, before removals
	for _, c := range changes {
		if c.VotingPower > 0 {
			if old := s.find(c.Address); old != nil {
				tvp.Add(tvp, new(big.Int).Sub(big.NewInt(c.VotingPower), old.power))
			} else {
				tvp.Add(tvp, big.NewInt(c.VotingPower))
			}
		}
	}
	for _, c := range changes {
		if c.VotingPower == 0 {
			continue
		}
		if old := s.find(c.Address); old != nil {
			old.power = big.NewInt(c.VotingPower)
		} else {
			pr := new(big.Int).Add(tvp, new(big.Int).Rsh(tvp, 3)) // 1.125 * total
			s.vals = append(s.vals, &sv{c.Address, big.NewInt(c.VotingPower), pr.Neg(pr)})
		}
	}
	for _, c := range changes {
		if c.VotingPower == 0 {
			for i, v := range s.vals {
				if v.addr == c.Address {
					s.vals = append(s.vals[:i:i], s.vals[i+1:]...)
					break
				}
			}
		}
	}
	rescaled = s.rescale()
	s.center()
	sort.SliceStable(s.vals, func(i, j int) bool {
		c := s.vals[i].power.Cmp(s.vals[j].power)
		if c == 0 {
			return bytes.Compare(s.vals[i].addr.Bytes(), s.vals[j].addr.Bytes()) < 0
		}
		return c > 0
	})
	return
}

// ---- comparison ----

func dump(real *types.ValidatorSet) []string {
	var out []string
	for _, v := range real.Validators {
		out = append(out, fmt.Sprintf("%x power=%d prio=%d", v.Address[17:], v.VotingPower, v.ProposerPriority))
	}
	return out
}

func cmpSets(real *types.ValidatorSet, spec *sset, checkProposer bool) string {
	if len(real.Validators) != len(spec.vals) {
		return fmt.Sprintf("size %d, spec %d", len(real.Validators), len(spec.vals))
	}
	for i, v := range real.Validators {
		sp := spec.vals[i]
		if v.Address != sp.addr || big.NewInt(v.VotingPower).Cmp(sp.power) != 0 || big.NewInt(v.ProposerPriority).Cmp(sp.prio) != 0 {
			return fmt.Sprintf("index %d: real %x power=%d prio=%d, spec %x power=%v prio=%v", i, v.Address[17:], v.VotingPower, v.ProposerPriority, sp.addr[17:], sp.power, sp.prio)
		}
	}
	if real.TotalVotingPower() != spec.total().Int64() {
		return fmt.Sprintf("total %d, spec %v", real.TotalVotingPower(), spec.total())
	}
	if checkProposer && real.GetProposer().Address != spec.proposer.addr {
		return fmt.Sprintf("proposer %x, spec %x", real.GetProposer().Address[17:], spec.proposer.addr[17:])
	}
	return ""
}

func sameSet(a, b *types.ValidatorSet) bool {
	if len(a.Validators) != len(b.Validators) || a.TotalVotingPower() != b.TotalVotingPower() {
		return false
	}
	for i := range a.Validators {
		x, y := a.Validators[i], b.Validators[i]
		if x.Address != y.Address || x.VotingPower != y.VotingPower || x.ProposerPriority != y.ProposerPriority {
			return false
		}
	}
	if (a.Proposer == nil) != (b.Proposer == nil) {
		return false
	}
	if a.Proposer != nil && (a.Proposer.Address != b.Proposer.Address || a.Proposer.ProposerPriority != b.Proposer.ProposerPriority) {
		return false
	}
	return true
}

type step struct {
	Op      string   `json:"op"`
	K       int      `json:"k,omitempty"`
	Changes []string `json:"changes,omitempty"`
	Result  string   `json:"result,omitempty"`
}

func chgStr(ch []*types.Validator) []string {
	var o []string
	for _, c := range ch {
		o = append(o, fmt.Sprintf("%x=%d", c.Address[17:], c.VotingPower))
	}
	return o
}

func power(r *rand.Rand, class int) int64 {
	switch class {
	case 0:
		return 1 + int64(r.Intn(3))
	case 1:
		return 1 + int64(r.Intn(1000))
	case 2:
		return 1 + r.Int63n(1e15)
	case 3:
		return 1 + r.Int63n(types.MaxTotalVotingPower/64)
	}
	return 1 + r.Int63n(types.MaxTotalVotingPower/8)
}

func addr(c, i int) common.Address {
	return common.BytesToAddress([]byte{byte(c >> 8), byte(c), byte(i)})
}

// history runs one generated history and compares impl and spec after each step.
func history(c *core.Case) {
	r, run := c.R, c.Run
	n := 1 + r.Intn(12)
	if r.Intn(10) == 0 {
		n = 1 + r.Intn(20)
	}
	class := r.Intn(5)
	mixed := r.Intn(3) == 0
	pw := func() int64 {
		if mixed {
			return power(r, r.Intn(5))
		}
		return power(r, class)
	}
	var vals []*types.Validator
	spec := &sset{}
	for i := 0; i < n; i++ {
		vals = append(vals, types.NewValidator(addr(c.I, i+1), pw()))
	}
	// keep the initial total within the cap (NewValidatorSet panics otherwise by contract)
	for {
		t := new(big.Int)
		for _, v := range vals {
			t.Add(t, big.NewInt(v.VotingPower))
		}
		if t.Cmp(capTotal) <= 0 {
			break
		}
		for _, v := range vals {
			v.VotingPower = v.VotingPower/2 + 1
		}
	}
	var trace []step
	trace = append(trace, step{Op: "new", Changes: chgStr(vals)})
	real := types.NewValidatorSet(vals)
	spec.update(vals)
	spec.increment(1)
	fail := func(key, what string) {
		c.Violation(key, what, map[string]interface{}{"trace": trace, "real": dump(real)})
	}
	if d := cmpSets(real, spec, true); d != "" {
		fail("new-set-differs-from-spec", "NewValidatorSet: "+d)
		return
	}
	next := n
	steps := 30 + r.Intn(120)
	nontrivial := false
	lastProposed := map[common.Address]int{} // rounds since the validator last proposed / joined (static periods only)
	for s := 0; s < steps; s++ {
		run.Eval(1)
		switch x := r.Intn(10); {
		case x < 3:
			// change set, possibly invalid
			var ch []*types.Validator
			k := 1 + r.Intn(4)
			for i := 0; i < k; i++ {
				switch r.Intn(8) {
				case 0, 1: // add
					ch = append(ch, types.NewValidator(addr(c.I, next+1), pw()))
					next++
				case 2, 3: // power change of an existing validator (factors up to 1e9 either way through pw)
					v := real.Validators[r.Intn(len(real.Validators))]
					ch = append(ch, types.NewValidator(v.Address, pw()))
				case 4, 5: // removal of an existing one
					v := real.Validators[r.Intn(len(real.Validators))]
					ch = append(ch, types.NewValidator(v.Address, 0))
				case 6: // invalid: unknown removal / negative / above cap
					switch r.Intn(3) {
					case 0:
						ch = append(ch, types.NewValidator(addr(c.I, 200+r.Intn(50)), 0))
					case 1:
						ch = append(ch, types.NewValidator(addr(c.I, 1+r.Intn(next)), -1-r.Int63n(1000)))
					case 2:
						ch = append(ch, types.NewValidator(addr(c.I, next+1), types.MaxTotalVotingPower+1+r.Int63n(1000)))
					}
				case 7: // a huge power that may push the total over the cap
					ch = append(ch, types.NewValidator(addr(c.I, next+1), types.MaxTotalVotingPower-r.Int63n(1+types.MaxTotalVotingPower/4)))
					next++
				}
			}
			if r.Intn(15) == 0 { // many huge newcomers in one change set (sums far above the cap; int64 sums wrap)
				ch = nil
				for i, m := 0, 5+r.Intn(16); i < m; i++ {
					ch = append(ch, types.NewValidator(addr(c.I, next+1), types.MaxTotalVotingPower-r.Int63n(1+types.MaxTotalVotingPower/16)))
					next++
				}
			}
			if r.Intn(12) == 0 { // remove everybody
				ch = nil
				for _, v := range real.Validators {
					ch = append(ch, types.NewValidator(v.Address, 0))
				}
			}
			r.Shuffle(len(ch), func(i, j int) { ch[i], ch[j] = ch[j], ch[i] })
			ok, why := spec.valid(ch, true)
			before := real.Copy()
			chCopy := make([]*types.Validator, len(ch))
			for i := range ch {
				chCopy[i] = ch[i].Copy()
			}
			err := real.UpdateWithChangeSet(ch)
			st := step{Op: "update", Changes: chgStr(chCopy)}
			if err != nil {
				st.Result = "error: " + err.Error()
			}
			trace = append(trace, st)
			run.Count("change_sets", 1)
			if !ok {
				run.Count("invalid_change_sets:"+why, 1)
				if err == nil {
					fail("invalid-change-set-accepted:"+why, fmt.Sprintf("change set that must be rejected (%s) was applied", why))
					return
				}
				if !sameSet(before, real) {
					fail("rejected-change-set-modified-set:"+why, "UpdateWithChangeSet returned an error but changed the set: "+err.Error())
					return
				}
				continue
			}
			if err != nil {
				fail("valid-change-set-rejected", "valid change set rejected: "+err.Error())
				return
			}
			// order independence: every other order of the same entries gives the same set
			if len(chCopy) > 1 {
				perms := 3
				for p := 0; p < perms; p++ {
					alt := before.Copy()
					pc := make([]*types.Validator, len(chCopy))
					for i := range chCopy {
						pc[i] = chCopy[i].Copy()
					}
					r.Shuffle(len(pc), func(i, j int) { pc[i], pc[j] = pc[j], pc[i] })
					if e := alt.UpdateWithChangeSet(pc); e != nil || !sameSet(alt, real) {
						trace = append(trace, step{Op: "same-update-other-order", Changes: chgStr(pc)})
						fail("update-order-dependent", fmt.Sprintf("same change set in another order gives a different result (err=%v)", e))
						return
					}
					run.Count("permutations_checked", 1)
				}
			}
			if spec.update(chCopy) {
				run.Count("rescales", 1)
				nontrivial = true
			}
			if d := cmpSets(real, spec, false); d != "" {
				fail("update-differs-from-spec", "after UpdateWithChangeSet: "+d)
				return
			}
			run.Count("valid_change_sets", 1)
			lastProposed = map[common.Address]int{}
			nontrivial = true
		case x < 4:
			cp := real.Copy()
			if !sameSet(cp, real) {
				fail("copy-differs", "Copy() differs from the original")
				return
			}
			cp.IncrementProposerPriority(1)
			if d := cmpSets(real, spec, false); d != "" {
				fail("copy-aliases-original", "mutating a Copy() changed the original: "+d)
				return
			}
			// the set as every restarted node reads it back: through its protobuf form
			if pb, err := real.ToProto(); err == nil {
				if back, err := types.ValidatorSetFromProto(pb); err != nil {
					fail("proto-roundtrip-error", "ValidatorSetFromProto(ToProto(set)): "+err.Error())
					return
				} else if !sameSet(back, real) || (real.Proposer != nil && (back.Proposer == nil || back.Proposer.Address != real.Proposer.Address)) {
					fail("proto-roundtrip-differs", "the set decoded from its own protobuf form differs from the original (validators, priorities or the designated proposer)")
					return
				}
				run.Count("proto_roundtrips", 1)
			}
			trace = append(trace, step{Op: "copy+increment-on-copy"})
		default:
			k := 1 + r.Intn(5)
			if r.Intn(20) == 0 {
				k = 1 + r.Intn(3000)
			}
			real.IncrementProposerPriority(int64(k))
			if spec.increment(k) {
				run.Count("rescales", 1)
				nontrivial = true
			}
			trace = append(trace, step{Op: "increment", K: k})
			run.Count("rounds", k)
			if d := cmpSets(real, spec, true); d != "" {
				fail("increment-differs-from-spec", fmt.Sprintf("after IncrementProposerPriority(%d): %s", k, d))
				return
			}
			// window and centring right after the increment's own rescale+centre+k rounds:
			// the spec keeps priorities inside a window of twice the total around zero, plus the k rounds' drift.
			// (asserted on the spec transcription == impl at this point)
			if k == 1 {
				tot := spec.total()
				for _, v := range spec.vals {
					lim := new(big.Int).Mul(tot, big.NewInt(3))
					lim.Add(lim, big.NewInt(int64(len(spec.vals))))
					if new(big.Int).Abs(v.prio).Cmp(lim) > 0 {
						fail("priority-outside-window", fmt.Sprintf("priority %v of %x outside +-3*total (%v)", v.prio, v.addr[17:], tot))
						return
					}
				}
				// starvation: in a static period every validator proposes within ceil(6*total/power)+n+2 rounds
				p := spec.proposer.addr
				for _, v := range spec.vals {
					if v.addr == p {
						lastProposed[v.addr] = 0
						continue
					}
					lastProposed[v.addr]++
					bound := new(big.Int).Mul(tot, big.NewInt(6))
					bound.Div(bound, v.power)
					bound.Add(bound, big.NewInt(int64(len(spec.vals)+3)))
					if bound.IsInt64() && int64(lastProposed[v.addr]) > bound.Int64() {
						fail("validator-starved", fmt.Sprintf("%x (power %v of %v) did not propose for %d rounds", v.addr[17:], v.power, tot, lastProposed[v.addr]))
						return
					}
				}
			} else {
				lastProposed = map[common.Address]int{}
			}
		}
	}
	if nontrivial {
		run.Nontrivial(fmt.Sprint(c.I, n, class, steps))
	}
	if c.I < 2 {
		if len(trace) > 12 {
			trace = trace[:12]
		}
		run.Sample(map[string]interface{}{"case": c.I, "trace_prefix": trace})
	}
}

// fairness: long static run on small sets; each validator's share of proposals
// converges to power/total (|count - L*p/T| <= 4 follows from the window).
func fairness(c *core.Case) {
	r, run := c.R, c.Run
	n := 1 + r.Intn(7)
	var vals []*types.Validator
	var tot int64
	for i := 0; i < n; i++ {
		p := 1 + int64(r.Intn(20))
		if r.Intn(4) == 0 {
			p = 1 + int64(r.Intn(2000))
		}
		tot += p
		vals = append(vals, types.NewValidator(addr(c.I, i+1), p))
	}
	vs := types.NewValidatorSet(vals)
	L := int(tot) * (2 + r.Intn(3))
	if L > 40000 {
		L = 40000
	}
	count := map[common.Address]int64{}
	for i := 0; i < L; i++ {
		count[vs.GetProposer().Address]++
		vs.IncrementProposerPriority(1)
	}
	run.Eval(1)
	run.Count("fairness_rounds", L)
	for _, v := range vals {
		// |count*T - L*p| <= 4*T
		d := new(big.Int).Sub(new(big.Int).Mul(big.NewInt(count[v.Address]), big.NewInt(tot)), new(big.Int).Mul(big.NewInt(int64(L)), big.NewInt(v.VotingPower)))
		if d.Abs(d).Cmp(big.NewInt(4*tot)) > 0 {
			c.Violation("unfair-rotation", fmt.Sprintf("validator with power %d of %d proposed %d times in %d rounds", v.VotingPower, tot, count[v.Address], L),
				map[string]interface{}{"powers": chgStr(vals), "rounds": L})
			return
		}
	}
	run.Nontrivial(fmt.Sprint("fair", c.I, n, tot))
}

// boundary corpus: fixed histories aimed at the mechanisms (window after a power drop,
// newcomer penalty, tie-break, centring with negative averages, cap).
func corpus(c *core.Case) {
	run := c.Run
	a := func(i int) common.Address { return addr(9999, i) }
	type sc struct {
		name string
		init []int64
		ops  [][]int64 // each op: {-1,k} = increment k; otherwise pairs (index,power)
	}
	big1 := types.MaxTotalVotingPower / 8
	list := []sc{
		{"power-drop-window", []int64{1000000, 1, 1}, [][]int64{{-1, 50}, {0, 1}, {-1, 1}, {-1, 1}, {-1, 20}}},
		{"power-rise", []int64{1, 1, 1}, [][]int64{{-1, 7}, {0, 1000000000}, {-1, 3}, {0, 1}, {-1, 10}}},
		{"newcomer-penalty", []int64{10, 10, 10}, [][]int64{{-1, 5}, {3, 10}, {-1, 1}, {-1, 40}}},
		{"newcomer-and-removal", []int64{5, 3, 2}, [][]int64{{-1, 3}, {3, 4, 0, 0}, {-1, 12}, {4, 1, 1, 0}, {-1, 9}}},
		{"tie-break", []int64{1, 1, 1, 1}, [][]int64{{-1, 1}, {-1, 1}, {-1, 1}, {-1, 1}, {-1, 1}}},
		{"single", []int64{7}, [][]int64{{-1, 3}, {0, 9}, {-1, 2}}},
		{"near-cap", []int64{big1, big1, big1}, [][]int64{{-1, 4}, {0, 1}, {-1, 4}, {0, big1 * 5}, {-1, 4}}},
		{"return-to-earlier-membership", []int64{3, 2, 1}, [][]int64{{-1, 4}, {2, 0}, {-1, 4}, {2, 1}, {-1, 8}}},
	}
	if c.I >= len(list) {
		return
	}
	s := list[c.I]
	var vals []*types.Validator
	for i, p := range s.init {
		vals = append(vals, types.NewValidator(a(i), p))
	}
	real := types.NewValidatorSet(vals)
	spec := &sset{}
	spec.update(vals)
	spec.increment(1)
	var trace []step
	for _, op := range s.ops {
		run.Eval(1)
		if op[0] == -1 {
			real.IncrementProposerPriority(op[1])
			spec.increment(int(op[1]))
			trace = append(trace, step{Op: "increment", K: int(op[1])})
		} else {
			var ch []*types.Validator
			for i := 0; i+1 < len(op); i += 2 {
				ch = append(ch, types.NewValidator(a(int(op[i])), op[i+1]))
			}
			trace = append(trace, step{Op: "update", Changes: chgStr(ch)})
			ok, _ := spec.valid(ch, true)
			err := real.UpdateWithChangeSet(ch)
			if ok != (err == nil) {
				c.Violation("corpus:"+s.name+":validity", fmt.Sprintf("change set validity: spec %v, impl err %v", ok, err), trace)
				return
			}
			if ok {
				spec.update(ch)
			}
		}
		if d := cmpSets(real, spec, op[0] == -1); d != "" {
			c.Violation("corpus:"+s.name, s.name+": "+d, map[string]interface{}{"trace": trace, "real": dump(real)})
			return
		}
		// window right after an update: max-min <= 2*total
		if op[0] != -1 {
			max, min := spec.maxmin()
			if new(big.Int).Sub(max, min).Cmp(new(big.Int).Mul(big.NewInt(2), spec.total())) > 0 {
				c.Violation("corpus:"+s.name+":window", "window exceeded after update", trace)
				return
			}
		}
	}
	run.Nontrivial("corpus:" + s.name)
	run.Count("corpus_scenarios", 1)
}

func Main() {
	r := core.Start("C12", "exploration")
	r.SetRule("history = random initial set (1..20 validators, 5 power classes up to cap/8) + 30..150 steps of IncrementProposerPriority(k)/UpdateWithChangeSet(valid and invalid change sets)/Copy; each step compared with a big.Int transcription of the specification (priorities, order, proposer, total); non-trivial = at least one valid change set or a rescale happened; distinct by case index")
	r.Assume("the specification is the Tendermint weighted round-robin as described in the property text (window 2*total, floor-average centring, newcomers at -1.125*total)")
	r.Cases("corpus", 8, core.Opts{}, corpus)
	r.Cases("history", r.N(600, 60000), core.Opts{Workers: 16}, history)
	r.Cases("cstate", r.N(32, 1500), core.Opts{Procs: 16, StallSec: 300}, cstateCase)
	r.Cases("rounds", r.N(48, 3000), core.Opts{Procs: 16, StallSec: 300}, roundsCase)
	r.Floor("round_jumps_of_two_or_more_compared", 30)
	r.Cases("fairness", r.N(40, 2000), core.Opts{Workers: 16}, fairness)
	r.Floor("valid_change_sets", 100)
	r.Floor("rescales", 5)
	r.Finish()
}
