package c12

import (
	"fmt"

	"github.com/kardiachain/go-kardia/lib/common"
	"github.com/kardiachain/go-kardia/types"

	"verifharness/core"
	"verifharness/netsim"
)

// cstateCase: the validator-set history as consensus applies it (BlockExecutor.ApplyBlock -> updateState) on a
// real simulated network whose application reports a scripted validator list every block, with changes at
// consecutive heights, power changes reverted later, removals, re-additions and newcomers. After every block
// the next/current/last sets of every node are compared with the specification applied to the same history:
// next(h) = update(next(h-1), difference between next(h-1) and the reported list) then one rotation step.
func cstateCase(c *core.Case) {
	r, run := c.R, c.Run
	n := 4
	powers := []int64{20, 20, 20, 20}
	heights := uint64(6 + r.Intn(4))
	unit := netsim.PowerUnit
	// desired membership per height (what the application reports for that block)
	cur := map[int]int64{0: 20, 1: 20, 2: 20, 3: 20}
	desired := map[uint64]map[common.Address]int64{}
	var script []string
	snapshot := func() map[common.Address]int64 {
		m := map[common.Address]int64{}
		for k, p := range cur {
			m[netsim.Addr(netsim.Key(k))] = p * unit
		}
		return m
	}
	newcomer := 10
	for h := uint64(1); h <= heights; h++ {
		// (membership changes are not scripted: the real staking application reverts when the commit info names
		// validators it does not know; they are covered with the real application by C19's slashing runs)
		switch r.Intn(3) {
		case 0, 1: // power change of a running validator (kept >= 20 so that 4 running validators always hold > 2/3)
			k := r.Intn(4)
			if _, ok := cur[k]; ok {
				cur[k] = []int64{20, 30, 50, 80}[r.Intn(4)]
				script = append(script, fmt.Sprintf("h%d: power of v%d -> %d", h, k, cur[k]))
			}
		case 12: // removal of a running validator (at most one removed at a time)
			k := r.Intn(4)
			if _, ok := cur[k]; ok && len(cur) >= 4 && runningCount(cur) == 4 {
				delete(cur, k)
				script = append(script, fmt.Sprintf("h%d: v%d removed", h, k))
			}
		case 13: // a removed validator comes back
			for k := 0; k < 4; k++ {
				if _, ok := cur[k]; !ok {
					cur[k] = 20
					script = append(script, fmt.Sprintf("h%d: v%d back with 20", h, k))
					break
				}
			}
		case 14: // a newcomer (no node: silent) with little power, or its removal
			if _, ok := cur[newcomer]; ok {
				delete(cur, newcomer)
				script = append(script, fmt.Sprintf("h%d: newcomer v%d removed", h, newcomer))
				newcomer++
			} else if silentPower(cur) == 0 {
				cur[newcomer] = 10
				script = append(script, fmt.Sprintf("h%d: newcomer v%d with 10", h, newcomer))
			}
		}
		desired[h] = snapshot()
	}
	sched := func(h uint64, appVals []*types.Validator) []*types.Validator {
		d, ok := desired[h]
		if !ok {
			d = desired[heights]
		}
		var out []*types.Validator
		for a, p := range d {
			out = append(out, types.NewValidator(a, p))
		}
		return out
	}
	net, err := netsim.NewNet(netsim.NetOpts{N: n, Powers: powers, Node: func(i int) netsim.NodeOpts { return netsim.NodeOpts{Sched: sched} }})
	if err != nil {
		run.Inconclusive("network build failed: " + err.Error())
		return
	}
	defer net.Close()
	if err := net.StartAll(); err != nil {
		run.Inconclusive("network start failed: " + err.Error())
		return
	}
	// spec: genesis next set = NewValidatorSet + one more rotation step (MakeGenesisState)
	st0 := net.Alive()[0].CS.VerifState()
	spec := &sset{}
	var gvals []*types.Validator
	for _, v := range st0.Validators.Validators {
		gvals = append(gvals, types.NewValidator(v.Address, v.VotingPower))
	}
	spec.update(gvals)
	spec.increment(1)
	if d := cmpSets(st0.Validators, spec, true); d != "" {
		c.Violation("cstate:genesis-current-set-differs-from-spec", d, script)
		return
	}
	spec.increment(1)
	if d := cmpSets(st0.NextValidators, spec, true); d != "" {
		c.Violation("cstate:genesis-next-set-differs-from-spec", d, script)
		return
	}
	prevNext := spec
	changes := 0
	for h := uint64(1); h <= heights; h++ {
		res := net.RunSync(h, 200, nil)
		if !res.Reached {
			// a network that cannot go on after a validator-set change is a consequence worth a witness, but C04 judges it
			run.Count("cstate_network_stuck", 1)
			run.Inconclusive(fmt.Sprintf("cstate case %d: network did not commit height %d (%s %s)", c.I, h, res.Deadlock, res.Stuck))
			return
		}
		// spec: difference between the previous next set and the reported list
		var ch []*types.Validator
		d := desired[h]
		for _, v := range prevNext.vals {
			if p, ok := d[v.addr]; !ok {
				ch = append(ch, types.NewValidator(v.addr, 0))
			} else if p != v.power.Int64() {
				ch = append(ch, types.NewValidator(v.addr, p))
			}
		}
		for a, p := range d {
			if prevNext.find(a) == nil {
				ch = append(ch, types.NewValidator(a, p))
			}
		}
		next := prevNext.clone()
		if len(ch) > 0 {
			next.update(ch)
			changes++
		}
		next.increment(1)
		for _, nd := range net.Alive() {
			if nd.BO.Height() != h {
				continue
			}
			st := nd.CS.VerifState()
			run.Eval(1)
			if dd := cmpSets(st.NextValidators, next, true); dd != "" {
				c.Violation("cstate:next-set-differs-from-spec", fmt.Sprintf("after block %d node %d: %s", h, nd.Idx, dd), map[string]interface{}{"script": script, "height": h})
				return
			}
			if dd := cmpSets(st.Validators, prevNext, true); dd != "" {
				c.Violation("cstate:current-set-is-not-the-previous-next-set", fmt.Sprintf("after block %d node %d: %s", h, nd.Idx, dd), map[string]interface{}{"script": script, "height": h})
				return
			}
		}
		prevNext = next
	}
	run.Count("cstate_heights", int(heights))
	run.Count("cstate_change_sets", changes)
	if changes >= 2 {
		run.Nontrivial(fmt.Sprint("cstate", c.I, script))
	}
	if c.I < 2 {
		run.Sample(map[string]interface{}{"cstate_script": script, "heights": heights})
	}
}

func runningCount(cur map[int]int64) int {
	k := 0
	for i := range cur {
		if i < 4 {
			k++
		}
	}
	return k
}

func silentPower(cur map[int]int64) int64 {
	var s int64
	for i, p := range cur {
		if i >= 4 {
			s += p
		}
	}
	return s
}

func (s *sset) clone() *sset {
	c := &sset{}
	for _, v := range s.vals {
		nv := &sv{v.addr, new(bigInt).Set(v.power), new(bigInt).Set(v.prio)}
		c.vals = append(c.vals, nv)
		if s.proposer == v {
			c.proposer = nv
		}
	}
	return c
}
