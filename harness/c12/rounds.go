package c12

import (
	"fmt"
	"math/big"

	kproto "github.com/kardiachain/go-kardia/proto/kardiachain/types"
	"github.com/kardiachain/go-kardia/types"

	"verifharness/core"
	"verifharness/netsim"
)

// Group rounds: the proposer a RUNNING consensus state expects in every round of a height is the specified
// rotation of the height's validator set - also when the node does not walk through the rounds one by one but jumps
// (a +2/3 of votes of a later round makes it enter that round directly). One real node, the other validators are
// played by the harness; the reference is the specification transcription advanced (round - 1) times from the set
// the node had in round 1 of the height (that set itself is compared with the specification by group cstate).

func fromReal(vs *types.ValidatorSet) *sset {
	s := &sset{}
	for _, v := range vs.Validators {
		x := &sv{addr: v.Address, power: big.NewInt(v.VotingPower), prio: big.NewInt(v.ProposerPriority)}
		s.vals = append(s.vals, x)
		if p := vs.GetProposer(); p != nil && p.Address == v.Address {
			s.proposer = x
		}
	}
	return s
}

func roundsCase(c *core.Case) {
	r, run := c.R, c.Run
	powers := make([]int64, 4)
	for i := range powers {
		powers[i] = []int64{20, 21, 23, 26, 29}[r.Intn(5)] // nobody reaches 1/3: the three others always hold +2/3
	}
	victim := r.Intn(4)
	s, err := netsim.NewScript(4, victim, powers)
	if err != nil {
		run.Inconclusive("script network: " + err.Error())
		return
	}
	defer s.Close()
	var script []string
	heights := 2 + r.Intn(3)
	for hh := 0; hh < heights; hh++ {
		s.EnterRound()
		rs := s.RS()
		h := rs.Height
		if rs.Round != 1 {
			run.Inconclusive(fmt.Sprintf("rounds case %d: height %d starts in round %d", c.I, h, rs.Round))
			return
		}
		spec := fromReal(rs.Validators)
		at := uint32(1)
		moves := 1 + r.Intn(3)
		for m := 0; m < moves; m++ {
			k := uint32([]int{1, 1, 2, 2, 3, 5, 9}[r.Intn(7)])
			target := at + k
			how := "walked"
			if k == 1 && r.Intn(2) == 0 {
				s.SkipRound() // one by one: timeouts, nil prevotes and nil precommits of the current round
			} else {
				// jump: +2/3 of nil prevotes (or nil precommits) of the target round, each validator through its own peer
				typ := kproto.PrevoteType
				if r.Intn(2) == 0 {
					typ = kproto.PrecommitType
				}
				how = fmt.Sprintf("jumped on +2/3 %v", typ)
				for _, o := range s.Others {
					s.Peer = fmt.Sprintf("peer%d", o)
					s.Votes(typ, target, types.BlockID{}, []int{o})
				}
				s.Peer = ""
			}
			got := s.RS()
			if got.Height != h {
				break
			}
			if got.Round != target {
				run.Count("round_moves_not_taken", 1)
				script = append(script, fmt.Sprintf("h%d: move %d->%d (%s) left the node in round %d", h, at, target, how, got.Round))
				if got.Round < at {
					break
				}
				k = got.Round - at
				target = got.Round
				if k == 0 {
					continue
				}
			}
			spec.increment(int(k))
			at = target
			script = append(script, fmt.Sprintf("h%d: %s to round %d", h, how, target))
			run.Eval(1)
			run.Count("rounds_entered_and_compared", 1)
			if k > 1 {
				run.Count("round_jumps_of_two_or_more_compared", 1)
			}
			if d := cmpSets(got.Validators, spec, true); d != "" {
				c.Violation("rounds:proposer-rotation-differs-from-spec", fmt.Sprintf("height %d round %d (%s from round %d): %s", h, target, how, target-k, d), script)
				return
			}
		}
		if !s.CommitHeight() {
			// the height could not be finished from where the moves left the node (e.g. the victim proposes and holds no
			// block): go on with what was compared
			run.Count("rounds_height_not_finished", 1)
			break
		}
	}
	run.Nontrivial(fmt.Sprint("rounds", c.I, powers, victim, len(script)))
	if c.I < 2 {
		run.Sample(map[string]interface{}{"rounds_script": script, "powers": powers, "victim": victim})
	}
}
