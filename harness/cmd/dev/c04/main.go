package main

import (
	_ "verifharness/c04"
	"verifharness/core"
)

func main() { core.Main() }
