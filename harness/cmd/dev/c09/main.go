package main

import (
	_ "verifharness/c09"
	"verifharness/core"
)

func main() { core.Main() }
