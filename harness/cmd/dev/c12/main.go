package main

import (
	_ "verifharness/c12"
	"verifharness/core"
)

func main() { core.Main() }
