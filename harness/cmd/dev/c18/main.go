package main

import (
	_ "verifharness/c18"
	"verifharness/core"
)

func main() { core.Main() }
