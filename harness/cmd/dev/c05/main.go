package main

import (
	_ "verifharness/c05"
	"verifharness/core"
)

func main() { core.Main() }
