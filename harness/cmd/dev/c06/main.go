package main

import (
	_ "verifharness/c06"
	"verifharness/core"
)

func main() { core.Main() }
