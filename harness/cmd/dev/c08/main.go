package main

import (
	_ "verifharness/c08"
	"verifharness/core"
)

func main() { core.Main() }
