package main

import (
	_ "verifharness/c10"
	"verifharness/core"
)

func main() { core.Main() }
