package main

import (
	_ "verifharness/c02"
	"verifharness/core"
)

func main() { core.Main() }
