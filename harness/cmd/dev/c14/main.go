package main

import (
	_ "verifharness/c14"
	"verifharness/core"
)

func main() { core.Main() }
