package main

import (
	_ "verifharness/c20"
	"verifharness/core"
)

func main() { core.Main() }
