package main

import (
	_ "verifharness/c07"
	"verifharness/core"
)

func main() { core.Main() }
