package main

import (
	_ "verifharness/c13"
	"verifharness/core"
)

func main() { core.Main() }
