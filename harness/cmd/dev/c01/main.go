package main

import (
	_ "verifharness/c01"
	"verifharness/core"
)

func main() { core.Main() }
