package main

import (
	_ "verifharness/c11"
	"verifharness/core"
)

func main() { core.Main() }
