package main

import (
	_ "verifharness/c15"
	"verifharness/core"
)

func main() { core.Main() }
