package main

import (
	_ "verifharness/c19"
	"verifharness/core"
)

func main() { core.Main() }
