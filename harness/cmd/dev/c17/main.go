package main

import (
	_ "verifharness/c17"
	"verifharness/core"
)

func main() { core.Main() }
