package main

import (
	_ "verifharness/c03"
	"verifharness/core"
)

func main() { core.Main() }
