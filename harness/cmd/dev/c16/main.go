package main

import (
	_ "verifharness/c16"
	"verifharness/core"
)

func main() { core.Main() }
