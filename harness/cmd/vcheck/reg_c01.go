package main

import _ "verifharness/c01"
