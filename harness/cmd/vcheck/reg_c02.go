package main

import _ "verifharness/c02"
