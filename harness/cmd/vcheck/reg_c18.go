package main

import _ "verifharness/c18"
