package main

import _ "verifharness/c15"
