package main

import _ "verifharness/c09"
