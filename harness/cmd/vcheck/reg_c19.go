package main

import _ "verifharness/c19"
