package main

import _ "verifharness/c10"
