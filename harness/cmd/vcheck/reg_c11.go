package main

import _ "verifharness/c11"
