package main

import _ "verifharness/c07"
