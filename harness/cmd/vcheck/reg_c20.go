package main

import _ "verifharness/c20"
