package main

import _ "verifharness/c05"
