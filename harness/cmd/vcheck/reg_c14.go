package main

import _ "verifharness/c14"
