package main

import _ "verifharness/c04"
