package main

import _ "verifharness/c13"
