package main

import _ "verifharness/c03"
