// vcheck is the single binary behind ./check: one sub-command per property.
package main

import "verifharness/core"

func main() { core.Main() }
