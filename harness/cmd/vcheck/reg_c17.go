package main

import _ "verifharness/c17"
