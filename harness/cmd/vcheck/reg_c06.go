package main

import _ "verifharness/c06"
