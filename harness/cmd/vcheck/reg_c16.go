package main

import _ "verifharness/c16"
