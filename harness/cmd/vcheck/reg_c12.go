package main

import _ "verifharness/c12"
