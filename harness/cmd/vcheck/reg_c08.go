package main

import _ "verifharness/c08"
