package c06

import (
	"fmt"
	"math/rand"

	"github.com/kardiachain/go-kardia/lib/common"
	"github.com/kardiachain/go-kardia/types"

	"verifharness/core"
)

// ValidatorSet.UpdateWithChangeSet must give the same set (members, powers,
// priorities, order, proposer, total) for every order of the same change set:
// every permutation for up to 5 entries, 50 shuffles above.

func vaddr(c, i int) common.Address {
	return common.BytesToAddress([]byte{0x7a, byte(c >> 16), byte(c >> 8), byte(c), byte(i)})
}

func vpower(r *rand.Rand) int64 {
	switch r.Intn(4) {
	case 0:
		return 1 + int64(r.Intn(5))
	case 1:
		return 1 + int64(r.Intn(1000))
	case 2:
		return 1 + r.Int63n(1e15)
	}
	return 1 + r.Int63n(types.MaxTotalVotingPower/64)
}

func permutations(n int) [][]int {
	var out [][]int
	var rec func(p []int, used []bool)
	rec = func(p []int, used []bool) {
		if len(p) == n {
			out = append(out, append([]int(nil), p...))
			return
		}
		for i := 0; i < n; i++ {
			if !used[i] {
				used[i] = true
				rec(append(p, i), used)
				used[i] = false
			}
		}
	}
	rec(nil, make([]bool, n))
	return out
}

func changeStr(ch []*types.Validator) []string {
	var o []string
	for _, c := range ch {
		o = append(o, fmt.Sprintf("%x=%d", c.Address[15:], c.VotingPower))
	}
	return o
}

func valsetCase(c *core.Case) {
	r, run := c.R, c.Run
	n := 1 + r.Intn(8)
	var vals []*types.Validator
	for i := 0; i < n; i++ {
		vals = append(vals, types.NewValidator(vaddr(c.I, i), vpower(r)))
	}
	set := types.NewValidatorSet(vals)
	set.IncrementProposerPriority(int64(1 + r.Intn(20)))
	next := n
	rounds := 1 + r.Intn(3)
	var trace []interface{}
	for round := 0; round < rounds; round++ {
		k := 1 + r.Intn(5)
		if r.Intn(4) == 0 {
			k = 6 + r.Intn(3)
		}
		var ch []*types.Validator
		used := map[common.Address]bool{}
		removed := 0
		for len(ch) < k {
			switch r.Intn(3) {
			case 0: // add
				ch = append(ch, types.NewValidator(vaddr(c.I, next), vpower(r)))
				next++
			case 1: // update
				v := set.Validators[r.Intn(len(set.Validators))]
				if !used[v.Address] {
					used[v.Address] = true
					ch = append(ch, types.NewValidator(v.Address, vpower(r)))
				}
			case 2: // remove (never everybody)
				v := set.Validators[r.Intn(len(set.Validators))]
				if !used[v.Address] && removed+1 < len(set.Validators) {
					used[v.Address] = true
					removed++
					ch = append(ch, types.NewValidator(v.Address, 0))
				}
			}
			if len(set.Validators) == 1 && len(ch) == 0 && r.Intn(10) == 0 {
				break
			}
		}
		if len(ch) == 0 {
			continue
		}
		var orders [][]int
		if len(ch) <= 5 {
			orders = permutations(len(ch))
		} else {
			for s := 0; s < 50; s++ {
				orders = append(orders, r.Perm(len(ch)))
			}
		}
		ref, refErr, refOrder := "", error(nil), []string(nil)
		var result *types.ValidatorSet
		for oi, ord := range orders {
			cp := set.Copy()
			pc := make([]*types.Validator, len(ch))
			for i, j := range ord {
				pc[i] = ch[j].Copy()
			}
			err := func() (err error) {
				defer func() {
					if e := recover(); e != nil {
						err = fmt.Errorf("panic: %v", e)
						run.Count("valset_update_panics", 1)
					}
				}()
				return cp.UpdateWithChangeSet(pc)
			}()
			got := canonValSet(cp)
			run.Count("valset_orders_applied", 1)
			if oi == 0 {
				ref, refErr, refOrder, result = got, err, changeStr(pc), cp
				continue
			}
			if (err == nil) != (refErr == nil) || got != ref {
				c.Violation("validator-update-order-dependent", fmt.Sprintf("the same change set in two orders gives different sets (errors: %v / %v): %s", refErr, err, firstDiff(ref, got)),
					map[string]interface{}{"set_before": canonValSet(set), "order_a": refOrder, "order_b": changeStr(pc), "result_a": ref, "result_b": got, "earlier_rounds": trace})
				return
			}
		}
		run.Eval(1)
		run.Count("valset_change_sets", 1)
		if len(ch) > 1 {
			run.Nontrivial(fmt.Sprintf("valset/%d/%d", c.I, round))
		}
		trace = append(trace, map[string]interface{}{"changes": changeStr(ch), "err": fmt.Sprint(refErr)})
		if refErr == nil {
			set = result
			set.IncrementProposerPriority(int64(1 + r.Intn(5)))
		} else {
			run.Count("valset_change_sets_rejected", 1)
		}
	}
}
