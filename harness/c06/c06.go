// Package c06 decides C06: block execution is deterministic. Generated chains
// are executed by the real BlockExecutor.ApplyBlock / BlockOperations on
// replicas with different cache configurations (always with and without the
// snapshot tree), in the roles of proposer (CreateProposalBlock) and receiver,
// on long-running replicas and on replicas stopped and reopened from their
// databases at various heights, repeated in the same process and in fresh child
// processes; app hash, stored receipts / bloom / gas, returned validators and
// the resulting LatestBlockState must be pairwise equal and every replica must
// accept the block. The workload holds storage histories (directed.go: slots
// set, cleared and read again, reads of never-written slots, a contract with
// storage that self-destructs and is re-created at the same address in the same
// or a later block), creation histories (creations.go: CREATE, CREATE2 and creation
// transactions whose init code fails in every way, aimed at addresses that hold a
// balance and are not touched otherwise in that block, and used in later blocks),
// validator reports handed to every replica in its own order
// (valreports.go) and chains longer than the 128 state layers a node keeps in
// memory (long.go: snapshot layers flattened and merged into the disk layer,
// tries garbage-collected; one replica with a small dirty-cache allowance whose
// trie nodes are written to disk by triedb.Cap, beside an archive replica; one
// replica reopened with the snapshot switched on while the chain is busy, so that
// it executes blocks while its snapshot is still being generated; one replica on a database that
// records every durable unit, of which crash images are taken - inside disk-layer merges written in
// several batches and at arbitrary units - on which a node is started as after a power loss and
// re-executes the blocks it lost, crash.go). ValidatorSet.UpdateWithChangeSet must not depend on
// the order of the change set. A simulated multi-node network with
// heterogeneous cache configurations executes transaction-carrying blocks on
// every node.
package c06

import (
	"bufio"
	"fmt"
	"os"
	"path/filepath"
	"strings"

	"verifharness/core"
)

func init() { core.Register("C06", Main) }

const fpEnv = "VERIF_C06_FPDIR"

// replicaCase: one random scenario; every fourth case is executed twice in the same process.
func replicaCase(c *core.Case) {
	r := c.Run.Rng("scenario", c.I)
	o := drawScenario(r, c.Run.Quick(), false)
	fp := runScenario(c, r, o, "first")
	if fp == nil || c.I%4 != 0 {
		return
	}
	// in-process repeat: only hand-built blocks have a content that is a function of the seed alone
	r1 := c.Run.Rng("scenario-repeat", c.I)
	o1 := drawScenario(r1, c.Run.Quick(), true)
	a := runScenario(c, c.Run.Rng("scenario-repeat-body", c.I), o1, "repeat-a")
	b := runScenario(c, c.Run.Rng("scenario-repeat-body", c.I), o1, "repeat-b")
	if a == nil || b == nil {
		return
	}
	compareFingerprints(c, a, b, "in-process-repeat")
}

func compareFingerprints(c *core.Case, a, b *fingerprint, rel string) {
	la, lb := a.lines(), b.lines()
	for i := 0; i < len(la) && i < len(lb); i++ {
		ha, hb := a.Heights[i], b.Heights[i]
		if ha.Block != hb.Block {
			c.Run.Count("repeat_blocks_not_comparable", 1)
			return
		}
		if la[i] != lb[i] {
			c.Violation("result-differs:"+rel, fmt.Sprintf("height %d, same block %s: app hash %s vs %s, block info %s vs %s, state %s vs %s", ha.Height, ha.Block, ha.AppHash, hb.AppHash, ha.Info, hb.Info, ha.State, hb.State),
				map[string]interface{}{"run_a": a.Heights, "run_b": b.Heights})
			return
		}
		c.Run.Count("repeat_heights_compared:"+rel, 1)
	}
}

// reportCase: a scenario about validator reports (valreports.go).
func reportCase(c *core.Case) {
	r := c.Run.Rng("report-scenario", c.I)
	runScenario(c, r, drawReportScenario(r, c.Run.Quick()), "valreports")
}

// procCase runs in child processes (two groups execute the same case list): the fingerprints are
// written to a scratch directory and compared by the parent.
func procCase(c *core.Case) {
	r := c.Run.Rng("proc-scenario", c.I)
	o := drawScenario(r, c.Run.Quick(), true)
	fp := runScenario(c, r, o, c.Group)
	if fp == nil {
		return
	}
	dir := os.Getenv(fpEnv)
	if dir == "" {
		return // single-case replay
	}
	f, err := os.OpenFile(filepath.Join(dir, fmt.Sprintf("%s.%d", c.Group, os.Getpid())), os.O_CREATE|os.O_APPEND|os.O_WRONLY, 0644)
	if err != nil {
		c.Run.Inconclusive("cannot write fingerprint: " + err.Error())
		return
	}
	defer f.Close()
	for _, l := range fp.lines() {
		fmt.Fprintf(f, "%d %s\n", c.I, l)
	}
}

func readFingerprints(dir, group string) map[int][]string {
	out := map[int][]string{}
	files, _ := filepath.Glob(filepath.Join(dir, group+".*"))
	for _, fn := range files {
		f, err := os.Open(fn)
		if err != nil {
			continue
		}
		sc := bufio.NewScanner(f)
		for sc.Scan() {
			var i int
			p := strings.SplitN(sc.Text(), " ", 2)
			if len(p) == 2 {
				fmt.Sscan(p[0], &i)
				out[i] = append(out[i], p[1])
			}
		}
		f.Close()
	}
	return out
}

func Main() {
	r := core.Start("C06", "exploration")
	r.SetRule("case = generated genesis (1-6 staking validators, EOAs, value-moving and environment-recording contracts, a storage-churn contract, a CREATE2 factory whose child reads its slots before writing them and can self-destruct, two forges (CREATE / CREATE2 of init code given in the call data, optionally reverting afterwards), a probe logging BALANCE / EXTCODESIZE / EXTCODEHASH of an address, balance-only accounts at the forges' creation addresses and at the EOAs' first 40 creation-transaction addresses) + a chain of 3-10 blocks (group long: 178-207 blocks, thorough up to 300) built by CreateProposalBlock from a replica's pool or by hand with invalid transactions mixed in (before / at / after the Galaxias fork), applied with ValidateBlock+SaveBlock+ApplyBlock on 4 (quick) or 6 (thorough) replicas: different cache configurations, always at least one with and one without the snapshot tree, some stopped and reopened from their databases at random heights or before the last block, long-running ones beside them; groups valreports / corpus: a validator report (members leave, join, swap with equal or own power, change power, unchanged) at most heights, handed to every replica in its own order (validator-set order, its reverse, by address, shuffled); creation workload in every chain (every block of a short chain, every fifth of a long one; fixed script in two corpus scenarios): creations through CREATE, CREATE2 and creation transactions whose init code ends in REVERT / invalid opcode / out of gas / stack underflow / oversize code / code-deposit out of gas, or succeeds inside a call frame that then reverts, aimed at addresses funded in the genesis state or by an earlier transfer and placed last in the block (nothing else touches the address in that block), then in later blocks (preferably the next) transfers to the address, probe calls, a creation at the same address that succeeds and a call that makes the new contract pay out; group long: > 128 blocks with a few thousand slot writes per block in the first part, so that snapshot layers are flattened and merged into the disk layer and tries are garbage-collected, with slots and contracts written early, cleared / destroyed later and read / re-created after those changes reached the disk layer; long-chain replicas: 0 = long-running with the snapshot, 1 = long-running trie-only with TrieDirtyLimit 1 MB (beyond block 128 triedb.Cap writes its oldest trie nodes to disk, tens of MB at the first call, observed through state roots appearing in its database although it is never stopped), 2 = stopped and reopened, 3 = an archive configuration (chains 0 mod 3), or a node started without the snapshot and reopened up to 8 times during the busy part alternately with the snapshot in background generation (node-defaults / archive-node, SnapshotWait=false as backend.go passes) and without it (chains 1 mod 3; the ballast contract holds 10000 more slots in the genesis state, so generation lasts about as long as a block; reopened replicas apply the block first; the generator's own progress record in the database tells whether it was still running before and after the block), or any configuration; crash-restarted replicas (crash.go): in every long chain one replica runs on a database that records each durable unit (Put / Delete / batch Write) - replica 0 itself in even chains (nothing but snapshot merges reaches its disk: a crash rewinds the head to the genesis), in odd chains a fifth replica with the node defaults and one clean stop in the first ten blocks (a crash rewinds the head to that stop; thorough: in every fourth chain a fifth replica with a trie timeout of 1 ns instead, which commits the trie of block h-128 at every block); a sprayer contract pays 1 wei to each of 2300 genesis accounts (code, a storage slot, a 26-byte balance) every 7-11 blocks of the first part, so that the layer merged into the disk layer carries more than 100 KB of account data and diffToDisk writes it in 3 batches; database images are taken as of the unit after the first / after the last but one batch of the first such merges (2 per chain, thorough 3) and as of arbitrary units (inside one of the first 40 blocks; inside the clean stop or the block after it; thorough also inside a block beyond 128 and two anywhere); on each image a node is built as at start-up (same cache configuration, snapshot on with SnapshotWait=false) and, beside the chain that goes on, applies the chain's blocks above the head it came up with, up to 16 (thorough 40) blocks beyond the crash; every block is compared (app hash, stored receipts / bloom / gas, returned validators, LatestBlockState, Store.Load) with what the never-crashed replicas made of it (violation keys end in crash-restarted-database); non-trivial = a height whose block produced at least one receipt and was compared on all replicas; distinct by (case, height)")
	r.Assume("commits are produced by signing precommits with the validator keys (consensus itself is not run in the replica groups; the simulated-network group runs it)")
	r.Assume("which transactions a proposer picks and in which order is not part of the property (pool iteration order is random by design); only the result of executing a given block is compared, and runs are compared across processes only where they executed the same block")
	r.Assume("validator reports in the replica groups are synthetic: the list the application returns is replaced, identically on all replicas but in replica-specific order, by a membership process over the genesis validators (all known to the staking contract); what ApplyBlock (calculateValidatorSetUpdates, updateState) makes of it is compared, not whether the staking contract would report it")
	r.Assume("replica configurations are those a node can be started with (mainchain/backend.go copies cache sizes, NoPruning, NoPrefetch, Preimages and SnapshotCache into blockchain.CacheConfig; --cache.snapshot=0 runs without the snapshot tree; SnapshotWait=false, i.e. background generation, is what backend.go passes); a restart is BlockChain.Stop (snapshot journal, head tries) followed by NewBlockChain on the same database, as Kardiachain.Stop / New do; a crash is the node's database as of some durable unit, opened with NewBlockChain (crash.go)")
	r.Assume("crash images: a Put, a Delete and the Write of a batch each reach the disk atomically and in program order (what leveldb's log gives), so the database after the first p recorded units is what a node killed at that moment finds; whether the node starts on such an image is C05's subject - images on which NewBlockChain or the state store fails or panics are counted with their error text (crash_images_the_node_refuses_to_start_on: ...) and not judged here; what a node that did start computes afterwards is judged here")
	r.Assume("a node restarted on a crash image is fed the blocks above its head from the chain the other replicas executed, on the consensus state (LatestBlockState) they held at that height: after a crash the stored consensus state can be ahead of the rewound chain head, and how a node gets back from there is C05's subject; losing the most recent blocks in a crash is legitimate, computing another result for a block or refusing a block the others accepted is not")
	r.Assume("how far the background snapshot generator has come when a block is executed is left to the scheduler (no hook stops it): whether a block overlaps with it is counted from the generator's progress record, not arranged; only the results of block execution are compared, and they must not depend on it")
	r.Assume("the snapshot tree is driven only by the node's own calls (StateDB.Commit: Update + Cap(root, 128)): merges into the disk layer are reached by chains longer than 128 blocks whose early blocks change 4 MiB of state (ballast writes inside the block gas limit), not by calling Cap with another budget; merges written in several database batches are reached by account data of more than 100 KB in one merged layer (the sprayer calls), with kaidb.IdealBatchSize as it is")

	r.Cases("valset", r.N(300, 20000), core.Opts{Workers: 16}, valsetCase)
	// chain-executing groups run in child processes: a crash inside a node's background goroutine is then attributed
	r.Cases("corpus", len(presets()), core.Opts{Procs: 2, Workers: 5, StallSec: 600}, corpusCase)
	r.Cases("replicas", r.N(20, 1500), core.Opts{Procs: 4, Workers: 4, StallSec: 600}, replicaCase)
	r.Cases("valreports", r.N(16, 600), core.Opts{Procs: 4, Workers: 4, StallSec: 600}, reportCase)
	r.Cases("long", r.N(2, 24), core.Opts{Procs: r.N(2, 8), Workers: 1, StallSec: 900}, longCase)

	// fresh child processes (different map hash seeds, cold caches): two groups run the same case list
	if !r.IsChild() && os.Getenv("VERIF_ONLY_CASE") == "" {
		dir, err := os.MkdirTemp("", "c06fp")
		if err != nil {
			r.Inconclusive("mkdtemp: " + err.Error())
		} else {
			defer os.RemoveAll(dir)
			n := r.N(12, 1500)
			env := []string{fpEnv + "=" + dir}
			r.Cases("procs-a", n, core.Opts{Procs: 4, Workers: 4, Env: env, StallSec: 600}, procCase)
			r.Cases("procs-b", n, core.Opts{Procs: 3, Workers: 3, Env: env, StallSec: 600}, procCase)
			a, b := readFingerprints(dir, "procs-a"), readFingerprints(dir, "procs-b")
			for i := 0; i < n; i++ {
				la, lb := a[i], b[i]
				if len(la) == 0 || len(lb) == 0 {
					continue
				}
				for k := 0; k < len(la) && k < len(lb); k++ {
					fa, fb := strings.Fields(la[k]), strings.Fields(lb[k])
					if len(fa) < 5 || len(fb) < 5 || fa[1] != fb[1] {
						r.Count("cross_process_blocks_not_comparable", 1)
						break
					}
					if la[k] != lb[k] {
						r.Violation(i, "procs-a", "result-differs:cross-process", fmt.Sprintf("case %d height %s, same block %s: (app hash, block info, state) = %v in one process, %v in another", i, fa[0], fa[1], fa[2:], fb[2:]),
							map[string]interface{}{"process_a": la, "process_b": lb, "note": "replay prints this process's result for the case; the scenario is a function of (seed, case index)"})
						break
					}
					r.Count("cross_process_heights_compared", 1)
				}
			}
			r.Floor("cross_process_heights_compared", int64(n*2))
		}
	} else {
		r.Cases("procs-a", r.N(12, 1500), core.Opts{Workers: 4}, procCase)
		r.Cases("procs-b", r.N(12, 1500), core.Opts{Workers: 3}, procCase)
	}

	r.Cases("network", r.N(3, 60), core.Opts{Procs: 3, Workers: 1, StallSec: 900}, networkCase)

	r.Floor("valset_change_sets", 200)
	r.Floor("pairwise_comparisons", 400)
	r.Floor("proposer_built_blocks", 10)
	r.Floor("hand_built_blocks", 100)
	r.Floor("blocks_with_skipped_txs", 10)
	r.Floor("blocks_with_logs", 50)
	r.Floor("comparisons_with_reopened_replica", 100)
	r.Floor("comparisons_snapshot_vs_trie_only", 300)
	r.Floor("validator_set_changes", 20)
	r.Floor("validator_set_changes_through_staking_txs", 2)
	r.Floor("corpus_scenarios", int64(len(presets())))
	r.Floor("repeat_heights_compared:in-process-repeat", 5)
	r.Floor("network_heights_with_txs", 3)
	r.Floor("networks", 2)
	r.Floor("blocks_with_evidence", 2)
	// storage workload: a contract with committed storage died and was re-created in the same block, and the block was compared between a replica with and one without the snapshot
	r.Floor("same_block_recreations", 10)
	r.Floor("same_block_recreations_over_committed_storage_compared_snapshot_vs_trie_only", 6)
	r.Floor("contract_self_destructs_of_storage_holders", 15)
	r.Floor("churn_slot_reads", 100)
	r.Floor("reads_of_never_written_slots", 8)
	// validator reports: same multiset, replica-specific orders
	r.Floor("validator_reports_compared", 40)
	r.Floor("validator_reports_in_3+_distinct_orders", 15)
	r.Floor("membership_swap_reports_compared", 10)
	r.Floor("membership_swap_reports_compared_mixed_powers", 4)
	// long chains: the disk layer of the long-running snapshot replica moved, and what was cleared / destroyed before was read / re-created afterwards
	r.Floor("long_chains", int64(r.N(2, 24)))
	r.Floor("blocks_beyond_128_layers", 80)
	r.Floor("snapshot_disk_layer_merges", 4)
	r.Floor("slots_cleared_after_their_value_reached_the_disk_layer", 2)
	r.Floor("reads_of_cleared_slots_after_the_clearing_reached_the_disk_layer", 6)
	r.Floor("reads_of_cleared_slots_whose_value_and_clearing_both_reached_the_disk_layer", 2)
	r.Floor("reads_of_slots_whose_value_is_in_the_disk_layer", 4)
	r.Floor("contracts_recreated_after_their_destruction_reached_the_disk_layer", 2)
	r.Floor("same_block_recreations_over_storage_in_the_disk_layer", 1)
	r.Floor("comparisons_after_a_disk_merge:snapshot_vs_trie_only", 40)
	r.Floor("comparisons_after_a_disk_merge:long_running_vs_restarted_since", 15)
	// creation workload: failed creations of every kind onto funded addresses nothing else touched in that block, and later uses of those addresses, compared between replicas with and without the snapshot
	r.Floor("failed_creations_onto_funded_untouched_addresses", 100)
	r.Floor("failed_creations_onto_funded_untouched_addresses:create", 15)
	r.Floor("failed_creations_onto_funded_untouched_addresses:create2", 20)
	r.Floor("failed_creations_onto_funded_untouched_addresses:creation-tx", 20)
	r.Floor("failed_creations_onto_funded_untouched_addresses:creation-in-a-reverted-call-frame", 5)
	for _, k := range initKinds {
		r.Floor("failed_creations_onto_funded_untouched_addresses:"+k, 5)
	}
	r.Floor("creation_addresses_funded_by_transfer", 20)
	r.Floor("uses_of_addresses_after_a_failed_creation", 100)
	r.Floor("uses_of_addresses_in_the_block_after_a_failed_creation", 40)
	r.Floor("uses_of_addresses_after_a_failed_creation_compared_snapshot_vs_trie_only", 100)
	r.Floor("uses_of_addresses_after_a_failed_creation:transfer", 20)
	r.Floor("uses_of_addresses_after_a_failed_creation:probe", 30)
	r.Floor("uses_of_addresses_after_a_failed_creation:successful-creation", 2)
	// trie garbage collection: the replica with the small dirty-cache allowance flushed several full batches through triedb.Cap, and was compared afterwards
	r.Floor("long_chains_with_a_trie_cap_flush", int64(r.N(2, 24)))
	r.Floor("trie_cap_flushes_observed_on_the_gc_replica", 4)
	r.Floor("trie_cap_flushes_of_several_full_batches", int64(r.N(2, 24)))
	r.Floor("comparisons_after_a_trie_cap_flush:flushing_vs_long_running_replica", 60)
	r.Floor("comparisons_after_a_trie_cap_flush:flushing_vs_archive_replica", 30)
	// crash-restarted replicas: images were taken inside disk-layer merges written in several batches, nodes came up on them,
	// re-executed the blocks they had lost and were compared
	r.Floor("disk_layer_merges_written_in_several_batches", int64(r.N(2, 24)))
	r.Floor("crash_images_taken:inside-multi-batch-disk-layer-merge", int64(r.N(2, 20)))
	r.Floor("restarts_from_images_taken_inside_a_multi_batch_disk_layer_merge", int64(r.N(2, 16)))
	r.Floor("restarts_from_crash_images", int64(r.N(3, 40)))
	r.Floor("crash_restarts_that_lost_blocks", int64(r.N(2, 20)))
	r.Floor("lost_blocks_reapplied_on_crash_images", int64(r.N(200, 2000)))
	r.Floor("comparisons_with_replica_crashed_inside_a_multi_batch_disk_layer_merge", int64(r.N(150, 1500)))
	r.Floor("comparisons_with_crash_restarted_replica", int64(r.N(250, 2500)))
	// snapshot generation in the background while blocks are executed (scheduler-dependent: the floor is far below what is usually seen)
	// (no floor on blocks_started_while_the_snapshot_generator_was_running: the overlap is up to the scheduler)
	r.Finish()
}
