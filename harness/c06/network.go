package c06

import (
	"fmt"
	"os"
	"os/signal"
	"sync"
	"syscall"

	"github.com/kardiachain/go-kardia/kai/rawdb"
	"github.com/kardiachain/go-kardia/mainchain/blockchain"
	"github.com/kardiachain/go-kardia/mainchain/genesis"

	"verifharness/c09/chainkit"
	"verifharness/c09/txgen"
	"verifharness/core"
	"verifharness/netsim"
)

// networkCase: a simulated network (real consensus state machines, netsim) whose nodes have
// different cache configurations; generated transactions are put into every node's pool between
// heights, so that every block is built by one node (CreateProposalBlock) and executed by all.
// The agreement monitor raises app-hash / validator-update differences; in addition the stored
// results of all nodes are compared at the end. Runs one network per process (virtual clock).
func networkCase(c *core.Case) {
	r, run := c.R, c.Run
	all := cacheConfigs()
	n := 3 + r.Intn(2)
	powers := make([]int64, n)
	for i := range powers {
		powers[i] = int64(20 + 10*r.Intn(3))
	}
	var galaxias *uint64
	gal := r.Intn(2) == 0
	if gal {
		z := uint64(0)
		galaxias = &z
	}
	val0 := chainkit.ValAddrOf(0)
	w := txgen.NewWorld(r, txgen.WorldOpts{Galaxias: gal, NEOA: 3, NContracts: 3, FixedCoinbase: &val0, RichEOAs: true, NoCollisions: true})
	fixedContracts(w)
	directedContracts(w)
	perm := r.Perm(len(all))
	cfgName := make([]string, n)
	net, err := netsim.NewNet(netsim.NetOpts{N: n, Powers: powers,
		Node: func(i int) netsim.NodeOpts {
			cfgName[i] = all[perm[i%len(perm)]].Name
			return netsim.NodeOpts{Cache: all[perm[i%len(perm)]].Cache}
		},
		Genesis: func(g *genesis.Genesis) { chainkit.AddWorld(g, w, galaxias) }})
	if err != nil {
		run.Inconclusive("network build failed: " + err.Error())
		if net != nil {
			net.Close()
		}
		return
	}
	defer net.Close()
	al := netsim.NewAlarms()
	hist := netsim.NewSetHistory(netsim.RefSetFrom(net.Correct()[0].CS.VerifState().Validators))
	net.Mons = []netsim.Monitor{netsim.NewAgreementMonitor(al, hist)}
	if err := net.StartAll(); err != nil {
		run.Inconclusive("network start failed: " + err.Error())
		return
	}
	// consensus sends SIGTERM to its own process when ApplyBlock fails on a committed block: catch it and report it
	sigOnce.Do(func() { signal.Notify(sig, syscall.SIGTERM) }) // stays installed: nodes of a finished case may still ask for it
	for len(sig) > 0 {
		<-sig
	}
	heights := 4 + r.Intn(4)
	wit := func() map[string]interface{} {
		return map[string]interface{}{"validators": n, "powers": powers, "cache_configs": cfgName, "galaxias": gal, "heights": net.Heights(), "schedule_tail": net.TailSched(60)}
	}
	for h := 1; h <= heights; h++ {
		specs := planTxs(r, w, net.Nodes[0].BC, uint64(h), nil, planOpts{Random: -1, Directed: true, PoolGas: 3000000})
		accepted := 0
		for _, s := range specs {
			tx := s.Sign(w)
			ok := false
			for _, nd := range net.Nodes {
				if nd != nil && nd.Pool.AddLocal(tx) == nil {
					ok = true
				}
			}
			if ok {
				accepted++
			}
		}
		run.Count("network_txs_accepted_by_pools", accepted)
		res := net.RunSync(uint64(h), uint32(10*n), nil)
		select {
		case <-sig:
			c.Violation("committed-block-not-applicable-on-a-node:network", fmt.Sprintf("height %d: a node failed to apply a block the network committed (consensus asked for the process to be killed); other nodes: %s", h, net.Heights()), wit())
			return
		default:
		}
		if !res.Reached {
			// liveness is C04's subject; without commits there is nothing to compare (the floor on "networks" guards the workload)
			run.Count("networks_abandoned_no_progress", 1)
			return
		}
	}
	run.Eval(1)
	for k, v := range al.Counts {
		run.Count("net:"+k, v)
	}
	for _, a := range al.List {
		if a.Prop == "C06" {
			c.Violation(a.Key+":network", a.What, wit())
			return
		}
		run.Count("alarm_of_other_property:"+a.Prop+":"+a.Key, 1)
	}
	// stored results, node by node
	var ref *netsim.Node
	counted := false
	for _, nd := range net.Nodes {
		if nd == nil || nd.Dead {
			continue
		}
		if ref == nil {
			ref = nd
			continue
		}
		for h := uint64(1); h <= uint64(heights); h++ {
			b0, b1 := ref.BC.GetBlockByHeight(h), nd.BC.GetBlockByHeight(h)
			if b0 == nil || b1 == nil || b0.Hash() != b1.Hash() {
				run.Count("network_heights_not_comparable", 1)
				continue
			}
			i0, i1 := canonInfo(chainkit.RawBlockInfo(ref.DB, b0.Hash(), h)), canonInfo(chainkit.RawBlockInfo(nd.DB, b1.Hash(), h))
			a0, a1 := rawdb.ReadAppHash(ref.DB, h), rawdb.ReadAppHash(nd.DB, h)
			switch {
			case a0 != a1:
				c.Violation("app-hash-differs:network", fmt.Sprintf("height %d: node %d (%s) stored app hash %x, node %d (%s) %x", h, ref.Idx, cfgName[ref.Idx], a0[:6], nd.Idx, cfgName[nd.Idx], a1[:6]), wit())
				return
			case i0 != i1:
				c.Violation("block-info-differs:network", fmt.Sprintf("height %d: node %d (%s) vs node %d (%s): %s", h, ref.Idx, cfgName[ref.Idx], nd.Idx, cfgName[nd.Idx], firstDiff(i0, i1)), wit())
				return
			}
			run.Count("network_pairwise_comparisons", 1)
			if !counted {
				if len(b0.Transactions()) > 0 {
					run.Count("network_heights_with_txs", 1)
					run.Count("network_txs_in_blocks", len(b0.Transactions()))
					run.Nontrivial(fmt.Sprintf("net/%d/%d", c.I, h))
				}
			}
		}
		counted = true
		if s0, s1 := canonState(ref.Store.Load()), canonState(nd.Store.Load()); s0 != s1 {
			c.Violation("latest-block-state-differs:network", fmt.Sprintf("node %d (%s) vs node %d (%s): %s", ref.Idx, cfgName[ref.Idx], nd.Idx, cfgName[nd.Idx], firstDiff(s0, s1)), wit())
			return
		}
	}
	run.Count("networks", 1)
	run.Distinct("network_config", fmt.Sprint(n, cfgName))
}

var _ = blockchain.CacheConfig{}

var (
	sig     = make(chan os.Signal, 64)
	sigOnce sync.Once
)
