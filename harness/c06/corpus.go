package c06

import (
	"verifharness/core"
)

// The fixed corpus: scenario shapes at which the listed mutations show
// (receipts built in another order, wall-clock / node-local values in the
// execution environment, stale snapshot reads across consecutive blocks,
// validator lists reported in another order, the fork block itself).
func presets() []scenarioOpts {
	all := cacheConfigs()
	four := []repCfg{all[0], all[1], all[2], all[4]}
	six := all
	return []scenarioOpts{
		{NVals: 1, Powers: []int64{20}, Galaxias: "never", Heights: 4, Replicas: four, HandOnly: true},
		{NVals: 1, Powers: []int64{20}, Galaxias: "genesis", Heights: 4, Replicas: four, HandOnly: true},
		{NVals: 4, Powers: []int64{20, 30, 40, 50}, Galaxias: "never", Heights: 6, Replicas: four, ValHook: true, Reopen: true},
		{NVals: 4, Powers: []int64{50, 20, 20, 20}, Galaxias: "genesis", Heights: 6, Replicas: six, ValHook: true, Reopen: true},
		{NVals: 2, Powers: []int64{20, 20}, Galaxias: "cross", ForkHeight: 2, Heights: 4, Replicas: four},
		{NVals: 3, Powers: []int64{20, 30, 40}, Galaxias: "cross", ForkHeight: 3, Heights: 5, Replicas: four, Reopen: true},
		{NVals: 1, Powers: []int64{20}, Galaxias: "never", Heights: 10, Replicas: []repCfg{all[0], all[1], all[4]}, Reopen: true},
		{NVals: 3, Powers: []int64{20, 20, 20}, Galaxias: "genesis", Heights: 8, Replicas: []repCfg{all[1], all[0], all[3], all[5]}, ValHook: true},
		{NVals: 3, Powers: []int64{20, 30, 40}, Galaxias: "never", Heights: 8, Replicas: four, Staking: true, Reopen: true},
		{NVals: 2, Powers: []int64{20, 20}, Galaxias: "genesis", Heights: 8, Replicas: four, Staking: true},
		{NVals: 4, Powers: []int64{20, 20, 20, 20}, Galaxias: "never", Heights: 7, Replicas: four, Evidence: true, Reopen: true},
		{NVals: 4, Powers: []int64{40, 20, 30, 20}, Galaxias: "genesis", Heights: 7, Replicas: four, Evidence: true},
		// the storage script (directed.go, storageScript): first replica with, then without the snapshot tree; the third one is restarted
		{NVals: 1, Powers: []int64{20}, Galaxias: "never", Heights: scriptHeights, Replicas: four, HandOnly: true, Long: storageScript()},
		{NVals: 2, Powers: []int64{20, 20}, Galaxias: "genesis", Heights: scriptHeights, Replicas: []repCfg{all[1], all[6], all[7], all[3]}, HandOnly: true, Long: storageScript()},
		// the creation script (creations.go, creationScript): failed creations of every kind onto funded addresses, used in later blocks
		{NVals: 1, Powers: []int64{20}, Galaxias: "never", Heights: creationHeights, Replicas: four, HandOnly: true, Forge: creationScript()},
		{NVals: 2, Powers: []int64{20, 20}, Galaxias: "genesis", Heights: creationHeights, Replicas: []repCfg{all[1], all[6], all[7], all[3]}, Forge: creationScript(), Reopen: true},
		// validator reports at most heights: equal powers (as in the shipped genesis files), two levels, mixed
		{NVals: 4, Powers: []int64{20, 20, 20, 20}, Galaxias: "never", Heights: 9, Replicas: four, ValHook: true, ValDensity: 10},
		{NVals: 5, Powers: []int64{20, 20, 20, 30, 30}, Galaxias: "genesis", Heights: 10, Replicas: four, ValHook: true, ValDensity: 10, HandOnly: true},
		{NVals: 6, Powers: []int64{20, 40, 20, 40, 20, 40}, Galaxias: "never", Heights: 10, Replicas: six[:5], ValHook: true, ValDensity: 10, Restarts: true},
	}
}

func corpusCase(c *core.Case) {
	ps := presets()
	if c.I >= len(ps) {
		return
	}
	r := c.Run.Rng("corpus-scenario", c.I)
	if runScenario(c, r, ps[c.I], "corpus") != nil {
		c.Run.Count("corpus_scenarios", 1)
	}
}
