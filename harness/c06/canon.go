package c06

import (
	"crypto/sha256"
	"fmt"
	"sort"
	"strings"

	"github.com/kardiachain/go-kardia/kai/state/cstate"
	"github.com/kardiachain/go-kardia/types"
)

// Canonical serializations: every field that the property lists, rendered the
// same way on every replica, so that "equal" means byte-equal strings.

func canonValSet(vs *types.ValidatorSet) string {
	if vs == nil {
		return "nil"
	}
	var b strings.Builder
	for _, v := range vs.Validators {
		fmt.Fprintf(&b, "%x:%d:%d,", v.Address[:], v.VotingPower, v.ProposerPriority)
	}
	if vs.Proposer != nil {
		fmt.Fprintf(&b, "proposer=%x:%d", vs.Proposer.Address[:], vs.Proposer.ProposerPriority)
	}
	fmt.Fprintf(&b, " total=%d", vs.TotalVotingPower())
	return b.String()
}

// canonState renders a LatestBlockState completely (its own Bytes() only carries hashes of
// address+power, not the proposer priorities).
func canonState(s cstate.LatestBlockState) string {
	cp, _ := s.ConsensusParams.Marshal()
	return fmt.Sprintf("chain=%s init=%d h=%d totaltx=%d id=%x/%d/%x time=%d app=%x changed=%d cpchanged=%d cp=%x\n last=%s\n cur=%s\n next=%s",
		s.ChainID, s.InitialHeight, s.LastBlockHeight, s.LastBlockTotalTx, s.LastBlockID.Hash[:], s.LastBlockID.PartsHeader.Total, s.LastBlockID.PartsHeader.Hash[:],
		s.LastBlockTime.UnixNano(), s.AppHash[:], s.LastHeightValidatorsChanged, s.LastHeightConsensusParamsChanged, cp,
		canonValSet(s.LastValidators), canonValSet(s.Validators), canonValSet(s.NextValidators))
}

// canonInfo renders the stored execution result of a block: per receipt status, cumulative gas,
// bloom and logs (address, topics, data) in stored order, block gas used, rewards and bloom.
func canonInfo(bi *types.BlockInfo) string {
	if bi == nil {
		return "nil"
	}
	var b strings.Builder
	fmt.Fprintf(&b, "gas=%d rewards=%v bloom=%x n=%d\n", bi.GasUsed, bi.Rewards, sha256.Sum256(bi.Bloom[:]), len(bi.Receipts))
	for i, r := range bi.Receipts {
		fmt.Fprintf(&b, " r%d st=%d cum=%d bloom=%x tx=%x caddr=%x gasUsed=%d", i, r.Status, r.CumulativeGasUsed, sha256.Sum256(r.Bloom[:]), r.TxHash[:4], r.ContractAddress[:], r.GasUsed)
		for _, l := range r.Logs {
			fmt.Fprintf(&b, " log{%x %x %x}", l.Address[:], l.Topics, l.Data)
		}
		b.WriteString("\n")
	}
	return b.String()
}

func digest(s string) string { return fmt.Sprintf("%x", sha256.Sum256([]byte(s)))[:16] }

// firstDiff points at the first line in which two renderings differ.
func firstDiff(a, b string) string {
	la, lb := strings.Split(a, "\n"), strings.Split(b, "\n")
	for i := 0; i < len(la) || i < len(lb); i++ {
		x, y := "", ""
		if i < len(la) {
			x = la[i]
		}
		if i < len(lb) {
			y = lb[i]
		}
		if x != y {
			// long lines (a LatestBlockState, a validator set): show the neighbourhood of the first difference
			k := 0
			for k < len(x) && k < len(y) && x[k] == y[k] {
				k++
			}
			from := k - 80
			if from < 0 {
				from = 0
			}
			pre := ""
			if from > 0 {
				pre = "..."
			}
			return fmt.Sprintf("line %d, offset %d: %q vs %q", i, k, pre+clip(x[from:], 300), pre+clip(y[from:], 300))
		}
	}
	return ""
}

func clip(s string, n int) string {
	if len(s) > n {
		return s[:n] + "..."
	}
	return s
}

func sortedKeys(m map[string]string) []string {
	var k []string
	for x := range m {
		k = append(k, x)
	}
	sort.Strings(k)
	return k
}
