package c06

import (
	"fmt"
	"math/big"
	"math/rand"
	"time"

	"github.com/kardiachain/go-kardia/kai/rawdb"
	"github.com/kardiachain/go-kardia/lib/common"
	"github.com/kardiachain/go-kardia/types"

	"verifharness/c09/chainkit"
	"verifharness/c09/txgen"
	"verifharness/core"
)

// Long chains. A node keeps the changes of the last 128 blocks as snapshot diff layers
// (StateDB.Commit: snaps.Cap(root, 128)); older layers are flattened into an accumulator layer, and
// the accumulator is merged into the disk layer (database + clean cache, diffToDisk) once it holds
// 4 MiB. Likewise tries are only garbage-collected / flushed beyond 128 blocks
// (BlockChain.writeBlockWithState). None of this happens in a chain of ten blocks. The chains here
// are longer than 128 + (blocks needed for 4 MiB of changes) + (the same again), with a ballast
// contract rewriting a few thousand slots per block in the first part (well inside the block gas
// limit CreateProposalBlock sets), so that the disk layer of a long-running replica moves several
// times, and with slots / contracts that are written early, cleared or destroyed later, and read or
// re-created after the layers holding those changes were merged into the disk layer. The replicas:
// a long-running node with the snapshot, a long-running node without it, a node that is stopped and
// reopened (journal written and loaded as BlockChain.Stop / NewBlockChain do; cold clean caches)
// at several heights, and one more configuration (tiny caches: tries flushed every block beyond 128,
// archive, node defaults, ...). One replica (replica 0 itself, or a fifth one) runs on a database that
// records every durable unit: crash images are taken of it and nodes restarted on them (crash.go).

const (
	coldSlots   = 40    // churn slots 0x100.. : empty in the genesis state
	presetSlots = 12    // churn slots 0x200.. : hold a value in the genesis state (i.e. in the generated disk layer)
	coldBase    = 0x100 //
	presetBase  = 0x200 //
)

// ballastPrefill: slots the ballast contract of a long chain holds in the genesis state (far from the ones the chain
// rewrites): generating the snapshot of this state takes about as long as executing a few blocks, as on a real chain.
const ballastPrefill = 10000

func prefillBallast(w *txgen.World, n uint64) {
	acc := w.Accounts[ballastAddr]
	if acc.Storage == nil {
		acc.Storage = map[common.Hash]common.Hash{}
	}
	for k := uint64(0); k < n; k++ {
		acc.Storage[slotKey(1<<40+k)] = slotKey(1<<48 + k)
	}
}

// crowdN accounts with code (STOP), one storage slot and a balance of 26 bytes: about 96 bytes each in the snapshot. A
// sprayer call (planned every 7-11 blocks in the first part of a long chain) pays each of them 1 wei, so the layer of
// that block carries some 220 KB of account data: merging it into the disk layer takes three database batches
// (diffToDisk flushes its batch whenever the account values in it exceed 100 KB).
const crowdN = 2300

func prefillCrowd(w *txgen.World) {
	w.Accounts[sprayAddr] = &txgen.Account{Balance: big.NewInt(1000000000000), Nonce: 1, Code: sprayerCode()}
	for i := uint64(0); i < crowdN; i++ {
		bal := new(big.Int).Lsh(big.NewInt(1), 200)
		w.Accounts[crowdAddr(i)] = &txgen.Account{Balance: bal.Add(bal, new(big.Int).SetUint64(i)), Nonce: 1, Code: []byte{0},
			Storage: map[common.Hash]common.Hash{slotKey(0): slotKey(1)}}
	}
}

func sprayData(n, from uint64) []byte { return append(word(n), word(from)...) }

type longEvent struct {
	From  int
	Churn []churnRec
	Op    string // phoenix operation
	Salt  uint64
	Class string
}

type longPlan struct {
	Heights      int
	BallastUntil int
	BallastN     uint64
	Restart      map[int][]int          `json:"restart_replica_before_heights"`
	Reconfig     map[int]map[int]string `json:"reopen_replica_with_configuration,omitempty"` // replica -> height -> configuration it is reopened with (an operator changing the flags)
	Events       int                    `json:"planned_events"`
	Spray        []int                  `json:"sprayer_call_at_heights,omitempty"` // the sprayer pays every crowd account 1 wei
	Crash        *crashPlan             `json:"crash_restart_replica,omitempty"`   // crash.go
	events       map[int][]longEvent
}

func (p *longPlan) add(h int, e longEvent) {
	if h < 1 {
		h = 1
	}
	if h > p.Heights {
		h = p.Heights
	}
	p.events[h] = append(p.events[h], e)
	p.Events++
}

// specsAt returns the planned transactions of a height (nonces are assigned by planTxs).
func (p *longPlan) specsAt(h int, nEOA int) []*txgen.TxSpec {
	var out []*txgen.TxSpec
	if h <= p.BallastUntil {
		gas := p.BallastN*6200 + 200000
		if h == 1 {
			gas = p.BallastN*21000 + 200000
		}
		out = append(out, directedSpec(0, ballastAddr, ballastData(p.BallastN, 0, uint64(h)), gas, 0, "ballast"))
	}
	for _, s := range p.Spray {
		if s == h {
			out = append(out, directedSpec(1%nEOA, sprayAddr, sprayData(crowdN, 0), crowdN*12000+100000, 0, "spray"))
		}
	}
	for _, e := range p.events[h] {
		from := e.From % nEOA
		if e.Churn != nil {
			out = append(out, churnSpec(from, e.Class, e.Churn...))
		} else {
			out = append(out, phoenixSpec(from, e.Op, e.Salt, 0))
		}
	}
	return out
}

func drawLongPlan(r *rand.Rand, quick bool) *longPlan {
	L := 178 + r.Intn(30)
	if !quick {
		L = 180 + r.Intn(120)
	}
	p := &longPlan{Heights: L, BallastUntil: L - 128, BallastN: uint64(3600 + r.Intn(1000)), Restart: map[int][]int{}, events: map[int][]longEvent{}}
	gap := func() int {
		if r.Intn(3) == 0 {
			return 1 + r.Intn(3)
		}
		return 5 + r.Intn(36)
	}
	tail := func() int { return L - r.Intn(10) }
	churn := func(h int, class string, slot, val uint64, write bool) {
		p.add(h, longEvent{From: r.Intn(3), Churn: []churnRec{{slot, val, write}}, Class: class})
	}
	// slots that are empty at genesis
	for k := uint64(0); k < coldSlots; k++ {
		s, v := coldBase+k, 1000+k
		t := 1 + r.Intn(15)
		switch r.Intn(5) {
		case 0:
			churn(t, "churn-set", s, v, true)
			churn(t+gap(), "churn-clear", s, 0, true)
		case 1:
			churn(t, "churn-set", s, v, true)
			t += gap()
			churn(t, "churn-clear", s, 0, true)
			t += gap()
			churn(t, "churn-set", s, v+1, true)
			churn(t+gap(), "churn-clear", s, 0, true)
		case 2:
			churn(t, "churn-set", s, v, true)
			t += gap()
			churn(t, "churn-read", s, 0, false)
			churn(t+gap(), "churn-clear", s, 0, true)
		case 3:
			churn(t, "churn-clear", s, 0, true) // never set
		default:
			churn(t, "churn-set", s, v, true)
			churn(t+gap(), "churn-set", s, v+7, true)
		}
		if r.Intn(2) == 0 {
			churn(L-11-r.Intn(40), "churn-read", s, 0, false)
		}
		churn(tail(), "churn-read", s, 0, false)
	}
	// slots that hold a value at genesis
	for k := uint64(0); k < presetSlots; k++ {
		s := presetBase + k
		t := 2 + r.Intn(20)
		switch r.Intn(3) {
		case 0:
			churn(t, "churn-clear", s, 0, true)
		case 1:
			churn(t, "churn-read", s, 0, false)
			churn(t+gap(), "churn-clear", s, 0, true)
		default:
			churn(t, "churn-set", s, 77+k, true)
			churn(t+gap(), "churn-clear", s, 0, true)
		}
		churn(tail(), "churn-read", s, 0, false)
	}
	// the factory's planned children: even salts exist at genesis (with storage), odd ones are created in the first blocks
	ph := func(h int, op string, salt uint64, from int) { p.add(h, longEvent{From: from, Op: op, Salt: salt}) }
	for salt := uint64(2); salt < nSalts; salt++ {
		from := r.Intn(3)
		if salt%2 == 1 {
			ph(1+r.Intn(4), "create", salt, from)
		}
		t := 7 + r.Intn(35)
		if r.Intn(2) == 0 {
			ph(t-1, "poke", salt, from) // in use before
		}
		t2 := tail() - 1
		switch r.Intn(6) {
		case 0: // dies and is re-created in the same block, early
			ph(t, "kill", salt, from)
			ph(t, "create", salt, from)
			ph(t, "poke", salt, from)
			ph(tail(), "poke", salt, from)
		case 1, 2: // dies early, is re-created after its destruction was merged into the disk layer
			ph(t, "kill", salt, from)
			ph(t2, "create", salt, from)
			ph(t2+1, "poke", salt, from)
		case 3: // dies early, is called (an empty account by then) much later
			ph(t, "kill", salt, from)
			ph(tail(), "poke", salt, from)
		case 4:
			ph(t, "kill", salt, from)
			t += gap()
			ph(t, "create", salt, from)
			ph(t, "poke", salt, from)
			ph(t+gap(), "kill", salt, from)
			ph(t2, "create", salt, from)
			ph(t2+1, "poke", salt, from)
		default: // lives on: used, cleared, used again much later
			ph(t, "poke", salt, from)
			ph(t+gap(), "clear", salt, from)
			ph(tail(), "poke", salt, from)
		}
		if r.Intn(3) == 0 { // late: dies and is re-created in one block when everything it ever wrote is long on disk
			t3 := L - 12 - r.Intn(20)
			ph(t3, "create", salt, from) // (fails if alive)
			ph(t3+1, "kill", salt, from)
			ph(t3+1, "create", salt, from)
			ph(t3+1, "poke", salt, from)
		}
	}
	// restarts: replica 2 several times (one of them late), replica 3 sometimes once
	p.Restart[2] = []int{20 + r.Intn(L-60), L - 40 + r.Intn(26), 2 + r.Intn(L-2)}
	if r.Intn(2) == 0 {
		p.Restart[3] = []int{2 + r.Intn(L-2)}
	}
	return p
}

func longCase(c *core.Case) {
	r := c.Run.Rng("long-scenario", c.I)
	plan := drawLongPlan(r, c.Run.Quick())
	o := scenarioOpts{NVals: 1 + r.Intn(2), Galaxias: "never", Heights: plan.Heights, HandOnly: true, Long: plan}
	for i := 0; i < o.NVals; i++ {
		o.Powers = append(o.Powers, 20)
	}
	if r.Intn(2) == 0 {
		o.Galaxias = "genesis"
	}
	// replica 0: a long-running node with the snapshot whose dirty trie cache never fills (nothing reaches its disk but
	// through the snapshot); replica 1: a long-running trie-only node with a small dirty-cache allowance (beyond 128 blocks
	// triedb.Cap writes its oldest trie nodes to disk); replica 2 is stopped and reopened; replica 3: an archive node in every
	// other chain (every trie on disk at once), any of the remaining configurations in the others
	first := []string{"default", "node-defaults", "preimages"}
	fourth := []string{"tiny-caches", "archive-node", "dirty-disabled", "node-defaults", "noprefetch+snapshots-off+dirty-disabled", "small-dirty-cache"}
	switch c.I % 3 {
	case 0:
		fourth = []string{"archive-node", "dirty-disabled", "noprefetch+snapshots-off+dirty-disabled"}
	case 1:
		// a node that ran without the snapshot and is reopened with it while the chain is busy (and back, and again): what
		// backend.go passes (SnapshotWait=false) makes NewBlockChain start the generator in the background and return, so the
		// next blocks are executed while the snapshot of a state with a few thousand slots is still being generated
		fourth = []string{"snapshots-off"}
		cycle := []string{"node-defaults", "node-defaults", "snapshots-off", "archive-node", "node-defaults", "snapshots-off", "node-defaults", "archive-node"}
		h := 6 + r.Intn(6)
		plan.Restart[3], plan.Reconfig = nil, map[int]map[int]string{3: {}}
		for k := 0; h < plan.BallastUntil && k < 8; k++ {
			plan.Restart[3] = append(plan.Restart[3], h)
			plan.Reconfig[3][h] = cycle[k%len(cycle)]
			h += 1 + r.Intn(4)
		}
	}
	o.Replicas = []repCfg{cfgByName(first[r.Intn(len(first))]), cfgByName("snapshots-off+small-dirty-cache"), cfgByName("default"), cfgByName(fourth[r.Intn(len(fourth))])}
	// crash images (crash.go): the recorded replica is replica 0 itself or a fifth one, and the sprayer calls make disk-layer
	// merges larger than one database batch (all drawn from a stream of their own)
	rc := c.Run.Rng("long-crash", c.I)
	for s := 3 + rc.Intn(5); s <= plan.Heights-141; s += 7 + rc.Intn(5) {
		plan.Spray = append(plan.Spray, s)
	}
	plan.Crash = drawCrashPlan(rc, c.Run.Quick(), c.I, plan.Heights, len(o.Replicas))
	if plan.Crash.Replica == len(o.Replicas) {
		o.Replicas = append(o.Replicas, crashCfg(plan.Crash.Variant))
		if plan.Crash.Variant == crashEarlyStop {
			plan.Restart[plan.Crash.Replica] = []int{6 + rc.Intn(5)} // one early clean stop: the only tries this replica ever writes
		}
	}
	if runScenario(c, r, o, "long") != nil {
		c.Run.Count("long_chains", 1)
	}
}

// ---------------------------------------------------------------- what a long chain reached

// longObserver follows the disk layer of replica 0 (rawdb.ReadSnapshotRoot of its database: the
// state root the persistent layer stands at) and the tracked slots / contracts, and counts the
// situations the chain was built for. It decides nothing.
type longObserver struct {
	run        *core.Run
	roots      map[common.Hash]int // state root -> height
	disk       int                 // height the disk layer of replica 0 stands at
	merges     int
	firstMerge int
	val        map[uint64]common.Hash
	setAt      map[uint64]int
	clearedAt  map[uint64]int
	wasOnDisk  map[uint64]bool
	bornAt     map[common.Address]int
	deadSince  map[common.Address]int
	// the garbage-collecting replica with the small dirty-cache allowance (never stopped: nothing but triedb.Cap writes its tries)
	gc       int                // its index (-1: none)
	rootAt   []common.Hash      // state root by height
	gcOnDisk int                // highest height whose state root is in its database
	gcDirty  common.StorageSize // its dirty trie cache after the previous block
	firstCap int                // height of the first observed flush
}

func trackedSlots() []uint64 {
	var out []uint64
	for k := uint64(0); k < coldSlots; k++ {
		out = append(out, coldBase+k)
	}
	for k := uint64(0); k < presetSlots; k++ {
		out = append(out, presetBase+k)
	}
	return out
}

func newLongObserver(run *core.Run, ch0 *chainkit.Chain) *longObserver {
	lo := &longObserver{run: run, roots: map[common.Hash]int{ch0.State.AppHash: 0, rawdb.ReadAppHash(ch0.N.DB, 0): 0}, val: map[uint64]common.Hash{}, setAt: map[uint64]int{}, clearedAt: map[uint64]int{},
		wasOnDisk: map[uint64]bool{}, bornAt: map[common.Address]int{}, deadSince: map[common.Address]int{}}
	for k := uint64(0); k < presetSlots; k++ {
		lo.val[presetBase+k] = slotKey(0x50 + k)
	}
	for s := uint64(0); s < nSalts; s += 2 {
		lo.bornAt[childAddr(s)] = 0
	}
	if d, ok := lo.roots[rawdb.ReadSnapshotRoot(ch0.N.DB)]; ok {
		lo.disk = d
	}
	lo.gc, lo.rootAt = -1, []common.Hash{ch0.State.AppHash}
	return lo
}

// capWatch follows the database of the long-running replica with the small dirty-cache allowance: it is never stopped
// and its time allowance (5 minutes of block processing) is out of reach, so a state root of a block above the genesis
// appears in its database only when triedb.Cap flushed the nodes up to it.
func (lo *longObserver) capWatch(h int, rs *replicaSet) {
	run := lo.run
	lo.rootAt = append(lo.rootAt, rs.chains[0].State.AppHash)
	if lo.gc < 0 {
		for i, c := range rs.cfgs {
			if c.Cache != nil && !c.Cache.TrieDirtyDisabled && c.Cache.TrieDirtyLimit == 1 && c.Cache.TrieTimeLimit >= time.Minute && rs.restarts[i] == 0 {
				lo.gc = i
				break
			}
		}
		if lo.gc < 0 {
			return
		}
	}
	if rs.restarts[lo.gc] > 0 {
		return
	}
	ch := rs.chains[lo.gc]
	st, err := ch.N.BC.State()
	if err != nil {
		return
	}
	dirty, _ := st.Database().TrieDB().Size()
	run.Max("gc_replica_dirty_trie_cache_max_kib", int64(dirty/1024))
	adv := false
	for lo.gcOnDisk+1 < len(lo.rootAt) {
		if ok, _ := ch.N.DB.Has(lo.rootAt[lo.gcOnDisk+1].Bytes()); !ok {
			break
		}
		lo.gcOnDisk++
		adv = true
	}
	if adv {
		run.Count("trie_cap_flushes_observed_on_the_gc_replica", 1)
		if lo.firstCap == 0 {
			lo.firstCap = h
			run.Count("long_chains_with_a_trie_cap_flush", 1)
		}
		if lo.gcDirty > dirty {
			run.Max("trie_cap_largest_observed_flush_kib", int64((lo.gcDirty-dirty)/1024))
			if lo.gcDirty-dirty >= 200*1024 {
				run.Count("trie_cap_flushes_of_several_full_batches", 1)
			}
		}
	}
	lo.gcDirty = dirty
	if lo.firstCap > 0 && h > lo.firstCap {
		archive := false
		for i, c := range rs.cfgs {
			if i != lo.gc && c.Cache != nil && c.Cache.TrieDirtyDisabled {
				archive = true
			}
		}
		// (every replica is compared with replica 0 in every block: equal results of the flushing replica and of an archive replica follow)
		run.Count("comparisons_after_a_trie_cap_flush:flushing_vs_long_running_replica", 1)
		if archive {
			run.Count("comparisons_after_a_trie_cap_flush:flushing_vs_archive_replica", 1)
		}
	}
}

func (lo *longObserver) after(h int, rs *replicaSet, bi *types.BlockInfo) {
	run := lo.run
	diskBefore := lo.disk // the disk layer block h was executed on
	// first access of each churn slot in this block
	seen := map[uint64]bool{}
	if bi != nil {
		for _, rc := range bi.Receipts {
			for _, l := range rc.Logs {
				if l.Address != churnAddr || len(l.Topics) != 1 {
					continue
				}
				s := l.Topics[0].Big().Uint64()
				if seen[s] {
					continue
				}
				seen[s] = true
				if !(s >= coldBase && s < coldBase+coldSlots) && !(s >= presetBase && s < presetBase+presetSlots) {
					continue
				}
				if lo.val[s] == (common.Hash{}) && lo.clearedAt[s] > 0 && lo.clearedAt[s] <= diskBefore {
					run.Count("reads_of_cleared_slots_after_the_clearing_reached_the_disk_layer", 1)
					if lo.wasOnDisk[s] {
						run.Count("reads_of_cleared_slots_whose_value_and_clearing_both_reached_the_disk_layer", 1)
					}
				}
				if lo.val[s] != (common.Hash{}) && lo.setAt[s] <= diskBefore {
					run.Count("reads_of_slots_whose_value_is_in_the_disk_layer", 1)
				}
			}
		}
	}
	// the tracked slots after the block, read from a trie-only replica (its reads do not touch any snapshot cache)
	src := rs.chains[0]
	for i, c := range rs.cfgs {
		if !c.Snap {
			src = rs.chains[i]
			break
		}
	}
	if st, err := src.N.BC.State(); err == nil {
		for _, s := range trackedSlots() {
			old, now := lo.val[s], st.GetState(churnAddr, slotKey(s))
			switch {
			case old == now:
			case now == (common.Hash{}):
				lo.clearedAt[s], lo.wasOnDisk[s] = h, lo.setAt[s] <= diskBefore
				if lo.wasOnDisk[s] {
					run.Count("slots_cleared_after_their_value_reached_the_disk_layer", 1)
				}
			default:
				lo.setAt[s], lo.clearedAt[s] = h, 0
			}
			lo.val[s] = now
		}
	}
	// contracts
	killed := map[common.Address]bool{}
	for _, ev := range readStory(bi).Events {
		switch ev.Kind {
		case "kill":
			killed[ev.Addr] = true
			lo.deadSince[ev.Addr] = h
		case "create":
			if killed[ev.Addr] {
				if b, ok := lo.bornAt[ev.Addr]; ok && b <= diskBefore {
					run.Count("same_block_recreations_over_storage_in_the_disk_layer", 1)
				}
			} else if d := lo.deadSince[ev.Addr]; d > 0 && d <= diskBefore {
				run.Count("contracts_recreated_after_their_destruction_reached_the_disk_layer", 1)
			}
			lo.deadSince[ev.Addr], lo.bornAt[ev.Addr] = 0, h
		}
	}
	lo.capWatch(h, rs)
	// where the disk layer stands now
	lo.roots[rs.chains[0].State.AppHash] = h
	if d, ok := lo.roots[rawdb.ReadSnapshotRoot(rs.chains[0].N.DB)]; !ok {
		run.Count("snapshot_disk_root_not_a_known_state_root", 1)
	} else if d != lo.disk {
		lo.disk = d
		lo.merges++
		if lo.firstMerge == 0 {
			lo.firstMerge = h
		}
		run.Count("snapshot_disk_layer_merges", 1)
	}
	if h > 128 {
		run.Count("blocks_beyond_128_layers", 1)
	}
	if lo.firstMerge > 0 {
		for i := 1; i < len(rs.chains); i++ {
			if !rs.cfgs[i].Snap {
				run.Count("comparisons_after_a_disk_merge:snapshot_vs_trie_only", 1)
			}
			if rs.lastRestart[i] > lo.firstMerge {
				run.Count("comparisons_after_a_disk_merge:long_running_vs_restarted_since", 1)
			}
		}
	}
}

func (lo *longObserver) finish(heights int) {
	lo.run.Max("long_chain_disk_merges_max", int64(lo.merges))
	lo.run.Distinct("long_chain_shapes", fmt.Sprint(heights, lo.merges))
}
