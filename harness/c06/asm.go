package c06

import (
	"fmt"
	"math/big"

	"github.com/kardiachain/go-kardia/kvm"
)

// prog is a small assembler with labels (the generated value-moving programs of txgen are straight-line;
// the storage workloads below need loops and a dispatch on the call data).
type prog struct {
	b      []byte
	labels map[string]int
	fix    []fixup
}

type fixup struct {
	pos  int
	name string
}

func newProg() *prog { return &prog{labels: map[string]int{}} }

func (p *prog) op(ops ...kvm.OpCode) *prog {
	for _, o := range ops {
		p.b = append(p.b, byte(o))
	}
	return p
}

// push pushes v with the shortest PUSHn.
func (p *prog) push(v uint64) *prog { return p.pushBytes(new(big.Int).SetUint64(v).Bytes()) }

func (p *prog) pushBytes(d []byte) *prog {
	if len(d) == 0 {
		d = []byte{0}
	}
	if len(d) > 32 {
		d = d[len(d)-32:]
	}
	p.b = append(p.b, byte(kvm.PUSH1)+byte(len(d)-1))
	p.b = append(p.b, d...)
	return p
}

// label marks a jump destination.
func (p *prog) label(name string) *prog {
	p.labels[name] = len(p.b)
	return p.op(kvm.JUMPDEST)
}

// mark names the current offset without emitting anything (start of embedded data).
func (p *prog) mark(name string) *prog {
	p.labels[name] = len(p.b)
	return p
}

// pushLabel pushes the offset of a label (PUSH2, resolved by bytes()).
func (p *prog) pushLabel(name string) *prog {
	p.b = append(p.b, byte(kvm.PUSH1)+1, 0, 0)
	p.fix = append(p.fix, fixup{len(p.b) - 2, name})
	return p
}

func (p *prog) raw(d []byte) *prog { p.b = append(p.b, d...); return p }

func (p *prog) bytes() []byte {
	out := append([]byte(nil), p.b...)
	for _, f := range p.fix {
		at, ok := p.labels[f.name]
		if !ok {
			panic(fmt.Sprintf("c06 assembler: undefined label %q", f.name))
		}
		out[f.pos], out[f.pos+1] = byte(at>>8), byte(at)
	}
	return out
}
