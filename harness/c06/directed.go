package c06

import (
	"math/big"
	"math/rand"
	"sync"

	"github.com/kardiachain/go-kardia/kvm"
	"github.com/kardiachain/go-kardia/lib/common"
	"github.com/kardiachain/go-kardia/lib/crypto"
	"github.com/kardiachain/go-kardia/types"

	"verifharness/c09/txgen"
)

// Storage workloads. What a node answers to SLOAD depends on where the slot's last value lives: in
// the block's own dirty/pending set, in a snapshot diff layer, in the snapshot's disk layer (clean
// cache or database) or in the storage trie. The contracts below make every read observable (a log
// with the value read, and a write derived from it), so that two replicas that resolve a slot
// differently differ in receipts, gas and state root:
//
//   churn    records of (slot, value, mode): logs the slot's value, copies it into a mirror slot, and
//            (mode != 0) writes value (0 = clear). Slots are set, cleared and read at chosen heights;
//            some are never written at all.
//   ballast  a loop writing n consecutive slots: a busy chain in a few blocks (the snapshot tree only
//            merges its accumulator layer into the disk layer after 4 MiB of accumulated changes).
//   factory  CREATE2 of a child whose constructor reads slots before writing them (slot1 = slot0,
//            slot2 += 1, logs a slot nobody ever writes) and whose runtime can poke (read-modify-write),
//            clear slots, or self-destruct: a contract with storage dies and is re-created at the same
//            address, in a later transaction of the same block or in a later block.
//   sprayer  a loop paying 1 wei to each of n consecutive addresses: the long chains hold a crowd of a few thousand
//            accounts with code, storage and a large balance there, so that one call changes more account data than
//            fits one database batch (the merge of that layer into the snapshot's disk layer is written in several).

var (
	churnAddr   = common.BytesToAddress([]byte{0xf1, 0x5e, 0x10})
	ballastAddr = common.BytesToAddress([]byte{0xf1, 0x5e, 0x11})
	factoryAddr = common.BytesToAddress([]byte{0xf1, 0x5e, 0x12})
	sprayAddr   = common.BytesToAddress([]byte{0xf1, 0x5e, 0x16})
)

// crowdBase: the crowd accounts of the long chains live at crowdBase + i.
var crowdBase = []byte{0xc5, 0x0d, 0, 0, 0, 0, 0, 0, 0, 0}

func crowdAddr(i uint64) common.Address {
	return common.BigToAddress(new(big.Int).Add(new(big.Int).SetBytes(crowdBase), new(big.Int).SetUint64(i)))
}

const (
	topicCreated = 0xc2 // factory: data = address returned by CREATE2 (0: failed)
	topicBorn    = 0xc1 // child constructor: data = slot1 (copy of what it found in slot0), slot5
	topicPoke    = 0xc3
	topicKill    = 0xc4
	topicClear   = 0xc5
	mirrorOffset = 0x1000
)

func churnCode() []byte {
	p := newProg()
	p.push(0)                                                 // off
	p.label("loop")                                           // off
	p.op(kvm.CALLDATASIZE, kvm.DUP2, kvm.LT)                  // off, off<size
	p.op(kvm.ISZERO).pushLabel("end").op(kvm.JUMPI)           // off
	p.op(kvm.DUP1, kvm.CALLDATALOAD)                          // off, s
	p.op(kvm.DUP1, kvm.SLOAD)                                 // off, s, old
	p.op(kvm.DUP1).push(0).op(kvm.MSTORE)                     // mem[0] = old
	p.op(kvm.DUP2).push(32).push(0).op(kvm.LOG1)              // log(topic = s, data = old)
	p.op(kvm.DUP2).push(mirrorOffset).op(kvm.ADD, kvm.SSTORE) // mirror[s] = old          -> off, s
	p.op(kvm.DUP2).push(64).op(kvm.ADD, kvm.CALLDATALOAD)     // off, s, mode
	p.op(kvm.ISZERO).pushLabel("skip").op(kvm.JUMPI)          // off, s
	p.op(kvm.DUP2).push(32).op(kvm.ADD, kvm.CALLDATALOAD)     // off, s, v
	p.op(kvm.DUP2, kvm.SSTORE)                                // slot[s] = v              -> off, s
	p.label("skip")                                           // off, s
	p.op(kvm.POP).push(96).op(kvm.ADD)                        // off + 96
	p.pushLabel("loop").op(kvm.JUMP)
	p.label("end").op(kvm.STOP)
	return p.bytes()
}

func ballastCode() []byte {
	p := newProg()
	p.push(0).op(kvm.CALLDATALOAD)                        // n
	p.push(0)                                             // n, i
	p.label("loop")                                       // n, i
	p.op(kvm.DUP2, kvm.DUP2, kvm.LT)                      // n, i, i<n
	p.op(kvm.ISZERO).pushLabel("end").op(kvm.JUMPI)       // n, i
	p.op(kvm.DUP1).push(64).op(kvm.CALLDATALOAD, kvm.ADD) // n, i, v+i
	p.op(kvm.DUP2).push(32).op(kvm.CALLDATALOAD, kvm.ADD) // n, i, v+i, base+i
	p.op(kvm.SSTORE)                                      // n, i
	p.push(1).op(kvm.ADD)                                 // n, i+1
	p.pushLabel("loop").op(kvm.JUMP)
	p.label("end").op(kvm.STOP)
	return p.bytes()
}

// sprayerCode: call data = (n, from); pays 1 wei to crowdBase+from+i for i < n.
func sprayerCode() []byte {
	p := newProg()
	p.push(0).op(kvm.CALLDATALOAD)                        // n
	p.push(0)                                             // n, i
	p.label("loop")                                       // n, i
	p.op(kvm.DUP2, kvm.DUP2, kvm.LT)                      // n, i, i<n
	p.op(kvm.ISZERO).pushLabel("end").op(kvm.JUMPI)       // n, i
	p.push(0).push(0).push(0).push(0).push(1)             // n, i, outSize, outOff, inSize, inOff, value
	p.op(kvm.DUP6).push(32).op(kvm.CALLDATALOAD, kvm.ADD) // ..., i+from
	p.pushBytes(crowdBase).op(kvm.ADD)                    // ..., address
	p.push(0).op(kvm.CALL, kvm.POP)                       // n, i   (gas 0: the callee runs on the stipend, and its code is STOP)
	p.push(1).op(kvm.ADD)                                 // n, i+1
	p.pushLabel("loop").op(kvm.JUMP)
	p.label("end").op(kvm.STOP)
	return p.bytes()
}

func childRuntime() []byte {
	p := newProg()
	p.push(0).op(kvm.CALLDATALOAD) // m
	p.op(kvm.DUP1).push(1).op(kvm.EQ).pushLabel("kill").op(kvm.JUMPI)
	p.op(kvm.DUP1).push(2).op(kvm.EQ).pushLabel("clear").op(kvm.JUMPI)
	// poke: slot3 += slot0 + 1; slot2 += 2; log slot3 and a slot nobody writes
	p.push(0).op(kvm.SLOAD).push(3).op(kvm.SLOAD, kvm.ADD).push(1).op(kvm.ADD).push(3).op(kvm.SSTORE)
	p.push(2).op(kvm.SLOAD).push(2).op(kvm.ADD).push(2).op(kvm.SSTORE)
	p.push(3).op(kvm.SLOAD).push(0).op(kvm.MSTORE)
	p.push(9).op(kvm.SLOAD).push(32).op(kvm.MSTORE)
	p.push(topicPoke).push(64).push(0).op(kvm.LOG1)
	p.op(kvm.STOP)
	p.label("kill")
	p.push(topicKill).push(0).push(0).op(kvm.LOG1)
	p.op(kvm.CALLER, kvm.SELFDESTRUCT)
	p.label("clear")
	p.push(0).push(0).op(kvm.SSTORE).push(0).push(3).op(kvm.SSTORE)
	p.push(topicClear).push(0).push(0).op(kvm.LOG1)
	p.op(kvm.STOP)
	return p.bytes()
}

func childInit() []byte {
	rt := childRuntime()
	p := newProg()
	p.push(0).op(kvm.SLOAD).push(1).op(kvm.SSTORE)                     // slot1 = slot0 (a new incarnation must find it empty)
	p.push(2).op(kvm.SLOAD).push(1).op(kvm.ADD).push(2).op(kvm.SSTORE) // slot2 += 1
	p.op(kvm.NUMBER).push(1).op(kvm.ADD).push(0).op(kvm.SSTORE)        // slot0 = height + 1
	p.push(1).op(kvm.SLOAD).push(0).op(kvm.MSTORE)
	p.push(5).op(kvm.SLOAD).push(32).op(kvm.MSTORE)
	p.push(topicBorn).push(64).push(0).op(kvm.LOG1)
	p.push(uint64(len(rt))).pushLabel("rt").push(0).op(kvm.CODECOPY)
	p.push(uint64(len(rt))).push(0).op(kvm.RETURN)
	p.mark("rt").raw(rt)
	return p.bytes()
}

func factoryCode() []byte {
	init := childInit()
	p := newProg()
	p.push(uint64(len(init))).pushLabel("init").push(0).op(kvm.CODECOPY)
	p.push(0).op(kvm.CALLDATALOAD)                      // salt
	p.push(uint64(len(init))).push(0).op(kvm.CALLVALUE) // salt, size, offset, value
	p.op(kvm.CREATE2)                                   // address (0: failed)
	p.push(0).op(kvm.MSTORE)                            //
	p.push(topicCreated).push(32).push(0).op(kvm.LOG1)  //
	p.op(kvm.STOP)
	p.mark("init").raw(init)
	return p.bytes()
}

// childAddr is the CREATE2 address of the factory's child for a salt.
func childAddr(salt uint64) common.Address {
	childAddrsOnce.Do(func() {
		h := crypto.Keccak256(childInit())
		for s := range childAddrs {
			childAddrs[s] = crypto.CreateAddress2(factoryAddr, common.BigToHash(new(big.Int).SetUint64(uint64(s))), h)
		}
	})
	return childAddrs[salt]
}

// computed at first use, not at package initialisation: the binary is shared by all properties, and under the race
// detector (checkptr) the repository's sha3 dies on inputs of 136-167 bytes - which must not take the race children of
// other properties down at start-up
var (
	childAddrsOnce sync.Once
	childAddrs     [nSalts]common.Address
)

func word(v uint64) []byte { return common.BigToHash(new(big.Int).SetUint64(v)).Bytes() }

func slotKey(v uint64) common.Hash { return common.BigToHash(new(big.Int).SetUint64(v)) }

// churn slots: 1..3 hold a value in the genesis state, 4..churnSlots are empty, slots above
// churnSlots (up to churnSlots+3) are only ever read.
const churnSlots = 8

// nSalts: children 0 and 1 are used by the randomly drawn steps, 2..9 by planned histories
// (the storage script: 2 and 3; the long chains: all eight), which random steps must not disturb.
const nSalts = 10

func isChild(a common.Address) bool {
	for s := uint64(0); s < nSalts; s++ {
		if a == childAddr(s) {
			return true
		}
	}
	return false
}

// directedContracts adds the storage workload contracts to a world. The children for even salts
// are part of the genesis state (with storage), those for odd salts do not exist yet.
func directedContracts(w *txgen.World) {
	st := map[common.Hash]common.Hash{}
	for s := uint64(1); s <= 3; s++ {
		st[slotKey(s)] = slotKey(0x50 + s)
	}
	for k := uint64(0); k < presetSlots; k++ { // used by the long chains only (long.go)
		st[slotKey(presetBase+k)] = slotKey(0x50 + k)
	}
	w.Accounts[churnAddr] = &txgen.Account{Balance: big.NewInt(1000), Nonce: 1, Code: churnCode(), Storage: st}
	w.Accounts[ballastAddr] = &txgen.Account{Balance: new(big.Int), Nonce: 1, Code: ballastCode()}
	w.Accounts[factoryAddr] = &txgen.Account{Balance: big.NewInt(100000), Nonce: 1, Code: factoryCode()}
	for salt := uint64(0); salt < nSalts; salt += 2 {
		w.Accounts[childAddr(salt)] = &txgen.Account{Balance: big.NewInt(500), Nonce: 1, Code: childRuntime(),
			Storage: map[common.Hash]common.Hash{slotKey(0): slotKey(42), slotKey(2): slotKey(5), slotKey(3): slotKey(7)}}
	}
}

// ---------------------------------------------------------------- call data

type churnRec struct {
	Slot, Value uint64
	Write       bool
}

func churnData(recs ...churnRec) []byte {
	var d []byte
	for _, r := range recs {
		m := uint64(0)
		if r.Write {
			m = 1
		}
		d = append(d, word(r.Slot)...)
		d = append(d, word(r.Value)...)
		d = append(d, word(m)...)
	}
	return d
}

// ballastData: n slots from base on get the values v, v+1, ... (v has its top byte set: 33 bytes per slot in the snapshot).
func ballastData(n, base uint64, tag uint64) []byte {
	v := new(big.Int).Lsh(big.NewInt(0xb1), 248)
	v.Add(v, new(big.Int).Lsh(new(big.Int).SetUint64(tag), 64))
	d := append(word(n), word(base)...)
	return append(d, common.BigToHash(v).Bytes()...)
}

func directedSpec(from int, to common.Address, data []byte, gas uint64, value int64, class string) *txgen.TxSpec {
	t := to
	return &txgen.TxSpec{From: from, To: &t, Value: big.NewInt(value), Gas: gas, Price: big.NewInt(1), Data: data, Class: class}
}

func churnSpec(from int, class string, recs ...churnRec) *txgen.TxSpec {
	return directedSpec(from, churnAddr, churnData(recs...), 60000+uint64(len(recs))*50000, 0, class)
}

func phoenixSpec(from int, op string, salt uint64, value int64) *txgen.TxSpec {
	switch op {
	case "create":
		return directedSpec(from, factoryAddr, word(salt), 500000, value, "phoenix-create")
	case "kill":
		return directedSpec(from, childAddr(salt), word(1), 120000, 0, "phoenix-kill")
	case "clear":
		return directedSpec(from, childAddr(salt), word(2), 120000, 0, "phoenix-clear")
	}
	return directedSpec(from, childAddr(salt), nil, 150000, value, "phoenix-poke")
}

// directedStep draws one step of the storage workload for an ordinary (short) chain: a single
// operation or a combination sent by one account (so that every proposer keeps its order): a contract
// is killed and re-created in the same block (and used again), a slot is set and cleared, cleared and
// read, ...
func directedStep(r *rand.Rand, nEOA int) []*txgen.TxSpec {
	from := r.Intn(nEOA)
	salt := uint64(r.Intn(2))
	slot := uint64(1 + r.Intn(churnSlots))
	val := uint64(1 + r.Intn(1000))
	switch r.Intn(12) {
	case 0, 1: // rebirth in one block
		out := []*txgen.TxSpec{phoenixSpec(from, "kill", salt, 0), phoenixSpec(from, "create", salt, int64(r.Intn(3)))}
		if r.Intn(2) == 0 {
			out = append(out, phoenixSpec(from, "poke", salt, 0))
		}
		return out
	case 2:
		return []*txgen.TxSpec{phoenixSpec(from, "create", salt, int64(r.Intn(3)))}
	case 3:
		return []*txgen.TxSpec{phoenixSpec(from, "kill", salt, 0)}
	case 4:
		return []*txgen.TxSpec{phoenixSpec(from, "poke", salt, int64(r.Intn(3)))}
	case 5:
		if r.Intn(2) == 0 {
			return []*txgen.TxSpec{phoenixSpec(from, "clear", salt, 0)}
		}
		return []*txgen.TxSpec{phoenixSpec(from, "clear", salt, 0), phoenixSpec(from, "poke", salt, 0)}
	case 6: // set
		return []*txgen.TxSpec{churnSpec(from, "churn-set", churnRec{slot, val, true})}
	case 7: // clear
		return []*txgen.TxSpec{churnSpec(from, "churn-clear", churnRec{slot, 0, true})}
	case 8: // read (written slots and slots nobody writes)
		return []*txgen.TxSpec{churnSpec(from, "churn-read", churnRec{slot, 0, false}, churnRec{churnSlots + 1 + uint64(r.Intn(3)), 0, false})}
	case 9: // clear, then read in a later transaction of the block
		return []*txgen.TxSpec{churnSpec(from, "churn-clear", churnRec{slot, 0, true}), churnSpec(from, "churn-read", churnRec{slot, 0, false})}
	case 10: // several slots in one call: set, clear, read, set again
		s2 := uint64(1 + r.Intn(churnSlots))
		return []*txgen.TxSpec{churnSpec(from, "churn-mixed", churnRec{slot, val, true}, churnRec{s2, 0, true}, churnRec{slot, 0, false}, churnRec{s2, val + 1, true})}
	}
	// set and clear within one block: the slot ends as it began
	return []*txgen.TxSpec{churnSpec(from, "churn-set", churnRec{slot, val, true}), churnSpec(from, "churn-clear", churnRec{slot, 0, true})}
}

// ---------------------------------------------------------------- what a block did (read from the stored receipts)

type storyEvent struct {
	Kind string // "kill", "create"
	Addr common.Address
}

type blockStory struct {
	Events          []storyEvent     // in log order
	Killed, Created []common.Address // in log order
	Rebirths        int              // children created after having been killed earlier in the same block
	ChurnReads      int
	NeverWritten    int // reads of slots nobody writes
}

func readStory(bi *types.BlockInfo) blockStory {
	var s blockStory
	if bi == nil {
		return s
	}
	killed := map[common.Address]bool{}
	for _, rc := range bi.Receipts {
		for _, l := range rc.Logs {
			if len(l.Topics) != 1 {
				continue
			}
			t := l.Topics[0].Big().Uint64()
			switch {
			case l.Address == factoryAddr && t == topicCreated && len(l.Data) == 32:
				a := common.BytesToAddress(l.Data[12:])
				if a != (common.Address{}) {
					s.Created = append(s.Created, a)
					s.Events = append(s.Events, storyEvent{"create", a})
					if killed[a] {
						s.Rebirths++
					}
				}
			case t == topicKill && isChild(l.Address):
				s.Killed = append(s.Killed, l.Address)
				s.Events = append(s.Events, storyEvent{"kill", l.Address})
				killed[l.Address] = true
			case l.Address == churnAddr:
				s.ChurnReads++
				if t > churnSlots && t <= churnSlots+3 {
					s.NeverWritten++
				}
			}
		}
	}
	return s
}

// ---------------------------------------------------------------- the storage script (fixed corpus)

const scriptHeights = 9

// storageScript: the situations of the storage workload in a fixed order, on a chain short enough
// for the corpus: slots set / cleared / read across blocks and within a block, reads of slots nobody
// writes, a contract with committed storage that dies and is re-created in the same block (twice in
// one block, too) or in a later block and then reads and writes its slots; replica 2 is restarted
// before heights 3 and 6, replica 3 before height 5.
func storageScript() *longPlan {
	p := &longPlan{Heights: scriptHeights, Restart: map[int][]int{2: {3, 6}, 3: {5}}, events: map[int][]longEvent{}}
	ch := func(h, from int, class string, recs ...churnRec) {
		p.add(h, longEvent{From: from, Churn: recs, Class: class})
	}
	ph := func(h, from int, op string, salt uint64) { p.add(h, longEvent{From: from, Op: op, Salt: salt}) }
	never := uint64(coldBase + 0x10)
	ch(1, 0, "churn-set", churnRec{coldBase, 11, true}, churnRec{coldBase + 1, 12, true}, churnRec{coldBase + 2, 13, true})
	ph(1, 1, "create", 3)
	ph(1, 2, "poke", 2)
	ph(2, 0, "kill", 2) // genesis storage: slot0 = 42
	ph(2, 0, "create", 2)
	ph(2, 0, "poke", 2)
	ch(2, 1, "churn-clear", churnRec{coldBase, 0, true})
	ch(2, 1, "churn-read", churnRec{coldBase + 1, 0, false}, churnRec{never, 0, false})
	ch(3, 2, "churn-read", churnRec{coldBase, 0, false})
	ph(3, 1, "kill", 3)
	ph(4, 1, "create", 3) // re-created one block after its destruction
	ph(4, 1, "poke", 3)
	ch(4, 0, "churn-clear", churnRec{presetBase, 0, true})
	ch(4, 0, "churn-set", churnRec{coldBase, 21, true})
	ch(5, 2, "churn-read", churnRec{presetBase, 0, false})
	ph(5, 0, "kill", 2) // storage written in block 2 (a diff layer)
	ph(5, 0, "create", 2)
	ph(5, 0, "poke", 2)
	ch(6, 1, "churn-clear", churnRec{coldBase + 1, 0, true})
	ch(6, 1, "churn-read", churnRec{coldBase + 1, 0, false})
	ph(6, 0, "clear", 2)
	ph(6, 0, "poke", 2)
	ph(7, 2, "kill", 3)
	ph(7, 2, "create", 3)
	ph(7, 2, "kill", 3)
	ph(7, 2, "create", 3)
	ph(7, 2, "poke", 3)
	ch(8, 0, "churn-read", churnRec{coldBase, 0, false}, churnRec{coldBase + 1, 0, false}, churnRec{coldBase + 2, 0, false}, churnRec{presetBase, 0, false}, churnRec{never, 0, false})
	ph(9, 1, "poke", 2)
	ph(9, 1, "poke", 3)
	return p
}
