package c06

import (
	"fmt"
	"math/big"
	"math/rand"
	"sync"

	"github.com/kardiachain/go-kardia/configs"
	"github.com/kardiachain/go-kardia/kai/state"
	"github.com/kardiachain/go-kardia/kvm"
	"github.com/kardiachain/go-kardia/lib/common"
	"github.com/kardiachain/go-kardia/lib/crypto"

	"verifharness/c09/txgen"
	"verifharness/core"
)

// Creation workloads. A contract creation replaces whatever account exists at the new address
// (StateDB.CreateAccount on an address that only holds a balance) and the replacement is undone when the
// init code fails. What a node keeps of such an undone replacement - in the block's own journal, in
// the set of accounts it reports to the snapshot tree as destructed, in its tries - decides what the
// address looks like in LATER blocks. The workload below aims creations of every kind (CREATE and
// CREATE2 from contracts, creation transactions of EOAs) with init code that fails in every way
// (REVERT, invalid opcode, out of gas, stack underflow, code above the size limit, code deposit out
// of gas, a creation that succeeds inside a call frame that then reverts) at addresses that hold a
// balance (from the genesis state or from an earlier transfer) and are not touched otherwise in that
// block, and uses those addresses in later blocks: transfers to them, a probe contract that logs and
// stores their BALANCE / EXTCODESIZE / EXTCODEHASH, a later creation at the same address that succeeds
// (its init code logs the balance it finds) and a call that makes the new contract pay everything out.
//
//   forge   calldata = mode (0 CREATE, 1 CREATE2) | salt | after (0 STOP, 1 REVERT, 2 invalid opcode) | init code:
//           creates with the call's value, logs (result address, salt), then ends as `after` says. Two instances:
//           one only used for CREATE (its addresses follow its nonce), one only for CREATE2.
//   probe   calldata = address: logs (balance, code size, code hash) under topic = address, slot[address] = balance.

var (
	forgeCAddr = common.BytesToAddress([]byte{0xf1, 0x5e, 0x13})
	forge2Addr = common.BytesToAddress([]byte{0xf1, 0x5e, 0x14})
	probeAddr  = common.BytesToAddress([]byte{0xf1, 0x5e, 0x15})
)

const (
	topicForged  = 0xd1
	topicAlive   = 0xd2
	forgeSalts   = 4  // CREATE2 salts per init code: even ones are funded in the genesis state, odd ones by transfers
	forgeCNonces = 48 // CREATE addresses of the forge funded in the genesis state (nonces 1..)
	eoaNonces    = 40 // creation-transaction addresses of every EOA funded in the genesis state (nonces 0..)
	forgeGas     = 250000
)

// initKinds: how the init code ends. "cond" fails when the creation carries no value and succeeds otherwise
// (the same CREATE2 address can first see a failed and later a successful creation).
var initKinds = []string{"revert", "invalid-opcode", "out-of-gas", "stack-underflow", "oversize", "deposit-out-of-gas", "cond"}

func initCode(kind string) []byte {
	p := newProg()
	switch kind {
	case "revert":
		p.push(7).push(0).op(kvm.SSTORE).push(0).push(0).op(kvm.REVERT)
	case "invalid-opcode":
		p.push(7).push(0).op(kvm.SSTORE).raw([]byte{0xfe})
	case "out-of-gas":
		p.label("l").pushLabel("l").op(kvm.JUMP)
	case "stack-underflow":
		p.op(kvm.POP)
	case "oversize":
		p.push(configs.MaxCodeSize + 1).push(0).op(kvm.RETURN)
	case "deposit-out-of-gas": // 3000 bytes of code cost 600,000 gas, more than any of these creations carries
		p.push(3000).push(0).op(kvm.RETURN)
	case "cond":
		p.op(kvm.CALLVALUE).pushLabel("ok").op(kvm.JUMPI).push(0).push(0).op(kvm.REVERT)
		p.label("ok").op(kvm.ADDRESS, kvm.BALANCE).push(0).op(kvm.MSTORE)
		p.push(topicAlive).push(32).push(0).op(kvm.LOG1)
		p.push(0x33ff).push(0).op(kvm.MSTORE).push(2).push(30).op(kvm.RETURN) // runtime: CALLER SELFDESTRUCT
	default:
		panic("c06: unknown init code kind " + kind)
	}
	return p.bytes()
}

func forgeCode() []byte {
	p := newProg()
	p.push(96).op(kvm.CALLDATASIZE, kvm.SUB).push(96).push(0).op(kvm.CALLDATACOPY) // mem[0..] = init code
	p.push(0).op(kvm.CALLDATALOAD).pushLabel("c2").op(kvm.JUMPI)
	p.push(96).op(kvm.CALLDATASIZE, kvm.SUB).push(0).op(kvm.CALLVALUE, kvm.CREATE)
	p.pushLabel("done").op(kvm.JUMP)
	p.label("c2")
	p.push(32).op(kvm.CALLDATALOAD).push(96).op(kvm.CALLDATASIZE, kvm.SUB).push(0).op(kvm.CALLVALUE, kvm.CREATE2)
	p.label("done") // address (0: failed)
	p.push(0).op(kvm.MSTORE)
	p.push(32).op(kvm.CALLDATALOAD).push(32).op(kvm.MSTORE)
	p.push(topicForged).push(64).push(0).op(kvm.LOG1)
	p.push(64).op(kvm.CALLDATALOAD)
	p.op(kvm.DUP1).push(1).op(kvm.EQ).pushLabel("rev").op(kvm.JUMPI)
	p.op(kvm.DUP1).push(2).op(kvm.EQ).pushLabel("inv").op(kvm.JUMPI)
	p.op(kvm.STOP)
	p.label("rev").push(0).push(0).op(kvm.REVERT)
	p.label("inv").raw([]byte{0xfe})
	return p.bytes()
}

func probeCode() []byte {
	p := newProg()
	p.push(0).op(kvm.CALLDATALOAD)
	p.op(kvm.DUP1, kvm.BALANCE).push(0).op(kvm.MSTORE)
	p.op(kvm.DUP1, kvm.EXTCODESIZE).push(32).op(kvm.MSTORE)
	p.op(kvm.DUP1, kvm.EXTCODEHASH).push(64).op(kvm.MSTORE)
	p.op(kvm.DUP1).push(96).push(0).op(kvm.LOG1)
	p.push(0).op(kvm.MLOAD, kvm.SWAP1, kvm.SSTORE)
	p.op(kvm.STOP)
	return p.bytes()
}

// (computed at first use, not at package initialisation: see childAddrs)
var (
	forge2Once  sync.Once
	forge2Addrs map[string]common.Address
)

// forge2Target is the CREATE2 address of the second forge for an init code kind and a salt.
func forge2Target(kind string, salt uint64) common.Address {
	forge2Once.Do(func() {
		forge2Addrs = map[string]common.Address{}
		for _, k := range initKinds {
			h := crypto.Keccak256(initCode(k))
			for s := uint64(0); s < forgeSalts; s++ {
				forge2Addrs[fmt.Sprint(k, "/", s)] = crypto.CreateAddress2(forge2Addr, common.BigToHash(new(big.Int).SetUint64(s)), h)
			}
		}
	})
	return forge2Addrs[fmt.Sprint(kind, "/", salt)]
}

// creationContracts adds the forges, the probe and the funded creation addresses to a world.
func creationContracts(w *txgen.World) {
	w.Accounts[forgeCAddr] = &txgen.Account{Balance: big.NewInt(100000), Nonce: 1, Code: forgeCode()}
	w.Accounts[forge2Addr] = &txgen.Account{Balance: big.NewInt(100000), Nonce: 1, Code: forgeCode()}
	w.Accounts[probeAddr] = &txgen.Account{Balance: new(big.Int), Nonce: 1, Code: probeCode()}
	fund := func(a common.Address, v int64) {
		if w.Accounts[a] == nil {
			w.Accounts[a] = &txgen.Account{Balance: big.NewInt(v)}
		}
	}
	for _, k := range initKinds {
		for s := uint64(0); s < forgeSalts; s += 2 {
			fund(forge2Target(k, s), 7000+int64(s))
		}
	}
	for n := uint64(1); n <= forgeCNonces; n++ {
		fund(crypto.CreateAddress(forgeCAddr, n), 5000+int64(n))
	}
	for i, a := range w.EOAs {
		for n := uint64(0); n < eoaNonces; n++ {
			fund(crypto.CreateAddress(a, n), 3000+int64(100*i)+int64(n))
		}
	}
}

// ---------------------------------------------------------------- events

// forgeEvent: one planned transaction of the creation workload.
type forgeEvent struct {
	From  int    `json:"from_eoa"`
	Do    string `json:"do"`   // creations: "create2", "create", "creation-tx"; "fund"; uses: "transfer", "probe", "call", "revive" (a creation with value at a "cond" address)
	Kind  string `json:"init"` // creations and fund: init code kind
	Salt  uint64 `json:"salt"`
	After uint64 `json:"after,omitempty"` // forge: 0 STOP, 1 REVERT, 2 invalid opcode after the creation
	Value int64  `json:"value,omitempty"`
	Ref   string `json:"ref,omitempty"` // creations: name of the target address; uses: the address meant
}

func (e forgeEvent) creation() bool {
	return e.Do == "create2" || e.Do == "create" || e.Do == "creation-tx"
}

type forgeTarget struct {
	Addr     common.Address
	Do, Kind string
	Salt     uint64
	failedAt int // height of the last failed creation onto it while it held a balance and was not touched otherwise
}

type plannedForge struct {
	ev    forgeEvent
	spec  *txgen.TxSpec
	nonce uint64 // the nonce the sender is expected to have at that point
	addr  common.Address
	pre   *big.Int // balance of addr before the block
}

// forgeTracker plans the creation workload of a chain block by block and records, from the state after
// every block, which situations were reached. It decides nothing.
type forgeTracker struct {
	run     *core.Run
	script  map[int][]forgeEvent // fixed plan (corpus); nil: drawn
	rate    int                  // drawn plans: a block gets events with probability 1/rate
	byRef   map[string]common.Address
	tg      map[common.Address]*forgeTarget
	order   []common.Address
	planned []plannedForge
}

func newForgeTracker(run *core.Run, script map[int][]forgeEvent, rate int) *forgeTracker {
	return &forgeTracker{run: run, script: script, rate: rate, byRef: map[string]common.Address{}, tg: map[common.Address]*forgeTarget{}}
}

func addrWord(a common.Address) []byte { return common.BytesToHash(a.Bytes()).Bytes() }

func forgeData(mode, salt, after uint64, init []byte) []byte {
	d := append(word(mode), word(salt)...)
	d = append(d, word(after)...)
	return append(d, init...)
}

// draw draws the events of one block: creations that fail, funding transfers, and uses of addresses
// whose failed creation lies in an earlier block.
func (t *forgeTracker) draw(r *rand.Rand, h int, nEOA int) []forgeEvent {
	var out []forgeEvent
	if t.rate > 1 && r.Intn(t.rate) != 0 {
		return nil
	}
	nc := 0
	switch r.Intn(4) {
	case 0, 1:
		nc = 1
	case 2:
		nc = 2
	}
	aimed := map[common.Address]bool{}
	for i := 0; i < nc; i++ {
		e := forgeEvent{From: r.Intn(nEOA), Kind: initKinds[r.Intn(len(initKinds))], Salt: uint64(r.Intn(forgeSalts)), Value: int64(r.Intn(3))}
		switch r.Intn(5) {
		case 0, 1:
			e.Do = "create2"
		case 2:
			e.Do = "create"
		default:
			e.Do = "creation-tx"
		}
		if e.Kind == "cond" && r.Intn(3) != 0 {
			e.Value = 0
		}
		if e.Do != "creation-tx" {
			switch r.Intn(8) {
			case 0:
				e.After = 1
			case 1:
				e.After = 2
			}
		}
		if e.Do == "create2" {
			aimed[forge2Target(e.Kind, e.Salt)] = true
		}
		out = append(out, e)
	}
	if r.Intn(3) == 0 {
		e := forgeEvent{From: r.Intn(nEOA), Do: "fund", Kind: initKinds[r.Intn(len(initKinds))], Salt: uint64(1 + 2*r.Intn(forgeSalts/2)), Value: int64(1 + r.Intn(500))}
		if !aimed[forge2Target(e.Kind, e.Salt)] {
			out = append(out, e)
		}
	}
	// uses: addresses whose failed creation lies in an earlier block (preferably the previous one)
	var recent, older []*forgeTarget
	for _, a := range t.order {
		g := t.tg[a]
		switch {
		case g.failedAt == 0 || g.failedAt >= h || aimed[a]:
		case g.failedAt == h-1:
			recent = append(recent, g)
		default:
			older = append(older, g)
		}
	}
	nu := r.Intn(3)
	if len(recent) > 0 && nu == 0 {
		nu = 1
	}
	for i := 0; i < nu; i++ {
		pool := older
		if len(recent) > 0 && (len(older) == 0 || r.Intn(3) != 0) {
			pool = recent
		}
		if len(pool) == 0 {
			break
		}
		g := pool[r.Intn(len(pool))]
		e := forgeEvent{From: r.Intn(nEOA), Ref: g.Addr.Hex(), Value: int64(1 + r.Intn(50))}
		switch k := r.Intn(6); {
		case k < 2:
			e.Do = "transfer"
		case k < 4:
			e.Do = "probe"
		case k == 4 && g.Do == "create2" && g.Kind == "cond":
			e.Do, e.Kind, e.Salt = "revive", g.Kind, g.Salt
		case k == 4:
			e.Do, e.Value = "call", 0
		default:
			e.Do = "probe"
		}
		out = append(out, e)
	}
	return out
}

// plan turns the events of height h into transactions. nonce is the planner's view of the EOA nonces at
// this point of the block (the specs are numbered in this order by planTxs), st the builder's head state.
func (t *forgeTracker) plan(r *rand.Rand, h int, w *txgen.World, st *state.StateDB, nonce map[common.Address]uint64) []*txgen.TxSpec {
	var evs []forgeEvent
	if t.script != nil {
		evs = t.script[h]
	} else {
		evs = t.draw(r, h, len(w.EOAs))
	}
	t.planned = nil
	next := map[common.Address]uint64{}
	for a, n := range nonce {
		next[a] = n
	}
	forgeNonce := st.GetNonce(forgeCAddr)
	var out []*txgen.TxSpec
	for _, e := range evs {
		e.From %= len(w.EOAs)
		from := w.EOAs[e.From]
		p := plannedForge{ev: e, nonce: next[from]}
		switch e.Do {
		case "create2", "revive":
			p.addr = forge2Target(e.Kind, e.Salt)
			p.spec = directedSpec(e.From, forge2Addr, forgeData(1, e.Salt, e.After, initCode(e.Kind)), forgeGas, e.Value, "forge-"+e.Do)
		case "create":
			p.addr = crypto.CreateAddress(forgeCAddr, forgeNonce)
			if e.After == 0 {
				forgeNonce++ // (a call frame that reverts gives the nonce back: the next CREATE aims at the same address)
			}
			p.spec = directedSpec(e.From, forgeCAddr, forgeData(0, e.Salt, e.After, initCode(e.Kind)), forgeGas, e.Value, "forge-create")
		case "creation-tx":
			if next[from] >= eoaNonces {
				continue // beyond the funded addresses
			}
			p.addr = crypto.CreateAddress(from, next[from])
			p.spec = &txgen.TxSpec{From: e.From, Value: big.NewInt(e.Value), Gas: txgen.IntrinsicGas(initCode(e.Kind), true, w.Galaxias) + 90000, Price: big.NewInt(1), Data: initCode(e.Kind), Class: "forge-creation-tx"}
		case "fund":
			p.addr = forge2Target(e.Kind, e.Salt)
			p.spec = directedSpec(e.From, p.addr, nil, 60000, e.Value, "forge-fund")
		default: // uses
			a, ok := t.byRef[e.Ref]
			if !ok {
				a = common.HexToAddress(e.Ref)
				if t.tg[a] == nil {
					continue // (a scripted use of a creation that was not planned)
				}
			}
			p.addr = a
			switch e.Do {
			case "transfer":
				p.spec = directedSpec(e.From, a, nil, 60000, e.Value, "forge-use-transfer")
			case "call":
				p.spec = directedSpec(e.From, a, nil, 80000, 0, "forge-use-call")
			default:
				p.spec = directedSpec(e.From, probeAddr, addrWord(a), 150000, 0, "forge-use-probe")
			}
		}
		if e.creation() {
			if e.Ref != "" {
				t.byRef[e.Ref] = p.addr
			}
			if t.tg[p.addr] == nil {
				t.tg[p.addr] = &forgeTarget{Addr: p.addr, Do: e.Do, Kind: e.Kind, Salt: e.Salt}
				t.order = append(t.order, p.addr)
			}
		}
		p.pre = new(big.Int).Set(st.GetBalance(p.addr))
		next[from]++
		t.planned = append(t.planned, p)
		out = append(out, p.spec)
	}
	return out
}

// after reads, from the head state of a replica, what the planned transactions of block h did.
func (t *forgeTracker) after(h int, st *state.StateDB, w *txgen.World, snapVsTrie bool) {
	run := t.run
	aimed := map[common.Address]int{}
	for _, p := range t.planned {
		aimed[p.addr]++
	}
	for _, p := range t.planned {
		executed := p.spec.Nonce == p.nonce && st.GetNonce(w.EOAs[p.ev.From]) > p.nonce
		if !executed {
			run.Count("forge_txs_not_executed", 1)
			continue
		}
		g := t.tg[p.addr]
		switch {
		case p.ev.creation() || p.ev.Do == "revive":
			if g == nil {
				continue
			}
			switch {
			case st.GetCodeSize(p.addr) > 0:
				run.Count("successful_creations_onto_funded_addresses", 1)
				if g.failedAt > 0 && g.failedAt < h {
					t.used(g, h, "successful-creation", snapVsTrie)
				}
				g.failedAt = 0
			case p.ev.Do == "revive":
			case p.pre.Sign() > 0 && aimed[p.addr] == 1 && st.GetNonce(p.addr) == 0 && st.GetBalance(p.addr).Cmp(p.pre) == 0:
				run.Count("failed_creations_onto_funded_untouched_addresses", 1)
				run.Count("failed_creations_onto_funded_untouched_addresses:"+p.ev.Do, 1)
				how := p.ev.Kind
				if p.ev.After != 0 {
					how = "creation-in-a-reverted-call-frame"
				}
				run.Count("failed_creations_onto_funded_untouched_addresses:"+how, 1)
				run.Distinct("failed_creation_shapes", fmt.Sprint(p.ev.Do, p.ev.Kind, p.ev.After, p.ev.Value > 0))
				g.failedAt = h
			case p.pre.Sign() == 0:
				run.Count("failed_creations_onto_unfunded_addresses", 1)
			default:
				run.Count("failed_creations_onto_addresses_touched_otherwise", 1)
			}
		case p.ev.Do == "fund":
			run.Count("creation_addresses_funded_by_transfer", 1)
		default:
			if g != nil && g.failedAt > 0 && g.failedAt < h {
				t.used(g, h, p.ev.Do, snapVsTrie)
			}
		}
	}
	t.planned = nil
}

func (t *forgeTracker) used(g *forgeTarget, h int, how string, snapVsTrie bool) {
	run := t.run
	run.Count("uses_of_addresses_after_a_failed_creation", 1)
	run.Count("uses_of_addresses_after_a_failed_creation:"+how, 1)
	if g.failedAt == h-1 {
		run.Count("uses_of_addresses_in_the_block_after_a_failed_creation", 1)
	}
	if snapVsTrie {
		run.Count("uses_of_addresses_after_a_failed_creation_compared_snapshot_vs_trie_only", 1)
	}
}

// ---------------------------------------------------------------- the creation script (fixed corpus)

const creationHeights = 9

// creationScript: every way of failing, through every kind of creation, onto funded addresses; each
// address is used in the next block and again later; one address sees a failed and then a successful
// creation, and the new contract pays out what the address held.
func creationScript() map[int][]forgeEvent {
	s := map[int][]forgeEvent{}
	add := func(h int, e forgeEvent) { s[h] = append(s[h], e) }
	c2 := func(kind string, salt uint64) string { return forge2Target(kind, salt).Hex() }
	add(1, forgeEvent{From: 0, Do: "create2", Kind: "revert", Salt: 0})
	add(1, forgeEvent{From: 1, Do: "creation-tx", Kind: "invalid-opcode", Ref: "tx-a"})
	add(1, forgeEvent{From: 2, Do: "fund", Kind: "out-of-gas", Salt: 1, Value: 321})
	add(1, forgeEvent{From: 2, Do: "create", Kind: "oversize", Ref: "c-a"})
	add(2, forgeEvent{From: 0, Do: "probe", Ref: c2("revert", 0)})
	add(2, forgeEvent{From: 1, Do: "transfer", Ref: "tx-a", Value: 9})
	add(2, forgeEvent{From: 2, Do: "probe", Ref: "c-a"})
	add(2, forgeEvent{From: 2, Do: "create2", Kind: "out-of-gas", Salt: 1})
	add(2, forgeEvent{From: 0, Do: "create2", Kind: "cond", Salt: 0})
	add(3, forgeEvent{From: 0, Do: "transfer", Ref: c2("revert", 0), Value: 3})
	add(3, forgeEvent{From: 1, Do: "probe", Ref: c2("out-of-gas", 1)})
	add(3, forgeEvent{From: 2, Do: "probe", Ref: c2("cond", 0)})
	add(3, forgeEvent{From: 1, Do: "create2", Kind: "stack-underflow", Salt: 2, After: 1})
	add(3, forgeEvent{From: 0, Do: "creation-tx", Kind: "deposit-out-of-gas", Ref: "tx-b", Value: 2})
	add(4, forgeEvent{From: 2, Do: "revive", Kind: "cond", Salt: 0, Ref: c2("cond", 0), Value: 5})
	add(4, forgeEvent{From: 1, Do: "transfer", Ref: c2("stack-underflow", 2), Value: 1})
	add(4, forgeEvent{From: 0, Do: "probe", Ref: "tx-b"})
	add(4, forgeEvent{From: 0, Do: "create", Kind: "revert", After: 2, Ref: "c-b"})
	add(5, forgeEvent{From: 2, Do: "call", Ref: c2("cond", 0)})
	add(5, forgeEvent{From: 0, Do: "probe", Ref: "c-b"})
	add(5, forgeEvent{From: 1, Do: "create2", Kind: "invalid-opcode", Salt: 0, Value: 2})
	add(5, forgeEvent{From: 1, Do: "create2", Kind: "deposit-out-of-gas", Salt: 2})
	add(5, forgeEvent{From: 0, Do: "creation-tx", Kind: "out-of-gas", Ref: "tx-c"})
	add(6, forgeEvent{From: 1, Do: "transfer", Ref: c2("invalid-opcode", 0), Value: 4})
	add(6, forgeEvent{From: 1, Do: "probe", Ref: c2("deposit-out-of-gas", 2)})
	add(6, forgeEvent{From: 0, Do: "transfer", Ref: "tx-c", Value: 6})
	add(6, forgeEvent{From: 2, Do: "create", Kind: "stack-underflow", Ref: "c-c"})
	add(6, forgeEvent{From: 2, Do: "create2", Kind: "oversize", Salt: 0})
	add(7, forgeEvent{From: 2, Do: "transfer", Ref: "c-c", Value: 8})
	add(7, forgeEvent{From: 0, Do: "probe", Ref: c2("oversize", 0)})
	add(7, forgeEvent{From: 1, Do: "creation-tx", Kind: "revert", Ref: "tx-d"})
	add(8, forgeEvent{From: 1, Do: "probe", Ref: "tx-d"})
	add(8, forgeEvent{From: 0, Do: "probe", Ref: c2("revert", 0)})
	add(8, forgeEvent{From: 2, Do: "probe", Ref: "tx-a"})
	add(9, forgeEvent{From: 0, Do: "probe", Ref: "c-a"})
	add(9, forgeEvent{From: 1, Do: "probe", Ref: c2("out-of-gas", 1)})
	add(9, forgeEvent{From: 2, Do: "transfer", Ref: "tx-d", Value: 2})
	return s
}
