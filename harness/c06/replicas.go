package c06

import (
	"fmt"
	"math/big"
	"math/rand"
	"os"
	"regexp"
	"strings"
	"time"

	"github.com/kardiachain/go-kardia/kai/accounts/abi"
	"github.com/kardiachain/go-kardia/kvm"
	"github.com/kardiachain/go-kardia/lib/common"
	"github.com/kardiachain/go-kardia/mainchain/blockchain"
	"github.com/kardiachain/go-kardia/mainchain/staking"
	"github.com/kardiachain/go-kardia/types"

	"verifharness/c09/chainkit"
	"verifharness/c09/txgen"
	"verifharness/core"
	"verifharness/netsim"
)

// ---------------------------------------------------------------- replica configurations

type repCfg struct {
	Name  string
	Cache *blockchain.CacheConfig
}

func cacheConfigs() []repCfg {
	def := func() *blockchain.CacheConfig {
		return &blockchain.CacheConfig{TrieCleanLimit: 256, TrieDirtyLimit: 256, TrieTimeLimit: 5 * time.Minute, SnapshotLimit: 256, SnapshotWait: true}
	}
	snapOff := def()
	snapOff.SnapshotLimit = 0
	archive := def()
	archive.TrieDirtyDisabled = true
	pre := def()
	pre.Preimages = true
	tiny := def()
	tiny.TrieCleanLimit, tiny.TrieDirtyLimit, tiny.SnapshotLimit, tiny.TrieTimeLimit = 1, 1, 1, time.Nanosecond
	nopf := def()
	nopf.TrieCleanNoPrefetch = true
	nopf.SnapshotLimit = 0
	nopf.TrieDirtyDisabled = true
	return []repCfg{{"default", nil}, {"snapshots-off", snapOff}, {"dirty-disabled", archive}, {"preimages", pre}, {"tiny-caches", tiny}, {"noprefetch+snapshots-off+dirty-disabled", nopf}}
}

// ---------------------------------------------------------------- fixed contracts every world gets

func fixedAddr(i int) common.Address { return common.BytesToAddress([]byte{0xf1, 0x5e, byte(i)}) }

// fixedContracts: a counter (read-modify-write of one slot, logged), an environment recorder
// (block context into storage and a log), a phoenix (self-destructs; later transfers re-create the
// account), and a fan-out that pays three accounts and logs twice.
func fixedContracts(w *txgen.World) {
	op := func(o kvm.OpCode) byte { return byte(o) }
	counter := (&txgen.Asm{}).PushU(0).Op(op(kvm.SLOAD)).PushU(1).Op(op(kvm.ADD), op(kvm.DUP1)).PushU(0).Op(op(kvm.SSTORE)).
		PushU(0).Op(op(kvm.MSTORE)).PushU(0xc0).PushU(32).PushU(0).Op(op(kvm.LOG1), op(kvm.STOP)).B
	envRec := &txgen.Asm{}
	for i, o := range []kvm.OpCode{kvm.TIMESTAMP, kvm.NUMBER, kvm.COINBASE, kvm.GASLIMIT, kvm.GASPRICE, kvm.ORIGIN, kvm.GAS} {
		envRec.Op(op(o)).PushU(uint64(i)).Op(op(kvm.SSTORE))
	}
	envRec.PushU(1).Op(op(kvm.NUMBER), op(kvm.SUB), op(kvm.BLOCKHASH)).PushU(8).Op(op(kvm.SSTORE))
	envRec.Op(op(kvm.TIMESTAMP)).PushU(0).Op(op(kvm.MSTORE)).Op(op(kvm.COINBASE)).PushU(32).Op(op(kvm.MSTORE)).Op(op(kvm.NUMBER)).PushU(64).PushU(0).Op(op(kvm.LOG1), op(kvm.STOP))
	phoenix := []byte{op(kvm.CALLER), op(kvm.SELFDESTRUCT)}
	fan := &txgen.Asm{}
	for i := 0; i < 3; i++ {
		fan.PushU(0).PushU(0).PushU(0).PushU(0).PushU(uint64(1+i)).PushAddr(w.Fresh[i%len(w.Fresh)]).PushU(30000).Op(op(kvm.CALL), op(kvm.POP))
		if i < 2 {
			fan.PushU(uint64(0xf0 + i)).PushU(0).PushU(0).Op(op(kvm.LOG1))
		}
	}
	for i, code := range [][]byte{counter, envRec.B, phoenix, fan.B} {
		a := fixedAddr(i)
		w.Accounts[a] = &txgen.Account{Balance: big.NewInt(100000), Code: code}
		w.Contracts = append(w.Contracts, a)
	}
}

// ---------------------------------------------------------------- scenario

type scenarioOpts struct {
	NVals      int
	Powers     []int64
	Galaxias   string // "never", "genesis", "cross"
	ForkHeight uint64
	Heights    int
	Replicas   []repCfg
	HandOnly   bool // only hand-built blocks (deterministic block content: comparable across processes)
	ValHook    bool
	Reopen     bool
	Evidence   bool // one hand-built block carries duplicate-vote evidence against a validator (DoubleSign path of the application)
	Staking    bool // delegate / undelegate / withdraw calls of the real validator contracts (validator power moves through the real application)
}

type heightRec struct {
	Height   uint64          `json:"height"`
	Mode     string          `json:"mode"`
	Proposer string          `json:"built_by"`
	Block    string          `json:"block"`
	Txs      int             `json:"txs"`
	Receipts int             `json:"receipts"`
	AppHash  string          `json:"app_hash"`
	Info     string          `json:"info_digest"`
	State    string          `json:"state_digest"`
	Vals     []string        `json:"app_validators,omitempty"`
	Specs    []*txgen.TxSpec `json:"tx_specs,omitempty"`
}

// fingerprint of a run: block hash -> result digests (compared across repeats and processes).
type fingerprint struct {
	Heights []heightRec
}

func (f *fingerprint) lines() []string {
	var out []string
	for _, h := range f.Heights {
		out = append(out, fmt.Sprintf("%d %s %s %s %s", h.Height, h.Block, h.AppHash, h.Info, h.State))
	}
	return out
}

func drawScenario(r *rand.Rand, quick bool, handOnly bool) scenarioOpts {
	o := scenarioOpts{HandOnly: handOnly}
	o.NVals = 1 + r.Intn(4)
	for i := 0; i < o.NVals; i++ {
		o.Powers = append(o.Powers, int64(20+10*r.Intn(4)))
	}
	switch r.Intn(5) {
	case 0, 1:
		o.Galaxias = "never"
	case 2, 3:
		o.Galaxias = "genesis"
	default:
		o.Galaxias, o.ForkHeight = "cross", uint64(2+r.Intn(2))
	}
	o.Heights = 3 + r.Intn(4)
	if r.Intn(6) == 0 {
		o.Heights = 7 + r.Intn(4)
	}
	all := cacheConfigs()
	n := 4
	if !quick {
		n = 6
	}
	perm := r.Perm(len(all))
	for _, i := range perm[:n] {
		o.Replicas = append(o.Replicas, all[i])
	}
	o.ValHook = o.NVals >= 2 && r.Intn(2) == 0
	o.Reopen = r.Intn(2) == 0
	if !o.ValHook && r.Intn(2) == 0 {
		o.Staking = true
	}
	if !o.ValHook && o.NVals >= 3 && r.Intn(2) == 0 {
		o.Evidence = true
	}
	return o
}

// valSchedule derives, from the case seed, which validator list the application "reports" at a
// height: the genesis validators with rescaled powers, sometimes with members left out. Every
// replica gets the same multiset, in its own order.
func valSchedule(seed int64, height uint64, genesisVals []*types.Validator) []*types.Validator {
	r := rand.New(rand.NewSource(seed*1000003 + int64(height)))
	if r.Intn(3) != 0 {
		return nil // no change reported at this height
	}
	var out []*types.Validator
	for _, v := range genesisVals {
		p := v.VotingPower
		switch r.Intn(4) {
		case 0:
			p = p * int64(2+r.Intn(3))
		case 1:
			p = p/int64(2+r.Intn(3)) + 1
		case 2:
			if len(genesisVals) > 1 && r.Intn(2) == 0 {
				continue // left out
			}
		}
		out = append(out, types.NewValidator(v.Address, p))
	}
	if len(out) == 0 {
		out = append(out, types.NewValidator(genesisVals[0].Address, genesisVals[0].VotingPower))
	}
	return out
}

type replicaSet struct {
	chains []*chainkit.Chain
	cfgs   []repCfg
}

func (rs *replicaSet) close() {
	for _, c := range rs.chains {
		if c != nil {
			c.Close(false)
		}
	}
}

// runScenario executes one generated chain on all replicas and compares them after every
// height. It returns the fingerprint of the run (nil if the case was abandoned).
func runScenario(cs *core.Case, r *rand.Rand, o scenarioOpts, tag string) *fingerprint {
	run := cs.Run
	var galaxias *uint64
	switch o.Galaxias {
	case "genesis":
		z := uint64(0)
		galaxias = &z
	case "cross":
		f := o.ForkHeight
		galaxias = &f
	}
	val0 := chainkit.ValAddrOf(0)
	w := txgen.NewWorld(r, txgen.WorldOpts{Galaxias: o.Galaxias == "genesis", NEOA: 3, NContracts: 3 + r.Intn(3), FixedCoinbase: &val0, RichEOAs: true})
	fixedContracts(w)
	gen := chainkit.Genesis(w, o.Powers, galaxias)
	rs := &replicaSet{cfgs: o.Replicas}
	defer rs.close()
	for _, cfg := range o.Replicas {
		ch, err := chainkit.New(gen, o.NVals, nil, cfg.Cache, cfg.Name)
		if err != nil {
			run.Inconclusive(fmt.Sprintf("cannot build replica %s: %v", cfg.Name, err))
			return nil
		}
		rs.chains = append(rs.chains, ch)
	}
	genesisVals := rs.chains[0].State.Validators.Copy().Validators
	hookSeed := r.Int63()
	if o.ValHook {
		for i, ch := range rs.chains {
			i := i
			ch.ValHook = func(height uint64, app []*types.Validator) []*types.Validator {
				l := valSchedule(hookSeed, height, genesisVals)
				if l == nil {
					return app
				}
				pr := rand.New(rand.NewSource(hookSeed + int64(i)*7919 + int64(height)))
				pr.Shuffle(len(l), func(a, b int) { l[a], l[b] = l[b], l[a] })
				return l
			}
		}
	}
	var si *stakingInfo
	if o.Staking {
		if si = newStakingInfo(rs.chains[0], o.NVals); si == nil {
			run.Count("staking_info_unavailable", 1)
		}
	}
	fp := &fingerprint{}
	wit := func(extra map[string]interface{}) map[string]interface{} {
		m := map[string]interface{}{"scenario": o, "tag": tag, "heights": fp.Heights}
		for k, v := range extra {
			m[k] = v
		}
		return m
	}
	lastCommit := chainkit.EmptyCommit()
	evidenceAt := 3 + r.Intn(2)
	reopenAt := -1
	if o.Reopen {
		reopenAt = o.Heights // before the last block
	}
	for h := 1; h <= o.Heights; h++ {
		height := uint64(h)
		if o.Galaxias == "cross" {
			w.Galaxias = height >= o.ForkHeight
		}
		// ---- reopen every replica but the first from its database before the last block
		if h == reopenAt && len(rs.chains) > 1 {
			n := len(rs.chains)
			for i := 1; i < n; i++ {
				old := rs.chains[i]
				before := canonState(old.State)
				old.Close(true) // clean stop: flushes head states / snapshot journal as a node shutdown does
				base := old.N.Base
				var twinBase = netsim.CopyDB(base)
				cfg := rs.cfgs[i]
				if r.Intn(3) == 0 {
					all := cacheConfigs()
					cfg = all[r.Intn(len(all))]
				}
				nw, err := chainkit.New(gen, o.NVals, base, cfg.Cache, rs.cfgs[i].Name+"->reopened-as-"+cfg.Name)
				if err != nil {
					cs.Violation("reopen-fails:"+rs.cfgs[i].Name, fmt.Sprintf("replica %s cannot be reopened from its own database after a clean stop at height %d: %v", rs.cfgs[i].Name, h-1, err), wit(nil))
					return nil
				}
				nw.ValHook = old.ValHook
				rs.chains[i] = nw
				run.Count("replicas_reopened", 1)
				if after := canonState(nw.State); maskTotalTx(after) != maskTotalTx(before) {
					// the store's save/load is C14's subject; here it matters only through what follows (block accepted? same result?)
					run.Count("reopened_consensus_state_differs_from_memory", 1)
				}
				if i == 1 { // a second, independent open of the same database image
					tw, err := chainkit.New(gen, o.NVals, twinBase, cfg.Cache, rs.cfgs[i].Name+"->reopened-twice-as-"+cfg.Name)
					if err == nil {
						tw.ValHook = old.ValHook
						rs.chains = append(rs.chains, tw)
						rs.cfgs = append(rs.cfgs, repCfg{tw.Label, cfg.Cache})
					}
				}
			}
		}
		// ---- build the block
		builder := r.Intn(len(o.Replicas))
		if builder >= len(rs.chains) {
			builder = 0
		}
		bch := rs.chains[builder]
		specs := planTxs(r, w, bch.N.BC, height, si)
		mode := "hand-built"
		if !o.HandOnly && r.Intn(2) == 0 {
			mode = "CreateProposalBlock"
		}
		var evidence []types.Evidence
		if o.Evidence && h == evidenceAt {
			mode = "hand-built"
			if ev, err := bch.DuplicateVote(1+r.Intn(o.NVals-1), height-1-uint64(r.Intn(2))); err == nil {
				evidence = append(evidence, ev)
				mode = "hand-built+evidence"
			} else {
				run.Count("evidence_not_built", 1)
			}
		}
		var blk *types.Block
		var ps *types.PartSet
		var txs []*types.Transaction
		for _, s := range specs {
			txs = append(txs, s.Sign(w))
		}
		if mode == "CreateProposalBlock" {
			// (no waiting for the pool's asynchronous head reset: a pool that is one block behind only makes the
			// proposer include stale transactions, which every replica must skip alike)
			accepted := 0
			for _, tx := range txs {
				if err := bch.N.Pool.AddLocal(tx); err == nil {
					accepted++
				}
			}
			run.Count("pool_accepted", accepted)
			blk, ps = bch.Propose(lastCommit)
		} else {
			gl := uint64(300000 + r.Intn(4000000))
			if r.Intn(4) == 0 {
				gl = uint64(60000 + r.Intn(200000))
			}
			if si != nil {
				gl = 30000000 // staking calls carry a gas limit of 5,000,000
			}
			blk, ps = bch.HandBlock(lastCommit, gl, txs, evidence...)
		}
		if blk == nil {
			run.Inconclusive(fmt.Sprintf("no block built at height %d (case %s:%d)", h, cs.Group, cs.I))
			return nil
		}
		bid := types.BlockID{Hash: blk.Hash(), PartsHeader: ps.Header()}
		// the commit for this block: every validator of the current set signs, some may be absent (> 2/3 stays)
		set := bch.State.Validators
		absent := map[int]bool{}
		if len(set.Validators) >= 3 && r.Intn(3) == 0 {
			k := r.Intn(len(bch.Keys))
			if _, v := set.GetByAddress(bch.ValAddr(k)); v != nil && (set.TotalVotingPower()-v.VotingPower)*3 > set.TotalVotingPower()*2 {
				absent[k] = true
				run.Count("commits_with_absent_validator", 1)
			}
		}
		seen := bch.SignCommit(set, height, bid, blk.Time().Add(3*time.Second), absent)
		// ---- apply on every replica
		rec := heightRec{Height: height, Mode: mode, Proposer: rs.cfgs[builder].Name, Block: fmt.Sprintf("%x", blk.Hash().Bytes()[:8]), Txs: len(blk.Transactions()), Specs: specs}
		type res struct {
			err                               error
			state, info, pub, appvals, loaded string
			receipts                          int
		}
		results := make([]res, len(rs.chains))
		for i, ch := range rs.chains {
			err := ch.Apply(blk, ps, seen)
			x := res{err: err}
			if err == nil {
				x.state = canonState(ch.State)
				bi := ch.RawBlockInfo(blk.Hash(), blk.Height())
				x.info = canonInfo(bi)
				if bi != nil {
					x.receipts = len(bi.Receipts)
				}
				x.pub = canonInfo(ch.BlockInfo(blk))
				x.appvals = strings.Join(ch.AppVals, ",")
				x.loaded = canonState(ch.N.Store.Load())
				// (the returned state leaves LastBlockTotalTx at 0 while Load() fills it from the header: save/load
				// stability is C14's subject; here loaded states are compared with each other, replica by replica)
				if maskTotalTx(x.loaded) != maskTotalTx(x.state) {
					run.Count("store_load_differs_from_returned_state", 1)
					if os.Getenv("C06_DEBUG") != "" {
						fmt.Println("LOAD DIFF:", firstDiff(x.state, x.loaded))
					}
				}
			}
			results[i] = x
			run.Count("block_executions", 1)
		}
		run.Eval(1)
		// acceptance
		nFail := 0
		for _, x := range results {
			if x.err != nil {
				nFail++
			}
		}
		if nFail > 0 {
			var errs []string
			for i, x := range results {
				errs = append(errs, fmt.Sprintf("%s: %v", rs.cfgs[i].Name, x.err))
			}
			fp.Heights = append(fp.Heights, rec)
			switch {
			case nFail < len(results):
				cs.Violation("block-accepted-by-some-replicas-only:"+errKind(errs), fmt.Sprintf("height %d (%s by %s): %s", h, mode, rs.cfgs[builder].Name, strings.Join(errs, " | ")), wit(nil))
			case mode == "CreateProposalBlock":
				cs.Violation("proposer-block-rejected:"+errKind(errs), fmt.Sprintf("height %d: the block built by CreateProposalBlock on %s is rejected by every replica: %s", h, rs.cfgs[builder].Name, errs[0]), wit(nil))
			default:
				run.Inconclusive(fmt.Sprintf("hand-built block rejected by every replica at height %d (case %s:%d): %s", h, cs.Group, cs.I, errs[0]))
			}
			return nil
		}
		x0 := results[0]
		rec.Receipts, rec.AppHash, rec.Info, rec.State = x0.receipts, fmt.Sprintf("%x", rs.chains[0].State.AppHash[:8]), digest(x0.info), digest(x0.state)
		rec.Vals = rs.chains[0].AppVals
		fp.Heights = append(fp.Heights, rec)
		for i := 1; i < len(results); i++ {
			x := results[i]
			rel := "cache-config"
			if strings.Contains(rs.cfgs[i].Name, "reopened") {
				rel = "reopened-database"
			}
			role := ""
			if i == builder || builder == 0 {
				role = " (one of the two built the block, the other received it)"
			}
			pair := fmt.Sprintf("%s vs %s%s", rs.cfgs[0].Name, rs.cfgs[i].Name, role)
			switch {
			case rs.chains[0].State.AppHash != rs.chains[i].State.AppHash:
				cs.Violation("app-hash-differs:"+rel, fmt.Sprintf("height %d: app hash %x vs %x (%s)", h, rs.chains[0].State.AppHash[:6], rs.chains[i].State.AppHash[:6], pair), wit(nil))
				return nil
			case x.info != x0.info:
				cs.Violation("block-info-differs:"+rel, fmt.Sprintf("height %d: stored receipts/bloom/gas differ (%s): %s", h, pair, firstDiff(x0.info, x.info)), wit(nil))
				return nil
			case x.pub != x0.pub:
				cs.Violation("read-block-info-differs:"+rel, fmt.Sprintf("height %d: rawdb.ReadBlockInfo differs (%s): %s", h, pair, firstDiff(x0.pub, x.pub)), wit(nil))
				return nil
			case x.appvals != x0.appvals:
				cs.Violation("validator-updates-differ:"+rel, fmt.Sprintf("height %d: the application returned %s vs %s (%s)", h, x0.appvals, x.appvals, pair), wit(nil))
				return nil
			case x.state != x0.state:
				cs.Violation("latest-block-state-differs:"+rel, fmt.Sprintf("height %d (%s): %s", h, pair, firstDiff(x0.state, x.state)), wit(nil))
				return nil
			case x.loaded != x0.loaded:
				cs.Violation("stored-block-state-differs:"+rel, fmt.Sprintf("height %d, Store.Load() (%s): %s", h, pair, firstDiff(x0.loaded, x.loaded)), wit(nil))
				return nil
			}
			run.Count("pairwise_comparisons", 1)
			if rel == "reopened-database" {
				run.Count("comparisons_with_reopened_replica", 1)
			}
		}
		if len(evidence) > 0 {
			run.Count("blocks_with_evidence", 1)
			if rs.chains[0].State.LastHeightValidatorsChanged == height+2 {
				run.Count("evidence_blocks_changing_the_validator_set", 1)
			}
		}
		if mode == "CreateProposalBlock" {
			run.Count("proposer_built_blocks", 1)
			run.Count("proposer_built_txs", len(blk.Transactions()))
		} else {
			run.Count("hand_built_blocks", 1)
		}
		run.Count("block_txs", len(blk.Transactions()))
		run.Count("block_receipts", x0.receipts)
		if x0.receipts < len(blk.Transactions()) {
			run.Count("blocks_with_skipped_txs", 1)
		}
		if strings.Contains(x0.info, "log{") {
			run.Count("blocks_with_logs", 1)
		}
		for _, sp := range specs {
			if strings.HasPrefix(sp.Class, "staking-") {
				run.Count("staking_txs_generated", 1)
			}
		}
		if len(rs.chains[0].AppVals) > 0 {
			run.Count("blocks_with_validator_list_from_app", 1)
		}
		if rs.chains[0].State.LastHeightValidatorsChanged == height+2 {
			run.Count("validator_set_changes", 1)
			if si != nil {
				run.Count("validator_set_changes_through_staking_txs", 1)
			}
		}
		if o.Galaxias == "cross" && height == o.ForkHeight {
			run.Count("fork_blocks_executed", 1)
		}
		run.Distinct("cache_pairs", rs.cfgs[0].Name+"~"+rs.cfgs[len(rs.cfgs)-1].Name)
		if x0.receipts > 0 {
			run.Nontrivial(fmt.Sprintf("%s/%s/%d/%d", tag, cs.Group, cs.I, h))
		}
		lastCommit = seen
	}
	if cs.I < 2 && (tag == "first" || tag == "corpus") {
		var hs []map[string]interface{}
		for _, h := range fp.Heights {
			if len(hs) < 4 {
				hs = append(hs, map[string]interface{}{"height": h.Height, "mode": h.Mode, "built_by": h.Proposer, "block": h.Block, "txs": h.Txs, "receipts": h.Receipts, "app_hash": h.AppHash, "info": h.Info, "state": h.State, "app_validators": h.Vals})
			}
		}
		var names []string
		for _, c := range rs.cfgs {
			names = append(names, c.Name)
		}
		run.Sample(map[string]interface{}{"group": cs.Group, "case": cs.I, "validators": o.NVals, "galaxias": o.Galaxias, "replicas": names, "val_hook": o.ValHook, "staking": o.Staking, "evidence": o.Evidence, "reopen": o.Reopen, "first_heights": hs})
	}
	return fp
}

func errKind(errs []string) string {
	s := strings.Join(errs, " ")
	for _, k := range []string{"AppHash", "LastBlockID", "ValidatorsHash", "NextValidatorHash", "block time", "signature", "commit failed", "proposer"} {
		if strings.Contains(s, k) {
			return strings.ReplaceAll(strings.ToLower(k), " ", "-")
		}
	}
	return "other"
}

// planTxs draws the transactions of one block from the head state of a replica, plus calls of the
// fixed contracts (several per block, so that consecutive blocks touch the same slots and accounts).
func planTxs(r *rand.Rand, w *txgen.World, bc *blockchain.BlockChain, height uint64, si *stakingInfo) []*txgen.TxSpec {
	st, err := bc.State()
	if err != nil {
		return nil
	}
	nonce, bal := map[common.Address]uint64{}, map[common.Address]*big.Int{}
	for _, a := range w.EOAs {
		nonce[a], bal[a] = st.GetNonce(a), new(big.Int).Set(st.GetBalance(a))
	}
	pool := uint64(3000000)
	var specs []*txgen.TxSpec
	n := 2 + r.Intn(7)
	for i := 0; i < n; i++ {
		var spec *txgen.TxSpec
		if si != nil && r.Intn(4) == 0 {
			from := r.Intn(len(w.EOAs))
			spec = si.tx(r, from, nonce[w.EOAs[from]])
		}
		if spec != nil {
		} else if r.Intn(3) == 0 { // call of a fixed contract
			from := r.Intn(len(w.EOAs))
			to := fixedAddr(r.Intn(4))
			spec = &txgen.TxSpec{From: from, To: &to, Nonce: nonce[w.EOAs[from]], Value: big.NewInt(int64(r.Intn(100))), Gas: uint64(150000 + r.Intn(200000)), Price: big.NewInt(int64(1 + r.Intn(50))), Class: "fixed-contract"}
		} else {
			spec = txgen.GenTx(r, w, txgen.Ctx{Nonce: func(a common.Address) uint64 { return nonce[a] }, Balance: func(a common.Address) *big.Int { return bal[a] }, PoolGas: pool})
		}
		spec.DataHex = fmt.Sprintf("%x", spec.Data)
		from := w.EOAs[spec.From]
		ig := txgen.IntrinsicGas(spec.Data, spec.To == nil, w.Galaxias)
		cost := new(big.Int).Mul(new(big.Int).SetUint64(spec.Gas), spec.Price)
		if spec.BadSig == "" && spec.Nonce == nonce[from] && spec.Gas >= ig && spec.Gas <= pool && new(big.Int).Add(cost, spec.Value).Cmp(bal[from]) <= 0 {
			nonce[from]++
			use := ig + (spec.Gas-ig)/3
			bal[from].Sub(bal[from], new(big.Int).Add(spec.Value, new(big.Int).Mul(new(big.Int).SetUint64(use), spec.Price)))
			if pool > use {
				pool -= use
			}
		}
		specs = append(specs, spec)
	}
	return specs
}

var totalTxField = regexp.MustCompile(` totaltx=\d+ `)

func maskTotalTx(s string) string { return totalTxField.ReplaceAllString(s, " totaltx=* ") }

// stakingInfo holds what is needed to compose calls of the validator contracts.
type stakingInfo struct {
	valSmc []common.Address
	abi    *abi.ABI
}

func newStakingInfo(ch *chainkit.Chain, nVals int) *stakingInfo {
	su, err := staking.NewSmcStakingUtil()
	if err != nil {
		return nil
	}
	vu, err := staking.NewSmcValidatorUtil()
	if err != nil {
		return nil
	}
	st, err := ch.N.BC.State()
	if err != nil {
		return nil
	}
	info := &stakingInfo{abi: vu.Abi}
	hd := &types.Header{Height: 1, Time: ch.Gen.Timestamp, GasLimit: 100000000}
	for i := 0; i < nVals; i++ {
		a, err := su.GetValFromOwner(st, hd, ch.N.BC, kvm.Config{}, ch.ValAddr(i))
		if err != nil || a == (common.Address{}) {
			return nil
		}
		info.valSmc = append(info.valSmc, a)
	}
	return info
}

// tx draws one staking call.
func (si *stakingInfo) tx(r *rand.Rand, from int, nonce uint64) *txgen.TxSpec {
	to := si.valSmc[r.Intn(len(si.valSmc))]
	unit := new(big.Int).Exp(big.NewInt(10), big.NewInt(24), nil)
	s := &txgen.TxSpec{From: from, To: &to, Nonce: nonce, Value: new(big.Int), Gas: 5000000, Price: big.NewInt(1)}
	var err error
	switch r.Intn(6) {
	case 0, 1, 2:
		s.Data, err = si.abi.Pack("delegate")
		s.Value = new(big.Int).Mul(unit, big.NewInt(int64(1+r.Intn(30))))
		s.Class = "staking-delegate"
	case 3:
		s.Data, err = si.abi.Pack("undelegateWithAmount", new(big.Int).Mul(unit, big.NewInt(int64(1+r.Intn(10)))))
		s.Class = "staking-undelegate-amount"
	case 4:
		s.Data, err = si.abi.Pack("undelegate")
		s.Class = "staking-undelegate"
	default:
		s.Data, err = si.abi.Pack("withdrawRewards")
		s.Class = "staking-withdraw-rewards"
	}
	if err != nil {
		return nil
	}
	return s
}
