package c06

import (
	"fmt"
	"math/big"
	"math/rand"
	"os"
	"regexp"
	"sort"
	"strings"
	"time"

	"github.com/kardiachain/go-kardia/configs"
	"github.com/kardiachain/go-kardia/kai/accounts/abi"
	"github.com/kardiachain/go-kardia/kai/kaidb"
	"github.com/kardiachain/go-kardia/kai/kaidb/memorydb"
	"github.com/kardiachain/go-kardia/kai/rawdb"
	"github.com/kardiachain/go-kardia/kvm"
	"github.com/kardiachain/go-kardia/lib/common"
	"github.com/kardiachain/go-kardia/lib/rlp"
	"github.com/kardiachain/go-kardia/mainchain/blockchain"
	"github.com/kardiachain/go-kardia/mainchain/staking"
	"github.com/kardiachain/go-kardia/types"

	"verifharness/c09/chainkit"
	"verifharness/c09/txgen"
	"verifharness/core"
	"verifharness/netsim"
)

// ---------------------------------------------------------------- replica configurations

type repCfg struct {
	Name  string
	Cache *blockchain.CacheConfig
	Snap  bool // the node keeps a state snapshot tree (SnapshotLimit > 0); otherwise every read goes to the tries
}

// cacheConfigs: the configurations a node can be started with (mainchain/backend.go New copies
// TrieCleanCache, TrieDirtyCache, TrieTimeout, SnapshotCache, NoPruning, NoPrefetch, Preimages of its
// config into blockchain.CacheConfig; cmd/utils/flags.go derives them from --cache, --cache.trie,
// --cache.gc, --cache.snapshot (0 switches the snapshot off: NewBlockChain only builds the tree when
// SnapshotLimit > 0), --gcmode, --cache.noprefetch, --cache.preimages). "node-defaults" and
// "archive-node" are literally what backend.go passes for the default flags and for --gcmode=archive:
// SnapshotWait stays false there, i.e. the snapshot is generated in the background while blocks are
// already executed. The other entries wait for the generation (deterministic read paths).
func cacheConfigs() []repCfg {
	def := func() *blockchain.CacheConfig {
		return &blockchain.CacheConfig{TrieCleanLimit: 256, TrieDirtyLimit: 256, TrieTimeLimit: 5 * time.Minute, SnapshotLimit: 256, SnapshotWait: true}
	}
	snapOff := def()
	snapOff.SnapshotLimit = 0
	archive := def()
	archive.TrieDirtyDisabled = true
	pre := def()
	pre.Preimages = true
	tiny := def()
	tiny.TrieCleanLimit, tiny.TrieDirtyLimit, tiny.SnapshotLimit, tiny.TrieTimeLimit = 1, 1, 1, time.Nanosecond
	nopf := def()
	nopf.TrieCleanNoPrefetch = true
	nopf.SnapshotLimit = 0
	nopf.TrieDirtyDisabled = true
	// a node started with a small --cache / --cache.gc: beyond 128 blocks its dirty trie cache is over the allowance and
	// BlockChain.writeBlockWithState flushes the oldest nodes to disk (triedb.Cap) block after block
	smallDirty := def()
	smallDirty.TrieDirtyLimit = 1
	smallDirtyOff := def()
	smallDirtyOff.TrieDirtyLimit, smallDirtyOff.SnapshotLimit = 1, 0
	nodeDef := &blockchain.CacheConfig{TrieCleanLimit: 154, TrieDirtyLimit: 256, TrieTimeLimit: 60 * time.Minute, SnapshotLimit: 102}
	nodeArchive := &blockchain.CacheConfig{TrieCleanLimit: 154 + 256*3/5, TrieDirtyLimit: 0, TrieDirtyDisabled: true, TrieTimeLimit: 60 * time.Minute, SnapshotLimit: 102 + 256*2/5, Preimages: true}
	return []repCfg{{"default", nil, true}, {"snapshots-off", snapOff, false}, {"dirty-disabled", archive, true}, {"preimages", pre, true}, {"tiny-caches", tiny, true},
		{"noprefetch+snapshots-off+dirty-disabled", nopf, false}, {"node-defaults", nodeDef, true}, {"archive-node", nodeArchive, true},
		{"small-dirty-cache", smallDirty, true}, {"snapshots-off+small-dirty-cache", smallDirtyOff, false}}
}

func cfgByName(name string) repCfg {
	for _, c := range cacheConfigs() {
		if c.Name == name {
			return c
		}
	}
	panic("c06: unknown cache configuration " + name)
}

// ---------------------------------------------------------------- fixed contracts every world gets

func fixedAddr(i int) common.Address { return common.BytesToAddress([]byte{0xf1, 0x5e, byte(i)}) }

// fixedContracts: a counter (read-modify-write of one slot, logged), an environment recorder
// (block context into storage and a log), a phoenix (self-destructs; later transfers re-create the
// account), and a fan-out that pays three accounts and logs twice.
func fixedContracts(w *txgen.World) {
	op := func(o kvm.OpCode) byte { return byte(o) }
	counter := (&txgen.Asm{}).PushU(0).Op(op(kvm.SLOAD)).PushU(1).Op(op(kvm.ADD), op(kvm.DUP1)).PushU(0).Op(op(kvm.SSTORE)).
		PushU(0).Op(op(kvm.MSTORE)).PushU(0xc0).PushU(32).PushU(0).Op(op(kvm.LOG1), op(kvm.STOP)).B
	envRec := &txgen.Asm{}
	for i, o := range []kvm.OpCode{kvm.TIMESTAMP, kvm.NUMBER, kvm.COINBASE, kvm.GASLIMIT, kvm.GASPRICE, kvm.ORIGIN, kvm.GAS} {
		envRec.Op(op(o)).PushU(uint64(i)).Op(op(kvm.SSTORE))
	}
	envRec.PushU(1).Op(op(kvm.NUMBER), op(kvm.SUB), op(kvm.BLOCKHASH)).PushU(8).Op(op(kvm.SSTORE))
	envRec.Op(op(kvm.TIMESTAMP)).PushU(0).Op(op(kvm.MSTORE)).Op(op(kvm.COINBASE)).PushU(32).Op(op(kvm.MSTORE)).Op(op(kvm.NUMBER)).PushU(64).PushU(0).Op(op(kvm.LOG1), op(kvm.STOP))
	phoenix := []byte{op(kvm.CALLER), op(kvm.SELFDESTRUCT)}
	fan := &txgen.Asm{}
	for i := 0; i < 3; i++ {
		fan.PushU(0).PushU(0).PushU(0).PushU(0).PushU(uint64(1+i)).PushAddr(w.Fresh[i%len(w.Fresh)]).PushU(30000).Op(op(kvm.CALL), op(kvm.POP))
		if i < 2 {
			fan.PushU(uint64(0xf0 + i)).PushU(0).PushU(0).Op(op(kvm.LOG1))
		}
	}
	for i, code := range [][]byte{counter, envRec.B, phoenix, fan.B} {
		a := fixedAddr(i)
		w.Accounts[a] = &txgen.Account{Balance: big.NewInt(100000), Code: code}
		w.Contracts = append(w.Contracts, a)
	}
}

// ---------------------------------------------------------------- scenario

type scenarioOpts struct {
	NVals      int
	Powers     []int64
	Galaxias   string // "never", "genesis", "cross"
	ForkHeight uint64
	Heights    int
	Replicas   []repCfg
	HandOnly   bool // only hand-built blocks (deterministic block content: comparable across processes)
	ValHook    bool
	ValDensity int                  // ValHook: a height carries a validator report with probability ValDensity/12 (0: 4/12)
	Reopen     bool                 // every replica but the first is stopped and reopened before the last block (and one database image is opened twice)
	Restarts   bool                 // replicas other than the first are stopped and reopened at random heights (the second one often)
	Evidence   bool                 // one hand-built block carries duplicate-vote evidence against a validator (DoubleSign path of the application)
	Staking    bool                 // delegate / undelegate / withdraw calls of the real validator contracts (validator power moves through the real application)
	Long       *longPlan            `json:"long,omitempty"`
	Forge      map[int][]forgeEvent `json:"creation_script,omitempty"` // fixed plan of the creation workload (creations.go); nil: drawn
}

type heightRec struct {
	Height   uint64          `json:"height"`
	Mode     string          `json:"mode"`
	Proposer string          `json:"built_by"`
	Block    string          `json:"block"`
	Txs      int             `json:"txs"`
	Receipts int             `json:"receipts"`
	AppHash  string          `json:"app_hash"`
	Info     string          `json:"info_digest"`
	State    string          `json:"state_digest"`
	Vals     []string        `json:"app_validators,omitempty"`
	Report   string          `json:"validator_report,omitempty"`
	Restart  []string        `json:"restarted_before,omitempty"`
	Specs    []*txgen.TxSpec `json:"tx_specs,omitempty"`
}

// fingerprint of a run: block hash -> result digests (compared across repeats and processes).
type fingerprint struct {
	Heights []heightRec
}

func (f *fingerprint) lines() []string {
	var out []string
	for _, h := range f.Heights {
		out = append(out, fmt.Sprintf("%d %s %s %s %s", h.Height, h.Block, h.AppHash, h.Info, h.State))
	}
	return out
}

// pickReplicas draws n configurations, at least one with and one without the snapshot tree.
func pickReplicas(r *rand.Rand, n int) []repCfg {
	all := cacheConfigs()
	for {
		var out []repCfg
		snap, trieOnly := false, false
		for _, i := range r.Perm(len(all))[:n] {
			out = append(out, all[i])
			if all[i].Snap {
				snap = true
			} else {
				trieOnly = true
			}
		}
		if snap && trieOnly {
			return out
		}
	}
}

func drawScenario(r *rand.Rand, quick bool, handOnly bool) scenarioOpts {
	o := scenarioOpts{HandOnly: handOnly}
	o.NVals = 1 + r.Intn(4)
	for i := 0; i < o.NVals; i++ {
		o.Powers = append(o.Powers, int64(20+10*r.Intn(4)))
	}
	switch r.Intn(5) {
	case 0, 1:
		o.Galaxias = "never"
	case 2, 3:
		o.Galaxias = "genesis"
	default:
		o.Galaxias, o.ForkHeight = "cross", uint64(2+r.Intn(2))
	}
	o.Heights = 3 + r.Intn(4)
	if r.Intn(6) == 0 {
		o.Heights = 7 + r.Intn(4)
	}
	n := 4
	if !quick {
		n = 6
	}
	o.Replicas = pickReplicas(r, n)
	o.ValHook = o.NVals >= 2 && r.Intn(2) == 0
	o.Reopen = r.Intn(2) == 0
	o.Restarts = r.Intn(3) == 0
	if !o.ValHook && r.Intn(2) == 0 {
		o.Staking = true
	}
	if !o.ValHook && o.NVals >= 3 && r.Intn(2) == 0 {
		o.Evidence = true
	}
	return o
}

// drawReportScenario: a scenario that is about validator reports: 3-6 genesis validators whose powers
// are all equal (as in the shipped genesis files), of two levels, or arbitrary; a report at most
// heights; few transactions.
func drawReportScenario(r *rand.Rand, quick bool) scenarioOpts {
	o := scenarioOpts{ValHook: true, ValDensity: 9, Galaxias: "never"}
	if r.Intn(2) == 0 {
		o.Galaxias = "genesis"
	}
	o.NVals = 3 + r.Intn(4)
	profile := r.Intn(3)
	for i := 0; i < o.NVals; i++ {
		switch profile {
		case 0:
			o.Powers = append(o.Powers, 20)
		case 1:
			o.Powers = append(o.Powers, int64(20+20*(i%2)))
		default:
			o.Powers = append(o.Powers, int64(20+10*r.Intn(3)))
		}
	}
	o.Heights = 7 + r.Intn(4)
	n := 4
	if !quick {
		n = 5
	}
	o.Replicas = pickReplicas(r, n)
	o.Restarts = r.Intn(4) == 0
	o.HandOnly = r.Intn(2) == 0
	return o
}

type replicaSet struct {
	chains      []*chainkit.Chain
	cfgs        []repCfg // as shown (the name tells the history)
	base        []repCfg // the configuration a replica currently runs with
	orig        []string // configuration a replica started with
	restarts    []int    // how often a replica was stopped and reopened
	lastRestart []int    // height before which it was last reopened
}

func (rs *replicaSet) close() {
	for _, c := range rs.chains {
		if c != nil {
			c.Close(false)
		}
	}
}

// runScenario executes one generated chain on all replicas and compares them after every
// height. It returns the fingerprint of the run (nil if the case was abandoned).
func runScenario(cs *core.Case, r *rand.Rand, o scenarioOpts, tag string) *fingerprint {
	run := cs.Run
	var galaxias *uint64
	switch o.Galaxias {
	case "genesis":
		z := uint64(0)
		galaxias = &z
	case "cross":
		f := o.ForkHeight
		galaxias = &f
	}
	val0 := chainkit.ValAddrOf(0)
	w := txgen.NewWorld(r, txgen.WorldOpts{Galaxias: o.Galaxias == "genesis", NEOA: 3, NContracts: 3 + r.Intn(3), FixedCoinbase: &val0, RichEOAs: true})
	fixedContracts(w)
	directedContracts(w)
	creationContracts(w)
	if o.Long != nil && o.Heights > 40 {
		prefillBallast(w, ballastPrefill)
		prefillCrowd(w)
	}
	gen := chainkit.Genesis(w, o.Powers, galaxias)
	rs := &replicaSet{cfgs: append([]repCfg(nil), o.Replicas...)}
	defer rs.close()
	var ct *crashTracker
	for i, cfg := range o.Replicas {
		var base kaidb.Database
		var recLog *netsim.DurLog
		if o.Long != nil && o.Long.Crash != nil && i == o.Long.Crash.Replica {
			// the replica crash images are taken of (crash.go): every durable unit it writes is recorded
			recLog = &netsim.DurLog{}
			base = &netsim.RecDB{Database: memorydb.New(), Log: recLog}
		}
		ch, err := chainkit.New(gen, o.NVals, base, cfg.Cache, cfg.Name)
		if err == nil && recLog != nil {
			ct = newCrashTracker(o.Long.Crash, cfg, gen, o.NVals, recLog, ch)
			defer ct.close() // (whichever way the scenario ends, the nodes restarted on crash images are waited for)
		}
		if err != nil {
			run.Inconclusive(fmt.Sprintf("cannot build replica %s: %v", cfg.Name, err))
			return nil
		}
		rs.chains = append(rs.chains, ch)
		rs.orig = append(rs.orig, cfg.Name)
		rs.base = append(rs.base, cfg)
		rs.restarts = append(rs.restarts, 0)
		rs.lastRestart = append(rs.lastRestart, 0)
	}
	genesisVals := rs.chains[0].State.Validators.Copy().Validators
	hookSeed := r.Int63()
	var plan *reportPlan
	if o.ValHook {
		density := o.ValDensity
		if density == 0 {
			density = 4
		}
		plan = planReports(rand.New(rand.NewSource(hookSeed)), genesisVals, o.Heights, density)
		for i, ch := range rs.chains {
			i := i
			ch.ValHook = func(height uint64, app []*types.Validator) []*types.Validator {
				rp := plan.At[height]
				if rp == nil {
					return app
				}
				return orderFor(rp, i, hookSeed, height)
			}
		}
	}
	var si *stakingInfo
	if o.Staking {
		if si = newStakingInfo(rs.chains[0], o.NVals); si == nil {
			run.Count("staking_info_unavailable", 1)
		}
	}
	fp := &fingerprint{}
	wit := func(extra map[string]interface{}) map[string]interface{} {
		m := map[string]interface{}{"scenario": o, "tag": tag, "heights": fp.Heights}
		if plan != nil {
			m["validator_reports"] = plan.describe()
		}
		for k, v := range extra {
			m[k] = v
		}
		return m
	}
	// ---- when which replica is stopped and reopened
	restartAt := map[int][]int{} // height (before it is applied) -> replicas
	rr := rand.New(rand.NewSource(r.Int63()))
	if o.Restarts {
		for h := 2; h <= o.Heights; h++ {
			for i := 1; i < len(rs.chains); i++ {
				if (i == 1 && rr.Intn(2) == 0) || rr.Intn(6) == 0 {
					restartAt[h] = append(restartAt[h], i)
				}
			}
		}
	}
	if o.Long != nil {
		for i, hs := range o.Long.Restart {
			for _, h := range hs {
				restartAt[h] = append(restartAt[h], i)
			}
		}
	}
	for _, l := range restartAt {
		sort.Ints(l)
	}
	// restart stops replica i the way a node shuts down (BlockChain.Stop: snapshot journal, head tries) and
	// opens its database again, sometimes with another configuration (an operator changing the flags)
	restart := func(i, h int, twin bool) bool {
		old := rs.chains[i]
		before := canonState(old.State)
		old.Close(true)
		base := old.N.Base
		var twinBase kaidb.Database
		if twin {
			twinBase = netsim.CopyDB(base)
		}
		cfg := rs.base[i]
		if rr.Intn(3) == 0 && o.Long == nil {
			all := cacheConfigs()
			cfg = all[rr.Intn(len(all))]
		}
		if o.Long != nil {
			if name := o.Long.Reconfig[i][h]; name != "" {
				cfg = cfgByName(name)
			}
		}
		shown := cfg
		shown.Name = rs.orig[i] + "->reopened-as-" + cfg.Name
		nw, err := chainkit.New(gen, o.NVals, base, cfg.Cache, shown.Name)
		if err != nil {
			cs.Violation("reopen-fails:"+rs.orig[i], fmt.Sprintf("replica %s cannot be reopened from its own database after a clean stop at height %d: %v", rs.cfgs[i].Name, h-1, err), wit(nil))
			return false
		}
		nw.ValHook = old.ValHook
		rs.chains[i], rs.cfgs[i], rs.base[i] = nw, shown, cfg
		rs.restarts[i]++
		rs.lastRestart[i] = h
		run.Count("replicas_reopened", 1)
		if ct != nil && i == ct.plan.Replica {
			ct.stops = append(ct.stops, h)
		}
		if after := canonState(nw.State); maskTotalTx(after) != maskTotalTx(before) {
			// the store's save/load is C14's subject; here it matters only through what follows (block accepted? same result?)
			run.Count("reopened_consensus_state_differs_from_memory", 1)
		}
		if twin { // a second, independent open of the same database image
			tcfg := cfg
			tcfg.Name = rs.orig[i] + "->reopened-twice-as-" + cfg.Name
			if tw, err := chainkit.New(gen, o.NVals, twinBase, tcfg.Cache, tcfg.Name); err == nil {
				tw.ValHook = old.ValHook
				rs.chains = append(rs.chains, tw)
				rs.cfgs = append(rs.cfgs, tcfg)
				rs.base = append(rs.base, cfg)
				rs.orig = append(rs.orig, rs.orig[i])
				rs.restarts = append(rs.restarts, rs.restarts[i])
				rs.lastRestart = append(rs.lastRestart, h)
			}
		}
		return true
	}
	var lo *longObserver
	if o.Long != nil {
		lo = newLongObserver(run, rs.chains[0])
	}
	forgeRate := 1
	if o.Heights > 40 {
		forgeRate = 5
	}
	ft := newForgeTracker(run, o.Forge, forgeRate)
	lastCommit := chainkit.EmptyCommit()
	evidenceAt := 3 + r.Intn(2)
	for h := 1; h <= o.Heights; h++ {
		height := uint64(h)
		if o.Galaxias == "cross" {
			w.Galaxias = height >= o.ForkHeight
		}
		var restarted []string
		if o.Reopen && h == o.Heights && len(rs.chains) > 1 {
			n := len(rs.chains)
			for i := 1; i < n; i++ {
				if !restart(i, h, i == 1) {
					return nil
				}
				restarted = append(restarted, rs.cfgs[i].Name)
			}
		} else {
			for _, i := range restartAt[h] {
				if i < len(rs.chains) {
					if !restart(i, h, false) {
						return nil
					}
					restarted = append(restarted, rs.cfgs[i].Name)
				}
			}
		}
		// ---- build the block
		builder := r.Intn(len(o.Replicas))
		if builder >= len(rs.chains) {
			builder = 0
		}
		bch := rs.chains[builder]
		po := planOpts{Random: -1, PoolGas: 3000000, Directed: true, Forge: ft}
		if o.ValDensity > 4 {
			po.Random = r.Intn(3)
		}
		gl := uint64(300000 + r.Intn(4000000))
		if r.Intn(4) == 0 {
			gl = uint64(60000 + r.Intn(200000))
		}
		if si != nil {
			gl = 30000000 // staking calls carry a gas limit of 5,000,000
		}
		if o.Forge != nil {
			gl = configs.BlockGasLimit
		}
		if o.Long != nil {
			po.Random, po.Directed, po.NoGen, po.Extra = r.Intn(3), r.Intn(3) == 0, o.Heights > 40, o.Long.specsAt(h, len(w.EOAs))
			gl = configs.BlockGasLimit // what CreateProposalBlock sets
			if w.Galaxias {
				gl = configs.BlockGasLimitGalaxias
			}
			po.PoolGas = gl
		}
		// what the contracts of the storage workload hold before the block (read from the builder's head state, as planTxs
		// reads nonces and balances: to the node these are RPC reads, which go through its snapshot and warm its clean cache)
		preChild := map[common.Address]bool{}
		if st, err := bch.N.BC.State(); err == nil {
			for s := uint64(0); s < nSalts; s++ {
				preChild[childAddr(s)] = st.GetState(childAddr(s), slotKey(0)) != (common.Hash{})
			}
		}
		specs := planTxs(r, w, bch.N.BC, height, si, po)
		mode := "hand-built"
		if !o.HandOnly && r.Intn(2) == 0 {
			mode = "CreateProposalBlock"
		}
		var evidence []types.Evidence
		if o.Evidence && h == evidenceAt {
			mode = "hand-built"
			if ev, err := bch.DuplicateVote(1+r.Intn(o.NVals-1), height-1-uint64(r.Intn(2))); err == nil {
				evidence = append(evidence, ev)
				mode = "hand-built+evidence"
			} else {
				run.Count("evidence_not_built", 1)
			}
		}
		var blk *types.Block
		var ps *types.PartSet
		var txs []*types.Transaction
		for _, s := range specs {
			txs = append(txs, s.Sign(w))
		}
		if mode == "CreateProposalBlock" {
			// (no waiting for the pool's asynchronous head reset: a pool that is one block behind only makes the
			// proposer include stale transactions, which every replica must skip alike)
			accepted := 0
			for _, tx := range txs {
				if err := bch.N.Pool.AddLocal(tx); err == nil {
					accepted++
				}
			}
			run.Count("pool_accepted", accepted)
			blk, ps = bch.Propose(lastCommit)
		} else {
			blk, ps = bch.HandBlock(lastCommit, gl, txs, evidence...)
		}
		if blk == nil {
			run.Inconclusive(fmt.Sprintf("no block built at height %d (case %s:%d)", h, cs.Group, cs.I))
			return nil
		}
		bid := types.BlockID{Hash: blk.Hash(), PartsHeader: ps.Header()}
		// the commit for this block: every validator of the current set signs, some may be absent (> 2/3 stays)
		set := bch.State.Validators
		absent := map[int]bool{}
		if len(set.Validators) >= 3 && r.Intn(3) == 0 {
			k := r.Intn(len(bch.Keys))
			if _, v := set.GetByAddress(bch.ValAddr(k)); v != nil && (set.TotalVotingPower()-v.VotingPower)*3 > set.TotalVotingPower()*2 {
				absent[k] = true
				run.Count("commits_with_absent_validator", 1)
			}
		}
		seen := bch.SignCommit(set, height, bid, blk.Time().Add(3*time.Second), absent)
		// ---- apply on every replica
		rec := heightRec{Height: height, Mode: mode, Proposer: rs.cfgs[builder].Name, Block: fmt.Sprintf("%x", blk.Hash().Bytes()[:8]), Txs: len(blk.Transactions()), Specs: specs, Restart: restarted}
		if o.Long != nil && o.Heights > 40 {
			rec.Specs = nil // (the case regenerates its plan from the seed; 200 heights of call data would drown the witness)
		}
		var rp *valReport
		if plan != nil {
			if rp = plan.At[height]; rp != nil {
				rec.Report = rp.Kind
			}
		}
		type res struct {
			err                               error
			state, info, pub, appvals, loaded string
			receipts                          int
			bi                                *types.BlockInfo
		}
		results := make([]res, len(rs.chains))
		orders := map[string]bool{}
		// (replicas reopened before this height go first: a node executes the next block as soon as it is up)
		var applyOrder []int
		for pass := 0; pass < 2; pass++ {
			for i := range rs.chains {
				if (rs.lastRestart[i] == h) == (pass == 0) {
					applyOrder = append(applyOrder, i)
				}
			}
		}
		for _, i := range applyOrder {
			ch := rs.chains[i]
			bg := rs.base[i].Snap && rs.base[i].Cache != nil && !rs.base[i].Cache.SnapshotWait
			genBefore := bg && generatorRunning(ch)
			if ct != nil && i == ct.plan.Replica {
				ct.begin(h)
			}
			err := ch.Apply(blk, ps, seen)
			if ct != nil && i == ct.plan.Replica {
				ct.done(h)
			}
			if genBefore {
				run.Count("blocks_started_while_the_snapshot_generator_was_running", 1)
				if generatorRunning(ch) {
					run.Count("blocks_executed_entirely_while_the_snapshot_generator_was_running", 1)
				}
			}
			x := res{err: err}
			if err == nil {
				x.state = canonState(ch.State)
				bi := ch.RawBlockInfo(blk.Hash(), blk.Height())
				x.info, x.bi = canonInfo(bi), bi
				if bi != nil {
					x.receipts = len(bi.Receipts)
				}
				x.pub = canonInfo(ch.BlockInfo(blk))
				x.appvals = strings.Join(ch.AppVals, ",")
				x.loaded = canonState(ch.N.Store.Load())
				// (the returned state leaves LastBlockTotalTx at 0 while Load() fills it from the header: save/load
				// stability is C14's subject; here loaded states are compared with each other, replica by replica)
				if maskTotalTx(x.loaded) != maskTotalTx(x.state) {
					run.Count("store_load_differs_from_returned_state", 1)
					if os.Getenv("C06_DEBUG") != "" {
						fmt.Println("LOAD DIFF:", firstDiff(x.state, x.loaded))
					}
				}
				if rp != nil && ch.ValHook != nil {
					orders[orderKey(ch.ValHook(height, nil))] = true
				}
			}
			results[i] = x
			run.Count("block_executions", 1)
		}
		if os.Getenv("C06_DEBUG") != "" {
			for _, rj := range rs.chains[0].Rej.Take() {
				cl := "?"
				for k, tx := range txs {
					if tx.Hash().Hex() == rj.Tx {
						cl = specs[k].Class
					}
				}
				fmt.Printf("REJ h=%d class=%s err=%s\n", h, cl, rj.Err)
			}
		}
		run.Eval(1)
		// acceptance
		nFail := 0
		for _, x := range results {
			if x.err != nil {
				nFail++
			}
		}
		if nFail > 0 {
			var errs []string
			for i, x := range results {
				errs = append(errs, fmt.Sprintf("%s: %v", rs.cfgs[i].Name, x.err))
			}
			fp.Heights = append(fp.Heights, rec)
			switch {
			case nFail < len(results):
				cs.Violation("block-accepted-by-some-replicas-only:"+errKind(errs), fmt.Sprintf("height %d (%s by %s): %s", h, mode, rs.cfgs[builder].Name, strings.Join(errs, " | ")), wit(nil))
			case mode == "CreateProposalBlock":
				cs.Violation("proposer-block-rejected:"+errKind(errs), fmt.Sprintf("height %d: the block built by CreateProposalBlock on %s is rejected by every replica: %s", h, rs.cfgs[builder].Name, errs[0]), wit(nil))
			default:
				run.Inconclusive(fmt.Sprintf("hand-built block rejected by every replica at height %d (case %s:%d): %s", h, cs.Group, cs.I, errs[0]))
			}
			return nil
		}
		x0 := results[0]
		rec.Receipts, rec.AppHash, rec.Info, rec.State = x0.receipts, fmt.Sprintf("%x", rs.chains[0].State.AppHash[:8]), digest(x0.info), digest(x0.state)
		rec.Vals = rs.chains[0].AppVals
		fp.Heights = append(fp.Heights, rec)
		for i := 1; i < len(results); i++ {
			x := results[i]
			rel := "cache-config"
			switch {
			case rs.cfgs[0].Snap != rs.cfgs[i].Snap:
				rel = "snapshot-vs-trie-only"
			case rs.restarts[i] > 0 || rs.restarts[0] > 0:
				rel = "reopened-database"
			}
			role := ""
			if i == builder || builder == 0 {
				role = " (one of the two built the block, the other received it)"
			}
			pair := fmt.Sprintf("%s vs %s%s", rs.cfgs[0].Name, rs.cfgs[i].Name, role)
			switch {
			case rs.chains[0].State.AppHash != rs.chains[i].State.AppHash:
				cs.Violation("app-hash-differs:"+rel, fmt.Sprintf("height %d: app hash %x vs %x (%s)", h, rs.chains[0].State.AppHash[:6], rs.chains[i].State.AppHash[:6], pair), wit(nil))
				return nil
			case x.info != x0.info:
				cs.Violation("block-info-differs:"+rel, fmt.Sprintf("height %d: stored receipts/bloom/gas differ (%s): %s", h, pair, firstDiff(x0.info, x.info)), wit(nil))
				return nil
			case x.pub != x0.pub:
				cs.Violation("read-block-info-differs:"+rel, fmt.Sprintf("height %d: rawdb.ReadBlockInfo differs (%s): %s", h, pair, firstDiff(x0.pub, x.pub)), wit(nil))
				return nil
			case x.appvals != x0.appvals:
				cs.Violation("validator-updates-differ:"+rel, fmt.Sprintf("height %d: the application returned %s vs %s (%s)", h, x0.appvals, x.appvals, pair), wit(nil))
				return nil
			case x.state != x0.state:
				key := "latest-block-state-differs:" + rel
				if rp != nil {
					key = "latest-block-state-differs:validator-report-order"
				}
				cs.Violation(key, fmt.Sprintf("height %d (%s): %s", h, pair, firstDiff(x0.state, x.state)), wit(nil))
				return nil
			case x.loaded != x0.loaded:
				cs.Violation("stored-block-state-differs:"+rel, fmt.Sprintf("height %d, Store.Load() (%s): %s", h, pair, firstDiff(x0.loaded, x.loaded)), wit(nil))
				return nil
			}
			run.Count("pairwise_comparisons", 1)
			if rs.restarts[i] > 0 {
				run.Count("comparisons_with_reopened_replica", 1)
			}
			if rs.cfgs[0].Snap != rs.cfgs[i].Snap {
				run.Count("comparisons_snapshot_vs_trie_only", 1)
			}
		}
		if ct != nil {
			ct.afterHeight(run, h, crashRef{blk: blk, ps: ps, seen: seen, appHash: rs.chains[0].State.AppHash, info: x0.info, pub: x0.pub, appvals: x0.appvals,
				state: x0.state, loaded: x0.loaded, st: rs.chains[0].State.Copy()})
		}
		// ---- what was reached
		story := readStory(x0.bi)
		run.Count("contract_creations_through_create2", len(story.Created))
		run.Count("contract_self_destructs_of_storage_holders", len(story.Killed))
		run.Count("churn_slot_reads", story.ChurnReads)
		run.Count("reads_of_never_written_slots", story.NeverWritten)
		if story.Rebirths > 0 {
			run.Count("same_block_recreations", story.Rebirths)
			over := 0
			for _, a := range story.Created {
				if preChild[a] {
					over++
				}
			}
			if over > 0 {
				run.Count("same_block_recreations_over_committed_storage", over)
				if snapAndTrie(rs.cfgs) {
					run.Count("same_block_recreations_over_committed_storage_compared_snapshot_vs_trie_only", over)
				}
			}
		}
		if rp != nil {
			run.Count("validator_reports_compared", 1)
			run.Count("validator_reports:"+rp.Kind, 1)
			run.Max("validator_report_distinct_orders_max", int64(len(orders)))
			if len(orders) >= 3 {
				run.Count("validator_reports_in_3+_distinct_orders", 1)
			}
			if strings.Contains(rp.Kind, "swap") {
				run.Count("membership_swap_reports_compared", 1)
				if rp.MixedPowers && len(orders) >= 2 {
					run.Count("membership_swap_reports_compared_mixed_powers", 1)
				}
			}
		}
		if lo != nil {
			lo.after(h, rs, x0.bi)
		}
		if st, err := trieOnlyOrFirst(rs).N.BC.State(); err == nil {
			ft.after(h, st, w, snapAndTrie(rs.cfgs))
		}
		if len(evidence) > 0 {
			run.Count("blocks_with_evidence", 1)
			if rs.chains[0].State.LastHeightValidatorsChanged == height+2 {
				run.Count("evidence_blocks_changing_the_validator_set", 1)
			}
		}
		if mode == "CreateProposalBlock" {
			run.Count("proposer_built_blocks", 1)
			run.Count("proposer_built_txs", len(blk.Transactions()))
		} else {
			run.Count("hand_built_blocks", 1)
		}
		run.Count("block_txs", len(blk.Transactions()))
		run.Count("block_receipts", x0.receipts)
		if x0.receipts < len(blk.Transactions()) {
			run.Count("blocks_with_skipped_txs", 1)
		}
		if strings.Contains(x0.info, "log{") {
			run.Count("blocks_with_logs", 1)
		}
		for _, sp := range specs {
			if strings.HasPrefix(sp.Class, "staking-") {
				run.Count("staking_txs_generated", 1)
			}
		}
		if len(rs.chains[0].AppVals) > 0 {
			run.Count("blocks_with_validator_list_from_app", 1)
		}
		if rs.chains[0].State.LastHeightValidatorsChanged == height+2 {
			run.Count("validator_set_changes", 1)
			if si != nil {
				run.Count("validator_set_changes_through_staking_txs", 1)
			}
		}
		if o.Galaxias == "cross" && height == o.ForkHeight {
			run.Count("fork_blocks_executed", 1)
		}
		run.Distinct("cache_pairs", rs.cfgs[0].Name+"~"+rs.cfgs[len(rs.cfgs)-1].Name)
		if x0.receipts > 0 {
			run.Nontrivial(fmt.Sprintf("%s/%s/%d/%d", tag, cs.Group, cs.I, h))
		}
		lastCommit = seen
	}
	if lo != nil {
		lo.finish(o.Heights)
	}
	if ct != nil && !ct.finish(cs, wit) {
		return nil
	}
	if (cs.I < 2 && tag == "first") || (cs.I == 0 && (tag == "corpus" || tag == "valreports" || tag == "long")) {
		var hs []map[string]interface{}
		for _, h := range fp.Heights {
			if len(hs) < 4 {
				hs = append(hs, map[string]interface{}{"height": h.Height, "mode": h.Mode, "built_by": h.Proposer, "block": h.Block, "txs": h.Txs, "receipts": h.Receipts, "app_hash": h.AppHash, "info": h.Info, "state": h.State, "app_validators": h.Vals, "validator_report": h.Report, "restarted_before": h.Restart})
			}
		}
		var names []string
		for _, c := range rs.cfgs {
			names = append(names, c.Name)
		}
		smp := map[string]interface{}{"group": cs.Group, "case": cs.I, "validators": o.NVals, "galaxias": o.Galaxias, "replicas": names, "val_hook": o.ValHook, "staking": o.Staking, "evidence": o.Evidence, "reopen": o.Reopen, "restarts": o.Restarts, "first_heights": hs}
		if lo != nil {
			smp["heights"], smp["plan"], smp["disk_layer_merges_on_replica_0"], smp["disk_layer_height_at_the_end"] = o.Heights, o.Long, lo.merges, lo.disk
		}
		if plan != nil {
			smp["validator_reports"] = plan.describe()
		}
		run.Sample(smp)
	}
	return fp
}

// generatorRunning reads the progress record the snapshot generator keeps in the node's database (written when it starts,
// at every batch it flushes and, with Done set, when it has finished).
func generatorRunning(ch *chainkit.Chain) bool {
	blob := rawdb.ReadSnapshotGenerator(ch.N.DB)
	if len(blob) == 0 {
		return false
	}
	var g struct {
		Wiping                   bool
		Done                     bool
		Marker                   []byte
		Accounts, Slots, Storage uint64
	}
	if err := rlp.DecodeBytes(blob, &g); err != nil {
		return false
	}
	return !g.Done
}

// trieOnlyOrFirst: the replica whose head state the observers read (a trie-only one: its reads do not touch any snapshot cache).
func trieOnlyOrFirst(rs *replicaSet) *chainkit.Chain {
	for i, c := range rs.cfgs {
		if !c.Snap {
			return rs.chains[i]
		}
	}
	return rs.chains[0]
}

func snapAndTrie(cfgs []repCfg) bool {
	s, t := false, false
	for _, c := range cfgs {
		if c.Snap {
			s = true
		} else {
			t = true
		}
	}
	return s && t
}

func errKind(errs []string) string {
	s := strings.Join(errs, " ")
	for _, k := range []string{"AppHash", "LastBlockID", "ValidatorsHash", "NextValidatorHash", "block time", "signature", "commit failed", "proposer"} {
		if strings.Contains(s, k) {
			return strings.ReplaceAll(strings.ToLower(k), " ", "-")
		}
	}
	return "other"
}

type planOpts struct {
	Random   int  // number of randomly drawn transactions (-1: 2-8)
	Directed bool // storage workload steps among the random transactions
	PoolGas  uint64
	NoGen    bool            // no txgen.GenTx transactions (they move up to the sender's whole balance: a long chain would run dry)
	Extra    []*txgen.TxSpec // planned transactions (nonces are assigned here), placed after the random ones
	Forge    *forgeTracker   // the creation workload (creations.go): planned last, when the nonces before it are known
}

// forgeStep marks the place of the creation workload in a block plan.
var forgeStep = &txgen.TxSpec{Class: "forge-plan"}

func isDirected(class string) bool {
	return strings.HasPrefix(class, "churn-") || strings.HasPrefix(class, "phoenix-") || strings.HasPrefix(class, "forge-") || class == "ballast" || class == "spray"
}

// planTxs draws the transactions of one block from the head state of a replica, plus calls of the
// fixed contracts (several per block, so that consecutive blocks touch the same slots and accounts)
// and steps of the storage workload (directed.go).
func planTxs(r *rand.Rand, w *txgen.World, bc *blockchain.BlockChain, height uint64, si *stakingInfo, po planOpts) []*txgen.TxSpec {
	st, err := bc.State()
	if err != nil {
		return nil
	}
	nonce, bal := map[common.Address]uint64{}, map[common.Address]*big.Int{}
	for _, a := range w.EOAs {
		nonce[a], bal[a] = st.GetNonce(a), new(big.Int).Set(st.GetBalance(a))
	}
	pool := po.PoolGas
	var specs []*txgen.TxSpec
	n := po.Random
	if n < 0 {
		n = 2 + r.Intn(7)
	}
	var steps [][]*txgen.TxSpec
	for i := 0; i < n; i++ {
		var spec *txgen.TxSpec
		if si != nil && r.Intn(4) == 0 {
			from := r.Intn(len(w.EOAs))
			spec = si.tx(r, from, 0)
		}
		if spec != nil {
		} else if po.Directed && r.Intn(4) == 0 {
			steps = append(steps, directedStep(r, len(w.EOAs)))
			continue
		} else if po.NoGen || r.Intn(3) == 0 { // call of a fixed contract
			from := r.Intn(len(w.EOAs))
			to := fixedAddr(r.Intn(4))
			spec = &txgen.TxSpec{From: from, To: &to, Value: big.NewInt(int64(r.Intn(100))), Gas: uint64(150000 + r.Intn(200000)), Price: big.NewInt(int64(1 + r.Intn(50))), Class: "fixed-contract"}
		} else {
			steps = append(steps, nil) // a generated transaction: drawn below, when the nonces before it are known
			continue
		}
		steps = append(steps, []*txgen.TxSpec{spec})
	}
	if len(po.Extra) > 0 {
		steps = append(steps, po.Extra)
	}
	if po.Forge != nil {
		steps = append(steps, []*txgen.TxSpec{forgeStep})
	}
	for _, step := range steps {
		if len(step) == 1 && step[0] == forgeStep {
			if step = po.Forge.plan(r, int(height), w, st, nonce); len(step) == 0 {
				continue
			}
		}
		if step == nil {
			step = []*txgen.TxSpec{txgen.GenTx(r, w, txgen.Ctx{Nonce: func(a common.Address) uint64 { return nonce[a] }, Balance: func(a common.Address) *big.Int { return bal[a] }, PoolGas: pool})}
		}
		for _, spec := range step {
			from := w.EOAs[spec.From]
			if isDirected(spec.Class) || spec.Class == "fixed-contract" || strings.HasPrefix(spec.Class, "staking-") {
				spec.Nonce = nonce[from]
			}
			spec.DataHex = fmt.Sprintf("%x", spec.Data)
			ig := txgen.IntrinsicGas(spec.Data, spec.To == nil, w.Galaxias)
			cost := new(big.Int).Mul(new(big.Int).SetUint64(spec.Gas), spec.Price)
			if spec.BadSig == "" && spec.Nonce == nonce[from] && spec.Gas >= ig && spec.Gas <= pool && new(big.Int).Add(cost, spec.Value).Cmp(bal[from]) <= 0 {
				nonce[from]++
				use := ig + (spec.Gas-ig)/3
				if isDirected(spec.Class) {
					use = spec.Gas // (an upper bound keeps the planned transactions inside the block)
				}
				bal[from].Sub(bal[from], new(big.Int).Add(spec.Value, new(big.Int).Mul(new(big.Int).SetUint64(use), spec.Price)))
				if pool > use {
					pool -= use
				}
			}
			specs = append(specs, spec)
		}
	}
	return specs
}

var totalTxField = regexp.MustCompile(` totaltx=\d+ `)

func maskTotalTx(s string) string { return totalTxField.ReplaceAllString(s, " totaltx=* ") }

// stakingInfo holds what is needed to compose calls of the validator contracts.
type stakingInfo struct {
	valSmc []common.Address
	abi    *abi.ABI
}

func newStakingInfo(ch *chainkit.Chain, nVals int) *stakingInfo {
	su, err := staking.NewSmcStakingUtil()
	if err != nil {
		return nil
	}
	vu, err := staking.NewSmcValidatorUtil()
	if err != nil {
		return nil
	}
	st, err := ch.N.BC.State()
	if err != nil {
		return nil
	}
	info := &stakingInfo{abi: vu.Abi}
	hd := &types.Header{Height: 1, Time: ch.Gen.Timestamp, GasLimit: 100000000}
	for i := 0; i < nVals; i++ {
		a, err := su.GetValFromOwner(st, hd, ch.N.BC, kvm.Config{}, ch.ValAddr(i))
		if err != nil || a == (common.Address{}) {
			return nil
		}
		info.valSmc = append(info.valSmc, a)
	}
	return info
}

// tx draws one staking call.
func (si *stakingInfo) tx(r *rand.Rand, from int, nonce uint64) *txgen.TxSpec {
	to := si.valSmc[r.Intn(len(si.valSmc))]
	unit := new(big.Int).Exp(big.NewInt(10), big.NewInt(24), nil)
	s := &txgen.TxSpec{From: from, To: &to, Nonce: nonce, Value: new(big.Int), Gas: 5000000, Price: big.NewInt(1)}
	var err error
	switch r.Intn(6) {
	case 0, 1, 2:
		s.Data, err = si.abi.Pack("delegate")
		s.Value = new(big.Int).Mul(unit, big.NewInt(int64(1+r.Intn(30))))
		s.Class = "staking-delegate"
	case 3:
		s.Data, err = si.abi.Pack("undelegateWithAmount", new(big.Int).Mul(unit, big.NewInt(int64(1+r.Intn(10)))))
		s.Class = "staking-undelegate-amount"
	case 4:
		s.Data, err = si.abi.Pack("undelegate")
		s.Class = "staking-undelegate"
	default:
		s.Data, err = si.abi.Pack("withdrawRewards")
		s.Class = "staking-withdraw-rewards"
	}
	if err != nil {
		return nil
	}
	return s
}
