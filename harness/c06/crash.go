package c06

import (
	"bytes"
	"fmt"
	"math/rand"
	"regexp"
	"runtime/debug"
	"sort"
	"strings"
	"sync"
	"time"

	"github.com/kardiachain/go-kardia/kai/rawdb"
	"github.com/kardiachain/go-kardia/kai/state/cstate"
	"github.com/kardiachain/go-kardia/lib/common"
	"github.com/kardiachain/go-kardia/mainchain/blockchain"
	"github.com/kardiachain/go-kardia/mainchain/genesis"
	"github.com/kardiachain/go-kardia/types"

	"verifharness/c09/chainkit"
	"verifharness/core"
	"verifharness/netsim"
)

// Crash-restarted replicas. One replica of a long chain runs on a database that records every
// durable unit it writes (a Put, a Delete, or the atomic Write of a batch; netsim.RecDB). When the
// chain is finished, the harness takes database images "as of unit p" - the process died after the
// p-th unit reached the disk and before the next one did -, opens a node on each image exactly as a
// node starts (NewBlockChain with the replica's cache configuration, snapshot on, generation in the
// background; tx pool, evidence pool, state store, BlockOperations, BlockExecutor), and feeds it
// the blocks above the head it came up with, taken from the chain the other replicas executed.
// A crash may lose the most recent blocks (tries and snapshot layers live in memory: NewBlockChain
// rewinds the head to a block whose state is on disk); that is fine. What the property forbids is
// that re-executing a block on the restarted database gives another result than on the replicas
// that never crashed, or that a block they accepted is refused.
//
// Crash points: preferably inside a merge of the snapshot's bottom diff layer into the disk layer
// that was written in several batches (recognised in the unit log: consecutive batches of snapshot
// account / storage entries written during one block, the last of which sets the SnapshotRoot
// record; an image taken after one of the earlier batches holds a disk layer that is neither the
// old nor the new one), and at arbitrary units (in the middle of a block, of a clean shutdown, ...).

type crashPlan struct {
	Replica   int    `json:"replica"`
	Variant   string `json:"configuration"`
	InMerge   int    `json:"images_inside_multi_batch_disk_layer_merges"`
	Arbitrary int    `json:"images_at_arbitrary_units"`
	After     int    `json:"blocks_applied_beyond_the_crash"`
	Seed      int64  `json:"seed"`
}

// crashCfg: the recorded replica runs what backend.go passes for the default flags (snapshot generated in the
// background), in one of two variants: with a trie timeout so short that beyond block 128 the trie of block h-128 is
// committed at every block (Config.TrieTimeout in the node's TOML file; a crash then rewinds the head by about 128
// blocks, onto or next to the block the snapshot's disk layer stands at), or literally (tries reach the disk only at a
// clean stop: a crash rewinds the head to the last clean stop or to the genesis, below the disk layer, and the node
// comes up in snapshot recovery mode).
func crashCfg(variant string) repCfg {
	c := &blockchain.CacheConfig{TrieCleanLimit: 154, TrieDirtyLimit: 256, TrieTimeLimit: 60 * time.Minute, SnapshotLimit: 102}
	if variant == "node-defaults+trie-timeout-1ns" {
		c.TrieTimeLimit = time.Nanosecond
	}
	return repCfg{Name: variant, Cache: c, Snap: true}
}

func drawCrashPlan(r *rand.Rand, quick bool, i int, replica int) *crashPlan {
	p := &crashPlan{Replica: replica, Variant: "node-defaults+trie-timeout-1ns", InMerge: 2, Arbitrary: 2, After: 16, Seed: r.Int63()}
	if i%2 == 1 {
		p.Variant = "node-defaults"
	}
	if !quick {
		p.InMerge, p.Arbitrary, p.After = 3, 4, 40
	}
	return p
}

// crashRef: a block of the chain and what the never-crashed replicas made of it (they were compared pairwise).
type crashRef struct {
	blk                               *types.Block
	ps                                *types.PartSet
	seen                              *types.Commit
	appHash                           common.Hash
	info, pub, appvals, state, loaded string
	st                                cstate.LatestBlockState // consensus state after the block
}

type crashTracker struct {
	plan       *crashPlan
	cfg        repCfg
	log        *netsim.DurLog
	start, end []int      // by height: units in the log before / after the block was applied on the recorded replica
	refs       []crashRef // by height (0: genesis)
	stops      []int      // heights before which the recorded replica was stopped cleanly and reopened
}

func newCrashTracker(plan *crashPlan, cfg repCfg, log *netsim.DurLog, ch0 *chainkit.Chain) *crashTracker {
	ct := &crashTracker{plan: plan, cfg: cfg, log: log, start: []int{0}, end: []int{log.Len()}}
	ct.refs = append(ct.refs, crashRef{appHash: ch0.State.AppHash, st: ch0.State.Copy()})
	return ct
}

func (ct *crashTracker) begin(h int) { ct.start = append(ct.start, ct.log.Len()) }
func (ct *crashTracker) done(h int)  { ct.end = append(ct.end, ct.log.Len()) }

// ---------------------------------------------------------------- the unit log

var snapshotRootKey = []byte("SnapshotRoot")

func isSnapEntry(k []byte) bool {
	return (len(k) == 1+common.HashLength && k[0] == 'a') || (len(k) == 1+2*common.HashLength && k[0] == 'o')
}

// diskMerge: one merge into the snapshot's disk layer as it appears in the unit log.
type diskMerge struct {
	Block   int   `json:"during_block"`
	Units   []int `json:"units"` // indices of its batches; the last one sets the SnapshotRoot record
	Entries int   `json:"entries"`
	KiB     int   `json:"value_kib"`
	From    int   `json:"disk_layer_from_height"` // -1: unknown root
	To      int   `json:"disk_layer_to_height"`
}

func rootPut(e netsim.DurEv) (common.Hash, bool) {
	for _, o := range e.Ops {
		if !o.Del && bytes.Equal(o.K, snapshotRootKey) {
			return common.BytesToHash(o.V), true
		}
	}
	return common.Hash{}, false
}

// snapOnly: every operation of the unit concerns the snapshot's disk layer (entries, root record, generator record).
func snapOnly(e netsim.DurEv) (entries, size int, ok bool) {
	if e.Kind != "db" {
		return 0, 0, false
	}
	for _, o := range e.Ops {
		switch {
		case isSnapEntry(o.K):
			entries++
			size += len(o.V)
		case bytes.HasPrefix(o.K, []byte("Snapshot")):
		default:
			return 0, 0, false
		}
	}
	return entries, size, true
}

func (ct *crashTracker) findMerges(evs []netsim.DurEv) []diskMerge {
	heightOf := map[common.Hash]int{}
	for h, rf := range ct.refs {
		heightOf[rf.appHash] = h
	}
	look := func(root common.Hash) int {
		if h, ok := heightOf[root]; ok {
			return h
		}
		return -1
	}
	var out []diskMerge
	last := -1
	for u := 0; u < ct.start[1] && u < len(evs); u++ { // the genesis snapshot
		if root, ok := rootPut(evs[u]); ok {
			last = look(root)
		}
	}
	for h := 1; h < len(ct.end); h++ {
		for u := ct.start[h]; u < ct.end[h] && u < len(evs); u++ {
			root, ok := rootPut(evs[u])
			if !ok {
				continue
			}
			n, sz, only := snapOnly(evs[u])
			if !only {
				continue
			}
			m := diskMerge{Block: h, Units: []int{u}, Entries: n, KiB: sz, From: last, To: look(root)}
			for v := u - 1; v >= ct.start[h]; v-- {
				n, sz, only := snapOnly(evs[v])
				if !only || n == 0 {
					break
				}
				if _, again := rootPut(evs[v]); again {
					break
				}
				m.Units = append([]int{v}, m.Units...)
				m.Entries += n
				m.KiB += sz
			}
			m.KiB /= 1024
			last = m.To
			out = append(out, m)
		}
	}
	return out
}

// ---------------------------------------------------------------- crash points

type crashPoint struct {
	P     int        `json:"durable_units_on_disk"`
	Kind  string     `json:"kind"`
	Block int        `json:"died_while_applying_block"` // 0: between blocks (e.g. in a clean shutdown)
	Last  int        `json:"last_block_completed_before"`
	Merge *diskMerge `json:"inside_disk_layer_merge,omitempty"`
	Batch int        `json:"batches_of_the_merge_on_disk,omitempty"`
	Next  string     `json:"next_unit_never_written"`
	Prev  string     `json:"last_unit_written"`
}

func (ct *crashTracker) point(evs []netsim.DurEv, p int, kind string) crashPoint {
	cp := crashPoint{P: p, Kind: kind}
	for h := 1; h < len(ct.end); h++ {
		if ct.start[h] < p && p < ct.end[h] {
			cp.Block = h
		}
		if ct.end[h] <= p {
			cp.Last = h
		}
	}
	if p < len(evs) {
		cp.Next = evs[p].Desc
	}
	if p > 0 {
		cp.Prev = evs[p-1].Desc
	}
	return cp
}

func (ct *crashTracker) choose(r *rand.Rand, evs []netsim.DurEv, merges []diskMerge) []crashPoint {
	var pts []crashPoint
	taken := map[int]bool{}
	add := func(cp crashPoint) {
		if !taken[cp.P] {
			taken[cp.P] = true
			pts = append(pts, cp)
		}
	}
	// inside merges written in several batches: after the first batch of the earliest such merge, after the last but one
	// batch of another, then anywhere inside any. (Where the literal node defaults are run with an early clean stop, the
	// merges whose old disk layer lies above that stop come first: below it the head is rewound to the genesis.)
	var multi []int
	for i, m := range merges {
		if len(m.Units) > 1 {
			multi = append(multi, i)
		}
	}
	if len(ct.stops) > 0 {
		sort.SliceStable(multi, func(a, b int) bool {
			return (merges[multi[a]].From >= ct.stops[0]) && !(merges[multi[b]].From >= ct.stops[0])
		})
	}
	for k := 0; k < ct.plan.InMerge && len(multi) > 0; k++ {
		mi := multi[0]
		if k > 0 {
			mi = multi[(1+r.Intn(len(multi)))%len(multi)]
		}
		m := merges[mi]
		b := 1 // batches of the merge that reached the disk
		switch {
		case k == 1:
			b = len(m.Units) - 1
		case k > 1:
			b = 1 + r.Intn(len(m.Units)-1)
		}
		cp := ct.point(evs, m.Units[b-1]+1, "inside-multi-batch-disk-layer-merge")
		cp.Merge, cp.Batch = &merges[mi], b
		add(cp)
	}
	// arbitrary units: one in the first 40 blocks, one around a clean stop of the recorded replica (in the middle of the
	// shutdown, too) or anywhere beyond block 128, the rest anywhere
	n := len(ct.end) - 1
	span := func(lo, hi int) (int, int) {
		if lo < 1 {
			lo = 1
		}
		if hi > n {
			hi = n
		}
		if lo > hi {
			lo = hi
		}
		return ct.start[lo] + 1, ct.end[hi]
	}
	for k := 0; k < ct.plan.Arbitrary && n >= 2; k++ {
		var lo, hi int
		switch {
		case k == 0:
			lo, hi = span(2, 40)
		case k == 1 && len(ct.stops) > 0:
			s := ct.stops[r.Intn(len(ct.stops))]
			lo, hi = span(s-1, s+3)
		case k == 1:
			lo, hi = span(129, n)
		default:
			lo, hi = span(2, n)
		}
		if hi <= lo {
			continue
		}
		add(ct.point(evs, lo+r.Intn(hi-lo), "arbitrary-unit"))
	}
	return pts
}

// ---------------------------------------------------------------- restart from an image

type crashResult struct {
	Point      crashPoint `json:"crash"`
	StartErr   string     `json:"node_refuses_to_start,omitempty"`
	Head       int        `json:"head_after_restart"`
	StoredCS   int        `json:"stored_consensus_state_height"`
	Recovery   bool       `json:"snapshot_recovery_mode"`
	DiskKept   bool       `json:"snapshot_disk_layer_kept"`
	Reapplied  int        `json:"lost_blocks_reapplied"`
	Later      int        `json:"later_blocks_applied"`
	GenRunning int        `json:"blocks_started_while_the_snapshot_was_regenerated"`
	Key        string     `json:"violation_key,omitempty"`
	What       string     `json:"violation,omitempty"`
}

var hexRun = regexp.MustCompile(`(0x)?[0-9a-fA-F]{8,}`)

func errText(s string) string {
	s = hexRun.ReplaceAllString(s, "#")
	if len(s) > 160 {
		s = s[:160]
	}
	return s
}

// restartAt opens a node on the image after p units and applies the chain's blocks above the head it comes up with.
func (ct *crashTracker) restartAt(evs []netsim.DurEv, cp crashPoint, gen *genesis.Genesis, nVals int) (res *crashResult) {
	res = &crashResult{Point: cp}
	img, _ := netsim.ImageAt(evs, cp.P)
	label := fmt.Sprintf("%s->crashed-after-unit-%d-reopened", ct.cfg.Name, cp.P)
	var ch *chainkit.Chain
	func() {
		defer func() {
			if e := recover(); e != nil {
				res.StartErr = errText(fmt.Sprintf("panic in %s: %v", core.PanicKey(string(debug.Stack())), e))
			}
		}()
		c, err := chainkit.New(gen, nVals, img, ct.cfg.Cache, label)
		if err != nil {
			res.StartErr = errText(err.Error())
			return
		}
		ch = c
	}()
	if ch == nil {
		return res
	}
	defer ch.Close(true) // (BlockChain.Stop ends a running snapshot generator)
	res.Head = int(ch.N.BC.CurrentBlock().Height())
	res.StoredCS = int(ch.State.LastBlockHeight)
	if l := rawdb.ReadSnapshotRecoveryNumber(ch.N.DB); l != nil && *l >= uint64(res.Head) {
		res.Recovery = true
	}
	res.DiskKept = rawdb.ReadSnapshotRoot(ch.N.DB) != (common.Hash{}) && !generatorRunning(ch)
	if res.Head >= len(ct.refs) {
		res.Key, res.What = "head-above-the-chain:crash-restarted-database", fmt.Sprintf("the node restarted on the image comes up with head %d, the chain has %d blocks", res.Head, len(ct.refs)-1)
		return res
	}
	// the consensus state the blocks are applied on: the one every never-crashed replica held at that height (the stored
	// one may be ahead of the chain head after a crash; how a node gets back from there is C05's subject)
	ch.State = ct.refs[res.Head].st.Copy()
	lastLost := cp.Last
	if cp.Block > lastLost {
		lastLost = cp.Block // (the block it died in may have been executed by the others)
	}
	to := lastLost + ct.plan.After
	if res.Head > lastLost {
		to = res.Head + ct.plan.After
	}
	if to > len(ct.refs)-1 {
		to = len(ct.refs) - 1
	}
	pair := fmt.Sprintf("replicas that never crashed vs %s (died %s, came up with head %d)", label, cp.where(), res.Head)
	for h := res.Head + 1; h <= to; h++ {
		rf := ct.refs[h]
		if generatorRunning(ch) {
			res.GenRunning++
		}
		var err error
		func() {
			defer func() {
				if e := recover(); e != nil {
					err = fmt.Errorf("panic in %s: %v", core.PanicKey(string(debug.Stack())), e)
				}
			}()
			err = ch.Apply(rf.blk, rf.ps, rf.seen)
		}()
		if err != nil {
			res.Key = "block-accepted-by-some-replicas-only:crash-restarted-database:" + errKind([]string{err.Error()})
			res.What = fmt.Sprintf("height %d: accepted by every replica that never crashed, refused by the one restarted on a crash image: %v (%s)", h, err, pair)
			return res
		}
		bi := ch.RawBlockInfo(rf.blk.Hash(), rf.blk.Height())
		info, pub := canonInfo(bi), canonInfo(ch.BlockInfo(rf.blk))
		state, loaded := canonState(ch.State), canonState(ch.N.Store.Load())
		rel := "crash-restarted-database"
		switch {
		case ch.State.AppHash != rf.appHash:
			res.Key, res.What = "app-hash-differs:"+rel, fmt.Sprintf("height %d: app hash %x vs %x (%s)", h, rf.appHash[:6], ch.State.AppHash[:6], pair)
		case info != rf.info:
			res.Key, res.What = "block-info-differs:"+rel, fmt.Sprintf("height %d: stored receipts/bloom/gas differ (%s): %s", h, pair, firstDiff(rf.info, info))
		case pub != rf.pub:
			res.Key, res.What = "read-block-info-differs:"+rel, fmt.Sprintf("height %d: rawdb.ReadBlockInfo differs (%s): %s", h, pair, firstDiff(rf.pub, pub))
		case strings.Join(ch.AppVals, ",") != rf.appvals:
			res.Key, res.What = "validator-updates-differ:"+rel, fmt.Sprintf("height %d: the application returned %s vs %s (%s)", h, rf.appvals, strings.Join(ch.AppVals, ","), pair)
		case state != rf.state:
			res.Key, res.What = "latest-block-state-differs:"+rel, fmt.Sprintf("height %d (%s): %s", h, pair, firstDiff(rf.state, state))
		case loaded != rf.loaded:
			res.Key, res.What = "stored-block-state-differs:"+rel, fmt.Sprintf("height %d, Store.Load() (%s): %s", h, pair, firstDiff(rf.loaded, loaded))
		}
		if res.Key != "" {
			return res
		}
		if h <= lastLost {
			res.Reapplied++
		} else {
			res.Later++
		}
	}
	return res
}

func (cp crashPoint) where() string {
	s := "between blocks"
	if cp.Block > 0 {
		s = fmt.Sprintf("while applying block %d", cp.Block)
	}
	if cp.Merge != nil {
		s += fmt.Sprintf(", after batch %d of %d of the merge of the snapshot disk layer from height %d to %d", cp.Batch, len(cp.Merge.Units), cp.Merge.From, cp.Merge.To)
	}
	return fmt.Sprintf("%s, after %d durable units, last written %q, next %q", s, cp.P, cp.Prev, cp.Next)
}

// run takes the crash images of a finished chain. It returns false if a violation was reported.
func (ct *crashTracker) run(cs *core.Case, gen *genesis.Genesis, nVals int, wit func(map[string]interface{}) map[string]interface{}) bool {
	run := cs.Run
	evs := ct.log.Snapshot()
	run.Count("crash_replica_durable_units_recorded", len(evs))
	merges := ct.findMerges(evs)
	for _, m := range merges {
		run.Count("disk_layer_merges_in_the_unit_log", 1)
		if len(m.Units) > 1 {
			run.Count("disk_layer_merges_written_in_several_batches", 1)
		}
		run.Max("disk_layer_merge_batches_max", int64(len(m.Units)))
		run.Max("disk_layer_merge_values_max_kib", int64(m.KiB))
	}
	pts := ct.choose(rand.New(rand.NewSource(ct.plan.Seed)), evs, merges)
	results := make([]*crashResult, len(pts))
	var wg sync.WaitGroup
	for k := range pts {
		wg.Add(1)
		go func(k int) {
			defer wg.Done()
			results[k] = ct.restartAt(evs, pts[k], gen, nVals)
		}(k)
	}
	wg.Wait()
	ok := true
	for _, res := range results {
		run.Count("crash_images_taken", 1)
		run.Count("crash_images_taken:"+res.Point.Kind, 1)
		if res.Point.Block > 0 {
			run.Count("crash_images_taken_in_the_middle_of_a_block", 1)
		}
		if res.StartErr != "" {
			// start-up after a crash is C05's subject: counted, not judged here
			run.Count("crash_images_the_node_refuses_to_start_on", 1)
			run.Count("crash_images_the_node_refuses_to_start_on: "+res.StartErr, 1)
			continue
		}
		run.Count("restarts_from_crash_images", 1)
		run.Count("restarts_from_crash_images:"+ct.cfg.Name, 1)
		if res.Point.Merge != nil {
			run.Count("restarts_from_images_taken_inside_a_multi_batch_disk_layer_merge", 1)
		}
		if res.Head < res.Point.Last {
			run.Count("crash_restarts_that_lost_blocks", 1)
			run.Max("blocks_lost_in_a_crash_max", int64(res.Point.Last-res.Head))
		}
		if res.StoredCS != res.Head {
			run.Count("crash_restarts_with_stored_consensus_state_not_at_the_chain_head", 1)
		}
		if res.Recovery {
			run.Count("crash_restarts_in_snapshot_recovery_mode", 1)
		}
		if res.DiskKept {
			run.Count("crash_restarts_that_kept_the_snapshot_disk_layer", 1)
		} else {
			run.Count("crash_restarts_that_regenerate_the_snapshot", 1)
		}
		run.Count("lost_blocks_reapplied_on_crash_images", res.Reapplied)
		run.Count("later_blocks_applied_on_crash_images", res.Later)
		run.Count("comparisons_with_crash_restarted_replica", res.Reapplied+res.Later)
		run.Count("blocks_started_on_crash_images_while_the_snapshot_was_regenerated", res.GenRunning)
		run.Count("block_executions", res.Reapplied+res.Later)
		if res.Point.Merge != nil {
			run.Count("comparisons_with_replica_crashed_inside_a_multi_batch_disk_layer_merge", res.Reapplied+res.Later)
		}
		if res.Key != "" && ok {
			ok = false
			cs.Violation(res.Key, res.What, wit(map[string]interface{}{"crash_restart": res, "disk_layer_merges_of_the_recorded_replica": merges,
				"note": "the image is the recorded replica's database after the first durable_units_on_disk units it wrote; which entries a batch of a disk-layer merge holds follows Go's map order, so a replay may differ in the values but not in the situation"}))
		}
	}
	if cs.I < 2 {
		run.Sample(map[string]interface{}{"group": cs.Group, "case": cs.I, "crash_restart_replica": ct.plan, "clean_stops_before_heights": ct.stops, "disk_layer_merges_of_the_recorded_replica": merges, "crash_restarts": results})
	}
	return ok
}
