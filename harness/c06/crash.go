package c06

import (
	"bytes"
	"fmt"
	"math/rand"
	"regexp"
	"runtime/debug"
	"sort"
	"strings"
	"sync"
	"time"

	"github.com/kardiachain/go-kardia/kai/rawdb"
	"github.com/kardiachain/go-kardia/kai/state/cstate"
	"github.com/kardiachain/go-kardia/lib/common"
	"github.com/kardiachain/go-kardia/mainchain/blockchain"
	"github.com/kardiachain/go-kardia/mainchain/genesis"
	"github.com/kardiachain/go-kardia/types"

	"verifharness/c09/chainkit"
	"verifharness/core"
	"verifharness/netsim"
)

// Crash-restarted replicas. One replica of a long chain runs on a database that records every
// durable unit it writes (a Put, a Delete, or the atomic Write of a batch; netsim.RecDB). After
// chosen blocks the harness takes a database image "as of unit p" - the process died after the
// p-th unit reached the disk and before the next one did -, opens a node on the image exactly as a
// node starts (NewBlockChain with the replica's cache configuration, snapshot on, generation in the
// background; tx pool, evidence pool, state store, BlockOperations, BlockExecutor), and feeds it
// the blocks above the head it came up with, taken from the chain the other replicas executed
// (in a goroutine of its own, beside the chain that goes on; it waits for blocks not yet built).
// A crash may lose the most recent blocks (tries and snapshot layers live in memory: NewBlockChain
// rewinds the head to a block whose state is on disk); that is fine. What the property forbids is
// that re-executing a block on the restarted database gives another result than on the replicas
// that never crashed, or that a block they accepted is refused.
//
// Crash points: preferably inside a merge of the snapshot's bottom diff layer into the disk layer
// that was written in several batches (recognised in the unit log: consecutive batches of snapshot
// account / storage entries written during one block, the last of which sets the SnapshotRoot
// record; an image taken after one of the earlier batches holds a disk layer that is neither the
// old nor the new one), and at arbitrary units (in the middle of a block, of a clean shutdown, ...).

type crashPlan struct {
	Replica   int    `json:"replica"`
	Variant   string `json:"recorded_replica"`
	InMerge   int    `json:"images_inside_multi_batch_disk_layer_merges"`
	Arbitrary []int  `json:"images_at_an_arbitrary_unit_of_heights"`
	After     int    `json:"blocks_applied_beyond_the_crash"`
	Seed      int64  `json:"seed"`
}

const (
	crashLongRunning = "the-long-running-replica"       // replica 0 itself is recorded: nothing but snapshot merges ever reaches its disk, a crash rewinds the head to the genesis
	crashEarlyStop   = "node-defaults+early-clean-stop" // a fifth replica, stopped cleanly once in the first blocks: a crash rewinds the head to that stop
	crashTrieTimeout = "node-defaults+trie-timeout-1ns" // a fifth replica that commits the trie of block h-128 at every block beyond 128 (Config.TrieTimeout in the node's TOML file)
)

// crashCfg: the fifth replica runs what backend.go passes for the default flags (snapshot generated in the background).
func crashCfg(variant string) repCfg {
	c := &blockchain.CacheConfig{TrieCleanLimit: 154, TrieDirtyLimit: 256, TrieTimeLimit: 60 * time.Minute, SnapshotLimit: 102}
	if variant == crashTrieTimeout {
		c.TrieTimeLimit = time.Nanosecond
	}
	return repCfg{Name: variant, Cache: c, Snap: true}
}

// drawCrashPlan: which replica is recorded and where images are taken. Even chains record replica 0, odd chains a
// fifth replica with an early clean stop (thorough: every fourth chain one with a short trie timeout instead).
func drawCrashPlan(r *rand.Rand, quick bool, i, heights, nReplicas int) *crashPlan {
	p := &crashPlan{Replica: 0, Variant: crashLongRunning, InMerge: 2, After: 16, Seed: r.Int63()}
	if i%2 == 1 {
		p.Replica, p.Variant = nReplicas, crashEarlyStop
		if !quick && i%4 == 3 {
			p.Variant = crashTrieTimeout
		}
	}
	// arbitrary units: one in the first 40 blocks, one beyond block 128 (replaced by the clean stop where there is one; quick: not on
	// the long-running replica, where it means re-executing some 150 blocks from the genesis once more), thorough: two more anywhere
	p.Arbitrary = []int{2 + r.Intn(39), 129 + r.Intn(16)}
	if quick && p.Variant == crashLongRunning {
		p.Arbitrary[1] = 0
	}
	if !quick {
		p.InMerge, p.After = 3, 40
		p.Arbitrary = append(p.Arbitrary, 2+r.Intn(heights-1), 2+r.Intn(heights-1))
	}
	return p
}

// crashRef: a block of the chain and what the never-crashed replicas made of it (they were compared pairwise).
type crashRef struct {
	blk                               *types.Block
	ps                                *types.PartSet
	seen                              *types.Commit
	appHash                           common.Hash
	info, pub, appvals, state, loaded string
	st                                cstate.LatestBlockState // consensus state after the block
}

type crashTracker struct {
	plan       *crashPlan
	cfg        repCfg // what the node is restarted with (the recorded replica's configuration; generation in the background)
	gen        *genesis.Genesis
	nVals      int
	log        *netsim.DurLog
	rng        *rand.Rand
	start, end []int // by height: units in the log before / after the block was applied on the recorded replica
	stops      []int // heights before which the recorded replica was stopped cleanly and reopened
	heightOf   map[common.Hash]int
	diskAt     int // height the recorded replica's disk layer stands at according to the log (-1: unknown root)
	merges     []diskMerge
	inMerge    int // images taken inside merges so far

	mu      sync.Mutex
	cond    *sync.Cond
	refs    []crashRef // by height (0: genesis)
	closed  bool       // the chain is finished or abandoned: no more blocks will come
	wg      sync.WaitGroup
	results []*crashResult
}

func newCrashTracker(plan *crashPlan, cfg repCfg, gen *genesis.Genesis, nVals int, log *netsim.DurLog, ch0 *chainkit.Chain) *crashTracker {
	ct := &crashTracker{plan: plan, gen: gen, nVals: nVals, log: log, start: []int{0}, end: []int{log.Len()}, heightOf: map[common.Hash]int{ch0.State.AppHash: 0, rawdb.ReadAppHash(ch0.N.DB, 0): 0}, diskAt: -1,
		rng: rand.New(rand.NewSource(plan.Seed))}
	ct.cond = sync.NewCond(&ct.mu)
	// the restarted node: same allowances, the snapshot generated in the background as backend.go has it
	cc := blockchain.CacheConfig{TrieCleanLimit: 256, TrieDirtyLimit: 256, TrieTimeLimit: 5 * time.Minute, SnapshotLimit: 256}
	if cfg.Cache != nil {
		cc = *cfg.Cache
	}
	cc.SnapshotWait = false
	ct.cfg = repCfg{Name: cfg.Name, Cache: &cc, Snap: true}
	ct.refs = append(ct.refs, crashRef{appHash: ch0.State.AppHash, st: ch0.State.Copy()})
	for _, e := range log.Snapshot() { // the genesis snapshot
		if root, ok := rootPut(e); ok {
			ct.diskAt = ct.look(root)
		}
	}
	return ct
}

func (ct *crashTracker) look(root common.Hash) int {
	if h, ok := ct.heightOf[root]; ok {
		return h
	}
	return -1
}

func (ct *crashTracker) begin(h int) { ct.start = append(ct.start, ct.log.Len()) }
func (ct *crashTracker) done(h int)  { ct.end = append(ct.end, ct.log.Len()) }

// waitRef returns block h of the chain and its results, waiting until the chain has come that far.
func (ct *crashTracker) waitRef(h int) (crashRef, bool) {
	ct.mu.Lock()
	defer ct.mu.Unlock()
	for len(ct.refs) <= h && !ct.closed {
		ct.cond.Wait()
	}
	if len(ct.refs) <= h {
		return crashRef{}, false
	}
	return ct.refs[h], true
}

// close: no more blocks will come; waits for the restarted nodes.
func (ct *crashTracker) close() {
	ct.mu.Lock()
	ct.closed = true
	ct.cond.Broadcast()
	ct.mu.Unlock()
	ct.wg.Wait()
}

// ---------------------------------------------------------------- the unit log

var snapshotRootKey = []byte("SnapshotRoot")

func isSnapEntry(k []byte) bool {
	return (len(k) == 1+common.HashLength && k[0] == 'a') || (len(k) == 1+2*common.HashLength && k[0] == 'o')
}

// diskMerge: one merge into the snapshot's disk layer as it appears in the unit log.
type diskMerge struct {
	Block   int   `json:"during_block"`
	Units   []int `json:"units"` // indices of its batches; the last one sets the SnapshotRoot record
	Entries int   `json:"entries"`
	KiB     int   `json:"value_kib"`
	From    int   `json:"disk_layer_from_height"` // -1: unknown root
	To      int   `json:"disk_layer_to_height"`
}

func rootPut(e netsim.DurEv) (common.Hash, bool) {
	for _, o := range e.Ops {
		if !o.Del && bytes.Equal(o.K, snapshotRootKey) {
			return common.BytesToHash(o.V), true
		}
	}
	return common.Hash{}, false
}

// snapOnly: every operation of the unit concerns the snapshot's disk layer (entries, root record, generator record).
func snapOnly(e netsim.DurEv) (entries, size int, ok bool) {
	if e.Kind != "db" {
		return 0, 0, false
	}
	for _, o := range e.Ops {
		switch {
		case isSnapEntry(o.K):
			entries++
			size += len(o.V)
		case bytes.HasPrefix(o.K, []byte("Snapshot")):
		default:
			return 0, 0, false
		}
	}
	return entries, size, true
}

// mergesOf finds the disk-layer merges among the units written while block h was applied.
func (ct *crashTracker) mergesOf(evs []netsim.DurEv, h int) []diskMerge {
	var out []diskMerge
	for u := ct.start[h]; u < ct.end[h] && u < len(evs); u++ {
		root, ok := rootPut(evs[u])
		if !ok {
			continue
		}
		n, sz, only := snapOnly(evs[u])
		if !only {
			continue
		}
		m := diskMerge{Block: h, Units: []int{u}, Entries: n, KiB: sz, From: ct.diskAt, To: ct.look(root)}
		for v := u - 1; v >= ct.start[h]; v-- {
			n, sz, only := snapOnly(evs[v])
			if !only || n == 0 {
				break
			}
			if _, again := rootPut(evs[v]); again {
				break
			}
			m.Units = append([]int{v}, m.Units...)
			m.Entries += n
			m.KiB += sz
		}
		m.KiB /= 1024
		ct.diskAt = m.To
		out = append(out, m)
	}
	return out
}

// ---------------------------------------------------------------- crash points

type crashPoint struct {
	P     int        `json:"durable_units_on_disk"`
	Kind  string     `json:"kind"`
	Block int        `json:"died_while_applying_block"` // 0: between blocks (e.g. in a clean shutdown)
	Last  int        `json:"last_block_completed_before"`
	Merge *diskMerge `json:"inside_disk_layer_merge,omitempty"`
	Batch int        `json:"batches_of_the_merge_on_disk,omitempty"`
	Next  string     `json:"next_unit_never_written"`
	Prev  string     `json:"last_unit_written"`
}

func (ct *crashTracker) point(evs []netsim.DurEv, p int, kind string) crashPoint {
	cp := crashPoint{P: p, Kind: kind}
	for h := 1; h < len(ct.end); h++ {
		if ct.start[h] < p && p < ct.end[h] {
			cp.Block = h
		}
		if ct.end[h] <= p {
			cp.Last = h
		}
	}
	if p < len(evs) {
		cp.Next = evs[p].Desc
	}
	if p > 0 {
		cp.Prev = evs[p-1].Desc
	}
	return cp
}

func (cp crashPoint) where() string {
	s := "between blocks"
	if cp.Block > 0 {
		s = fmt.Sprintf("while applying block %d", cp.Block)
	}
	if cp.Merge != nil {
		s += fmt.Sprintf(", after batch %d of %d of the merge of the snapshot disk layer from height %d to %d", cp.Batch, len(cp.Merge.Units), cp.Merge.From, cp.Merge.To)
	}
	return fmt.Sprintf("%s, after %d durable units, last written %q, next %q", s, cp.P, cp.Prev, cp.Next)
}

// afterHeight is called when block h was executed and compared on all replicas: the block joins the chain the restarted
// nodes are fed from, and the images planned for this block are taken.
func (ct *crashTracker) afterHeight(run *core.Run, h int, rf crashRef) {
	ct.mu.Lock()
	ct.refs = append(ct.refs, rf)
	ct.cond.Broadcast()
	ct.mu.Unlock()
	ct.heightOf[rf.appHash] = h
	if h >= len(ct.end) {
		return
	}
	evs := ct.log.Snapshot()
	launch := func(cp crashPoint) {
		ct.wg.Add(1)
		go func() {
			defer ct.wg.Done()
			res := ct.restartAt(evs, cp)
			ct.mu.Lock()
			ct.results = append(ct.results, res)
			ct.mu.Unlock()
		}()
	}
	for _, m := range ct.mergesOf(evs, h) {
		m := m
		ct.merges = append(ct.merges, m)
		run.Count("disk_layer_merges_in_the_unit_log", 1)
		run.Max("disk_layer_merge_batches_max", int64(len(m.Units)))
		run.Max("disk_layer_merge_values_max_kib", int64(m.KiB))
		if len(m.Units) < 2 {
			continue
		}
		run.Count("disk_layer_merges_written_in_several_batches", 1)
		// (below an early clean stop the restarting node rewinds through blocks with state and dies in rawdb.DeleteBlockPart:
		// the merges whose old disk layer stands at or above that stop are taken)
		if ct.inMerge >= ct.plan.InMerge || (len(ct.stops) > 0 && m.From < ct.stops[0]-1) {
			continue
		}
		b := 1 // batches of the merge that reached the disk: the first; all but the last; any
		switch {
		case ct.inMerge == 1:
			b = len(m.Units) - 1
		case ct.inMerge > 1:
			b = 1 + ct.rng.Intn(len(m.Units)-1)
		}
		ct.inMerge++
		cp := ct.point(evs, m.Units[b-1]+1, "inside-multi-batch-disk-layer-merge")
		cp.Merge, cp.Batch = &m, b
		launch(cp)
	}
	for k, t := range ct.plan.Arbitrary {
		if k == 1 && len(ct.stops) > 0 {
			t = ct.stops[0]
		}
		if t != h {
			continue
		}
		// a unit written while block h was applied, or (after a clean stop) while the node shut down and came up again
		lo, hi := ct.start[h]+1, ct.end[h]
		if k == 1 && len(ct.stops) > 0 && ct.start[h] > ct.end[h-1]+1 {
			lo, hi = ct.end[h-1]+1, ct.start[h]+1
		}
		if hi > lo {
			launch(ct.point(evs, lo+ct.rng.Intn(hi-lo), "arbitrary-unit"))
		}
	}
}

// ---------------------------------------------------------------- restart from an image

type crashResult struct {
	Point      crashPoint `json:"crash"`
	StartErr   string     `json:"node_refuses_to_start,omitempty"`
	Head       int        `json:"head_after_restart"`
	StoredCS   int        `json:"stored_consensus_state_height"`
	Recovery   bool       `json:"snapshot_recovery_mode"`
	DiskKept   bool       `json:"snapshot_disk_layer_kept"`
	Reapplied  int        `json:"lost_blocks_reapplied"`
	Later      int        `json:"later_blocks_applied"`
	GenRunning int        `json:"blocks_started_while_the_snapshot_was_regenerated"`
	Key        string     `json:"violation_key,omitempty"`
	What       string     `json:"violation,omitempty"`
}

var hexRun = regexp.MustCompile(`(0x)?[0-9a-fA-F]{8,}`)

func errText(s string) string {
	s = hexRun.ReplaceAllString(s, "#")
	if len(s) > 160 {
		s = s[:160]
	}
	return s
}

// restartAt opens a node on the image after p units and applies the chain's blocks above the head it comes up with.
func (ct *crashTracker) restartAt(evs []netsim.DurEv, cp crashPoint) (res *crashResult) {
	res = &crashResult{Point: cp}
	img, _ := netsim.ImageAt(evs, cp.P)
	label := fmt.Sprintf("%s->crashed-after-unit-%d-reopened", ct.cfg.Name, cp.P)
	var ch *chainkit.Chain
	func() {
		defer func() {
			if e := recover(); e != nil {
				res.StartErr = errText(fmt.Sprintf("panic in %s: %v", core.PanicKey(string(debug.Stack())), e))
			}
		}()
		c, err := chainkit.New(ct.gen, ct.nVals, img, ct.cfg.Cache, label)
		if err != nil {
			res.StartErr = errText(err.Error())
			return
		}
		ch = c
	}()
	if ch == nil {
		return res
	}
	defer ch.Close(true) // (BlockChain.Stop ends a running snapshot generator)
	res.Head = int(ch.N.BC.CurrentBlock().Height())
	res.StoredCS = int(ch.State.LastBlockHeight)
	if l := rawdb.ReadSnapshotRecoveryNumber(ch.N.DB); l != nil && *l >= uint64(res.Head) {
		res.Recovery = true
	}
	res.DiskKept = rawdb.ReadSnapshotRoot(ch.N.DB) != (common.Hash{}) && !generatorRunning(ch)
	// the consensus state the blocks are applied on: the one every never-crashed replica held at that height (the stored
	// one may be ahead of the chain head after a crash; how a node gets back from there is C05's subject)
	rf0, ok := ct.waitRef(res.Head)
	if !ok {
		return res
	}
	ch.State = rf0.st.Copy()
	lastLost := cp.Last
	if cp.Block > lastLost {
		lastLost = cp.Block // (the block it died in was executed by the others)
	}
	to := lastLost + ct.plan.After
	if res.Head > lastLost {
		to = res.Head + ct.plan.After
	}
	pair := fmt.Sprintf("replicas that never crashed vs %s (died %s, came up with head %d)", label, cp.where(), res.Head)
	for h := res.Head + 1; h <= to; h++ {
		rf, ok := ct.waitRef(h)
		if !ok {
			break // the chain ended
		}
		if generatorRunning(ch) {
			res.GenRunning++
		}
		var err error
		func() {
			defer func() {
				if e := recover(); e != nil {
					err = fmt.Errorf("panic in %s: %v", core.PanicKey(string(debug.Stack())), e)
				}
			}()
			err = ch.Apply(rf.blk, rf.ps, rf.seen)
		}()
		if err != nil {
			res.Key = "block-accepted-by-some-replicas-only:crash-restarted-database:" + errKind([]string{err.Error()})
			res.What = fmt.Sprintf("height %d: accepted by every replica that never crashed, refused by the one restarted on a crash image: %v (%s)", h, err, pair)
			return res
		}
		bi := ch.RawBlockInfo(rf.blk.Hash(), rf.blk.Height())
		info, pub := canonInfo(bi), canonInfo(ch.BlockInfo(rf.blk))
		state, loaded := canonState(ch.State), canonState(ch.N.Store.Load())
		rel := "crash-restarted-database"
		switch {
		case ch.State.AppHash != rf.appHash:
			res.Key, res.What = "app-hash-differs:"+rel, fmt.Sprintf("height %d: app hash %x vs %x (%s)", h, rf.appHash[:6], ch.State.AppHash[:6], pair)
		case info != rf.info:
			res.Key, res.What = "block-info-differs:"+rel, fmt.Sprintf("height %d: stored receipts/bloom/gas differ (%s): %s", h, pair, firstDiff(rf.info, info))
		case pub != rf.pub:
			res.Key, res.What = "read-block-info-differs:"+rel, fmt.Sprintf("height %d: rawdb.ReadBlockInfo differs (%s): %s", h, pair, firstDiff(rf.pub, pub))
		case strings.Join(ch.AppVals, ",") != rf.appvals:
			res.Key, res.What = "validator-updates-differ:"+rel, fmt.Sprintf("height %d: the application returned %s vs %s (%s)", h, rf.appvals, strings.Join(ch.AppVals, ","), pair)
		case state != rf.state:
			res.Key, res.What = "latest-block-state-differs:"+rel, fmt.Sprintf("height %d (%s): %s", h, pair, firstDiff(rf.state, state))
		case loaded != rf.loaded:
			res.Key, res.What = "stored-block-state-differs:"+rel, fmt.Sprintf("height %d, Store.Load() (%s): %s", h, pair, firstDiff(rf.loaded, loaded))
		}
		if res.Key != "" {
			return res
		}
		if h <= lastLost {
			res.Reapplied++
		} else {
			res.Later++
		}
	}
	return res
}

// startRefusalIsViolation: set by ChainCrashCase (C05's chain-crash group): a node that cannot be started on a crash image
// is a violation there; in C06's own runs it is counted only (start-up after a crash is C05's subject).
var startRefusalIsViolation bool

// ChainCrashCase is C05's view of the long chains with a crash-restart replica: the same chains, crash images and
// restarts; a database the node refuses to start on is a violation, and so is a restarted node that does not continue
// like the replicas that never crashed (the keys of the comparison are the ones C06 uses).
func ChainCrashCase(c *core.Case) {
	startRefusalIsViolation = true
	longCase(c)
}

// finish waits for the restarted nodes and reports. It returns false if a violation was reported.
func (ct *crashTracker) finish(cs *core.Case, wit func(map[string]interface{}) map[string]interface{}) bool {
	run := cs.Run
	ct.close()
	run.Count("crash_replica_durable_units_recorded", ct.log.Len())
	ok := true
	sort.Slice(ct.results, func(a, b int) bool { return ct.results[a].Point.P < ct.results[b].Point.P })
	for _, res := range ct.results {
		run.Count("crash_images_taken", 1)
		run.Count("crash_images_taken:"+res.Point.Kind, 1)
		if res.Point.Block > 0 {
			run.Count("crash_images_taken_in_the_middle_of_a_block", 1)
		}
		if res.StartErr != "" {
			// start-up after a crash is C05's subject: counted, not judged here
			run.Count("crash_images_the_node_refuses_to_start_on", 1)
			run.Count("crash_images_the_node_refuses_to_start_on: "+res.StartErr, 1)
			if startRefusalIsViolation && ok {
				ok = false
				cs.Violation("restart:chain-refuses-to-start-on-crash-image:"+res.StartErr, fmt.Sprintf("a node (snapshots on, %s) whose process died %s cannot be started on the surviving database: %s", ct.plan.Variant, res.Point.where(), res.StartErr),
					wit(map[string]interface{}{"crash_restart": res, "clean_stops_before_heights": ct.stops}))
			}
			continue
		}
		run.Count("restarts_from_crash_images", 1)
		run.Count("restarts_from_crash_images:"+ct.plan.Variant, 1)
		if res.Point.Merge != nil {
			run.Count("restarts_from_images_taken_inside_a_multi_batch_disk_layer_merge", 1)
		}
		if res.Head < res.Point.Last {
			run.Count("crash_restarts_that_lost_blocks", 1)
			run.Max("blocks_lost_in_a_crash_max", int64(res.Point.Last-res.Head))
		}
		if res.StoredCS != res.Head {
			run.Count("crash_restarts_with_stored_consensus_state_not_at_the_chain_head", 1)
		}
		if res.Recovery {
			run.Count("crash_restarts_in_snapshot_recovery_mode", 1)
		}
		if res.DiskKept {
			run.Count("crash_restarts_that_kept_the_snapshot_disk_layer", 1)
		} else {
			run.Count("crash_restarts_that_regenerate_the_snapshot", 1)
		}
		run.Count("lost_blocks_reapplied_on_crash_images", res.Reapplied)
		run.Count("later_blocks_applied_on_crash_images", res.Later)
		run.Count("comparisons_with_crash_restarted_replica", res.Reapplied+res.Later)
		run.Count("blocks_started_on_crash_images_while_the_snapshot_was_regenerated", res.GenRunning)
		run.Count("block_executions", res.Reapplied+res.Later)
		if res.Point.Merge != nil {
			run.Count("comparisons_with_replica_crashed_inside_a_multi_batch_disk_layer_merge", res.Reapplied+res.Later)
		}
		if res.Key != "" && ok {
			ok = false
			cs.Violation(res.Key, res.What, wit(map[string]interface{}{"crash_restart": res, "disk_layer_merges_of_the_recorded_replica": ct.merges,
				"note": "the image is the recorded replica's database after the first durable_units_on_disk units it wrote; which entries a batch of a disk-layer merge holds follows Go's map order, so a replay may differ in the values but not in the situation"}))
		}
	}
	if cs.I < 2 {
		run.Sample(map[string]interface{}{"group": cs.Group, "case": cs.I, "crash_restart_replica": ct.plan, "clean_stops_before_heights": ct.stops, "disk_layer_merges_of_the_recorded_replica": ct.merges, "crash_restarts": ct.results})
	}
	return ok
}
