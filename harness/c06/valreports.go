package c06

import (
	"fmt"
	"math/rand"
	"sort"
	"strings"

	"github.com/kardiachain/go-kardia/lib/common"
	"github.com/kardiachain/go-kardia/types"
)

// Validator reports. BlockExecutor.ApplyBlock turns the complete list the application returns
// (staking contract: getValidatorSets) into a change set (calculateValidatorSetUpdates) and applies it
// to NextValidators (updateState). The replicas of a scenario are given the same list at the same
// height, each in its own order; what they make of it must be the same. The plan below is a
// membership process over the genesis validators (all of them are known to the staking contract and
// have keys to sign commits with): members leave, outsiders join, one leaves while another joins
// (the size stays; with the power of the leaver - the shipped genesis files give every validator the
// same power - or with its own), powers change (also to a value another member already has), two
// swaps at once, and reports that list the unchanged set again.

type valReport struct {
	Kind string
	List []*types.Validator // sorted by address
	// MixedPowers: the reported set holds at least two different powers (an order-sensitive treatment of a
	// membership change of equal powers cannot treat all orders alike then)
	MixedPowers bool
}

type reportPlan struct {
	At map[uint64]*valReport
}

func (p *reportPlan) describe() map[string]string {
	out := map[string]string{}
	for h, rp := range p.At {
		var l []string
		for _, v := range rp.List {
			l = append(l, fmt.Sprintf("%x=%d", v.Address[:3], v.VotingPower))
		}
		out[fmt.Sprint(h)] = rp.Kind + ": " + strings.Join(l, " ")
	}
	return out
}

// planReports draws the reports for heights 1..heights. density: probability (in 1/12) that a height carries a report.
func planReports(r *rand.Rand, genesisVals []*types.Validator, heights int, density int) *reportPlan {
	type member struct {
		addr  common.Address
		base  int64
		power int64
		in    bool
	}
	ms := make([]*member, len(genesisVals))
	for i, v := range genesisVals {
		ms[i] = &member{addr: v.Address, base: v.VotingPower, power: v.VotingPower, in: true}
	}
	pick := func(in bool) *member {
		var c []*member
		for _, m := range ms {
			if m.in == in {
				c = append(c, m)
			}
		}
		if len(c) == 0 {
			return nil
		}
		return c[r.Intn(len(c))]
	}
	count := func() (n int) {
		for _, m := range ms {
			if m.in {
				n++
			}
		}
		return
	}
	rescale := func(m *member) {
		switch r.Intn(3) {
		case 0:
			m.power = m.base * int64(2+r.Intn(3))
		case 1:
			m.power = m.base/int64(2+r.Intn(3)) + 1
		default:
			if o := pick(true); o != nil && o.power != m.power {
				m.power = o.power // as much as somebody else
			} else {
				m.power = m.base + int64(1+r.Intn(1000))
			}
		}
	}
	plan := &reportPlan{At: map[uint64]*valReport{}}
	for h := 1; h <= heights; h++ {
		if r.Intn(12) >= density {
			continue
		}
		kind := ""
		swap := func(equal bool) bool {
			l, j := pick(true), pick(false)
			if l == nil || j == nil {
				return false
			}
			l.in, j.in = false, true
			if equal {
				j.power = l.power
			} else {
				j.power = j.base
			}
			return true
		}
		switch k := r.Intn(16); {
		case k < 5:
			if swap(true) {
				kind = "swap-equal-power"
			}
		case k < 7:
			if swap(false) {
				kind = "swap-own-power"
			}
		case k < 8:
			if swap(true) {
				kind = "swap-equal-power"
				if swap(true) {
					kind = "two-swaps"
				}
			}
		case k < 10:
			if j := pick(false); j != nil {
				j.in, j.power, kind = true, j.base, "join"
				if r.Intn(2) == 0 {
					if o := pick(true); o != nil {
						j.power = o.power
					}
				}
			}
		case k < 12:
			if count() >= 2 {
				pick(true).in, kind = false, "leave"
			}
		case k < 14:
			rescale(pick(true))
			kind = "power-change"
		case k < 15:
			if swap(true) {
				rescale(pick(true))
				kind = "swap+power-change"
			}
		default:
			kind = "unchanged"
		}
		if kind == "" { // precondition not met: make room for later swaps / change a power
			if count() >= 3 {
				pick(true).in, kind = false, "leave"
			} else {
				rescale(pick(true))
				kind = "power-change"
			}
		}
		rp := &valReport{Kind: kind}
		powers := map[int64]bool{}
		for _, m := range ms {
			if m.in {
				rp.List = append(rp.List, types.NewValidator(m.addr, m.power))
				powers[m.power] = true
			}
		}
		sort.Slice(rp.List, func(a, b int) bool { return string(rp.List[a].Address[:]) < string(rp.List[b].Address[:]) })
		rp.MixedPowers = len(powers) >= 2
		plan.At[uint64(h)] = rp
	}
	return plan
}

// orderFor returns the report in the order replica i presents it: replica 0 in the order a validator
// set keeps its members (power descending, then address), replica 1 in the reverse of that, replica 2
// by address, replica 3 by address descending, the others (and every fifth height all but the first
// two) shuffled. Fresh Validator values for every call: nothing is shared between replicas.
func orderFor(rp *valReport, replica int, seed int64, height uint64) []*types.Validator {
	l := make([]*types.Validator, len(rp.List))
	for i, v := range rp.List {
		l[i] = types.NewValidator(v.Address, v.VotingPower)
	}
	byPower := func(a, b int) bool {
		if l[a].VotingPower != l[b].VotingPower {
			return l[a].VotingPower > l[b].VotingPower
		}
		return string(l[a].Address[:]) < string(l[b].Address[:])
	}
	rev := func() {
		for a, b := 0, len(l)-1; a < b; a, b = a+1, b-1 {
			l[a], l[b] = l[b], l[a]
		}
	}
	kind := replica
	if replica >= 2 && height%5 == 0 {
		kind = 4
	}
	switch kind {
	case 0:
		sort.SliceStable(l, byPower)
	case 1:
		sort.SliceStable(l, byPower)
		rev()
	case 2:
	case 3:
		rev()
	default:
		pr := rand.New(rand.NewSource(seed + int64(replica)*7919 + int64(height)))
		pr.Shuffle(len(l), func(a, b int) { l[a], l[b] = l[b], l[a] })
	}
	return l
}

func orderKey(l []*types.Validator) string {
	var b strings.Builder
	for _, v := range l {
		fmt.Fprintf(&b, "%x,", v.Address[:4])
	}
	return b.String()
}
