package c10

import (
	"encoding/hex"
	"fmt"
	"math/big"
	"time"

	gcommon "github.com/ethereum/go-ethereum/common"
	"github.com/ethereum/go-ethereum/core/rawdb"
	gstate "github.com/ethereum/go-ethereum/core/state"
	gtypes "github.com/ethereum/go-ethereum/core/types"
	gvm "github.com/ethereum/go-ethereum/core/vm"
	"github.com/ethereum/go-ethereum/params"
)

// The reference: go-ethereum v1.9.15 core/vm on its own StateDB.

type gdb struct {
	*gstate.StateDB
	out *Outcome
}

func (d *gdb) CreateAccount(a gcommon.Address) { d.out.touch(addr(a)); d.StateDB.CreateAccount(a) }
func (d *gdb) AddBalance(a gcommon.Address, v *big.Int) {
	d.out.touch(addr(a))
	d.StateDB.AddBalance(a, v)
}
func (d *gdb) SubBalance(a gcommon.Address, v *big.Int) {
	d.out.touch(addr(a))
	d.StateDB.SubBalance(a, v)
}
func (d *gdb) SetNonce(a gcommon.Address, n uint64) { d.out.touch(addr(a)); d.StateDB.SetNonce(a, n) }
func (d *gdb) SetCode(a gcommon.Address, c []byte)  { d.out.touch(addr(a)); d.StateDB.SetCode(a, c) }
func (d *gdb) SetState(a gcommon.Address, k, v gcommon.Hash) {
	d.out.touchKey(addr(a), word(k))
	d.StateDB.SetState(a, k, v)
}
func (d *gdb) Suicide(a gcommon.Address) bool { d.out.touch(addr(a)); return d.StateDB.Suicide(a) }

func gClass(err error) string {
	switch err {
	case nil:
		return "ok"
	case gvm.ErrExecutionReverted:
		return "revert"
	case gvm.ErrOutOfGas:
		return "oog"
	case gvm.ErrCodeStoreOutOfGas:
		return "oog-codestore"
	case gvm.ErrGasUintOverflow:
		return "gas-overflow"
	case gvm.ErrDepth:
		return "depth"
	case gvm.ErrInsufficientBalance:
		return "balance"
	case gvm.ErrContractAddressCollision:
		return "collision"
	case gvm.ErrMaxCodeSizeExceeded:
		return "maxcode"
	case gvm.ErrInvalidJump:
		return "invalid-jump"
	case gvm.ErrWriteProtection:
		return "write-protection"
	case gvm.ErrReturnDataOutOfBounds:
		return "returndata-oob"
	}
	switch err.(type) {
	case *gvm.ErrStackUnderflow:
		return "stack-underflow"
	case *gvm.ErrStackOverflow:
		return "stack-overflow"
	case *gvm.ErrInvalidOpCode:
		return "invalid-opcode"
	}
	return "other:" + err.Error()
}

type gframe struct {
	create bool
	// pending call to a precompile: decided at the next step of this frame
	prePend  bool
	preAddr  gcommon.Address
	preInput []byte
	pendOp   byte
}

type gtracer struct {
	w      *World
	out    *Outcome
	frames []gframe
	record bool
}

func (t *gtracer) CaptureStart(from, to gcommon.Address, create bool, input []byte, gas uint64, value *big.Int) error {
	return nil
}

func (t *gtracer) CaptureState(env *gvm.EVM, pc uint64, opc gvm.OpCode, gas, cost uint64, memory *gvm.Memory, st *gvm.Stack, rst *gvm.ReturnStack, contract *gvm.Contract, depth int, err error) error {
	o := t.out
	op := byte(opc)
	stack := st.Data()
	if depth < 1 {
		return nil
	}
	if depth < len(t.frames) {
		t.frames = t.frames[:depth]
	}
	for len(t.frames) < depth {
		f := gframe{}
		if len(t.frames) == 0 {
			f.create = t.w.Entry == "create"
		} else {
			p := &t.frames[len(t.frames)-1]
			f.create = p.pendOp == opCREATE || p.pendOp == opCREATE2
		}
		t.frames = append(t.frames, f)
		o.Frames++
	}
	f := &t.frames[depth-1]
	f.pendOp = 0
	if f.prePend {
		f.prePend = false
		if len(stack) > 0 && stack[len(stack)-1].Sign() == 0 {
			// The call to a precompile failed. If the precompile accepts this input the
			// failure was a lack of gas (or of depth/balance): a gas-dependent outcome.
			// (Run is only tried when the supplied gas could have paid for it: the
			// precompiles rely on their gas price to bound the work.)
			if p := gvm.PrecompiledContractsIstanbul[f.preAddr]; p != nil {
				if p.RequiredGas(f.preInput) > t.w.Gas {
					o.oog(fmt.Sprintf("precompile %x call needs more gas than the message has", f.preAddr[19]))
				} else if _, e := p.Run(f.preInput); e == nil {
					o.oog(fmt.Sprintf("precompile %x call failed on an input it accepts", f.preAddr[19]))
				}
			}
		}
		f.preInput = nil
	}
	if t.record && len(o.Rec) < maxRec {
		r := stepRec{Depth: depth, PC: pc, Op: op, Gas: gas}
		for i := 0; i < 4 && i < len(stack); i++ {
			r.Stack = append(r.Stack, "0x"+stack[len(stack)-1-i].Text(16))
		}
		if err != nil {
			r.Err = err.Error()
		}
		o.Rec = append(o.Rec, r)
	}
	if depth > o.MaxDepth {
		o.MaxDepth = depth
	}
	if len(stack) > o.MaxStack {
		o.MaxStack = len(stack)
	}
	if err != nil {
		c := gClass(err)
		o.failClass(c)
		if isOOGClass(c) {
			o.oog(fmt.Sprintf("%s pc=%d depth=%d", opName(op), pc, depth))
		}
		return nil
	}
	o.Steps++
	o.Ops[op] = true
	switch {
	case isBlockCtx(op):
		o.BlockCtx = true
	case op == opGAS:
		code := contract.Code
		if pc+1 < uint64(len(code)) {
			nb := code[pc+1]
			if !(isCallFamily(nb) || nb == opPOP) {
				o.GasTaint = true
			}
		}
	case isCallFamily(op):
		f.pendOp = op
		if len(stack) >= 7 || (len(stack) >= 6 && (op == opDELEGATECALL || op == opSTATICCALL)) {
			to := gcommon.BigToAddress(stack[len(stack)-2])
			o.touch(addr(to))
			if addr(to) == addrN(9) {
				o.Blake = true
			}
			if _, ok := gvm.PrecompiledContractsIstanbul[to]; ok {
				var inOff, inSize *big.Int
				if op == opCALL || op == opCALLCODE {
					inOff, inSize = stack[len(stack)-4], stack[len(stack)-5]
				} else {
					inOff, inSize = stack[len(stack)-3], stack[len(stack)-4]
				}
				// a call that fails for lack of balance or depth is not a gas matter
				short := (op == opCALL || op == opCALLCODE) && env.StateDB.GetBalance(contract.Address()).Cmp(stack[len(stack)-3]) < 0
				f.prePend = !short && depth <= 1024
				f.preAddr = to
				if inSize.Sign() > 0 && inSize.IsInt64() && inOff.IsInt64() {
					f.preInput = memory.GetCopy(inOff.Int64(), inSize.Int64())
				}
				if addr(to) == addrN(1) {
					in := make([]byte, 128)
					copy(in, f.preInput)
					if new(big.Int).SetBytes(in[96:128]).Cmp(secp256k1HalfN) > 0 {
						o.EcrecHighS = true
					}
				}
			}
		}
	case op == opCREATE || op == opCREATE2:
		f.pendOp = op
	case op == opRETURN:
		if f.create && len(stack) >= 2 {
			size := stack[len(stack)-2]
			if size.IsUint64() {
				n := size.Uint64()
				if n > 24576 {
					o.BigCode = true
				} else if gas-cost < 200*n {
					o.oog(fmt.Sprintf("code deposit of %d bytes with %d gas left (depth %d)", n, gas-cost, depth))
				}
			}
		}
	case op == opSELFDESTRUCT:
		if len(stack) >= 1 {
			o.touch(addr(gcommon.BigToAddress(stack[len(stack)-1])))
		}
	case op == opSLOAD:
		if len(stack) >= 1 {
			o.touchKey(addr(contract.Address()), word(gcommon.BigToHash(stack[len(stack)-1])))
		}
	}
	return nil
}

func (t *gtracer) CaptureFault(env *gvm.EVM, pc uint64, opc gvm.OpCode, gas, cost uint64, memory *gvm.Memory, st *gvm.Stack, rst *gvm.ReturnStack, contract *gvm.Contract, depth int, err error) error {
	c := gClass(err)
	t.out.failClass(c)
	if isOOGClass(c) {
		t.out.oog(fmt.Sprintf("%s pc=%d depth=%d (fault)", opName(byte(opc)), pc, depth))
	}
	if t.record && len(t.out.Rec) < maxRec {
		t.out.Rec = append(t.out.Rec, stepRec{Depth: depth, PC: pc, Op: byte(opc), Gas: gas, Err: "fault: " + err.Error()})
	}
	return nil
}

func (t *gtracer) CaptureEnd(output []byte, gasUsed uint64, d time.Duration, err error) error {
	c := gClass(err)
	if isOOGClass(c) {
		t.out.oog("top frame: " + c)
	}
	return nil
}

// half the order of the secp256k1 group
var secp256k1HalfN, _ = new(big.Int).SetString("7fffffffffffffffffffffffffffffff5d576e7357a4501ddfe92f46681b20a0", 16)

type refFork int

const (
	forkByzantium refFork = iota
	forkConstantinople
	forkIstanbul
)

func refConfig(f refFork) *params.ChainConfig {
	z := big.NewInt(0)
	c := &params.ChainConfig{ChainID: big.NewInt(chainID), HomesteadBlock: z, EIP150Block: z, EIP155Block: z, EIP158Block: z, ByzantiumBlock: z}
	if f >= forkConstantinople {
		c.ConstantinopleBlock = z
		c.PetersburgBlock = z
	}
	if f >= forkIstanbul {
		c.IstanbulBlock = z
	}
	return c
}

func runRef(w *World, record bool) *Outcome { return runRefFork(w, record, forkIstanbul) }

func runRefFork(w *World, record bool, fork refFork) *Outcome {
	o := &Outcome{Impl: "geth-1.9.15"}
	sdb, err := gstate.New(gcommon.Hash{}, gstate.NewDatabase(rawdb.NewMemoryDatabase()), nil)
	if err != nil {
		panic("harness: cannot create reference StateDB: " + err.Error())
	}
	for _, a := range w.Accts {
		ga := gcommon.Address(a.Addr)
		sdb.AddBalance(ga, new(big.Int).SetUint64(a.Balance))
		sdb.SetNonce(ga, a.Nonce)
		if len(a.Code) > 0 {
			sdb.SetCode(ga, a.Code)
		}
		for _, kv := range a.Storage {
			sdb.SetState(ga, gcommon.Hash(kv[0]), gcommon.Hash(kv[1]))
		}
	}
	db := &gdb{StateDB: sdb, out: o}
	tr := &gtracer{w: w, out: o, record: record}
	ctx := gvm.Context{
		CanTransfer: func(s gvm.StateDB, a gcommon.Address, v *big.Int) bool { return s.GetBalance(a).Cmp(v) >= 0 },
		Transfer: func(s gvm.StateDB, from, to gcommon.Address, v *big.Int) {
			s.SubBalance(from, v)
			s.AddBalance(to, v)
		},
		GetHash:     func(n uint64) gcommon.Hash { return gcommon.Hash(blockHashOf(n)) },
		Origin:      gcommon.Address(w.Origin),
		GasPrice:    new(big.Int).SetUint64(w.GasPrice),
		Coinbase:    gcommon.Address(w.Coinbase),
		GasLimit:    w.BlockGas,
		BlockNumber: new(big.Int).SetUint64(w.Height),
		Time:        new(big.Int).SetUint64(w.Time),
		Difficulty:  new(big.Int).SetUint64(w.BlockGas),
	}
	vm := gvm.NewEVM(ctx, db, refConfig(fork), gvm.Config{Debug: true, Tracer: tr})
	caller := gvm.AccountRef(gcommon.Address(w.Origin))
	var ret []byte
	var left uint64
	var rerr error
	switch w.Entry {
	case "call":
		ret, left, rerr = vm.Call(caller, gcommon.Address(w.To), w.Input, w.Gas, new(big.Int).SetUint64(w.Value))
	case "static":
		ret, left, rerr = vm.StaticCall(caller, gcommon.Address(w.To), w.Input, w.Gas)
	case "create":
		var ca gcommon.Address
		ret, ca, left, rerr = vm.Create(caller, w.Input, w.Gas, new(big.Int).SetUint64(w.Value))
		o.Created = addr(ca)
		o.touch(o.Created)
	}
	o.Ret = append([]byte{}, ret...)
	o.Left = left
	o.ErrClass = gClass(rerr)
	if rerr != nil {
		o.ErrText = rerr.Error()
	}
	switch o.ErrClass {
	case "ok":
		o.Status = "ok"
	case "revert":
		o.Status = "revert"
	default:
		o.Status = "fail"
		o.Ret = nil
	}
	if isOOGClass(o.ErrClass) {
		o.oog("top-level result: " + o.ErrClass)
	}
	if w.Entry == "create" && len(ret) > 24576 {
		o.BigCode = true
	}
	for _, l := range sdb.Logs() {
		o.Logs = append(o.Logs, gLog(l))
	}
	o.observe = func(addrs []addr, keys map[addr][]word) map[addr]AcctObs {
		m := map[addr]AcctObs{}
		for _, a := range addrs {
			ga := gcommon.Address(a)
			ob := AcctObs{Exist: sdb.Exist(ga), Balance: sdb.GetBalance(ga).String(), Nonce: sdb.GetNonce(ga),
				Code: hex.EncodeToString(sdb.GetCode(ga)), Suicided: sdb.HasSuicided(ga), Storage: map[word]word{}}
			for _, k := range keys[a] {
				ob.Storage[k] = word(sdb.GetState(ga, gcommon.Hash(k)))
			}
			m[a] = ob
		}
		return m
	}
	return o
}

func gLog(l *gtypes.Log) LogRec {
	lr := LogRec{Addr: addr(l.Address), Data: append([]byte{}, l.Data...)}
	for _, tp := range l.Topics {
		lr.Topics = append(lr.Topics, word(tp))
	}
	return lr
}

// go-ethereum up to v1.9.16 has a known defect in the identity precompile (address 4):
// Run returns its input slice, which is the caller's memory, so the return-data buffer
// of the caller changes when the caller later writes to that memory (CVE-2020-26241,
// repaired upstream in v1.9.17 by copying). EIP-211 defines the buffer as the output
// of the last call. The reference is therefore used with the upstream repair applied.
type copyingIdentity struct{}

func (copyingIdentity) RequiredGas(input []byte) uint64 {
	return uint64(len(input)+31)/32*params.IdentityPerWordGas + params.IdentityBaseGas
}
func (copyingIdentity) Run(in []byte) ([]byte, error) { return append([]byte{}, in...), nil }

func init() {
	four := gcommon.BytesToAddress([]byte{4})
	for _, m := range []map[gcommon.Address]gvm.PrecompiledContract{gvm.PrecompiledContractsHomestead, gvm.PrecompiledContractsByzantium, gvm.PrecompiledContractsIstanbul} {
		m[four] = copyingIdentity{}
	}
}
