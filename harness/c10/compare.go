package c10

import (
	"bytes"
	"encoding/hex"
	"fmt"
	"hash/fnv"
	"os"
	"runtime/debug"
	"sort"

	"verifharness/core"
)

const keyRDataAlias = "returndata-aliases-caller-memory"

func clip(b []byte) string {
	s := hex.EncodeToString(b)
	if len(s) > 200 {
		return fmt.Sprintf("%s...(%d bytes)...%s", s[:96], len(b), s[len(s)-64:])
	}
	return s
}

// diffOutcomes compares the observable results of two executions of the same case.
// It returns "" when they agree, else a key (class of difference) and a description.
func diffOutcomes(w *World, a, b *Outcome, gasToo bool) (string, string) {
	if a.Status != b.Status {
		return "status", fmt.Sprintf("%s: %s (%s), %s: %s (%s)", a.Impl, a.Status, a.ErrClass, b.Impl, b.Status, b.ErrClass)
	}
	if !bytes.Equal(a.Ret, b.Ret) {
		return "return-data", fmt.Sprintf("%s returns %s, %s returns %s", a.Impl, clip(a.Ret), b.Impl, clip(b.Ret))
	}
	if gasToo && a.Left != b.Left {
		return "leftover-gas", fmt.Sprintf("%d vs %d", a.Left, b.Left)
	}
	if a.Created != b.Created {
		return "created-address", fmt.Sprintf("%s vs %s", a.Created, b.Created)
	}
	if len(a.Logs) != len(b.Logs) {
		return "logs", fmt.Sprintf("%s has %d logs, %s has %d", a.Impl, len(a.Logs), b.Impl, len(b.Logs))
	}
	for i := range a.Logs {
		if a.Logs[i].String() != b.Logs[i].String() {
			return "logs", fmt.Sprintf("log %d: %s: %s, %s: %s", i, a.Impl, a.Logs[i], b.Impl, b.Logs[i])
		}
	}
	addrs, keys := unionTouched(w, a, b)
	oa, ob := a.observe(addrs, keys), b.observe(addrs, keys)
	for _, x := range addrs {
		p, q := oa[x], ob[x]
		switch {
		case p.Exist != q.Exist:
			return "account-existence", fmt.Sprintf("account %s: exists %v in %s, %v in %s", x, p.Exist, a.Impl, q.Exist, b.Impl)
		case p.Balance != q.Balance:
			return "balance", fmt.Sprintf("account %s: balance %s in %s, %s in %s", x, p.Balance, a.Impl, q.Balance, b.Impl)
		case p.Nonce != q.Nonce:
			return "nonce", fmt.Sprintf("account %s: nonce %d in %s, %d in %s", x, p.Nonce, a.Impl, q.Nonce, b.Impl)
		case p.Code != q.Code:
			return "code", fmt.Sprintf("account %s: code %s in %s, %s in %s", x, clipS(p.Code), a.Impl, clipS(q.Code), b.Impl)
		case p.Suicided != q.Suicided:
			return "selfdestruct-set", fmt.Sprintf("account %s: self-destructed %v in %s, %v in %s", x, p.Suicided, a.Impl, q.Suicided, b.Impl)
		}
		for _, k := range keys[x] {
			if p.Storage[k] != q.Storage[k] {
				return "storage", fmt.Sprintf("account %s slot %s: %s in %s, %s in %s", x, k, p.Storage[k], a.Impl, q.Storage[k], b.Impl)
			}
		}
	}
	return "", ""
}

func clipS(s string) string {
	if len(s) > 160 {
		return fmt.Sprintf("%s...(%d bytes)", s[:96], len(s)/2)
	}
	return s
}

// firstDivergence re-runs both sides in recording mode and describes the first
// step at which the two traces differ (for the witness and for the key suffix only;
// never a verdict). The value pushed by GAS differs by design and is skipped.
func firstDivergence(w *World) (string, map[string]interface{}) {
	k := runKVM(w, true)
	g := runRef(w, true)
	n := len(k.Rec)
	if len(g.Rec) < n {
		n = len(g.Rec)
	}
	same := func(i int) bool {
		a, b := k.Rec[i], g.Rec[i]
		if a.Depth != b.Depth || a.PC != b.PC || a.Op != b.Op || len(a.Stack) != len(b.Stack) || (a.Err == "") != (b.Err == "") {
			return false
		}
		from := 0
		if i > 0 && k.Rec[i-1].Op == opGAS && k.Rec[i-1].Depth == a.Depth {
			from = 1
		}
		for j := from; j < len(a.Stack); j++ {
			if a.Stack[j] != b.Stack[j] {
				return false
			}
		}
		return true
	}
	i := 0
	for i < n && same(i) {
		i++
	}
	win := func(r []stepRec) []string {
		var o []string
		lo := i - 4
		if lo < 0 {
			lo = 0
		}
		for j := lo; j <= i+1 && j < len(r); j++ {
			o = append(o, fmt.Sprintf("#%d %s", j, r[j]))
		}
		return o
	}
	if i == n && len(k.Rec) == len(g.Rec) {
		return "same-trace", map[string]interface{}{"traces": fmt.Sprintf("identical for all %d steps (instruction, pc, depth, top of stack)", n)}
	}
	// the instruction whose effect differs is the one executed before the first differing step
	sus := "first-step"
	switch {
	case i < n && k.Rec[i].Depth == g.Rec[i].Depth && k.Rec[i].PC == g.Rec[i].PC && (k.Rec[i].Err == "") != (g.Rec[i].Err == ""):
		sus = opName(k.Rec[i].Op) // same instruction, refused on one side only
	case i > 0:
		sus = opName(k.Rec[i-1].Op)
	case n > 0:
		sus = opName(k.Rec[0].Op)
	}
	return sus, map[string]interface{}{"first_divergent_step": i, "kvm_steps": win(k.Rec), "reference_steps": win(g.Rec),
		"note": "stack shown before the instruction executes; gas differs by design"}
}

func fingerprint(w *World) string {
	h := fnv.New64a()
	for _, a := range w.Accts {
		h.Write(a.Addr[:])
		h.Write(a.Code)
	}
	h.Write(w.Input)
	fmt.Fprint(h, w.Entry, w.Gas, w.Value, w.Galaxias)
	return fmt.Sprintf("%x", h.Sum64())
}

// judge runs one case on the KVM (twice) and on the reference and applies all
// clauses of the property. gen is the generator name (for counters).
func judge(c *core.Case, w *World, gen string) *Outcome {
	run := c.Run
	wit := func(extra map[string]interface{}) map[string]interface{} {
		m := map[string]interface{}{"case": w.witness(), "generator": gen}
		for k, v := range extra {
			m[k] = v
		}
		return m
	}
	var k1, k2, g *Outcome
	if c.Guard("KVM execution", func() interface{} { return wit(nil) }, func() {
		k1 = runKVM(w, false)
		k2 = runKVM(w, false)
	}) {
		run.Count("kvm_panics", 1)
		return nil
	}
	func() {
		defer func() {
			if e := recover(); e != nil {
				run.Count("reference_panicked", 1)
				run.Inconclusive(fmt.Sprintf("the reference implementation panicked in case %s:%d (%v): case not judged", c.Group, c.I, e))
				run.Distinct("reference_panic_site", core.PanicKey(string(debug.Stack()))+fmt.Sprint(e))
				if os.Getenv("C10_DEBUG") != "" {
					fmt.Fprintf(os.Stderr, "REFERENCE PANIC %v\n%s\n", e, debug.Stack())
				}
				g = nil
			}
		}()
		g = runRef(w, false)
	}()
	if os.Getenv("C10_DEBUG") != "" && g != nil {
		fmt.Fprintf(os.Stderr, "CASE %s:%d gas=%d kvm steps=%d frames=%d undo/logs=%d status=%s oog=%v | ref steps=%d frames=%d status=%s\n", c.Group, c.I, w.Gas, k1.Steps, k1.Frames, len(k1.Logs), k1.Status, k1.OOG, g.Steps, g.Frames, g.Status)
	}
	run.Eval(1)
	run.Count("programs", 1)
	run.Count("programs:"+gen, 1)
	set := "v1"
	if w.Galaxias {
		set = "v2"
	}
	run.Count("programs_"+set, 1)
	run.Count("kvm_instructions_executed", k1.Steps)
	run.Max("max_call_depth", int64(k1.MaxDepth))
	run.Max("max_stack", int64(k1.MaxStack))
	run.Max("max_steps_one_program", int64(k1.Steps))
	for op := 0; op < 256; op++ {
		if k1.Ops[op] {
			run.Distinct("opcode_executed", opName(byte(op)))
			run.Distinct("opcode_executed_"+set, opName(byte(op)))
		}
	}
	for cl, n := range k1.FailClass {
		run.Count("kvm_frame_errors:"+cl, n)
	}
	if k1.Steps >= 5 {
		run.Count("programs_5plus_instructions:"+gen, 1)
		run.Nontrivial(fingerprint(w))
		if k1.Status == "ok" {
			run.Count("programs_5plus_instructions_and_success:"+gen, 1)
		}
	}
	run.Count("kvm_status:"+k1.Status, 1)
	if k1.Status == "fail" && (gen == "grammar" || gen == "weighted") {
		run.Count("top_level_failure:"+gen+":"+k1.ErrClass, 1)
	}
	if k1.Frames > 1 {
		run.Count("programs_with_subcalls", 1)
	}

	// 1. gas sanity
	if k1.Left > w.Gas {
		c.Violation("gas:leftover-exceeds-supplied", fmt.Sprintf("leftover gas %d > supplied %d", k1.Left, w.Gas), wit(nil))
	}
	// 2. structural clauses (reference-free)
	for _, s := range k1.Structural {
		c.Violation(s.Key, s.What, wit(nil))
	}
	// 3. determinism
	if key, what := diffOutcomes(w, k1, k2, true); key != "" {
		c.Violation("nondeterministic:"+key, "two runs of the same case on fresh states differ: "+what, wit(nil))
		return k1
	}
	if k1.Steps != k2.Steps || k1.ErrClass != k2.ErrClass {
		c.Violation("nondeterministic:trace", fmt.Sprintf("two runs differ: %d/%s vs %d/%s steps/error", k1.Steps, k1.ErrClass, k2.Steps, k2.ErrClass), wit(nil))
		return k1
	}
	// 4. reference comparison, gas-dependent surface masked
	if g == nil {
		return k1
	}
	switch {
	case k1.OOG || g.OOG:
		run.Count("masked:out_of_gas", 1)
		switch {
		case k1.OOG && !g.OOG:
			run.Count("oog_only_kvm", 1)
			if w.Gas >= 1000000 && g.Steps < 200 && g.Status == "ok" {
				run.Count("oog_only_kvm_cheap_program", 1)
				run.Distinct("oog_only_kvm_cheap_where", opOnly(k1.OOGWhere))
				if os.Getenv("C10_DEBUG") != "" {
					fmt.Fprintf(os.Stderr, "OOG-ONLY-KVM gas=%d set=%s where=%q refsteps=%d note=%s\n", w.Gas, set, k1.OOGWhere, g.Steps, w.Note)
				}
			}
		case !k1.OOG && g.OOG:
			run.Count("oog_only_reference", 1)
			if w.Gas >= 1000000 && k1.Steps < 200 && k1.Status == "ok" {
				run.Count("oog_only_reference_cheap_program", 1)
				run.Distinct("oog_only_reference_cheap_where", opOnly(g.OOGWhere))
				if os.Getenv("C10_DEBUG") != "" {
					fmt.Fprintf(os.Stderr, "OOG-ONLY-REF gas=%d set=%s where=%q kvmsteps=%d note=%s\n", w.Gas, set, g.OOGWhere, k1.Steps, w.Note)
				}
			}
		}
		return k1
	case k1.GasTaint || g.GasTaint:
		run.Count("masked:gas_value_in_data_flow", 1)
		return k1
	case k1.BlockCtx || g.BlockCtx:
		run.Count("masked:block_context_opcode", 1)
		return k1
	case k1.Blake || g.Blake:
		run.Count("masked:address_9_called", 1)
		return k1
	case k1.BigCode || g.BigCode:
		run.Count("masked:code_above_eip170", 1)
		return k1
	case g.EcrecHighS:
		// Precompile internals are outside the property's instruction list. The KVM's
		// ecrecover applies the transaction rule s <= n/2 (EIP-2) to the precompile as well
		// and returns nothing for s above half the group order, where Ethereum (Yellow Paper,
		// appendix E: 0 < s < secp256k1n) returns the signer. Observed and counted, not judged.
		run.Count("masked:ecrecover_high_s", 1)
		if key, _ := diffOutcomes(w, k1, g, false); key != "" {
			run.Count("observed:ecrecover_high_s_returns_empty", 1)
		}
		return k1
	}
	run.Count("compared_with_reference", 1)
	run.Count("compared_"+set, 1)
	if key, what := diffOutcomes(w, k1, g, false); key != "" {
		sus, div := firstDivergence(w)
		if k1.RDataAlias && (sus == "RETURNDATACOPY" || sus == "same-trace") {
			// EIP-211: the buffer is the output of the last call; here it is the caller's own
			// memory (identity precompile returning its input slice) and changes with it.
			c.Violation(keyRDataAlias, "return data read after the caller wrote to its own memory: "+what,
				wit(map[string]interface{}{"divergence": div, "kvm": summary(k1), "reference": summary(g)}))
			return k1
		}
		c.Violation("differs-from-reference:"+key+":"+sus, what, wit(map[string]interface{}{"divergence": div, "kvm": summary(k1), "reference": summary(g)}))
		return k1
	}
	if k1.ErrClass != g.ErrClass {
		run.Count("same_failure_other_error_class", 1)
		run.Distinct("error_class_pair", k1.ErrClass+"|"+g.ErrClass)
	}
	if k1.Steps != g.Steps {
		// same observable result through different paths: not a violation, but worth a number
		run.Count("same_result_different_step_count", 1)
	}
	if k1.Status == "ok" && k1.Steps >= 5 {
		run.Count("compared_5plus_and_success", 1)
		run.Count("compared_5plus_and_success:"+gen, 1)
	}
	return k1
}

func opOnly(where string) string {
	for i := 0; i < len(where); i++ {
		if where[i] == ' ' {
			return where[:i]
		}
	}
	return where
}

func summary(o *Outcome) map[string]interface{} {
	fc := []string{}
	for k, v := range o.FailClass {
		fc = append(fc, fmt.Sprintf("%s=%d", k, v))
	}
	sort.Strings(fc)
	return map[string]interface{}{"status": o.Status, "error": o.ErrText, "return": clip(o.Ret), "leftover_gas": o.Left, "steps": o.Steps,
		"frames": o.Frames, "max_depth": o.MaxDepth, "frame_errors": fc, "logs": len(o.Logs)}
}
