package c10

import "math/big"

// asm is a tiny assembler with labels (JUMPDESTs) and data blobs appended after
// the code (used as init code / copy sources).
type asm struct {
	b      []byte
	labels []int // label id -> pc of its JUMPDEST (-1 = unbound)
	fix    []fixup
	blobs  [][]byte
}

type fixup struct {
	at    int // position of the 2 data bytes of a PUSH2
	label int // >=0: label id
	blob  int // >=0: blob id (offset of the blob in the code)
	delta int
}

func (a *asm) pc() int { return len(a.b) }

func (a *asm) op(ops ...byte) *asm {
	a.b = append(a.b, ops...)
	return a
}

// pushBytes emits PUSHn with exactly the given data (1..32 bytes).
func (a *asm) pushBytes(d []byte) *asm {
	if len(d) == 0 {
		d = []byte{0}
	}
	if len(d) > 32 {
		d = d[len(d)-32:]
	}
	a.b = append(a.b, byte(opPUSH1+len(d)-1))
	a.b = append(a.b, d...)
	return a
}

// push emits the shortest PUSH for the value.
func (a *asm) push(v *big.Int) *asm {
	return a.pushBytes(new(big.Int).And(v, maxU256).Bytes())
}

func (a *asm) pushU(v uint64) *asm { return a.push(new(big.Int).SetUint64(v)) }

func (a *asm) pushAddr(x addr) *asm { return a.pushBytes(x[:]) }

func (a *asm) newLabel() int {
	a.labels = append(a.labels, -1)
	return len(a.labels) - 1
}

// bind places a JUMPDEST for the label here.
func (a *asm) bind(l int) *asm {
	a.labels[l] = len(a.b)
	a.b = append(a.b, opJUMPDEST)
	return a
}

// pushLabel emits PUSH2 <pc of label> (patched in done()).
func (a *asm) pushLabel(l int) *asm {
	a.b = append(a.b, opPUSH2, 0, 0)
	a.fix = append(a.fix, fixup{at: len(a.b) - 2, label: l, blob: -1})
	return a
}

// blob registers data to be appended after the code and returns its id.
func (a *asm) blob(d []byte) int {
	a.blobs = append(a.blobs, d)
	return len(a.blobs) - 1
}

// pushBlobOffset emits PUSH2 <code offset of blob + delta>.
func (a *asm) pushBlobOffset(id, delta int) *asm {
	a.b = append(a.b, opPUSH2, 0, 0)
	a.fix = append(a.fix, fixup{at: len(a.b) - 2, label: -1, blob: id, delta: delta})
	return a
}

// done resolves labels and appends the blobs.
func (a *asm) done() []byte {
	out := append([]byte{}, a.b...)
	offs := make([]int, len(a.blobs))
	for i, d := range a.blobs {
		offs[i] = len(out)
		out = append(out, d...)
	}
	for _, f := range a.fix {
		v := 0
		if f.label >= 0 {
			v = a.labels[f.label]
			if v < 0 {
				v = 0xffff // unbound label: an invalid destination
			}
		} else {
			v = offs[f.blob] + f.delta
		}
		out[f.at] = byte(v >> 8)
		out[f.at+1] = byte(v)
	}
	return out
}

// common fragments

// mstore: MSTORE(off, <value already on stack>)
func (a *asm) mstoreTop(off uint64) *asm { return a.pushU(off).op(opMSTORE) }

// ret: RETURN(off, size)
func (a *asm) ret(off, size uint64) *asm { return a.pushU(size).pushU(off).op(opRETURN) }

func (a *asm) revert(off, size uint64) *asm { return a.pushU(size).pushU(off).op(opREVERT) }

// returnTop: store the top of the stack at 0 and return it as one word.
func (a *asm) returnTop() *asm { return a.mstoreTop(0).ret(0, 32) }

// jumpIntoPushData: PUSH2 <pc of a 0x5b byte that is PUSH data>; JUMP; PUSH2 0x5b5b.
// The destination holds the JUMPDEST byte but is not an instruction: the jump must fail.
func (a *asm) jumpIntoPushData() *asm {
	t := a.pc() + 5
	a.op(opPUSH2, byte(t>>8), byte(t), opJUMP)
	a.op(opPUSH2, opJUMPDEST, opJUMPDEST)
	return a
}
