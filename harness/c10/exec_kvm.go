package c10

import (
	"encoding/hex"
	"fmt"
	"math/big"
	"time"
	"unsafe"

	kcfg "github.com/kardiachain/go-kardia/configs"
	"github.com/kardiachain/go-kardia/kai/kaidb/memorydb"
	kstate "github.com/kardiachain/go-kardia/kai/state"
	"github.com/kardiachain/go-kardia/kvm"
	kcommon "github.com/kardiachain/go-kardia/lib/common"
	mkvm "github.com/kardiachain/go-kardia/mainchain/kvm"
	ktypes "github.com/kardiachain/go-kardia/types"
)

// ---- recording StateDB wrapper (the KVM takes the kvm.StateDB interface) ----
//
// Every mutation requested by the KVM passes through here. The wrapper forwards to
// the real go-kardia StateDB and keeps (a) the set of touched accounts and slots and
// (b) an append-only list of "field f had value v before this mutation", which lets
// the monitor check, without any reference implementation, that a failed call frame
// left every field it touched at its value from before the frame.

const (
	fBalance = iota
	fNonce
	fCode
	fState
	fSuicided
	fExist
	fLogs
)

var fieldName = []string{"balance", "nonce", "code", "storage", "selfdestruct-flag", "existence", "logs"}

type field struct {
	kind uint8
	a    addr
	k    word
}

type undoRec struct {
	f    field
	prev word
}

type kdb struct {
	*kstate.StateDB
	out  *Outcome
	undo []undoRec
}

func (d *kdb) cur(f field) word {
	a := kcommon.Address(f.a)
	switch f.kind {
	case fBalance:
		return wordBig(d.StateDB.GetBalance(a))
	case fNonce:
		return wordU(d.StateDB.GetNonce(a))
	case fCode:
		return word(d.StateDB.GetCodeHash(a))
	case fState:
		return word(d.StateDB.GetState(a, kcommon.Hash(f.k)))
	case fSuicided:
		if d.StateDB.HasSuicided(a) {
			return wordU(1)
		}
		return word{}
	case fExist:
		if d.StateDB.Exist(a) {
			return wordU(1)
		}
		return word{}
	case fLogs:
		return wordU(uint64(len(d.StateDB.Logs())))
	}
	return word{}
}

func (d *kdb) note(kind uint8, a addr, k word) {
	f := field{kind, a, k}
	d.undo = append(d.undo, undoRec{f, d.cur(f)})
}

func (d *kdb) CreateAccount(a kcommon.Address) {
	x := addr(a)
	d.out.touch(x)
	d.note(fExist, x, word{})
	d.note(fNonce, x, word{})
	d.note(fCode, x, word{})
	d.note(fBalance, x, word{})
	d.StateDB.CreateAccount(a)
}

func (d *kdb) AddBalance(a kcommon.Address, v *big.Int) {
	x := addr(a)
	d.out.touch(x)
	d.note(fExist, x, word{})
	d.note(fBalance, x, word{})
	d.StateDB.AddBalance(a, v)
}

func (d *kdb) SubBalance(a kcommon.Address, v *big.Int) {
	x := addr(a)
	d.out.touch(x)
	d.note(fExist, x, word{})
	d.note(fBalance, x, word{})
	d.StateDB.SubBalance(a, v)
}

func (d *kdb) SetNonce(a kcommon.Address, n uint64) {
	x := addr(a)
	d.out.touch(x)
	d.note(fExist, x, word{})
	d.note(fNonce, x, word{})
	d.StateDB.SetNonce(a, n)
}

func (d *kdb) SetCode(a kcommon.Address, c []byte) {
	x := addr(a)
	d.out.touch(x)
	d.note(fExist, x, word{})
	d.note(fCode, x, word{})
	d.StateDB.SetCode(a, c)
}

func (d *kdb) SetState(a kcommon.Address, k, v kcommon.Hash) {
	x := addr(a)
	d.out.touchKey(x, word(k))
	d.note(fState, x, word(k))
	d.StateDB.SetState(a, k, v)
}

func (d *kdb) Suicide(a kcommon.Address) bool {
	x := addr(a)
	d.out.touch(x)
	d.note(fSuicided, x, word{})
	d.note(fBalance, x, word{})
	return d.StateDB.Suicide(a)
}

func (d *kdb) AddLog(l *ktypes.Log) {
	d.StateDB.AddLog(l)
	// AddLog numbers the log with the count of logs before it: that is the previous value
	// of the "number of logs" field (reading Logs() here would make log loops quadratic).
	d.undo = append(d.undo, undoRec{field{kind: fLogs}, wordU(uint64(l.Index))})
}

// ---- tracer ----

type pendCall struct {
	active bool
	op     byte
	lo     int // length of the undo list before the instruction
	self   addr
	pc     uint64
}

type kframe struct {
	static bool
	pend   pendCall
}

type ktracer struct {
	w      *World
	out    *Outcome
	db     *kdb
	frames []kframe
	enter  []kvm.OpCode
	record bool
}

func kClass(err error) string {
	switch err {
	case nil:
		return "ok"
	case kvm.ErrExecutionReverted:
		return "revert"
	case kvm.ErrOutOfGas:
		return "oog"
	case kvm.ErrCodeStoreOutOfGas:
		return "oog-codestore"
	case kvm.ErrGasUintOverflow:
		return "gas-overflow"
	case kvm.ErrDepth:
		return "depth"
	case kvm.ErrInsufficientBalance:
		return "balance"
	case kvm.ErrContractAddressCollision:
		return "collision"
	case kvm.ErrMaxCodeSizeExceeded:
		return "maxcode"
	case kvm.ErrInvalidJump:
		return "invalid-jump"
	case kvm.ErrWriteProtection:
		return "write-protection"
	case kvm.ErrReturnDataOutOfBounds:
		return "returndata-oob"
	}
	switch err.(type) {
	case *kvm.ErrStackUnderflow:
		return "stack-underflow"
	case *kvm.ErrStackOverflow:
		return "stack-overflow"
	case *kvm.ErrInvalidOpCode:
		return "invalid-opcode"
	}
	return "other:" + err.Error()
}

func isOOGClass(c string) bool { return c == "oog" || c == "oog-codestore" }

func (t *ktracer) structural(key, what string) {
	for _, s := range t.out.Structural {
		if s.Key == key {
			return
		}
	}
	t.out.Structural = append(t.out.Structural, structViolation{key, what})
}

func (t *ktracer) CaptureStart(env *kvm.KVM, from, to kcommon.Address, create bool, input []byte, gas uint64, value *big.Int) {
}

func (t *ktracer) CaptureState(pc uint64, opc kvm.OpCode, gas, cost uint64, scope *kvm.ScopeContext, rData []byte, depth int, err error) {
	o := t.out
	op := byte(opc)
	stack := scope.Stack.Data()
	if depth < 1 {
		t.structural("depth:below-1", fmt.Sprintf("tracer saw depth %d", depth))
		return
	}
	if depth < len(t.frames) {
		t.frames = t.frames[:depth]
	}
	for len(t.frames) < depth {
		f := kframe{}
		if len(t.frames) == 0 {
			f.static = t.w.Entry == "static"
		} else {
			p := &t.frames[len(t.frames)-1]
			f.static = p.static || (p.pend.active && p.pend.op == opSTATICCALL)
		}
		t.frames = append(t.frames, f)
		o.Frames++
	}
	f := &t.frames[depth-1]
	if f.pend.active {
		f.pend.active = false
		// Does the return-data buffer share storage with this frame's memory? (Observation
		// used only to key a difference, never a verdict by itself.)
		if mem := scope.Memory.Data(); len(rData) > 0 && len(mem) > 0 {
			p, m0 := uintptr(unsafe.Pointer(&rData[0])), uintptr(unsafe.Pointer(&mem[0]))
			if p >= m0 && p < m0+uintptr(cap(mem)) {
				o.RDataAlias = true
			}
		}
		if len(stack) > 0 && stack[len(stack)-1].IsZero() {
			t.checkReverted(f.pend.lo, f.pend.op, f.pend.self, f.pend.pc, depth)
		}
	}
	if t.record && len(o.Rec) < maxRec {
		r := stepRec{Depth: depth, PC: pc, Op: op, Gas: gas}
		for i := 0; i < 4 && i < len(stack); i++ {
			r.Stack = append(r.Stack, stack[len(stack)-1-i].Hex())
		}
		if err != nil {
			r.Err = err.Error()
		}
		o.Rec = append(o.Rec, r)
	}
	if depth > o.MaxDepth {
		o.MaxDepth = depth
	}
	if len(stack) > o.MaxStack {
		o.MaxStack = len(stack)
	}
	// stack limit 1024 / depth limit 1024 (the top frame has tracer depth 1, a frame at
	// Yellow-Paper depth 1024 has tracer depth 1025)
	if len(stack) > 1024 {
		t.structural("stack:above-1024", fmt.Sprintf("stack holds %d items before %s at pc %d", len(stack), opName(op), pc))
	}
	if depth > 1025 {
		t.structural("depth:above-1024", fmt.Sprintf("a frame runs at call depth %d (Yellow-Paper depth %d)", depth, depth-1))
	}
	if gas > t.w.Gas+2300*uint64(depth) {
		t.structural("gas:frame-exceeds-supplied", fmt.Sprintf("frame at depth %d has %d gas, supplied %d", depth, gas, t.w.Gas))
	}
	if err != nil {
		c := kClass(err)
		o.failClass(c)
		if isOOGClass(c) {
			o.oog(fmt.Sprintf("%s pc=%d depth=%d", opName(op), pc, depth))
		}
		return
	}
	// the instruction passed validation and gas and is executed now
	o.Steps++
	o.Ops[op] = true
	if f.static {
		if writesState(op) || (op == opCALL && len(stack) >= 3 && !stack[len(stack)-3].IsZero()) {
			t.structural("static:"+opName(op)+"-executed", fmt.Sprintf("%s executes inside a static call (pc %d, depth %d)", opName(op), pc, depth))
		}
	}
	switch {
	case isBlockCtx(op):
		o.BlockCtx = true
	case op == opGAS:
		code := scope.Contract.Code
		if pc+1 < uint64(len(code)) {
			nb := code[pc+1]
			if !(isCallFamily(nb) || nb == opPOP) {
				o.GasTaint = true
			}
		}
	case isCallFamily(op):
		if len(stack) >= 2 {
			b := stack[len(stack)-2].Bytes20()
			if addr(b) == addrN(9) {
				o.Blake = true
			}
			o.touch(addr(b))
		}
		f.pend = pendCall{active: true, op: op, lo: len(t.db.undo), self: addr(scope.Contract.Address()), pc: pc}
	case op == opCREATE || op == opCREATE2:
		f.pend = pendCall{active: true, op: op, lo: len(t.db.undo), self: addr(scope.Contract.Address()), pc: pc}
	case op == opSELFDESTRUCT:
		if len(stack) >= 1 {
			o.touch(addr(stack[len(stack)-1].Bytes20()))
		}
	case op == opSLOAD:
		if len(stack) >= 1 {
			o.touchKey(addr(scope.Contract.Address()), word(stack[len(stack)-1].Bytes32()))
		}
	}
}

func (t *ktracer) CaptureFault(pc uint64, opc kvm.OpCode, gas, cost uint64, scope *kvm.ScopeContext, depth int, err error) {
	c := kClass(err)
	t.out.failClass(c)
	if isOOGClass(c) {
		t.out.oog(fmt.Sprintf("%s pc=%d depth=%d (fault)", opName(byte(opc)), pc, depth))
	}
	if t.record && len(t.out.Rec) < maxRec {
		t.out.Rec = append(t.out.Rec, stepRec{Depth: depth, PC: pc, Op: byte(opc), Gas: gas, Err: "fault: " + err.Error()})
	}
}

func (t *ktracer) CaptureEnter(typ kvm.OpCode, from, to kcommon.Address, input []byte, gas uint64, value *big.Int) {
	t.enter = append(t.enter, typ)
	t.out.touch(addr(to))
}

func (t *ktracer) CaptureExit(output []byte, gasUsed uint64, err error) {
	var typ kvm.OpCode
	if n := len(t.enter); n > 0 {
		typ = t.enter[n-1]
		t.enter = t.enter[:n-1]
	}
	c := kClass(err)
	if isOOGClass(c) {
		t.out.oog("frame exit: " + c)
	}
	if (byte(typ) == opCREATE || byte(typ) == opCREATE2) && len(output) > 24576 && (err == nil || c == "maxcode") {
		t.out.BigCode = true
	}
}

func (t *ktracer) CaptureEnd(output []byte, gasUsed uint64, d time.Duration, err error) {
	c := kClass(err)
	if isOOGClass(c) {
		t.out.oog("top frame: " + c)
	}
	if t.w.Entry == "create" && len(output) > 24576 {
		t.out.BigCode = true
	}
}

const maxRec = 300000
const maxRevertRange = 50000

// checkReverted: every field mutated since undo[lo] must be back at the value it had
// before its first mutation in that range. The only change that legitimately survives
// a failed CREATE/CREATE2 is the creator's nonce increment (Yellow Paper, eq. 7.x:
// the nonce is incremented before the creation frame's checkpoint).
func (t *ktracer) checkReverted(lo int, op byte, self addr, pc uint64, depth int) {
	d := t.db
	hi := len(d.undo)
	if hi-lo > maxRevertRange {
		t.out.failClass("revert-check-skipped")
		return
	}
	// Once the range is verified its records are dropped: every field in it is back at the
	// recorded value, and a later mutation records that same value again. This keeps the
	// total work linear in deep or wide call trees.
	var keep []undoRec
	defer func() { d.undo = append(d.undo[:lo], keep...) }()
	var seen map[field]bool
	if hi-lo > 24 {
		seen = make(map[field]bool, hi-lo)
	}
	for i := lo; i < hi; i++ {
		u := &d.undo[i]
		// only the first record of a field in the range holds its value from before the frame
		if seen != nil {
			if seen[u.f] {
				continue
			}
			seen[u.f] = true
		} else {
			dup := false
			for j := lo; j < i && !dup; j++ {
				dup = d.undo[j].f == u.f
			}
			if dup {
				continue
			}
		}
		cur := d.cur(u.f)
		if cur == u.prev {
			continue
		}
		if (op == opCREATE || op == opCREATE2 || op == 0) && u.f.kind == fNonce && u.f.a == self {
			p := new(big.Int).SetBytes(u.prev[:])
			if new(big.Int).SetBytes(cur[:]).Cmp(p.Add(p, big.NewInt(1))) == 0 {
				keep = append(keep, *u) // an enclosing frame that fails must still restore it
				continue
			}
		}
		on := "top-level " + t.w.Entry
		where := on
		if op != 0 {
			on = opName(op)
			where = fmt.Sprintf("%s at pc %d, depth %d", on, pc, depth)
		}
		t.structural("failed-frame-left-change:"+fieldName[u.f.kind]+":"+on,
			fmt.Sprintf("%s failed but %s of %s (slot %s) is %s, was %s before the frame", where, fieldName[u.f.kind], u.f.a, u.f.k, cur, u.prev))
		return
	}
}

// ---- execution ----

func blockHashOf(n uint64) word {
	var w word
	w[0] = 0xb1
	for i := 0; i < 8; i++ {
		w[31-i] = byte(n >> (8 * uint(i)))
	}
	return w
}

const chainID = 24

func runKVM(w *World, record bool) *Outcome {
	o := &Outcome{Impl: "kvm"}
	sdb, err := kstate.New(kcommon.Hash{}, kstate.NewDatabase(memorydb.New()), nil)
	if err != nil {
		panic("harness: cannot create go-kardia StateDB: " + err.Error())
	}
	for _, a := range w.Accts {
		ka := kcommon.Address(a.Addr)
		sdb.AddBalance(ka, new(big.Int).SetUint64(a.Balance))
		sdb.SetNonce(ka, a.Nonce)
		if len(a.Code) > 0 {
			sdb.SetCode(ka, a.Code)
		}
		for _, kv := range a.Storage {
			sdb.SetState(ka, kcommon.Hash(kv[0]), kcommon.Hash(kv[1]))
		}
	}
	db := &kdb{StateDB: sdb, out: o}
	tr := &ktracer{w: w, out: o, db: db, record: record}
	g := uint64(galaxiasAt)
	cfg := &kcfg.ChainConfig{ChainID: big.NewInt(chainID), GalaxiasBlock: &g}
	bctx := kvm.BlockContext{
		CanTransfer: mkvm.CanTransfer, Transfer: mkvm.Transfer,
		GetHash:  func(n uint64) kcommon.Hash { return kcommon.Hash(blockHashOf(n)) },
		Coinbase: kcommon.Address(w.Coinbase), GasLimit: w.BlockGas,
		BlockHeight: new(big.Int).SetUint64(w.Height), Time: new(big.Int).SetUint64(w.Time),
	}
	vm := kvm.NewKVM(bctx, kvm.TxContext{Origin: kcommon.Address(w.Origin), GasPrice: new(big.Int).SetUint64(w.GasPrice)}, db, cfg,
		kvm.Config{Debug: true, Tracer: tr})
	caller := kvm.AccountRef(kcommon.Address(w.Origin))
	var ret []byte
	var left uint64
	var rerr error
	switch w.Entry {
	case "call":
		ret, left, rerr = vm.Call(caller, kcommon.Address(w.To), w.Input, w.Gas, new(big.Int).SetUint64(w.Value))
	case "static":
		ret, left, rerr = vm.StaticCall(caller, kcommon.Address(w.To), w.Input, w.Gas)
	case "create":
		var ca kcommon.Address
		ret, ca, left, rerr = vm.Create(caller, w.Input, w.Gas, new(big.Int).SetUint64(w.Value))
		o.Created = addr(ca)
		o.touch(o.Created)
	default:
		panic("harness: bad entry " + w.Entry)
	}
	o.Ret = append([]byte{}, ret...)
	o.Left = left
	o.ErrClass = kClass(rerr)
	if rerr != nil {
		o.ErrText = rerr.Error()
	}
	switch o.ErrClass {
	case "ok":
		o.Status = "ok"
	case "revert":
		o.Status = "revert"
	default:
		o.Status = "fail"
		o.Ret = nil
	}
	if isOOGClass(o.ErrClass) {
		o.oog("top-level result: " + o.ErrClass)
	}
	if w.Entry == "create" && (len(ret) > 24576) {
		o.BigCode = true
	}
	if rerr != nil {
		// the failed top-level frame must leave no change either (the caller's nonce
		// increment of a creation excepted)
		tr.checkReverted(0, 0, w.Origin, 0, 0)
	}
	for _, l := range sdb.Logs() {
		lr := LogRec{Addr: addr(l.Address), Data: append([]byte{}, l.Data...)}
		for _, tp := range l.Topics {
			lr.Topics = append(lr.Topics, word(tp))
		}
		o.Logs = append(o.Logs, lr)
	}
	o.observe = func(addrs []addr, keys map[addr][]word) map[addr]AcctObs {
		m := map[addr]AcctObs{}
		for _, a := range addrs {
			ka := kcommon.Address(a)
			ob := AcctObs{Exist: sdb.Exist(ka), Balance: sdb.GetBalance(ka).String(), Nonce: sdb.GetNonce(ka),
				Code: hex.EncodeToString(sdb.GetCode(ka)), Suicided: sdb.HasSuicided(ka), Storage: map[word]word{}}
			for _, k := range keys[a] {
				ob.Storage[k] = word(sdb.GetState(ka, kcommon.Hash(k)))
			}
			m[a] = ob
		}
		return m
	}
	return o
}
