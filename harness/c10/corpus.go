package c10

import (
	"bytes"
	"fmt"
	"math/big"
	"math/rand"
	"os"
	"strings"

	"verifharness/core"
)

// ---- minimal worlds for the fixed corpus ----

func miniWorld(galaxias bool, code []byte, input []byte, gas uint64) *World {
	w := &World{Galaxias: galaxias, Time: 1600000000, BlockGas: 20000000, Coinbase: addrN(0xc01b), GasPrice: 1, Origin: aOrigin,
		Entry: "call", To: aMain, Input: input, Gas: gas}
	if galaxias {
		w.Height = galaxiasAt
	} else {
		w.Height = galaxiasAt - 1
	}
	w.Accts = []Acct{{Addr: aOrigin, Balance: 1000000000000000000}, {Addr: aMain, Code: code, Nonce: 1, Balance: 1000}}
	return w
}

func (w *World) with(a Acct) *World {
	w.Accts = append(w.Accts, a)
	return w
}

func (w *World) withHelpers() *World {
	for _, h := range helperTargets {
		w.Accts = append(w.Accts, Acct{Addr: h, Code: helpers[h], Nonce: 1})
	}
	return w
}

// ---- one-opcode-at-a-time sweep of the instruction tables ----

func validityProgram(op byte) []byte {
	a := &asm{}
	for i := 0; i < 17; i++ {
		a.pushU(uint64(i + 1))
	}
	a.op(op)
	return a.done()
}

func invalidOn(o *Outcome) bool { return o.FailClass["invalid-opcode"] > 0 }

type sweepRow struct {
	v1, v2, byz, con, ist bool
}

func sweepOne(op byte) sweepRow {
	code := validityProgram(op)
	var r sweepRow
	r.v1 = !invalidOn(runKVM(miniWorld(false, code, nil, 1000000), false))
	r.v2 = !invalidOn(runKVM(miniWorld(true, code, nil, 1000000), false))
	w := miniWorld(true, code, nil, 1000000)
	r.byz = !invalidOn(runRefFork(w, false, forkByzantium))
	r.con = !invalidOn(runRefFork(w, false, forkConstantinople))
	r.ist = !invalidOn(runRefFork(w, false, forkIstanbul))
	return r
}

// sweepTables runs the sweep in this process and summarises it (evidence extra).
func sweepTables() map[string]interface{} {
	var v1, v2 []string
	dist := map[string]int{"byzantium": 0, "constantinople": 0, "istanbul": 0}
	dist2 := map[string]int{"byzantium": 0, "constantinople": 0, "istanbul": 0}
	distOut := map[string][]string{"byzantium": {}, "constantinople": {}, "istanbul": {}}
	var diffV1, diffV2, onlyKVM []string
	nv1, nv2, nist := 0, 0, 0
	for op := 0; op < 256; op++ {
		r := sweepOne(byte(op))
		name := fmt.Sprintf("0x%02x", op)
		if opTable[op].defined {
			name += " " + opTable[op].name + "(ethereum name)"
		}
		if r.v1 {
			nv1++
		}
		if r.v2 {
			nv2++
		}
		if r.ist {
			nist++
		}
		for f, ok := range map[string]bool{"byzantium": r.byz, "constantinople": r.con, "istanbul": r.ist} {
			if ok != r.v1 {
				dist[f]++
				if !isBlockCtx(byte(op)) {
					distOut[f] = append(distOut[f], "v1:"+name)
				}
			}
			if ok != r.v2 {
				dist2[f]++
				if !isBlockCtx(byte(op)) {
					distOut[f] = append(distOut[f], "v2:"+name)
				}
			}
		}
		if r.v1 != r.ist {
			diffV1 = append(diffV1, fmt.Sprintf("%s: kvm-v1 valid=%v istanbul valid=%v", name, r.v1, r.ist))
		}
		if r.v2 != r.ist {
			diffV2 = append(diffV2, fmt.Sprintf("%s: kvm-v2 valid=%v istanbul valid=%v", name, r.v2, r.ist))
		}
		if (r.v1 || r.v2) && !r.ist {
			onlyKVM = append(onlyKVM, name)
		}
		_ = v1
		_ = v2
	}
	return map[string]interface{}{
		"valid_opcodes":                   map[string]int{"kvm_v1_pre_galaxias": nv1, "kvm_v2_post_galaxias": nv2, "reference_istanbul": nist},
		"v1_validity_differences_to_fork": dist,
		"v2_validity_differences_to_fork": dist2,
		"v1_vs_istanbul":                  diffV1,
		"v2_vs_istanbul":                  diffV2,
		"valid_only_in_kvm":               onlyKVM,
		"differences_outside_0x40_0x48":   distOut,
		"note":                            "validity = a program of 17 PUSHes followed by the opcode does not end with 'invalid opcode'; 0x44 is GASLIMIT in the KVM and DIFFICULTY in Ethereum (both valid)",
	}
}

// sweepCase: case i = opcode i. Validity against the reference outside 0x40-0x48 is
// asserted, then the instruction is executed on fixed operand vectors through the
// full oracle.
func sweepCase(c *core.Case) {
	op := byte(c.I * 37) // a permutation of 0..255 that spreads the expensive two-operand instructions over the child processes
	run := c.Run
	var row sweepRow
	if c.Guard("opcode sweep", func() interface{} { return fmt.Sprintf("opcode 0x%02x", op) }, func() { row = sweepOne(op) }) {
		return
	}
	run.Count("sweep_opcodes", 1)
	if row.v1 {
		run.Distinct("sweep_valid_v1", opName(op))
	}
	if row.v2 {
		run.Distinct("sweep_valid_v2", opName(op))
	}
	if row.ist {
		run.Distinct("sweep_valid_istanbul", opName(op))
	}
	if !isBlockCtx(op) {
		if row.v1 != row.ist {
			c.Violation("opcode-set:v1:"+opName(op), fmt.Sprintf("opcode 0x%02x (%s): valid=%v in the pre-Galaxias table, valid=%v in the reference (Istanbul)", op, opName(op), row.v1, row.ist), nil)
		}
		if row.v2 != row.ist {
			c.Violation("opcode-set:v2:"+opName(op), fmt.Sprintf("opcode 0x%02x (%s): valid=%v in the post-Galaxias table, valid=%v in the reference (Istanbul)", op, opName(op), row.v2, row.ist), nil)
		}
	} else if row.v1 != row.ist || row.v2 != row.ist {
		run.Distinct("sweep_block_context_differences", opName(op))
	}
	info := opTable[op]
	if !info.defined || (op >= opPUSH1 && op <= opPUSH32) {
		return
	}
	// operand vectors: fixed, independent of the run seed
	r := rand.New(rand.NewSource(int64(op) + 77))
	var vecs [][]*big.Int
	pops := info.pops
	if op >= opDUP1 && op < opDUP1+16 || op >= opSWAP1 && op < opSWAP1+16 {
		pops = info.pops
	}
	switch {
	case pops == 0:
		vecs = [][]*big.Int{{}}
	case pops == 1:
		for _, v := range edgeValues {
			vecs = append(vecs, []*big.Int{v})
		}
		for i := 0; i < 20; i++ {
			vecs = append(vecs, []*big.Int{randWord(r)})
		}
	case pops == 2:
		for _, x := range edgeValues {
			for _, y := range edgeValues {
				vecs = append(vecs, []*big.Int{x, y})
			}
		}
		for i := 0; i < 200; i++ {
			vecs = append(vecs, []*big.Int{value(r), value(r)})
		}
	default:
		for i := 0; i < 500; i++ {
			v := make([]*big.Int, pops)
			for j := range v {
				v[j] = value(r)
			}
			vecs = append(vecs, v)
		}
		if op == opADDMOD || op == opMULMOD {
			big13 := []*big.Int{big.NewInt(0), big.NewInt(1), big.NewInt(2), new(big.Int).SetUint64(^uint64(0)), pow2(64), new(big.Int).Sub(pow2(128), big.NewInt(1)), pow2(128),
				new(big.Int).Sub(pow2(255), big.NewInt(1)), pow2(255), new(big.Int).Add(pow2(255), big.NewInt(1)), maxU256, new(big.Int).Sub(maxU256, big.NewInt(1)), new(big.Int).Sub(pow2(256), pow2(64))}
			for _, x := range big13 {
				for _, y := range big13 {
					for _, z := range big13 {
						vecs = append(vecs, []*big.Int{x, y, z})
					}
				}
			}
		}
	}
	for vi, v := range vecs {
		a := &asm{}
		// a little memory and return data to work on
		a.push(new(big.Int).SetBytes(bytes.Repeat([]byte{0xa5, 0x3c}, 16))).pushU(0).op(opMSTORE)
		if op == opRETURNDATASIZE || op == opRETURNDATACOPY {
			a.pushU(32).pushU(0x40).pushU(32).pushU(0).pushU(0).pushAddr(aEcho).op(opGAS, opCALL, opPOP)
		}
		for j := len(v) - 1; j >= 0; j-- {
			a.push(v[j])
		}
		a.op(op)
		for j := 0; j < info.pushs && j < 2; j++ {
			a.pushU(uint64(0x80 + 32*j)).op(opMSTORE)
		}
		a.ret(0, 0xc0)
		for _, gal := range []bool{false, true} {
			w := miniWorld(gal, a.done(), []byte("0123456789abcdefghijklmnopqrstuvwxyzABCDEFGH"), 3000000).withHelpers()
			w.Accts[1].Storage = [][2]word{{wordU(0), wordU(9)}, {wordU(1), wordBig(maxU256)}}
			w.Note = fmt.Sprintf("sweep %s vector %d", opName(op), vi)
			judge(c, w, "sweep")
		}
	}
}

// ---- fixed scenarios ----

type scenario struct {
	name   string
	worlds func() []*World
	// expect is a reference-free expectation on the KVM outcome taken from the
	// property statement itself ("" = fine). Only evaluated when no frame ran out of gas.
	expect    func(w *World, k *Outcome) string
	evenIfOOG bool
}

func retWord(k *Outcome, i int) *big.Int {
	if len(k.Ret) < 32*(i+1) {
		return big.NewInt(-1)
	}
	return new(big.Int).SetBytes(k.Ret[32*i : 32*i+32])
}

const hugeGas = 100000000000000 // 1e14: needed to reach depth 1024 under the 63/64 rule

// recursion program: every frame calls itself with level+1 until the call fails and
// returns the deepest level reached.
func recursionCode(kind byte, work int) []byte {
	a := &asm{}
	a.pushU(0).op(opCALLDATALOAD)                 // n
	a.op(opDUP1).pushU(0).op(opMSTORE)            // mem[0] = n
	a.pushU(1).op(opADD).pushU(0x20).op(opMSTORE) // mem[0x20] = n+1
	for i := 0; i < work; i++ {
		a.pushU(uint64(i)).pushU(0x20).op(opMLOAD, opMUL, opPOP)
	}
	a.pushU(32).pushU(0x40).pushU(32).pushU(0x20)
	if kind == opCALL || kind == opCALLCODE {
		a.pushU(0)
	}
	a.op(opADDRESS, opGAS).op(kind)
	fail := a.newLabel()
	a.op(opISZERO).pushLabel(fail).op(opJUMPI)
	a.ret(0x40, 32)
	a.bind(fail)
	a.ret(0, 32)
	return a.done()
}

// creation recursion: the creation code creates itself; each level deploys one byte
// more than the level below, so the size of the outermost deployed code is the number
// of nested creation frames.
func createRecursionInit(create2 bool) []byte {
	a := &asm{}
	a.op(opCODESIZE).pushU(0).pushU(0).op(opCODECOPY)
	if create2 {
		a.pushU(7).op(opCODESIZE).pushU(0).pushU(0).op(opCREATE2)
	} else {
		a.op(opCODESIZE).pushU(0).pushU(0).op(opCREATE)
	}
	fail := a.newLabel()
	a.op(opDUP1, opISZERO).pushLabel(fail).op(opJUMPI)
	a.op(opEXTCODESIZE).pushU(1).op(opADD).pushU(0).op(opRETURN)
	a.bind(fail)
	a.op(opPOP).pushU(1).pushU(0).op(opRETURN)
	return a.done()
}

func bothSets(f func(gal bool) []*World) []*World {
	return append(f(false), f(true)...)
}

func pushes(n int) *asm {
	a := &asm{}
	for i := 0; i < n; i++ {
		a.op(opPUSH1, byte(i))
	}
	return a
}

// callerOf builds a main contract that calls aSecond with the given kind, then returns
// (flag, first return word, SLOAD(0), SLOAD(1), returndatasize).
func callerOf(kind byte, value uint64, gas uint64) []byte {
	a := &asm{}
	a.pushU(32).pushU(0x20).pushU(0).pushU(0)
	if kind == opCALL || kind == opCALLCODE {
		a.pushU(value)
	}
	a.pushAddr(aSecond)
	if gas == 0 {
		a.op(opGAS)
	} else {
		a.pushU(gas)
	}
	a.op(kind)
	a.pushU(0).op(opMSTORE)
	a.pushU(0).op(opSLOAD).pushU(0x40).op(opMSTORE)
	a.pushU(1).op(opSLOAD).pushU(0x60).op(opMSTORE)
	a.op(opRETURNDATASIZE).pushU(0x80).op(opMSTORE)
	a.ret(0, 0xa0)
	return a.done()
}

func scenarios() []scenario {
	var list []scenario
	add := func(name string, worlds func() []*World, expect func(w *World, k *Outcome) string) {
		list = append(list, scenario{name: name, worlds: worlds, expect: expect, evenIfOOG: name == "failed-frame-no-change"})
	}

	// 1. JUMPDEST analysis around PUSHn
	add("jumpdest-after-pushn", func() []*World {
		return bothSets(func(gal bool) []*World {
			var ws []*World
			for n := 1; n <= 32; n++ {
				for _, intoData := range []bool{false, true} {
					a := &asm{}
					// layout: 0: PUSH2 t | 3: JUMP | 4: PUSHn | 5..4+n: data, all 0x5b | 5+n: JUMPDEST PUSH1 1 ...
					target := 5 + n // the JUMPDEST after the data
					if intoData {
						target = 4 + n // last data byte, which is 0x5b
					}
					a.op(opPUSH2, byte(target>>8), byte(target), opJUMP)
					a.pushBytes(bytes.Repeat([]byte{opJUMPDEST}, n))
					a.op(opJUMPDEST).pushU(1).returnTop()
					w := miniWorld(gal, a.done(), nil, 100000)
					w.Note = fmt.Sprintf("PUSH%d, jump into its data=%v", n, intoData)
					w.Want = map[bool]string{true: "fail", false: "ok"}[intoData]
					ws = append(ws, w)
				}
				// a PUSHn truncated by the end of the code: its single data byte 0x5b is no destination
				b := &asm{}
				b.op(opPUSH2, 0, 5, opJUMP, byte(opPUSH1+n-1), opJUMPDEST)
				w := miniWorld(gal, b.done(), nil, 100000)
				w.Note = fmt.Sprintf("PUSH%d truncated by the end of the code, jump into its data", n)
				w.Want = "fail"
				ws = append(ws, w)
				// first data byte of PUSHn
				d := &asm{}
				d.op(opPUSH2, 0, 5, opJUMP)
				d.pushBytes(bytes.Repeat([]byte{opJUMPDEST}, n))
				d.op(opJUMPDEST, opSTOP)
				w = miniWorld(gal, d.done(), nil, 100000)
				w.Note = fmt.Sprintf("PUSH%d, jump to its first data byte", n)
				w.Want = "fail"
				ws = append(ws, w)
			}
			// code of every length 8..72 that jumps once and ends in a PUSHn cut off by the end of the code (the analysis
			// has to account for push data beyond the last byte)
			for l := 8; l <= 72; l++ {
				for _, k := range []int{1, 2, 8, 9, 16, 24, 31, 32} {
					code := []byte{opPUSH1, 3, opJUMP}
					for len(code) < l-1 {
						code = append(code, opJUMPDEST)
					}
					code = append(code, byte(opPUSH1+k-1))
					w := miniWorld(gal, code, nil, 100000)
					w.Note = fmt.Sprintf("code of %d bytes: a jump, then JUMPDESTs, ending in a PUSH%d without data", l, k)
					w.Want = "ok"
					ws = append(ws, w)
				}
			}
			return ws
		})
	}, nil)

	// 2. stack limit
	add("stack-limit", func() []*World {
		return bothSets(func(gal bool) []*World {
			var ws []*World
			type tl struct {
				code []byte
				grow int // net growth of the tail before it stops
				name string
			}
			tails := []tl{{[]byte{opSTOP}, 0, "STOP"}, {[]byte{opDUP1, opSTOP}, 1, "DUP1"}, {[]byte{opSWAP1 + 15, opSTOP}, 0, "SWAP16"}, {[]byte{opPC, opSTOP}, 1, "PC"},
				{[]byte{opPOP, opPC, opSTOP}, 0, "POP PC"}, {[]byte{opADD, opDUP1 + 15, opSTOP}, 0, "ADD DUP16"}, {[]byte{opPOP, opPOP, opDUP1, opDUP1, opDUP1, opSTOP}, 1, "POP POP DUP1 DUP1 DUP1"}}
			for _, n := range []int{1022, 1023, 1024, 1025} {
				for _, t := range tails {
					a := pushes(n)
					a.op(t.code...)
					w := miniWorld(gal, a.done(), nil, 1000000)
					w.Note = fmt.Sprintf("%d pushes then %s", n, t.name)
					w.Want = "ok"
					if n > 1024 || n+t.grow > 1024 {
						w.Want = "fail"
					}
					ws = append(ws, w)
				}
			}
			// every opcode that grows the stack by one, on 1023 and on 1024 items; every SWAP on a full stack
			grow1 := []byte{opPC, opMSIZE, opGAS, opADDRESS, opCALLER, opCALLVALUE, opCALLDATASIZE, opCODESIZE, opGASPRICE, opORIGIN, opRETURNDATASIZE}
			for k := 0; k < 16; k++ {
				grow1 = append(grow1, byte(opDUP1+k))
			}
			for _, n := range []int{1023, 1024} {
				for _, o := range grow1 {
					a := pushes(n)
					a.op(o, opSTOP)
					w := miniWorld(gal, a.done(), nil, 1000000)
					w.Note = fmt.Sprintf("%d pushes then %s", n, opName(o))
					w.Want = map[bool]string{true: "fail", false: "ok"}[n+1 > 1024]
					ws = append(ws, w)
				}
				for k := 1; k <= 32; k++ {
					a := pushes(n)
					a.op(byte(opPUSH1 + k - 1))
					a.op(bytes.Repeat([]byte{0x11}, k)...)
					a.op(opSTOP)
					w := miniWorld(gal, a.done(), nil, 1000000)
					w.Note = fmt.Sprintf("%d pushes then PUSH%d", n, k)
					w.Want = map[bool]string{true: "fail", false: "ok"}[n+1 > 1024]
					ws = append(ws, w)
				}
			}
			for k := 0; k < 16; k++ {
				a := pushes(1024)
				a.op(byte(opSWAP1+k), opSTOP)
				w := miniWorld(gal, a.done(), nil, 1000000)
				w.Note = fmt.Sprintf("1024 pushes then SWAP%d", k+1)
				w.Want = "ok"
				ws = append(ws, w)
			}
			// in a sub-call: the callee overflows, the caller sees 0
			for _, n := range []int{1024, 1025} {
				a := pushes(n)
				a.op(opSTOP)
				w := miniWorld(gal, callerOf(opCALL, 0, 0), nil, 2000000).with(Acct{Addr: aSecond, Code: a.done(), Nonce: 1})
				w.Note = fmt.Sprintf("callee with %d pushes", n)
				w.Want = map[bool]string{true: "flag0", false: "flag1"}[n > 1024]
				ws = append(ws, w)
			}
			return ws
		})
	}, nil)

	// 3. call depth
	add("call-depth", func() []*World {
		return bothSets(func(gal bool) []*World {
			var ws []*World
			for _, kind := range []byte{opCALL, opCALLCODE, opDELEGATECALL, opSTATICCALL} {
				w := miniWorld(gal, recursionCode(kind, 0), make([]byte, 32), hugeGas)
				w.Note = "recursion by " + opName(kind)
				ws = append(ws, w)
			}
			for _, c2 := range []bool{false, true} {
				w := miniWorld(gal, nil, createRecursionInit(c2), hugeGas)
				w.Entry = "create"
				w.Note = fmt.Sprintf("recursion by creation (create2=%v)", c2)
				ws = append(ws, w)
			}
			return ws
		})
	}, func(w *World, k *Outcome) string {
		if k.MaxDepth != 1025 {
			return fmt.Sprintf("recursion with ample gas stopped at call depth %d (tracer depth %d), the limit is 1024", k.MaxDepth-1, k.MaxDepth)
		}
		if w.Entry == "call" {
			if d := retWord(k, 0); d.Cmp(big.NewInt(1024)) != 0 {
				return fmt.Sprintf("deepest level reported by the program is %v, expected 1024", d)
			}
		}
		return ""
	})

	// 4. static context
	add("static-context", func() []*World {
		return bothSets(func(gal bool) []*World {
			var ws []*World
			type v struct {
				name string
				code func() []byte
				ok   bool
			}
			tiny := []byte{0x60, 0x00, 0x60, 0x00, 0xf3}
			mk := func(f func(a *asm)) func() []byte {
				return func() []byte {
					a := &asm{}
					f(a)
					a.pushU(1).returnTop()
					return a.done()
				}
			}
			variants := []v{
				{"SSTORE", mk(func(a *asm) { a.pushU(5).pushU(0).op(opSSTORE) }), false},
				{"SSTORE-same-value", mk(func(a *asm) { a.pushU(0).pushU(3).op(opSSTORE) }), false},
				{"LOG0", mk(func(a *asm) { a.pushU(0).pushU(0).op(opLOG0) }), false},
				{"LOG1", mk(func(a *asm) { a.pushU(1).pushU(0).pushU(0).op(opLOG0 + 1) }), false},
				{"LOG2", mk(func(a *asm) { a.pushU(1).pushU(1).pushU(0).pushU(0).op(opLOG0 + 2) }), false},
				{"LOG3", mk(func(a *asm) { a.pushU(1).pushU(1).pushU(1).pushU(0).pushU(0).op(opLOG0 + 3) }), false},
				{"LOG4", mk(func(a *asm) { a.pushU(1).pushU(1).pushU(1).pushU(1).pushU(0).pushU(0).op(opLOG0 + 4) }), false},
				{"CREATE", mk(func(a *asm) {
					a.push(new(big.Int).SetBytes(tiny)).pushU(0).op(opMSTORE).pushU(5).pushU(27).pushU(0).op(opCREATE, opPOP)
				}), false},
				{"CREATE2", mk(func(a *asm) {
					a.push(new(big.Int).SetBytes(tiny)).pushU(0).op(opMSTORE).pushU(1).pushU(5).pushU(27).pushU(0).op(opCREATE2, opPOP)
				}), false},
				{"SELFDESTRUCT", mk(func(a *asm) { a.pushAddr(aEOA).op(opSELFDESTRUCT) }), false},
				{"CALL-with-value", mk(func(a *asm) {
					a.pushU(0).pushU(0).pushU(0).pushU(0).pushU(1).pushAddr(aEOA).op(opGAS, opCALL, opPOP)
				}), false},
				{"CALL-without-value", mk(func(a *asm) {
					a.pushU(0).pushU(0).pushU(0).pushU(0).pushU(0).pushAddr(aEOA).op(opGAS, opCALL, opPOP)
				}), true},
				{"SLOAD-only", mk(func(a *asm) { a.pushU(0).op(opSLOAD, opPOP) }), true},
				// the write happens one and two frames below the static call
				{"nested-CALL-SSTORE", mk(func(a *asm) {
					a.pushU(0).pushU(0).pushU(64).pushU(0).pushU(0).pushAddr(aStore).op(opGAS, opCALL)
					ok := a.newLabel()
					a.pushLabel(ok).op(opJUMPI)
					a.op(opINVALID)
					a.bind(ok)
				}), false},
				{"nested-DELEGATECALL-SSTORE", mk(func(a *asm) {
					a.pushU(0).pushU(0).pushU(64).pushU(0).pushAddr(aStore).op(opGAS, opDELEGATECALL)
					ok := a.newLabel()
					a.pushLabel(ok).op(opJUMPI)
					a.op(opINVALID)
					a.bind(ok)
				}), false},
				{"nested-CALLCODE-SSTORE", mk(func(a *asm) {
					a.pushU(0).pushU(0).pushU(64).pushU(0).pushU(0).pushAddr(aStore).op(opGAS, opCALLCODE)
					ok := a.newLabel()
					a.pushLabel(ok).op(opJUMPI)
					a.op(opINVALID)
					a.bind(ok)
				}), false},
			}
			for _, x := range variants {
				// via STATICCALL from the main contract
				w := miniWorld(gal, callerOf(opSTATICCALL, 0, 0), nil, 3000000).withHelpers().
					with(Acct{Addr: aSecond, Code: x.code(), Nonce: 1, Balance: 10, Storage: [][2]word{{wordU(3), wordU(0)}}}).with(Acct{Addr: aEOA, Balance: 1})
				w.Note = fmt.Sprintf("STATICCALL -> %s", x.name)
				w.Want = map[bool]string{true: "flag1", false: "flag0"}[x.ok]
				ws = append(ws, w)
				// as a top-level static call
				w2 := miniWorld(gal, x.code(), nil, 3000000).withHelpers().with(Acct{Addr: aEOA, Balance: 1})
				w2.Entry = "static"
				w2.Note = fmt.Sprintf("top-level static -> %s", x.name)
				w2.Want = map[bool]string{true: "ok", false: "fail"}[x.ok]
				ws = append(ws, w2)
			}
			return ws
		})
	}, func(w *World, k *Outcome) string {
		if len(k.Logs) != 0 {
			return "a log was emitted from a static call"
		}
		return ""
	})

	// 5. a failed or reverted frame leaves no change
	add("failed-frame-no-change", func() []*World {
		return bothSets(func(gal bool) []*World {
			var ws []*World
			effects := func(a *asm) {
				a.pushU(0x77).pushU(0).op(opSSTORE)                                                        // storage
				a.pushU(0x78).pushU(1).op(opSSTORE)                                                        //
				a.pushU(9).pushU(0).pushU(0).op(opLOG0 + 1)                                                // log
				a.pushU(0).pushU(0).pushU(0).pushU(0).pushU(3).pushAddr(aEOA).op(opGAS, opCALL, opPOP)     // value transfer
				a.pushU(0).pushU(0).pushU(0).pushU(0).pushU(2).pushAddr(aNone).op(opGAS, opCALL, opPOP)    // creates an account
				a.pushU(0).pushU(0).pushU(64).pushU(0).pushU(0).pushAddr(aStore).op(opGAS, opCALL, opPOP)  // nested successful frame writing state
				a.pushU(0).pushU(0).pushU(0).pushU(0).pushU(0).pushAddr(aSuicide).op(opGAS, opCALL, opPOP) // nested self-destruct
				a.push(new(big.Int).SetBytes([]byte{0x60, 0x01, 0x60, 0x00, 0xf3})).pushU(0).op(opMSTORE)  //
				a.pushU(5).pushU(27).pushU(1).op(opCREATE, opPOP)                                          // creation with endowment
				a.pushU(1).pushU(5).pushU(27).pushU(0).op(opCREATE2, opPOP)                                //
			}
			ends := map[string]func(a *asm){
				"REVERT":          func(a *asm) { a.revert(0, 32) },
				"INVALID":         func(a *asm) { a.op(opINVALID) },
				"bad-jump":        func(a *asm) { a.jumpIntoPushData() },
				"stack-underflow": func(a *asm) { a.op(opADD) },
				"undefined-op":    func(a *asm) { a.op(0x0c) },
				"returndata-oob":  func(a *asm) { a.pushU(1).op(opRETURNDATASIZE).pushU(0).op(opRETURNDATACOPY) },
				"out-of-gas":      func(a *asm) { l := a.newLabel(); a.bind(l).pushLabel(l).op(opJUMP) },
				"success":         func(a *asm) { a.ret(0, 32) },
			}
			for _, name := range []string{"REVERT", "INVALID", "bad-jump", "stack-underflow", "undefined-op", "returndata-oob", "out-of-gas", "success"} {
				for _, kind := range []byte{opCALL, opCALLCODE, opDELEGATECALL} {
					a := &asm{}
					effects(a)
					ends[name](a)
					gas := uint64(0)
					if name == "out-of-gas" {
						gas = 400000
					}
					w := miniWorld(gal, callerOf(kind, 5, gas), nil, 5000000).withHelpers().
						with(Acct{Addr: aSecond, Code: a.done(), Nonce: 1, Balance: 100, Storage: [][2]word{{wordU(1), wordU(0x55)}}}).with(Acct{Addr: aEOA, Balance: 1})
					w.Accts[1].Storage = [][2]word{{wordU(1), wordU(0x55)}}
					w.Accts[1].Balance = 100
					w.Note = fmt.Sprintf("%s into a frame with effects ending in %s", opName(kind), name)
					ws = append(ws, w)
				}
				// the same frame as the top-level message
				a := &asm{}
				effects(a)
				ends[name](a)
				w := miniWorld(gal, a.done(), nil, 5000000).withHelpers().with(Acct{Addr: aEOA, Balance: 1})
				if name == "out-of-gas" {
					w.Gas = 400000
				}
				w.Value = 5
				w.Note = "top-level frame with effects ending in " + name
				ws = append(ws, w)
				// creation frame
				w3 := miniWorld(gal, nil, a.done(), 5000000).withHelpers().with(Acct{Addr: aEOA, Balance: 1})
				w3.Entry = "create"
				if name == "out-of-gas" {
					w3.Gas = 400000
				}
				w3.Note = "creation frame with effects ending in " + name
				ws = append(ws, w3)
			}
			return ws
		})
	}, func(w *World, k *Outcome) string {
		if bytes.HasSuffix([]byte(w.Note), []byte("success")) {
			return ""
		}
		if w.Entry == "call" && bytes.Contains([]byte(w.Note), []byte("into a frame")) {
			if retWord(k, 0).Sign() != 0 {
				return "the failing callee reported success: " + w.Note
			}
			// SLOAD(0) and SLOAD(1) of the caller after the failed frame: CALLCODE/DELEGATECALL write the caller's storage
			if retWord(k, 2).Sign() != 0 || retWord(k, 3).Cmp(big.NewInt(0x55)) != 0 {
				return fmt.Sprintf("storage of the caller changed through a failed frame: slot0=%x slot1=%x (%s)", retWord(k, 2), retWord(k, 3), w.Note)
			}
		}
		if len(k.Logs) != 0 {
			return fmt.Sprintf("%d logs survive a failed frame (%s)", len(k.Logs), w.Note)
		}
		return ""
	})

	// 6. RETURNDATACOPY bounds
	add("returndatacopy-bounds", func() []*World {
		return bothSets(func(gal bool) []*World {
			var ws []*World
			type rc struct {
				off, n *big.Int
				ok     bool
			}
			u := func(x uint64) *big.Int { return new(big.Int).SetUint64(x) }
			cases := []rc{{u(0), u(32), true}, {u(0), u(33), false}, {u(1), u(32), false}, {u(1), u(31), true}, {u(32), u(0), true}, {u(33), u(0), false},
				{u(31), u(1), true}, {u(31), u(2), false}, {u(0), u(0), true}, {u(^uint64(0)), u(1), false}, {u(^uint64(0)), u(0), false}, {u(1), u(^uint64(0)), false},
				{pow2(64), u(0), false}, {maxU256, u(1), false}, {u(1), maxU256, false}, {maxU256, maxU256, false}, {pow2(255), pow2(255), false},
				{u(16), u(16), true}, {u(16), u(17), false}}
			for _, x := range cases {
				for _, callee := range []addr{aEcho, aRevert, addrN(4)} {
					a := &asm{}
					a.push(new(big.Int).SetBytes(bytes.Repeat([]byte{0xc7}, 32))).pushU(0).op(opMSTORE)
					a.pushU(0).pushU(0).pushU(32).pushU(0).pushU(0).pushAddr(callee).op(opGAS, opCALL, opPOP)
					a.push(x.n).push(x.off).pushU(0x40).op(opRETURNDATACOPY)
					a.ret(0x40, 0x40)
					w := miniWorld(gal, a.done(), nil, 3000000).withHelpers()
					w.Note = fmt.Sprintf("RETURNDATACOPY off=%x len=%x of 32 bytes returned by %s", x.off, x.n, callee)
					w.Want = map[bool]string{true: "ok", false: "fail"}[x.ok]
					ws = append(ws, w)
				}
			}
			return ws
		})
	}, nil)

	// 7. the return-data buffer holds the output of the last call (EIP-211), whatever the
	// caller does to its own memory afterwards
	add("returndata-is-a-copy", func() []*World {
		return bothSets(func(gal bool) []*World {
			var ws []*World
			for _, callee := range []addr{addrN(4), aEcho, aRevert} {
				for _, kind := range []byte{opCALL, opSTATICCALL, opDELEGATECALL, opCALLCODE} {
					a := &asm{}
					a.push(new(big.Int).SetBytes(bytes.Repeat([]byte{0x11}, 32))).pushU(0).op(opMSTORE)
					a.pushU(32).pushU(0x40).pushU(32).pushU(0)
					if kind == opCALL || kind == opCALLCODE {
						a.pushU(0)
					}
					a.pushAddr(callee).op(opGAS).op(kind).op(opPOP)
					// overwrite the memory the input came from (and where the output went)
					a.push(new(big.Int).SetBytes(bytes.Repeat([]byte{0x22}, 32))).pushU(0).op(opMSTORE)
					a.push(new(big.Int).SetBytes(bytes.Repeat([]byte{0x33}, 32))).pushU(0x40).op(opMSTORE)
					a.pushU(32).pushU(0).pushU(0x80).op(opRETURNDATACOPY)
					a.ret(0x80, 32)
					w := miniWorld(gal, a.done(), nil, 3000000).withHelpers()
					w.Note = fmt.Sprintf("%s to %s, caller overwrites its memory, then RETURNDATACOPY", opName(kind), callee)
					ws = append(ws, w)
					// output region overlapping the input region (shifted by 16 bytes): the copy of the
					// output into memory must not change what RETURNDATACOPY delivers afterwards
					b := &asm{}
					b.push(new(big.Int).SetBytes(append(bytes.Repeat([]byte{0x11}, 16), bytes.Repeat([]byte{0x44}, 16)...))).pushU(0).op(opMSTORE)
					b.pushU(32).pushU(16).pushU(32).pushU(0)
					if kind == opCALL || kind == opCALLCODE {
						b.pushU(0)
					}
					b.pushAddr(callee).op(opGAS).op(kind).op(opPOP)
					b.pushU(32).pushU(0).pushU(0x80).op(opRETURNDATACOPY)
					b.ret(0x80, 32)
					w2 := miniWorld(gal, b.done(), nil, 3000000).withHelpers()
					w2.Note = fmt.Sprintf("%s to %s with the output region overlapping the input region, then RETURNDATACOPY", opName(kind), callee)
					w2.Want = "overlap"
					ws = append(ws, w2)
				}
			}
			return ws
		})
	}, func(w *World, k *Outcome) string {
		if k.Status != "ok" {
			return ""
		}
		want := bytes.Repeat([]byte{0x11}, 32)
		if w.Want == "overlap" {
			want = append(bytes.Repeat([]byte{0x11}, 16), bytes.Repeat([]byte{0x44}, 16)...)
		}
		if !bytes.Equal(k.Ret, want) {
			return fmt.Sprintf("return data of the last call reads %x after the caller wrote to its own memory; the call returned %x (%s)", k.Ret, want, w.Note)
		}
		return ""
	})

	// 8. memory and copy instructions at boundary offsets
	add("memory-boundaries", func() []*World {
		return bothSets(func(gal bool) []*World {
			var ws []*World
			sizes := []*big.Int{big.NewInt(0), big.NewInt(1), big.NewInt(32), big.NewInt(33), big.NewInt(1 << 16), big.NewInt(1 << 32), new(big.Int).SetUint64(^uint64(0)), maxU256}
			type mop struct {
				name string
				emit func(a *asm, off, size *big.Int)
			}
			ops := []mop{
				{"MLOAD", func(a *asm, off, size *big.Int) { a.push(off).op(opMLOAD).pushU(0).op(opMSTORE) }},
				{"MSTORE", func(a *asm, off, size *big.Int) { a.pushU(0xabcdef).push(off).op(opMSTORE) }},
				{"MSTORE8", func(a *asm, off, size *big.Int) { a.pushU(0xabcdef).push(off).op(opMSTORE8) }},
				{"SHA3", func(a *asm, off, size *big.Int) { a.push(size).push(off).op(opSHA3).pushU(0).op(opMSTORE) }},
				{"CALLDATACOPY-dst", func(a *asm, off, size *big.Int) { a.push(size).pushU(0).push(off).op(opCALLDATACOPY) }},
				{"CALLDATACOPY-src", func(a *asm, off, size *big.Int) {
					s := new(big.Int).Set(size)
					if s.Cmp(big.NewInt(1<<16)) > 0 {
						s = big.NewInt(64)
					}
					a.push(s).push(off).pushU(0).op(opCALLDATACOPY)
				}},
				{"CODECOPY-src", func(a *asm, off, size *big.Int) {
					s := new(big.Int).Set(size)
					if s.Cmp(big.NewInt(1<<16)) > 0 {
						s = big.NewInt(64)
					}
					a.push(s).push(off).pushU(0).op(opCODECOPY)
				}},
				{"CODECOPY-dst", func(a *asm, off, size *big.Int) { a.push(size).pushU(0).push(off).op(opCODECOPY) }},
				{"EXTCODECOPY-src", func(a *asm, off, size *big.Int) {
					s := new(big.Int).Set(size)
					if s.Cmp(big.NewInt(1<<16)) > 0 {
						s = big.NewInt(64)
					}
					a.push(s).push(off).pushU(0).pushAddr(aEcho).op(opEXTCODECOPY)
				}},
				{"EXTCODECOPY-dst", func(a *asm, off, size *big.Int) { a.push(size).pushU(0).push(off).pushAddr(aEcho).op(opEXTCODECOPY) }},
				{"CALLDATALOAD", func(a *asm, off, size *big.Int) { a.push(off).op(opCALLDATALOAD).pushU(0).op(opMSTORE) }},
				{"LOG1", func(a *asm, off, size *big.Int) { a.pushU(1).push(size).push(off).op(opLOG0 + 1) }},
				{"RETURN", func(a *asm, off, size *big.Int) { a.push(size).push(off).op(opRETURN) }},
				{"REVERT", func(a *asm, off, size *big.Int) { a.push(size).push(off).op(opREVERT) }},
				{"CALL-in", func(a *asm, off, size *big.Int) {
					a.pushU(0).pushU(0).push(size).push(off).pushU(0).pushAddr(aEcho).op(opGAS, opCALL).pushU(0).op(opMSTORE)
				}},
				{"CALL-out", func(a *asm, off, size *big.Int) {
					a.push(size).push(off).pushU(32).pushU(0).pushU(0).pushAddr(aEcho).op(opGAS, opCALL).pushU(0).op(opMSTORE)
				}},
				{"STATICCALL-out-identity", func(a *asm, off, size *big.Int) {
					a.push(size).push(off).pushU(32).pushU(0).pushAddr(addrN(4)).op(opGAS, opSTATICCALL).pushU(0).op(opMSTORE)
				}},
				{"CREATE", func(a *asm, off, size *big.Int) { a.push(size).push(off).pushU(0).op(opCREATE).pushU(0).op(opMSTORE) }},
				{"CREATE2", func(a *asm, off, size *big.Int) {
					a.pushU(1).push(size).push(off).pushU(0).op(opCREATE2).pushU(0).op(opMSTORE)
				}},
			}
			for _, m := range ops {
				for _, off := range boundaryOffsets {
					for _, size := range sizes {
						a := &asm{}
						a.push(new(big.Int).SetBytes(bytes.Repeat([]byte{0x5a}, 32))).pushU(0x20).op(opMSTORE)
						m.emit(a, off, size)
						a.op(opMSIZE).pushU(0x40).op(opMSTORE)
						a.ret(0, 0x60)
						w := miniWorld(gal, a.done(), bytes.Repeat([]byte{0xda}, 70), 30000000).withHelpers()
						w.Note = fmt.Sprintf("%s off=%x size=%x", m.name, off, size)
						ws = append(ws, w)
					}
				}
			}
			return ws
		})
	}, nil)

	// 9. self-destruct, value transfers, creations
	add("selfdestruct-transfer-create", func() []*World {
		return bothSets(func(gal bool) []*World {
			var ws []*World
			tiny := func(n byte) *big.Int { return new(big.Int).SetBytes([]byte{0x60, n, 0x60, 0x00, 0xf3}) }
			progs := map[string]func(a *asm){
				"selfdestruct-to-self":        func(a *asm) { a.op(opADDRESS, opSELFDESTRUCT) },
				"selfdestruct-to-nonexistent": func(a *asm) { a.pushAddr(aNone).op(opSELFDESTRUCT) },
				"selfdestruct-to-precompile":  func(a *asm) { a.pushAddr(addrN(3)).op(opSELFDESTRUCT) },
				"selfdestruct-in-callee-then-call-again": func(a *asm) {
					for i := 0; i < 2; i++ {
						a.pushU(0).pushU(0).pushU(0).pushU(0).pushU(1).pushAddr(aSuicide).op(opGAS, opCALL).pushU(uint64(32 * i)).op(opMSTORE)
					}
					a.pushAddr(aSuicide).op(opBALANCE).pushU(0x40).op(opMSTORE)
					a.pushAddr(aSuicide).op(opEXTCODESIZE).pushU(0x60).op(opMSTORE)
					a.pushAddr(aSuicide).op(opEXTCODEHASH).pushU(0x80).op(opMSTORE)
					a.ret(0, 0xa0)
				},
				"value-exceeds-balance": func(a *asm) {
					a.pushU(0).pushU(0).pushU(0).pushU(0).pushU(1001).pushAddr(aEOA).op(opGAS, opCALL).returnTop()
				},
				"value-equals-balance": func(a *asm) {
					a.pushU(0).pushU(0).pushU(0).pushU(0).pushU(1000).pushAddr(aNone).op(opGAS, opCALL).pushU(0).op(opMSTORE)
					a.pushAddr(aNone).op(opBALANCE).pushU(0x20).op(opMSTORE).op(opADDRESS, opBALANCE).pushU(0x40).op(opMSTORE).ret(0, 0x60)
				},
				"callcode-value-exceeds-balance": func(a *asm) {
					a.pushU(0).pushU(0).pushU(0).pushU(0).pushU(1001).pushAddr(aEcho).op(opGAS, opCALLCODE).returnTop()
				},
				"create-value-exceeds-balance": func(a *asm) {
					a.push(tiny(1)).pushU(0).op(opMSTORE).pushU(5).pushU(27).pushU(1001).op(opCREATE).returnTop()
				},
				"create2-twice-same-salt": func(a *asm) {
					a.push(tiny(1)).pushU(0).op(opMSTORE)
					a.pushU(5).pushU(5).pushU(27).pushU(0).op(opCREATE2).pushU(0x20).op(opMSTORE)
					a.pushU(5).pushU(5).pushU(27).pushU(0).op(opCREATE2).pushU(0x40).op(opMSTORE)
					a.ret(0x20, 0x40)
				},
				"create-twice": func(a *asm) {
					a.push(tiny(2)).pushU(0).op(opMSTORE)
					a.pushU(5).pushU(27).pushU(1).op(opCREATE).pushU(0x20).op(opMSTORE)
					a.pushU(5).pushU(27).pushU(1).op(opCREATE).pushU(0x40).op(opMSTORE)
					a.pushU(0x20).op(opMLOAD, opEXTCODESIZE).pushU(0x60).op(opMSTORE)
					a.ret(0x20, 0x60)
				},
				"create-init-reverts-with-data": func(a *asm) {
					// init: PUSH1 0x2a PUSH1 0 MSTORE PUSH1 32 PUSH1 0 REVERT
					a.push(new(big.Int).SetBytes([]byte{0x60, 0x2a, 0x60, 0x00, 0x52, 0x60, 0x20, 0x60, 0x00, 0xfd})).pushU(0).op(opMSTORE)
					a.pushU(10).pushU(22).pushU(0).op(opCREATE).pushU(0x20).op(opMSTORE)
					a.op(opRETURNDATASIZE).pushU(0x40).op(opMSTORE)
					a.pushU(32).pushU(0).pushU(0x60).op(opRETURNDATACOPY)
					a.ret(0x20, 0x60)
				},
				"create-success-clears-returndata": func(a *asm) {
					a.pushU(0).pushU(0).pushU(32).pushU(0).pushU(0).pushAddr(aEcho).op(opGAS, opCALL, opPOP)
					a.push(tiny(3)).pushU(0).op(opMSTORE)
					a.pushU(5).pushU(27).pushU(0).op(opCREATE, opPOP)
					a.op(opRETURNDATASIZE).returnTop()
				},
				// the return-data buffer after creations (empty after a success, and after every failure but a REVERT)
				"create2-success-clears-returndata": func(a *asm) {
					a.pushU(0).pushU(0).pushU(32).pushU(0).pushU(0).pushAddr(aEcho).op(opGAS, opCALL, opPOP)
					a.push(tiny(3)).pushU(0).op(opMSTORE)
					a.pushU(7).pushU(5).pushU(27).pushU(0).op(opCREATE2, opPOP)
					a.op(opRETURNDATASIZE).returnTop()
				},
				"create2-init-calls-then-stops": func(a *asm) {
					// init: CALL(identity, 32 bytes in, nothing copied out) then STOP - the inner call's output must not be
					// visible to the creator
					init := []byte{0x60, 0x00, 0x60, 0x00, 0x60, 0x20, 0x60, 0x00, 0x60, 0x00, 0x60, 0x04, 0x5a, 0xf1, 0x00}
					a.push(new(big.Int).SetBytes(init)).pushU(0).op(opMSTORE)
					a.pushU(9).pushU(uint64(len(init))).pushU(uint64(32-len(init))).pushU(0).op(opCREATE2, opPOP)
					a.op(opRETURNDATASIZE).pushU(0x40).op(opMSTORE)
					a.pushU(0).pushU(0).pushU(0x60).op(opRETURNDATACOPY)
					a.ret(0x40, 0x40)
				},
				"create-init-calls-then-stops": func(a *asm) {
					init := []byte{0x60, 0x00, 0x60, 0x00, 0x60, 0x20, 0x60, 0x00, 0x60, 0x00, 0x60, 0x04, 0x5a, 0xf1, 0x00}
					a.push(new(big.Int).SetBytes(init)).pushU(0).op(opMSTORE)
					a.pushU(uint64(len(init))).pushU(uint64(32-len(init))).pushU(0).op(opCREATE, opPOP)
					a.op(opRETURNDATASIZE).returnTop()
				},
				"create2-unaffordable-endowment-after-call": func(a *asm) {
					a.pushU(0).pushU(0).pushU(32).pushU(0).pushU(0).pushAddr(aEcho).op(opGAS, opCALL, opPOP)
					a.push(tiny(3)).pushU(0).op(opMSTORE)
					a.pushU(11).pushU(5).pushU(27).push(new(big.Int).Lsh(big.NewInt(1), 200)).op(opCREATE2).pushU(0x20).op(opMSTORE)
					a.op(opRETURNDATASIZE).pushU(0x40).op(opMSTORE)
					a.ret(0x20, 0x40)
				},
				"create-unaffordable-endowment-after-call": func(a *asm) {
					a.pushU(0).pushU(0).pushU(32).pushU(0).pushU(0).pushAddr(aEcho).op(opGAS, opCALL, opPOP)
					a.push(tiny(3)).pushU(0).op(opMSTORE)
					a.pushU(5).pushU(27).push(new(big.Int).Lsh(big.NewInt(1), 200)).op(opCREATE).pushU(0x20).op(opMSTORE)
					a.op(opRETURNDATASIZE).pushU(0x40).op(opMSTORE)
					a.ret(0x20, 0x40)
				},
				"create-empty-init": func(a *asm) {
					a.pushU(0).pushU(0).pushU(0).op(opCREATE).op(opDUP1).pushU(0).op(opMSTORE).op(opEXTCODEHASH).pushU(0x20).op(opMSTORE).ret(0, 0x40)
				},
				"call-nonexistent-no-value": func(a *asm) {
					a.pushU(0).pushU(0).pushU(0).pushU(0).pushU(0).pushAddr(aNone).op(opGAS, opCALL).pushU(0).op(opMSTORE)
					a.pushAddr(aNone).op(opEXTCODEHASH).pushU(0x20).op(opMSTORE).ret(0, 0x40)
				},
				"extcodehash-classes": func(a *asm) {
					for i, t := range []addr{aNone, aEOA, aEcho, addrN(1), aMain} {
						a.pushAddr(t).op(opEXTCODEHASH).pushU(uint64(32 * i)).op(opMSTORE)
					}
					a.ret(0, 0xa0)
				},
			}
			for _, name := range []string{"selfdestruct-to-self", "selfdestruct-to-nonexistent", "selfdestruct-to-precompile", "selfdestruct-in-callee-then-call-again",
				"value-exceeds-balance", "value-equals-balance", "callcode-value-exceeds-balance", "create-value-exceeds-balance", "create2-twice-same-salt",
				"create-twice", "create-init-reverts-with-data", "create-success-clears-returndata", "create-empty-init", "call-nonexistent-no-value", "extcodehash-classes",
				"create2-success-clears-returndata", "create2-init-calls-then-stops", "create-init-calls-then-stops", "create2-unaffordable-endowment-after-call",
				"create-unaffordable-endowment-after-call"} {
				a := &asm{}
				progs[name](a)
				w := miniWorld(gal, a.done(), nil, 3000000).withHelpers().with(Acct{Addr: aEOA, Balance: 1})
				w.Note = name
				ws = append(ws, w)
			}
			// code size limits of a creation (EIP-170 in the reference, a larger limit in the KVM: masked above 24576)
			for _, n := range []uint64{24575, 24576, 24577, 39231, 39232} {
				a := &asm{}
				a.ret(0, n)
				w := miniWorld(gal, nil, a.done(), 30000000)
				w.Entry = "create"
				w.Note = fmt.Sprintf("creation returning %d bytes", n)
				ws = append(ws, w)
			}
			// gas boundaries of a trivial program
			for _, g := range []uint64{0, 1, 2, 3, 5, 6, 8, 9, 20, 21, 100} {
				a := &asm{}
				a.pushU(1).pushU(2).op(opADD).returnTop()
				w := miniWorld(gal, a.done(), nil, g)
				w.Note = fmt.Sprintf("trivial program with %d gas", g)
				ws = append(ws, w)
			}
			return ws
		})
	}, nil)

	// 10. precompiles implemented on both sides (1..8); address 9 is masked
	add("precompiles", func() []*World {
		return bothSets(func(gal bool) []*World {
			var ws []*World
			r := rand.New(rand.NewSource(4242))
			for p := 1; p <= 9; p++ {
				for v := 0; v < 12; v++ {
					var in []byte
					switch v {
					case 0:
					case 1:
						in = make([]byte, 32)
					case 2:
						in = make([]byte, 128)
					case 3:
						in = make([]byte, 192)
					case 4: // modexp 3^5 mod 7, bn: (1,2) generator
						in = append(append(append(wb(1), wb(1)...), wb(1)...), 3, 5, 7)
						if p == 6 || p == 7 {
							in = append(append(append(wb(1), wb(2)...), wb(1)...), wb(2)...)
						}
					case 5: // ecrecover-shaped input with v=27/28
						in = make([]byte, 128)
						r.Read(in)
						for i := 32; i < 63; i++ {
							in[i] = 0
						}
						in[63] = 27 + byte(r.Intn(2))
					default:
						in = make([]byte, r.Intn(260))
						r.Read(in)
						if v%2 == 0 && len(in) >= 96 {
							for i := 0; i < 96; i++ {
								if i%32 != 31 {
									in[i] = 0
								} else {
									in[i] %= 40
								}
							}
						}
					}
					a := &asm{}
					a.op(opCALLDATASIZE).pushU(0).pushU(0).op(opCALLDATACOPY)
					a.pushU(64).pushU(0x400).op(opCALLDATASIZE).pushU(0).pushAddr(addrN(uint64(p))).op(opGAS, opSTATICCALL)
					a.pushU(0x440).op(opMSTORE)
					a.op(opRETURNDATASIZE).pushU(0x460).op(opMSTORE)
					a.ret(0x400, 0x80)
					w := miniWorld(gal, a.done(), in, 30000000)
					w.Note = fmt.Sprintf("precompile %d input variant %d", p, v)
					ws = append(ws, w)
				}
			}
			return ws
		})
	}, nil)

	// 11. several different creation codes inside one transaction, each with jumps: the jump-destination analysis of
	// one creation code (which has no code hash) says nothing about another's; also nested: a creation code that itself
	// creates from a different creation code, and the same creation code twice
	add("several-creation-codes-with-jumps", func() []*World {
		return bothSets(func(gal bool) []*World {
			var ws []*World
			r := rand.New(rand.NewSource(777))
			inits := jumpingInits(r)
			for v := 0; v < 40; v++ {
				n := 2 + r.Intn(3)
				var pick [][]byte
				var names []string
				for i := 0; i < n; i++ {
					k := r.Intn(len(inits))
					pick = append(pick, inits[k])
					names = append(names, fmt.Sprint(k))
				}
				w := miniWorld(gal, creationFactory(r.Intn(2) == 0, pick...), nil, 30000000)
				w.Note = "factory creating from creation codes " + strings.Join(names, ",")
				ws = append(ws, w)
			}
			return ws
		})
	}, nil)

	return list
}

// jumpingInits: creation codes that all execute jumps, with JUMPDESTs at positions that are push data, plain opcodes
// or beyond the end in the others.
func jumpingInits(r *rand.Rand) [][]byte {
	var out [][]byte
	// PUSH1 3; JUMP; JUMPDEST; STOP
	out = append(out, []byte{0x60, 0x03, 0x56, 0x5b, 0x00})
	// a loop through a JUMPDEST at pc=1, deploys one byte
	out = append(out, []byte{0x34, 0x5b, 0x60, 0x01, 0x01, 0x80, 0x60, 0x01, 0x14, 0x60, 0x01, 0x57, 0x60, 0x00, 0x52, 0x60, 0x01, 0x60, 0x1f, 0xf3})
	// jump to a JUMPDEST far behind filler
	for _, at := range []int{0x40, 0x21, 0x09, 0x7f} {
		c := []byte{0x60, byte(at), 0x56}
		for len(c) < at {
			c = append(c, 0x60) // PUSH1 filler: every second byte is push data
		}
		c = append(c, 0x5b)
		// deploy `at` as the one-byte runtime code
		c = append(c, 0x60, byte(at), 0x60, 0x00, 0x53, 0x60, 0x01, 0x60, 0x00, 0xf3)
		out = append(out, c)
	}
	// random straight-line prefix of pushes, then a jump over a data island containing 0x5b bytes
	for i := 0; i < 6; i++ {
		var c []byte
		for k, n := 0, r.Intn(6); k < n; k++ {
			c = append(c, 0x60, 0x5b, 0x50) // PUSH1 0x5b; POP
		}
		island := 1 + r.Intn(20)
		dest := len(c) + 3 + island
		c = append(c, 0x60, byte(dest), 0x56)
		for k := 0; k < island; k++ {
			c = append(c, []byte{0x5b, 0x60, 0x7f, 0xfe}[r.Intn(4)])
		}
		// the island may end in a PUSH opcode whose data would swallow the JUMPDEST: end it with a one-byte opcode
		c[len(c)-1] = 0xfe
		c = append(c, 0x5b, 0x60, byte(i+1), 0x60, 0x00, 0x53, 0x60, 0x01, 0x60, 0x00, 0xf3)
		out = append(out, c)
	}
	return out
}

// creationFactory builds a contract that CREATEs (or CREATE2s) from every given creation code in turn, copying it out
// of its own code, and returns the created addresses.
func creationFactory(create2 bool, inits ...[]byte) []byte {
	a := &asm{}
	// first pass to know the code length: the layout per creation code has a fixed size because offsets use PUSH2
	build := func(base int) []byte {
		a = &asm{}
		off := base
		for i, ic := range inits {
			a.op(opPUSH2, byte(len(ic)>>8), byte(len(ic)))
			a.op(opPUSH2, byte(off>>8), byte(off))
			a.op(opPUSH2, 0x02, 0x00)
			a.op(opCODECOPY)
			if create2 {
				a.op(opPUSH1, byte(i)) // salt
			}
			a.op(opPUSH2, byte(len(ic)>>8), byte(len(ic)))
			a.op(opPUSH2, 0x02, 0x00)
			a.op(opPUSH1, 0)
			if create2 {
				a.op(opCREATE2)
			} else {
				a.op(opCREATE)
			}
			a.op(opPUSH1, byte(i*32)).op(opMSTORE)
			off += len(ic)
		}
		a.ret(0, uint64(len(inits)*32))
		return a.done()
	}
	code := build(0)
	code = build(len(code))
	for _, ic := range inits {
		code = append(code, ic...)
	}
	return code
}

func wb(n uint64) []byte {
	w := wordU(n)
	return append([]byte{}, w[:]...)
}

func corpusCase(c *core.Case) {
	list := scenarios()
	if c.I >= len(list) {
		return
	}
	s := list[c.I]
	var ws []*World
	ws = s.worlds()
	c.Run.Count("corpus_scenarios", 1)
	for _, w := range ws {
		w.Note = s.name + ": " + w.Note
		k := judge(c, w, "corpus")
		c.Run.Count("corpus_worlds", 1)
		if k == nil {
			continue
		}
		// expectations taken from the property text (reference-free)
		if !k.OOG && w.Want != "" {
			c.Run.Count("corpus_expectations_checked", 1)
			bad := ""
			switch w.Want {
			case "ok", "fail":
				if k.Status != w.Want {
					bad = fmt.Sprintf("expected the execution to end with %q, it ended with %q (%s)", w.Want, k.Status, k.ErrText)
				}
			case "flag0", "flag1":
				want := int64(w.Want[4] - '0')
				if k.Status != "ok" || retWord(k, 0).Cmp(big.NewInt(want)) != 0 {
					bad = fmt.Sprintf("expected the inner call to push %d, the program ended %s and reports %v", want, k.Status, retWord(k, 0))
				}
			}
			if bad != "" {
				c.Violation("corpus:"+s.name, w.Note+": "+bad, map[string]interface{}{"case": w.witness(), "kvm": summary(k)})
			}
		}
		if s.expect == nil || (k.OOG && !s.evenIfOOG) {
			continue
		}
		if what := s.expect(w, k); what != "" {
			if os.Getenv("C10_DEBUG") != "" {
				fmt.Fprintln(os.Stderr, "CORPUS VIOLATION", s.name, what)
			}
			key := "corpus:" + s.name
			if s.name == "returndata-is-a-copy" && k.RDataAlias {
				key = keyRDataAlias
			}
			c.Violation(key, what, map[string]interface{}{"case": w.witness(), "kvm": summary(k)})
		}
	}
}

// recursionCase: randomised variants of the depth templates (kind, per-level work, gas).
func recursionCase(c *core.Case) {
	r := c.R
	gal := r.Intn(2) == 0
	var w *World
	if r.Intn(3) == 0 {
		w = miniWorld(gal, nil, createRecursionInit(r.Intn(2) == 0), hugeGas)
		w.Entry = "create"
		w.Note = "creation recursion"
	} else {
		kind := []byte{opCALL, opCALLCODE, opDELEGATECALL, opSTATICCALL}[r.Intn(4)]
		w = miniWorld(gal, recursionCode(kind, r.Intn(4)), make([]byte, 32), hugeGas)
		w.Note = "recursion by " + opName(kind)
		if r.Intn(3) == 0 {
			// start somewhere else than level 0 of the counter
			copy(w.Input[24:], []byte{0, 0, 0, 0, 0, 0, byte(r.Intn(4)), byte(r.Intn(256))})
		}
	}
	switch r.Intn(4) {
	case 0:
		w.Gas = hugeGas / 10
	case 1:
		w.Gas = uint64(r.Int63n(30000000)) // not enough for the full depth: ends by gas
	}
	k := judge(c, w, "recursion")
	if k != nil && !k.OOG && k.MaxDepth != 1025 {
		c.Violation("corpus:call-depth", fmt.Sprintf("recursion with ample gas stopped at tracer depth %d (limit 1025 = Yellow-Paper depth 1024)", k.MaxDepth), map[string]interface{}{"case": w.witness()})
	}
	if k != nil && k.MaxDepth == 1025 {
		c.Run.Count("recursions_reaching_depth_1024", 1)
	}
}
