package c10

import "fmt"

// Opcode numbers, names and stack effects transcribed from the Yellow Paper
// (appendix H) and the EIPs that added instructions up to Istanbul. The table is
// the harness' own: it is not derived from the code under test.

const (
	opSTOP           = 0x00
	opADD            = 0x01
	opMUL            = 0x02
	opSUB            = 0x03
	opDIV            = 0x04
	opSDIV           = 0x05
	opMOD            = 0x06
	opSMOD           = 0x07
	opADDMOD         = 0x08
	opMULMOD         = 0x09
	opEXP            = 0x0a
	opSIGNEXTEND     = 0x0b
	opLT             = 0x10
	opGT             = 0x11
	opSLT            = 0x12
	opSGT            = 0x13
	opEQ             = 0x14
	opISZERO         = 0x15
	opAND            = 0x16
	opOR             = 0x17
	opXOR            = 0x18
	opNOT            = 0x19
	opBYTE           = 0x1a
	opSHL            = 0x1b
	opSHR            = 0x1c
	opSAR            = 0x1d
	opSHA3           = 0x20
	opADDRESS        = 0x30
	opBALANCE        = 0x31
	opORIGIN         = 0x32
	opCALLER         = 0x33
	opCALLVALUE      = 0x34
	opCALLDATALOAD   = 0x35
	opCALLDATASIZE   = 0x36
	opCALLDATACOPY   = 0x37
	opCODESIZE       = 0x38
	opCODECOPY       = 0x39
	opGASPRICE       = 0x3a
	opEXTCODESIZE    = 0x3b
	opEXTCODECOPY    = 0x3c
	opRETURNDATASIZE = 0x3d
	opRETURNDATACOPY = 0x3e
	opEXTCODEHASH    = 0x3f
	opBLOCKHASH      = 0x40
	opCHAINID        = 0x46
	opSELFBALANCE    = 0x47
	opPOP            = 0x50
	opMLOAD          = 0x51
	opMSTORE         = 0x52
	opMSTORE8        = 0x53
	opSLOAD          = 0x54
	opSSTORE         = 0x55
	opJUMP           = 0x56
	opJUMPI          = 0x57
	opPC             = 0x58
	opMSIZE          = 0x59
	opGAS            = 0x5a
	opJUMPDEST       = 0x5b
	opPUSH1          = 0x60
	opPUSH2          = 0x61
	opPUSH32         = 0x7f
	opDUP1           = 0x80
	opSWAP1          = 0x90
	opLOG0           = 0xa0
	opLOG4           = 0xa4
	opCREATE         = 0xf0
	opCALL           = 0xf1
	opCALLCODE       = 0xf2
	opRETURN         = 0xf3
	opDELEGATECALL   = 0xf4
	opCREATE2        = 0xf5
	opSTATICCALL     = 0xfa
	opREVERT         = 0xfd
	opINVALID        = 0xfe
	opSELFDESTRUCT   = 0xff
)

type opInfo struct {
	name        string
	pops, pushs int
	defined     bool // defined in the Istanbul instruction set of Ethereum
}

var opTable [256]opInfo

func def(op int, name string, pops, pushs int) {
	opTable[op] = opInfo{name, pops, pushs, true}
}

func init() {
	def(0x00, "STOP", 0, 0)
	def(0x01, "ADD", 2, 1)
	def(0x02, "MUL", 2, 1)
	def(0x03, "SUB", 2, 1)
	def(0x04, "DIV", 2, 1)
	def(0x05, "SDIV", 2, 1)
	def(0x06, "MOD", 2, 1)
	def(0x07, "SMOD", 2, 1)
	def(0x08, "ADDMOD", 3, 1)
	def(0x09, "MULMOD", 3, 1)
	def(0x0a, "EXP", 2, 1)
	def(0x0b, "SIGNEXTEND", 2, 1)
	def(0x10, "LT", 2, 1)
	def(0x11, "GT", 2, 1)
	def(0x12, "SLT", 2, 1)
	def(0x13, "SGT", 2, 1)
	def(0x14, "EQ", 2, 1)
	def(0x15, "ISZERO", 1, 1)
	def(0x16, "AND", 2, 1)
	def(0x17, "OR", 2, 1)
	def(0x18, "XOR", 2, 1)
	def(0x19, "NOT", 1, 1)
	def(0x1a, "BYTE", 2, 1)
	def(0x1b, "SHL", 2, 1)
	def(0x1c, "SHR", 2, 1)
	def(0x1d, "SAR", 2, 1)
	def(0x20, "SHA3", 2, 1)
	def(0x30, "ADDRESS", 0, 1)
	def(0x31, "BALANCE", 1, 1)
	def(0x32, "ORIGIN", 0, 1)
	def(0x33, "CALLER", 0, 1)
	def(0x34, "CALLVALUE", 0, 1)
	def(0x35, "CALLDATALOAD", 1, 1)
	def(0x36, "CALLDATASIZE", 0, 1)
	def(0x37, "CALLDATACOPY", 3, 0)
	def(0x38, "CODESIZE", 0, 1)
	def(0x39, "CODECOPY", 3, 0)
	def(0x3a, "GASPRICE", 0, 1)
	def(0x3b, "EXTCODESIZE", 1, 1)
	def(0x3c, "EXTCODECOPY", 4, 0)
	def(0x3d, "RETURNDATASIZE", 0, 1)
	def(0x3e, "RETURNDATACOPY", 3, 0)
	def(0x3f, "EXTCODEHASH", 1, 1)
	def(0x40, "BLOCKHASH", 1, 1)
	def(0x41, "COINBASE", 0, 1)
	def(0x42, "TIMESTAMP", 0, 1)
	def(0x43, "NUMBER", 0, 1)
	def(0x44, "DIFFICULTY", 0, 1)
	def(0x45, "GASLIMIT", 0, 1)
	def(0x46, "CHAINID", 0, 1)
	def(0x47, "SELFBALANCE", 0, 1)
	def(0x50, "POP", 1, 0)
	def(0x51, "MLOAD", 1, 1)
	def(0x52, "MSTORE", 2, 0)
	def(0x53, "MSTORE8", 2, 0)
	def(0x54, "SLOAD", 1, 1)
	def(0x55, "SSTORE", 2, 0)
	def(0x56, "JUMP", 1, 0)
	def(0x57, "JUMPI", 2, 0)
	def(0x58, "PC", 0, 1)
	def(0x59, "MSIZE", 0, 1)
	def(0x5a, "GAS", 0, 1)
	def(0x5b, "JUMPDEST", 0, 0)
	for i := 0; i < 32; i++ {
		def(0x60+i, fmt.Sprintf("PUSH%d", i+1), 0, 1)
	}
	for i := 0; i < 16; i++ {
		def(0x80+i, fmt.Sprintf("DUP%d", i+1), i+1, i+2)
		def(0x90+i, fmt.Sprintf("SWAP%d", i+1), i+2, i+2)
	}
	for i := 0; i < 5; i++ {
		def(0xa0+i, fmt.Sprintf("LOG%d", i), i+2, 0)
	}
	def(0xf0, "CREATE", 3, 1)
	def(0xf1, "CALL", 7, 1)
	def(0xf2, "CALLCODE", 7, 1)
	def(0xf3, "RETURN", 2, 0)
	def(0xf4, "DELEGATECALL", 6, 1)
	def(0xf5, "CREATE2", 4, 1)
	def(0xfa, "STATICCALL", 6, 1)
	def(0xfd, "REVERT", 2, 0)
	def(0xff, "SELFDESTRUCT", 1, 0)
	// 0xfe INVALID is the designated invalid instruction: not "defined".
}

func opName(op byte) string {
	if opTable[op].defined {
		return opTable[op].name
	}
	return fmt.Sprintf("0x%02x", op)
}

// isBlockCtx: the block-context range 0x40-0x48, outside the property's instruction
// list and deliberately different in the KVM (GASLIMIT at 0x44, 0x45 invalid,
// CHAINID only after Galaxias).
func isBlockCtx(op byte) bool { return op >= 0x40 && op <= 0x48 }

func isCallFamily(op byte) bool {
	return op == opCALL || op == opCALLCODE || op == opDELEGATECALL || op == opSTATICCALL
}

// writesState: instructions that modify state and therefore must fail in a static
// context (EIP-214): SSTORE, LOG0-4, CREATE, CREATE2, SELFDESTRUCT (and CALL with
// a non-zero value, decided by the caller of this function).
func writesState(op byte) bool {
	return op == opSSTORE || (op >= opLOG0 && op <= opLOG4) || op == opCREATE || op == opCREATE2 || op == opSELFDESTRUCT
}
