package c10

import (
	"math/big"
	"math/rand"
)

// ---- fixed addresses of the generated worlds ----

var (
	aOrigin  = addrN(0xca11e4)
	aMain    = addrN(0xa000)
	aSecond  = addrN(0xb000)
	aEOA     = addrN(0xe0a0)
	aNone    = addrN(0xdead)
	aEcho    = addrN(0x1001) // returns its call data
	aRevert  = addrN(0x1002) // reverts with its call data
	aStore   = addrN(0x1003) // SSTORE(calldata[0], calldata[1]), LOG1, returns nothing
	aSuicide = addrN(0x1004) // SELFDESTRUCT(CALLER)
	aInvalid = addrN(0x1005) // SSTORE(1,1) then INVALID
	aBigRet  = addrN(0x1006) // RETURN(0, calldata[0]) (zero bytes)
	aStoRev  = addrN(0x1007) // SSTORE(0,7), LOG0, REVERT(0,32)
)

func helperCode() map[addr][]byte {
	m := map[addr][]byte{}
	a := &asm{}
	a.op(opCALLDATASIZE).pushU(0).pushU(0).op(opCALLDATACOPY).op(opCALLDATASIZE).pushU(0).op(opRETURN)
	m[aEcho] = a.done()
	a = &asm{}
	a.op(opCALLDATASIZE).pushU(0).pushU(0).op(opCALLDATACOPY).op(opCALLDATASIZE).pushU(0).op(opREVERT)
	m[aRevert] = a.done()
	a = &asm{}
	a.pushU(32).op(opCALLDATALOAD).pushU(0).op(opCALLDATALOAD).op(opSSTORE)
	a.pushU(0).op(opCALLDATALOAD).pushU(0).pushU(0).op(opLOG0 + 1).op(opSTOP)
	m[aStore] = a.done()
	a = &asm{}
	a.op(opCALLER, opSELFDESTRUCT)
	m[aSuicide] = a.done()
	a = &asm{}
	a.pushU(1).pushU(1).op(opSSTORE, opINVALID)
	m[aInvalid] = a.done()
	a = &asm{}
	a.pushU(0).op(opCALLDATALOAD).pushU(0).op(opRETURN)
	m[aBigRet] = a.done()
	a = &asm{}
	a.pushU(7).pushU(0).op(opSSTORE).pushU(0).pushU(0).op(opLOG0).pushU(0xabcd).pushU(0).op(opMSTORE).pushU(32).pushU(0).op(opREVERT)
	m[aStoRev] = a.done()
	return m
}

var helpers = helperCode()

// ---- interesting values ----

func pow2(n uint) *big.Int { return new(big.Int).Lsh(big.NewInt(1), n) }

var edgeValues = func() []*big.Int {
	v := []*big.Int{}
	for _, u := range []uint64{0, 1, 2, 3, 5, 7, 8, 15, 16, 30, 31, 32, 33, 63, 64, 127, 128, 255, 256, 257, 0xffff, 0x10000, 0xffffffff, 0x100000000} {
		v = append(v, new(big.Int).SetUint64(u))
	}
	v = append(v, new(big.Int).SetUint64(^uint64(0)), pow2(64), pow2(128), new(big.Int).Sub(pow2(128), big.NewInt(1)),
		pow2(255), new(big.Int).Sub(pow2(255), big.NewInt(1)), new(big.Int).Add(pow2(255), big.NewInt(1)),
		new(big.Int).Set(maxU256), new(big.Int).Sub(maxU256, big.NewInt(1)), new(big.Int).Sub(maxU256, big.NewInt(6)),
		new(big.Int).Sub(pow2(256), pow2(64)), new(big.Int).Lsh(big.NewInt(0xff), 248), new(big.Int).Lsh(big.NewInt(0x80), 120))
	return v
}()

// boundary offsets named by the design: 0, 31, 32, 2^16, 2^32, 2^64-1 (and beyond uint64)
var boundaryOffsets = []*big.Int{big.NewInt(0), big.NewInt(31), big.NewInt(32), big.NewInt(33), big.NewInt(1 << 16), big.NewInt(1 << 32),
	new(big.Int).SetUint64(^uint64(0)), new(big.Int).SetUint64(^uint64(0) - 31), pow2(64), new(big.Int).Set(maxU256)}

func randWord(r *rand.Rand) *big.Int {
	b := make([]byte, 32)
	r.Read(b)
	switch r.Intn(4) {
	case 0:
		for i := 0; i < 16+r.Intn(16); i++ {
			b[i] = 0
		}
	case 1:
		for i := 0; i < 16+r.Intn(16); i++ {
			b[i] = 0xff
		}
	}
	return new(big.Int).SetBytes(b)
}

func value(r *rand.Rand) *big.Int {
	switch r.Intn(10) {
	case 0, 1, 2, 3, 4:
		return edgeValues[r.Intn(len(edgeValues))]
	case 5, 6:
		return big.NewInt(int64(r.Intn(300)))
	case 7:
		// small negative
		return new(big.Int).Sub(pow2(256), big.NewInt(int64(1+r.Intn(300))))
	}
	return randWord(r)
}

// ---- generator environment ----

type genv struct {
	r       *rand.Rand
	self    addr
	targets []addr // addresses the program may call / inspect
	level   int    // 0: no calls into generated code, no creates of generated code
}

func (e *genv) anyAddr() addr {
	r := e.r
	switch r.Intn(12) {
	case 0:
		return addrN(uint64(1 + r.Intn(8))) // precompile
	case 1:
		return aNone
	case 2:
		return aEOA
	case 3:
		return e.self
	case 4:
		if r.Intn(8) == 0 {
			return addrN(9)
		}
		return aOrigin
	}
	return e.targets[r.Intn(len(e.targets))]
}

// ---- generator 1: uniformly random bytes ----

func genUniform(r *rand.Rand) []byte {
	n := 1 + r.Intn(96)
	switch r.Intn(10) {
	case 0:
		n = 1 + r.Intn(8)
	case 1:
		n = 1 + r.Intn(3000)
	}
	b := make([]byte, n)
	r.Read(b)
	return b
}

// ---- generator 2: opcode-weighted stream with plausible stack depth ----

var (
	binOps   = []byte{opADD, opMUL, opSUB, opDIV, opSDIV, opMOD, opSMOD, opEXP, opSIGNEXTEND, opLT, opGT, opSLT, opSGT, opEQ, opAND, opOR, opXOR, opBYTE, opSHL, opSHR, opSAR}
	unOps    = []byte{opISZERO, opNOT}
	terOps   = []byte{opADDMOD, opMULMOD}
	envPush  = []byte{opADDRESS, opORIGIN, opCALLER, opCALLVALUE, opCALLDATASIZE, opCODESIZE, opGASPRICE, opRETURNDATASIZE, opPC, opMSIZE}
	envAddr1 = []byte{opBALANCE, opEXTCODESIZE, opEXTCODEHASH}
)

func genWeighted(e *genv) []byte {
	r := e.r
	a := &asm{}
	h := 0
	n := 8 + r.Intn(110)
	var pendingLabels [][2]int // label, stack height at the jump
	var boundLabels []int
	smallOff := func() { a.pushU(uint64(r.Intn(8)) * 32) }
	off := func() {
		switch r.Intn(60) {
		case 0:
			a.push(boundaryOffsets[r.Intn(len(boundaryOffsets))])
		case 1, 2, 3, 4, 5:
			a.pushU(uint64(r.Intn(300)))
		case 6:
			a.pushU([]uint64{31, 32, 33, 1 << 16}[r.Intn(4)])
		default:
			smallOff()
		}
	}
	size := func() {
		switch r.Intn(60) {
		case 0:
			a.push(boundaryOffsets[r.Intn(len(boundaryOffsets))])
		case 1, 2, 3, 4:
			a.pushU(0)
		case 5:
			a.pushU([]uint64{31, 32, 33, 1 << 16}[r.Intn(4)])
		default:
			a.pushU(uint64(r.Intn(100)))
		}
	}
	plausible := func() bool { return r.Intn(8) != 0 }
	for i := 0; i < n; i++ {
		x := r.Intn(1000)
		switch {
		case x < 220:
			a.push(value(r))
			h++
		case x < 470:
			if h < 2 {
				a.push(value(r))
				h++
				continue
			}
			a.op(binOps[r.Intn(len(binOps))])
			h--
		case x < 510:
			if h < 1 {
				continue
			}
			a.op(unOps[r.Intn(len(unOps))])
		case x < 535:
			if h < 3 {
				continue
			}
			a.op(terOps[r.Intn(len(terOps))])
			h -= 2
		case x < 600: // memory
			switch r.Intn(3) {
			case 0:
				if plausible() {
					off()
				} else if h < 1 {
					continue
				} else {
					h--
				}
				a.op(opMLOAD)
				h++
			case 1:
				if h < 1 {
					a.push(value(r))
					h++
				}
				if plausible() {
					off()
					h++
				}
				if h < 2 {
					continue
				}
				a.op(opMSTORE)
				h -= 2
			case 2:
				if h < 1 {
					a.push(value(r))
					h++
				}
				if plausible() {
					off()
					h++
				}
				if h < 2 {
					continue
				}
				a.op(opMSTORE8)
				h -= 2
			}
		case x < 650: // storage
			if r.Intn(2) == 0 {
				a.pushU(uint64(r.Intn(6)))
				a.op(opSLOAD)
				h++
			} else {
				if h < 1 {
					a.push(value(r))
					h++
				}
				a.pushU(uint64(r.Intn(6)))
				a.op(opSSTORE)
				h--
			}
		case x < 700: // environment
			switch r.Intn(4) {
			case 0, 1:
				a.op(envPush[r.Intn(len(envPush))])
				h++
			case 2:
				a.pushAddr(e.anyAddr())
				a.op(envAddr1[r.Intn(len(envAddr1))])
				h++
			case 3:
				off()
				a.op(opCALLDATALOAD)
				h++
			}
		case x < 740: // copies
			switch r.Intn(4) {
			case 0:
				size()
				off()
				off()
				a.op(opCALLDATACOPY)
			case 1:
				size()
				off()
				off()
				a.op(opCODECOPY)
			case 2:
				if r.Intn(3) != 0 {
					a.op(opRETURNDATASIZE).pushU(0)
				} else {
					size()
					off()
				}
				off()
				a.op(opRETURNDATACOPY)
			case 3:
				size()
				off()
				off()
				a.pushAddr(e.anyAddr())
				a.op(opEXTCODECOPY)
			}
		case x < 760:
			size()
			off()
			a.op(opSHA3)
			h++
		case x < 840: // dup / swap
			if h < 1 {
				continue
			}
			if r.Intn(2) == 0 {
				k := 1 + r.Intn(min(h, 16))
				a.op(byte(opDUP1 + k - 1))
				h++
			} else if h >= 2 {
				k := 1 + r.Intn(min(h-1, 16))
				a.op(byte(opSWAP1 + k - 1))
			}
		case x < 870:
			if h < 1 {
				continue
			}
			a.op(opPOP)
			h--
		case x < 915: // control flow
			switch r.Intn(5) {
			case 0:
				l := a.newLabel()
				a.bind(l)
				boundLabels = append(boundLabels, l)
			case 1, 2: // forward conditional jump
				if h < 1 {
					a.push(value(r))
					h++
				}
				l := a.newLabel()
				a.pushLabel(l).op(opJUMPI)
				h--
				pendingLabels = append(pendingLabels, [2]int{l, h})
			case 3: // forward jump
				l := a.newLabel()
				a.pushLabel(l).op(opJUMP)
				pendingLabels = append(pendingLabels, [2]int{l, h})
			case 4: // backward conditional jump (a loop that usually ends by gas or by the condition)
				if len(boundLabels) == 0 || h < 1 {
					continue
				}
				a.pushLabel(boundLabels[r.Intn(len(boundLabels))]).op(opJUMPI)
				h--
			}
			if len(pendingLabels) > 0 && r.Intn(2) == 0 {
				l := pendingLabels[0]
				pendingLabels = pendingLabels[1:]
				a.bind(l[0])
				if l[1] < h {
					h = l[1] // the shallower of the two ways to get here
				}
				boundLabels = append(boundLabels, l[0])
			}
		case x < 935: // logs
			k := r.Intn(5)
			for j := 0; j < k; j++ {
				a.push(value(r))
			}
			size()
			off()
			a.op(byte(opLOG0 + k))
		case x < 965: // calls
			kind := []byte{opCALL, opCALLCODE, opDELEGATECALL, opSTATICCALL}[r.Intn(4)]
			size()
			off()
			size()
			off()
			if kind == opCALL || kind == opCALLCODE {
				if r.Intn(3) == 0 {
					a.pushU(uint64(r.Intn(1000)))
				} else {
					a.pushU(0)
				}
			}
			a.pushAddr(e.anyAddr())
			if r.Intn(4) == 0 {
				a.push(value(r))
			} else {
				a.op(opGAS)
			}
			a.op(kind)
			h++
		case x < 972: // create of a tiny init code held in memory
			a.push(new(big.Int).SetBytes([]byte{0x60, byte(r.Intn(3)), 0x60, 0x00, 0xf3})) // PUSH1 n PUSH1 0 RETURN
			a.pushU(0).op(opMSTORE)
			if r.Intn(2) == 0 {
				a.pushU(5).pushU(27).pushU(uint64(r.Intn(3))).op(opCREATE)
			} else {
				a.pushU(uint64(r.Intn(3))).pushU(5).pushU(27).pushU(0).op(opCREATE2)
			}
			h++
		case x < 977:
			a.op(byte(0x40 + r.Intn(9)))
			h++
		case x < 982:
			a.op(opGAS)
			h++
		case x < 986:
			a.op(byte(r.Intn(256)))
		case x < 992:
			a.push(value(r))
			h++
		default: // terminators
			switch r.Intn(6) {
			case 0:
				a.op(opSTOP)
			case 1:
				size()
				off()
				a.op(opRETURN)
			case 2:
				size()
				off()
				a.op(opREVERT)
			case 3:
				a.op(opINVALID)
			case 4:
				a.pushAddr(e.anyAddr()).op(opSELFDESTRUCT)
			case 5:
				// a jump into push data: the destination byte is 0x5b but lies inside a PUSH
				a.jumpIntoPushData()
				h++
			}
		}
		if h < 0 {
			h = 0
		}
		if h > 1000 {
			a.op(opPOP)
			h--
		}
	}
	for _, l := range pendingLabels {
		a.bind(l[0])
		if l[1] < h {
			h = l[1]
		}
	}
	// epilogue: expose the top of the stack and the first memory words
	k := min(h, 3)
	for j := 0; j < k; j++ {
		a.pushU(uint64(0x100 + 32*j)).op(opMSTORE)
	}
	a.ret(0, 0x160)
	return a.done()
}

func min(a, b int) int {
	if a < b {
		return a
	}
	return b
}

// ---- generator 3: grammar-generated well-formed programs ----

type gram struct {
	e      *genv
	r      *rand.Rand
	a      *asm
	budget int
	loops  int
	called bool // a call has been made (RETURNDATA* meaningful)
}

func (g *gram) slot() uint64 { return uint64(g.r.Intn(8)) * 32 }

func (g *gram) leaf() {
	r := g.r
	switch r.Intn(20) {
	case 0, 1:
		g.a.pushU(uint64(r.Intn(3)) * 32).op(opCALLDATALOAD)
	case 2:
		g.a.op(envPush[r.Intn(len(envPush))])
	case 3:
		g.a.pushU(g.slot()).op(opMLOAD)
	case 4:
		g.a.pushU(uint64(r.Intn(6))).op(opSLOAD)
	case 5:
		g.a.pushAddr(g.e.anyAddr())
	default:
		g.a.push(value(r))
	}
}

var shiftAmounts = []uint64{0, 1, 7, 8, 31, 32, 127, 128, 254, 255, 256, 257, 1 << 16}
var byteIndexes = []uint64{0, 1, 15, 16, 30, 31, 32, 33, 255, 256}

func (g *gram) expr(d int) {
	r := g.r
	if d <= 0 || r.Intn(4) == 0 {
		g.leaf()
		return
	}
	switch x := r.Intn(20); {
	case x < 9:
		g.expr(d - 1)
		g.expr(d - 1)
		g.a.op(binOps[r.Intn(len(binOps))])
	case x < 10:
		g.expr(d - 1)
		g.a.op(unOps[r.Intn(len(unOps))])
	case x < 12:
		g.expr(d - 1)
		g.expr(d - 1)
		g.expr(d - 1)
		g.a.op(terOps[r.Intn(len(terOps))])
	case x < 14: // BYTE / SIGNEXTEND with boundary indexes (index is the first operand = top of stack)
		g.expr(d - 1)
		if r.Intn(6) == 0 {
			g.a.push(value(r))
		} else {
			g.a.pushU(byteIndexes[r.Intn(len(byteIndexes))])
		}
		g.a.op([]byte{opBYTE, opSIGNEXTEND}[r.Intn(2)])
	case x < 16: // shifts with boundary amounts (amount is the first operand)
		g.expr(d - 1)
		if r.Intn(6) == 0 {
			g.a.push(value(r))
		} else {
			g.a.pushU(shiftAmounts[r.Intn(len(shiftAmounts))])
		}
		g.a.op([]byte{opSHL, opSHR, opSAR}[r.Intn(3)])
	case x < 17: // signed arithmetic on sign edges
		ev := []*big.Int{two255, maxU256, big.NewInt(1), big.NewInt(0), new(big.Int).Sub(maxU256, big.NewInt(1)), new(big.Int).Sub(two255, big.NewInt(1)), big.NewInt(2), new(big.Int).Add(two255, big.NewInt(1))}
		g.a.push(ev[r.Intn(len(ev))])
		g.a.push(ev[r.Intn(len(ev))])
		g.a.op([]byte{opSDIV, opSMOD, opSLT, opSGT, opSAR, opSIGNEXTEND, opDIV, opMOD}[r.Intn(8)])
	case x < 18:
		if r.Intn(4) == 0 {
			g.a.push(boundaryOffsets[r.Intn(len(boundaryOffsets))])
		} else {
			g.a.pushU(uint64(r.Intn(70)))
		}
		g.a.op(opCALLDATALOAD)
	case x < 19:
		g.a.pushU(uint64(r.Intn(70))).pushU(uint64(r.Intn(100))).op(opSHA3)
	default:
		g.a.pushAddr(g.e.anyAddr()).op(envAddr1[r.Intn(len(envAddr1))])
	}
}

func (g *gram) memOff() {
	r := g.r
	switch r.Intn(48) {
	case 0:
		g.a.push(boundaryOffsets[r.Intn(len(boundaryOffsets))])
	case 1, 2:
		g.a.pushU([]uint64{31, 32, 33, 1 << 16}[r.Intn(4)])
	case 3, 4, 5:
		g.a.pushU(uint64(r.Intn(512)))
	default:
		g.a.pushU(g.slot())
	}
}

func (g *gram) srcOff() {
	r := g.r
	if r.Intn(4) == 0 {
		g.a.push(boundaryOffsets[r.Intn(len(boundaryOffsets))])
	} else {
		g.a.pushU(uint64(r.Intn(80)))
	}
}

func (g *gram) length() {
	r := g.r
	switch r.Intn(48) {
	case 0:
		g.a.push(boundaryOffsets[r.Intn(len(boundaryOffsets))])
	case 1, 2:
		g.a.pushU([]uint64{31, 32, 33, 1 << 16}[r.Intn(4)])
	case 3, 4, 5, 6:
		g.a.pushU(0)
	default:
		g.a.pushU(uint64(r.Intn(97)))
	}
}

// callStmt emits a call and stores the success flag (and sometimes the return data) in memory.
func (g *gram) callStmt(target func(), kind byte) {
	r, a := g.r, g.a
	// input: one or two words at 0x200
	inSize := []uint64{0, 4, 32, 64, 36, 100}[r.Intn(6)]
	if inSize > 0 {
		g.expr(1)
		a.pushU(0x200).op(opMSTORE)
		if inSize > 32 {
			g.expr(1)
			a.pushU(0x220).op(opMSTORE)
		}
	}
	outSize := []uint64{0, 32, 64, 31}[r.Intn(4)]
	a.pushU(outSize).pushU(0x280).pushU(inSize).pushU(0x200)
	if kind == opCALL || kind == opCALLCODE {
		switch r.Intn(10) {
		case 0, 1, 2:
			a.pushU(uint64(1 + r.Intn(1000)))
		case 3:
			a.push(value(r)) // often more than the balance
		default:
			a.pushU(0)
		}
	}
	target()
	switch r.Intn(10) {
	case 0:
		a.push(maxU256)
	case 1:
		a.pushU([]uint64{0, 1, 700, 2300, 5000, 30000}[r.Intn(6)])
	case 2:
		a.pushU(200000)
	default:
		a.op(opGAS)
	}
	a.op(kind)
	a.pushU(g.slot()).op(opMSTORE) // success flag
	g.called = true
	if r.Intn(2) == 0 {
		a.op(opRETURNDATASIZE).pushU(g.slot()).op(opMSTORE)
	}
	if r.Intn(2) == 0 {
		g.returnDataCopy()
	}
}

func (g *gram) returnDataCopy() {
	r, a := g.r, g.a
	x := r.Intn(24)
	if x >= 8 {
		x = []int{0, 0, 2, 6}[x%4] // mostly the variants that succeed
	}
	switch x {
	case 0: // exactly everything
		a.op(opRETURNDATASIZE).pushU(0).pushU(0x2c0).op(opRETURNDATACOPY)
	case 1: // one byte beyond: must fail
		a.op(opRETURNDATASIZE).pushU(1).pushU(0x2c0).op(opRETURNDATACOPY)
	case 2: // zero bytes at the end: allowed
		a.pushU(0).op(opRETURNDATASIZE).pushU(0x2c0).op(opRETURNDATACOPY)
	case 3: // zero bytes one past the end: must fail
		a.pushU(0).op(opRETURNDATASIZE).pushU(1).op(opADD).pushU(0x2c0).op(opRETURNDATACOPY)
	case 4: // offset+length overflows 2^64 / 2^256
		a.push(boundaryOffsets[r.Intn(len(boundaryOffsets))]).push(boundaryOffsets[r.Intn(len(boundaryOffsets))]).pushU(0x2c0).op(opRETURNDATACOPY)
	case 5: // tail
		a.pushU(1).op(opRETURNDATASIZE).op(opSUB).pushU(1) // len = size-1 ... (only sensible when size>=1; otherwise wraps and fails)
		a.pushU(0x2c0).op(opRETURNDATACOPY)
	case 6: // a guarded prefix: min(size, 32) bytes from offset 0
		l := a.newLabel()
		a.pushU(32).op(opRETURNDATASIZE, opLT).pushLabel(l).op(opJUMPI)
		a.pushU(32).pushU(0).pushU(0x2c0).op(opRETURNDATACOPY)
		a.bind(l)
	default:
		g.length()
		g.srcOff()
		a.pushU(0x2c0).op(opRETURNDATACOPY)
	}
}

// initCode builds creation code that deploys the given runtime code, with variants.
func initCode(r *rand.Rand, runtime []byte, e *genv) []byte {
	a := &asm{}
	if r.Intn(3) == 0 {
		a.push(value(r)).pushU(uint64(r.Intn(4))).op(opSSTORE)
	}
	if r.Intn(4) == 0 {
		a.push(value(r)).pushU(0).pushU(0).op(opLOG0 + 1)
	}
	switch r.Intn(14) {
	case 0:
		a.revert(0, uint64(r.Intn(64)))
	case 1:
		a.op(opINVALID)
	case 2:
		a.ret(0, 0) // empty code
	case 3:
		a.pushAddr(e.anyAddr()).op(opSELFDESTRUCT)
	case 4:
		a.ret(0, []uint64{24576, 24577, 39231, 39232}[r.Intn(4)]) // around the code size limits
	default:
		id := a.blob(runtime)
		a.pushU(uint64(len(runtime))).pushBlobOffset(id, 0).pushU(0).op(opCODECOPY)
		a.ret(0, uint64(len(runtime)))
	}
	return a.done()
}

func smallRuntime(r *rand.Rand, e *genv) []byte {
	switch r.Intn(5) {
	case 0:
		return helpers[[]addr{aEcho, aRevert, aStore, aSuicide, aInvalid}[r.Intn(5)]]
	case 1:
		return genUniform(r)
	}
	sub := &genv{r: r, self: aNone, targets: e.targets, level: 0}
	return genGrammar(sub, 4+r.Intn(8))
}

func (g *gram) createStmt() {
	r, a := g.r, g.a
	init := initCode(r, smallRuntime(r, g.e), g.e)
	id := a.blob(init)
	a.pushU(uint64(len(init))).pushBlobOffset(id, 0).pushU(0x300).op(opCODECOPY)
	val := uint64(0)
	if r.Intn(4) == 0 {
		val = uint64(r.Intn(100))
	}
	if r.Intn(2) == 0 {
		a.pushU(uint64(len(init))).pushU(0x300).pushU(val).op(opCREATE)
	} else {
		a.pushU(uint64(r.Intn(3))).pushU(uint64(len(init))).pushU(0x300).pushU(val).op(opCREATE2)
	}
	// stack: new address (or 0)
	a.op(opDUP1).pushU(g.slot()).op(opMSTORE)
	if r.Intn(2) == 0 {
		a.op(opDUP1, opEXTCODESIZE).pushU(g.slot()).op(opMSTORE)
	}
	if r.Intn(3) == 0 {
		a.op(opDUP1, opEXTCODEHASH).pushU(g.slot()).op(opMSTORE)
	}
	if r.Intn(2) == 0 {
		// call the new contract (address is on the stack)
		kind := []byte{opCALL, opCALLCODE, opDELEGATECALL, opSTATICCALL}[r.Intn(4)]
		// keep the address: DUP it as the call target via a small shuffle
		a.pushU(32).pushU(0x280).pushU(32).pushU(0x200)
		if kind == opCALL || kind == opCALLCODE {
			a.pushU(0)
			a.op(opDUP1 + 5) // address
		} else {
			a.op(opDUP1 + 4)
		}
		a.op(opGAS).op(kind)
		a.pushU(g.slot()).op(opMSTORE)
		g.called = true
	}
	a.op(opPOP)
}

func (g *gram) stmt(depth int) {
	r, a := g.r, g.a
	g.budget--
	x := r.Intn(100)
	switch {
	case x < 22:
		g.expr(3)
		a.pushU(g.slot()).op(opMSTORE)
	case x < 26:
		g.expr(2)
		g.memOff()
		a.op([]byte{opMSTORE, opMSTORE8, opMSTORE8}[r.Intn(3)])
	case x < 36:
		g.expr(2)
		if r.Intn(8) == 0 {
			a.push(value(r))
		} else {
			a.pushU(uint64(r.Intn(6)))
		}
		a.op(opSSTORE)
	case x < 41:
		k := r.Intn(5)
		for j := 0; j < k; j++ {
			g.expr(1)
		}
		g.length()
		g.memOff()
		a.op(byte(opLOG0 + k))
	case x < 50: // copies
		g.length()
		g.srcOff()
		g.memOff()
		switch r.Intn(3) {
		case 0:
			a.op(opCALLDATACOPY)
		case 1:
			a.op(opCODECOPY)
		case 2:
			a.pushAddr(g.e.anyAddr()).op(opEXTCODECOPY)
		}
	case x < 54:
		if g.called {
			g.returnDataCopy()
		} else {
			a.op(opRETURNDATASIZE).pushU(g.slot()).op(opMSTORE)
		}
	case x < 62 && depth < 3: // if
		g.expr(2)
		l := a.newLabel()
		a.op(opISZERO).pushLabel(l).op(opJUMPI)
		for i := 0; i < 1+r.Intn(3) && g.budget > 0; i++ {
			g.stmt(depth + 1)
		}
		if r.Intn(12) == 0 {
			g.terminator()
		}
		a.bind(l)
	case x < 68 && depth < 2 && g.loops < 2: // counted loop, counter on the stack
		g.loops++
		n := uint64(1 + r.Intn(6))
		if r.Intn(25) == 0 {
			n = uint64(50 + r.Intn(250))
		}
		a.pushU(n)
		l := a.newLabel()
		a.bind(l)
		for i := 0; i < 1+r.Intn(3) && g.budget > 0; i++ {
			if r.Intn(3) == 0 {
				// use the counter: mem[slot] = f(counter)
				a.op(opDUP1)
				g.expr(1)
				a.op(binOps[r.Intn(len(binOps))])
				a.pushU(g.slot()).op(opMSTORE)
			} else {
				g.stmt(depth + 1)
			}
		}
		a.pushU(1).op(opSWAP1, opSUB, opDUP1).pushLabel(l).op(opJUMPI)
		a.op(opPOP)
		g.loops--
	case x < 84 && g.e.level > 0: // call
		kind := []byte{opCALL, opCALL, opCALLCODE, opDELEGATECALL, opSTATICCALL, opSTATICCALL}[r.Intn(6)]
		if r.Intn(10) == 0 {
			// self call, guarded so that the recursion has depth one
			l := a.newLabel()
			a.op(opCALLDATASIZE).pushLabel(l).op(opJUMPI)
			save := g.called
			g.callStmtFixedInput(kind)
			g.called = save
			a.bind(l)
		} else {
			t := g.e.anyAddr()
			if t == g.e.self {
				t = aEcho
			}
			g.callStmt(func() { a.pushAddr(t) }, kind)
		}
	case x < 89 && g.e.level > 0:
		g.createStmt()
	case x < 93: // balanced stack shuffles
		k := 2 + r.Intn(15)
		for j := 0; j < k; j++ {
			g.leaf()
		}
		for j := 0; j < 1+r.Intn(4); j++ {
			if r.Intn(2) == 0 {
				a.op(byte(opSWAP1 + r.Intn(k-1)))
			} else {
				a.op(byte(opDUP1+r.Intn(k)), opPOP)
			}
		}
		a.pushU(g.slot()).op(opMSTORE)
		for j := 0; j < k-1; j++ {
			a.op(opPOP)
		}
	case x < 95:
		a.op(opMSIZE).pushU(g.slot()).op(opMSTORE)
	case x < 97:
		a.op(opPC).pushU(g.slot()).op(opMSTORE)
	default:
		g.expr(2)
		a.op(opPOP)
	}
}

// callStmtFixedInput: call self with 4 bytes of input.
func (g *gram) callStmtFixedInput(kind byte) {
	a := g.a
	a.pushU(32).pushU(0x280).pushU(4).pushU(0x200)
	if kind == opCALL || kind == opCALLCODE {
		a.pushU(0)
	}
	a.op(opADDRESS, opGAS).op(kind)
	a.pushU(g.slot()).op(opMSTORE)
}

func (g *gram) terminator() {
	r, a := g.r, g.a
	switch r.Intn(12) {
	case 0:
		a.op(opSTOP)
	case 1:
		a.op(opINVALID)
	case 2:
		a.pushAddr(g.e.anyAddr()).op(opSELFDESTRUCT)
	case 3, 4:
		g.length()
		g.memOff()
		a.op(opREVERT)
	case 5: // jump into push data
		a.jumpIntoPushData()
	case 6: // large return ranges
		a.push(big.NewInt(int64([]int{1 << 16, 1 << 20, 1 << 32}[r.Intn(3)]))).pushU(0).op(opRETURN)
	case 7:
		a.op(opMSIZE).pushU(0).op(opRETURN)
	default:
		a.ret(0, 0x300)
	}
}

func genGrammar(e *genv, stmts int) []byte {
	g := &gram{e: e, r: e.r, a: &asm{}, budget: stmts}
	for g.budget > 0 {
		g.stmt(0)
	}
	if e.r.Intn(5) == 0 {
		g.terminator()
	}
	g.a.ret(0, 0x300)
	return g.a.done()
}

// ---- worlds ----

func gasLimit(r *rand.Rand) uint64 {
	switch r.Intn(40) {
	case 0:
		return 0
	case 1:
		return uint64(r.Intn(100))
	case 2, 3:
		return uint64(r.Intn(30000))
	case 4, 5, 6:
		return 30000000
	case 7, 8, 9:
		return uint64(r.Int63n(30000001))
	case 10, 11, 12, 13:
		return 100000 + uint64(r.Intn(400000))
	}
	return 2000000 + uint64(r.Intn(6000000))
}

func callData(r *rand.Rand) []byte {
	var n int
	switch r.Intn(8) {
	case 0:
		n = 0
	case 1:
		n = r.Intn(8)
	case 2:
		n = 1000 + r.Intn(4000)
	default:
		n = 4 + 32*r.Intn(4) + r.Intn(2)*r.Intn(31)
	}
	b := make([]byte, n)
	r.Read(b)
	// make the first words small numbers now and then (offsets, counters)
	if n >= 32 && r.Intn(2) == 0 {
		for i := 0; i < 31; i++ {
			b[i] = 0
		}
	}
	if n >= 64 && r.Intn(2) == 0 {
		for i := 32; i < 62; i++ {
			b[i] = 0
		}
	}
	return b
}

func storage(r *rand.Rand) [][2]word {
	var s [][2]word
	for i := 0; i < r.Intn(4); i++ {
		s = append(s, [2]word{wordU(uint64(r.Intn(6))), wordBig(value(r))})
	}
	// no duplicate keys
	seen := map[word]bool{}
	var o [][2]word
	for _, kv := range s {
		if !seen[kv[0]] && kv[1] != (word{}) {
			seen[kv[0]] = true
			o = append(o, kv)
		}
	}
	return o
}

func baseWorld(r *rand.Rand) *World {
	w := &World{Galaxias: r.Intn(2) == 0, Time: 1600000000 + uint64(r.Intn(1000000)), BlockGas: 20000000 + uint64(r.Intn(1000)), Coinbase: addrN(0xc01b),
		GasPrice: uint64(1 + r.Intn(5)), Origin: aOrigin, Entry: "call", To: aMain}
	if w.Galaxias {
		w.Height = galaxiasAt + uint64(r.Intn(2))*uint64(r.Intn(100000))
	} else {
		w.Height = galaxiasAt - 1 - uint64(r.Intn(2))*uint64(r.Intn(galaxiasAt-2))
	}
	w.Accts = append(w.Accts, Acct{Addr: aOrigin, Balance: 1000000000000000000, Nonce: uint64(r.Intn(3))})
	w.Accts = append(w.Accts, Acct{Addr: aEOA, Balance: uint64(r.Intn(1000))})
	for _, h := range []addr{aEcho, aRevert, aStore, aSuicide, aInvalid, aBigRet, aStoRev} {
		w.Accts = append(w.Accts, Acct{Addr: h, Code: helpers[h], Nonce: 1, Balance: uint64(r.Intn(2)) * 5})
	}
	return w
}

var helperTargets = []addr{aEcho, aRevert, aStore, aSuicide, aInvalid, aBigRet, aStoRev}

// genWorld builds a random case around a program of the given generator.
func genWorld(r *rand.Rand, gen string) *World {
	w := baseWorld(r)
	mk := func(self addr, targets []addr, level int, which string) []byte {
		e := &genv{r: r, self: self, targets: targets, level: level}
		switch which {
		case "uniform":
			return genUniform(r)
		case "weighted":
			return genWeighted(e)
		}
		return genGrammar(e, 4+r.Intn(14))
	}
	second := mk(aSecond, helperTargets, 1, []string{"uniform", "weighted", "grammar", "grammar"}[r.Intn(4)])
	main := mk(aMain, append([]addr{aSecond, aSecond, aSecond}, helperTargets...), 2, gen)
	bal := func() uint64 {
		if r.Intn(2) == 0 {
			return 0
		}
		return uint64(r.Intn(100000))
	}
	w.Accts = append(w.Accts, Acct{Addr: aSecond, Code: second, Nonce: 1, Balance: bal(), Storage: storage(r)})
	w.Gas = gasLimit(r)
	w.Input = callData(r)
	if r.Intn(5) == 0 {
		w.Value = uint64(r.Intn(1000))
	}
	switch x := r.Intn(20); {
	case x < 2:
		w.Entry = "static"
		w.Value = 0
		w.Accts = append(w.Accts, Acct{Addr: aMain, Code: main, Nonce: 1, Balance: bal(), Storage: storage(r)})
	case x < 4:
		w.Entry = "create"
		if r.Intn(2) == 0 {
			w.Input = main // the program itself runs as creation code
		} else {
			w.Input = initCode(r, main, &genv{r: r, self: aNone, targets: helperTargets})
		}
	default:
		w.Accts = append(w.Accts, Acct{Addr: aMain, Code: main, Nonce: 1, Balance: bal(), Storage: storage(r)})
	}
	return w
}
