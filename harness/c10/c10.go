// Package c10 decides C10: the KVM executes bytecode with reference EVM semantics
// and never crashes. Generated programs (uniform bytes, opcode-weighted streams,
// grammar-generated well-formed programs, plus a fixed boundary corpus) run on the
// real kvm.KVM over go-kardia's StateDB, twice, and on go-ethereum v1.9.15 core/vm
// over its own StateDB; everything runs in child processes.
package c10

import (
	"fmt"
	"os"

	"verifharness/core"
)

func init() { core.Register("C10", Main) }

func randomGroup(gen string) func(c *core.Case) {
	return func(c *core.Case) {
		w := genWorld(c.R, gen)
		k := judge(c, w, gen)
		if k != nil && c.I < 2 {
			c.Run.Sample(map[string]interface{}{"generator": gen, "case": c.I, "world": w.witness(), "kvm": summary(k)})
		}
	}
}

func Main() {
	r := core.Start("C10", "exploration")
	r.SetRule("case = pre-state (origin, two generated contracts, 7 helper contracts, EOA) + message (call / static call / creation, call data, value, gas 0..30M; 1e14 for the depth templates) + instruction set (pre-/post-Galaxias); " +
		"run twice on kvm.KVM (go-kardia StateDB behind a recording wrapper, tracer attached) and once on go-ethereum v1.9.15 core/vm (Istanbul); " +
		"non-trivial = the KVM executed >= 5 instructions (each passed stack validation and gas); distinct by hash of (codes, input, entry, gas, value, instruction set)")
	r.Assume("reference = go-ethereum v1.9.15 core/vm on its own StateDB, Istanbul rules for both KVM tables (the sweep shows both tables equal Istanbul outside 0x40-0x48), with the upstream repair of CVE-2020-26241 applied to the reference (identity precompile returns a copy; v1.9.15 itself returns the caller's memory)")
	r.Assume("gas parity is not compared: the KVM has its own gas schedule (Frontier-era constants, constant gas charged twice on dynamic-gas instructions before Galaxias, CREATE2 forwards all gas); any case in which a frame, a precompile or a code deposit ran out of gas on either side takes part only in the crash / gas-sanity / determinism / structural checks")
	r.Assume("block-context opcodes 0x40-0x48 are excluded from the semantic comparison (KVM: GASLIMIT at 0x44, 0x45 invalid, CHAINID only after Galaxias); a case executing one of them is not compared")
	r.Assume("also not compared: cases where a GAS result is not immediately consumed by a call or POP; calls to address 9 (blake2f exists only in the reference); creations returning more than 24576 bytes (the KVM's code size limit is 39231, EIP-170's is 24576); ecrecover (0x01) inputs with s above half the group order (the KVM returns nothing, Ethereum the signer: precompile internals are outside the property's instruction list; counted as observed:ecrecover_high_s_returns_empty)")
	r.Assume("a pre-state is set on a fresh StateDB without committing it; account deletion at the end of a transaction (Finalise) is not part of the comparison")
	if !r.IsChild() && os.Getenv("VERIF_ONLY_CASE") == "" {
		func() {
			defer func() {
				if e := recover(); e != nil {
					r.Inconclusive(fmt.Sprintf("opcode table sweep panicked in the parent process: %v", e))
				}
			}()
			r.Extra("opcode_table_sweep", sweepTables())
		}()
	}
	// GOMEMLIMIT: a child starts with about 2 GB of address space reserved by the Go runtime, so
	// under the 4 GB ulimit the heap may grow to about 2 GB. Programs that copy megabytes in a
	// loop produce garbage faster than a CPU-starved collector removes it (seen once in a
	// thorough run on an overloaded machine: fatal "out of memory" in a trivial case, heap_sys
	// 2.1 GB, while a replay of the same child range peaks at 99 MB). The soft limit makes the
	// collector work harder instead of letting the heap reach the ulimit.
	opts := core.Opts{Procs: 16, HangIsViolation: true, StallSec: 60, MemMB: 4096, Env: []string{"GOMEMLIMIT=1200MiB"}}
	r.Cases("corpus", len(scenarios()), opts, corpusCase)
	r.Cases("sweep", 256, opts, sweepCase)
	r.Cases("recursion", r.N(16, 400), opts, recursionCase)
	r.Cases("uniform", r.N(5000, 1500000), opts, randomGroup("uniform"))
	r.Cases("weighted", r.N(7000, 1200000), opts, randomGroup("weighted"))
	r.Cases("grammar", r.N(8000, 2300000), opts, randomGroup("grammar"))
	if !r.IsChild() && os.Getenv("VERIF_ONLY_CASE") == "" {
		share := map[string]interface{}{}
		for _, g := range []string{"uniform", "weighted", "grammar"} {
			n := r.Counter("programs:" + g)
			if n > 0 {
				share[g] = map[string]interface{}{
					"programs":                             n,
					"share_5plus_instructions":             float64(r.Counter("programs_5plus_instructions:"+g)) / float64(n),
					"share_5plus_instructions_and_success": float64(r.Counter("programs_5plus_instructions_and_success:"+g)) / float64(n),
					"share_compared_5plus_and_success":     float64(r.Counter("compared_5plus_and_success:"+g)) / float64(n),
				}
			}
		}
		r.Extra("program_shares", share)
	}
	r.Floor("corpus_scenarios", 10)
	r.Floor("corpus_expectations_checked", 400)
	r.Floor("sweep_opcodes", 256)
	r.Floor("recursions_reaching_depth_1024", 4)
	r.Floor("compared_with_reference", 50000)
	r.Floor("compared_v1", 5000)
	r.Floor("compared_v2", 5000)
	r.Floor("programs_with_subcalls", 2000)
	r.Floor("compared_5plus_and_success:grammar", 1000)
	r.Floor("compared_5plus_and_success:weighted", 500)
	r.Finish()
}
