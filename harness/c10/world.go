package c10

import (
	"encoding/hex"
	"fmt"
	"math/big"
	"sort"
)

type addr [20]byte
type word [32]byte

func (a addr) String() string { return hex.EncodeToString(a[:]) }
func (w word) String() string { return hex.EncodeToString(w[:]) }

func addrN(n uint64) addr {
	var a addr
	for i := 0; i < 8; i++ {
		a[19-i] = byte(n >> (8 * uint(i)))
	}
	return a
}

func wordBig(b *big.Int) word {
	var w word
	bs := new(big.Int).And(b, maxU256).Bytes()
	copy(w[32-len(bs):], bs)
	return w
}

func wordU(n uint64) word { return wordBig(new(big.Int).SetUint64(n)) }

var (
	maxU256 = new(big.Int).Sub(new(big.Int).Lsh(big.NewInt(1), 256), big.NewInt(1))
	two255  = new(big.Int).Lsh(big.NewInt(1), 255)
)

// Acct is one account of the generated pre-state.
type Acct struct {
	Addr    addr
	Balance uint64
	Nonce   uint64
	Code    []byte
	Storage [][2]word // key, value (ordered)
}

// World is one case: pre-state, block context, message.
type World struct {
	Galaxias bool   // instruction set: post-Galaxias (v2) or pre-Galaxias (v1)
	Height   uint64 // block height (the Galaxias switch is at galaxiasAt)
	Time     uint64
	BlockGas uint64
	Coinbase addr
	GasPrice uint64
	Accts    []Acct
	Origin   addr
	Entry    string // "call", "static", "create"
	To       addr   // callee for call/static
	Input    []byte // call data, or init code for create
	Value    uint64
	Gas      uint64
	Note     string
	Want     string // corpus only: expectation taken from the property text ("ok", "fail", "flag0", "flag1")
}

const galaxiasAt = 1000

func (w *World) acct(a addr) *Acct {
	for i := range w.Accts {
		if w.Accts[i].Addr == a {
			return &w.Accts[i]
		}
	}
	return nil
}

// witness renders the case for the replay file.
func (w *World) witness() map[string]interface{} {
	var accts []map[string]interface{}
	for _, a := range w.Accts {
		m := map[string]interface{}{"addr": a.Addr.String(), "balance": a.Balance, "nonce": a.Nonce}
		if len(a.Code) > 0 {
			m["code"] = hex.EncodeToString(a.Code)
		}
		if len(a.Storage) > 0 {
			st := map[string]string{}
			for _, kv := range a.Storage {
				st[kv[0].String()] = kv[1].String()
			}
			m["storage"] = st
		}
		accts = append(accts, m)
	}
	return map[string]interface{}{
		"instruction_set": map[bool]string{true: "v2 (post-Galaxias)", false: "v1 (pre-Galaxias)"}[w.Galaxias],
		"height":          w.Height, "time": w.Time, "block_gas_limit": w.BlockGas, "coinbase": w.Coinbase.String(), "gas_price": w.GasPrice,
		"accounts": accts, "origin": w.Origin.String(), "entry": w.Entry, "to": w.To.String(),
		"input": hex.EncodeToString(w.Input), "value": w.Value, "gas": w.Gas, "note": w.Note,
	}
}

// LogRec is one emitted log.
type LogRec struct {
	Addr   addr
	Topics []word
	Data   []byte
}

func (l LogRec) String() string {
	s := l.Addr.String() + "["
	for i, t := range l.Topics {
		if i > 0 {
			s += ","
		}
		s += t.String()
	}
	return s + "]" + hex.EncodeToString(l.Data)
}

// AcctObs is what is observed of one account after the execution.
type AcctObs struct {
	Exist    bool
	Balance  string
	Nonce    uint64
	Code     string // hex
	Suicided bool
	Storage  map[word]word
}

// Outcome is everything observed of one execution on one implementation.
type Outcome struct {
	Impl     string
	Status   string // ok, revert, fail
	ErrClass string
	ErrText  string
	Ret      []byte
	Left     uint64
	Created  addr
	Logs     []LogRec

	Steps    int       // instructions that passed all pre-execution checks
	Ops      [256]bool // instructions executed
	MaxDepth int
	MaxStack int
	Frames   int

	OOG        bool   // some frame (or precompile, or code deposit) ran out of gas
	OOGWhere   string // first place it was seen
	GasTaint   bool   // a GAS result may have flowed into data
	BlockCtx   bool   // an instruction of 0x40-0x48 was executed
	Blake      bool   // address 9 was a call target (precompile only in the reference)
	BigCode    bool   // a creation returned more code than EIP-170 allows
	EcrecHighS bool   // ecrecover (address 1) was called with s above half the group order
	RDataAlias bool   // KVM only: after a call the return-data buffer shared storage with the caller's memory
	FailClass  map[string]int

	TouchedAddrs map[addr]bool
	TouchedKeys  map[addr]map[word]bool

	Structural []structViolation

	observe func(addrs []addr, keys map[addr][]word) map[addr]AcctObs
	Rec     []stepRec // only in recording mode
}

type structViolation struct {
	Key  string
	What string
}

type stepRec struct {
	Depth int
	PC    uint64
	Op    byte
	Gas   uint64
	Stack []string // top items (top first)
	Err   string
}

func (s stepRec) String() string {
	e := ""
	if s.Err != "" {
		e = " err=" + s.Err
	}
	return fmt.Sprintf("d=%d pc=%d %s gas=%d stack(top first)=%v%s", s.Depth, s.PC, opName(s.Op), s.Gas, s.Stack, e)
}

func (o *Outcome) touch(a addr) {
	if o.TouchedAddrs == nil {
		o.TouchedAddrs = map[addr]bool{}
	}
	o.TouchedAddrs[a] = true
}

func (o *Outcome) touchKey(a addr, k word) {
	o.touch(a)
	if o.TouchedKeys == nil {
		o.TouchedKeys = map[addr]map[word]bool{}
	}
	m := o.TouchedKeys[a]
	if m == nil {
		m = map[word]bool{}
		o.TouchedKeys[a] = m
	}
	m[k] = true
}

func (o *Outcome) oog(where string) {
	if !o.OOG {
		o.OOG = true
		o.OOGWhere = where
	}
}

func (o *Outcome) failClass(c string) {
	if o.FailClass == nil {
		o.FailClass = map[string]int{}
	}
	o.FailClass[c]++
}

// unionTouched returns the sorted union of addresses and keys touched by the given
// outcomes, plus the accounts and slots of the pre-state.
func unionTouched(w *World, outs ...*Outcome) ([]addr, map[addr][]word) {
	as := map[addr]bool{w.Origin: true, w.To: true, w.Coinbase: true}
	ks := map[addr]map[word]bool{}
	addK := func(a addr, k word) {
		if ks[a] == nil {
			ks[a] = map[word]bool{}
		}
		ks[a][k] = true
	}
	for _, a := range w.Accts {
		as[a.Addr] = true
		for _, kv := range a.Storage {
			addK(a.Addr, kv[0])
		}
	}
	for _, o := range outs {
		for a := range o.TouchedAddrs {
			as[a] = true
		}
		for a, m := range o.TouchedKeys {
			as[a] = true
			for k := range m {
				addK(a, k)
			}
		}
		as[o.Created] = true
	}
	var al []addr
	for a := range as {
		al = append(al, a)
	}
	sort.Slice(al, func(i, j int) bool { return string(al[i][:]) < string(al[j][:]) })
	km := map[addr][]word{}
	for a, m := range ks {
		var l []word
		for k := range m {
			l = append(l, k)
		}
		sort.Slice(l, func(i, j int) bool { return string(l[i][:]) < string(l[j][:]) })
		km[a] = l
	}
	return al, km
}
