package c02

import (
	"errors"
	"fmt"
	"math/big"

	"github.com/kardiachain/go-kardia/lib/p2p"
	"github.com/kardiachain/go-kardia/types"

	"verifharness/core"
)

// op is one operation offered to a vote set.
type op struct {
	peer  string // non-empty: SetPeerMaj23(peer, block)
	block types.BlockID
	vote  *types.Vote
	label string // how the generator made it (evidence and witness only; the oracle classifies by itself)
}

type opRec struct {
	Op     string `json:"op"`
	Label  string `json:"label,omitempty"`
	Val    string `json:"validator,omitempty"`
	HRT    string `json:"h/r/type,omitempty"`
	Block  string `json:"block,omitempty"`
	Sig    string `json:"sig,omitempty"`
	Expect string `json:"expect,omitempty"`
	Got    string `json:"got,omitempty"`
}

// session couples one real VoteSet with its reference tally.
type session struct {
	c        *core.Case
	w        *world
	tag      string // key prefix ("" for a plain vote set, "hvs:" under a HeightVoteSet)
	chain    string
	real     *types.VoteSet
	t        *tally
	cands    []types.BlockID
	trace    *[]opRec
	dead     bool // a property-level violation was recorded: stop
	degraded bool // a bookkeeping-level difference was recorded: only property-level checks go on
	noted    map[string]bool
	bind     func() *types.VoteSet // under a HeightVoteSet: fetches the real set once the round exists

	lastCommitFP string
	lastCommit   *types.Commit
	crossings    int
	conflicts    int
}

func (s *session) witness() interface{} {
	tr := *s.trace
	if len(tr) > 80 {
		tr = tr[len(tr)-80:]
	}
	var cn []string
	for _, id := range s.cands {
		cn = append(cn, idName(id))
	}
	return map[string]interface{}{"powers_by_index": s.w.orderedPowers(), "chain": s.chain, "height": s.t.height, "round": s.t.round,
		"type": s.t.typ, "candidates": cn, "ops": tr}
}

func (s *session) fail(key, what string) {
	s.dead = true
	s.c.Violation(s.tag+key, what, s.witness())
}

// differ records a disagreement with the exact bookkeeping of the tally (which votes of equivocators a
// vote set keeps). The session goes on with the property-level checks only (soundness, completeness,
// distinct-validator sums, commits), so that the consequence for the property itself is still reached.
func (s *session) differ(key, what string) {
	if s.degraded {
		return
	}
	s.degraded = true
	s.c.Violation(s.tag+"bookkeeping:"+key, what, s.witness())
}

// note records a property-level violation that does not make further observation meaningless: the session
// goes on (bookkeeping checks off), so that the effect on the reported majority / the commit is reached too.
func (s *session) note(key, what string) {
	if s.noted == nil {
		s.noted = map[string]bool{}
	}
	s.degraded = true
	if s.noted[key] {
		return
	}
	s.noted[key] = true
	s.c.Violation(s.tag+key, what, s.witness())
}

func recVote(v *types.Vote, label string) opRec {
	sig := fmt.Sprintf("%x", v.Signature)
	if len(sig) > 16 {
		sig = fmt.Sprintf("%s..(%dB)", sig[:16], len(v.Signature))
	}
	return opRec{Op: "vote", Label: label, Val: fmt.Sprintf("idx=%d addr=%x", v.ValidatorIndex, v.ValidatorAddress[:3]),
		HRT: fmt.Sprintf("%d/%d/%d", v.Height, v.Round, v.Type), Block: idName(v.BlockID), Sig: sig}
}

func gotClass(added bool, err error) string {
	var ce *types.ErrVoteConflictingVotes
	switch {
	case err == nil && added:
		return cAdded
	case err == nil:
		return cDuplicate
	case errors.As(err, &ce):
		if added {
			return cConflict + "+added"
		}
		return cConflict
	case added:
		return "error+added"
	}
	return cRejected
}

func rejectionKind(err error) string {
	switch {
	case err == nil:
		return "none"
	case errors.Is(err, types.ErrVoteUnexpectedStep):
		return "unexpected-step"
	case errors.Is(err, types.ErrVoteInvalidValidatorIndex):
		return "invalid-index"
	case errors.Is(err, types.ErrVoteInvalidValidatorAddress):
		return "invalid-address"
	case errors.Is(err, types.ErrVoteInvalidSignature):
		return "invalid-signature"
	case errors.Is(err, types.ErrVoteNonDeterministicSignature):
		return "non-deterministic-signature"
	case errors.Is(err, types.ErrVoteNil):
		return "nil-vote"
	}
	return "other"
}

// peerClaim offers a peer's majority claim to both sides.
func (s *session) peerClaim(peer string, id types.BlockID) {
	s.peerClaimVia(peer, id, func() error { return s.real.SetPeerMaj23(p2p.ID(peer), id) })
}

func (s *session) peerClaimVia(peer string, id types.BlockID, call func() error) {
	if s.dead {
		return
	}
	run := s.w.st
	wantErr := s.t.peerClaim(peer, id)
	rec := opRec{Op: "peer-maj23", Val: peer, Block: idName(id), Expect: fmt.Sprint("error=", wantErr)}
	var err error
	*s.trace = append(*s.trace, rec)
	if s.c.Guard("VoteSet.SetPeerMaj23", s.witness, func() { err = call() }) {
		s.dead = true
		return
	}
	(*s.trace)[len(*s.trace)-1].Got = fmt.Sprint("error=", err != nil)
	run.Count("peer_claims", 1)
	if (err != nil) != wantErr {
		s.differ("peermaj23-answer", fmt.Sprintf("SetPeerMaj23(%s,%s): error=%v, expected error=%v", peer, idName(id), err, wantErr))
	}
	s.check()
}

// offer gives one vote to the tally, then (through add) to the real object, and compares.
func (s *session) offer(v *types.Vote, label string, add func() (bool, error)) {
	if s.dead {
		return
	}
	run := s.w.st
	e := s.t.apply(v)
	rec := recVote(v, label)
	rec.Expect = e.class
	if e.class == cConflict && e.added {
		rec.Expect = cConflict + "+added"
	}
	*s.trace = append(*s.trace, rec)
	var added bool
	var err error
	if s.c.Guard("AddVote", s.witness, func() { added, err = add() }) {
		s.dead = true
		return
	}
	got := gotClass(added, err)
	(*s.trace)[len(*s.trace)-1].Got = got
	if s.real == nil && s.bind != nil {
		if s.real = s.bind(); s.real == nil {
			s.fail("vote-set-not-created", "the height vote set has no vote set for a round it must track")
			return
		}
	}
	run.Count("evals", 1)
	run.Count("votes_offered", 1)
	run.Count("votes:"+e.validity, 1)
	run.Count("answer:"+got, 1)
	if got == cRejected {
		run.Count("rejection:"+rejectionKind(err), 1)
	}
	run.Distinct("vote_labels", label)
	if e.crossed {
		s.crossings++
		run.Count("quorum_crossings", 1)
		if e.class == cConflict || e.class == cNotAsserted {
			run.Count("quorum_reached_by_conflicting_copy", 1)
		}
	}
	if e.boundary {
		run.Count("tally_exactly_two_thirds", 1)
	}
	if e.class == cConflict || (e.class == cNotAsserted && e.validity == vValid) {
		s.conflicts++
		run.Count("conflicting_votes", 1)
	}
	addedAnswer := added
	switch {
	case e.validity != vValid && addedAnswer:
		// property level: a vote that is not a valid vote of this step must never be reported as added
		s.note("invalid-vote-added:"+e.validity+":"+label, fmt.Sprintf("vote that is not valid for this step (%s, generator label %s) answered %s (%v)", e.validity, label, got, err))
	case e.class == cAdded && got != cAdded:
		// property level (converse): the first valid vote of a validator must be taken
		s.note("valid-first-vote-not-added", fmt.Sprintf("first valid vote of validator %d (%s) answered %s (%v)", v.ValidatorIndex, label, got, err))
	}
	if !s.degraded {
		switch e.class {
		case cNotAsserted:
			run.Count("answers_not_asserted(equivocator)", 1)
		case cDuplicate:
			if got != cDuplicate {
				s.differ("duplicate-answered-"+got, fmt.Sprintf("exact duplicate (%s) answered %s (%v)", label, got, err))
			}
		case cConflict:
			want := cConflict
			if e.added {
				want += "+added"
			}
			if got != want {
				s.differ("conflicting-vote-answered-"+got, fmt.Sprintf("first conflicting vote of validator %d (%s) answered %s (%v), expected %s", v.ValidatorIndex, label, got, err, want))
			}
		case cRejected:
			if got != cRejected {
				s.differ("refused-vote-answered-"+got+":"+e.validity+":"+label, fmt.Sprintf("vote that must be refused (%s, generator label %s) answered %s (%v)", e.validity, label, got, err))
			}
		}
	}
	s.check()
}

func (s *session) addVote(v *types.Vote, label string) {
	s.offer(v, label, func() (bool, error) { return s.real.AddVote(v) })
}

// check compares every observable of the real vote set with the tally.
func (s *session) check() {
	if s.dead {
		return
	}
	run, t, vs, rv := s.w.st, s.t, s.real, s.w.rv
	n := s.w.n()
	panicked := s.c.Guard("VoteSet observers", s.witness, func() {
		maj, ok := vs.TwoThirdsMajority()
		// ---- property level ----
		// soundness: distinct validators that validly signed exactly maj for this step hold more than 2/3
		if ok {
			p := rv.power(t.offered[maj])
			if !rv.moreThanTwoThirds(p) {
				s.fail("unsound-majority", fmt.Sprintf("majority reported for %s but validators that validly signed exactly that id for %d/%d/%d hold %v of %v", idName(maj), t.height, t.round, t.typ, p, rv.total))
				return
			}
		}
		// completeness: first valid votes of more than 2/3 for one id => a majority is reported
		if q := t.firstVoteQuorum(); q != nil && !ok {
			s.fail("quorum-not-reported", fmt.Sprintf("validators holding more than 2/3 gave their first vote to %s, no majority reported", idName(*q)))
			return
		}
		// sums over distinct validators
		if got, want := vs.HasTwoThirdsAny(), rv.moreThanTwoThirds(t.sumFirst); got != want {
			s.note("two-thirds-any-differs", fmt.Sprintf("HasTwoThirdsAny=%v with %v of %v voted (distinct validators)", got, t.sumFirst, rv.total))
		}
		if got, want := vs.HasAll(), t.sumFirst.Cmp(rv.total) == 0; got != want {
			s.note("has-all-differs", fmt.Sprintf("HasAll=%v with %v of %v voted (distinct validators)", got, t.sumFirst, rv.total))
		}
		ba := vs.BitArray()
		if ba.Size() != n {
			s.fail("bitarray-size", fmt.Sprintf("BitArray size %d, validators %d", ba.Size(), n))
			return
		}
		for i := 0; i < n; i++ {
			_, voted := t.first[i]
			g := vs.GetByIndex(uint32(i))
			if ba.GetIndex(i) != voted || (g != nil) != voted {
				s.note("voted-validators-differ", fmt.Sprintf("validator %d: BitArray=%v GetByIndex!=nil=%v, has offered a valid vote=%v", i, ba.GetIndex(i), g != nil, voted))
				continue
			}
			if g != nil && (int(g.ValidatorIndex) != i || t.validity(g) != vValid || !t.offered[g.BlockID][i]) {
				s.note("get-by-index-unsigned-vote", fmt.Sprintf("GetByIndex(%d) returns a vote for %s that validator %d did not validly sign for this step", i, idName(g.BlockID), i))
				continue
			}
		}
		for _, id := range s.cands {
			if bb := vs.BitArrayByBlockID(id); bb != nil {
				for i := 0; i < n; i++ {
					if bb.GetIndex(i) && !t.offered[id][i] {
						s.note("block-bitarray-unsigned", fmt.Sprintf("BitArrayByBlockID(%s)[%d] set, validator %d never validly signed exactly that id", idName(id), i, i))
						continue
					}
				}
			}
		}
		// ---- exact bookkeeping ----
		if !s.degraded {
			s.checkBookkeeping(maj, ok)
		}
		run.Count("observations", 1)
		if ok {
			run.Count("observations_with_majority", 1)
		}
		if ok && t.typ == tPrecommit {
			if maj == idNil {
				run.Count("nil_precommit_majorities", 1)
				return
			}
			s.checkCommit(maj)
		}
	})
	if panicked {
		s.dead = true
	}
}

func (s *session) checkBookkeeping(maj types.BlockID, ok bool) {
	t, vs := s.t, s.real
	n := s.w.n()
	if vs.HasTwoThirdsMajority() != ok {
		s.differ("majority-accessors-disagree", "HasTwoThirdsMajority differs from TwoThirdsMajority")
		return
	}
	if ok != (t.maj != nil) || (ok && maj != *t.maj) {
		m := "none"
		if t.maj != nil {
			m = idName(*t.maj)
		}
		s.differ("majority-differs-from-tally", fmt.Sprintf("TwoThirdsMajority = (%s,%v), tally says %s", idName(maj), ok, m))
		return
	}
	if got, want := vs.IsCommit(), t.typ == tPrecommit && t.maj != nil; got != want {
		s.differ("is-commit-differs", fmt.Sprintf("IsCommit=%v, expected %v", got, want))
		return
	}
	for i := 0; i < n; i++ {
		g := vs.GetByIndex(uint32(i))
		if g == nil {
			continue
		}
		if !t.equivocated[i] && g.BlockID != t.first[i] {
			s.differ("get-by-index-differs", fmt.Sprintf("GetByIndex(%d) is for %s, the validator's only vote is for %s", i, idName(g.BlockID), idName(t.first[i])))
			return
		}
		if t.maj != nil && t.buckets[*t.maj].members[i] && g.BlockID != *t.maj {
			s.differ("get-by-index-not-majority-vote", fmt.Sprintf("GetByIndex(%d) is for %s although the validator's vote for the majority block %s was tallied", i, idName(g.BlockID), idName(*t.maj)))
			return
		}
	}
	for _, id := range s.cands {
		bb := vs.BitArrayByBlockID(id)
		b := t.buckets[id]
		if (bb == nil) != (b == nil) {
			s.differ("block-bitarray-differs", fmt.Sprintf("BitArrayByBlockID(%s) nil=%v, tally tracks it=%v", idName(id), bb == nil, b != nil))
			return
		}
		if bb == nil {
			continue
		}
		for i := 0; i < n; i++ {
			if bb.GetIndex(i) != b.members[i] {
				s.differ("block-bitarray-differs", fmt.Sprintf("BitArrayByBlockID(%s)[%d]=%v, tally %v", idName(id), i, bb.GetIndex(i), b.members[i]))
				return
			}
		}
	}
}

func commitFP(cm *types.Commit) string {
	s := fmt.Sprintf("%d/%d/%s|", cm.Height, cm.Round, idName(cm.BlockID))
	for _, cs := range cm.Signatures {
		s += fmt.Sprintf("%d:%x:%x:%d;", cs.BlockIDFlag, cs.ValidatorAddress[:4], cs.Signature, cs.Timestamp.UnixNano())
	}
	return s
}

// checkCommit: the commit built from a reported precommit majority is accepted by the real and the
// reference verifier and turns back into a vote set with the same majority.
func (s *session) checkCommit(maj types.BlockID) {
	run, t, rv := s.w.st, s.t, s.w.rv
	cm := s.real.MakeCommit()
	run.Count("commits_made", 1)
	fp := commitFP(cm)
	if fp == s.lastCommitFP {
		return // same commit as after the previous operation: verification is a pure function of it
	}
	s.lastCommitFP, s.lastCommit = fp, cm
	if cm.Height != t.height || cm.Round != t.round || cm.BlockID != maj || len(cm.Signatures) != s.w.n() {
		s.fail("makecommit-wrong-header", fmt.Sprintf("MakeCommit: height %d round %d block %s size %d", cm.Height, cm.Round, idName(cm.BlockID), len(cm.Signatures)))
		return
	}
	ref := refVerifyCommit(rv, s.w.sc, s.chain, maj, t.height, cm)
	err := s.w.vals.VerifyCommit(s.chain, maj, t.height, cm)
	run.Count("commits_verified", 1)
	if !ref.ok || !ref.clean {
		s.fail("makecommit-not-a-quorum-certificate", fmt.Sprintf("MakeCommit for %s: reference verifier: ok=%v clean=%v %s (VerifyCommit: %v)", idName(maj), ref.ok, ref.clean, ref.reason, err))
		return
	}
	if err != nil {
		s.fail("makecommit-fails-verifycommit", fmt.Sprintf("commit built from the reported majority for %s is refused by VerifyCommit with the same validator set: %v", idName(maj), err))
		return
	}
	for i, cs := range cm.Signatures {
		if cs.ForBlock() && !t.offered[maj][i] {
			s.fail("makecommit-foreign-signature", fmt.Sprintf("slot %d of the commit counts for %s, validator never signed it", i, idName(maj)))
			return
		}
	}
	back := types.CommitToVoteSet(s.chain, cm, s.w.vals)
	if m2, ok2 := back.TwoThirdsMajority(); !ok2 || m2 != maj {
		s.fail("committovoteset-loses-majority", fmt.Sprintf("CommitToVoteSet(MakeCommit()) reports (%s,%v)", idName(m2), ok2))
		return
	}
	run.Count("commit_roundtrips", 1)
}

func bigSum(rv *refVals, idx []int) *big.Int {
	s := new(big.Int)
	for _, i := range idx {
		s.Add(s, rv.powers[i])
	}
	return s
}
