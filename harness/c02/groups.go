package c02

import (
	"fmt"
	"math/rand"
	"os"
	"time"

	cstypes "github.com/kardiachain/go-kardia/consensus/types"
	"github.com/kardiachain/go-kardia/lib/log"
	"github.com/kardiachain/go-kardia/lib/p2p"
	kproto "github.com/kardiachain/go-kardia/proto/kardiachain/types"
	"github.com/kardiachain/go-kardia/types"

	"verifharness/core"
)

// ---- boundary corpus ----

func rep(n int, p int64) []int64 {
	o := make([]int64, n)
	for i := range o {
		o[i] = p
	}
	return o
}

var corpusVectors = [][]int64{
	{1}, {1, 1}, {2, 1}, {1, 1, 1}, {1, 1, 1, 1}, rep(5, 1), rep(6, 1), rep(7, 1), rep(9, 1), rep(12, 1),
	{3, 3, 3}, {1, 2, 3}, {2, 2, 2}, {5, 2, 2}, {6, 2, 1}, {7, 1, 1}, {4, 3, 2}, {3, 2, 2}, {3, 3, 2},
	{10, 10, 10, 10}, {2, 2, 1, 1}, {3, 1, 1, 1},
	{1, 2, 4, 8, 16, 32, 64, 128, 256, 512, 1024, 2048},
	{capTotal / 3, capTotal / 3, capTotal / 3}, {capTotal - 2, 1, 1}, {capTotal / 2, capTotal / 4, capTotal / 8, capTotal / 16},
	rep(12, capTotal/12), {capTotal/3 + 1, capTotal / 3, capTotal/3 - 1},
}

type script struct {
	name  string
	cands []types.BlockID
	run   func(s *session, g *gen)
}

func (g *gen) good(idx int, id types.BlockID) *types.Vote {
	return g.w.vote(idx, g.chain, g.height, g.round, g.typ, id, baseTime)
}

func complement(n int, set []int) []int {
	in := map[int]bool{}
	for _, i := range set {
		in[i] = true
	}
	var o []int
	for i := 0; i < n; i++ {
		if !in[i] {
			o = append(o, i)
		}
	}
	return o
}

func subsetNamed(rv *refVals, name string) []int {
	for _, p := range remarkableSubsets(rv) {
		if p.name == name {
			return p.set
		}
	}
	return nil
}

var scripts = []script{
	{"ascending", []types.BlockID{idA, idNil}, func(s *session, g *gen) {
		for i := 0; i < g.w.n(); i++ {
			s.addVote(g.good(i, idA), "well-formed")
		}
	}},
	{"descending", []types.BlockID{idA, idNil}, func(s *session, g *gen) {
		for i := g.w.n() - 1; i >= 0; i-- {
			s.addVote(g.good(i, idA), "well-formed")
		}
	}},
	{"largest-non-quorum-then-rest", []types.BlockID{idA, idNil}, func(s *session, g *gen) {
		set := subsetNamed(g.w.rv, "maximal-non-quorum")
		for _, i := range set {
			s.addVote(g.good(i, idA), "well-formed")
		}
		for _, i := range complement(g.w.n(), set) {
			s.addVote(g.good(i, idA), "well-formed")
		}
	}},
	{"exactly-two-thirds-then-rest", []types.BlockID{idA, idNil}, func(s *session, g *gen) {
		set := subsetNamed(g.w.rv, "exactly-two-thirds")
		if set == nil {
			set = subsetNamed(g.w.rv, "minimal-quorum")
		}
		for _, i := range set {
			s.addVote(g.good(i, idA), "well-formed")
		}
		for _, i := range complement(g.w.n(), set) {
			s.addVote(g.good(i, idNil), "well-formed")
		}
	}},
	{"split-by-parts-total", []types.BlockID{idA, idAt}, func(s *session, g *gen) {
		// nobody has a quorum: the largest non-quorum votes A, everybody else A'' (same hash, same parts hash, other total)
		set := subsetNamed(g.w.rv, "maximal-non-quorum")
		for _, i := range complement(g.w.n(), set) {
			s.addVote(g.good(i, idAt), "well-formed")
		}
		for _, i := range set {
			s.addVote(g.good(i, idA), "well-formed")
		}
	}},
	{"alternating-parts-total-and-parts-hash", []types.BlockID{idA, idAt, idAp}, func(s *session, g *gen) {
		ids := []types.BlockID{idA, idAt, idAp}
		for i := 0; i < g.w.n(); i++ {
			s.addVote(g.good(i, ids[i%3]), "well-formed")
		}
	}},
	{"equivocation-must-not-add-power", []types.BlockID{idA, idB, idAt}, func(s *session, g *gen) {
		// the largest non-quorum votes A, then sends B, A'' and re-signed copies: no threshold may move
		set := subsetNamed(g.w.rv, "maximal-non-quorum")
		for _, i := range set {
			s.addVote(g.good(i, idA), "well-formed")
		}
		for _, i := range set {
			s.addVote(g.good(i, idB), "conflicting")
			s.addVote(g.good(i, idAt), "conflicting")
			v := g.w.vote(i, g.chain, g.height, g.round, g.typ, idA, baseTime.Add(time.Second))
			s.addVote(v, "same-block-other-timestamp")
			m := g.good(i, idA)
			m.Signature = malleate(m.Signature)
			s.addVote(m, "malleated-signature(r,N-s)")
			s.addVote(g.good(i, idB), "conflicting-again")
		}
	}},
	{"claimed-block-collects-conflicting-votes", []types.BlockID{idA, idB}, func(s *session, g *gen) {
		// a peer claims B; everybody votes A first (quorum for A), then B: B's bucket fills up but the majority stays A
		s.peerClaim("peer0", idB)
		for i := 0; i < g.w.n(); i++ {
			s.addVote(g.good(i, idA), "well-formed")
		}
		for i := 0; i < g.w.n(); i++ {
			s.addVote(g.good(i, idB), "conflicting")
		}
		s.peerClaim("peer0", idA) // a second, different claim of the same peer is refused
		s.peerClaim("peer0", idB)
	}},
	{"quorum-reached-by-conflicting-copy", []types.BlockID{idB, idA}, func(s *session, g *gen) {
		// the largest non-quorum votes B; the others first vote A, a peer claims B, then they send B too
		set := subsetNamed(g.w.rv, "maximal-non-quorum")
		rest := complement(g.w.n(), set)
		for _, i := range set {
			s.addVote(g.good(i, idB), "well-formed")
		}
		for _, i := range rest {
			s.addVote(g.good(i, idA), "well-formed")
		}
		for _, i := range rest {
			s.addVote(g.good(i, idB), "conflicting-unclaimed")
		}
		s.peerClaim("peer1", idB)
		for _, i := range rest {
			s.addVote(g.good(i, idB), "conflicting-claimed")
		}
	}},
	{"claim-after-conflict", []types.BlockID{idA, idAt}, func(s *session, g *gen) {
		for i := 0; i < g.w.n(); i++ {
			s.addVote(g.good(i, idA), "well-formed")
			s.addVote(g.good(i, idAt), "conflicting-unclaimed")
		}
		s.peerClaim("peer2", idAt)
		for i := 0; i < g.w.n(); i++ {
			s.addVote(g.good(i, idAt), "conflicting-claimed")
		}
	}},
	{"other-type-signatures", []types.BlockID{idA}, func(s *session, g *gen) {
		// every validator's genuine vote of the OTHER type for the same height, round and block, offered as this type
		for i := 0; i < g.w.n(); i++ {
			v := g.w.vote(i, g.chain, g.height, g.round, other(g.typ), idA, baseTime)
			v.Type = kproto.SignedMsgType(g.typ)
			s.addVote(v, "signed-as-other-type")
		}
		for i := 0; i < g.w.n(); i++ {
			s.addVote(g.w.vote(i, g.chain, g.height, g.round, other(g.typ), idA, baseTime), "other-type")
		}
	}},
	{"signature-lengths", []types.BlockID{idA, idB}, func(s *session, g *gen) {
		for _, ln := range []int{0, 1, 10, 32, 64, 66, 130} {
			v := g.good(0, idA)
			v.Signature = append(append([]byte{}, v.Signature...), v.Signature...)[:ln]
			s.addVote(v, fmt.Sprintf("signature-length-%d", ln))
		}
		s.addVote(g.good(0, idA), "well-formed")
		for _, ln := range []int{0, 1, 64, 66} {
			v := g.good(0, idA) // same validator and block as a kept vote
			v.Signature = append(append([]byte{}, v.Signature...), v.Signature...)[:ln]
			s.addVote(v, fmt.Sprintf("signature-length-%d", ln))
			v = g.good(0, idB) // conflicting block
			v.Signature = append(append([]byte{}, v.Signature...), v.Signature...)[:ln]
			s.addVote(v, fmt.Sprintf("signature-length-%d", ln))
		}
	}},
	{"wrong-step-chain-index-address", []types.BlockID{idA}, func(s *session, g *gen) {
		w := g.w
		for i := 0; i < w.n(); i++ {
			s.addVote(w.vote(i, g.chain+"x", g.height, g.round, g.typ, idA, baseTime), "signed-for-other-chain")
			s.addVote(w.vote(i, g.chain, g.height+1, g.round, g.typ, idA, baseTime), "other-height")
			s.addVote(w.vote(i, g.chain, g.height, g.round+1, g.typ, idA, baseTime), "other-round")
			v := w.vote(i, g.chain, g.height+1, g.round, g.typ, idA, baseTime)
			v.Height = g.height
			s.addVote(v, "signed-for-other-height")
			v = w.vote(i, g.chain, g.height, g.round+1, g.typ, idA, baseTime)
			v.Round = g.round
			s.addVote(v, "signed-for-other-round")
			v = g.good(i, idA)
			v.ValidatorIndex = uint32((i + 1) % (w.n() + 1))
			s.addVote(v, "index-of-other-validator-or-out-of-range")
			v = g.good(i, idA)
			v.ValidatorAddress = keys()[16].addr
			s.addVote(v, "address-of-stranger")
			v = g.good(i, idA)
			v.Signature = w.sign(keys()[16], g.chain, g.height, g.round, g.typ, idA, baseTime)
			s.addVote(v, "signature-by-other-key")
			v = g.good(i, idA)
			v.Signature = w.sign(w.keys[i], g.chain, g.height, g.round, g.typ, idAt, baseTime)
			s.addVote(v, "signed-for-other-block-id")
		}
	}},
	{"nil-majority", []types.BlockID{idNil, idA}, func(s *session, g *gen) {
		for i := 0; i < g.w.n(); i++ {
			s.addVote(g.good(i, idNil), "well-formed")
		}
	}},
}

func corpusCase(c *core.Case) {
	nv, ns := len(corpusVectors), len(scripts)
	if c.I >= nv*ns*2 {
		return
	}
	vec := corpusVectors[c.I%nv]
	sc := scripts[(c.I/nv)%ns]
	typ := int32(1 + c.I/(nv*ns))
	w := newWorld(vec)
	defer w.st.flush(c.Run)
	s := newSession(c, w, chainID, 3, 2, typ, sc.cands)
	g := &gen{r: c.R, w: w, chain: chainID, height: 3, round: 2, typ: typ, cands: sc.cands}
	sc.run(s, g)
	w.st.Count("corpus_scripts", 1)
	w.st.Distinct("corpus_scripts_run", sc.name)
	finishSession(c, c.R, s, "corpus", 0)
}

func corpusCommitCase(c *core.Case) {
	if c.I >= len(corpusVectors) {
		return
	}
	w := newWorld(corpusVectors[c.I])
	defer w.st.flush(c.Run)
	commitBases(c, c.R, w, "corpus", true)
	w.st.Count("commit_cases", 1)
}

// ---- HeightVoteSet ----

type hvsModel struct {
	round   uint32
	rounds  map[uint32]bool
	catchup map[string]int
	sess    map[[2]uint32]*session
}

func hvsCase(c *core.Case) {
	r := c.R
	n := 1 + r.Intn(7)
	class := powerClasses[r.Intn(len(powerClasses))]
	w := newWorld(powerVector(r, n, class))
	st := w.st
	defer st.flush(c.Run)
	height := uint64(1 + r.Intn(4))
	cands := [][]types.BlockID{{idA, idNil}, {idA, idAt, idNil}, {idA, idB}}[r.Intn(3)]
	hvs := cstypes.NewHeightVoteSet(log.NewNopLogger(), chainID, height, w.vals)
	m := &hvsModel{round: 1, rounds: map[uint32]bool{}, catchup: map[string]int{}, sess: map[[2]uint32]*session{}}
	trace := []opRec{}
	gens := map[[2]uint32]*gen{}
	get := func(round uint32, typ int32) *types.VoteSet {
		if typ == tPrevote {
			return hvs.Prevotes(round)
		}
		return hvs.Precommits(round)
	}
	mkRound := func(round uint32, bindNow bool) {
		m.rounds[round] = true
		for _, typ := range []int32{tPrevote, tPrecommit} {
			typ := typ
			s := &session{c: c, w: w, tag: "hvs:", chain: chainID, cands: cands, trace: &trace,
				t: newTally(chainID, height, round, typ, w.rv, w.sc)}
			s.bind = func() *types.VoteSet { return get(round, typ) }
			if bindNow {
				s.real = s.bind()
			}
			m.sess[[2]uint32{round, uint32(typ)}] = s
		}
	}
	mkRound(1, true)
	dead := func() bool {
		for _, s := range m.sess {
			if s.dead {
				return true
			}
		}
		return false
	}
	fail := func(key, what string) {
		c.Violation("hvs:"+key, what, map[string]interface{}{"powers_by_index": w.orderedPowers(), "height": height, "ops": trace})
	}
	stop := false
	checkAll := func() {
		maxR := uint32(0)
		for rr := range m.rounds {
			if rr > maxR {
				maxR = rr
			}
		}
		for rr := uint32(0); rr <= maxR+1 && !stop; rr++ {
			for _, typ := range []int32{tPrevote, tPrecommit} {
				real := get(rr, typ)
				if (real != nil) != m.rounds[rr] {
					fail("bookkeeping:round-tracking-differs", fmt.Sprintf("vote set for round %d exists=%v, expected %v", rr, real != nil, m.rounds[rr]))
					stop = true
					return
				}
				if s := m.sess[[2]uint32{rr, uint32(typ)}]; s != nil {
					if s.real == nil {
						s.real = real
					}
					if s.real != real {
						fail("bookkeeping:vote-set-replaced", fmt.Sprintf("round %d type %d: the vote set object changed", rr, typ))
						stop = true
						return
					}
					s.check()
				}
			}
		}
		// proof-of-lock info: the highest round <= current round whose prevotes have a majority
		var wantR uint32
		wantID := idNil
		for rr := m.round; rr >= 1; rr-- {
			if s := m.sess[[2]uint32{rr, tPrevote}]; s != nil && s.t.maj != nil {
				wantR, wantID = rr, *s.t.maj
				break
			}
		}
		gotR, gotID := hvs.POLInfo()
		degraded := false
		for _, s := range m.sess {
			degraded = degraded || s.degraded
		}
		if gotR != 0 {
			// property level: a reported proof-of-lock round has more than 2/3 of valid prevotes for exactly that id
			s := m.sess[[2]uint32{gotR, tPrevote}]
			if s == nil || !w.rv.moreThanTwoThirds(w.rv.power(s.t.offered[gotID])) {
				fail("unsound-pol", fmt.Sprintf("POLInfo=(%d,%s) without more than 2/3 of valid prevotes for that id in that round", gotR, idName(gotID)))
				stop = true
				return
			}
		}
		if !degraded && (gotR != wantR || gotID != wantID) {
			fail("bookkeeping:pol-info-differs", fmt.Sprintf("POLInfo=(%d,%s), tally (%d,%s)", gotR, idName(gotID), wantR, idName(wantID)))
			stop = true
		}
		if wantR != 0 {
			st.Count("hvs_pol_reported", 1)
		}
	}
	steps := 10 + r.Intn(10*n+10)
	peers := []string{"", "p1", "p2", "p3"}
	for i := 0; i < steps && !stop && !dead(); i++ {
		switch x := r.Intn(20); {
		case x == 0:
			nr := m.round + uint32(r.Intn(2))
			trace = append(trace, opRec{Op: "set-round", Val: fmt.Sprint(nr)})
			if c.Guard("HeightVoteSet.SetRound", func() interface{} { return trace }, func() { hvs.SetRound(nr) }) {
				return
			}
			for rr := m.round - 1; rr <= nr; rr++ {
				if !m.rounds[rr] {
					mkRound(rr, true)
				}
			}
			m.round = nr
			st.Count("hvs_set_round", 1)
			checkAll()
		case x < 3:
			round := uint32(r.Intn(int(m.round) + 3))
			typ := int32(1 + r.Intn(2))
			if r.Intn(10) == 0 {
				typ = []int32{0, 3}[r.Intn(2)]
			}
			peer := peers[1+r.Intn(3)]
			id := cands[r.Intn(len(cands))]
			call := func() error { return hvs.SetPeerMaj23(round, kproto.SignedMsgType(typ), p2p.ID(peer), id) }
			s := m.sess[[2]uint32{round, uint32(typ)}]
			if s != nil {
				s.peerClaimVia(peer, id, call)
			} else {
				var err error
				trace = append(trace, opRec{Op: "peer-maj23", Val: peer, HRT: fmt.Sprintf("%d/%d/%d", height, round, typ), Block: idName(id), Label: "untracked-round-or-bad-type"})
				if c.Guard("HeightVoteSet.SetPeerMaj23", func() interface{} { return trace }, func() { err = call() }) {
					return
				}
				wantErr := typ != tPrevote && typ != tPrecommit
				if (err != nil) != wantErr {
					fail("bookkeeping:peermaj23-answer", fmt.Sprintf("SetPeerMaj23 for round %d type %d: err=%v", round, typ, err))
					return
				}
			}
			checkAll()
		default:
			round := uint32(1)
			switch y := r.Intn(10); {
			case y < 5:
			case y < 8:
				round = m.round
			default:
				round = uint32(1 + r.Intn(int(m.round)+3))
			}
			typ := int32(1 + r.Intn(2))
			k := [2]uint32{round, uint32(typ)}
			g := gens[k]
			if g == nil {
				g = &gen{r: r, w: w, chain: chainID, height: height, round: round, typ: typ, cands: cands}
				gens[k] = g
			}
			v, label := g.next()
			peer := peers[r.Intn(len(peers))]
			add := func() (bool, error) { return hvs.AddVote(v, p2p.ID(peer)) }
			// routing, from the vote's own fields
			vt := int32(v.Type)
			switch {
			case vt != tPrevote && vt != tPrecommit:
				var added bool
				var err error
				rec := recVote(v, label)
				rec.Expect = "refused(type)"
				trace = append(trace, rec)
				if c.Guard("HeightVoteSet.AddVote", func() interface{} { return trace }, func() { added, err = add() }) {
					return
				}
				if added || err == nil {
					fail("vote-of-unknown-type-answered-"+gotClass(added, err), fmt.Sprintf("vote of type %d: added=%v err=%v", vt, added, err))
					return
				}
				st.Count("hvs_refused_type", 1)
			case !m.rounds[v.Round] && m.catchup[peer] >= 2:
				var added bool
				var err error
				rec := recVote(v, label)
				rec.Expect = "refused(unwanted round)"
				rec.Val += " from " + peer
				trace = append(trace, rec)
				if c.Guard("HeightVoteSet.AddVote", func() interface{} { return trace }, func() { added, err = add() }) {
					return
				}
				if added || err == nil {
					fail("vote-of-unwanted-round-answered-"+gotClass(added, err), fmt.Sprintf("third catch-up round %d from peer %q: added=%v err=%v", v.Round, peer, added, err))
					return
				}
				st.Count("hvs_refused_round", 1)
			default:
				if !m.rounds[v.Round] {
					m.catchup[peer]++
					mkRound(v.Round, false)
					st.Count("hvs_catchup_rounds", 1)
				}
				m.sess[[2]uint32{v.Round, uint32(vt)}].offer(v, label, add)
			}
			checkAll()
		}
	}
	st.Count("hvs_sequences", 1)
	cross := 0
	for _, s := range m.sess {
		cross += s.crossings + s.conflicts
	}
	if cross > 0 && !stop && !dead() {
		c.Run.Nontrivial(fmt.Sprintf("hvs:%d", c.I))
	}
	st.Distinct("hvs_rounds_tracked", fmt.Sprint(len(m.rounds)))
}

// ---- exhaustive part: every order of a small event list ----

type exSpec struct {
	vec    []int64
	assign []int // candidate index of each validator's first vote
	eqVal  int   // -1: nobody equivocates
	eqCand int
	claim  int // -1: no peer claim
}

var exVectors = map[int][][]int64{
	1: {{1}},
	2: {{1, 1}, {2, 1}, {3, 1}},
	3: {{1, 1, 1}, {2, 1, 1}, {3, 2, 1}},
	4: {{1, 1, 1, 1}, {2, 2, 1, 1}, {3, 1, 1, 1}},
}

var exCands = []types.BlockID{idA, idAt, idNil}

// exList enumerates the specs. level 0 (quick): n<=3, and for n=3 no combination of equivocation and claim.
// level 1 (thorough): n<=4; for n=4 equivocation and claim are combined only for the power vector {2,2,1,1}
// (total 6, two validators at exactly 2/3) and only when the claim is for the equivocator's second block.
func exList(level int) []exSpec {
	var out []exSpec
	maxN := 3
	if level > 0 {
		maxN = 4
	}
	for n := 1; n <= maxN; n++ {
		for vi, vec := range exVectors[n] {
			na := 1
			for i := 0; i < n; i++ {
				na *= 3
			}
			for a := 0; a < na; a++ {
				assign := make([]int, n)
				for i, x := 0, a; i < n; i, x = i+1, x/3 {
					assign[i] = x % 3
				}
				for ev := -1; ev < n; ev++ {
					for ec := 0; ec < 3; ec++ {
						if ev == -1 && ec > 0 {
							continue
						}
						if ev >= 0 && ec == assign[ev] {
							continue
						}
						for cl := -1; cl < 3; cl++ {
							if ev >= 0 && cl >= 0 {
								if level == 0 && n >= 3 {
									continue
								}
								if n >= 4 && (cl != ec || vi != 1) {
									continue
								}
							}
							out = append(out, exSpec{vec, assign, ev, ec, cl})
						}
					}
				}
			}
		}
	}
	return out
}

func permute(k int, fn func(p []int) bool) {
	p := make([]int, k)
	used := make([]bool, k)
	var rec func(d int) bool
	rec = func(d int) bool {
		if d == k {
			return fn(p)
		}
		for i := 0; i < k; i++ {
			if !used[i] {
				used[i] = true
				p[d] = i
				if !rec(d + 1) {
					return false
				}
				used[i] = false
			}
		}
		return true
	}
	rec(0)
}

func exhaustiveCase(list []exSpec) func(c *core.Case) {
	return func(c *core.Case) {
		if c.I >= len(list) {
			return
		}
		sp := list[c.I]
		w := newWorld(sp.vec)
		defer w.st.flush(c.Run)
		n := w.n()
		type ev struct {
			val  int // -1: claim
			cand int
		}
		var evs []ev
		for i := 0; i < n; i++ {
			evs = append(evs, ev{i, sp.assign[i]})
		}
		if sp.eqVal >= 0 {
			evs = append(evs, ev{sp.eqVal, sp.eqCand})
		}
		if sp.claim >= 0 {
			evs = append(evs, ev{-1, sp.claim})
		}
		g := &gen{r: c.R, w: w, chain: chainID, height: 1, round: 1, typ: tPrecommit, cands: exCands}
		nontrivial := false
		permute(len(evs), func(p []int) bool {
			s := newSession(c, w, chainID, 1, 1, tPrecommit, exCands)
			for _, k := range p {
				e := evs[k]
				if e.val < 0 {
					s.peerClaim("peer", exCands[e.cand])
				} else {
					s.addVote(g.good(e.val, exCands[e.cand]), "well-formed")
				}
			}
			w.st.Count("exhaustive_orders", 1)
			if s.crossings > 0 {
				w.st.Count("exhaustive_orders_with_majority", 1)
				nontrivial = true
			}
			return !s.dead
		})
		w.st.Count("exhaustive_event_lists", 1)
		if nontrivial {
			c.Run.Nontrivial(fmt.Sprintf("exhaustive:%d", c.I))
		}
	}
}

// ---- entry ----

func Main() {
	r := core.Start("C02", "exploration")
	r.SetRule("case = one validator set (1..12 validators, 15 power classes incl. totals = 0,1,2 mod 3, one validator at exactly 1/3, 2/3-1, 2/3, 2/3+1, totals at the MaxTotalVotingPower cap) with a sequence of AddVote/SetPeerMaj23 against a real VoteSet (or HeightVoteSet), or a hand-built commit with the mangling library; after EVERY operation majority, any-2/3, has-all, bit arrays, GetByIndex, MakeCommit->VerifyCommit->CommitToVoteSet are compared with an independent big.Int tally that recomputes sign-bytes and recovers signers itself; non-trivial = the sequence crossed a quorum or contained a conflicting (equivocating) vote, or the case judged commits at the quorum boundary; distinct by group and case index")
	r.Assume("a signature is valid when secp256k1 public-key recovery over Keccak-256 of the canonical vote encoding yields the validator's address (any recovery id / s value that btcec accepts); the CommitSig address field is not signed and is not required to match")
	r.Assume("after a validator has equivocated, the return value of AddVote for its further votes is not asserted (upstream replaces the primary vote once a block has the majority); all tallies still are")
	w16 := core.Opts{Workers: 16}
	only := os.Getenv("C02_ONLY_GROUP") // development aid: run a single group
	cases := func(group string, n int, fn func(c *core.Case)) {
		if only == "" || only == group {
			r.Cases(group, n, w16, fn)
		}
	}
	cases("corpus", len(corpusVectors)*len(scripts)*2, corpusCase)
	cases("corpus-commit", len(corpusVectors), corpusCommitCase)
	cases("seq", r.N(3000, 400000), seqCase)
	cases("hvs", r.N(250, 20000), hvsCase)
	cases("commit", r.N(150, 8000), commitCase)
	level := 0
	if !r.Quick() {
		level = 1
	}
	list := exList(level)
	cases("exhaustive", len(list), exhaustiveCase(list))
	r.Extra("exhaustive_part", fmt.Sprintf("%d event lists (first vote of each of n<=%d validators among {A, A with other parts total, nil} x optional equivocation x optional peer claim, 3 power vectors per n), every order of each list", len(list), 3+level))
	r.Floor("quorum_crossings", 500)
	r.Floor("conflicting_votes", 500)
	r.Floor("quorum_reached_by_conflicting_copy", 10)
	r.Floor("tally_exactly_two_thirds", 50)
	r.Floor("peer_claims", 200)
	r.Floor("commits_verified", 200)
	r.Floor("commit_roundtrips", 200)
	r.Floor("mangled_commits", 1000)
	r.Floor("commits_with_exactly_two_thirds", 10)
	r.Floor("votes:invalid:signature", 200)
	r.Floor("votes:invalid:step", 100)
	r.Floor("hvs_catchup_rounds", 20)
	r.Floor("exhaustive_orders", 1000)
	r.Finish()
}

var _ = rand.Int
