// Package c02 decides C02: quorum certificates are sound (+2/3 means strictly
// more than two thirds). Real types.VoteSet / cstypes.HeightVoteSet /
// ValidatorSet.VerifyCommit / VoteSet.MakeCommit / CommitToVoteSet are driven by
// generated vote sequences and commits and compared, after every operation,
// with an independent big.Int tally (ref.go).
package c02

import (
	"fmt"
	"math/big"
	"math/rand"
	"time"

	"github.com/kardiachain/go-kardia/lib/common"
	kproto "github.com/kardiachain/go-kardia/proto/kardiachain/types"
	"github.com/kardiachain/go-kardia/types"

	"verifharness/core"
)

func init() { core.Register("C02", Main) }

const chainID = "verif-c02"

func newSession(c *core.Case, w *world, chain string, height uint64, round uint32, typ int32, cands []types.BlockID) *session {
	tr := []opRec{}
	return &session{c: c, w: w, chain: chain, cands: cands, trace: &tr,
		real: types.NewVoteSet(chain, height, round, kproto.SignedMsgType(typ), w.vals),
		t:    newTally(chain, height, round, typ, w.rv, w.sc)}
}

// ---- vote generator ----

type gen struct {
	r      *rand.Rand
	w      *world
	chain  string
	height uint64
	round  uint32
	typ    int32
	cands  []types.BlockID
	sent   []*types.Vote // structurally valid votes offered so far
}

func other(typ int32) int32 {
	if typ == tPrevote {
		return tPrecommit
	}
	return tPrevote
}

func (g *gen) cand() types.BlockID {
	if g.r.Intn(10) < 6 {
		return g.cands[0]
	}
	return g.cands[g.r.Intn(len(g.cands))]
}

func (g *gen) ts() time.Time {
	if g.r.Intn(7) == 0 {
		return baseTime.Add(time.Duration(1+g.r.Intn(3)) * time.Second)
	}
	return baseTime
}

// next returns one vote and the generator's label for it.
func (g *gen) next() (*types.Vote, string) {
	r, w := g.r, g.w
	n := w.n()
	idx := r.Intn(n)
	id := g.cand()
	good := func() *types.Vote { return w.vote(idx, g.chain, g.height, g.round, g.typ, id, g.ts()) }
	x := r.Intn(100)
	switch {
	case x < 58:
		v := good()
		if r.Intn(4) == 0 {
			v.Signature = w.signReal(w.keys[idx], g.chain, v)
			g.sent = append(g.sent, v)
			return v, "signed-by-PrivValidator.SignVote"
		}
		g.sent = append(g.sent, v)
		return v, "well-formed"
	case x < 64 && len(g.sent) > 0:
		return copyVote(g.sent[r.Intn(len(g.sent))]), "replay-of-earlier-vote"
	case x < 67 && len(g.sent) > 0:
		v := copyVote(g.sent[r.Intn(len(g.sent))])
		v.Signature = malleate(v.Signature)
		return v, "malleated-signature(r,N-s)"
	case x < 69 && len(g.sent) > 0:
		v := copyVote(g.sent[r.Intn(len(g.sent))])
		v.Timestamp = v.Timestamp.Add(time.Minute)
		return v, "same-signature-other-timestamp"
	case x < 72:
		v := good()
		switch r.Intn(3) {
		case 0:
			v.ValidatorIndex = uint32(n + r.Intn(3))
			return v, "index-out-of-range"
		case 1:
			v.ValidatorIndex = ^uint32(0) - uint32(r.Intn(2))
			return v, "index-huge"
		}
		if n == 1 {
			return v, "well-formed"
		}
		v.ValidatorIndex = uint32((idx + 1 + r.Intn(n-1)) % n)
		return v, "index-of-other-validator"
	case x < 75:
		v := good()
		switch r.Intn(3) {
		case 0:
			v.ValidatorAddress = common.Address{}
			return v, "address-zero"
		case 1:
			v.ValidatorAddress = keys()[16+r.Intn(4)].addr
			return v, "address-of-stranger"
		}
		if n == 1 {
			return v, "well-formed"
		}
		v.ValidatorAddress = w.keys[(idx+1+r.Intn(n-1))%n].addr
		return v, "address-of-other-validator"
	case x < 78:
		hh := g.height + 1
		if r.Intn(2) == 0 && g.height > 1 {
			hh = g.height - 1
		}
		if r.Intn(2) == 0 {
			return w.vote(idx, g.chain, hh, g.round, g.typ, id, baseTime), "other-height"
		}
		v := w.vote(idx, g.chain, hh, g.round, g.typ, id, baseTime)
		v.Height = g.height
		return v, "signed-for-other-height"
	case x < 81:
		rr := g.round + 1
		if r.Intn(2) == 0 {
			rr = g.round - 1
		}
		if r.Intn(2) == 0 {
			return w.vote(idx, g.chain, g.height, rr, g.typ, id, baseTime), "other-round"
		}
		v := w.vote(idx, g.chain, g.height, rr, g.typ, id, baseTime)
		v.Round = g.round
		return v, "signed-for-other-round"
	case x < 86:
		switch r.Intn(4) {
		case 0:
			return w.vote(idx, g.chain, g.height, g.round, other(g.typ), id, baseTime), "other-type"
		case 1:
			v := w.vote(idx, g.chain, g.height, g.round, []int32{0, 3, 32}[r.Intn(3)], id, baseTime)
			return v, "unknown-type"
		}
		// the validator's genuine vote of the OTHER type for the same height/round/block, offered as this type
		v := w.vote(idx, g.chain, g.height, g.round, other(g.typ), id, baseTime)
		v.Type = kproto.SignedMsgType(g.typ)
		return v, "signed-as-other-type"
	case x < 89:
		v := w.vote(idx, g.chain+"x", g.height, g.round, g.typ, id, baseTime)
		if r.Intn(3) == 0 {
			v = w.vote(idx, "", g.height, g.round, g.typ, id, baseTime)
		}
		return v, "signed-for-other-chain"
	case x < 91:
		// signed over another block id than the one the vote names
		o := g.cands[r.Intn(len(g.cands))]
		v := good()
		if o == id {
			o = alterID(id, []string{"hash", "parts-hash", "parts-total"}[r.Intn(3)])
		}
		v.Signature = w.sign(w.keys[idx], g.chain, g.height, g.round, g.typ, o, v.Timestamp)
		return v, "signed-for-other-block-id"
	case x < 97:
		v := good()
		switch r.Intn(6) {
		case 0:
			v.Signature = append([]byte{}, v.Signature...)
			v.Signature[r.Intn(64)] ^= 1 << uint(r.Intn(8))
			return v, "signature-bit-flipped"
		case 1:
			v.Signature = append([]byte{}, v.Signature...)
			v.Signature[64] ^= 1
			return v, "signature-recovery-bit-flipped"
		case 2:
			v.Signature = make([]byte, 65)
			r.Read(v.Signature)
			v.Signature[64] &= 1
			return v, "signature-random"
		case 3:
			k := keys()[16+r.Intn(4)]
			if n > 1 && r.Intn(2) == 0 {
				k = w.keys[(idx+1+r.Intn(n-1))%n]
			}
			v.Signature = w.sign(k, g.chain, g.height, g.round, g.typ, id, v.Timestamp)
			return v, "signature-by-other-key"
		case 4:
			v.Signature = append([]byte{}, v.Signature...)
			v.Signature[64] |= 4
			g.sent = append(g.sent, v)
			return v, "signature-recovery-id-with-compressed-flag"
		}
		ln := []int{0, 1, 10, 32, 64, 66, 130}[r.Intn(7)]
		s := append(append([]byte{}, v.Signature...), v.Signature...)
		v.Signature = s[:ln]
		return v, fmt.Sprintf("signature-length-%d", ln)
	}
	v := good()
	g.sent = append(g.sent, v)
	return v, "well-formed"
}

// ---- candidate sets ----

func pickCands(r *rand.Rand) []types.BlockID {
	switch r.Intn(8) {
	case 0:
		return []types.BlockID{idA, idNil}
	case 1:
		return []types.BlockID{idA, idAt} // differ in the parts total only
	case 2:
		return []types.BlockID{idA, idAt, idNil}
	case 3:
		return []types.BlockID{idA, idB, idNil}
	case 4:
		return []types.BlockID{idA, idAp, idAt, idAh}
	case 5:
		return []types.BlockID{idNil, idA, idB}
	case 6:
		return []types.BlockID{idAt, idA, idAp}
	}
	return []types.BlockID{idA, idB, idAp, idAt, idNil}
}

func pickN(r *rand.Rand) int {
	if r.Intn(3) == 0 {
		return 1 + r.Intn(4)
	}
	return 1 + r.Intn(12)
}

// ---- group "seq": random sequences against one VoteSet ----

func seqCase(c *core.Case) {
	r := c.R
	n := pickN(r)
	class := powerClasses[r.Intn(len(powerClasses))]
	w := newWorld(powerVector(r, n, class))
	defer w.st.flush(c.Run)
	typ := int32(1 + r.Intn(2))
	height := uint64(1 + r.Intn(3))
	if r.Intn(10) == 0 {
		height = 1 + uint64(r.Int63n(1<<40))
	}
	round := uint32(1 + r.Intn(3))
	cands := pickCands(r)
	s := newSession(c, w, chainID, height, round, typ, cands)
	g := &gen{r: r, w: w, chain: chainID, height: height, round: round, typ: typ, cands: cands}
	m := 3 + r.Intn(4*n+1)
	peerP := []int{0, 8, 8, 5, 3}[r.Intn(5)]
	for i := 0; i < m && !s.dead; i++ {
		if peerP > 0 && r.Intn(peerP) == 0 {
			s.peerClaim(fmt.Sprintf("peer%d", r.Intn(3)), cands[r.Intn(len(cands))])
			continue
		}
		v, label := g.next()
		s.addVote(v, label)
	}
	finishSession(c, r, s, class, 3)
}

// finishSession: evidence + a few manglings of the last commit the set produced.
func finishSession(c *core.Case, r *rand.Rand, s *session, class string, manglings int) {
	run := s.w.st
	run.Count("sequences", 1)
	run.Distinct("power_classes", class)
	run.Distinct("set_sizes", fmt.Sprint(s.w.n()))
	run.Distinct("total_mod_3", new(big.Int).Mod(s.w.rv.total, big.NewInt(3)).String())
	if s.dead {
		return
	}
	if s.lastCommit != nil && manglings != 0 {
		x := commitCtx{w: s.w, vals: s.w.vals, rv: s.w.rv, chain: s.chain, id: s.lastCommit.BlockID, height: s.t.height}
		if mangleAll(c, r, s.tag, x, s.lastCommit, manglings) {
			return
		}
	}
	if s.crossings > 0 || s.conflicts > 0 {
		c.Run.Nontrivial(fmt.Sprintf("%s:%d", c.Group, c.I))
	}
	if c.I < 2 && c.Group == "seq" {
		tr := *s.trace
		if len(tr) > 10 {
			tr = tr[:10]
		}
		c.Run.Sample(map[string]interface{}{"group": c.Group, "case": c.I, "power_class": class, "powers_by_index": s.w.orderedPowers(), "type": s.t.typ, "ops_prefix": tr})
	}
}

// ---- group "commit": hand-built commits at the quorum boundary + the whole mangling library ----

func commitCase(c *core.Case) {
	r := c.R
	n := pickN(r)
	class := powerClasses[r.Intn(len(powerClasses))]
	w := newWorld(powerVector(r, n, class))
	defer w.st.flush(c.Run)
	commitBases(c, r, w, class, r.Intn(3) == 0)
	w.st.Count("commit_cases", 1)
}

func commitBases(c *core.Case, r *rand.Rand, w *world, class string, all bool) {
	run := w.st
	n := w.n()
	height := uint64(1 + r.Intn(5))
	round := uint32(1 + r.Intn(3))
	id := []types.BlockID{idA, idB, idAt}[r.Intn(3)]
	picks := remarkableSubsets(w.rv)
	var rnd []int
	for i := 0; i < n; i++ {
		if r.Intn(4) != 0 {
			rnd = append(rnd, i)
		}
	}
	picks = append(picks, subsetPick{"random", rnd})
	for _, p := range picks {
		in := map[int]bool{}
		for _, i := range p.set {
			in[i] = true
		}
		var nil_ []int
		for i := 0; i < n; i++ {
			if !in[i] && r.Intn(3) == 0 {
				nil_ = append(nil_, i)
			}
		}
		base := buildCommit(w, chainID, height, round, id, p.set, nil_)
		x := commitCtx{w: w, vals: w.vals, rv: w.rv, chain: chainID, id: id, height: height}
		realOK, ref, dead := judgeCommit(c, "", "base:"+p.name, x, base, commitWitness(x, "base:"+p.name, base))
		if dead {
			return
		}
		run.Count("base_commits:"+p.name, 1)
		if p.name == "exactly-two-thirds" || (p.name == "maximal-non-quorum" && w.rv.exactlyTwoThirds(ref.tally)) {
			run.Count("commits_with_exactly_two_thirds", 1)
		}
		if realOK {
			// an accepted, well-formed commit turns into a vote set that reports the same majority
			var back *types.VoteSet
			wit := commitWitness(x, "CommitToVoteSet(base:"+p.name+")", base)
			if c.Guard("CommitToVoteSet", wit, func() { back = types.CommitToVoteSet(chainID, base, w.vals) }) {
				return
			}
			if m, ok := back.TwoThirdsMajority(); !ok || m != id {
				c.Violation("committovoteset-loses-majority", fmt.Sprintf("CommitToVoteSet of an accepted commit reports (%s,%v)", idName(m), ok), wit())
				return
			}
			again := back.MakeCommit()
			if _, _, d := judgeCommit(c, "", "MakeCommit(CommitToVoteSet(base:"+p.name+"))", x, again, commitWitness(x, "roundtrip", again)); d {
				return
			}
			run.Count("commit_roundtrips", 1)
		} else if ref.clean {
			// a well-formed commit below the quorum still turns into a vote set; it must not report a majority
			var back *types.VoteSet
			wit := commitWitness(x, "CommitToVoteSet(base:"+p.name+")", base)
			if c.Guard("CommitToVoteSet", wit, func() { back = types.CommitToVoteSet(chainID, base, w.vals) }) {
				return
			}
			if m, ok := back.TwoThirdsMajority(); ok && m == id {
				c.Violation("committovoteset-invents-majority", fmt.Sprintf("CommitToVoteSet of a commit with %v of %v for the block reports a majority", ref.tally, w.rv.total), wit())
				return
			}
			run.Count("subquorum_commits_to_voteset", 1)
		}
		k := 6
		if all {
			k = 0
		}
		if mangleAll(c, r, "", x, base, k) {
			return
		}
	}
	run.Distinct("power_classes", class)
	run.Distinct("set_sizes", fmt.Sprint(n))
	c.Run.Nontrivial(fmt.Sprintf("%s:%d", c.Group, c.I))
}
