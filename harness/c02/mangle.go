package c02

import (
	"fmt"
	"math/rand"
	"time"

	"github.com/kardiachain/go-kardia/lib/common"
	"github.com/kardiachain/go-kardia/types"

	"verifharness/core"
)

// commitCtx is what a commit is verified against.
type commitCtx struct {
	w      *world
	vals   *types.ValidatorSet // normally w.vals
	rv     *refVals
	chain  string
	id     types.BlockID
	height uint64
}

func cloneCommit(cm *types.Commit) *types.Commit {
	sigs := make([]types.CommitSig, len(cm.Signatures))
	for i, s := range cm.Signatures {
		sigs[i] = s
		sigs[i].Signature = append([]byte(nil), s.Signature...)
	}
	return types.NewCommit(cm.Height, cm.Round, cm.BlockID, sigs)
}

// buildCommit makes a commit by hand: forBlock sign id, forNil sign nil, the rest are absent.
func buildCommit(w *world, chain string, height uint64, round uint32, id types.BlockID, forBlock, forNil []int) *types.Commit {
	sigs := make([]types.CommitSig, w.n())
	for i := range sigs {
		sigs[i] = types.NewCommitSigAbsent()
	}
	for _, i := range forBlock {
		ts := baseTime.Add(time.Duration(i) * time.Millisecond)
		sigs[i] = types.CommitSig{BlockIDFlag: types.BlockIDFlagCommit, ValidatorAddress: w.keys[i].addr, Timestamp: ts,
			Signature: w.sign(w.keys[i], chain, height, round, tPrecommit, id, ts)}
	}
	for _, i := range forNil {
		ts := baseTime.Add(time.Duration(i) * time.Millisecond)
		sigs[i] = types.CommitSig{BlockIDFlag: types.BlockIDFlagNil, ValidatorAddress: w.keys[i].addr, Timestamp: ts,
			Signature: w.sign(w.keys[i], chain, height, round, tPrecommit, idNil, ts)}
	}
	return types.NewCommit(height, round, id, sigs)
}

func slotsWith(cm *types.Commit, f types.BlockIDFlag) []int {
	var o []int
	for i, s := range cm.Signatures {
		if s.BlockIDFlag == f {
			o = append(o, i)
		}
	}
	return o
}

func pick(r *rand.Rand, l []int) (int, bool) {
	if len(l) == 0 {
		return 0, false
	}
	return l[r.Intn(len(l))], true
}

type mangler struct {
	name string
	// fn returns the mangled commit and the context to verify it in; ok=false when not applicable to this base.
	fn func(r *rand.Rand, x commitCtx, base *types.Commit) (*types.Commit, commitCtx, bool)
}

func alterID(id types.BlockID, what string) types.BlockID {
	switch what {
	case "hash":
		id.Hash[31] ^= 1
	case "parts-hash":
		id.PartsHeader.Hash[0] ^= 0x80
	case "parts-total":
		id.PartsHeader.Total++
	}
	return id
}

func manglers() []mangler {
	var l []mangler
	add := func(name string, fn func(r *rand.Rand, x commitCtx, base *types.Commit) (*types.Commit, commitCtx, bool)) {
		l = append(l, mangler{name, fn})
	}
	add("flag:commit->nil", func(r *rand.Rand, x commitCtx, b *types.Commit) (*types.Commit, commitCtx, bool) {
		i, ok := pick(r, slotsWith(b, types.BlockIDFlagCommit))
		if !ok {
			return nil, x, false
		}
		cm := cloneCommit(b)
		cm.Signatures[i].BlockIDFlag = types.BlockIDFlagNil
		return cm, x, true
	})
	add("flag:nil-signature-claimed-for-block", func(r *rand.Rand, x commitCtx, b *types.Commit) (*types.Commit, commitCtx, bool) {
		// every slot that is not for the block carries a VALID nil precommit but is flagged "for block"
		cm := cloneCommit(b)
		any := false
		for i, s := range cm.Signatures {
			if s.BlockIDFlag != types.BlockIDFlagCommit {
				ts := baseTime.Add(time.Duration(i) * time.Millisecond)
				cm.Signatures[i] = types.CommitSig{BlockIDFlag: types.BlockIDFlagCommit, ValidatorAddress: x.w.keys[i].addr, Timestamp: ts,
					Signature: x.w.sign(x.w.keys[i], x.chain, b.Height, b.Round, tPrecommit, idNil, ts)}
				any = true
			}
		}
		return cm, x, any
	})
	add("nil-votes-padded", func(r *rand.Rand, x commitCtx, b *types.Commit) (*types.Commit, commitCtx, bool) {
		// absent slots filled with valid nil precommits: must not change the verdict
		cm := cloneCommit(b)
		any := false
		for i, s := range cm.Signatures {
			if s.BlockIDFlag == types.BlockIDFlagAbsent {
				ts := baseTime.Add(time.Duration(i) * time.Millisecond)
				cm.Signatures[i] = types.CommitSig{BlockIDFlag: types.BlockIDFlagNil, ValidatorAddress: x.w.keys[i].addr, Timestamp: ts,
					Signature: x.w.sign(x.w.keys[i], x.chain, b.Height, b.Round, tPrecommit, idNil, ts)}
				any = true
			}
		}
		return cm, x, any
	})
	add("demote-to-nil-below-quorum", func(r *rand.Rand, x commitCtx, b *types.Commit) (*types.Commit, commitCtx, bool) {
		// for-block signers are replaced one by one by their valid nil precommit until the block has lost its quorum
		cm := cloneCommit(b)
		fb := slotsWith(cm, types.BlockIDFlagCommit)
		r.Shuffle(len(fb), func(i, j int) { fb[i], fb[j] = fb[j], fb[i] })
		for _, i := range fb {
			ts := cm.Signatures[i].Timestamp
			cm.Signatures[i] = types.CommitSig{BlockIDFlag: types.BlockIDFlagNil, ValidatorAddress: x.w.keys[i].addr, Timestamp: ts,
				Signature: x.w.sign(x.w.keys[i], x.chain, b.Height, b.Round, tPrecommit, idNil, ts)}
			if !x.rv.moreThanTwoThirds(bigSum(x.rv, slotsWith(cm, types.BlockIDFlagCommit))) {
				return cm, x, true
			}
		}
		return nil, x, false
	})
	add("absent->commit-without-signature", func(r *rand.Rand, x commitCtx, b *types.Commit) (*types.Commit, commitCtx, bool) {
		cm := cloneCommit(b)
		any := false
		for i, s := range cm.Signatures {
			if s.BlockIDFlag == types.BlockIDFlagAbsent {
				cm.Signatures[i] = types.CommitSig{BlockIDFlag: types.BlockIDFlagCommit, ValidatorAddress: x.w.keys[i].addr, Timestamp: baseTime}
				any = true
			}
		}
		return cm, x, any
	})
	add("absent->commit-garbage-signature", func(r *rand.Rand, x commitCtx, b *types.Commit) (*types.Commit, commitCtx, bool) {
		cm := cloneCommit(b)
		any := false
		for i, s := range cm.Signatures {
			if s.BlockIDFlag == types.BlockIDFlagAbsent {
				g := make([]byte, 65)
				r.Read(g)
				g[64] &= 1
				cm.Signatures[i] = types.CommitSig{BlockIDFlag: types.BlockIDFlagCommit, ValidatorAddress: x.w.keys[i].addr, Timestamp: baseTime, Signature: g}
				any = true
			}
		}
		return cm, x, any
	})
	add("commit->absent", func(r *rand.Rand, x commitCtx, b *types.Commit) (*types.Commit, commitCtx, bool) {
		i, ok := pick(r, slotsWith(b, types.BlockIDFlagCommit))
		if !ok {
			return nil, x, false
		}
		cm := cloneCommit(b)
		cm.Signatures[i] = types.NewCommitSigAbsent()
		return cm, x, true
	})
	add("commit->absent-fields-kept", func(r *rand.Rand, x commitCtx, b *types.Commit) (*types.Commit, commitCtx, bool) {
		i, ok := pick(r, slotsWith(b, types.BlockIDFlagCommit))
		if !ok {
			return nil, x, false
		}
		cm := cloneCommit(b)
		cm.Signatures[i].BlockIDFlag = types.BlockIDFlagAbsent
		return cm, x, true
	})
	add("unknown-flag", func(r *rand.Rand, x commitCtx, b *types.Commit) (*types.Commit, commitCtx, bool) {
		cm := cloneCommit(b)
		cm.Signatures[r.Intn(len(cm.Signatures))].BlockIDFlag = types.BlockIDFlag([]byte{0, 4, 255}[r.Intn(3)])
		return cm, x, true
	})
	add("size+1-absent", func(r *rand.Rand, x commitCtx, b *types.Commit) (*types.Commit, commitCtx, bool) {
		cm := cloneCommit(b)
		cm.Signatures = append(cm.Signatures, types.NewCommitSigAbsent())
		return cm, x, true
	})
	add("size+1-stranger-signature", func(r *rand.Rand, x commitCtx, b *types.Commit) (*types.Commit, commitCtx, bool) {
		cm := cloneCommit(b)
		k := keys()[16]
		cm.Signatures = append(cm.Signatures, types.CommitSig{BlockIDFlag: types.BlockIDFlagCommit, ValidatorAddress: k.addr, Timestamp: baseTime,
			Signature: x.w.sign(k, x.chain, b.Height, b.Round, tPrecommit, b.BlockID, baseTime)})
		return cm, x, true
	})
	add("size-1", func(r *rand.Rand, x commitCtx, b *types.Commit) (*types.Commit, commitCtx, bool) {
		cm := cloneCommit(b)
		cm.Signatures = cm.Signatures[:len(cm.Signatures)-1]
		return cm, x, true
	})
	add("size-1-absent-slot-dropped", func(r *rand.Rand, x commitCtx, b *types.Commit) (*types.Commit, commitCtx, bool) {
		i, ok := pick(r, slotsWith(b, types.BlockIDFlagAbsent))
		if !ok {
			return nil, x, false
		}
		cm := cloneCommit(b)
		cm.Signatures = append(cm.Signatures[:i:i], cm.Signatures[i+1:]...)
		return cm, x, true
	})
	for _, d := range []int{+1, -1} {
		d := d
		add(fmt.Sprintf("commit-height%+d", d), func(r *rand.Rand, x commitCtx, b *types.Commit) (*types.Commit, commitCtx, bool) {
			cm := cloneCommit(b)
			cm.Height = uint64(int64(cm.Height) + int64(d))
			return cm, x, cm.Height >= 1
		})
		add(fmt.Sprintf("commit-and-wanted-height%+d", d), func(r *rand.Rand, x commitCtx, b *types.Commit) (*types.Commit, commitCtx, bool) {
			cm := cloneCommit(b)
			cm.Height = uint64(int64(cm.Height) + int64(d))
			x.height = cm.Height
			return cm, x, cm.Height >= 1
		})
		add(fmt.Sprintf("wanted-height%+d", d), func(r *rand.Rand, x commitCtx, b *types.Commit) (*types.Commit, commitCtx, bool) {
			x.height = uint64(int64(x.height) + int64(d))
			return cloneCommit(b), x, true
		})
		add(fmt.Sprintf("round%+d", d), func(r *rand.Rand, x commitCtx, b *types.Commit) (*types.Commit, commitCtx, bool) {
			cm := cloneCommit(b)
			cm.Round = uint32(int64(cm.Round) + int64(d))
			return cm, x, true
		})
	}
	for _, part := range []string{"hash", "parts-hash", "parts-total"} {
		part := part
		add("commit-blockid-"+part, func(r *rand.Rand, x commitCtx, b *types.Commit) (*types.Commit, commitCtx, bool) {
			cm := cloneCommit(b)
			cm.BlockID = alterID(cm.BlockID, part)
			return cm, x, true
		})
		add("wanted-blockid-"+part, func(r *rand.Rand, x commitCtx, b *types.Commit) (*types.Commit, commitCtx, bool) {
			x.id = alterID(x.id, part)
			return cloneCommit(b), x, true
		})
		add("commit-and-wanted-blockid-"+part, func(r *rand.Rand, x commitCtx, b *types.Commit) (*types.Commit, commitCtx, bool) {
			cm := cloneCommit(b)
			cm.BlockID = alterID(cm.BlockID, part)
			x.id = cm.BlockID
			return cm, x, true
		})
	}
	add("signature-from-other-validator", func(r *rand.Rand, x commitCtx, b *types.Commit) (*types.Commit, commitCtx, bool) {
		fb := slotsWith(b, types.BlockIDFlagCommit)
		if len(fb) == 0 || len(b.Signatures) < 2 {
			return nil, x, false
		}
		j := fb[r.Intn(len(fb))]
		i := (j + 1 + r.Intn(len(b.Signatures)-1)) % len(b.Signatures)
		cm := cloneCommit(b)
		cm.Signatures[i] = cm.Signatures[j]
		cm.Signatures[i].Signature = append([]byte(nil), b.Signatures[j].Signature...)
		cm.Signatures[i].ValidatorAddress = x.w.keys[i].addr
		return cm, x, true
	})
	add("same-signature-in-every-absent-slot", func(r *rand.Rand, x commitCtx, b *types.Commit) (*types.Commit, commitCtx, bool) {
		// one validator's genuine for-block entry copied into all absent slots: its power must count once
		j, ok := pick(r, slotsWith(b, types.BlockIDFlagCommit))
		ab := slotsWith(b, types.BlockIDFlagAbsent)
		if !ok || len(ab) == 0 {
			return nil, x, false
		}
		cm := cloneCommit(b)
		for _, i := range ab {
			cm.Signatures[i] = cm.Signatures[j]
			cm.Signatures[i].Signature = append([]byte(nil), b.Signatures[j].Signature...)
		}
		return cm, x, true
	})
	add("prevote-signatures", func(r *rand.Rand, x commitCtx, b *types.Commit) (*types.Commit, commitCtx, bool) {
		// the same validators' PREVOTE signatures for the same height, round, block and time
		cm := cloneCommit(b)
		any := false
		for i, s := range cm.Signatures {
			if s.BlockIDFlag == types.BlockIDFlagCommit && i < x.w.n() {
				cm.Signatures[i].Signature = x.w.sign(x.w.keys[i], x.chain, b.Height, b.Round, tPrevote, b.BlockID, s.Timestamp)
				any = true
			}
		}
		return cm, x, any
	})
	add("other-chain", func(r *rand.Rand, x commitCtx, b *types.Commit) (*types.Commit, commitCtx, bool) {
		x.chain = x.chain + "-2"
		return cloneCommit(b), x, true
	})
	add("empty-chain", func(r *rand.Rand, x commitCtx, b *types.Commit) (*types.Commit, commitCtx, bool) {
		x.chain = ""
		return cloneCommit(b), x, true
	})
	for _, ln := range []int{1, 10, 32, 64, 66} {
		ln := ln
		add(fmt.Sprintf("signature-length-%d", ln), func(r *rand.Rand, x commitCtx, b *types.Commit) (*types.Commit, commitCtx, bool) {
			i, ok := pick(r, slotsWith(b, types.BlockIDFlagCommit))
			if !ok {
				return nil, x, false
			}
			cm := cloneCommit(b)
			s := append(cm.Signatures[i].Signature, 0, 0)
			cm.Signatures[i].Signature = s[:ln]
			return cm, x, true
		})
	}
	add("signature-bit-flipped", func(r *rand.Rand, x commitCtx, b *types.Commit) (*types.Commit, commitCtx, bool) {
		i, ok := pick(r, slotsWith(b, types.BlockIDFlagCommit))
		if !ok {
			return nil, x, false
		}
		cm := cloneCommit(b)
		cm.Signatures[i].Signature[r.Intn(64)] ^= 1 << uint(r.Intn(8))
		return cm, x, true
	})
	add("timestamp-shifted", func(r *rand.Rand, x commitCtx, b *types.Commit) (*types.Commit, commitCtx, bool) {
		i, ok := pick(r, slotsWith(b, types.BlockIDFlagCommit))
		if !ok {
			return nil, x, false
		}
		cm := cloneCommit(b)
		cm.Signatures[i].Timestamp = cm.Signatures[i].Timestamp.Add(time.Nanosecond)
		return cm, x, true
	})
	add("signatures-rotated", func(r *rand.Rand, x commitCtx, b *types.Commit) (*types.Commit, commitCtx, bool) {
		if len(b.Signatures) < 2 {
			return nil, x, false
		}
		cm := cloneCommit(b)
		cm.Signatures = append(cm.Signatures[1:], cm.Signatures[0])
		return cm, x, true
	})
	add("address-field-of-other-validator", func(r *rand.Rand, x commitCtx, b *types.Commit) (*types.Commit, commitCtx, bool) {
		i, ok := pick(r, slotsWith(b, types.BlockIDFlagCommit))
		if !ok {
			return nil, x, false
		}
		cm := cloneCommit(b)
		cm.Signatures[i].ValidatorAddress = keys()[17].addr
		return cm, x, true
	})
	add("nil-commit", func(r *rand.Rand, x commitCtx, b *types.Commit) (*types.Commit, commitCtx, bool) {
		return nil, x, true
	})
	add("no-signatures", func(r *rand.Rand, x commitCtx, b *types.Commit) (*types.Commit, commitCtx, bool) {
		cm := cloneCommit(b)
		cm.Signatures = nil
		return cm, x, true
	})
	add("nil-block-commit-of-nil-votes", func(r *rand.Rand, x commitCtx, b *types.Commit) (*types.Commit, commitCtx, bool) {
		// everybody validly precommitted nil; the commit claims block id zero and flags the votes "for block"
		cm := cloneCommit(b)
		cm.BlockID = idNil
		x.id = idNil
		for i := range cm.Signatures {
			if i >= x.w.n() {
				break
			}
			cm.Signatures[i] = types.CommitSig{BlockIDFlag: types.BlockIDFlagCommit, ValidatorAddress: x.w.keys[i].addr, Timestamp: baseTime,
				Signature: x.w.sign(x.w.keys[i], x.chain, b.Height, b.Round, tPrecommit, idNil, baseTime)}
		}
		return cm, x, true
	})
	add("validator-set-reweighted", func(r *rand.Rand, x commitCtx, b *types.Commit) (*types.Commit, commitCtx, bool) {
		// same validators in the same order, but the signers of the block now hold at most 2/3:
		// equal powers and a non-quorum count of signers, when the order by power allows to keep indices
		n := len(x.rv.addrs)
		fb := slotsWith(b, types.BlockIDFlagCommit)
		if n < 2 || len(b.Signatures) != n || 3*len(fb) > 2*n {
			return nil, x, false
		}
		var vl []*types.Validator
		for i := 0; i < n; i++ {
			vl = append(vl, types.NewValidator(x.rv.addrs[i], 7))
		}
		nv := types.NewValidatorSet(vl)
		for i, v := range nv.Validators {
			if v.Address != x.rv.addrs[i] {
				return nil, x, false // equal powers are ordered by address: indices moved
			}
		}
		x.vals, x.rv = nv, newRefVals(nv)
		return cloneCommit(b), x, true
	})
	return l
}

// judgeCommit runs the real verifier and the reference on one commit and compares.
// It returns the two verdicts (real accepted, reference ok&&clean).
func judgeCommit(c *core.Case, tag, name string, x commitCtx, cm *types.Commit, wit func() interface{}) (realOK bool, ref commitVerdict, dead bool) {
	run := x.w.st
	var err error
	if c.Guard("ValidatorSet.VerifyCommit["+name+"]", wit, func() { err = x.vals.VerifyCommit(x.chain, x.id, x.height, cm) }) {
		return false, ref, true
	}
	ref = refVerifyCommit(x.rv, x.w.sc, x.chain, x.id, x.height, cm)
	run.Count("evals", 1)
	run.Count("commit_verifications", 1)
	switch {
	case err == nil && !ref.ok:
		c.Violation(tag+"commit-accepted-without-quorum:"+name, fmt.Sprintf("VerifyCommit accepted a commit (%s) that the reference refuses: %s", name, ref.reason), wit())
		return true, ref, true
	case err != nil && ref.ok && ref.clean:
		c.Violation(tag+"well-formed-commit-refused:"+name, fmt.Sprintf("VerifyCommit refused (%v) a well-formed commit (%s) in which %v of %v validly signed the block", err, name, ref.tally, x.rv.total), wit())
		return false, ref, true
	}
	if err == nil {
		run.Count("commits_accepted", 1)
	} else {
		run.Count("commits_refused", 1)
		if ref.ok {
			run.Count("commits_refused_though_quorum_present(malformed-slot)", 1)
		}
	}
	return err == nil, ref, false
}

func commitWitness(x commitCtx, name string, cm *types.Commit) func() interface{} {
	return func() interface{} {
		m := map[string]interface{}{"mangling": name, "chain": x.chain, "wanted_height": x.height, "wanted_block": idName(x.id),
			"powers_by_index": powersOf(x.rv)}
		if cm == nil {
			m["commit"] = nil
			return m
		}
		var sl []string
		for i, s := range cm.Signatures {
			sl = append(sl, fmt.Sprintf("#%d flag=%d addr=%x ts=%d sig=%x(%dB)", i, s.BlockIDFlag, s.ValidatorAddress[:3], s.Timestamp.UnixNano(), common.Fingerprint(s.Signature), len(s.Signature)))
		}
		m["commit"] = map[string]interface{}{"height": cm.Height, "round": cm.Round, "block": idName(cm.BlockID), "slots": sl}
		return m
	}
}

func powersOf(rv *refVals) []string {
	var o []string
	for _, p := range rv.powers {
		o = append(o, p.String())
	}
	return o
}

// mangleAll applies the listed manglings (all when pickN <= 0, else pickN random ones) to a base commit.
func mangleAll(c *core.Case, r *rand.Rand, tag string, x commitCtx, base *types.Commit, pickN int) (dead bool) {
	run := x.w.st
	ms := manglers()
	if pickN > 0 && pickN < len(ms) {
		r.Shuffle(len(ms), func(i, j int) { ms[i], ms[j] = ms[j], ms[i] })
		ms = ms[:pickN]
	}
	for _, m := range ms {
		cm, x2, ok := m.fn(r, x, base)
		if !ok {
			continue
		}
		realOK, ref, d := judgeCommit(c, tag, m.name, x2, cm, commitWitness(x2, m.name, cm))
		if d {
			return true
		}
		run.Count("mangled_commits", 1)
		run.Distinct("manglings_applied", m.name)
		if !realOK && !ref.ok {
			run.Distinct("manglings_refused_by_both", m.name)
		}
	}
	return false
}
