package c02

// Reference side of C02. Nothing in this file calls the code under judgement
// (types.VoteSet, types.Vote.Verify, types.VoteSignBytes, ValidatorSet.VerifyCommit,
// BlockID.Key/Equal, lib/crypto): go-kardia types are used as plain data carriers
// only (struct fields, Go ==). Signatures are checked by re-encoding the signed
// message from the property's field list (chain, height, round, type, block id =
// hash + parts total + parts hash, timestamp), hashing with Keccak-256 and
// recovering the signer with btcec.

import (
	"bytes"
	"crypto/ecdsa"
	"fmt"
	"math/big"
	"time"

	"github.com/btcsuite/btcd/btcec"
	"golang.org/x/crypto/sha3"

	"github.com/kardiachain/go-kardia/lib/common"
	"github.com/kardiachain/go-kardia/types"
)

const (
	tPrevote   = 1
	tPrecommit = 2
)

func keccak(b ...[]byte) []byte {
	h := sha3.NewLegacyKeccak256()
	for _, x := range b {
		h.Write(x)
	}
	return h.Sum(nil)
}

func uvarint(b []byte, v uint64) []byte {
	for v >= 0x80 {
		b = append(b, byte(v)|0x80)
		v >>= 7
	}
	return append(b, byte(v))
}

// refSignBytes is the length-prefixed protobuf encoding of the canonical vote
// (proto/kardiachain/types/canonical.proto: type=1, height=2, round=3,
// block_id=4 {hash=1, part_set_header=2 {total=1, hash=2}}, timestamp=5
// {seconds=1, nanos=2}, chain_id=6), written by hand.
func refSignBytes(chain string, height uint64, round uint32, typ int32, id types.BlockID, ts time.Time) []byte {
	var m []byte
	if typ != 0 {
		m = uvarint(append(m, 0x08), uint64(int64(typ)))
	}
	if height != 0 {
		m = uvarint(append(m, 0x10), height)
	}
	if round != 0 {
		m = uvarint(append(m, 0x18), uint64(round))
	}
	if id != (types.BlockID{}) {
		var p []byte
		if id.PartsHeader.Total != 0 {
			p = uvarint(append(p, 0x08), uint64(id.PartsHeader.Total))
		}
		p = append(append(p, 0x12, 32), id.PartsHeader.Hash[:]...)
		var b []byte
		b = append(append(b, 0x0a, 32), id.Hash[:]...)
		b = append(uvarint(append(b, 0x12), uint64(len(p))), p...)
		m = append(uvarint(append(m, 0x22), uint64(len(b))), b...)
	}
	var t []byte
	if s := ts.Unix(); s != 0 {
		t = uvarint(append(t, 0x08), uint64(s))
	}
	if n := ts.Nanosecond(); n != 0 {
		t = uvarint(append(t, 0x10), uint64(n))
	}
	m = append(uvarint(append(m, 0x2a), uint64(len(t))), t...)
	if chain != "" {
		m = append(uvarint(append(m, 0x32), uint64(len(chain))), chain...)
	}
	return append(uvarint(nil, uint64(len(m))), m...)
}

func pubToAddr(pub *btcec.PublicKey) common.Address {
	var a common.Address
	copy(a[:], keccak(pub.SerializeUncompressed()[1:])[12:])
	return a
}

// recoverSigner returns the address that produced sig ([R||S||V], 65 bytes) over digest.
func recoverSigner(digest, sig []byte) (common.Address, bool) {
	if len(sig) != 65 {
		return common.Address{}, false
	}
	cs := make([]byte, 65)
	cs[0] = sig[64] + 27
	copy(cs[1:], sig[:64])
	pub, _, err := btcec.RecoverCompact(btcec.S256(), cs, digest)
	if err != nil || pub == nil {
		return common.Address{}, false
	}
	return pubToAddr(pub), true
}

type refKey struct {
	priv *btcec.PrivateKey
	addr common.Address
}

func (k *refKey) ecdsa() *ecdsa.PrivateKey { return k.priv.ToECDSA() }

func newRefKey(i int) *refKey {
	priv, pub := btcec.PrivKeyFromBytes(btcec.S256(), keccak([]byte(fmt.Sprintf("verif-c02-key-%d", i))))
	return &refKey{priv: priv, addr: pubToAddr(pub)}
}

// sign returns [R||S||V] over digest.
func (k *refKey) sign(digest []byte) []byte {
	cs, err := btcec.SignCompact(btcec.S256(), k.priv, digest, false)
	if err != nil {
		panic(err)
	}
	out := make([]byte, 65)
	copy(out, cs[1:])
	out[64] = cs[0] - 27
	return out
}

// malleate returns the other signature (r, N-s, v^1) of the same signer over the same digest.
func malleate(sig []byte) []byte {
	out := append([]byte{}, sig...)
	s := new(big.Int).SetBytes(sig[32:64])
	s.Sub(btcec.S256().N, s)
	sb := s.Bytes()
	for i := 32; i < 64; i++ {
		out[i] = 0
	}
	copy(out[64-len(sb):64], sb)
	out[64] ^= 1
	return out
}

// ---- validator set as the reference sees it: index -> (address, power) ----

type refVals struct {
	addrs  []common.Address
	powers []*big.Int
	total  *big.Int
}

func newRefVals(vs *types.ValidatorSet) *refVals {
	r := &refVals{total: new(big.Int)}
	for _, v := range vs.Validators {
		r.addrs = append(r.addrs, v.Address)
		p := big.NewInt(v.VotingPower)
		r.powers = append(r.powers, p)
		r.total.Add(r.total, p)
	}
	return r
}

// moreThanTwoThirds: 3*x > 2*total, exactly.
func (r *refVals) moreThanTwoThirds(x *big.Int) bool {
	return new(big.Int).Mul(x, big.NewInt(3)).Cmp(new(big.Int).Mul(r.total, big.NewInt(2))) > 0
}

func (r *refVals) exactlyTwoThirds(x *big.Int) bool {
	return new(big.Int).Mul(x, big.NewInt(3)).Cmp(new(big.Int).Mul(r.total, big.NewInt(2))) == 0
}

func (r *refVals) power(members map[int]bool) *big.Int {
	s := new(big.Int)
	for i := range members {
		s.Add(s, r.powers[i])
	}
	return s
}

// sigCache memoises signer recovery (pure function of digest and signature).
type sigCache map[string]common.Address

func (sc sigCache) signer(signBytes, sig []byte) (common.Address, bool) {
	if len(sig) != 65 {
		return common.Address{}, false
	}
	d := keccak(signBytes)
	k := string(d) + string(sig)
	if a, ok := sc[k]; ok {
		return a, a != (common.Address{})
	}
	a, ok := recoverSigner(d, sig)
	if !ok {
		a = common.Address{}
	}
	sc[k] = a
	return a, ok
}

// ---- the tally of one step (chain, height, round, type) ----

type bucket struct {
	peer    bool
	members map[int]bool
}

type tally struct {
	chain  string
	height uint64
	round  uint32
	typ    int32
	vals   *refVals
	sc     sigCache

	// property level
	first    map[int]types.BlockID          // first valid vote of each validator
	firstSig map[int][]byte                 // its signature
	offered  map[types.BlockID]map[int]bool // block id -> validators that validly signed exactly that id for this step
	sumFirst *big.Int

	// exact bookkeeping of what a vote set keeps (votes of equivocators enter a block's
	// tally only when a peer claimed a majority for that block)
	buckets     map[types.BlockID]*bucket
	primary     map[int]types.BlockID
	maj         *types.BlockID
	equivocated map[int]bool
	peerClaims  map[string]types.BlockID
}

func newTally(chain string, height uint64, round uint32, typ int32, vals *refVals, sc sigCache) *tally {
	return &tally{chain: chain, height: height, round: round, typ: typ, vals: vals, sc: sc,
		first: map[int]types.BlockID{}, firstSig: map[int][]byte{}, offered: map[types.BlockID]map[int]bool{},
		sumFirst: new(big.Int), buckets: map[types.BlockID]*bucket{}, primary: map[int]types.BlockID{},
		equivocated: map[int]bool{}, peerClaims: map[string]types.BlockID{}}
}

// validity of a vote for this step, from the vote's own fields.
const (
	vValid       = "valid"
	vBadAddress  = "invalid:address"
	vBadStep     = "invalid:step"
	vBadIndex    = "invalid:index"
	vBadSig      = "invalid:signature"
	cAdded       = "added"
	cDuplicate   = "duplicate"
	cConflict    = "conflict"
	cRejected    = "rejected"
	cNotAsserted = "not-asserted"
)

func (t *tally) validity(v *types.Vote) string {
	if v.ValidatorAddress == (common.Address{}) {
		return vBadAddress
	}
	if v.Height != t.height || v.Round != t.round || int32(v.Type) != t.typ {
		return vBadStep
	}
	if uint64(v.ValidatorIndex) >= uint64(len(t.vals.addrs)) {
		return vBadIndex
	}
	if v.ValidatorAddress != t.vals.addrs[v.ValidatorIndex] {
		return vBadAddress
	}
	signer, ok := t.sc.signer(refSignBytes(t.chain, v.Height, v.Round, int32(v.Type), v.BlockID, v.Timestamp), v.Signature)
	if !ok || signer != t.vals.addrs[v.ValidatorIndex] {
		return vBadSig
	}
	return vValid
}

type expectation struct {
	validity string // of the vote taken alone
	class    string // added / duplicate / conflict / rejected / not-asserted
	added    bool   // expected first return value (when class is asserted)
	crossed  bool   // this vote made the model report a majority
	boundary bool   // after this vote some block's tally is exactly 2/3 of the total
}

// apply feeds one vote to the tally and says what a vote set must answer.
func (t *tally) apply(v *types.Vote) expectation {
	e := expectation{validity: t.validity(v)}
	structural := e.validity == vValid || e.validity == vBadSig
	if structural {
		// a vote already kept for (validator, block id) with the same signature bytes is a duplicate,
		// with other signature bytes a refused re-signing; neither may change any tally.
		i, id := int(v.ValidatorIndex), v.BlockID
		_, hasPrimary := t.primary[i]
		known := (hasPrimary && t.primary[i] == id) || (t.buckets[id] != nil && t.buckets[id].members[i])
		if known {
			if e.validity == vValid {
				t.markOffered(i, id)
			}
			switch {
			case t.equivocated[i]:
				e.class = cNotAsserted
			case bytes.Equal(v.Signature, t.firstSig[i]):
				e.class = cDuplicate
			default:
				e.class = cRejected
			}
			return e
		}
	}
	if e.validity != vValid {
		e.class = cRejected
		return e
	}
	i, id := int(v.ValidatorIndex), v.BlockID
	t.markOffered(i, id)
	if _, voted := t.first[i]; !voted {
		t.first[i] = id
		t.firstSig[i] = append([]byte{}, v.Signature...)
		t.primary[i] = id
		t.sumFirst.Add(t.sumFirst, t.vals.powers[i])
		if t.buckets[id] == nil {
			t.buckets[id] = &bucket{members: map[int]bool{}}
		}
		e.class, e.added = cAdded, true
		t.enter(i, id, &e)
		return e
	}
	// a valid vote for another block id than the ones kept for this validator: equivocation
	e.class = cConflict
	if t.equivocated[i] {
		e.class = cNotAsserted
	}
	t.equivocated[i] = true
	if t.maj != nil && *t.maj == id {
		t.primary[i] = id
	}
	if b := t.buckets[id]; b != nil && b.peer {
		e.added = true
		t.enter(i, id, &e)
	}
	return e
}

func (t *tally) markOffered(i int, id types.BlockID) {
	if t.offered[id] == nil {
		t.offered[id] = map[int]bool{}
	}
	t.offered[id][i] = true
}

func (t *tally) enter(i int, id types.BlockID, e *expectation) {
	b := t.buckets[id]
	b.members[i] = true
	p := t.vals.power(b.members)
	if t.vals.exactlyTwoThirds(p) {
		e.boundary = true
	}
	if t.maj == nil && t.vals.moreThanTwoThirds(p) {
		m := id
		t.maj = &m
		e.crossed = true
		for j := range b.members {
			t.primary[j] = id
		}
	}
}

// peerClaim: a peer says it saw a majority for id. Returns whether an error is expected.
func (t *tally) peerClaim(peer string, id types.BlockID) (wantErr bool) {
	if old, ok := t.peerClaims[peer]; ok {
		return old != id
	}
	t.peerClaims[peer] = id
	if t.buckets[id] == nil {
		t.buckets[id] = &bucket{members: map[int]bool{}}
	}
	t.buckets[id].peer = true
	return false
}

// firstVoteQuorum: the block id, if any, for which validators holding more than 2/3 gave their FIRST valid vote.
func (t *tally) firstVoteQuorum() *types.BlockID {
	sums := map[types.BlockID]*big.Int{}
	for i, id := range t.first {
		if sums[id] == nil {
			sums[id] = new(big.Int)
		}
		sums[id].Add(sums[id], t.vals.powers[i])
	}
	for id, s := range sums {
		if t.vals.moreThanTwoThirds(s) {
			x := id
			return &x
		}
	}
	return nil
}

// ---- reference commit verification ----

type commitVerdict struct {
	ok     bool     // strictly more than 2/3 of the power validly signed exactly (chain, commit.Height, commit.Round, precommit, wantID)
	clean  bool     // every slot is well-formed and every present signature is valid for what its flag says
	reason string   // why not ok
	tally  *big.Int // power of the valid for-block signatures
}

func refVerifyCommit(vals *refVals, sc sigCache, chain string, wantID types.BlockID, wantHeight uint64, cm *types.Commit) commitVerdict {
	v := commitVerdict{tally: new(big.Int)}
	switch {
	case cm == nil:
		v.reason = "nil commit"
		return v
	case wantID == (types.BlockID{}):
		v.reason = "nil block id"
		return v
	case len(cm.Signatures) != len(vals.addrs):
		v.reason = "size"
		return v
	case cm.Height != wantHeight:
		v.reason = "height"
		return v
	case cm.BlockID != wantID:
		v.reason = "block id"
		return v
	}
	v.clean = true
	for i, s := range cm.Signatures {
		switch s.BlockIDFlag {
		case types.BlockIDFlagAbsent:
			if s.ValidatorAddress != (common.Address{}) || !s.Timestamp.IsZero() || len(s.Signature) != 0 {
				v.clean = false
			}
		case types.BlockIDFlagCommit, types.BlockIDFlagNil:
			id := types.BlockID{}
			if s.BlockIDFlag == types.BlockIDFlagCommit {
				id = cm.BlockID
			}
			if !saneTime(s.Timestamp) {
				v.clean = false
				continue
			}
			signer, ok := sc.signer(refSignBytes(chain, cm.Height, cm.Round, tPrecommit, id, s.Timestamp), s.Signature)
			if !ok || signer != vals.addrs[i] {
				v.clean = false
				continue
			}
			if s.ValidatorAddress != vals.addrs[i] {
				v.clean = false // the address field is not signed; the signature still counts
			}
			if s.BlockIDFlag == types.BlockIDFlagCommit {
				v.tally.Add(v.tally, vals.powers[i])
			}
		default:
			v.clean = false
		}
	}
	v.ok = vals.moreThanTwoThirds(v.tally)
	if !v.ok {
		v.reason = fmt.Sprintf("valid for-block power %v of %v", v.tally, vals.total)
	}
	return v
}

func saneTime(t time.Time) bool {
	s := t.Unix()
	return s >= -62135596800 && s < 253402300800
}
