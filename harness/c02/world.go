package c02

import (
	"fmt"
	"math/big"
	"math/rand"
	"sync"
	"time"

	"github.com/kardiachain/go-kardia/lib/common"
	kproto "github.com/kardiachain/go-kardia/proto/kardiachain/types"
	"github.com/kardiachain/go-kardia/types"

	"verifharness/core"
)

// ---- keys ----

var (
	keyOnce sync.Once
	keyPool []*refKey // 0..15 validators, 16..19 strangers
)

func keys() []*refKey {
	keyOnce.Do(func() {
		for i := 0; i < 20; i++ {
			keyPool = append(keyPool, newRefKey(i))
		}
	})
	return keyPool
}

// ---- block id candidates ----

func h(b byte) common.Hash {
	var x common.Hash
	for i := range x {
		x[i] = b
	}
	return x
}

var (
	idNil = types.BlockID{}
	idA   = types.BlockID{Hash: h(0xa1), PartsHeader: types.PartSetHeader{Total: 3, Hash: h(0xb1)}}
	idB   = types.BlockID{Hash: h(0xa2), PartsHeader: types.PartSetHeader{Total: 3, Hash: h(0xb2)}} // other block
	idAp  = types.BlockID{Hash: h(0xa1), PartsHeader: types.PartSetHeader{Total: 3, Hash: h(0xb3)}} // other parts hash only
	idAt  = types.BlockID{Hash: h(0xa1), PartsHeader: types.PartSetHeader{Total: 4, Hash: h(0xb1)}} // other parts TOTAL only
	idAh  = types.BlockID{Hash: h(0xa3), PartsHeader: types.PartSetHeader{Total: 3, Hash: h(0xb1)}} // other hash only
)

func idName(id types.BlockID) string {
	switch id {
	case idNil:
		return "nil"
	case idA:
		return "A"
	case idB:
		return "B(other-block)"
	case idAp:
		return "A'(other-parts-hash)"
	case idAt:
		return "A''(other-parts-total)"
	case idAh:
		return "A*(other-hash)"
	}
	return fmt.Sprintf("%x/%d/%x", id.Hash[:2], id.PartsHeader.Total, id.PartsHeader.Hash[:2])
}

var baseTime = time.Unix(1700000000, 0).UTC()

// ---- world: a validator set with its keys ----

// stats collects a case's counters locally and hands them to the run once (the run's
// counters sit behind one mutex shared by all workers).
type stats struct {
	counts map[string]int
	sets   map[string]map[string]bool
}

func newStats() *stats { return &stats{counts: map[string]int{}, sets: map[string]map[string]bool{}} }

func (s *stats) Count(name string, n int) { s.counts[name] += n }
func (s *stats) Distinct(set, val string) {
	if s.sets[set] == nil {
		s.sets[set] = map[string]bool{}
	}
	s.sets[set][val] = true
}
func (s *stats) flush(run *core.Run) {
	for k, v := range s.counts {
		if k == "evals" {
			run.Eval(v)
			continue
		}
		run.Count(k, v)
	}
	for k, m := range s.sets {
		for v := range m {
			run.Distinct(k, v)
		}
	}
	s.counts, s.sets = map[string]int{}, map[string]map[string]bool{}
}

type world struct {
	st     *stats
	powers []int64 // as requested (before the set ordered them)
	vals   *types.ValidatorSet
	rv     *refVals
	keys   []*refKey // by validator index
	sc     sigCache
	signed map[string][]byte
}

var capTotal = types.MaxTotalVotingPower

func newWorld(powers []int64) *world {
	ks := keys()
	var vl []*types.Validator
	for i, p := range powers {
		vl = append(vl, types.NewValidator(ks[i].addr, p))
	}
	vs := types.NewValidatorSet(vl)
	w := &world{st: newStats(), powers: powers, vals: vs, rv: newRefVals(vs), sc: sigCache{}, signed: map[string][]byte{}}
	for _, v := range vs.Validators {
		for _, k := range ks {
			if k.addr == v.Address {
				w.keys = append(w.keys, k)
			}
		}
	}
	if len(w.keys) != len(powers) {
		panic("harness: key lookup")
	}
	return w
}

func (w *world) n() int { return len(w.keys) }

func (w *world) orderedPowers() []int64 {
	var o []int64
	for _, v := range w.vals.Validators {
		o = append(o, v.VotingPower)
	}
	return o
}

// sign with the reference encoding of the signed message.
func (w *world) sign(k *refKey, chain string, height uint64, round uint32, typ int32, id types.BlockID, ts time.Time) []byte {
	sb := refSignBytes(chain, height, round, typ, id, ts)
	ck := string(k.addr[:]) + string(sb)
	if s, ok := w.signed[ck]; ok {
		return s
	}
	s := k.sign(keccak(sb))
	w.signed[ck] = s
	return s
}

// signReal signs through the code base's own validator signer (types.PrivValidator.SignVote).
func (w *world) signReal(k *refKey, chain string, v *types.Vote) []byte {
	pv := types.NewDefaultPrivValidator(k.ecdsa())
	pb := v.ToProto()
	if err := pv.SignVote(chain, pb); err != nil {
		panic(err)
	}
	return pb.Signature
}

func (w *world) vote(idx int, chain string, height uint64, round uint32, typ int32, id types.BlockID, ts time.Time) *types.Vote {
	return &types.Vote{ValidatorAddress: w.keys[idx].addr, ValidatorIndex: uint32(idx), Height: height, Round: round,
		Timestamp: ts, Type: kproto.SignedMsgType(typ), BlockID: id,
		Signature: w.sign(w.keys[idx], chain, height, round, typ, id, ts)}
}

func copyVote(v *types.Vote) *types.Vote {
	c := *v
	c.Signature = append([]byte{}, v.Signature...)
	return &c
}

// ---- power vectors ----

func split(r *rand.Rand, total int64, parts int) []int64 {
	// random composition of total into `parts` positive parts (total >= parts)
	out := make([]int64, parts)
	for i := range out {
		out[i] = 1
	}
	rest := total - int64(parts)
	for i := 0; i < parts-1 && rest > 0; i++ {
		x := r.Int63n(rest + 1)
		out[i] += x
		rest -= x
	}
	out[parts-1] += rest
	return out
}

var powerClasses = []string{"equal-1", "equal-k", "geometric", "small", "total=0mod3", "total=1mod3", "total=2mod3",
	"one-exactly-1/3", "one-2/3-minus-1", "one-exactly-2/3", "one-2/3-plus-1", "cap-equal", "cap-one-huge", "cap-random", "large-random"}

func powerVector(r *rand.Rand, n int, class string) []int64 {
	p := make([]int64, n)
	modClass := func(m int64) {
		for i := range p {
			p[i] = 1 + int64(r.Intn(9))
		}
		var t int64
		for _, x := range p {
			t += x
		}
		p[r.Intn(n)] += (m - t%3 + 3) % 3
	}
	oneAnd := func(k int64, first, rest int64) {
		// total 3k; validator 0 gets `first`, the others share `rest`
		if n == 1 || rest < int64(n-1) {
			modClass(0)
			return
		}
		p[0] = first
		copy(p[1:], split(r, rest, n-1))
	}
	switch class {
	case "equal-1":
		for i := range p {
			p[i] = 1
		}
	case "equal-k":
		k := 1 + int64(r.Intn(1000))
		for i := range p {
			p[i] = k
		}
	case "geometric":
		for i := range p {
			p[i] = 1 << uint(i)
		}
	case "small":
		for i := range p {
			p[i] = 1 + int64(r.Intn(5))
		}
	case "total=0mod3":
		modClass(0)
	case "total=1mod3":
		modClass(1)
	case "total=2mod3":
		modClass(2)
	case "one-exactly-1/3":
		k := int64(n) + int64(r.Intn(50))
		oneAnd(k, k, 2*k)
	case "one-2/3-minus-1":
		k := int64(n) + int64(r.Intn(50))
		oneAnd(k, 2*k-1, k+1)
	case "one-exactly-2/3":
		k := int64(n) + int64(r.Intn(50))
		oneAnd(k, 2*k, k)
	case "one-2/3-plus-1":
		k := int64(n) + 1 + int64(r.Intn(50))
		oneAnd(k, 2*k+1, k-1)
	case "cap-equal":
		for i := range p {
			p[i] = capTotal / int64(n)
		}
	case "cap-one-huge":
		for i := range p {
			p[i] = 1 + int64(r.Intn(3))
		}
		p[0] = capTotal - 3*int64(n)
	case "cap-random":
		copy(p, split(r, capTotal-int64(r.Intn(3)), n))
	default: // large-random
		for i := range p {
			p[i] = 1 + r.Int63n(capTotal/16)
		}
	}
	// contract of NewValidatorSet: total within the cap
	t := new(big.Int)
	for _, x := range p {
		t.Add(t, big.NewInt(x))
	}
	if t.Cmp(big.NewInt(capTotal)) > 0 {
		panic("harness: power vector above cap")
	}
	return p
}

// subsets with remarkable sums (n <= 12: all 2^n subsets are enumerated).
type subsetPick struct {
	name string
	set  []int
}

func remarkableSubsets(rv *refVals) []subsetPick {
	n := len(rv.addrs)
	two := new(big.Int).Mul(rv.total, big.NewInt(2))
	var minQ, maxNQ, exact *big.Int
	var minQm, maxNQm, exactM int
	for m := 1; m < 1<<uint(n); m++ {
		s := new(big.Int)
		for i := 0; i < n; i++ {
			if m>>uint(i)&1 == 1 {
				s.Add(s, rv.powers[i])
			}
		}
		c := new(big.Int).Mul(s, big.NewInt(3)).Cmp(two)
		switch {
		case c > 0:
			if minQ == nil || s.Cmp(minQ) < 0 {
				minQ, minQm = s, m
			}
		case c == 0:
			exact, exactM = s, m
			fallthrough
		default:
			if maxNQ == nil || s.Cmp(maxNQ) > 0 {
				maxNQ, maxNQm = s, m
			}
		}
	}
	mk := func(m int) []int {
		var o []int
		for i := 0; i < n; i++ {
			if m>>uint(i)&1 == 1 {
				o = append(o, i)
			}
		}
		return o
	}
	var out []subsetPick
	if minQ != nil {
		out = append(out, subsetPick{"minimal-quorum", mk(minQm)})
	}
	if maxNQ != nil {
		out = append(out, subsetPick{"maximal-non-quorum", mk(maxNQm)})
	}
	if exact != nil {
		out = append(out, subsetPick{"exactly-two-thirds", mk(exactM)})
	}
	return out
}
