package c16

import (
	"bytes"
	"fmt"
	"io"
	"strings"
	"sync"

	"github.com/kardiachain/go-kardia/lib/rlp"
	"github.com/kardiachain/go-kardia/types"

	"verifharness/core"
)

// Group pool: encoding is deterministic also when encodings overlap in time. The encoder takes its buffers from a
// process-wide pool, and the generated EncodeRLP methods (Header, Log, stored receipts and block infos) borrow the
// buffer of the encoder that calls them; a buffer that reaches the pool twice is handed to two encodings at once.
// A case first encodes a set of chain values one by one (expected bytes), then (a) leaves EncodeToReader results
// undrained while other values are encoded and (b) encodes from several goroutines at once; every result must be the
// expected bytes. (The children of the other groups run with GOMAXPROCS=1; this group asks for more.)

func groupPool(c *core.Case) {
	r, run := c.R, c.Run
	var vals []interface{}
	for i := 0; i < 6; i++ {
		h := &types.Header{Height: genUint(r, 64), NumTxs: genUint(r, 64), GasLimit: genUint(r, 64), ProposerAddress: rndAddr(r),
			LastCommitHash: rndHash(r), TxHash: rndHash(r), ValidatorsHash: rndHash(r), NextValidatorsHash: rndHash(r), AppHash: rndHash(r)}
		vals = append(vals, h, genLog(r))
		rc := genReceipt(r)
		vals = append(vals, (*types.ReceiptForStorage)(rc))
		vals = append(vals, types.NewTransaction(genUint(r, 64), rndAddr(r), genBig(r), genUint(r, 64), genBig(r), genBytes(r)))
	}
	want := make([][]byte, len(vals))
	for i, v := range vals {
		b, err := rlp.EncodeToBytes(v)
		if err != nil {
			run.Inconclusive(fmt.Sprintf("pool case %d: %T does not encode: %v", c.I, v, err))
			return
		}
		want[i] = b
	}
	run.Eval(1)
	bad := func(how string, i int, got []byte, err interface{}) {
		slug := strings.NewReplacer(" ", "-", ",", "").Replace(how)
		c.Violation("encoding-not-deterministic:"+slug, fmt.Sprintf("%T encoded %s gives %s (err %v); encoded alone it gives %s", vals[i], how, hexs(got), err, hexs(want[i])), nil)
	}
	// (a) readers left open across other encodings
	var readers []io.Reader
	var idx []int
	for k := 0; k < 12; k++ {
		i := r.Intn(len(vals))
		_, rd, err := rlp.EncodeToReader(vals[i])
		if err != nil {
			bad("through EncodeToReader", i, nil, err)
			return
		}
		readers, idx = append(readers, rd), append(idx, i)
		j := r.Intn(len(vals))
		if b, err := rlp.EncodeToBytes(vals[j]); err != nil || !bytes.Equal(b, want[j]) {
			bad("while an EncodeToReader result was not yet drained", j, b, err)
			return
		}
		if r.Intn(2) == 0 && len(readers) > 0 {
			n := r.Intn(len(readers))
			b, err := io.ReadAll(readers[n])
			if err != nil || !bytes.Equal(b, want[idx[n]]) {
				bad("through EncodeToReader, drained after other encodings", idx[n], b, err)
				return
			}
			readers, idx = append(readers[:n], readers[n+1:]...), append(idx[:n], idx[n+1:]...)
		}
		run.Count("pool_interleaved_encodings", 1)
	}
	for n, rd := range readers {
		b, err := io.ReadAll(rd)
		if err != nil || !bytes.Equal(b, want[idx[n]]) {
			bad("through EncodeToReader, drained after other encodings", idx[n], b, err)
			return
		}
	}
	// (b) concurrent encoders
	var wg sync.WaitGroup
	var mu sync.Mutex
	failed := false
	for g := 0; g < 6; g++ {
		wg.Add(1)
		go func(g int) {
			defer wg.Done()
			for k := 0; k < 150; k++ {
				i := (g*31 + k*7) % len(vals)
				var b []byte
				var err interface{}
				func() {
					defer func() {
						if p := recover(); p != nil {
							err = fmt.Sprint("panic: ", p)
						}
					}()
					var e error
					b, e = rlp.EncodeToBytes(vals[i])
					if e != nil {
						err = e
					}
				}()
				if err != nil || !bytes.Equal(b, want[i]) {
					mu.Lock()
					if !failed {
						failed = true
						bad("concurrently with other encodings", i, b, err)
					}
					mu.Unlock()
					return
				}
			}
		}(g)
	}
	wg.Wait()
	run.Count("pool_concurrent_encodings", 6*150)
	run.Nontrivial(fmt.Sprint("pool", c.I))
}

var _ = core.Opts{}
