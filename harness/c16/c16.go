// Package c16 decides C16: lib/rlp encodes canonically and deterministically, round-trips every
// supported value, agrees with go-ethereum v1.9.15 on the common subset, accepts a byte string only
// if it is canonical RLP (and, for injective types, the encoding of the value it decodes to), never
// panics and never allocates more than the input justifies; transactions, receipts, accounts and
// headers keep their hashes and fields across encode/decode.
//
// Oracles: an independent strict canonical-RLP parser (strict.go), an independent model encoder
// over run-time generated types (typegen.go), go-ethereum's rlp as a second implementation, and
// runtime.MemStats.TotalAlloc deltas around every decode.
package c16

import (
	"bytes"
	"encoding/hex"
	"encoding/json"
	"errors"
	"fmt"
	"io"
	"math/big"
	"os"
	"reflect"
	"runtime"
	"strings"
	"testing/iotest"

	grlp "github.com/ethereum/go-ethereum/rlp"
	"github.com/kardiachain/go-kardia/lib/rlp"

	"verifharness/core"
)

func init() { core.Register("C16", Main) }

// allocation allowance of one decode of an input of n bytes into a type with deepSize t:
// c*n + C with c = allocPerByte + t and C = allocConst + 8*t.
const (
	allocPerByte = 512
	allocConst   = 64 << 10
)

func allowance(n int, t uint64) uint64 {
	return uint64(n)*(allocPerByte+t) + allocConst + 8*t
}

var fullWitness = os.Getenv("VERIF_FULL_WITNESS") != ""

// hexw renders a byte string for a witness (long ones are cut: the case replays from its seed;
// VERIF_FULL_WITNESS=1 prints everything during a replay).
func hexw(b []byte) string {
	if len(b) <= 1500 || fullWitness {
		return hex.EncodeToString(b)
	}
	return fmt.Sprintf("%s...(%d bytes in all; the case replays from its seed)", hex.EncodeToString(b[:1500]), len(b))
}

// hexs renders a byte string for a message.
func hexs(b []byte) string {
	if len(b) <= 48 {
		return hex.EncodeToString(b)
	}
	return fmt.Sprintf("%s...(%d bytes)", hex.EncodeToString(b[:48]), len(b))
}

func (e *env) viol(key, what string, witness interface{}) {
	if fullWitness {
		j, _ := json.MarshalIndent(witness, "", " ")
		fmt.Printf("--- %s: %s\n%s\n", key, what, j)
	}
	e.c.Violation(key, what, witness)
}

func strictClass(err error) string {
	switch err {
	case errEmpty:
		return "empty-input"
	case errMissing:
		return "size-exceeds-input"
	case errLenLeadZero:
		return "length-leading-zero"
	case errLongShort:
		return "long-form-for-short-payload"
	case errSingleWrap:
		return "single-byte-wrapped"
	case errTrailing:
		return "trailing-bytes"
	}
	return "other"
}

type env struct {
	c   *core.Case
	run *core.Run
}

var ms1, ms2 runtime.MemStats

// op runs one call into the code under test under the panic guard and the allocation bound.
// It returns false if the call panicked (already reported).
func (e *env) op(path string, in []byte, tsize uint64, typ string, fn func()) bool {
	var delta uint64
	panicked := e.c.Guard(path, func() interface{} { return map[string]interface{}{"input": hexw(in), "type": typ} }, func() {
		runtime.ReadMemStats(&ms1)
		fn()
		runtime.ReadMemStats(&ms2)
		delta = ms2.TotalAlloc - ms1.TotalAlloc
	})
	if panicked {
		return false
	}
	e.run.Count("decodes_measured", 1)
	e.run.Max("max_alloc_per_decode", int64(delta))
	if lim := allowance(len(in), tsize); delta > lim {
		e.viol("alloc:"+path, fmt.Sprintf("%s allocated %d bytes for an input of %d bytes (allowance %d)", path, delta, len(in), lim),
			map[string]interface{}{"input": hexw(in), "type": typ, "allocated": delta, "allowance": lim})
	}
	return true
}

// ---- readers ----

// opaqueBR is a ByteReader whose length lib/rlp cannot discover (no automatic input limit).
type opaqueBR struct{ r *bytes.Reader }

func (o *opaqueBR) Read(p []byte) (int, error) { return o.r.Read(p) }
func (o *opaqueBR) ReadByte() (byte, error)    { return o.r.ReadByte() }

var errStreamTrailing = errors.New("harness: stream has data after the value")

func atEOF(s *rlp.Stream) error {
	_, _, err := s.Kind()
	switch err {
	case io.EOF:
		return nil
	case nil:
		return errStreamTrailing
	}
	return err
}

// claimed returns the size announced by the first header, read leniently (no canonical checks).
func claimed(b []byte) uint64 {
	if len(b) == 0 {
		return 0
	}
	t := b[0]
	var k int
	switch {
	case t < 0x80:
		return 0
	case t <= 0xb7:
		return uint64(t - 0x80)
	case t <= 0xbf:
		k = int(t - 0xb7)
	case t <= 0xf7:
		return uint64(t - 0xc0)
	default:
		k = int(t - 0xf7)
	}
	var n uint64
	for i := 1; i <= k && i < len(b); i++ {
		n = n<<8 | uint64(b[i])
	}
	if k > len(b)-1 {
		n <<= 8 * uint(k-(len(b)-1)) // length bytes missing: what is there is the high part
	}
	return n
}

// unlimitedOK: which inputs the Stream without any input limit (opaque reader) is fed. An unlimited Stream is
// documented as unprotected against huge TOP-LEVEL sizes ("Decode does not set an input limit for all readers
// and may be vulnerable to panics cause by huge value sizes"), so the first header must announce a modest
// size. Everything nested is bounded by its enclosing list ("For non-toplevel values, Stream returns
// ErrElemTooLarge for values that do not fit into the enclosing list") and is exercised without restriction:
// before the repair of Stream.Kind (stale list limit, see fixed case 6) this path died in make() or allocated
// gigabytes on 11-byte inputs, and a regression shows up under the generic alloc:/panic:/fatal: keys.
func unlimitedOK(b []byte) bool { return claimed(b) <= uint64(len(b))+4096 }

const (
	pDecodeBytes = iota
	pStreamAuto
	pStreamLimit
	pStreamOneByte
	pStreamUnlimited
	pPaths
)

var pathNames = []string{"DecodeBytes", "Stream(bytes.Reader,auto-limit)", "Stream(opaque,limit=len)", "Stream(one-byte-reader,limit=len)", "Stream(opaque,no-limit)"}

func decodeVia(path int, x []byte, target interface{}) error {
	var s *rlp.Stream
	switch path {
	case pDecodeBytes:
		return rlp.DecodeBytes(x, target)
	case pStreamAuto:
		s = rlp.NewStream(bytes.NewReader(x), 0)
	case pStreamLimit:
		s = rlp.NewStream(&opaqueBR{bytes.NewReader(x)}, uint64(len(x)))
		if len(x) == 0 {
			return io.EOF // limit 0 means "no limit"; nothing to decode anyway
		}
	case pStreamOneByte:
		s = rlp.NewStream(iotest.OneByteReader(bytes.NewReader(x)), uint64(len(x)))
		if len(x) == 0 {
			return io.EOF
		}
	case pStreamUnlimited:
		s = rlp.NewStream(&opaqueBR{bytes.NewReader(x)}, 0)
	}
	if err := s.Decode(target); err != nil {
		return err
	}
	return atEOF(s)
}

// ---- raw API walker (Split / SplitList / SplitString / CountValues / list iterator) ----

func rawWalk(b []byte, depth int) (*item, error) {
	k, content, rest, err := rlp.Split(b)
	if err != nil {
		return nil, err
	}
	if len(rest) != 0 {
		return nil, errStreamTrailing
	}
	if k != rlp.List {
		c2, r2, err := rlp.SplitString(b)
		if err != nil || !bytes.Equal(c2, content) || len(r2) != 0 {
			return nil, fmt.Errorf("harness: SplitString disagrees with Split: %v", err)
		}
		return &item{str: content}, nil
	}
	c2, r2, err := rlp.SplitList(b)
	if err != nil || !bytes.Equal(c2, content) || len(r2) != 0 {
		return nil, fmt.Errorf("harness: SplitList disagrees with Split: %v", err)
	}
	n, err := rlp.CountValues(content)
	if err != nil {
		return nil, err
	}
	it := &item{list: true}
	var kidsRaw [][]byte
	p := content
	for len(p) > 0 {
		_, _, rest, err := rlp.Split(p)
		if err != nil {
			return nil, err
		}
		raw := p[:len(p)-len(rest)]
		kidsRaw = append(kidsRaw, raw)
		kid, err := rawWalk(raw, depth+1)
		if err != nil {
			return nil, err
		}
		it.kids = append(it.kids, kid)
		p = rest
	}
	if n != len(it.kids) {
		return nil, fmt.Errorf("harness: CountValues=%d but Split found %d values", n, len(it.kids))
	}
	if depth < 3 {
		iter, err := rlp.NewListIterator(b)
		if err != nil {
			return nil, fmt.Errorf("harness: NewListIterator rejects what Split accepts: %v", err)
		}
		i := 0
		for iter.Next() {
			if iter.Err() != nil {
				return nil, fmt.Errorf("harness: list iterator error where Split has none: %v", iter.Err())
			}
			if i >= len(kidsRaw) || !bytes.Equal(iter.Value(), kidsRaw[i]) {
				return nil, fmt.Errorf("harness: list iterator value %d differs from Split", i)
			}
			i++
		}
		if i != len(kidsRaw) {
			return nil, fmt.Errorf("harness: list iterator yields %d values, Split %d", i, len(kidsRaw))
		}
	}
	return it, nil
}

// ---- Stream API walker ----

const (
	wBytes = iota
	wRaw
	wReadBytes
	wUint
	wModes
)

var wNames = []string{"Bytes", "Raw", "ReadBytes", "Uint"}

var errSizeBeyondInput = errors.New("harness: Stream.Kind announced a size beyond the input without error")

func streamWalk(s *rlp.Stream, mode, inputLen int) (*item, error) {
	k, size, err := s.Kind()
	if err != nil {
		return nil, err
	}
	if size > uint64(inputLen) {
		return nil, errSizeBeyondInput
	}
	if k == rlp.List {
		if _, err := s.List(); err != nil {
			return nil, err
		}
		it := &item{list: true}
		for {
			kid, err := streamWalk(s, mode, inputLen)
			if err == rlp.EOL {
				break
			}
			if err != nil {
				return nil, err
			}
			it.kids = append(it.kids, kid)
		}
		if err := s.ListEnd(); err != nil {
			return nil, err
		}
		return it, nil
	}
	switch {
	case mode == wRaw:
		raw, err := s.Raw()
		if err != nil {
			return nil, err
		}
		it, err := strictDecode(raw)
		if err != nil || it.list {
			return nil, fmt.Errorf("harness: Stream.Raw returned %x for a string: %v", raw, err)
		}
		return it, nil
	case mode == wReadBytes:
		n := int(size)
		if k == rlp.Byte {
			n = 1
		}
		buf := make([]byte, n)
		if err := s.ReadBytes(buf); err != nil {
			return nil, err
		}
		return &item{str: buf}, nil
	case mode == wUint && size <= 8:
		v, err := s.Uint()
		if err != nil {
			return nil, err
		}
		return &item{str: beBytes(v)}, nil
	}
	b, err := s.Bytes()
	if err != nil {
		return nil, err
	}
	return &item{str: b}, nil
}

// hasNonCanonicalInt: some string of at most 8 bytes starts with a zero byte (not a canonical integer).
func (it *item) hasNonCanonicalInt() bool {
	if !it.list {
		return len(it.str) > 0 && len(it.str) <= 8 && it.str[0] == 0
	}
	for _, k := range it.kids {
		if k.hasNonCanonicalInt() {
			return true
		}
	}
	return false
}

// bufWrite writes an item tree through the EncoderBuffer API; strings of at most 8 bytes without a leading
// zero go through WriteUint64, longer canonical integers through WriteBigInt, the rest through WriteBytes.
func bufWrite(w rlp.EncoderBuffer, it *item, n *int) {
	if it.list {
		idx := w.List()
		for _, k := range it.kids {
			bufWrite(w, k, n)
		}
		w.ListEnd(idx)
		return
	}
	*n++
	s := it.str
	alt := *n%2 == 0
	switch {
	case len(s) == 0 && alt:
		w.WriteBool(false)
	case len(s) == 1 && s[0] == 1 && alt:
		w.WriteBool(true)
	case len(s) > 0 && s[0] != 0 && len(s) <= 8 && !alt:
		var v uint64
		for _, b := range s {
			v = v<<8 | uint64(b)
		}
		w.WriteUint64(v)
	case len(s) > 0 && s[0] != 0 && *n%3 == 0:
		w.WriteBigInt(new(big.Int).SetBytes(s))
	case alt:
		w.WriteString(string(s))
	default:
		w.WriteBytes(s)
	}
}

// ---- the generic (untyped) oracle for one byte string ----

type genericStats struct{ accepted bool }

func (e *env) checkGeneric(x []byte, class string) genericStats {
	run, c := e.run, e.c
	run.Eval(1)
	run.Count("strings_checked", 1)
	tree, serr := strictDecode(x)
	wit := func(extra map[string]interface{}) map[string]interface{} {
		m := map[string]interface{}{"input": hexw(x), "class": class}
		if serr != nil {
			m["strict_parser"] = serr.Error()
		} else {
			m["strict_parser"] = "canonical"
		}
		for k, v := range extra {
			m[k] = v
		}
		return m
	}
	if serr == nil {
		if !bytes.Equal(tree.enc(), x) {
			run.Inconclusive(fmt.Sprintf("harness self-check: strict parser accepts %s but the canonical encoder gives %x", hexw(x), tree.enc()))
			return genericStats{}
		}
		run.Count("strings_canonical", 1)
		// the same tree written through the incremental EncoderBuffer API (what rlpgen-generated encoders use)
		e.c.Guard("EncoderBuffer", func() interface{} { return hexw(x) }, func() {
			var sink bytes.Buffer
			w := rlp.NewEncoderBuffer(&sink)
			n := 0
			bufWrite(w, tree, &n)
			viaBytes := w.ToBytes()
			appended := w.AppendToBytes([]byte{0xee})
			ferr := w.Flush()
			if !bytes.Equal(viaBytes, x) || !bytes.Equal(sink.Bytes(), x) || ferr != nil || len(appended) != len(x)+1 || !bytes.Equal(appended[1:], x) {
				e.viol("encoderbuffer-differs", fmt.Sprintf("EncoderBuffer writes %s / %s (flush err %v) for the item whose canonical encoding is %s", hexs(viaBytes), hexs(sink.Bytes()), ferr, hexs(x)), wit(nil))
			}
			run.Count("encoderbuffer_encodings", 1)
		})
	} else {
		run.Count("strings_noncanonical:"+strictClass(serr), 1)
	}

	// 1. interface{} through every decode path
	var firstAccepted interface{}
	for p := 0; p < pPaths; p++ {
		if p == pStreamUnlimited && !unlimitedOK(x) {
			run.Count("unlimited_stream_skipped_huge_header", 1)
			continue
		}
		var v interface{}
		var err error
		if !e.op("interface{}:"+pathNames[p], x, 64, "interface{}", func() { err = decodeVia(p, x, &v) }) {
			continue
		}
		switch {
		case err == nil && serr != nil:
			e.viol("noncanonical-accepted:interface{}:"+strictClass(serr), fmt.Sprintf("%s into interface{} accepts a non-canonical string (%v)", pathNames[p], serr), wit(map[string]interface{}{"path": pathNames[p]}))
		case err != nil && serr == nil:
			e.viol("canonical-rejected:interface{}:"+pathNames[p], fmt.Sprintf("%s into interface{} rejects canonical RLP: %v", pathNames[p], err), wit(map[string]interface{}{"path": pathNames[p]}))
		case err == nil:
			got, gerr := fromGeneric(v)
			if gerr != nil || !got.equal(tree) {
				e.viol("decoded-value-wrong:interface{}", fmt.Sprintf("%s decodes to a different item tree (%v)", pathNames[p], gerr), wit(map[string]interface{}{"path": pathNames[p]}))
			}
			if firstAccepted == nil {
				firstAccepted = v
			}
		}
	}
	if firstAccepted != nil {
		var re []byte
		var err error
		c.Guard("EncodeToBytes(generic)", func() interface{} { return hexw(x) }, func() { re, err = rlp.EncodeToBytes(firstAccepted) })
		if err != nil || !bytes.Equal(re, x) {
			e.viol("reencode-differs:interface{}", fmt.Sprintf("Encode(Decode(x)) != x for interface{}: %x (err %v)", re, err), wit(nil))
		}
	}

	// 2. prefix decoding: rlp.Decode(reader) reads the first value only
	{
		first, n, perr := strictItem(x)
		var v interface{}
		var err error
		if e.op("interface{}:Decode(reader)", x, 64, "interface{}", func() { err = rlp.Decode(bytes.NewReader(x), &v) }) {
			switch {
			case err == nil && perr != nil:
				e.viol("noncanonical-accepted:Decode(reader):"+strictClass(perr), "rlp.Decode accepts a non-canonical first value", wit(nil))
			case err != nil && perr == nil:
				e.viol("canonical-rejected:Decode(reader)", fmt.Sprintf("rlp.Decode rejects a canonical first value of %d bytes: %v", n, err), wit(nil))
			case err == nil:
				if got, gerr := fromGeneric(v); gerr != nil || !got.equal(first) {
					e.viol("decoded-value-wrong:Decode(reader)", "rlp.Decode decodes the first value to a different tree", wit(nil))
				}
			}
		}
		// explicit limit one byte short of the input: the value must fit in the limit
		if len(x) >= 2 {
			L := len(x) - 1
			_, _, lerr := strictItem(x[:L])
			if e.op("interface{}:Stream(limit=len-1)", x, 64, "interface{}", func() {
				err = rlp.NewStream(&opaqueBR{bytes.NewReader(x)}, uint64(L)).Decode(&v)
			}) {
				switch {
				case err == nil && lerr == errMissing:
					e.viol("input-limit-not-enforced", fmt.Sprintf("Stream with limit %d decodes a value that does not lie within the limit", L), wit(map[string]interface{}{"limit": L}))
				case err == nil && lerr != nil:
					e.viol("noncanonical-accepted:Stream(limit):"+strictClass(lerr), fmt.Sprintf("Stream with limit %d accepts a non-canonical first value (%v)", L, lerr), wit(map[string]interface{}{"limit": L}))
				case err != nil && lerr == nil:
					e.viol("canonical-rejected:Stream(limit)", fmt.Sprintf("Stream with limit %d rejects a canonical value lying within the limit: %v", L, err), wit(map[string]interface{}{"limit": L}))
				}
			}
		}
	}

	// 3. RawValue: shallow check only (documented: content of RawValue is not verified)
	{
		sherr := strictShallow(x)
		var rv rlp.RawValue
		var err error
		if e.op("RawValue:DecodeBytes", x, 64, "rlp.RawValue", func() { err = rlp.DecodeBytes(x, &rv) }) {
			switch {
			case err == nil && sherr != nil:
				e.viol("noncanonical-accepted:RawValue:"+strictClass(sherr), fmt.Sprintf("DecodeBytes into RawValue accepts a non-canonical header (%v)", sherr), wit(nil))
			case err != nil && sherr == nil:
				e.viol("canonical-rejected:RawValue", fmt.Sprintf("DecodeBytes into RawValue rejects a canonical value: %v", err), wit(nil))
			case err == nil && serr == errSingleWrap:
				run.Count("rawvalue_accepts_single_byte_wrapped(documented:content-not-verified)", 1)
				fallthrough
			case err == nil && !bytes.Equal(rv, x):
				if bytes.Equal(rv, x) {
					break
				}
				e.viol("decoded-value-wrong:RawValue", fmt.Sprintf("RawValue %x differs from the input", []byte(rv)), wit(nil))
			}
		}
	}

	// 4. raw API (Split, SplitList, SplitString, CountValues, list iterator)
	{
		var got *item
		var err error
		if e.op("raw-api-walk", x, 64, "Split/CountValues", func() { got, err = rawWalk(x, 0) }) {
			switch {
			case err == nil && serr != nil:
				e.viol("noncanonical-accepted:Split/CountValues:"+strictClass(serr), fmt.Sprintf("a full walk with Split/SplitList/CountValues accepts a non-canonical string (%v)", serr), wit(nil))
			case err != nil && serr == nil:
				e.viol("canonical-rejected:Split/CountValues", fmt.Sprintf("raw API rejects canonical RLP: %v", err), wit(nil))
			case err == nil && !got.equal(tree):
				e.viol("decoded-value-wrong:Split/CountValues", "raw API walk gives a different item tree", wit(nil))
			}
		}
		// SplitUint64 on the first value
		var u uint64
		var rest []byte
		first, n, perr := strictItem(x)
		c.Guard("SplitUint64", func() interface{} { return hexw(x) }, func() { u, rest, err = rlp.SplitUint64(x) })
		wantOK := perr == nil && !first.list && len(first.str) <= 8 && !(len(first.str) > 0 && first.str[0] == 0)
		switch {
		case err == nil && !wantOK:
			e.viol("noncanonical-accepted:SplitUint64", fmt.Sprintf("SplitUint64 accepts (value %d) what is not a canonical integer", u), wit(nil))
		case err != nil && wantOK:
			e.viol("canonical-rejected:SplitUint64", fmt.Sprintf("SplitUint64 rejects a canonical integer: %v", err), wit(nil))
		case err == nil:
			if !bytes.Equal(beBytes(u), first.str) || len(rest) != len(x)-n {
				e.viol("decoded-value-wrong:SplitUint64", fmt.Sprintf("SplitUint64 = %d, rest %d bytes", u, len(rest)), wit(nil))
			}
		}
	}

	// 5. Stream API walkers
	for mode := 0; mode < wModes; mode++ {
		for variant := 0; variant < 2; variant++ {
			if variant == 1 && len(x) == 0 {
				continue
			}
			var got *item
			var err error
			name := "Stream-walk(" + wNames[mode] + ")"
			if !e.op(name, x, 64, "Stream API", func() {
				var s *rlp.Stream
				if variant == 0 {
					s = rlp.NewStream(bytes.NewReader(x), 0)
				} else {
					s = rlp.NewStream(iotest.OneByteReader(bytes.NewReader(x)), uint64(len(x)))
				}
				got, err = streamWalk(s, mode, len(x))
				if err == nil {
					err = atEOF(s)
				}
			}) {
				continue
			}
			want := serr == nil && !(mode == wUint && tree.hasNonCanonicalInt())
			switch {
			case err == errSizeBeyondInput:
				e.viol("input-limit-not-enforced:Stream.Kind", "Stream.Kind returns a size beyond the input limit without error", wit(map[string]interface{}{"walker": name}))
			case err == nil && serr != nil:
				e.viol("noncanonical-accepted:"+name+":"+strictClass(serr), fmt.Sprintf("%s accepts a non-canonical string (%v)", name, serr), wit(nil))
			case err == nil && !want:
				e.viol("noncanonical-int-accepted:Stream.Uint", "Stream.Uint accepts an integer with a leading zero byte", wit(nil))
			case err != nil && want:
				e.viol("canonical-rejected:"+name, fmt.Sprintf("%s rejects canonical RLP: %v", name, err), wit(nil))
			case err == nil && !got.equal(tree):
				e.viol("decoded-value-wrong:"+name, "Stream walk gives a different item tree", wit(nil))
			}
		}
	}

	// 6. go-ethereum differential on interface{} (triaged against the strict parser)
	{
		var gv interface{}
		var gerr error
		c.Guard("geth.DecodeBytes", func() interface{} { return hexw(x) }, func() { gerr = grlp.DecodeBytes(x, &gv) })
		run.Count("geth_decodes_compared", 1)
		if (gerr == nil) != (serr == nil) {
			// the reference implementation disagrees with the strict parser: go-kardia was already judged against
			// the parser above; record the class so that the disagreement is visible
			run.Count("geth_disagrees_with_strict_parser", 1)
			run.Distinct("geth_disagreement_inputs", hexw(x))
		}
	}
	return genericStats{accepted: serr == nil}
}

// ---- typed oracle ----

type tcase struct {
	d     *tdesc
	typ   string
	inj   bool
	raw   bool
	geth  bool // type is expressible for go-ethereum v1.9.15 (no "optional")
	tsize uint64
}

func newTcase(d *tdesc) *tcase {
	// go-ethereum v1.9.15 cannot be fed types containing [1]byte: its decodeByteArray calls s.Uint() for a single
	// byte and ignores the error for 0x00 without consuming the byte, so a [][1]byte element 0x00 is read
	// for ever (the slice grows until the process is out of memory). Fixed upstream later; go-kardia has the fix.
	has1 := d.any(func(t *tdesc, _ *fdesc) bool { return t != nil && t.k == tByteArr && t.n == 1 })
	return &tcase{d: d, typ: d.String(), inj: d.injective(), raw: d.hasRaw(), geth: !d.hasOptional() && !has1, tsize: d.deepSize()}
}

func (t *tcase) newPtr(fl int) reflect.Value { return reflect.New(t.d.rtype(fl)) }

func kEncode(v interface{}) (b []byte, err error) { return rlp.EncodeToBytes(v) }

// checkValue: encoding (model, determinism, geth) and round trip of one generated value. Returns the encoding.
func (e *env) checkValue(t *tcase, v reflect.Value, g *vgen) []byte {
	run, c := e.run, e.c
	run.Eval(1)
	p := t.newPtr(0)
	p.Elem().Set(v)
	wit := func(enc []byte, extra string) map[string]interface{} {
		return map[string]interface{}{"type": t.typ, "value": fmt.Sprintf("%+v", v.Interface()), "encoding": hexw(enc), "detail": extra}
	}
	model, merr := menc(t.d, nil, v)
	if merr != nil {
		run.Inconclusive("harness: model encoder failed on a generated value: " + merr.Error())
		return nil
	}
	var enc []byte
	var err error
	if c.Guard("EncodeToBytes", func() interface{} { return wit(nil, "") }, func() { enc, err = kEncode(p.Interface()) }) {
		return nil
	}
	if err != nil {
		e.viol("encode-error", "EncodeToBytes fails on a supported value: "+err.Error(), wit(nil, ""))
		return nil
	}
	run.Count("values_encoded", 1)
	if !bytes.Equal(enc, model) {
		e.viol("encoding-differs-from-model", fmt.Sprintf("encoding differs from the documented rules: got %s, expected %s", hexs(enc), hexs(model)), wit(enc, "expected "+hexw(model)))
		return nil
	}
	if _, serr := strictDecode(enc); serr != nil && !t.raw {
		e.viol("own-encoding-not-canonical", "the encoder's output is not canonical RLP: "+serr.Error(), wit(enc, ""))
	}
	// determinism: again after other work on the pooled buffers, through every encoder entry point
	c.Guard("Encode (other entry points)", func() interface{} { return wit(enc, "") }, func() {
		rlp.EncodeToBytes([]interface{}{uint64(7), "stir the buffer pool", []interface{}{[]byte{1, 2, 3}}})
		if b, err := rlp.EncodeToBytes(p.Interface()); err != nil || !bytes.Equal(b, enc) {
			e.viol("encoding-nondeterministic:EncodeToBytes", fmt.Sprintf("second EncodeToBytes gives %s (err %v)", hexs(b), err), wit(enc, ""))
		}
		var buf bytes.Buffer
		if err := rlp.Encode(&buf, p.Interface()); err != nil || !bytes.Equal(buf.Bytes(), enc) {
			e.viol("encoding-nondeterministic:Encode(writer)", fmt.Sprintf("Encode(io.Writer) gives %s (err %v)", hexs(buf.Bytes()), err), wit(enc, ""))
		}
		size, rd, err := rlp.EncodeToReader(p.Interface())
		if err == nil {
			b, _ := io.ReadAll(iotest.OneByteReader(rd))
			if size != len(enc) || !bytes.Equal(b, enc) {
				e.viol("encoding-nondeterministic:EncodeToReader", fmt.Sprintf("EncodeToReader gives size %d, %s", size, hexs(b)), wit(enc, ""))
			}
		} else {
			e.viol("encoding-nondeterministic:EncodeToReader", "EncodeToReader fails: "+err.Error(), wit(enc, ""))
		}
		if t.d.k == tIface {
			return // EncodeToBytes(nil) is a caller error
		}
		if b, err := rlp.EncodeToBytes(p.Elem().Interface()); err != nil || !bytes.Equal(b, enc) {
			e.viol("encoding-nondeterministic:by-value", fmt.Sprintf("encoding the value instead of the pointer gives %s (err %v)", hexs(b), err), wit(enc, ""))
		}
	})
	// reference implementation, common subset
	var gp reflect.Value
	if t.geth {
		gp = t.newPtr(1)
		gp.Elem().Set(convert(t.d, v, 1))
		var genc []byte
		var gerr error
		c.Guard("geth.EncodeToBytes", func() interface{} { return wit(enc, "") }, func() { genc, gerr = grlp.EncodeToBytes(gp.Interface()) })
		run.Count("geth_encodings_compared", 1)
		if gerr != nil || !bytes.Equal(genc, enc) {
			e.viol("encoding-differs-from-geth", fmt.Sprintf("go-ethereum v1.9.15 encodes the same value as %s (err %v)", hexs(genc), gerr), wit(enc, ""))
		}
	}

	// round trip, fresh target
	fresh := t.newPtr(0)
	var derr error
	if !e.op("roundtrip:DecodeBytes", enc, t.tsize, t.typ, func() { derr = rlp.DecodeBytes(enc, fresh.Interface()) }) {
		return enc
	}
	if derr != nil {
		e.viol("roundtrip-decode-error", "Decode(Encode(v)) fails: "+derr.Error(), wit(enc, ""))
		return enc
	}
	if diff := eqNorm(t.d, nil, v, fresh.Elem(), "v"); diff != "" {
		e.viol("roundtrip-value-differs", "Decode(Encode(v)) != v: "+diff, wit(enc, fmt.Sprintf("decoded %+v", fresh.Elem().Interface())))
		return enc
	}
	if !ignoredUntouched(t.d, reflect.Zero(t.d.rtype(0)), fresh.Elem()) {
		e.viol("ignored-field-written", "a field tagged rlp:\"-\" was written by the decoder", wit(enc, ""))
	}
	re0, err := kEncode(fresh.Interface())
	if err != nil || (t.inj && !bytes.Equal(re0, enc)) {
		e.viol("roundtrip-reencode-differs", fmt.Sprintf("Encode(Decode(Encode(v))) = %s (err %v)", hexs(re0), err), wit(enc, "re-encoded "+hexw(re0)))
		return enc
	}
	if !bytes.Equal(re0, enc) {
		// only with optional fields: a non-nil pointer to an empty value under `nil,optional` comes back nil and is then
		// omitted (two documented normalisations combined). The re-encoding must be a fixed point denoting the same value.
		again := t.newPtr(0)
		if err := rlp.DecodeBytes(re0, again.Interface()); err != nil {
			e.viol("roundtrip-reencode-differs", "the re-encoding of the decoded value does not decode: "+err.Error(), wit(enc, "re-encoded "+hexw(re0)))
		} else if diff := eqNorm(t.d, nil, v, again.Elem(), "v"); diff != "" {
			e.viol("roundtrip-value-differs", "second generation differs: "+diff, wit(enc, "re-encoded "+hexw(re0)))
		} else if re1, _ := kEncode(again.Interface()); !bytes.Equal(re1, re0) {
			e.viol("reencode-not-idempotent", fmt.Sprintf("third generation %s differs from the second %s", hexs(re1), hexs(re0)), wit(enc, "re-encoded "+hexw(re0)))
		}
		run.Count("optional_reencoding_shorter", 1)
	}
	run.Count("values_roundtripped", 1)

	// dirty target: "if the pointer is non-nil, the existing value will be reused" — the result must not depend on it
	dirty := t.newPtr(0)
	dv := g.val(t.d, nil)
	dirty.Elem().Set(dv)
	before := reflect.New(t.d.rtype(0)).Elem()
	before.Set(dv)
	var derr2 error
	if e.op("roundtrip:DecodeBytes(reused target)", enc, t.tsize, t.typ, func() { derr2 = rlp.DecodeBytes(enc, dirty.Interface()) }) {
		if derr2 != nil {
			e.viol("reused-target-decode-error", "decoding into a non-zero target fails: "+derr2.Error(), wit(enc, fmt.Sprintf("target before: %+v", dv.Interface())))
		} else if diff := eqNorm(t.d, nil, v, dirty.Elem(), "v"); diff != "" {
			e.viol("reused-target-value-differs", "decoding into a non-zero target leaves stale data: "+diff, wit(enc, fmt.Sprintf("target before: %+v", dv.Interface())))
		} else if !ignoredUntouched(t.d, before, dirty.Elem()) {
			e.viol("ignored-field-written", "a field tagged rlp:\"-\" was written by the decoder", wit(enc, ""))
		}
		run.Count("reused_target_decodes", 1)
	}
	// stream paths
	for pth := 1; pth < pPaths; pth++ {
		tgt := t.newPtr(0)
		var err error
		if !e.op("roundtrip:"+pathNames[pth], enc, t.tsize, t.typ, func() { err = decodeVia(pth, enc, tgt.Interface()) }) {
			continue
		}
		if err != nil {
			e.viol("roundtrip-decode-error:"+pathNames[pth], "decoding the encoder's output fails: "+err.Error(), wit(enc, ""))
		} else if re, err := kEncode(tgt.Interface()); err != nil || !bytes.Equal(re, re0) {
			e.viol("roundtrip-reencode-differs:"+pathNames[pth], fmt.Sprintf("re-encoding gives %s (err %v)", hexs(re), err), wit(enc, ""))
		}
	}
	// the reference decoder reads go-kardia's encoding
	if t.geth {
		gt := t.newPtr(1)
		var gerr error
		c.Guard("geth.DecodeBytes", func() interface{} { return wit(enc, "") }, func() { gerr = grlp.DecodeBytes(enc, gt.Interface()) })
		if gerr != nil {
			e.viol("geth-rejects-own-encoding", "go-ethereum v1.9.15 cannot decode go-kardia's encoding: "+gerr.Error(), wit(enc, ""))
		} else if re, err := grlp.EncodeToBytes(gt.Interface()); err != nil || !bytes.Equal(re, enc) {
			e.viol("geth-roundtrip-differs", fmt.Sprintf("go-ethereum decodes and re-encodes go-kardia's encoding as %s (err %v)", hexs(re), err), wit(enc, ""))
		}
	}
	return enc
}

// checkTyped: one byte string against one generated type through every decode path.
func (e *env) checkTyped(t *tcase, x []byte, class string) {
	run, c := e.run, e.c
	run.Eval(1)
	run.Count("typed_strings_checked", 1)
	_, serr := strictDecode(x)
	wit := func(path string, extra string) map[string]interface{} {
		s := "canonical"
		if serr != nil {
			s = serr.Error()
		}
		return map[string]interface{}{"type": t.typ, "input": hexw(x), "class": class, "path": path, "strict_parser": s, "detail": extra}
	}
	var acceptedCanon bool // some path accepted x and x is the encoder's output for the decoded value
	var rejected []int     // paths that rejected
	var rejectedErr []error
	var kerr0 error
	for pth := 0; pth < pPaths; pth++ {
		if pth == pStreamUnlimited && !unlimitedOK(x) {
			continue
		}
		tgt := t.newPtr(0)
		var err error
		if !e.op("typed:"+pathNames[pth], x, t.tsize, t.typ, func() { err = decodeVia(pth, x, tgt.Interface()) }) {
			continue
		}
		if pth == 0 {
			kerr0 = err
		}
		if err != nil {
			rejected = append(rejected, pth)
			rejectedErr = append(rejectedErr, err)
			continue
		}
		run.Count("typed_strings_accepted", 1)
		if serr != nil && !t.raw {
			e.viol("noncanonical-accepted:typed:"+strictClass(serr), fmt.Sprintf("%s accepts a non-canonical string (%v)", pathNames[pth], serr), wit(pathNames[pth], fmt.Sprintf("decoded %+v", tgt.Elem().Interface())))
			continue
		}
		var re []byte
		var rerr error
		if c.Guard("EncodeToBytes(decoded)", func() interface{} { return wit(pathNames[pth], "") }, func() { re, rerr = kEncode(tgt.Interface()) }) {
			continue
		}
		if rerr != nil {
			e.viol("decoded-value-not-encodable", "the decoder produced a value the encoder refuses: "+rerr.Error(), wit(pathNames[pth], ""))
			continue
		}
		if bytes.Equal(re, x) {
			acceptedCanon = true
			continue
		}
		if t.inj {
			e.viol("accepted-not-the-encoding-of-decoded-value", fmt.Sprintf("%s accepts x but Encode(Decode(x)) = %s", pathNames[pth], hexs(re)),
				wit(pathNames[pth], fmt.Sprintf("decoded %+v", tgt.Elem().Interface())))
			continue
		}
		// type with optional fields: the explicit form of trailing zero fields is accepted by design; require a fixed point
		t2 := t.newPtr(0)
		if err := rlp.DecodeBytes(re, t2.Interface()); err != nil {
			e.viol("reencoded-value-not-decodable", "Encode(Decode(x)) does not decode: "+err.Error(), wit(pathNames[pth], "re-encoding "+hexw(re)))
		} else if re2, _ := kEncode(t2.Interface()); !bytes.Equal(re2, re) {
			e.viol("reencode-not-idempotent", fmt.Sprintf("Encode(Decode(Encode(Decode(x)))) = %s differs from Encode(Decode(x)) = %s", hexs(re2), hexs(re)), wit(pathNames[pth], ""))
		}
		run.Count("optional_explicit_form_accepted", 1)
	}
	if acceptedCanon {
		run.Nontrivial("t|" + t.typ + "|" + hexw(x))
		for i, pth := range rejected {
			e.viol("canonical-encoding-rejected:"+pathNames[pth], fmt.Sprintf("x is the encoding of a value (another path decodes it and re-encodes to x) but %s rejects it: %v", pathNames[pth], rejectedErr[i]), wit(pathNames[pth], ""))
		}
	}
	// accept/reject differential with go-ethereum on the common subset, triaged against the specification
	if t.geth {
		gt := t.newPtr(1)
		var gerr error
		c.Guard("geth.DecodeBytes", func() interface{} { return wit("geth", "") }, func() { gerr = grlp.DecodeBytes(x, gt.Interface()) })
		run.Count("geth_decodes_compared", 1)
		if (gerr == nil) != (kerr0 == nil) {
			if gerr == nil {
				gre, _ := grlp.EncodeToBytes(gt.Interface())
				if serr == nil && bytes.Equal(gre, x) {
					e.viol("canonical-encoding-rejected:geth-accepts", fmt.Sprintf("go-ethereum decodes x and re-encodes it to x, go-kardia rejects it: %v", kerr0), wit("DecodeBytes", ""))
				} else {
					run.Count("geth_wrong:accepts-noncanonical", 1)
					run.Distinct("geth_disagreement_inputs", t.typ+"|"+hexw(x))
				}
			} else {
				// go-kardia accepted; its acceptance was judged above (strict parser + re-encoding). If it passed, geth is over-strict.
				if acceptedCanon {
					e.viol("geth-rejects-canonical-encoding", fmt.Sprintf("go-kardia accepts x (= Encode(Decode(x))) but go-ethereum v1.9.15 rejects it: %v — triage against the RLP specification", gerr), wit("geth", ""))
				}
			}
		}
	}
}

// ---- groups ----

// corpus of base items for the exhaustive rewrites
func corpusItems() []*item {
	s := func(n int, first byte) *item {
		b := make([]byte, n)
		for i := range b {
			b[i] = byte(i*7 + 1)
		}
		if n > 0 {
			b[0] = first
		}
		return &item{str: b}
	}
	l := func(k ...*item) *item { return &item{list: true, kids: k} }
	rep := func(n int, it *item) *item {
		x := &item{list: true}
		for i := 0; i < n; i++ {
			x.kids = append(x.kids, it)
		}
		return x
	}
	return []*item{
		s(0, 0), s(1, 0x00), s(1, 0x01), s(1, 0x7f), s(1, 0x80), s(1, 0xff), s(2, 0x00), s(2, 0x01), s(8, 0x01), s(9, 0x01),
		s(55, 1), s(56, 1), s(57, 1), s(255, 1), s(256, 1), s(65535, 1), s(65536, 1),
		l(), l(s(0, 0)), l(l()), l(s(1, 0x01)), l(s(1, 0x80)), l(s(1, 1), s(1, 2), s(1, 3)),
		l(s(54, 1)), l(s(55, 1)), l(s(3, 1), l(s(2, 1), l(), s(0, 0)), s(1, 0x7f)),
		rep(55, s(1, 1)), rep(56, s(1, 1)), rep(57, s(1, 1)), rep(255, s(1, 1)), rep(256, s(1, 1)), rep(300, l(s(1, 0x80))),
		l(s(56, 1), l(s(56, 2)), s(1, 5)), nested(5, s(1, 9)), nested(60, l()),
		l(s(8, 0x00), s(8, 0xff), s(9, 0x00)), l(l(l(l(s(60, 1)))), s(0, 0)),
	}
}

func groupRewrites(c *core.Case) {
	e := &env{c, c.Run}
	items := corpusItems()
	if c.I >= len(items) {
		return
	}
	it := items[c.I]
	x := it.enc()
	e.checkGeneric(x, "corpus:canonical")
	c.Run.Nontrivial("corpus|" + it.shape(200) + fmt.Sprint(len(x)))
	allRewrites(it, 12, func(mode int, b []byte) {
		c.Run.Count("rewrites:"+rwNames[mode], 1)
		if mode <= rwSingleLong {
			if _, err := strictDecode(b); err == nil {
				c.Run.Inconclusive("harness self-check: strict parser accepts the non-canonical rewrite " + hexw(b))
			}
		}
		e.checkGeneric(b, "corpus:rewrite:"+rwNames[mode])
	})
	// every truncation and a trailing byte of each header class
	step := 1
	if len(x) > 400 {
		step = len(x) / 97
	}
	for n := 0; n < len(x); n += step {
		e.checkGeneric(x[:n], "corpus:truncated")
		c.Run.Count("truncations", 1)
	}
	for _, tb := range []byte{0x00, 0x7f, 0x80, 0xc0, 0xb8, 0xff} {
		e.checkGeneric(append(append([]byte{}, x...), tb), "corpus:trailing")
		c.Run.Count("trailing_byte", 1)
	}
}

// exhaustive: all strings of length 0..2, and all strings of length 3 and 4 over the header alphabet
func groupExhaustive(c *core.Case) {
	e := &env{c, c.Run}
	const chunks = 64
	if c.I == 0 {
		e.checkGeneric(nil, "exhaustive:len0")
		for a := 0; a < 256; a++ {
			e.checkGeneric([]byte{byte(a)}, "exhaustive:len1")
		}
	}
	for a := c.I * 256 / chunks; a < (c.I+1)*256/chunks; a++ {
		for b := 0; b < 256; b++ {
			e.checkGeneric([]byte{byte(a), byte(b)}, "exhaustive:len2")
		}
	}
	al := hdrAlphabet
	n := len(al)
	tot := n * n * n
	for i := c.I * tot / chunks; i < (c.I+1)*tot/chunks; i++ {
		e.checkGeneric([]byte{al[i/(n*n)], al[i/n%n], al[i%n]}, "exhaustive:len3")
	}
	if !c.Run.Quick() {
		tot = n * n * n * n
		for i := c.I * tot / chunks; i < (c.I+1)*tot/chunks; i++ {
			e.checkGeneric([]byte{al[i/(n*n*n)], al[i/(n*n)%n], al[i/n%n], al[i%n]}, "exhaustive:len4")
		}
	}
	c.Run.Nontrivial(fmt.Sprint("exhaustive-chunk", c.I))
}

const stringsPerCase = 50

func groupStrings(c *core.Case) {
	e := &env{c, c.Run}
	r := c.R
	for k := 0; k < stringsPerCase; k++ {
		var x []byte
		class := ""
		switch r.Intn(6) {
		case 0:
			x, class = randomString(r), "random"
		case 1:
			it := genItem(r, 0)
			x, class = it.enc(), "canonical"
		case 2, 3:
			it := genItem(r, 0)
			if b, m, ok := randomRewrite(r, it); ok {
				x, class = b, "rewrite:"+rwNames[m]
				c.Run.Count("rewrites:"+rwNames[m], 1)
			} else {
				x, class = it.enc(), "canonical"
			}
		default:
			it := genItem(r, 0)
			x, class = mutate(r, it.enc(), 1+r.Intn(2)), "mutated"
		}
		st := e.checkGeneric(x, class)
		if st.accepted || class != "random" {
			c.Run.Nontrivial("s|" + hexw(x))
		}
		if c.I == 0 && k < 3 {
			c.Run.Sample(map[string]interface{}{"group": "strings", "class": class, "input": hexw(x), "canonical": st.accepted})
		}
	}
}

const valuesPerType = 50

func groupValues(c *core.Case) {
	e := &env{c, c.Run}
	r := c.R
	d := genTop(r)
	t := newTcase(d)
	run := c.Run
	run.Count("types_generated", 1)
	fs := map[string]bool{}
	d.features(fs)
	for f := range fs {
		run.Distinct("type_features", f)
	}
	if t.geth {
		run.Count("types_common_with_geth", 1)
	}
	if !t.inj {
		run.Count("types_with_optional", 1)
	}
	// the reflect-built type must be accepted by the type cache; warm it up outside the measured calls
	warm := t.newPtr(0)
	var werr error
	if c.Guard("typecache", func() interface{} { return t.typ }, func() {
		_, werr = rlp.EncodeToBytes(warm.Interface())
		rlp.DecodeBytes([]byte{0xc0}, t.newPtr(0).Interface())
		if t.geth {
			grlp.EncodeToBytes(t.newPtr(1).Interface())
			grlp.DecodeBytes([]byte{0xc0}, t.newPtr(1).Interface())
		}
	}) {
		return
	}
	if werr != nil {
		e.viol("generated-type-refused", "a type of the grammar is refused by the encoder: "+werr.Error(), map[string]interface{}{"type": t.typ})
		return
	}
	for k := 0; k < valuesPerType; k++ {
		g := newVgen(r)
		v := g.val(d, nil)
		enc := e.checkValue(t, v, g)
		if enc == nil {
			continue
		}
		tree, terr := strictDecode(enc)
		if terr == nil && tree.count() >= 2 {
			run.Nontrivial("v|" + t.typ + "|" + hexw(enc))
			run.Distinct("encoding_shapes", tree.shape(40))
		}
		if c.I < 2 && k == 0 {
			run.Sample(map[string]interface{}{"group": "values", "type": t.typ, "value": fmt.Sprintf("%+v", v.Interface()), "encoding": hexw(enc)})
		}
		// negative big.Int must be refused by the encoder
		if k%10 == 0 {
			nv := reflect.New(d.rtype(0))
			nv.Elem().Set(newVgen(r).val(d, nil))
			if makeNegative(r, d, nv.Elem()) {
				var err error
				c.Guard("EncodeToBytes(negative big.Int)", func() interface{} { return t.typ }, func() { _, err = rlp.EncodeToBytes(nv.Interface()) })
				if err != rlp.ErrNegativeBigInt {
					e.viol("negative-bigint-encoded", fmt.Sprintf("a negative big.Int must be refused with ErrNegativeBigInt, got %v", err), map[string]interface{}{"type": t.typ, "value": fmt.Sprintf("%+v", nv.Elem().Interface())})
				}
				run.Count("negative_bigint_refused", 1)
			}
		}
		// byte strings derived from the encoding, against the same type
		if terr != nil {
			continue // RawValue content that is not canonical cannot be rewritten as a tree
		}
		muts := 4
		if len(enc) > 2000 {
			muts = 1
		}
		for m := 0; m < muts; m++ {
			var x []byte
			class := ""
			switch r.Intn(3) {
			case 0:
				if b, mode, ok := randomRewrite(r, tree); ok {
					x, class = b, "rewrite:"+rwNames[mode]
					run.Count("typed_rewrites:"+rwNames[mode], 1)
				}
			case 1:
				x, class = mutate(r, enc, 1), "mutated1"
			default:
				x, class = mutate(r, enc, 2), "mutated2"
			}
			if x == nil {
				continue
			}
			e.checkTyped(t, x, class)
		}
		// a canonical encoding of another value of the same type must of course be accepted (done by checkValue);
		// a canonical encoding of a value of ANOTHER shape exercises the type-level rejections
		if k%5 == 0 {
			e.checkTyped(t, genItem(r, 0).enc(), "foreign-canonical")
		}
	}
}

// adversarial: headers announcing 2^32..2^64-1 bytes and deep nesting, generic and typed
type advT struct {
	A uint64
	B []byte
	C []advT2
	D *[32]byte      `rlp:"nil"`
	T []rlp.RawValue `rlp:"tail"`
}
type advT2 struct {
	X string
	Y []uint16
}
type recT struct {
	V    uint64
	Next *recT `rlp:"nil"`
}

func groupAdversarial(c *core.Case) {
	e := &env{c, c.Run}
	r := c.R
	run := c.Run
	typedTargets := []func() interface{}{
		func() interface{} { return new([]byte) },
		func() interface{} { return new(string) },
		func() interface{} { return new(uint64) },
		func() interface{} { return new([32]byte) },
		func() interface{} { x := new(interface{}); return x },
		func() interface{} { return new([]uint64) },
		func() interface{} { return new([][]byte) },
		func() interface{} { return new(advT) },
		func() interface{} { return new(recT) },
		func() interface{} { return new(rlp.RawValue) },
		func() interface{} { return new([]rlp.RawValue) },
		func() interface{} { return new([]string) },
	}
	checkAll := func(x []byte, class string) {
		e.checkGeneric(x, class)
		for i, mk := range typedTargets {
			for pth := 0; pth < pPaths; pth++ {
				if pth == pStreamUnlimited && !unlimitedOK(x) {
					continue
				}
				tgt := mk()
				var err error
				name := fmt.Sprintf("adversarial:%T:%s", tgt, pathNames[pth])
				if !e.op(name, x, 4096, fmt.Sprintf("%T", tgt), func() { err = decodeVia(pth, x, tgt) }) {
					continue
				}
				if err == nil {
					if _, serr := strictDecode(x); serr != nil && i != 9 && i != 10 && i != 7 {
						e.viol("noncanonical-accepted:typed:"+strictClass(serr), fmt.Sprintf("%s accepts a non-canonical string (%v)", name, serr), map[string]interface{}{"input": hexw(x), "class": class})
					}
					if re, rerr := rlp.EncodeToBytes(tgt); rerr != nil || !bytes.Equal(re, x) {
						e.viol("accepted-not-the-encoding-of-decoded-value", fmt.Sprintf("%s accepts x but Encode(Decode(x)) differs (err %v)", name, rerr), map[string]interface{}{"input": hexw(x), "class": class, "reencoded": hexw(re)})
					}
				}
			}
		}
	}
	switch {
	case c.I < 2*len(hugeSizes):
		// header announcing a huge size: alone, followed by a few bytes, with padded length, nested in lists
		size := hugeSizes[c.I%len(hugeSizes)]
		list := c.I >= len(hugeSizes)
		for _, minLen := range []int{0, 8} {
			h := hugeHeader(list, size, minLen)
			for _, tailLen := range []int{0, 1, 9, 64} {
				tail := make([]byte, tailLen)
				r.Read(tail)
				x := append(append([]byte{}, h...), tail...)
				checkAll(x, "huge-header")
				run.Count("huge_header_inputs", 1)
				// the same inside one and two enclosing lists whose own size is honest
				in1 := encList(x)
				checkAll(in1, "huge-header-in-list")
				checkAll(encList(append([]byte{0x01}, in1...)), "huge-header-in-list2")
				// inside a list that itself announces a huge size
				checkAll(append(hugeHeader(true, size, 0), x...), "huge-header-in-huge-list")
				// as a later element, after honest ones
				checkAll(encList(append(encStr([]byte("abc")), x...)), "huge-header-after-elements")
				// after an element that overruns its (honest, small) enclosing list by its own header: nothing beyond the
				// list may be looked at, least of all believed (regression inputs of the Stream.Kind list-limit repair)
				checkAll(append([]byte{0xc2, 0xc2, 0x00, 0x55}, x...), "huge-header-after-overrunning-list-element")
				checkAll(append([]byte{0xc3, 0x01, 0xc2, 0x00, 0x55}, x...), "huge-header-after-overrunning-list-element")
				checkAll(append([]byte{0xc2, 0x82, 0x00, 0x00}, x...), "huge-header-after-overrunning-string-element")
			}
		}
		run.Nontrivial(fmt.Sprint("huge|", c.I))
	default:
		// deep nesting
		i := c.I - 2*len(hugeSizes)
		depths := []int{56, 100, 1000, 3000, 10000}
		if !run.Quick() {
			depths = append(depths, 30000, 100000)
		}
		depth := depths[i%len(depths)]
		var inner *item
		switch (i / len(depths)) % 4 {
		case 0:
			inner = &item{list: true}
		case 1:
			inner = &item{str: []byte{1}}
		case 2:
			inner = &item{str: make([]byte, 60)}
		case 3:
			inner = &item{list: true, kids: []*item{{str: []byte{0x80}}, {list: true}}}
		}
		it := nested(depth, inner)
		x := it.enc()
		run.Max("max_nesting_depth", int64(depth))
		checkAll(x, "deep-nesting")
		checkAll(x[:len(x)-1], "deep-nesting-truncated")
		checkAll(append(append([]byte{}, x...), 0x00), "deep-nesting-trailing")
		// unbalanced: the innermost announces one byte more than there is
		y := append([]byte{}, x...)
		y[len(y)-len(inner.enc())]++ // first byte of the innermost item: size + 1
		checkAll(y, "deep-nesting-inner-size+1")
		// recursive Go type, `depth` links
		if depth <= 10000 {
			var head *recT
			for k := 0; k < depth; k++ {
				head = &recT{V: uint64(k), Next: head}
			}
			var enc []byte
			var err error
			c.Guard("EncodeToBytes(recursive type)", nil, func() { enc, err = rlp.EncodeToBytes(head) })
			if err != nil {
				e.viol("encode-error:recursive-type", err.Error(), depth)
			} else {
				var back recT
				var derr error
				if e.op("recursive-type:DecodeBytes", enc, 64, "recT", func() { derr = rlp.DecodeBytes(enc, &back) }) {
					n := 0
					for p := &back; p != nil && derr == nil; p = p.Next {
						if p.V != uint64(depth-1-n) {
							derr = fmt.Errorf("link %d holds %d", n, p.V)
						}
						n++
					}
					if derr != nil || n != depth {
						e.viol("roundtrip-value-differs:recursive-type", fmt.Sprintf("recursive type with %d links decodes to %d links (err %v)", depth, n, derr), hexw(enc))
					}
					var g recT
					if gerr := grlp.DecodeBytes(enc, &g); gerr != nil {
						e.viol("geth-rejects-own-encoding", "recursive type: "+gerr.Error(), hexw(enc))
					}
					if genc, _ := grlp.EncodeToBytes(head); !bytes.Equal(genc, enc) {
						e.viol("encoding-differs-from-geth", "recursive type", hexw(enc))
					}
				}
				run.Count("recursive_type_roundtrips", 1)
			}
		}
		run.Nontrivial(fmt.Sprint("deep|", depth, i))
	}
}

func Main() {
	r := core.Start("C16", "exploration")
	r.SetRule("value case: a value of a run-time generated type (reflect.StructOf/SliceOf/ArrayOf/PtrTo over uints, big ints, bool, string, []byte, [n]byte, RawValue, interface{}, pointers with nil/nilList/nilString/optional/tail/- tags) whose encoding has at least 2 RLP items, distinct by (type, encoding); " +
		"string case: a byte string that is canonical RLP or a one/two-edit neighbour of a canonical encoding (non-canonical header rewrite, mutation, truncation), distinct by content; typed string case: a string that a generated type accepts; " +
		"every case is judged by an independent strict canonical-RLP parser, an independent model encoder, go-ethereum v1.9.15, and TotalAlloc deltas")
	r.Assume("RawValue content is not validated by the decoder (documented in raw.go); types with RawValue are exempt from the deep byte-level check and judged by Encode(Decode(x)) == x")
	r.Assume("types with `optional` fields accept both the short and the explicit form of trailing zero fields (documented); only byte-level canonicity and a re-encoding fixed point are asserted for them")
	r.Assume("an unlimited Stream over a reader of unknown length is documented as unprotected against huge top-level sizes; that path only sees inputs whose first header announces at most len(input)+4096 bytes")
	r.Assume(fmt.Sprintf("allocation allowance per decode: (%d + T)*len(input) + %d + 8*T bytes, T = in-memory size of one value of the target type", allocPerByte, allocConst))
	r.Assume("uint256.Int (holiman v1.1.1) has EncodeRLP but lib/rlp has no decoder for it: encode-only, checked against the integer encoding in the fixed corpus")

	// children are single-goroutine (TotalAlloc deltas are attributed to one decode); GOMAXPROCS=1 makes the two
	// ReadMemStats stop-the-world pauses per decode three times cheaper
	// A stalled child is reported as inconclusive, not as a violation: "never hangs" is not part of C16 and the
	// largest cases (nesting depth 100 000, 400 kB inputs through ~100 decodes) can take minutes on a loaded machine.
	child := core.Opts{Procs: r.N(8, 16), StallSec: 900, MemMB: 4096, Env: []string{"GOMAXPROCS=1"}}
	// development aid: VERIF_C16_GROUPS=values,strings runs only those groups (the floors then report what is missing)
	sel := os.Getenv("VERIF_C16_GROUPS")
	cases := func(name string, n int, fn func(*core.Case)) {
		if sel == "" || strings.Contains(","+sel+",", ","+name+",") {
			r.Cases(name, n, child, fn)
		}
	}
	cases("fixed", fixedCases, groupFixed)
	cases("rewrites", len(corpusItems()), groupRewrites)
	cases("exhaustive", 64, groupExhaustive)
	cases("adversarial", 2*len(hugeSizes)+r.N(20, 28), groupAdversarial)
	cases("values", r.N(300, 20000), groupValues)
	cases("strings", r.N(50000, 20000000)/stringsPerCase, groupStrings)
	cases("chain", r.N(400, 40000), groupChain)
	if sel == "" || strings.Contains(","+sel+",", ",recursive,") {
		// one case per child process: which member of a recursive type family the codec meets first matters
		r.Cases("recursive", 18, core.Opts{Procs: 18, StallSec: 300, MemMB: 2048, Env: []string{"GOMAXPROCS=1"}}, groupRecursive)
	}
	if sel == "" || strings.Contains(","+sel+",", ",pool,") {
		// overlapping encodings need real parallelism: own child options
		r.Cases("pool", r.N(48, 3000), core.Opts{Procs: 4, Workers: 2, StallSec: 900, MemMB: 4096, Env: []string{"GOMAXPROCS=4"}}, groupPool)
	}

	r.Floor("values_roundtripped", int64(r.N(10000, 700000)))
	r.Floor("types_generated", int64(r.N(300, 20000)))
	r.Floor("types_with_optional", 20)
	r.Floor("types_common_with_geth", 100)
	r.Floor("geth_encodings_compared", int64(r.N(5000, 300000)))
	r.Floor("geth_decodes_compared", int64(r.N(50000, 5000000)))
	r.Floor("strings_checked", int64(r.N(100000, 20000000)))
	r.Floor("strings_canonical", 10000)
	r.Floor("typed_strings_accepted", 1000)
	r.Floor("huge_header_inputs", 200)
	r.Floor("decodes_measured", 500000)
	r.Floor("tx_roundtrips", 100)
	r.Floor("receipt_roundtrips", 100)
	r.Floor("account_roundtrips", 100)
	r.Floor("header_roundtrips", 100)
	r.Floor("pool_concurrent_encodings", 10000)
	r.Floor("recursive_values_roundtripped", 18)
	for _, m := range []string{"len-leading-zero", "long-form-short-payload", "single-byte-wrapped", "size+1", "size-1", "size=2^32", "size=2^64-1"} {
		r.Floor("rewrites:"+m, 50)
	}
	r.Finish()
}
