package c16

// Byte-string workloads: non-canonical rewrites of valid encodings, random mutations,
// random strings over a header-biased alphabet, adversarial headers and deep nesting.

import (
	"math/rand"
)

// rewrite modes (each makes exactly one header of the encoding deviate)
const (
	rwLeadZero   = iota // long-form length with one leading zero byte
	rwLeadZeros         // long-form length padded to 8 bytes with zeros
	rwLongShort         // long form (1 length byte) for a payload < 56
	rwLongShort0        // long form with 2 length bytes 00 nn for a payload < 56
	rwSingleWrap        // single byte < 0x80 wrapped as 0x81 b
	rwSingleLong        // single byte < 0x80 as 0xb8 0x01 b
	rwSizePlus1         // announced size one larger than the content
	rwSizeMinus1        // announced size one smaller than the content
	rwHuge32            // announced size 2^32 (content unchanged)
	rwHuge64            // announced size 2^64-1 (content unchanged)
	rwFlipKind          // string header turned into list header of the same size and vice versa
	rwModes
)

var rwNames = []string{"len-leading-zero", "len-leading-zeros8", "long-form-short-payload", "long-form-00nn", "single-byte-wrapped",
	"single-byte-long-form", "size+1", "size-1", "size=2^32", "size=2^64-1", "kind-flip"}

func rawHeader(base byte, lenBytes []byte) []byte {
	return append([]byte{base + 55 + byte(len(lenBytes))}, lenBytes...)
}

func pad(b []byte, n int) []byte {
	for len(b) < n {
		b = append([]byte{0}, b...)
	}
	return b
}

// headerFor returns the (possibly wrong) header to use for a node with the given payload; ok=false if the
// mode does not apply to this node. single = the node is a one-byte string < 0x80.
func headerFor(mode int, list bool, payload []byte, single bool) (h []byte, ok bool) {
	base := byte(0x80)
	if list {
		base = 0xc0
	}
	n := len(payload)
	switch mode {
	case rwLeadZero:
		if n < 56 {
			return nil, false
		}
		return rawHeader(base, pad(beBytes(uint64(n)), len(beBytes(uint64(n)))+1)), true
	case rwLeadZeros:
		if n < 56 {
			return nil, false
		}
		return rawHeader(base, pad(beBytes(uint64(n)), 8)), true
	case rwLongShort:
		if n >= 56 || single {
			return nil, false
		}
		return rawHeader(base, []byte{byte(n)}), true
	case rwLongShort0:
		if n >= 56 || single {
			return nil, false
		}
		return rawHeader(base, []byte{0, byte(n)}), true
	case rwSingleWrap:
		if !single {
			return nil, false
		}
		return []byte{0x81}, true
	case rwSingleLong:
		if !single {
			return nil, false
		}
		return []byte{0xb8, 0x01}, true
	case rwSizePlus1:
		if single {
			return nil, false
		}
		return header(base, n+1), true
	case rwSizeMinus1:
		if single || n == 0 {
			return nil, false
		}
		return header(base, n-1), true
	case rwHuge32:
		if single {
			return nil, false
		}
		return rawHeader(base, []byte{1, 0, 0, 0, 0}), true
	case rwHuge64:
		if single {
			return nil, false
		}
		return rawHeader(base, []byte{0xff, 0xff, 0xff, 0xff, 0xff, 0xff, 0xff, 0xff}), true
	case rwFlipKind:
		if single {
			return nil, false
		}
		if list {
			return header(0x80, n), true
		}
		return header(0xc0, n), true
	}
	return nil, false
}

// encWith encodes the tree canonically except for the header of target, which is written in the given mode.
// The headers of the ancestors are computed from the bytes actually written.
func (it *item) encWith(target *item, mode int) (out []byte, applied bool) {
	single := !it.list && len(it.str) == 1 && it.str[0] < 0x80
	var payload []byte
	if it.list {
		for _, k := range it.kids {
			e, a := k.encWith(target, mode)
			applied = applied || a
			payload = append(payload, e...)
		}
	} else {
		payload = it.str
	}
	if it == target {
		if h, ok := headerFor(mode, it.list, payload, single); ok {
			return append(append([]byte{}, h...), payload...), true
		}
	}
	if !it.list {
		return encStr(it.str), applied
	}
	return encList(payload), applied
}

func (it *item) nodes(out []*item) []*item {
	out = append(out, it)
	for _, k := range it.kids {
		out = k.nodes(out)
	}
	return out
}

// allRewrites enumerates every (node, mode) rewrite of the tree; nodes are capped to keep corpus cases small.
func allRewrites(it *item, maxNodes int, fn func(mode int, b []byte)) {
	ns := it.nodes(nil)
	if len(ns) > maxNodes {
		ns = ns[:maxNodes]
	}
	for _, n := range ns {
		for m := 0; m < rwModes; m++ {
			if b, ok := it.encWith(n, m); ok {
				fn(m, b)
			}
		}
	}
}

// randomRewrite applies one random applicable rewrite to a canonical encoding (given as tree).
func randomRewrite(r *rand.Rand, it *item) (b []byte, mode int, ok bool) {
	ns := it.nodes(nil)
	for try := 0; try < 8; try++ {
		n := ns[r.Intn(len(ns))]
		m := r.Intn(rwModes)
		if b, ok := it.encWith(n, m); ok {
			return b, m, true
		}
	}
	return nil, 0, false
}

var hdrAlphabet = []byte{0x00, 0x01, 0x05, 0x37, 0x38, 0x7f, 0x80, 0x81, 0x82, 0x83, 0x88, 0xa0, 0xb7, 0xb8, 0xb9, 0xbf, 0xc0, 0xc1, 0xc2, 0xc3, 0xf7, 0xf8, 0xf9, 0xff}

func biasedByte(r *rand.Rand) byte {
	if r.Intn(4) == 0 {
		return byte(r.Intn(256))
	}
	return hdrAlphabet[r.Intn(len(hdrAlphabet))]
}

// mutate applies n random byte-level edits.
func mutate(r *rand.Rand, in []byte, n int) []byte {
	b := append([]byte{}, in...)
	for k := 0; k < n; k++ {
		switch op := r.Intn(7); {
		case op == 0 && len(b) > 0: // overwrite
			b[r.Intn(len(b))] = biasedByte(r)
		case op == 1 && len(b) > 0: // small arithmetic change (sizes +-1, +-2)
			i := r.Intn(len(b))
			b[i] += byte(r.Intn(5)) - 2
		case op == 2: // insert
			i := r.Intn(len(b) + 1)
			b = append(b[:i], append([]byte{biasedByte(r)}, b[i:]...)...)
		case op == 3 && len(b) > 0: // delete
			i := r.Intn(len(b))
			b = append(b[:i], b[i+1:]...)
		case op == 4 && len(b) > 0: // truncate
			b = b[:r.Intn(len(b))]
		case op == 5: // append
			b = append(b, biasedByte(r))
		case op == 6 && len(b) > 0: // bit flip
			b[r.Intn(len(b))] ^= 1 << uint(r.Intn(8))
		}
	}
	return b
}

func randomString(r *rand.Rand) []byte {
	n := r.Intn(14)
	if r.Intn(10) == 0 {
		n = r.Intn(80)
	}
	b := make([]byte, n)
	for i := range b {
		b[i] = biasedByte(r)
	}
	return b
}

// nested returns `depth` lists around the innermost item.
func nested(depth int, inner *item) *item {
	it := inner
	for i := 0; i < depth; i++ {
		it = &item{list: true, kids: []*item{it}}
	}
	return it
}

// hugeSizes are the announced sizes of the adversarial headers.
var hugeSizes = []uint64{1 << 32, 1<<32 + 1, 1<<32 - 1, 1 << 31, 1 << 33, 1 << 40, 1 << 48, 1<<56 - 1, 1 << 56, 1<<63 - 1, 1 << 63, 1<<63 + 1, 1<<64 - 2, 1<<64 - 1,
	1 << 24, 1 << 20, 1 << 16, 70000, 300, 56}

// hugeHeader builds a header of the given kind announcing `size`, with `extra` leading zero length bytes.
func hugeHeader(list bool, size uint64, minLenBytes int) []byte {
	base := byte(0x80)
	if list {
		base = 0xc0
	}
	l := beBytes(size)
	if minLenBytes > 8 {
		minLenBytes = 8
	}
	return rawHeader(base, pad(l, minLenBytes))
}
