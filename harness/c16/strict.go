package c16

// Strict canonical-RLP parser and canonical encoder of the abstract item tree.
//
// Written from the property's rule list and the RLP definition (Ethereum yellow
// paper, appendix B), not from lib/rlp:
//
//   item   := string | list
//   string := one byte b < 0x80 (stands for itself)
//           | 0x80+n  followed by n bytes,            0 <= n <= 55
//           | 0xb7+k  followed by k length bytes L and L bytes, L >= 56
//   list   := 0xc0+n  followed by n bytes of items,   0 <= n <= 55
//           | 0xf7+k  followed by k length bytes L and L bytes of items, L >= 56
//
// A byte string is canonical iff
//   (a) length bytes have no leading zero,
//   (b) the long form is used only for payloads of 56 bytes and more,
//   (c) a one-byte string whose byte is < 0x80 is not wrapped as 0x81 b,
//   (d) every announced size lies within the bytes that are there (no missing bytes),
//   (e) a list payload is exactly a sequence of canonical items,
//   (f) there is exactly one item and nothing after it.

import (
	"bytes"
	"errors"
	"fmt"
)

type item struct {
	list bool
	str  []byte
	kids []*item
}

var (
	errEmpty       = errors.New("strict: empty input")
	errMissing     = errors.New("strict: announced size exceeds the available bytes")
	errLenLeadZero = errors.New("strict: length with leading zero")
	errLongShort   = errors.New("strict: long form used for payload < 56")
	errSingleWrap  = errors.New("strict: single byte < 0x80 wrapped as string")
	errTrailing    = errors.New("strict: trailing bytes after the item")
)

// strictHeader parses one header at the start of b.
// It returns list/string, the header length and the payload length.
func strictHeader(b []byte) (list bool, hl int, pl uint64, err error) {
	if len(b) == 0 {
		return false, 0, 0, errEmpty
	}
	t := b[0]
	switch {
	case t < 0x80:
		return false, 0, 1, nil
	case t <= 0xb7:
		pl = uint64(t - 0x80)
		if pl > uint64(len(b)-1) {
			return false, 0, 0, errMissing
		}
		if pl == 1 && b[1] < 0x80 {
			return false, 0, 0, errSingleWrap
		}
		return false, 1, pl, nil
	case t <= 0xbf:
		pl, hl, err = strictLong(b, int(t-0xb7))
		return false, hl, pl, err
	case t <= 0xf7:
		pl = uint64(t - 0xc0)
		if pl > uint64(len(b)-1) {
			return true, 0, 0, errMissing
		}
		return true, 1, pl, nil
	default:
		pl, hl, err = strictLong(b, int(t-0xf7))
		return true, hl, pl, err
	}
}

func strictLong(b []byte, k int) (pl uint64, hl int, err error) {
	if len(b)-1 < k {
		return 0, 0, errMissing
	}
	if b[1] == 0 {
		return 0, 0, errLenLeadZero
	}
	for i := 0; i < k; i++ {
		pl = pl<<8 | uint64(b[1+i])
	}
	if pl < 56 {
		return 0, 0, errLongShort
	}
	hl = 1 + k
	if pl > uint64(len(b)-hl) {
		return 0, 0, errMissing
	}
	return pl, hl, nil
}

// strictItem parses the first item of b (deep) and returns it with its total size.
func strictItem(b []byte) (*item, int, error) {
	list, hl, pl, err := strictHeader(b)
	if err != nil {
		return nil, 0, err
	}
	end := hl + int(pl)
	if !list {
		return &item{str: b[hl:end]}, end, nil
	}
	it := &item{list: true}
	p := b[hl:end]
	for len(p) > 0 {
		k, n, err := strictItem(p)
		if err != nil {
			return nil, 0, err
		}
		it.kids = append(it.kids, k)
		p = p[n:]
	}
	return it, end, nil
}

// strictDecode accepts exactly the canonical encodings of one item.
func strictDecode(b []byte) (*item, error) {
	it, n, err := strictItem(b)
	if err != nil {
		return nil, err
	}
	if n != len(b) {
		return nil, errTrailing
	}
	return it, nil
}

// strictShallow: header canonical, size within input, nothing after the item; the content is not inspected
// (not even the one payload byte that rule (c) looks at). This is the contract of rlp.RawValue / Stream.Raw:
// "the decoder does not verify whether the content of RawValues is valid RLP".
func strictShallow(b []byte) error {
	_, hl, pl, err := strictHeader(b)
	if err == errSingleWrap {
		hl, pl, err = 1, 1, nil
	}
	if err != nil {
		return err
	}
	if hl+int(pl) != len(b) {
		return errTrailing
	}
	return nil
}

// ---- canonical encoder of item trees (model) ----

func beBytes(n uint64) []byte {
	var o []byte
	for n > 0 {
		o = append([]byte{byte(n)}, o...)
		n >>= 8
	}
	return o
}

func header(base byte, n int) []byte {
	if n <= 55 {
		return []byte{base + byte(n)}
	}
	l := beBytes(uint64(n))
	return append([]byte{base + 55 + byte(len(l))}, l...)
}

func encStr(s []byte) []byte {
	if len(s) == 1 && s[0] < 0x80 {
		return []byte{s[0]}
	}
	return append(header(0x80, len(s)), s...)
}

func encList(payload []byte) []byte {
	return append(header(0xc0, len(payload)), payload...)
}

func (it *item) enc() []byte {
	if !it.list {
		return encStr(it.str)
	}
	var p []byte
	for _, k := range it.kids {
		p = append(p, k.enc()...)
	}
	return encList(p)
}

func (a *item) equal(b *item) bool {
	if a.list != b.list {
		return false
	}
	if !a.list {
		return bytes.Equal(a.str, b.str)
	}
	if len(a.kids) != len(b.kids) {
		return false
	}
	for i := range a.kids {
		if !a.kids[i].equal(b.kids[i]) {
			return false
		}
	}
	return true
}

func (it *item) depth() int {
	d := 0
	for _, k := range it.kids {
		if x := k.depth(); x > d {
			d = x
		}
	}
	if it.list {
		d++
	}
	return d
}

func (it *item) count() int {
	n := 1
	for _, k := range it.kids {
		n += k.count()
	}
	return n
}

// shape is a short fingerprint of the tree (used for distinct counting).
func (it *item) shape(max int) string {
	var sb bytes.Buffer
	it.shapeTo(&sb, max)
	return sb.String()
}

func (it *item) shapeTo(sb *bytes.Buffer, max int) {
	if sb.Len() > max {
		return
	}
	if !it.list {
		switch n := len(it.str); {
		case n == 0:
			sb.WriteString("e")
		case n == 1 && it.str[0] < 0x80:
			sb.WriteString("b")
		case n <= 55:
			sb.WriteString("s")
		default:
			sb.WriteString("S")
		}
		return
	}
	sb.WriteString("[")
	for _, k := range it.kids {
		k.shapeTo(sb, max)
	}
	sb.WriteString("]")
}

// fromGeneric converts the decoder's generic representation ([]byte / []interface{}) into an item tree.
func fromGeneric(v interface{}) (*item, error) {
	switch x := v.(type) {
	case []byte:
		return &item{str: x}, nil
	case []interface{}:
		it := &item{list: true}
		for _, e := range x {
			k, err := fromGeneric(e)
			if err != nil {
				return nil, err
			}
			it.kids = append(it.kids, k)
		}
		return it, nil
	}
	return nil, fmt.Errorf("unexpected generic type %T", v)
}
