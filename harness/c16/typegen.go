package c16

// Run-time type grammar, value generator, model encoder and normalised comparison.
//
// A type is described by a tdesc tree; reflect types are built from it with
// reflect.StructOf / SliceOf / ArrayOf / PtrTo, once with go-kardia's rlp.RawValue
// and once with go-ethereum's (the two packages recognise only their own RawValue).
// The model encoder (menc) is written from the package documentation (doc.go,
// "Encoding Rules" and "Struct Tags") and the RLP definition, and walks the tdesc —
// it never calls lib/rlp.

import (
	"bytes"
	"errors"
	"fmt"
	"math/big"
	"math/rand"
	"reflect"
	"strings"

	grlp "github.com/ethereum/go-ethereum/rlp"
	"github.com/kardiachain/go-kardia/lib/rlp"
)

type tk int

const (
	tU8 tk = iota
	tU16
	tU32
	tU64
	tUint
	tBigPtr
	tBigVal
	tBool
	tString
	tBytes
	tByteArr
	tSlice
	tArray
	tStruct
	tPtr
	tRaw
	tIface
)

type tdesc struct {
	k      tk
	n      int
	elem   *tdesc
	fields []*fdesc

	rt [2]reflect.Type // cache: 0 = go-kardia flavour, 1 = go-ethereum flavour
}

type fdesc struct {
	name     string
	t        *tdesc
	nilTag   string // "", "nil", "nilList", "nilString"
	optional bool
	tail     bool
	ignored  bool
	ignType  reflect.Type // type of an ignored field (may be a type RLP cannot serialise)
}

var (
	bigPtrT  = reflect.TypeOf((*big.Int)(nil))
	bigValT  = reflect.TypeOf(big.Int{})
	kRawT    = reflect.TypeOf(rlp.RawValue{})
	gRawT    = reflect.TypeOf(grlp.RawValue{})
	ifaceT   = reflect.TypeOf((*interface{})(nil)).Elem()
	byteT    = reflect.TypeOf(byte(0))
	rawTypes = [2]reflect.Type{kRawT, gRawT}
)

func (d *tdesc) rtype(fl int) reflect.Type {
	if d.rt[fl] != nil {
		return d.rt[fl]
	}
	var t reflect.Type
	switch d.k {
	case tU8:
		t = reflect.TypeOf(uint8(0))
	case tU16:
		t = reflect.TypeOf(uint16(0))
	case tU32:
		t = reflect.TypeOf(uint32(0))
	case tU64:
		t = reflect.TypeOf(uint64(0))
	case tUint:
		t = reflect.TypeOf(uint(0))
	case tBigPtr:
		t = bigPtrT
	case tBigVal:
		t = bigValT
	case tBool:
		t = reflect.TypeOf(true)
	case tString:
		t = reflect.TypeOf("")
	case tBytes:
		t = reflect.TypeOf([]byte(nil))
	case tByteArr:
		t = reflect.ArrayOf(d.n, byteT)
	case tSlice:
		t = reflect.SliceOf(d.elem.rtype(fl))
	case tArray:
		t = reflect.ArrayOf(d.n, d.elem.rtype(fl))
	case tPtr:
		t = reflect.PtrTo(d.elem.rtype(fl))
	case tRaw:
		t = rawTypes[fl]
	case tIface:
		t = ifaceT
	case tStruct:
		var fs []reflect.StructField
		for _, f := range d.fields {
			ft := f.ignType
			if !f.ignored {
				ft = f.t.rtype(fl)
			}
			fs = append(fs, reflect.StructField{Name: f.name, Type: ft, Tag: reflect.StructTag(f.tag())})
		}
		t = reflect.StructOf(fs)
	}
	d.rt[fl] = t
	return t
}

func (f *fdesc) tag() string {
	var p []string
	if f.ignored {
		p = append(p, "-")
	}
	if f.nilTag != "" {
		p = append(p, f.nilTag)
	}
	if f.optional {
		p = append(p, "optional")
	}
	if f.tail {
		p = append(p, "tail")
	}
	if len(p) == 0 {
		return ""
	}
	return `rlp:"` + strings.Join(p, ",") + `"`
}

// String renders the type like Go source (used in witnesses and fingerprints).
func (d *tdesc) String() string {
	switch d.k {
	case tU8:
		return "uint8"
	case tU16:
		return "uint16"
	case tU32:
		return "uint32"
	case tU64:
		return "uint64"
	case tUint:
		return "uint"
	case tBigPtr:
		return "*big.Int"
	case tBigVal:
		return "big.Int"
	case tBool:
		return "bool"
	case tString:
		return "string"
	case tBytes:
		return "[]byte"
	case tByteArr:
		return fmt.Sprintf("[%d]byte", d.n)
	case tSlice:
		return "[]" + d.elem.String()
	case tArray:
		return fmt.Sprintf("[%d]%s", d.n, d.elem.String())
	case tPtr:
		return "*" + d.elem.String()
	case tRaw:
		return "RawValue"
	case tIface:
		return "interface{}"
	case tStruct:
		var sb strings.Builder
		sb.WriteString("struct{")
		for i, f := range d.fields {
			if i > 0 {
				sb.WriteString("; ")
			}
			if f.ignored {
				fmt.Fprintf(&sb, "%s %v", f.name, f.ignType)
			} else {
				fmt.Fprintf(&sb, "%s %s", f.name, f.t.String())
			}
			if t := f.tag(); t != "" {
				sb.WriteString(" `" + t + "`")
			}
		}
		sb.WriteString("}")
		return sb.String()
	}
	return "?"
}

// feature predicates
func (d *tdesc) any(p func(*tdesc, *fdesc) bool) bool { return d.anyF(nil, p) }
func (d *tdesc) anyF(f *fdesc, p func(*tdesc, *fdesc) bool) bool {
	if p(d, f) {
		return true
	}
	if d.elem != nil && d.elem.anyF(nil, p) {
		return true
	}
	for _, ff := range d.fields {
		if ff.ignored {
			if p(nil, ff) {
				return true
			}
			continue
		}
		if ff.t.anyF(ff, p) {
			return true
		}
	}
	return false
}

func (d *tdesc) hasRaw() bool {
	return d.any(func(t *tdesc, _ *fdesc) bool { return t != nil && t.k == tRaw })
}
func (d *tdesc) hasOptional() bool {
	return d.any(func(_ *tdesc, f *fdesc) bool { return f != nil && f.optional })
}
func (d *tdesc) hasIgnored() bool {
	return d.any(func(_ *tdesc, f *fdesc) bool { return f != nil && f.ignored })
}

// injective: the decoder maps at most one byte string to each value, so Encode(Decode(x)) == x must hold.
// "optional" fields (short and explicit form both accepted) are the only documented exception;
// ignored fields do not consume input and interface{} / RawValue re-encode to the bytes they were read from.
func (d *tdesc) injective() bool { return !d.hasOptional() }

// features lists the grammar features used (for distinct counting).
func (d *tdesc) features(set map[string]bool) {
	d.any(func(t *tdesc, f *fdesc) bool {
		if t != nil {
			set[[]string{"uint8", "uint16", "uint32", "uint64", "uint", "*big.Int", "big.Int", "bool", "string", "[]byte", "[n]byte", "slice", "array", "struct", "ptr", "RawValue", "interface{}"}[t.k]] = true
		}
		if f != nil {
			if f.nilTag != "" {
				set["tag:"+f.nilTag] = true
			}
			if f.optional {
				set["tag:optional"] = true
			}
			if f.tail {
				set["tag:tail"] = true
			}
			if f.ignored {
				set["tag:-"] = true
			}
		}
		return false
	})
}

// ---- type generator ----

var byteArrLens = []int{0, 1, 2, 3, 8, 20, 32, 33, 55, 56, 57, 64}

func genLeaf(r *rand.Rand) *tdesc {
	switch r.Intn(14) {
	case 0:
		return &tdesc{k: tU8}
	case 1:
		return &tdesc{k: tU16}
	case 2:
		return &tdesc{k: tU32}
	case 3:
		return &tdesc{k: tU64}
	case 4:
		return &tdesc{k: tUint}
	case 5, 6:
		return &tdesc{k: tBigPtr}
	case 7:
		return &tdesc{k: tBigVal}
	case 8:
		return &tdesc{k: tBool}
	case 9:
		return &tdesc{k: tString}
	case 10:
		return &tdesc{k: tBytes}
	case 11:
		return &tdesc{k: tByteArr, n: byteArrLens[r.Intn(len(byteArrLens))]}
	case 12:
		return &tdesc{k: tRaw}
	}
	return &tdesc{k: tIface}
}

func genType(r *rand.Rand, depth int) *tdesc {
	if depth >= 4 || r.Intn(10) < 5 {
		return genLeaf(r)
	}
	switch r.Intn(8) {
	case 0, 1:
		return &tdesc{k: tSlice, elem: genElem(r, depth+1)}
	case 2:
		return &tdesc{k: tArray, n: r.Intn(4), elem: genElem(r, depth+1)}
	case 3, 4:
		return &tdesc{k: tPtr, elem: genPointee(r, depth+1)}
	}
	return genStruct(r, depth+1)
}

// element of a list type: anything but a bare byte (which would make the type []byte / [n]byte)
func genElem(r *rand.Rand, depth int) *tdesc {
	for {
		t := genType(r, depth)
		if t.k != tU8 {
			return t
		}
	}
}

// pointee: the documentation is unambiguous about the empty value of nil pointers only for these.
func genPointee(r *rand.Rand, depth int) *tdesc {
	for {
		t := genType(r, depth)
		switch t.k {
		case tBigPtr, tBigVal, tIface, tPtr:
			continue
		}
		return t
	}
}

var ignoredTypes = []reflect.Type{
	reflect.TypeOf(int(0)), reflect.TypeOf(map[string]int(nil)), reflect.TypeOf(float64(0)),
	reflect.TypeOf(uint64(0)), reflect.TypeOf([]byte(nil)), reflect.TypeOf((chan int)(nil)),
}

func genStruct(r *rand.Rand, depth int) *tdesc {
	n := r.Intn(6)
	if r.Intn(12) == 0 {
		n = 6 + r.Intn(6)
	}
	d := &tdesc{k: tStruct}
	firstOpt := -1
	if n >= 2 && r.Intn(3) == 0 {
		firstOpt = 1 + r.Intn(n-1)
		if r.Intn(6) == 0 {
			firstOpt = 0
		}
	}
	for i := 0; i < n; i++ {
		f := &fdesc{name: fmt.Sprintf("F%d", i)}
		if r.Intn(14) == 0 {
			f.ignored = true
			f.ignType = ignoredTypes[r.Intn(len(ignoredTypes))]
			d.fields = append(d.fields, f)
			continue
		}
		f.t = genType(r, depth)
		if f.t.k == tPtr && r.Intn(3) != 0 {
			f.nilTag = []string{"nil", "nil", "nilList", "nilString"}[r.Intn(4)]
			// calibration: `nilString` on a pointer to a struct without required fields is a type whose own
			// encodings the decoder refuses by design: the all-zero struct encodes as the empty LIST, and an
			// empty list under nilString is "wrong kind of empty value". Values can drift into that form through
			// the documented normalisations (c1 80 -> F0 nil -> c0), so the grammar does not build such types.
			if f.nilTag == "nilString" && f.t.elem.k == tStruct && !f.t.elem.hasRequiredField() {
				f.nilTag = "nil"
			}
		}
		if firstOpt >= 0 && i >= firstOpt {
			f.optional = true
		}
		d.fields = append(d.fields, f)
	}
	// tail: last field, a slice that is not a byte slice; allowed after optional fields but not combined with "optional"
	if r.Intn(4) == 0 {
		f := &fdesc{name: fmt.Sprintf("F%d", n), tail: true, t: &tdesc{k: tSlice, elem: genElem(r, depth+1)}}
		d.fields = append(d.fields, f)
	}
	return d
}

func genTop(r *rand.Rand) *tdesc {
	if r.Intn(5) == 0 {
		return genType(r, 0)
	}
	return genStruct(r, 0)
}

// ---- nil kinds ----

// natural empty kind of a nil pointer to d, from doc.go: pointer to unsigned integer, string,
// boolean or byte array/slice -> empty string; any other -> empty list.
func (d *tdesc) nilIsString() bool {
	switch d.k {
	case tU8, tU16, tU32, tU64, tUint, tString, tBool, tBytes, tByteArr, tRaw:
		return true
	}
	return false
}

func nilEnc(elem *tdesc, f *fdesc) byte {
	str := elem.nilIsString()
	if f != nil {
		switch f.nilTag {
		case "nilList":
			str = false
		case "nilString":
			str = true
		}
	}
	if str {
		return 0x80
	}
	return 0xc0
}

// ---- model encoder ----

var errNegative = errors.New("model: negative big.Int")

func encUint(x uint64) []byte { return encStr(beBytes(x)) }

func encBig(x *big.Int) ([]byte, error) {
	if x == nil {
		return []byte{0x80}, nil
	}
	if x.Sign() < 0 {
		return nil, errNegative
	}
	return encStr(x.Bytes()), nil
}

func menc(d *tdesc, f *fdesc, v reflect.Value) ([]byte, error) {
	switch d.k {
	case tU8, tU16, tU32, tU64, tUint:
		return encUint(v.Uint()), nil
	case tBigPtr:
		return encBig(v.Interface().(*big.Int))
	case tBigVal:
		x := v.Interface().(big.Int)
		return encBig(&x)
	case tBool:
		if v.Bool() {
			return []byte{0x01}, nil
		}
		return []byte{0x80}, nil
	case tString:
		return encStr([]byte(v.String())), nil
	case tBytes:
		return encStr(v.Bytes()), nil
	case tByteArr:
		b := make([]byte, v.Len())
		for i := range b {
			b[i] = byte(v.Index(i).Uint())
		}
		return encStr(b), nil
	case tRaw:
		return append([]byte(nil), v.Bytes()...), nil
	case tIface:
		if v.IsNil() {
			return []byte{0xc0}, nil
		}
		return mencDyn(v.Elem().Interface())
	case tPtr:
		if v.IsNil() {
			return []byte{nilEnc(d.elem, f)}, nil
		}
		return menc(d.elem, nil, v.Elem())
	case tSlice, tArray:
		var p []byte
		for i := 0; i < v.Len(); i++ {
			e, err := menc(d.elem, nil, v.Index(i))
			if err != nil {
				return nil, err
			}
			p = append(p, e...)
		}
		if f != nil && f.tail {
			return p, nil // the elements are appended to the enclosing list
		}
		return encList(p), nil
	case tStruct:
		last := d.lastEncoded(v)
		var p []byte
		for i := 0; i <= last; i++ {
			ff := d.fields[i]
			if ff.ignored {
				continue
			}
			e, err := menc(ff.t, ff, v.Field(i))
			if err != nil {
				return nil, err
			}
			p = append(p, e...)
		}
		return encList(p), nil
	}
	return nil, fmt.Errorf("model: unknown kind")
}

// lastEncoded is the index of the last field that is written: "the output RLP list contains all
// values up to the last non-zero optional field" (zero = Go zero value).
func (d *tdesc) lastEncoded(v reflect.Value) int {
	last := len(d.fields) - 1
	firstOpt := -1
	for i, ff := range d.fields {
		if !ff.ignored && ff.optional {
			firstOpt = i
			break
		}
	}
	if firstOpt >= 0 {
		for ; last >= firstOpt; last-- {
			if d.fields[last].ignored {
				continue
			}
			if !v.Field(last).IsZero() {
				break
			}
		}
	}
	return last
}

// mencDyn encodes the dynamic content of an interface{} by its Go type.
func mencDyn(x interface{}) ([]byte, error) {
	switch t := x.(type) {
	case nil:
		return []byte{0xc0}, nil
	case []byte:
		return encStr(t), nil
	case string:
		return encStr([]byte(t)), nil
	case uint64:
		return encUint(t), nil
	case uint16:
		return encUint(uint64(t)), nil
	case bool:
		if t {
			return []byte{1}, nil
		}
		return []byte{0x80}, nil
	case *big.Int:
		return encBig(t)
	case [3]byte:
		return encStr(t[:]), nil
	case []uint16:
		var p []byte
		for _, e := range t {
			p = append(p, encUint(uint64(e))...)
		}
		return encList(p), nil
	case []interface{}:
		var p []byte
		for _, e := range t {
			b, err := mencDyn(e)
			if err != nil {
				return nil, err
			}
			p = append(p, b...)
		}
		return encList(p), nil
	}
	return nil, fmt.Errorf("model: unsupported dynamic type %T", x)
}

// ---- value generator ----

var uintBoundaries = []uint64{0, 1, 0x7f, 0x80, 0x81, 0xff, 0x100, 0xffff, 0x10000, 0xffffff, 0x1000000, 0xffffffff, 0x100000000,
	1<<40 - 1, 1 << 40, 1<<48 - 1, 1 << 48, 1<<56 - 1, 1 << 56, 1<<63 - 1, 1 << 63, 1<<64 - 1}

func genUint(r *rand.Rand, bits int) uint64 {
	var x uint64
	if r.Intn(3) == 0 {
		x = uintBoundaries[r.Intn(len(uintBoundaries))]
	} else {
		x = r.Uint64() >> uint(r.Intn(64))
	}
	if bits < 64 {
		if r.Intn(8) == 0 {
			x = 1<<uint(bits) - 1
		}
		x &= 1<<uint(bits) - 1
	}
	return x
}

func genBig(r *rand.Rand) *big.Int {
	one := big.NewInt(1)
	switch r.Intn(10) {
	case 0:
		return new(big.Int)
	case 1:
		return new(big.Int).SetUint64(genUint(r, 64))
	case 2:
		// around powers of 256 where the string length or form changes: 8, 9, 32, 33, 55, 56, 57, 255, 256 bytes
		n := []uint{8, 9, 32, 33, 55, 56, 57, 255, 256}[r.Intn(9)]
		x := new(big.Int).Lsh(one, 8*n)
		switch r.Intn(3) {
		case 0:
			x.Sub(x, one) // n bytes, all 0xff
		case 1:
			// n+1 bytes, 0x01 00..00
		case 2:
			x.Rsh(x, 1) // n bytes, 0x80 00..00
		}
		return x
	}
	bits := r.Intn(300)
	if r.Intn(6) == 0 {
		bits = r.Intn(2400)
	}
	return new(big.Int).Rand(r, new(big.Int).Lsh(one, uint(bits)))
}

var strLens = []int{0, 1, 1, 1, 2, 3, 31, 32, 54, 55, 56, 57, 100, 255, 256, 257}

func genBytes(r *rand.Rand) []byte {
	var n int
	switch r.Intn(10) {
	case 0, 1, 2:
		n = strLens[r.Intn(len(strLens))]
	case 3:
		n = r.Intn(400)
		if r.Intn(20) == 0 {
			n = 65530 + r.Intn(12)
		}
	default:
		n = r.Intn(40)
	}
	b := make([]byte, n)
	r.Read(b)
	if n == 1 {
		b[0] = []byte{0x00, 0x01, 0x7f, 0x80, 0x81, 0xff, b[0]}[r.Intn(7)]
	}
	if n > 0 && r.Intn(8) == 0 {
		b[0] = 0 // leading zero bytes are legal in strings
	}
	return b
}

func genListLen(r *rand.Rand) int {
	switch r.Intn(12) {
	case 0:
		return 20 + r.Intn(50) // payload beyond 55 bytes
	case 1:
		return 100 + r.Intn(300) // payload beyond 255 bytes
	case 2, 3, 4:
		return 0
	}
	return 1 + r.Intn(4)
}

// genItem returns a random abstract item (for RawValue content and generic strings).
func genItem(r *rand.Rand, depth int) *item {
	if depth >= 5 || r.Intn(3) != 0 {
		var b []byte
		switch r.Intn(8) {
		case 0:
			b = nil
		case 1:
			b = []byte{byte(r.Intn(256))}
		case 2:
			b = beBytes(genUint(r, 64))
		case 3:
			b = genBytes(r)
		default:
			b = make([]byte, r.Intn(12))
			r.Read(b)
		}
		return &item{str: b}
	}
	it := &item{list: true}
	n := r.Intn(5)
	if r.Intn(15) == 0 {
		n = 20 + r.Intn(80)
	}
	for i := 0; i < n; i++ {
		it.kids = append(it.kids, genItem(r, depth+1))
	}
	return it
}

func genDyn(r *rand.Rand, depth int) interface{} {
	k := r.Intn(10)
	if depth >= 3 && k >= 8 {
		k = r.Intn(8)
	}
	switch k {
	case 0:
		return genBytes(r)
	case 1:
		return string(genBytes(r))
	case 2:
		return genUint(r, 64)
	case 3:
		return uint16(genUint(r, 16))
	case 4:
		return r.Intn(2) == 0
	case 5:
		return genBig(r)
	case 6:
		var a [3]byte
		r.Read(a[:])
		return a
	case 7:
		s := make([]uint16, r.Intn(4))
		for i := range s {
			s[i] = uint16(genUint(r, 16))
		}
		return s
	case 8:
		return nil
	}
	n := r.Intn(4)
	l := make([]interface{}, n)
	for i := range l {
		l[i] = genDyn(r, depth+1)
	}
	return l
}

// genVal generates a value of d.rtype(0). Calibrations (documented lossy cases the generator avoids):
// untagged pointers are never nil; a non-nil pointer under nilList/nilString never points to a value
// whose encoding is the OTHER kind of empty value (the decoder rejects that by design: "wrong kind of
// empty value"); RawValue always holds exactly one canonical item; optional fields are zero only in a
// trailing run, or carry non-nil pointers.
type vgen struct {
	r    *rand.Rand
	left int // budget of list elements / large strings, keeps single values below a few hundred kB
}

func newVgen(r *rand.Rand) *vgen { return &vgen{r: r, left: 500} }

func (g *vgen) listLen() int {
	n := genListLen(g.r)
	if n > g.left {
		n = g.left
		if n > 3 {
			n = g.r.Intn(4)
		}
	}
	g.left -= n
	return n
}

func (g *vgen) bytes() []byte {
	b := genBytes(g.r)
	if len(b) > 1000 {
		if g.left < 300 {
			return b[:g.r.Intn(60)]
		}
		g.left -= 300
	}
	return b
}

func genVal(r *rand.Rand, d *tdesc, f *fdesc) reflect.Value { return newVgen(r).val(d, f) }

func (g *vgen) val(d *tdesc, f *fdesc) reflect.Value {
	r := g.r
	t := d.rtype(0)
	v := reflect.New(t).Elem()
	switch d.k {
	case tU8, tU16, tU32, tU64, tUint:
		v.SetUint(genUint(r, t.Bits()))
	case tBigPtr:
		if r.Intn(12) != 0 { // nil *big.Int encodes as 0 (normalisation nil == 0)
			v.Set(reflect.ValueOf(genBig(r)))
		}
	case tBigVal:
		v.Set(reflect.ValueOf(*genBig(r)))
	case tBool:
		v.SetBool(r.Intn(2) == 0)
	case tString:
		v.SetString(string(g.bytes()))
	case tBytes:
		if r.Intn(10) != 0 {
			v.SetBytes(g.bytes())
		}
	case tByteArr:
		b := make([]byte, d.n)
		r.Read(b)
		if d.n == 1 {
			b[0] = []byte{0x00, 0x01, 0x7f, 0x80, 0x81, 0xff, b[0]}[r.Intn(7)]
		}
		if d.n > 0 && r.Intn(6) == 0 {
			b[0] = 0
		}
		reflect.Copy(v, reflect.ValueOf(b))
	case tRaw:
		v.SetBytes(genItem(r, 2).enc())
	case tIface:
		x := genDyn(r, 0)
		if x != nil {
			v.Set(reflect.ValueOf(x))
		}
	case tPtr:
		tagged := f != nil && f.nilTag != ""
		if tagged && r.Intn(3) == 0 {
			return v // nil
		}
		for try := 0; ; try++ {
			e := g.val(d.elem, nil)
			if tagged {
				enc, err := menc(d.elem, nil, e)
				if err == nil && len(enc) == 1 && (enc[0] == 0x80 || enc[0] == 0xc0) && enc[0] != nilEnc(d.elem, f) {
					if try < 20 {
						continue
					}
					return v // give up: nil
				}
			}
			p := reflect.New(d.elem.rtype(0))
			p.Elem().Set(e)
			v.Set(p)
			break
		}
	case tSlice:
		n := g.listLen()
		if n == 0 && r.Intn(2) == 0 {
			return v // nil slice
		}
		s := reflect.MakeSlice(t, n, n)
		for i := 0; i < n; i++ {
			s.Index(i).Set(g.val(d.elem, nil))
		}
		v.Set(s)
	case tArray:
		for i := 0; i < d.n; i++ {
			v.Index(i).Set(g.val(d.elem, nil))
		}
	case tStruct:
		cut := len(d.fields)
		if d.hasOptionalField() && r.Intn(2) == 0 {
			first := 0
			for i, ff := range d.fields {
				if !ff.ignored && (ff.optional || ff.tail) {
					first = i
					break
				}
			}
			cut = first + r.Intn(len(d.fields)-first+1)
		}
		for i, ff := range d.fields {
			if ff.ignored {
				continue // stays zero: an ignored field is not transported
			}
			if i >= cut {
				continue // trailing zero run
			}
			v.Field(i).Set(g.val(ff.t, ff))
		}
	}
	return v
}

func (d *tdesc) hasRequiredField() bool {
	for _, f := range d.fields {
		if !f.ignored && !f.optional && !f.tail {
			return true
		}
	}
	return false
}

func (d *tdesc) hasOptionalField() bool {
	for _, f := range d.fields {
		if f.optional {
			return true
		}
	}
	return false
}

// genNegative returns a value of the type with one negative big.Int if the type has a big.Int position
// reachable in the generated value; ok=false otherwise.
func makeNegative(r *rand.Rand, d *tdesc, v reflect.Value) bool {
	switch d.k {
	case tBigPtr:
		v.Set(reflect.ValueOf(big.NewInt(-1 - r.Int63n(1000))))
		return true
	case tBigVal:
		v.Set(reflect.ValueOf(*big.NewInt(-1 - r.Int63n(1000))))
		return true
	case tPtr:
		if !v.IsNil() {
			return makeNegative(r, d.elem, v.Elem())
		}
	case tSlice, tArray:
		for i := 0; i < v.Len(); i++ {
			if makeNegative(r, d.elem, v.Index(i)) {
				return true
			}
		}
	case tStruct:
		// only a field that is certainly encoded: before the first optional one
		for i, f := range d.fields {
			if f.ignored {
				continue
			}
			if f.optional || f.tail {
				break
			}
			if makeNegative(r, f.t, v.Field(i)) {
				return true
			}
		}
	}
	return false
}

// ---- copy into the go-ethereum flavoured type ----

func convert(d *tdesc, src reflect.Value, fl int) reflect.Value {
	t := d.rtype(fl)
	if t == src.Type() {
		return src
	}
	dst := reflect.New(t).Elem()
	switch d.k {
	case tRaw:
		if !src.IsNil() {
			dst.SetBytes(append([]byte{}, src.Bytes()...))
		}
	case tPtr:
		if !src.IsNil() {
			p := reflect.New(d.elem.rtype(fl))
			p.Elem().Set(convert(d.elem, src.Elem(), fl))
			dst.Set(p)
		}
	case tSlice:
		if !src.IsNil() {
			s := reflect.MakeSlice(t, src.Len(), src.Len())
			for i := 0; i < src.Len(); i++ {
				s.Index(i).Set(convert(d.elem, src.Index(i), fl))
			}
			dst.Set(s)
		}
	case tArray:
		for i := 0; i < src.Len(); i++ {
			dst.Index(i).Set(convert(d.elem, src.Index(i), fl))
		}
	case tStruct:
		for i, f := range d.fields {
			if f.ignored {
				dst.Field(i).Set(src.Field(i))
				continue
			}
			dst.Field(i).Set(convert(f.t, src.Field(i), fl))
		}
	default:
		dst.Set(src)
	}
	return dst
}

// ---- comparison modulo the documented normalisations ----

// eqNorm compares the original value with the decoded one; "" means equal. Normalisations:
// nil slice == empty slice; nil *big.Int == 0; a nil-tagged pointer whose pointee encodes to the
// tag's empty value comes back nil; interface{} content comes back in generic form ([]byte /
// []interface{}); ignored fields are not transported (checked separately).
func eqNorm(d *tdesc, f *fdesc, a, b reflect.Value, path string) string {
	switch d.k {
	case tU8, tU16, tU32, tU64, tUint:
		if a.Uint() != b.Uint() {
			return fmt.Sprintf("%s: %d != %d", path, a.Uint(), b.Uint())
		}
	case tBigPtr:
		x, y := a.Interface().(*big.Int), b.Interface().(*big.Int)
		if y == nil {
			return path + ": decoded *big.Int is nil"
		}
		if x == nil {
			x = new(big.Int)
		}
		if x.Cmp(y) != 0 {
			return fmt.Sprintf("%s: %v != %v", path, x, y)
		}
	case tBigVal:
		x, y := a.Interface().(big.Int), b.Interface().(big.Int)
		if x.Cmp(&y) != 0 {
			return fmt.Sprintf("%s: %v != %v", path, &x, &y)
		}
	case tBool:
		if a.Bool() != b.Bool() {
			return path + ": bool differs"
		}
	case tString:
		if a.String() != b.String() {
			return fmt.Sprintf("%s: %q != %q", path, a.String(), b.String())
		}
	case tBytes, tRaw:
		if !bytes.Equal(a.Bytes(), b.Bytes()) {
			return fmt.Sprintf("%s: %x != %x", path, a.Bytes(), b.Bytes())
		}
	case tByteArr:
		for i := 0; i < d.n; i++ {
			if a.Index(i).Uint() != b.Index(i).Uint() {
				return fmt.Sprintf("%s[%d]: byte differs", path, i)
			}
		}
	case tIface:
		var ea []byte
		var err error
		if a.IsNil() {
			ea = []byte{0xc0}
		} else if ea, err = mencDyn(a.Elem().Interface()); err != nil {
			return path + ": " + err.Error()
		}
		ta, err := strictDecode(ea)
		if err != nil {
			return path + ": model encoding of interface content not canonical: " + err.Error()
		}
		if b.IsNil() {
			return path + ": decoded interface is nil"
		}
		tb, err := fromGeneric(b.Elem().Interface())
		if err != nil {
			return path + ": " + err.Error()
		}
		if !ta.equal(tb) {
			return fmt.Sprintf("%s: interface content %x != %x", path, ea, tb.enc())
		}
	case tPtr:
		tagged := f != nil && f.nilTag != ""
		if a.IsNil() {
			if tagged {
				if !b.IsNil() {
					return path + ": nil pointer with nil tag decoded as non-nil"
				}
				return ""
			}
			// untagged nil pointers are generated only inside an omitted optional run (handled by the struct case)
			return ""
		}
		if tagged {
			enc, err := menc(d.elem, nil, a.Elem())
			if err == nil && len(enc) == 1 && enc[0] == nilEnc(d.elem, f) {
				if !b.IsNil() {
					return path + ": empty value under nil tag decoded as non-nil pointer"
				}
				return ""
			}
		}
		if b.IsNil() {
			return path + ": decoded pointer is nil"
		}
		return eqNorm(d.elem, nil, a.Elem(), b.Elem(), path+".*")
	case tSlice, tArray:
		if a.Len() != b.Len() {
			return fmt.Sprintf("%s: len %d != %d", path, a.Len(), b.Len())
		}
		for i := 0; i < a.Len(); i++ {
			if s := eqNorm(d.elem, nil, a.Index(i), b.Index(i), fmt.Sprintf("%s[%d]", path, i)); s != "" {
				return s
			}
		}
	case tStruct:
		last := d.lastEncoded(a)
		for i, ff := range d.fields {
			if ff.ignored {
				continue
			}
			if i > last && !ff.tail {
				// "When decoding into a struct, optional fields may be omitted from the end of the input list":
				// the omitted ones come back as Go zero values
				if !b.Field(i).IsZero() {
					return path + "." + ff.name + ": omitted optional field is not zero after decoding"
				}
				continue
			}
			if s := eqNorm(ff.t, ff, a.Field(i), b.Field(i), path+"."+ff.name); s != "" {
				return s
			}
		}
	}
	return ""
}

// ignoredUntouched checks that decoding left every ignored field of dst as it is in ref.
func ignoredUntouched(d *tdesc, ref, dst reflect.Value) bool {
	if d.k != tStruct {
		return true
	}
	for i, f := range d.fields {
		if f.ignored && !reflect.DeepEqual(ref.Field(i).Interface(), dst.Field(i).Interface()) {
			return false
		}
	}
	return true
}

// deepSize is the memory a value of the type occupies by its type alone (arrays, pointees, one
// slice growth step of 4 elements); part of the allocation allowance.
func (d *tdesc) deepSize() uint64 {
	s := uint64(d.rtype(0).Size())
	switch d.k {
	case tPtr:
		s += d.elem.deepSize()
	case tSlice:
		s += 4 * d.elem.deepSize()
	case tArray:
		s += uint64(d.n) * d.elem.deepSize()
	case tStruct:
		for _, f := range d.fields {
			if !f.ignored {
				s += f.t.deepSize()
			}
		}
	case tBigPtr, tBigVal:
		s += 64
	}
	return s
}
