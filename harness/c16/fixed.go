package c16

// Fixed boundary corpus for typed decoding: the inputs at which a dropped canonical check, a
// tail/optional ordering bug or a missing size check shows. Expectations are written from doc.go
// and the RLP definition.

import (
	"bytes"
	"encoding/hex"
	"fmt"
	"math/big"
	"reflect"
	"runtime"

	"github.com/holiman/uint256"
	"github.com/kardiachain/go-kardia/lib/rlp"

	"verifharness/core"
)

type optTail struct {
	A uint
	B uint   `rlp:"optional"`
	C uint   `rlp:"optional"`
	T []uint `rlp:"tail"`
}
type optOnly struct {
	Required  uint
	Optional1 uint `rlp:"optional"`
	Optional2 uint `rlp:"optional"`
}
type optPtr struct {
	A uint
	P *uint    `rlp:"optional"`
	Q *[]uint  `rlp:"optional,nil"`
	R *big.Int `rlp:"optional"`
}
type tailOnly struct {
	Field uint
	Tail  []string `rlp:"tail"`
}
type nilField struct {
	Field *[3]byte `rlp:"nil"`
}
type nilKinds struct {
	U  *uint   `rlp:"nil"`
	S  *[]uint `rlp:"nil"`
	UL *uint   `rlp:"nilList"`
	SS *[]uint `rlp:"nilString"`
}
type ignoredField struct {
	Ignored uint `rlp:"-"`
	Field   uint
}
type twoUint struct{ A, B uint }
type arr1 struct {
	A [1]byte
	B uint
}

func up(x uint) *uint       { return &x }
func usp(x ...uint) *[]uint { s := append([]uint{}, x...); return &s }

type vec struct {
	mk   func() interface{}
	in   string
	ok   bool
	want interface{} // expected decoded value (pointer), nil = do not compare
}

func vectors() []vec {
	big1 := func(s string) *big.Int { x, _ := new(big.Int).SetString(s, 16); return x }
	V := []vec{
		// ---- integers: canonical forms only ----
		{func() interface{} { return new(uint64) }, "80", true, func() *uint64 { x := uint64(0); return &x }()},
		{func() interface{} { return new(uint64) }, "00", false, nil}, // zero is the empty string, not 0x00
		{func() interface{} { return new(uint64) }, "01", true, func() *uint64 { x := uint64(1); return &x }()},
		{func() interface{} { return new(uint64) }, "7f", true, nil},
		{func() interface{} { return new(uint64) }, "8180", true, nil},
		{func() interface{} { return new(uint64) }, "8100", false, nil},   // single byte < 0x80 wrapped
		{func() interface{} { return new(uint64) }, "817f", false, nil},   // single byte < 0x80 wrapped
		{func() interface{} { return new(uint64) }, "820001", false, nil}, // leading zero
		{func() interface{} { return new(uint64) }, "820100", true, nil},
		{func() interface{} { return new(uint64) }, "88ffffffffffffffff", true, nil},
		{func() interface{} { return new(uint64) }, "8900ffffffffffffffff", false, nil}, // leading zero / too long
		{func() interface{} { return new(uint64) }, "89010000000000000000", false, nil}, // overflow
		{func() interface{} { return new(uint64) }, "c0", false, nil},
		{func() interface{} { return new(uint64) }, "b80101", false, nil},   // long form for short payload
		{func() interface{} { return new(uint64) }, "b8020101", false, nil}, // long form for short payload
		{func() interface{} { return new(uint64) }, "b900020101", false, nil},
		{func() interface{} { return new(uint8) }, "81ff", true, nil},
		{func() interface{} { return new(uint8) }, "820100", false, nil}, // overflow
		{func() interface{} { return new(uint16) }, "82ffff", true, nil},
		{func() interface{} { return new(uint16) }, "83010000", false, nil},
		{func() interface{} { return new(uint32) }, "84ffffffff", true, nil},
		{func() interface{} { return new(uint32) }, "850100000000", false, nil},
		{func() interface{} { return new(big.Int) }, "80", true, new(big.Int)},
		{func() interface{} { return new(big.Int) }, "00", false, nil},
		{func() interface{} { return new(big.Int) }, "01", true, big.NewInt(1)},
		{func() interface{} { return new(big.Int) }, "8100", false, nil},
		{func() interface{} { return new(big.Int) }, "8101", false, nil},
		{func() interface{} { return new(big.Int) }, "820001", false, nil},
		{func() interface{} { return new(big.Int) }, "89010000000000000000", true, big1("010000000000000000")},
		{func() interface{} { return new(big.Int) }, "8900ffffffffffffffff", false, nil},
		{func() interface{} { return new(big.Int) }, "a100" + hex.EncodeToString(bytes.Repeat([]byte{0xff}, 32)), false, nil}, // 33 bytes, leading zero (beyond the 32-byte fast path)
		{func() interface{} { return new(big.Int) }, "a101" + hex.EncodeToString(bytes.Repeat([]byte{0x00}, 32)), true, nil},
		{func() interface{} { return new(big.Int) }, "b838" + "00" + hex.EncodeToString(bytes.Repeat([]byte{0xff}, 55)), false, nil}, // 56 bytes, leading zero
		{func() interface{} { return new(big.Int) }, "b838" + hex.EncodeToString(bytes.Repeat([]byte{0xff}, 56)), true, nil},
		{func() interface{} { return new(big.Int) }, "b837" + hex.EncodeToString(bytes.Repeat([]byte{0xff}, 55)), false, nil}, // long form for 55 bytes
		{func() interface{} { return new(big.Int) }, "c0", false, nil},
		// ---- bool ----
		{func() interface{} { return new(bool) }, "80", true, func() *bool { b := false; return &b }()},
		{func() interface{} { return new(bool) }, "01", true, func() *bool { b := true; return &b }()},
		{func() interface{} { return new(bool) }, "00", false, nil},
		{func() interface{} { return new(bool) }, "02", false, nil},
		{func() interface{} { return new(bool) }, "8101", false, nil},
		{func() interface{} { return new(bool) }, "820001", false, nil},
		// ---- strings / byte slices / byte arrays ----
		{func() interface{} { return new([]byte) }, "00", true, &[]byte{0}},
		{func() interface{} { return new([]byte) }, "8100", false, nil},
		{func() interface{} { return new([]byte) }, "817f", false, nil},
		{func() interface{} { return new([]byte) }, "8180", true, &[]byte{0x80}},
		{func() interface{} { return new([]byte) }, "820000", true, &[]byte{0, 0}},
		{func() interface{} { return new([]byte) }, "8200", false, nil},
		{func() interface{} { return new([]byte) }, "b800", false, nil},
		{func() interface{} { return new([]byte) }, "b8020000", false, nil},
		{func() interface{} { return new([]byte) }, "b90000", false, nil},
		{func() interface{} { return new([]byte) }, "b837" + hex.EncodeToString(make([]byte, 55)), false, nil},
		{func() interface{} { return new([]byte) }, "b838" + hex.EncodeToString(make([]byte, 56)), true, nil},
		{func() interface{} { return new([]byte) }, "b90038" + hex.EncodeToString(make([]byte, 56)), false, nil},
		{func() interface{} { return new([]byte) }, "b838" + hex.EncodeToString(make([]byte, 55)), false, nil},
		{func() interface{} { return new([]byte) }, "b838" + hex.EncodeToString(make([]byte, 57)), false, nil},
		{func() interface{} { return new([]byte) }, "c0", false, nil},
		{func() interface{} { return new(string) }, "8100", false, nil},
		{func() interface{} { return new(string) }, "00", true, nil},
		{func() interface{} { return new(string) }, "83616263", true, func() *string { s := "abc"; return &s }()},
		{func() interface{} { return new([0]byte) }, "80", true, nil},
		{func() interface{} { return new([0]byte) }, "00", false, nil},
		{func() interface{} { return new([0]byte) }, "c0", false, nil},
		{func() interface{} { return new([1]byte) }, "00", true, &[1]byte{0}},
		{func() interface{} { return new([1]byte) }, "7f", true, &[1]byte{0x7f}},
		{func() interface{} { return new([1]byte) }, "8180", true, &[1]byte{0x80}},
		{func() interface{} { return new([1]byte) }, "8100", false, nil},
		{func() interface{} { return new([1]byte) }, "817f", false, nil},
		{func() interface{} { return new([1]byte) }, "80", false, nil},
		{func() interface{} { return new([1]byte) }, "820000", false, nil},
		{func() interface{} { return new([3]byte) }, "83000000", true, &[3]byte{}},
		{func() interface{} { return new([3]byte) }, "820000", false, nil},
		{func() interface{} { return new([3]byte) }, "8400000000", false, nil},
		{func() interface{} { return new([3]byte) }, "01", false, nil},
		{func() interface{} { return new([3]byte) }, "b803000000", false, nil},
		{func() interface{} { return new(arr1) }, "c20005", true, &arr1{[1]byte{0}, 5}},
		{func() interface{} { return new(arr1) }, "c3810005", false, nil},
		// ---- lists, list end, sizes ----
		{func() interface{} { return new([]uint) }, "c0", true, &[]uint{}},
		{func() interface{} { return new([]uint) }, "c3010203", true, &[]uint{1, 2, 3}},
		{func() interface{} { return new([]uint) }, "c3010200", false, nil},
		{func() interface{} { return new([]uint) }, "c301028100", false, nil},
		{func() interface{} { return new([]uint) }, "c2010203", false, nil},   // trailing byte after the list
		{func() interface{} { return new([]uint) }, "c4010203", false, nil},   // list longer than the input
		{func() interface{} { return new([]uint) }, "f803010203", false, nil}, // long form for short list
		{func() interface{} { return new([]uint) }, "f90003010203", false, nil},
		{func() interface{} { return new([]uint) }, "c382ffff", true, &[]uint{65535}},
		{func() interface{} { return new([]uint) }, "c282ffff", false, nil},   // element larger than the list (and a byte after it)
		{func() interface{} { return new([]uint) }, "c282ffffff", false, nil}, // element larger than the list
		{func() interface{} { return new([]uint) }, "c382ff", false, nil},     // element and list larger than the input
		{func() interface{} { return new([][]uint) }, "c3c20102", true, &[][]uint{{1, 2}}},
		{func() interface{} { return new([][]uint) }, "c4c2010203", false, nil}, // 03 is not a list
		{func() interface{} { return new([][]uint) }, "c4c20102c0", true, &[][]uint{{1, 2}, {}}},
		{func() interface{} { return new([][]uint) }, "c4c3010203", true, &[][]uint{{1, 2, 3}}},
		{func() interface{} { return new([][]uint) }, "c3c3010203", false, nil}, // inner list larger than the outer one
		{func() interface{} { return new([][]uint) }, "c4c2010203", false, nil},
		{func() interface{} { return new([2]uint) }, "c20102", true, &[2]uint{1, 2}},
		{func() interface{} { return new([2]uint) }, "c101", false, nil},
		{func() interface{} { return new([2]uint) }, "c3010203", false, nil},
		{func() interface{} { return new(twoUint) }, "c20102", true, &twoUint{1, 2}},
		{func() interface{} { return new(twoUint) }, "c101", false, nil},     // too few elements
		{func() interface{} { return new(twoUint) }, "c3010203", false, nil}, // too many elements (ListEnd)
		{func() interface{} { return new(twoUint) }, "c20102c0", false, nil}, // trailing
		{func() interface{} { return new(twoUint) }, "c0", false, nil},
		{func() interface{} { return new(twoUint) }, "820102", false, nil},
		{func() interface{} { return new([]twoUint) }, "c8c20102c3030405", false, nil}, // inner struct has a surplus element
		{func() interface{} { return new([]twoUint) }, "c6c20102c20304", true, &[]twoUint{{1, 2}, {3, 4}}},
		// ---- tail ----
		{func() interface{} { return new(tailOnly) }, "c0", false, nil},
		{func() interface{} { return new(tailOnly) }, "c101", true, &tailOnly{1, []string{}}},
		{func() interface{} { return new(tailOnly) }, "c3016162", true, &tailOnly{1, []string{"a", "b"}}},
		{func() interface{} { return new(tailOnly) }, "c301c061", false, nil},
		// ---- optional (doc.go: lists of one, two or three elements are accepted) ----
		{func() interface{} { return new(optOnly) }, "c0", false, nil},
		{func() interface{} { return new(optOnly) }, "c101", true, &optOnly{1, 0, 0}},
		{func() interface{} { return new(optOnly) }, "c20102", true, &optOnly{1, 2, 0}},
		{func() interface{} { return new(optOnly) }, "c3010203", true, &optOnly{1, 2, 3}},
		{func() interface{} { return new(optOnly) }, "c401020304", false, nil},
		{func() interface{} { return new(optOnly) }, "c3018003", true, &optOnly{1, 0, 3}},
		// ---- optional followed by tail ----
		{func() interface{} { return new(optTail) }, "c0", false, nil},
		{func() interface{} { return new(optTail) }, "c101", true, &optTail{A: 1}},
		{func() interface{} { return new(optTail) }, "c20102", true, &optTail{A: 1, B: 2, T: []uint{}}},
		{func() interface{} { return new(optTail) }, "c3010203", true, &optTail{1, 2, 3, []uint{}}},
		{func() interface{} { return new(optTail) }, "c401020304", true, &optTail{1, 2, 3, []uint{4}}},
		{func() interface{} { return new(optTail) }, "c50102030405", true, &optTail{1, 2, 3, []uint{4, 5}}},
		{func() interface{} { return new(optTail) }, "c5010203c104", false, nil},
		// ---- optional pointers ----
		{func() interface{} { return new(optPtr) }, "c101", true, &optPtr{A: 1}},
		{func() interface{} { return new(optPtr) }, "c20105", true, &optPtr{A: 1, P: up(5)}},
		{func() interface{} { return new(optPtr) }, "c20180", true, &optPtr{A: 1, P: up(0)}},
		{func() interface{} { return new(optPtr) }, "c30105c0", true, &optPtr{A: 1, P: up(5)}},
		{func() interface{} { return new(optPtr) }, "c40105c107", true, &optPtr{A: 1, P: up(5), Q: usp(7)}},
		{func() interface{} { return new(optPtr) }, "c30105" + "80", false, nil}, // wrong kind of empty value for *[]uint
		{func() interface{} { return new(optPtr) }, "c40105c009", true, &optPtr{A: 1, P: up(5), R: big.NewInt(9)}},
		// ---- nil tags (doc.go examples) ----
		{func() interface{} { return new(nilField) }, "c180", true, &nilField{}},
		{func() interface{} { return new(nilField) }, "c483000000", true, &nilField{&[3]byte{}}},
		{func() interface{} { return new(nilField) }, "c1c0", false, nil},
		{func() interface{} { return new(nilField) }, "c3820000", false, nil},
		{func() interface{} { return new(nilKinds) }, "c480c0c080", true, &nilKinds{}},
		{func() interface{} { return new(nilKinds) }, "c4c0c0c080", false, nil},
		{func() interface{} { return new(nilKinds) }, "c48080c080", false, nil},
		{func() interface{} { return new(nilKinds) }, "c480c08080", false, nil},
		{func() interface{} { return new(nilKinds) }, "c480c0c0c0", false, nil},
		{func() interface{} { return new(nilKinds) }, "c605c10605c107", true, &nilKinds{up(5), usp(6), up(5), usp(7)}},
		// ---- ignored ----
		{func() interface{} { return new(ignoredField) }, "c105", true, &ignoredField{0, 5}},
		{func() interface{} { return new(ignoredField) }, "c20105", false, nil},
		// ---- top level ----
		{func() interface{} { return new(uint64) }, "", false, nil},
		{func() interface{} { return new(uint64) }, "0102", false, nil},
		{func() interface{} { return new([]byte) }, "83010203" + "00", false, nil},
		{func() interface{} { return new(interface{}) }, "c0c0", false, nil},
	}
	return V
}

var fixedCases = 7

func groupFixed(c *core.Case) {
	e := &env{c, c.Run}
	run := c.Run
	switch c.I {
	case 0:
		// typed vectors through every decode path
		for i, v := range vectors() {
			x, err := hex.DecodeString(v.in)
			if err != nil {
				run.Inconclusive("harness: bad vector " + v.in)
				continue
			}
			run.Eval(1)
			_, serr := strictDecode(x)
			for pth := 0; pth < pPaths; pth++ {
				if pth == pStreamUnlimited && !unlimitedOK(x) {
					continue
				}
				tgt := v.mk()
				var derr error
				typ := fmt.Sprintf("%T", tgt)
				if !e.op("vector:"+pathNames[pth], x, 256, typ, func() { derr = decodeVia(pth, x, tgt) }) {
					continue
				}
				wit := map[string]interface{}{"vector": i, "type": typ, "input": v.in, "path": pathNames[pth], "error": fmt.Sprint(derr)}
				if derr == nil && serr != nil {
					e.viol("noncanonical-accepted:typed:"+strictClass(serr), fmt.Sprintf("input %s accepted for %s although it is not canonical RLP (%v)", v.in, typ, serr), wit)
				}
				switch {
				case derr == nil && !v.ok:
					e.viol("vector-accepted:"+typ+":"+v.in, fmt.Sprintf("input %s must be rejected for %s (decoded %+v)", v.in, typ, reflect.ValueOf(tgt).Elem().Interface()), wit)
				case derr != nil && v.ok:
					e.viol("vector-rejected:"+typ+":"+v.in, fmt.Sprintf("input %s is the encoding of a %s and must be accepted: %v", v.in, typ, derr), wit)
				case derr == nil && v.want != nil:
					if !eqWant(v.want, tgt) {
						e.viol("vector-value:"+typ+":"+v.in, fmt.Sprintf("input %s decodes to %+v, expected %+v", v.in, reflect.ValueOf(tgt).Elem().Interface(), reflect.ValueOf(v.want).Elem().Interface()), wit)
					}
				}
			}
			run.Count("fixed_vectors", 1)
		}
		run.Nontrivial("fixed|vectors")
	case 1:
		// encoder vectors for optional / tail / nil (ordering rules)
		type ev struct {
			v   interface{}
			enc string
		}
		for _, t := range []ev{
			{&optTail{A: 1}, "c101"},
			{&optTail{A: 1, C: 3}, "c3018003"},
			{&optTail{A: 1, T: []uint{4}}, "c401808004"},
			{&optTail{A: 1, B: 2}, "c20102"},
			{&optTail{A: 0, B: 0, C: 0}, "c180"},
			{&optTail{A: 1, B: 2, C: 3, T: []uint{4, 5}}, "c50102030405"},
			{&optOnly{1, 0, 0}, "c101"},
			{&optOnly{1, 0, 3}, "c3018003"},
			{&optOnly{0, 2, 0}, "c28002"},
			{&optPtr{A: 1}, "c101"},
			{&optPtr{A: 1, P: up(0)}, "c20180"},
			{&optPtr{A: 1, Q: usp()}, "c30180c0"},
			{&optPtr{A: 1, R: big.NewInt(0)}, "c40180c080"},
			{&tailOnly{1, nil}, "c101"},
			{&tailOnly{1, []string{"a", "b"}}, "c3016162"},
			{&nilField{}, "c180"},
			{&nilField{&[3]byte{}}, "c483000000"},
			{&nilKinds{}, "c480c0c080"},
			{&ignoredField{9, 5}, "c105"},
			{[]interface{}{}, "c0"},
			{[]interface{}{uint(1), []byte{}, "", []interface{}{}, [0]byte{}, false, true, big.NewInt(0), (*big.Int)(nil), (*uint)(nil), (*[]uint)(nil), (*[]byte)(nil), (*twoUint)(nil), (*string)(nil), (*bool)(nil)}, "cf0180" + "80" + "c0" + "80" + "80" + "01" + "80" + "80" + "80" + "c0" + "80" + "c0" + "80" + "80"},
		} {
			run.Eval(1)
			var enc []byte
			var err error
			c.Guard("EncodeToBytes(vector)", func() interface{} { return t.enc }, func() { enc, err = rlp.EncodeToBytes(t.v) })
			if err != nil || hex.EncodeToString(enc) != t.enc {
				e.viol("encode-vector:"+fmt.Sprintf("%T", t.v)+":"+t.enc, fmt.Sprintf("%+v encodes as %x (err %v), documented rules give %s", t.v, enc, err, t.enc), map[string]interface{}{"type": fmt.Sprintf("%T", t.v), "expected": t.enc, "got": hex.EncodeToString(enc)})
			}
			run.Count("fixed_encode_vectors", 1)
		}
		run.Nontrivial("fixed|encode-vectors")
	case 2:
		// invalid tag combinations must be refused with an error, both ways, without panic
		u, su := reflect.TypeOf(uint(0)), reflect.TypeOf([]uint(nil))
		sf := func(name string, t reflect.Type, tag string) reflect.StructField {
			return reflect.StructField{Name: name, Type: t, Tag: reflect.StructTag(tag)}
		}
		bad := map[string][]reflect.StructField{
			"required-after-optional":  {sf("A", u, `rlp:"optional"`), sf("B", u, "")},
			"required-after-tail-like": {sf("A", u, ""), sf("B", u, `rlp:"optional"`), sf("C", su, "")},
			"tail-not-last":            {sf("A", su, `rlp:"tail"`), sf("B", u, "")},
			"tail-not-slice":           {sf("A", u, ""), sf("B", u, `rlp:"tail"`)},
			"tail-and-optional":        {sf("A", u, ""), sf("B", su, `rlp:"optional,tail"`)},
			"nil-on-non-pointer":       {sf("A", u, `rlp:"nil"`)},
			"unknown-tag":              {sf("A", u, `rlp:"nul"`)},
			"signed-int-field":         {sf("A", reflect.TypeOf(int(0)), "")},
			"map-field":                {sf("A", reflect.TypeOf(map[string]uint(nil)), "")},
			"chan-field":               {sf("A", reflect.TypeOf((chan uint)(nil)), "")},
			"float-field":              {sf("A", reflect.TypeOf(float64(0)), "")},
		}
		for name, fs := range bad {
			run.Eval(1)
			st := reflect.StructOf(fs)
			var eerr, derr error
			c.Guard("invalid type "+name, func() interface{} { return st.String() }, func() {
				_, eerr = rlp.EncodeToBytes(reflect.New(st).Interface())
				derr = rlp.DecodeBytes([]byte{0xc2, 0x01, 0x02}, reflect.New(st).Interface())
			})
			if eerr == nil || derr == nil {
				e.viol("invalid-type-accepted:"+name, fmt.Sprintf("type %v must be refused (encode err %v, decode err %v)", st, eerr, derr), st.String())
			}
			run.Count("invalid_types_refused", 1)
		}
		// unsupported top-level types and bad Decode targets
		for _, v := range []interface{}{int(1), int64(-1), 1.5, map[string]uint{"a": 1}, make(chan int), func() {}, struct{ A int }{1}} {
			var err error
			c.Guard("unsupported type", func() interface{} { return fmt.Sprintf("%T", v) }, func() { _, err = rlp.EncodeToBytes(v) })
			if err == nil {
				e.viol("invalid-type-accepted:"+fmt.Sprintf("%T", v), "unsupported type encoded without error", fmt.Sprintf("%T", v))
			}
		}
		var u64 uint64
		var nilp *uint64
		for name, tgt := range map[string]interface{}{"nil": nil, "non-pointer": u64, "nil-pointer": nilp} {
			var err error
			c.Guard("Decode into "+name, nil, func() { err = rlp.DecodeBytes([]byte{0x01}, tgt) })
			if err == nil {
				e.viol("bad-target-accepted:"+name, "Decode into "+name+" returns no error", name)
			}
		}
		run.Nontrivial("fixed|invalid-types")
	case 3:
		// helpers: AppendUint64, IntSize, ListSize against the model
		for _, x := range uintBoundaries {
			for _, d := range []uint64{0, 1, ^uint64(0)} { // x, x+1, x-1
				y := x + d
				run.Eval(1)
				want := encUint(y)
				var got []byte
				var isz int
				c.Guard("AppendUint64/IntSize", func() interface{} { return y }, func() { got = rlp.AppendUint64([]byte{0xaa}, y); isz = rlp.IntSize(y) })
				if len(got) < 1 || got[0] != 0xaa || !bytes.Equal(got[1:], want) {
					e.viol("AppendUint64-differs", fmt.Sprintf("AppendUint64(%d) = %x, canonical integer encoding is %x", y, got, want), y)
				}
				if isz != len(want) {
					e.viol("IntSize-differs", fmt.Sprintf("IntSize(%d) = %d, encoding has %d bytes", y, isz, len(want)), y)
				}
				run.Count("helper_checks", 1)
			}
		}
		for _, n := range []uint64{0, 1, 55, 56, 57, 255, 256, 65535, 65536, 1<<24 - 1, 1 << 24, 1<<32 - 1, 1 << 32} {
			var got uint64
			c.Guard("ListSize", func() interface{} { return n }, func() { got = rlp.ListSize(n) })
			if want := uint64(len(header(0xc0, int(n)))) + n; got != want {
				e.viol("ListSize-differs", fmt.Sprintf("ListSize(%d) = %d, expected %d", n, got, want), n)
			}
		}
		run.Nontrivial("fixed|helpers")
	case 4:
		// uint256.Int: encode-only (has EncodeRLP, lib/rlp has no decoder for it)
		for _, s := range []string{"0", "1", "7f", "80", "ff", "100", "ffffffffffffffff", "10000000000000000", "ffffffffffffffffffffffffffffffffffffffffffffffffffffffffffffffff"} {
			b, _ := new(big.Int).SetString(s, 16)
			u, _ := uint256.FromBig(b)
			want, _ := encBig(b)
			var got []byte
			var err error
			run.Eval(1)
			c.Guard("EncodeToBytes(uint256)", func() interface{} { return s }, func() { got, err = rlp.EncodeToBytes(u) })
			if err != nil || !bytes.Equal(got, want) {
				e.viol("encoding-differs-from-model:uint256", fmt.Sprintf("uint256 %s encodes as %x (err %v), integer encoding is %x", s, got, err, want), s)
			}
			type holder struct {
				A uint
				U *uint256.Int
			}
			hw := encList(append([]byte{0x05}, want...))
			c.Guard("EncodeToBytes(struct with uint256)", func() interface{} { return s }, func() { got, err = rlp.EncodeToBytes(&holder{5, u}) })
			if err != nil || !bytes.Equal(got, hw) {
				e.viol("encoding-differs-from-model:uint256", fmt.Sprintf("struct with uint256 %s encodes as %x (err %v), expected %x", s, got, err, hw), s)
			}
			run.Count("uint256_encode_only", 1)
		}
		run.Nontrivial("fixed|uint256")
	case 5:
		// Stream API used directly on lists: ListEnd must refuse leftover data, EOL must be sticky, nesting limits
		x, _ := hex.DecodeString("c6c2010203c105")
		var log []string
		c.Guard("Stream API sequence", nil, func() {
			s := rlp.NewStream(bytes.NewReader(x), 0)
			if _, err := s.List(); err != nil {
				log = append(log, "outer List: "+err.Error())
				return
			}
			if _, err := s.List(); err != nil {
				log = append(log, "inner List: "+err.Error())
				return
			}
			if v, err := s.Uint(); err != nil || v != 1 {
				log = append(log, fmt.Sprint("first Uint: ", v, err))
			}
			if err := s.ListEnd(); err == nil {
				log = append(log, "ListEnd with one element left returned nil")
			}
			if v, err := s.Uint(); err != nil || v != 2 {
				log = append(log, fmt.Sprint("second Uint: ", v, err))
			}
			if _, err := s.Uint(); err != rlp.EOL {
				log = append(log, fmt.Sprint("read at end of inner list: ", err))
			}
			if _, _, err := s.Kind(); err != rlp.EOL {
				log = append(log, fmt.Sprint("Kind at end of inner list: ", err))
			}
			if err := s.ListEnd(); err != nil {
				log = append(log, "inner ListEnd: "+err.Error())
			}
			if v, err := s.Uint(); err != nil || v != 3 {
				log = append(log, fmt.Sprint("third Uint: ", v, err))
			}
			var one []uint
			if err := s.Decode(&one); err != nil || len(one) != 1 || one[0] != 5 {
				log = append(log, fmt.Sprint("Decode of last element: ", one, err))
			}
			if err := s.ListEnd(); err != nil {
				log = append(log, "outer ListEnd: "+err.Error())
			}
			if err := s.ListEnd(); err == nil {
				log = append(log, "ListEnd outside of any list returned nil")
			}
			if _, _, err := s.Kind(); err == nil {
				log = append(log, "Kind after the last value returned nil")
			}
		})
		run.Eval(1)
		if len(log) > 0 {
			e.viol("stream-api-sequence", fmt.Sprint(log), hex.EncodeToString(x))
		}
		run.Count("stream_api_sequences", 1)
		run.Nontrivial("fixed|stream-api")
	case 6:
		fixedListBounds(e)
	}
}

// fixedListBounds: "For non-toplevel values, Stream returns ErrElemTooLarge for values that do not fit into
// the enclosing list" (NewStream documentation). Probed directly at Stream.Kind after entering the outer list.
// Regression case of a defect this check found (repaired in /repo, commit "fix: rlp Stream.Kind checks the value
// size against the list's remaining size"): Kind compared the announced size with the list's remaining size read
// BEFORE the element's own header was deducted, so c2c20055 / c2820000 / c2c1c101 passed.
func fixedListBounds(e *env) {
	c, run := e.c, e.run
	type probe struct {
		in   string
		fits bool // the element (header + announced size) lies within the enclosing list
		note string
	}
	probes := []probe{
		{"c3820000", true, "2-byte string in a 3-byte list"},
		{"c3c20001", true, "2-byte list in a 3-byte list"},
		{"c1820000", false, "string announcing 2 bytes, list has 0 left after the header"},
		{"c1c20001", false, "list announcing 2 bytes, list has 0 left after the header"},
		{"c2820000", false, "string announcing 2 bytes, list has 1 left after the header"},
		{"c2c20055", false, "list announcing 2 bytes, list has 1 left after the header"},
		{"c4b838000000", false, "string with long header announcing 56 bytes in a 4-byte list"},
		{"c3f838000000", false, "list with long header: header alone (2) fits, announced 56 does not"},
		{"c2c1c101", false, "second level: c1 inside c1 inside c2; innermost announces 1, parent has 0 left"},
	}
	var failed []string
	for _, p := range probes {
		x, _ := hex.DecodeString(p.in)
		for _, limited := range []bool{true, false} {
			var kerr, lerr error
			run.Eval(1)
			c.Guard("Stream.Kind at list element", func() interface{} { return p.in }, func() {
				var s *rlp.Stream
				if limited {
					s = rlp.NewStream(bytes.NewReader(x), 0)
				} else {
					s = rlp.NewStream(&opaqueBR{bytes.NewReader(x)}, 0)
				}
				_, lerr = s.List()
				if p.in == "c2c1c101" && lerr == nil {
					_, lerr = s.List()
				}
				_, _, kerr = s.Kind()
			})
			run.Count("list_bound_probes", 1)
			switch {
			case lerr != nil:
				failed = append(failed, fmt.Sprintf("%s: outer List: %v", p.in, lerr))
			case p.fits && kerr != nil:
				e.viol("canonical-rejected:Stream.Kind", fmt.Sprintf("%s (%s): Kind returns %v for an element that fits", p.in, p.note, kerr), p.in)
			case !p.fits && kerr == nil:
				failed = append(failed, fmt.Sprintf("%s (%s, input limit %v): Kind returns no error", p.in, p.note, limited))
			case !p.fits && kerr != rlp.ErrElemTooLarge && kerr != rlp.ErrValueTooLarge:
				failed = append(failed, fmt.Sprintf("%s (%s): Kind returns %v", p.in, p.note, kerr))
			}
		}
	}
	if len(failed) > 0 {
		e.viol("elem-larger-than-list-not-rejected:Stream.Kind",
			"Stream.Kind accepts a list element that does not fit into the enclosing list: "+failed[0],
			map[string]interface{}{"failed_probes": failed})
	}
	// consequence on a Stream without input limit: after the inner list is entered the outer list's remaining size
	// wraps around, the next element may announce anything
	x, _ := hex.DecodeString("c2c20055ba100000") // outer list of 2 bytes; then, beyond it, a string announcing 1 MiB
	var v interface{}
	var derr error
	var delta uint64
	if !c.Guard("list-bound-escape", func() interface{} { return hex.EncodeToString(x) }, func() {
		runtime.ReadMemStats(&ms1)
		derr = rlp.NewStream(&opaqueBR{bytes.NewReader(x)}, 0).Decode(&v)
		runtime.ReadMemStats(&ms2)
		delta = ms2.TotalAlloc - ms1.TotalAlloc
	}) {
		if lim := allowance(len(x), 64); delta > lim {
			e.viol("alloc:list-bound-escape:Stream(no-limit)", fmt.Sprintf("decoding %x (a 2-byte list followed by garbage) from a Stream without input limit allocates %d bytes (allowance %d), error: %v", x, delta, lim, derr),
				map[string]interface{}{"input": hex.EncodeToString(x), "allocated": delta, "error": fmt.Sprint(derr)})
		}
		if derr == nil {
			e.viol("noncanonical-accepted:interface{}:size-exceeds-input", "list-bound escape input accepted", hex.EncodeToString(x))
		}
	}
	run.Nontrivial("fixed|list-bounds")
}

func eqWant(want, got interface{}) bool {
	if w, ok := want.(*big.Int); ok {
		g, ok := got.(*big.Int)
		return ok && g != nil && w.Cmp(g) == 0
	}
	w, g := reflect.ValueOf(want).Elem().Interface(), reflect.ValueOf(got).Elem().Interface()
	if wp, ok := w.(optPtr); ok {
		gp := g.(optPtr)
		if (wp.R == nil) != (gp.R == nil) || (wp.R != nil && wp.R.Cmp(gp.R) != 0) {
			return false
		}
		wp.R, gp.R = nil, nil
		return reflect.DeepEqual(wp, gp)
	}
	if wt, ok := w.(optTail); ok {
		gt := g.(optTail)
		if len(wt.T) != len(gt.T) { // nil and empty are the same list
			return false
		}
		for i := range wt.T {
			if wt.T[i] != gt.T[i] {
				return false
			}
		}
		return wt.A == gt.A && wt.B == gt.B && wt.C == gt.C
	}
	return reflect.DeepEqual(w, g)
}
