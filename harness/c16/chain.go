package c16

// Transactions, receipts (consensus and storage form), logs, block infos, accounts (full and slim
// form) and headers keep their fields and hashes across encode/decode; their encodings equal a model
// written from the field lists, and (transactions, receipts, accounts) go-ethereum's types.

import (
	"bytes"
	"crypto/ecdsa"
	"fmt"
	"math/big"
	"math/rand"
	"reflect"
	"time"

	gcommon "github.com/ethereum/go-ethereum/common"
	gstate "github.com/ethereum/go-ethereum/core/state"
	gtypes "github.com/ethereum/go-ethereum/core/types"
	grlp "github.com/ethereum/go-ethereum/rlp"
	"golang.org/x/crypto/sha3"

	"github.com/kardiachain/go-kardia/lib/common"
	"github.com/kardiachain/go-kardia/lib/crypto"
	"github.com/kardiachain/go-kardia/lib/rlp"
	"github.com/kardiachain/go-kardia/types"

	"verifharness/core"
)

func keccak(b []byte) (h common.Hash) {
	k := sha3.NewLegacyKeccak256()
	k.Write(b)
	k.Sum(h[:0])
	return
}

func rndHash(r *rand.Rand) (h common.Hash) {
	if r.Intn(8) != 0 {
		r.Read(h[:])
	}
	if r.Intn(6) == 0 {
		h[0] = 0
	}
	return
}

func rndAddr(r *rand.Rand) (a common.Address) {
	if r.Intn(8) != 0 {
		r.Read(a[:])
	}
	if r.Intn(6) == 0 {
		a[0] = 0
	}
	return
}

func cat(parts ...[]byte) []byte {
	var o []byte
	for _, p := range parts {
		o = append(o, p...)
	}
	return o
}

func mustBig(x *big.Int) []byte { b, _ := encBig(x); return b }

// mutantsOf yields a few neighbours of a canonical encoding.
func mutantsOf(r *rand.Rand, enc []byte, n int, fn func(x []byte, class string)) {
	tree, err := strictDecode(enc)
	for i := 0; i < n; i++ {
		if err == nil && r.Intn(2) == 0 {
			if b, m, ok := randomRewrite(r, tree); ok {
				fn(b, "rewrite:"+rwNames[m])
				continue
			}
		}
		fn(mutate(r, enc, 1+r.Intn(2)), "mutated")
	}
}

// acceptCheck judges the acceptance of x by a decoder of an injective chain type.
func (e *env) acceptCheck(what string, x []byte, class string, injective bool, decode func() (interface{}, error)) {
	var v interface{}
	var err error
	e.run.Count("chain_strings_checked", 1)
	if !e.op(what+":DecodeBytes", x, 8192, what, func() { v, err = decode() }) || err != nil {
		return
	}
	e.run.Count("chain_strings_accepted", 1)
	wit := map[string]interface{}{"type": what, "input": hexw(x), "class": class}
	if _, serr := strictDecode(x); serr != nil {
		e.viol("noncanonical-accepted:"+what+":"+strictClass(serr), fmt.Sprintf("%s accepts a non-canonical string (%v)", what, serr), wit)
		return
	}
	if injective {
		re, rerr := rlp.EncodeToBytes(v)
		if rerr != nil || !bytes.Equal(re, x) {
			wit["reencoded"] = hexw(re)
			e.viol("accepted-not-the-encoding-of-decoded-value:"+what, fmt.Sprintf("%s accepts x but Encode(Decode(x)) differs (err %v)", what, rerr), wit)
		}
	}
}

var testKeys []*ecdsa.PrivateKey

func key(i int) *ecdsa.PrivateKey {
	for len(testKeys) <= i {
		d := make([]byte, 32)
		d[31] = byte(len(testKeys) + 1)
		d[0] = 0x11
		k, err := crypto.ToECDSA(d)
		if err != nil {
			panic(err)
		}
		testKeys = append(testKeys, k)
	}
	return testKeys[i]
}

func chainTx(c *core.Case) {
	e := &env{c, c.Run}
	r, run := c.R, c.Run
	nonce, gas := genUint(r, 64), genUint(r, 64)
	price, amount := genBig(r), genBig(r)
	payload := genBytes(r)
	var to *common.Address
	if r.Intn(3) != 0 {
		a := rndAddr(r)
		to = &a
	}
	V, R, S := new(big.Int).SetUint64(genUint(r, 16)), genBig(r), genBig(r)
	toEnc := []byte{0x80}
	if to != nil {
		toEnc = encStr(to[:])
	}
	model := encList(cat(encUint(nonce), mustBig(price), encUint(gas), toEnc, mustBig(amount), encStr(payload), mustBig(V), mustBig(R), mustBig(S)))
	wit := map[string]interface{}{"encoding": hexw(model)}
	run.Eval(1)

	var tx types.Transaction
	var err error
	if !e.op("Transaction:DecodeBytes", model, 4096, "types.Transaction", func() { err = rlp.DecodeBytes(model, &tx) }) {
		return
	}
	if err != nil {
		e.viol("tx-canonical-rejected", "a transaction built from its field list does not decode: "+err.Error(), wit)
		return
	}
	gv, gr, gs := tx.RawSignatureValues()
	sameTo := (tx.To() == nil) == (to == nil) && (to == nil || *tx.To() == *to)
	if tx.Nonce() != nonce || tx.Gas() != gas || tx.GasPrice().Cmp(price) != 0 || tx.Value().Cmp(amount) != 0 || !bytes.Equal(tx.Data(), payload) || !sameTo ||
		gv.Cmp(V) != 0 || gr.Cmp(R) != 0 || gs.Cmp(S) != 0 {
		e.viol("tx-fields-differ", "decoded transaction fields differ from the encoded ones", wit)
	}
	if h := tx.Hash(); h != keccak(model) {
		e.viol("tx-hash-differs", fmt.Sprintf("Hash() = %x, keccak256(encoding) = %x", h, keccak(model)), wit)
	}
	if int(tx.Size()) != len(model) {
		e.viol("tx-size-differs", fmt.Sprintf("Size() = %d, encoding has %d bytes", int(tx.Size()), len(model)), wit)
	}
	re, err := rlp.EncodeToBytes(&tx)
	if err != nil || !bytes.Equal(re, model) {
		e.viol("tx-reencode-differs", fmt.Sprintf("Encode(Decode(x)) = %s (err %v)", hexs(re), err), wit)
	}
	if mb, err := tx.MarshalBinary(); err != nil || !bytes.Equal(mb, model) {
		e.viol("tx-reencode-differs:MarshalBinary", fmt.Sprintf("MarshalBinary = %s (err %v)", hexs(mb), err), wit)
	}
	// second generation: decode the re-encoding; hash must stay
	var tx2 types.Transaction
	if err := rlp.DecodeBytes(re, &tx2); err != nil || tx2.Hash() != tx.Hash() {
		e.viol("tx-hash-differs:second-roundtrip", fmt.Sprintf("hash changes across encode/decode (err %v)", err), wit)
	}
	// reference implementation: the legacy Ethereum transaction has the same 9-field layout
	var gtx gtypes.Transaction
	if gerr := grlp.DecodeBytes(model, &gtx); gerr != nil {
		e.viol("geth-rejects-own-encoding:tx", gerr.Error(), wit)
	} else if gcommon.Hash(tx.Hash()) != gtx.Hash() {
		e.viol("tx-hash-differs-from-geth", fmt.Sprintf("go-ethereum hashes the same transaction to %x", gtx.Hash()), wit)
	}
	run.Count("tx_roundtrips", 1)
	run.Nontrivial("tx|" + hexw(model))
	if c.I < 1 {
		run.Sample(map[string]interface{}{"group": "chain", "kind": "transaction", "encoding": hexw(model), "hash": fmt.Sprintf("%x", tx.Hash())})
	}

	// signed transaction built through the API: sender, hash and fields survive; a list of transactions too
	if (c.I/4)%3 == 0 {
		var stx *types.Transaction
		if to != nil {
			stx = types.NewTransaction(nonce, *to, amount, gas, price, payload)
		} else {
			stx = types.NewContractCreation(nonce, amount, gas, price, payload)
		}
		var signer types.Signer = types.HomesteadSigner{}
		if r.Intn(2) == 0 {
			signer = types.NewChainIDSigner(big.NewInt(1 + int64(r.Intn(3000))))
		}
		if r.Intn(2) == 0 {
			// the unsigned object was looked at before signing: what it memoised must not survive into the signed one
			_, _ = stx.Hash(), stx.Size()
			run.Count("tx_signed_after_hash_and_size_were_read", 1)
		}
		signed, err := types.SignTx(signer, stx, key(r.Intn(4)))
		if err != nil {
			run.Inconclusive("SignTx failed: " + err.Error())
			return
		}
		from, ferr := types.Sender(signer, signed)
		enc, err := rlp.EncodeToBytes(types.Transactions{signed, &tx})
		if err != nil {
			e.viol("tx-encode-error", err.Error(), nil)
			return
		}
		var back types.Transactions
		if err := rlp.DecodeBytes(enc, &back); err != nil || len(back) != 2 {
			e.viol("tx-list-roundtrip", fmt.Sprintf("list of transactions does not decode (err %v)", err), hexw(enc))
			return
		}
		from2, ferr2 := types.Sender(signer, back[0])
		if back[0].Hash() != signed.Hash() || back[1].Hash() != tx.Hash() || from != from2 || (ferr == nil) != (ferr2 == nil) {
			e.viol("tx-hash-differs:signed", fmt.Sprintf("signed transaction: hash %x -> %x, sender %x -> %x (%v, %v)", signed.Hash(), back[0].Hash(), from, from2, ferr, ferr2), hexw(enc))
		}
		if !bytes.Equal(encList(cat(types.Transactions{signed}.GetRlp(0), model)), enc) {
			e.viol("tx-list-roundtrip:GetRlp", "GetRlp(i) is not the i-th element of the encoded list", hexw(enc))
		}
		run.Count("tx_signed_roundtrips", 1)
	}
	mutantsOf(r, model, 6, func(x []byte, class string) {
		e.acceptCheck("types.Transaction", x, class, true, func() (interface{}, error) {
			t := new(types.Transaction)
			return t, rlp.DecodeBytes(x, t)
		})
	})
}

func genLog(r *rand.Rand) *types.Log {
	l := &types.Log{Address: rndAddr(r), Data: genBytes(r)}
	if len(l.Data) > 300 {
		l.Data = l.Data[:300]
	}
	for i := r.Intn(5); i > 0; i-- {
		l.Topics = append(l.Topics, rndHash(r))
	}
	return l
}

func logModel(l *types.Log) []byte {
	var ts []byte
	for _, t := range l.Topics {
		ts = append(ts, encStr(t[:])...)
	}
	return encList(cat(encStr(l.Address[:]), encList(ts), encStr(l.Data)))
}

func logLegacyModel(l *types.Log, r *rand.Rand) []byte {
	var ts []byte
	for _, t := range l.Topics {
		ts = append(ts, encStr(t[:])...)
	}
	h1, h2 := rndHash(r), rndHash(r)
	return encList(cat(encStr(l.Address[:]), encList(ts), encStr(l.Data), encUint(genUint(r, 64)), encStr(h1[:]), encUint(genUint(r, 32)), encStr(h2[:]), encUint(genUint(r, 32))))
}

func sameLogs(a, b []*types.Log) bool {
	if len(a) != len(b) {
		return false
	}
	for i := range a {
		if a[i].Address != b[i].Address || !bytes.Equal(a[i].Data, b[i].Data) || len(a[i].Topics) != len(b[i].Topics) {
			return false
		}
		for j := range a[i].Topics {
			if a[i].Topics[j] != b[i].Topics[j] {
				return false
			}
		}
	}
	return true
}

func genReceipt(r *rand.Rand) *types.Receipt {
	rc := &types.Receipt{CumulativeGasUsed: genUint(r, 64), GasUsed: genUint(r, 64), TxHash: rndHash(r), ContractAddress: rndAddr(r)}
	switch r.Intn(3) {
	case 0:
		rc.Status = types.ReceiptStatusFailed
	case 1:
		rc.Status = types.ReceiptStatusSuccessful
	case 2:
		rc.PostState = make([]byte, 32) // pre-Byzantium form: a 32-byte state root instead of the status
		r.Read(rc.PostState)
	}
	if r.Intn(3) != 0 {
		r.Read(rc.Bloom[:])
	}
	for i := r.Intn(4); i > 0; i-- {
		rc.Logs = append(rc.Logs, genLog(r))
	}
	return rc
}

func statusModel(rc *types.Receipt) []byte {
	if len(rc.PostState) > 0 {
		return encStr(rc.PostState)
	}
	if rc.Status == types.ReceiptStatusFailed {
		return []byte{0x80}
	}
	return []byte{0x01}
}

func chainReceipt(c *core.Case) {
	e := &env{c, c.Run}
	r, run := c.R, c.Run
	rc := genReceipt(r)
	var logs, legacy []byte
	for _, l := range rc.Logs {
		logs = append(logs, logModel(l)...)
		legacy = append(legacy, logLegacyModel(l, r)...)
	}
	model := encList(cat(statusModel(rc), encUint(rc.CumulativeGasUsed), encStr(rc.Bloom[:]), encList(logs)))
	run.Eval(1)
	enc, err := rlp.EncodeToBytes(rc)
	if err != nil || !bytes.Equal(enc, model) {
		e.viol("receipt-encoding-differs-from-model", fmt.Sprintf("consensus encoding %s (err %v), field list gives %s", hexs(enc), err, hexs(model)), nil)
		return
	}
	if got := (types.Receipts{rc}).GetRlp(0); !bytes.Equal(got, model) {
		e.viol("receipt-encoding-differs-from-model:GetRlp", "Receipts.GetRlp differs from the consensus encoding", hexw(got))
	}
	var back types.Receipt
	var derr error
	if !e.op("Receipt:DecodeBytes", enc, 8192, "types.Receipt", func() { derr = rlp.DecodeBytes(enc, &back) }) {
		return
	}
	if derr != nil {
		e.viol("receipt-roundtrip-decode-error", derr.Error(), hexw(enc))
		return
	}
	if back.Status != rc.Status || !bytes.Equal(back.PostState, rc.PostState) || back.CumulativeGasUsed != rc.CumulativeGasUsed || back.Bloom != rc.Bloom || !sameLogs(back.Logs, rc.Logs) {
		e.viol("receipt-fields-differ", "consensus fields change across encode/decode", hexw(enc))
	}
	if re, _ := rlp.EncodeToBytes(&back); !bytes.Equal(re, enc) || keccak(re) != keccak(enc) {
		e.viol("receipt-hash-differs", "re-encoding (and therefore the receipt hash) changes across encode/decode", hexw(enc))
	}
	var grc gtypes.Receipt
	if gerr := grlp.DecodeBytes(enc, &grc); gerr != nil {
		e.viol("geth-rejects-own-encoding:receipt", gerr.Error(), hexw(enc))
	} else if gre, _ := grlp.EncodeToBytes(&grc); !bytes.Equal(gre, enc) {
		e.viol("receipt-encoding-differs-from-geth", fmt.Sprintf("go-ethereum re-encodes the receipt as %s", hexs(gre)), hexw(enc))
	}
	run.Count("receipt_roundtrips", 1)
	run.Nontrivial("receipt|" + hexw(enc[:8]) + fmt.Sprint(len(rc.Logs), len(enc)))

	// storage form
	smodel := encList(cat(statusModel(rc), encUint(rc.CumulativeGasUsed), encStr(rc.Bloom[:]), encStr(rc.TxHash[:]), encStr(rc.ContractAddress[:]), encList(logs), encUint(rc.GasUsed)))
	senc, err := rlp.EncodeToBytes((*types.ReceiptForStorage)(rc))
	if err != nil || !bytes.Equal(senc, smodel) {
		e.viol("receipt-storage-encoding-differs-from-model", fmt.Sprintf("storage encoding %s (err %v), field list gives %s", hexs(senc), err, hexs(smodel)), nil)
		return
	}
	checkStored := func(in []byte, what string) {
		var sb types.ReceiptForStorage
		var derr error
		if !e.op("ReceiptForStorage:DecodeBytes", in, 8192, "types.ReceiptForStorage", func() { derr = rlp.DecodeBytes(in, &sb) }) {
			return
		}
		if derr != nil {
			e.viol("receipt-storage-roundtrip-decode-error:"+what, derr.Error(), hexw(in))
			return
		}
		if sb.Status != rc.Status || !bytes.Equal(sb.PostState, rc.PostState) || sb.CumulativeGasUsed != rc.CumulativeGasUsed || sb.Bloom != rc.Bloom || !sameLogs(sb.Logs, rc.Logs) ||
			sb.TxHash != rc.TxHash || sb.ContractAddress != rc.ContractAddress || sb.GasUsed != rc.GasUsed {
			e.viol("receipt-storage-fields-differ:"+what, "stored receipt fields change across encode/decode", hexw(in))
		}
		if re, _ := rlp.EncodeToBytes((*types.Receipt)(&sb)); !bytes.Equal(re, enc) {
			e.viol("receipt-hash-differs:storage:"+what, "consensus encoding of the receipt read back from storage differs", hexw(in))
		}
	}
	checkStored(senc, "current")
	if len(rc.Logs) > 0 {
		// storage written by earlier versions (logs with the derived fields) must stay readable
		checkStored(encList(cat(statusModel(rc), encUint(rc.CumulativeGasUsed), encStr(rc.Bloom[:]), encStr(rc.TxHash[:]), encStr(rc.ContractAddress[:]), encList(legacy), encUint(rc.GasUsed))), "legacy-logs")
		run.Count("receipt_legacy_log_decodes", 1)
	}
	// block info
	bi := &types.BlockInfo{GasUsed: genUint(r, 64), Rewards: genBig(r), Receipts: types.Receipts{rc, genReceipt(r)}}
	r.Read(bi.Bloom[:])
	var rs []byte
	rs = append(rs, smodel...)
	{
		rc2 := bi.Receipts[1]
		var l2 []byte
		for _, l := range rc2.Logs {
			l2 = append(l2, logModel(l)...)
		}
		rs = append(rs, encList(cat(statusModel(rc2), encUint(rc2.CumulativeGasUsed), encStr(rc2.Bloom[:]), encStr(rc2.TxHash[:]), encStr(rc2.ContractAddress[:]), encList(l2), encUint(rc2.GasUsed)))...)
	}
	bmodel := encList(cat(encUint(bi.GasUsed), mustBig(bi.Rewards), encList(rs), encStr(bi.Bloom[:])))
	benc, err := rlp.EncodeToBytes(bi)
	if err != nil || !bytes.Equal(benc, bmodel) {
		e.viol("blockinfo-encoding-differs-from-model", fmt.Sprintf("BlockInfo encoding %s (err %v), field list gives %s", hexs(benc), err, hexs(bmodel)), nil)
	} else {
		var bb types.BlockInfo
		if err := rlp.DecodeBytes(benc, &bb); err != nil {
			e.viol("blockinfo-roundtrip-decode-error", err.Error(), hexw(benc))
		} else if re, _ := rlp.EncodeToBytes(&bb); !bytes.Equal(re, benc) || bb.GasUsed != bi.GasUsed || bb.Rewards.Cmp(bi.Rewards) != 0 || bb.Bloom != bi.Bloom || len(bb.Receipts) != 2 {
			e.viol("blockinfo-fields-differ", "BlockInfo changes across encode/decode", hexw(benc))
		}
		if int(bi.Size()) != len(benc) {
			e.viol("blockinfo-size-differs", fmt.Sprintf("Size() = %d, encoding has %d bytes", int(bi.Size()), len(benc)), hexw(benc))
		}
		run.Count("blockinfo_roundtrips", 1)
	}
	mutantsOf(r, enc, 4, func(x []byte, class string) {
		e.acceptCheck("types.Receipt", x, class, true, func() (interface{}, error) {
			t := new(types.Receipt)
			return t, rlp.DecodeBytes(x, t)
		})
	})
	mutantsOf(r, senc, 4, func(x []byte, class string) {
		// not injective by design (legacy log layout is accepted): byte-level canonicity only
		e.acceptCheck("types.ReceiptForStorage", x, class, false, func() (interface{}, error) {
			t := new(types.ReceiptForStorage)
			return t, rlp.DecodeBytes(x, t)
		})
	})
	if len(rc.Logs) > 0 {
		lenc, _ := rlp.EncodeToBytes(rc.Logs[0])
		if !bytes.Equal(lenc, logModel(rc.Logs[0])) {
			e.viol("log-encoding-differs-from-model", hexw(lenc), hexw(logModel(rc.Logs[0])))
		}
		mutantsOf(r, lenc, 3, func(x []byte, class string) {
			e.acceptCheck("types.Log", x, class, true, func() (interface{}, error) {
				t := new(types.Log)
				return t, rlp.DecodeBytes(x, t)
			})
		})
	}
}

func chainAccount(c *core.Case) {
	e := &env{c, c.Run}
	r, run := c.R, c.Run
	acc := types.StateAccount{Nonce: genUint(r, 64), Balance: genBig(r), Root: types.EmptyRootHash, CodeHash: types.EmptyCodeHash[:]}
	if r.Intn(2) == 0 {
		acc.Root = rndHash(r)
	}
	if r.Intn(2) == 0 {
		h := rndHash(r)
		acc.CodeHash = h[:]
	}
	model := encList(cat(encUint(acc.Nonce), mustBig(acc.Balance), encStr(acc.Root[:]), encStr(acc.CodeHash)))
	run.Eval(1)
	enc, err := rlp.EncodeToBytes(&acc)
	if err != nil || !bytes.Equal(enc, model) {
		e.viol("account-encoding-differs-from-model", fmt.Sprintf("account encoding %s (err %v), field list gives %s", hexs(enc), err, hexs(model)), nil)
		return
	}
	var back types.StateAccount
	var derr error
	if !e.op("StateAccount:DecodeBytes", enc, 4096, "types.StateAccount", func() { derr = rlp.DecodeBytes(enc, &back) }) {
		return
	}
	if derr != nil || back.Nonce != acc.Nonce || back.Balance.Cmp(acc.Balance) != 0 || back.Root != acc.Root || !bytes.Equal(back.CodeHash, acc.CodeHash) {
		e.viol("account-fields-differ", fmt.Sprintf("account changes across encode/decode (err %v)", derr), hexw(enc))
		return
	}
	if re, _ := rlp.EncodeToBytes(&back); keccak(re) != keccak(enc) {
		e.viol("account-hash-differs", "account re-encoding (its trie leaf) changes across encode/decode", hexw(enc))
	}
	gacc := gstate.Account{Nonce: acc.Nonce, Balance: acc.Balance, Root: gcommon.Hash(acc.Root), CodeHash: acc.CodeHash}
	if genc, _ := grlp.EncodeToBytes(&gacc); !bytes.Equal(genc, enc) {
		e.viol("account-encoding-differs-from-geth", fmt.Sprintf("go-ethereum encodes the same account as %s", hexs(genc)), hexw(enc))
	}
	// slim form and back
	var slim, full []byte
	var facc *types.StateAccount
	var ferr, ferr2 error
	c.Guard("SlimAccountRLP/FullAccount", func() interface{} { return hexw(enc) }, func() {
		slim = types.SlimAccountRLP(acc)
		facc, ferr = types.FullAccount(slim)
		full, ferr2 = types.FullAccountRLP(slim)
	})
	var sroot, scode []byte
	if acc.Root != types.EmptyRootHash {
		sroot = acc.Root[:]
	}
	if !bytes.Equal(acc.CodeHash, types.EmptyCodeHash[:]) {
		scode = acc.CodeHash
	}
	smodel := encList(cat(encUint(acc.Nonce), mustBig(acc.Balance), encStr(sroot), encStr(scode)))
	if !bytes.Equal(slim, smodel) {
		e.viol("slim-account-encoding-differs-from-model", fmt.Sprintf("slim encoding %s, field list gives %s", hexs(slim), hexs(smodel)), hexw(enc))
	}
	if ferr != nil || ferr2 != nil || facc == nil || facc.Nonce != acc.Nonce || facc.Balance.Cmp(acc.Balance) != 0 || facc.Root != acc.Root || !bytes.Equal(facc.CodeHash, acc.CodeHash) || !bytes.Equal(full, enc) {
		e.viol("account-hash-differs:slim", fmt.Sprintf("slim -> full conversion does not give the account back (%v, %v)", ferr, ferr2), map[string]interface{}{"full": hexw(enc), "slim": hexw(slim), "back": hexw(full)})
	}
	run.Count("account_roundtrips", 1)
	run.Nontrivial("account|" + hexw(enc))
	mutantsOf(r, enc, 6, func(x []byte, class string) {
		e.acceptCheck("types.StateAccount", x, class, true, func() (interface{}, error) {
			t := new(types.StateAccount)
			return t, rlp.DecodeBytes(x, t)
		})
	})
	mutantsOf(r, slim, 3, func(x []byte, class string) {
		e.acceptCheck("types.SlimAccount", x, class, true, func() (interface{}, error) {
			t := new(types.SlimAccount)
			return t, rlp.DecodeBytes(x, t)
		})
	})
}

func chainHeader(c *core.Case) {
	e := &env{c, c.Run}
	r, run := c.R, c.Run
	h := &types.Header{Height: genUint(r, 64), NumTxs: genUint(r, 64), GasLimit: genUint(r, 64),
		LastBlockID:     types.BlockID{Hash: rndHash(r), PartsHeader: types.PartSetHeader{Total: uint32(genUint(r, 32)), Hash: rndHash(r)}},
		ProposerAddress: rndAddr(r), LastCommitHash: rndHash(r), TxHash: rndHash(r), ValidatorsHash: rndHash(r), NextValidatorsHash: rndHash(r),
		ConsensusHash: rndHash(r), AppHash: rndHash(r), EvidenceHash: rndHash(r)}
	withTime := (c.I/4)%2 == 1
	if withTime {
		h.Time = time.Unix(1500000000+r.Int63n(500000000), r.Int63n(1e9)).UTC()
	}
	hs := func(x common.Hash) []byte { return encStr(x[:]) }
	// field list of types.Header; Time (a time.Time, no exported fields) is an empty list
	model := encList(cat(encUint(h.Height), []byte{0xc0}, encUint(h.NumTxs), encUint(h.GasLimit),
		encList(cat(hs(h.LastBlockID.Hash), encList(cat(encUint(uint64(h.LastBlockID.PartsHeader.Total)), hs(h.LastBlockID.PartsHeader.Hash))))),
		encStr(h.ProposerAddress[:]), hs(h.LastCommitHash), hs(h.TxHash), hs(h.ValidatorsHash), hs(h.NextValidatorsHash), hs(h.ConsensusHash), hs(h.AppHash), hs(h.EvidenceHash)))
	run.Eval(1)
	enc, err := rlp.EncodeToBytes(h)
	if err != nil || !bytes.Equal(enc, model) {
		e.viol("header-encoding-differs-from-model", fmt.Sprintf("header encoding %s (err %v), field list gives %s", hexs(enc), err, hexs(model)), nil)
		return
	}
	var back types.Header
	var derr error
	if !e.op("Header:DecodeBytes", enc, 4096, "types.Header", func() { derr = rlp.DecodeBytes(enc, &back) }) {
		return
	}
	if derr != nil {
		e.viol("header-roundtrip-decode-error", derr.Error(), hexw(enc))
		return
	}
	noTime := *h
	noTime.Time = back.Time
	if !reflect.DeepEqual(noTime, back) {
		e.viol("header-fields-differ", "header fields other than Time change across RLP encode/decode", hexw(enc))
	}
	if re, _ := rlp.EncodeToBytes(&back); !bytes.Equal(re, enc) {
		e.viol("header-reencode-differs", "header re-encoding differs", hexw(enc))
	}
	if back.Hash() != h.Hash() {
		// the known cause (Time is written as an empty list) gets its own key only if it is the whole explanation:
		// the header with Time zeroed must hash to exactly what came back
		key := "header-hash-changes-across-rlp"
		if withTime && back.Time.IsZero() && noTime.Hash() == back.Hash() {
			key += ":Time-not-encoded"
		}
		e.viol(key, fmt.Sprintf("Header.Hash() %x becomes %x after rlp encode/decode: Header.EncodeRLP writes Time as an empty list, Hash() covers Time (%v -> %v)", h.Hash(), back.Hash(), h.Time, back.Time),
			map[string]interface{}{"encoding": hexw(enc), "time": h.Time.String()})
	}
	run.Count("header_roundtrips", 1)
	if withTime {
		run.Count("header_roundtrips_with_time", 1)
	}
	run.Nontrivial("header|" + hexw(enc[:40]))
	mutantsOf(r, enc, 5, func(x []byte, class string) {
		e.acceptCheck("types.Header", x, class, true, func() (interface{}, error) {
			t := new(types.Header)
			return t, rlp.DecodeBytes(x, t)
		})
	})
}

func groupChain(c *core.Case) {
	switch c.I % 4 {
	case 0:
		chainTx(c)
	case 1:
		chainReceipt(c)
	case 2:
		chainAccount(c)
	case 3:
		chainHeader(c)
	}
}
