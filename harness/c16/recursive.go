package c16

import (
	"bytes"
	"fmt"

	"github.com/kardiachain/go-kardia/lib/rlp"

	"verifharness/core"
)

// Group recursive: types that contain themselves by value through a slice or array (reflect cannot build those at
// run time, so they are declared here). While the codec generates the type information of such a type it has to hand
// out a placeholder for the type itself; which member of the family it meets first decides who sees the
// placeholder. Each declared type is used by exactly one case, once starting from the struct and once from the
// slice, so that both orders occur in fresh processes; every value must round-trip and encode as the model says.

type recA struct {
	Val  uint64
	Kids []recA
}
type recB struct {
	Val  uint64
	Kids []recB
}
type recC struct {
	Name string
	Sub  [][]recC
}
type recD struct {
	Val  uint64
	Pair [2][]recD
}
type recE struct {
	Val  uint64
	Kids []recE `rlp:"tail"`
}
type recF struct {
	Val  uint64
	Opt  []recF `rlp:"optional"`
	More []recF `rlp:"optional"`
}

func mkA(d int) recA {
	x := recA{Val: uint64(d)}
	for i := 0; i < d; i++ {
		x.Kids = append(x.Kids, mkA(d-1))
	}
	return x
}
func mkB(d int) recB {
	x := recB{Val: uint64(d)}
	for i := 0; i < d; i++ {
		x.Kids = append(x.Kids, mkB(d-1))
	}
	return x
}
func mkC(d int) recC {
	x := recC{Name: fmt.Sprint("c", d)}
	for i := 0; i < d; i++ {
		x.Sub = append(x.Sub, []recC{mkC(d - 1)})
	}
	return x
}
func mkD(d int) recD {
	x := recD{Val: uint64(d)}
	if d > 0 {
		x.Pair[0] = []recD{mkD(d - 1)}
		x.Pair[1] = []recD{mkD(d - 1), mkD(0)}
	}
	return x
}
func mkE(d int) recE {
	x := recE{Val: uint64(d)}
	for i := 0; i < d; i++ {
		x.Kids = append(x.Kids, mkE(d-1))
	}
	return x
}
func mkF(d int) recF {
	x := recF{Val: uint64(d)}
	if d > 0 {
		x.Opt = []recF{mkF(d - 1)}
		x.More = []recF{mkF(d - 1), mkF(0)}
	}
	return x
}

func groupRecursive(c *core.Case) {
	e := &env{c, c.Run}
	run := c.Run
	// roundtrip: encode v, decode into a fresh value through mk(), re-encode, compare
	rt := func(name string, v interface{}, fresh func() interface{}) {
		run.Eval(1)
		var enc []byte
		var err error
		c.Guard("recursive type "+name, func() interface{} { return name }, func() {
			enc, err = rlp.EncodeToBytes(v)
			if err != nil {
				e.viol("recursive:encode-error", fmt.Sprintf("%s does not encode: %v", name, err), nil)
				return
			}
			back := fresh()
			if derr := rlp.DecodeBytes(enc, back); derr != nil {
				e.viol("recursive:valid-encoding-rejected", fmt.Sprintf("%s: the encoding of a value does not decode: %v", name, derr), hexw(enc))
				return
			}
			again, err2 := rlp.EncodeToBytes(back)
			if err2 != nil || !bytes.Equal(again, enc) {
				e.viol("recursive:roundtrip-differs", fmt.Sprintf("%s: Encode(Decode(Encode(v))) differs from Encode(v) (err %v)", name, err2), hexw(enc))
				return
			}
			run.Count("recursive_values_roundtripped", 1)
		})
	}
	d := 1 + c.I%3
	switch (c.I / 3) % 6 {
	case 0: // the struct first
		rt("recA (struct first)", mkA(d), func() interface{} { return new(recA) })
	case 1: // the slice first
		s := []recB{mkB(d), mkB(1)}
		rt("[]recB (slice first)", s, func() interface{} { return new([]recB) })
		rt("recB", mkB(d), func() interface{} { return new(recB) })
	case 2:
		rt("recC (slice of slices)", mkC(d), func() interface{} { return new(recC) })
	case 3:
		rt("recD (array of slices)", mkD(d), func() interface{} { return new(recD) })
	case 4:
		rt("recE (tail)", mkE(d), func() interface{} { return new(recE) })
	case 5:
		rt("recF (optional)", mkF(d), func() interface{} { return new(recF) })
	}
	run.Nontrivial(fmt.Sprint("recursive", c.I))
}
