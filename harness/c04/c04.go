// Package c04 decides C04 (bounded liveness) on the deterministic simulator.
package c04

import (
	"verifharness/c18"
	"verifharness/core"
	"verifharness/netsim"
)

func init() { core.Register("C04", Main) }

func Main() {
	r := core.Start("C04", "exploration")
	r.SetRule("case = random validator count/powers/adversary set (<1/3), adversarial prefix of 50..450 scheduler steps (random single deliveries, early timeouts, partitions, Byzantine messages), then a synchronous suffix (gossip to fixpoint, fire the earliest timeout) that must commit 3 further heights on every correct node within 20*n rounds per height; non-trivial = suffix completed after a prefix")
	r.Assume("the simulator delivers to a node only through its real receive loop; gossip emulation offers what real reactors send (state-based, maj23 exchange), adversary < 1/3 of the power")
	r.Cases("ticker", r.N(64, 2000), core.Opts{Workers: 16}, netsim.TickerCase)
	r.Cases("scenario", netsim.NumScenarioCases(), core.Opts{Procs: 16, StallSec: 300}, func(c *core.Case) { netsim.ScenarioCase(c, "C04") })
	r.Cases("attack", len(netsim.Attacks)*len(netsim.AttackCfgs()), core.Opts{Procs: 16, StallSec: 300}, func(c *core.Case) { netsim.AttackCase(c, "C04") })
	r.Cases("random", r.N(400, 8000), core.Opts{Procs: 16, StallSec: 300}, func(c *core.Case) { netsim.RandomCase(c, "C04", 7, 400) })
	// the real reactor's gossip routines against scripted lagging peers (what the simulator's gossip emulation replaces)
	r.Assume("gossip-delivery: a peer's latest NewRoundStep/NewValidBlock announcement is what it is at and what it holds; the node's own state is frozen while its gossip goroutines serve the peer")
	r.Cases("gossip-delivery", r.N(32, 600), core.Opts{Procs: 16, StallSec: 300}, c18.GossipCase)
	r.Floor("gossip_votes_expected:precommits-of-the-peers-round", 20)
	r.Floor("gossip_votes_expected:prevotes-of-the-peers-round", 20)
	r.Floor("gossip_parts_expected:catch-up", 5)
	r.Floor("gossip_parts_expected:after-announcement:valid-block", 5)
	if !r.Quick() {
		// E-live: real reactors, switches and tickers (no race instrumentation here; C03's thorough tier runs it under -race)
		r.Cases("live", 24, core.Opts{Procs: 4, StallSec: 1500, InconclusiveFatal: []string{"lib/p2p.Connect2Switches"}}, func(c *core.Case) { netsim.LiveCase(c, "C04") })
	}
	r.Finish()
}
