// Package c05 decides C05 (crash recovery) by fault enumeration: every prefix of the
// victim's totally ordered durable writes (DB units, WAL fsyncs) of a golden run is a
// crash point; the victim is rebuilt from the images at that point, restarted through
// the real OnStart/catchupReplay, and the network continues.
package c05

import (
	"fmt"
	"os"

	"verifharness/c06"
	"verifharness/core"
	"verifharness/netsim"
)

func init() { core.Register("C05", Main) }

func plans(quick bool) []netsim.CrashPlan {
	ps := []netsim.CrashPlan{
		{Name: "flush-4v-victim0", N: 4, Victim: 0, Flush: true, Heights: 3},
		{Name: "cache-4v-victim1-txs", N: 4, Victim: 1, Flush: false, Heights: 3, WithTxs: true},
		{Name: "flush-4v-victim2-late-votesfirst", N: 4, Victim: 2, Flush: true, Heights: 3, Late: true, VotesFirst: true},
		{Name: "flush-1v-late-txs", N: 1, Victim: 0, Flush: true, Heights: 3, Late: true, WithTxs: true},
		{Name: "flush-4v-victim3-rotate", N: 4, Victim: 3, Flush: true, Heights: 4, Rotate: 1200},
		{Name: "flush-1v-second-txs", N: 1, Victim: 0, Flush: true, Heights: 3, Second: true, WithTxs: true},
		{Name: "flush-4v-victim1-valchange", N: 4, Victim: 1, Flush: true, Heights: 5, ValChange: true},
		{Name: "flush-4v-victim2-manyrounds", N: 4, Victim: 2, Flush: true, Heights: 3, ManyRounds: true},
		{Name: "flush-4v-victim0-zerocommitwait-late", N: 4, Victim: 0, Flush: true, Heights: 3, ZeroCommitWait: true, Late: true},
		{Name: "flush-4v-victim1-viaswitch-late", N: 4, Victim: 1, Flush: true, Heights: 3, ViaSwitch: true, Late: true},
		{Name: "flush-4v-victim3-noise-late", N: 4, Victim: 3, Flush: true, Heights: 3, Noise: true, Late: true},
		{Name: "flush-1v-torn-second-txs", N: 1, Victim: 0, Flush: true, Heights: 3, Torn: true, Second: true, WithTxs: true},
	}
	if quick {
		return ps
	}
	for v := 0; v < 4; v++ {
		ps = append(ps, netsim.CrashPlan{Name: fmt.Sprintf("flush-4v-victim%d-txs", v), N: 4, Victim: v, Flush: true, Heights: 5, WithTxs: true})
		ps = append(ps, netsim.CrashPlan{Name: fmt.Sprintf("cache-4v-victim%d", v), N: 4, Victim: v, Flush: false, Heights: 5})
		ps = append(ps, netsim.CrashPlan{Name: fmt.Sprintf("flush-4v-victim%d-torn", v), N: 4, Victim: v, Flush: true, Heights: 4, Torn: true})
		ps = append(ps, netsim.CrashPlan{Name: fmt.Sprintf("flush-4v-victim%d-late-txs", v), N: 4, Victim: v, Flush: true, Heights: 4, Late: true, WithTxs: true})
		ps = append(ps, netsim.CrashPlan{Name: fmt.Sprintf("flush-4v-victim%d-late-votesfirst", v), N: 4, Victim: v, Flush: true, Heights: 4, Late: true, VotesFirst: true})
	}
	ps = append(ps, netsim.CrashPlan{Name: "flush-1v-torn-txs", N: 1, Victim: 0, Flush: true, Heights: 4, Torn: true, WithTxs: true})
	ps = append(ps, netsim.CrashPlan{Name: "flush-1v", N: 1, Victim: 0, Flush: true, Heights: 4, WithTxs: true})
	ps = append(ps, netsim.CrashPlan{Name: "cache-1v", N: 1, Victim: 0, Flush: false, Heights: 4})
	ps = append(ps, netsim.CrashPlan{Name: "flush-7v-victim3", N: 7, Victim: 3, Flush: true, Heights: 3})
	ps = append(ps, netsim.CrashPlan{Name: "flush-1v-rotate-late-txs", N: 1, Victim: 0, Flush: true, Heights: 5, Rotate: 900, Late: true, WithTxs: true})
	ps = append(ps, netsim.CrashPlan{Name: "flush-4v-victim0-rotate-txs", N: 4, Victim: 0, Flush: true, Heights: 5, Rotate: 2500, WithTxs: true})
	for v := 0; v < 4; v++ {
		// the victim is the round-1 proposer of an even height for one v, the round-2 proposer for another
		ps = append(ps, netsim.CrashPlan{Name: fmt.Sprintf("flush-4v-victim%d-round2-txs", v), N: 4, Victim: v, Flush: true, Heights: 4, Round2: true, WithTxs: true, Late: v%2 == 1})
	}
	ps = append(ps, netsim.CrashPlan{Name: "flush-4v-victim1-valchange-late-txs", N: 4, Victim: 1, Flush: true, Heights: 6, ValChange: true, Late: true, WithTxs: true})
	ps = append(ps, netsim.CrashPlan{Name: "cache-4v-victim1-valchange", N: 4, Victim: 1, Flush: false, Heights: 6, ValChange: true})
	ps = append(ps, netsim.CrashPlan{Name: "cache-4v-victim2-round2", N: 4, Victim: 2, Flush: false, Heights: 4, Round2: true})
	for v := 0; v < 4; v += 2 {
		ps = append(ps, netsim.CrashPlan{Name: fmt.Sprintf("flush-4v-victim%d-second-txs", v), N: 4, Victim: v, Flush: true, Heights: 4, Second: true, WithTxs: true})
	}
	return ps
}

var secondQs = []int{1, 2, 3, 4, 6, 8, 10, 13, 16, 20, 25, 30}

func Main() {
	r := core.Start("C05", "fault_enumeration")
	r.SetRule("crash point = prefix length p of the victim's ordered durable units (DB put/delete/batch, WAL fsync) in a deterministic golden run; every p from the first unit after consensus start to the end is visited; non-trivial = the node restarted from the images at p, caught up and the network went on; distinct by (plan, p)")
	r.Assume("a DB batch is atomic and a WAL fsync makes everything written before it durable (crashes inside a batch, reordering of unsynced file data and media corruption are out of scope); the other nodes keep running while the victim is down")
	exhaustive := true
	totalPoints := 0
	for _, plan := range plans(r.Quick()) {
		plan := plan
		if only := os.Getenv("VERIF_C05_PLAN"); only != "" && only != plan.Name { // debugging aid: one plan
			continue
		}
		n := 1
		if !r.IsChild() {
			total, start, err := netsim.GoldenLen(plan)
			if err != nil {
				r.Inconclusive("golden run of plan " + plan.Name + ": " + err.Error())
				exhaustive = false
				continue
			}
			n = total + 1
			totalPoints += total + 1 - start
			r.Extra("golden:"+plan.Name, map[string]int{"durable_units": total, "first_crash_point": start})
		}
		if plan.Second {
			// case = (first crash point, second crash point); the second one q durable units after the restart
			r.Cases("plan:"+plan.Name, n*len(secondQs), core.Opts{Procs: 16, StallSec: 600, HangIsViolation: true}, func(c *core.Case) {
				pl := plan
				pl.SecondQ = secondQs[c.I%len(secondQs)]
				netsim.CrashCase(c, pl, c.I/len(secondQs))
			})
			continue
		}
		r.Cases("plan:"+plan.Name, n, core.Opts{Procs: 16, StallSec: 600, HangIsViolation: true}, func(c *core.Case) { netsim.CrashCase(c, plan, c.I) })
	}
	if os.Getenv("VERIF_C05_PLAN") == "" {
		// the block store and application state of a long-running node with snapshots (c06's long chains with a recorded
		// replica): crash images after an early clean stop, inside multi-batch snapshot merges and at arbitrary units; the
		// node must start on each image and continue like the replicas that never crashed
		r.Assume("chain-crash: the crash-restarted node is given the consensus state the never-crashed replicas held at the head it comes up with (recovery of the consensus state itself is what the plan:* groups enumerate)")
		r.Cases("chain-crash", r.N(2, 8), core.Opts{Procs: r.N(2, 8), Workers: 1, StallSec: 900}, c06.ChainCrashCase)
		r.Floor("restarts_from_crash_images", 3)
	}
	r.Extra("crash_points_enumerated", totalPoints)
	r.Exhaustive(exhaustive)
	r.Finish()
}
