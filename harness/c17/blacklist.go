package c17

import (
	"bufio"
	"crypto/ecdsa"
	"crypto/elliptic"
	crand "crypto/rand"
	"crypto/tls"
	"crypto/x509"
	"crypto/x509/pkix"
	"encoding/pem"
	"fmt"
	"math/big"
	"math/rand"
	"net"
	"net/http"
	"os"
	"path/filepath"
	"strings"
	"sync"
	"sync/atomic"
	"time"

	"github.com/kardiachain/go-kardia/configs"
	"github.com/kardiachain/go-kardia/lib/common"
	"github.com/kardiachain/go-kardia/mainchain/tx_pool"
	"github.com/kardiachain/go-kardia/types"

	"verifharness/core"
)

// The node refreshes tx_pool.Blacklisted from block_operations (every 50th block) through
// tx_pool.UpdateBlacklist, an HTTPS GET of a fixed URL, while the pool serves submissions.
// To run the REAL UpdateBlacklist offline, this process is given a private CA
// (SSL_CERT_FILE) and an HTTPS proxy (HTTPS_PROXY) that both point at a listener of the
// harness which answers for the fixed host with a short address list. Nothing of this is
// on the judged path: the two racing accesses are UpdateBlacklist's map write and
// addTxs' map read.

var (
	blOnce sync.Once
	blErr  error
	blDir  string
)

const blHost = "raw.githubusercontent.com"

func blacklistEndpoint() error {
	blOnce.Do(func() {
		dir, err := os.MkdirTemp("", "c17bl")
		if err != nil {
			blErr = err
			return
		}
		blDir = dir
		caKey, _ := ecdsa.GenerateKey(elliptic.P256(), crand.Reader)
		caT := &x509.Certificate{SerialNumber: big.NewInt(1), Subject: pkix.Name{CommonName: "c17 harness CA"},
			NotBefore: time.Now().Add(-time.Hour), NotAfter: time.Now().Add(24 * time.Hour), IsCA: true,
			KeyUsage: x509.KeyUsageCertSign | x509.KeyUsageDigitalSignature, BasicConstraintsValid: true}
		caDER, err := x509.CreateCertificate(crand.Reader, caT, caT, &caKey.PublicKey, caKey)
		if err != nil {
			blErr = err
			return
		}
		caCert, _ := x509.ParseCertificate(caDER)
		leafKey, _ := ecdsa.GenerateKey(elliptic.P256(), crand.Reader)
		leafT := &x509.Certificate{SerialNumber: big.NewInt(2), Subject: pkix.Name{CommonName: blHost}, DNSNames: []string{blHost},
			NotBefore: time.Now().Add(-time.Hour), NotAfter: time.Now().Add(24 * time.Hour),
			KeyUsage: x509.KeyUsageDigitalSignature, ExtKeyUsage: []x509.ExtKeyUsage{x509.ExtKeyUsageServerAuth}}
		leafDER, err := x509.CreateCertificate(crand.Reader, leafT, caCert, &leafKey.PublicKey, caKey)
		if err != nil {
			blErr = err
			return
		}
		caFile := filepath.Join(dir, "ca.pem")
		if err := os.WriteFile(caFile, pem.EncodeToMemory(&pem.Block{Type: "CERTIFICATE", Bytes: caDER}), 0600); err != nil {
			blErr = err
			return
		}
		empty := filepath.Join(dir, "certs")
		os.Mkdir(empty, 0700)
		tcfg := &tls.Config{Certificates: []tls.Certificate{{Certificate: [][]byte{leafDER}, PrivateKey: leafKey}}}
		ln, err := net.Listen("tcp", "127.0.0.1:0")
		if err != nil {
			blErr = err
			return
		}
		body := "0x00000000000000000000000000000000000b1ac1\n0x00000000000000000000000000000000000b1ac2\n" + accounts[blackIdx].addr.Hex() + "\n"
		go func() {
			for {
				conn, err := ln.Accept()
				if err != nil {
					return
				}
				go func(conn net.Conn) {
					defer conn.Close()
					br := bufio.NewReader(conn)
					req, err := http.ReadRequest(br)
					if err != nil || req.Method != http.MethodConnect {
						return
					}
					fmt.Fprint(conn, "HTTP/1.1 200 Connection established\r\n\r\n")
					tc := tls.Server(conn, tcfg)
					defer tc.Close()
					if _, err := http.ReadRequest(bufio.NewReader(tc)); err != nil {
						return
					}
					fmt.Fprintf(tc, "HTTP/1.1 200 OK\r\nContent-Type: text/plain\r\nContent-Length: %d\r\nConnection: close\r\n\r\n%s", len(body), body)
				}(conn)
			}
		}()
		// must be in place before the process makes its first HTTP request / TLS verification
		os.Setenv("SSL_CERT_FILE", caFile)
		os.Setenv("SSL_CERT_DIR", empty)
		os.Setenv("HTTPS_PROXY", "http://"+ln.Addr().String())
		os.Setenv("https_proxy", "http://"+ln.Addr().String())
		os.Setenv("NO_PROXY", "")
		os.Setenv("no_proxy", "")
	})
	return blErr
}

func blacklistRefresh(c *core.Case) {
	concSetup()
	run := c.Run
	if err := blacklistEndpoint(); err != nil {
		run.Inconclusive("blacklist endpoint emulation: " + err.Error())
		return
	}
	cfg := tx_pool.DefaultTxPoolConfig
	cfg.Journal = ""
	st := map[common.Address]acct{}
	for _, a := range concAccts {
		st[a.addr] = acct{0, new(big.Int).Set(richBal)}
	}
	ch := newChain(1, defGasLimit, st, uint64(c.I)<<20)
	pool := tx_pool.NewTxPool(cfg, configs.TestChainConfig, ch)
	defer pool.Stop()
	seeds := []int64{c.R.Int63(), c.R.Int63(), c.R.Int63(), c.R.Int63()}
	var stop int32
	var wg sync.WaitGroup
	var submitted int64
	for g := range seeds {
		wg.Add(1)
		go func(g int) {
			defer wg.Done()
			r := rand.New(rand.NewSource(seeds[g]))
			a := concAccts[g]
			for n := uint64(0); atomic.LoadInt32(&stop) == 0 && n < 4000; n++ {
				t := buildTx(c.I*100000+g*10000+int(n), a, n, big.NewInt(100+int64(r.Intn(100))), 30000, big.NewInt(100), 0, 0, "plain")
				pool.AddRemotes([]*types.Transaction{t.tx})
				atomic.AddInt64(&submitted, 1)
			}
		}(g)
	}
	ok, lastErr := 0, error(nil)
	for i := 0; i < 25; i++ {
		if err := tx_pool.UpdateBlacklist(tx_pool.BlacklistRequestTimeout); err != nil {
			lastErr = err
		} else {
			ok++
		}
		time.Sleep(2 * time.Millisecond)
	}
	atomic.StoreInt32(&stop, 1)
	wg.Wait()
	run.Eval(1)
	run.Count("blacklist_refreshes_ok", ok)
	run.Count("blacklist_concurrent_submissions", int(atomic.LoadInt64(&submitted)))
	if ok > 0 && blDir != "" {
		os.RemoveAll(blDir) // roots and proxy settings are cached by now; the listener stays
	}
	if ok == 0 {
		run.Inconclusive("blacklist endpoint emulation: UpdateBlacklist never succeeded: " + fmt.Sprint(lastErr))
		return
	}
	if !strings.Contains(tx_pool.StringifyBlacklist(), "0x00000000000000000000000000000000000b1Ac1") && !strings.Contains(strings.ToLower(tx_pool.StringifyBlacklist()), "b1ac1") {
		run.Inconclusive("blacklist endpoint emulation: the served list did not arrive in tx_pool.Blacklisted")
	}
}
