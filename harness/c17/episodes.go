package c17

import (
	"math/rand"
)

// ---- directed episodes inside the random histories ----
//
// An episode is a short list of steps; every step builds its operation from the state of the
// session at the moment it runs (the random operations keep flowing in between), so an episode
// is a direction, not a script with fixed transactions.
//
//	role switch:  a sender that has only been remote so far gets transactions into the pool,
//	              makes its first local submission, and then a price event follows: the price
//	              threshold is raised above its transactions, and/or better-paying remote
//	              transactions flood the (full) pool
//	near full:    the pool is filled up to 0..3 slots below GlobalSlots+GlobalQueue, then a
//	              transaction of 2..4 slots arrives, cheaper or dearer than what is there

type stepFn func(r *rand.Rand, s *session) *opSpec

func (s *session) slotLimit() int { return int(s.lim.GlobalSlots + s.lim.GlobalQueue) }

// nonLocals lists the senders the pool does not treat as local right now, without `except`.
func nonLocals(s *session, except int) []int {
	var out []int
	for i := 0; i < nSenders; i++ {
		if i != except && !s.pre.locals[accounts[i].addr] {
			out = append(out, i)
		}
	}
	return out
}

// held: nonce -> transaction the pool holds for the account.
func held(s *session, acct int) map[uint64]*txrec {
	m := map[uint64]*txrec{}
	a := accounts[acct].addr
	for _, t := range s.pre.pending[a] {
		m[t.nonce] = t
	}
	for _, t := range s.pre.queued[a] {
		m[t.nonce] = t
	}
	return m
}

// freeNonces returns n nonces of the account the pool holds nothing for: the executable ones
// first (gapped = false) or all behind a gap (they stay queued).
func freeNonces(s *session, acct, n int, gapped bool, taken map[slotKey]bool) []uint64 {
	a := accounts[acct].addr
	h := held(s, acct)
	next := s.ch.Head().nonce(a)
	if gapped {
		for h[next] != nil || taken[slotKey{a, next}] {
			next++
		}
		next++ // the gap
	}
	var out []uint64
	for ; len(out) < n; next++ {
		if h[next] == nil && !taken[slotKey{a, next}] {
			out = append(out, next)
			if taken != nil {
				taken[slotKey{a, next}] = true
			}
		}
	}
	return out
}

// remotePrices: lowest and highest price among the non-exempt transactions in the pool.
func remotePrices(s *session) (lo, hi int64, any bool) {
	for h := range s.pre.where {
		t := s.byHash[h]
		if s.pre.exempt(t) || !t.price.IsInt64() {
			continue
		}
		p := t.price.Int64()
		if !any || p < lo {
			lo = p
		}
		if !any || p > hi {
			hi = p
		}
		any = true
	}
	return
}

func floorPrice(s *session) int64 {
	if s.gasPrice.IsInt64() {
		return s.gasPrice.Int64()
	}
	return 1
}

func remoteVia(r *rand.Rand) string {
	switch x := r.Intn(10); {
	case x < 7:
		return "sync"
	case x < 9:
		return "async"
	}
	return "remote1"
}

func roleSwitchEpisode(r *rand.Rand, s *session) []stepFn {
	cand := nonLocals(s, -1)
	if len(cand) == 0 {
		return nil
	}
	x := cand[r.Intn(len(cand))]
	pX := 10 * int64(10+r.Intn(16)) // 100..250: what the sender pays while it is remote
	var steps []stepFn
	// other remote senders first: they decide how large the price heap is when the sender
	// migrates, i.e. which share of it the migration leaves stale (above a quarter it is rebuilt)
	for f := r.Intn(4); f > 0; f-- {
		steps = append(steps, func(r *rand.Rand, s *session) *opSpec {
			others := nonLocals(s, x)
			if len(others) == 0 {
				return nil
			}
			y := others[r.Intn(len(others))]
			o := add("sync")
			p := 10 * int64(10+r.Intn(51))
			for _, n := range freeNonces(s, y, 1+r.Intn(3), r.Intn(3) == 0, nil) {
				o.Txs = append(o.Txs, tx(y, n, p+10*int64(r.Intn(3))))
			}
			return o
		})
	}
	// the sender's remote transactions
	steps = append(steps, func(r *rand.Rand, s *session) *opSpec {
		if p := floorPrice(s); pX < p {
			pX = p
		}
		o := add(remoteVia(r))
		m := 1 + r.Intn(3)
		if o.Via == "remote1" {
			m = 1
		}
		for _, n := range freeNonces(s, x, m, r.Intn(4) == 0, nil) {
			t := tx(x, n, pX+10*int64(r.Intn(3)))
			if r.Intn(12) == 0 {
				t = fat(x, n, t.Price, 2+r.Intn(2))
			}
			o.Txs = append(o.Txs, t)
		}
		return o
	})
	// its first local submission
	steps = append(steps, func(r *rand.Rand, s *session) *opSpec {
		a := accounts[x].addr
		var t txSpec
		switch y := r.Intn(10); {
		case y < 2 && len(s.pre.pending[a]) > 0: // replaces one of its pending transactions
			o := s.pre.pending[a][r.Intn(len(s.pre.pending[a]))]
			t = tx(x, o.nonce, o.price.Int64()*12/10+1)
		case y < 4 && len(s.pre.queued[a]) > 0: // replaces one of its queued transactions
			o := s.pre.queued[a][r.Intn(len(s.pre.queued[a]))]
			t = tx(x, o.nonce, o.price.Int64()*12/10+1)
		case y < 6: // behind a gap
			t = tx(x, freeNonces(s, x, 1, true, nil)[0], pX)
		default:
			t = tx(x, freeNonces(s, x, 1, false, nil)[0], pX)
		}
		if r.Intn(4) == 0 {
			t.Price = 1 + int64(r.Intn(60)) // a local sender may pay less than the threshold
		}
		o := add("local", t)
		if r.Intn(4) == 0 { // AddLocals with a second transaction
			o.Txs = append(o.Txs, tx(x, t.Nonce+1+uint64(r.Intn(2)), pX))
		}
		return o
	})
	raise := func(r *rand.Rand, s *session) *opSpec {
		p := floorPrice(s)
		if pX > p {
			p = pX
		}
		return price(p + []int64{1, 10, 20, 50, 100, 300}[r.Intn(6)])
	}
	flood := func(r *rand.Rand, s *session) *opSpec {
		others := nonLocals(s, x)
		if len(others) == 0 {
			return nil
		}
		free := s.slotLimit() - s.pre.slots
		if free < 0 {
			free = 0
		}
		n := free + 1 + r.Intn(3)
		if n > 9 {
			n = 9
		}
		base := floorPrice(s)
		if base < pX {
			base = pX
		}
		o := add([]string{"sync", "sync", "async"}[r.Intn(3)])
		taken := map[slotKey]bool{}
		for n > 0 {
			y := others[r.Intn(len(others))]
			p := base + 10*int64(1+r.Intn(30))
			nn := freeNonces(s, y, 1, r.Intn(2) == 0, taken)[0]
			if r.Intn(6) == 0 {
				k := 2 + r.Intn(3)
				o.Txs = append(o.Txs, fat(y, nn, p, k))
				n -= k
			} else {
				o.Txs = append(o.Txs, tx(y, nn, p))
				n--
			}
		}
		return o
	}
	switch r.Intn(4) {
	case 0:
		steps = append(steps, raise)
	case 1:
		steps = append(steps, flood)
	case 2:
		steps = append(steps, flood, raise)
	default:
		steps = append(steps, raise, flood, flood)
	}
	if r.Intn(2) == 0 {
		steps = append(steps, func(r *rand.Rand, s *session) *opSpec { return price([]int64{1, 100}[r.Intn(2)]) })
	}
	return steps
}

func nearFullEpisode(r *rand.Rand, s *session) []stepFn {
	gap := r.Intn(4) // slots to leave free before the large transaction arrives
	fill := func(r *rand.Rand, s *session) *opSpec {
		want := s.slotLimit() - s.pre.slots - gap
		if want <= 0 {
			return nil
		}
		cand := nonLocals(s, -1)
		if len(cand) == 0 || r.Intn(8) == 0 {
			cand = []int{0, 1, 2, 3}
		}
		y := cand[r.Intn(len(cand))]
		np, _ := s.pre.count()
		gapped := uint64(np) >= s.lim.GlobalSlots || r.Intn(4) == 0
		o := add("sync")
		p := 10 * int64(10+r.Intn(51))
		if f := floorPrice(s); p < f {
			p = f
		}
		nonces := freeNonces(s, y, 3, gapped, nil)
		for i := 0; want > 0 && i < 3; i++ {
			nn := nonces[i]
			if k := 2 + r.Intn(3); r.Intn(4) == 0 && k <= want {
				o.Txs = append(o.Txs, fat(y, nn, p, k))
				want -= k
			} else {
				o.Txs = append(o.Txs, tx(y, nn, p+10*int64(r.Intn(2))))
				want--
			}
		}
		return o
	}
	arrive := func(r *rand.Rand, s *session) *opSpec {
		lo, hi, any := remotePrices(s)
		if !any {
			lo, hi = 200, 300
		}
		p := []int64{lo - 10, lo, lo + 1, (lo + hi) / 2, hi + 50, 1000, 1 + int64(r.Intn(80))}[r.Intn(7)]
		if p < 1 {
			p = 1
		}
		w := r.Intn(nSenders)
		via := "sync"
		switch x := r.Intn(20); {
		case x < 3:
			via = "local"
		case x < 5:
			via = "async"
		case x < 6:
			via = "remote1"
		}
		var nn uint64
		h := held(s, w)
		switch x := r.Intn(10); {
		case x < 2 && len(h) > 0: // in the place of one of its own transactions (the lowest nonce)
			first := true
			for n := range h {
				if first || n < nn {
					nn, first = n, false
				}
			}
		case x < 4:
			nn = freeNonces(s, w, 1, true, nil)[0]
		default:
			nn = freeNonces(s, w, 1, false, nil)[0]
		}
		return add(via, fat(w, nn, p, 2+r.Intn(3)))
	}
	steps := []stepFn{fill, fill, fill, fill, arrive}
	if r.Intn(2) == 0 {
		steps = append(steps, arrive)
	}
	return steps
}
