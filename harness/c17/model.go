package c17

import (
	"crypto/ecdsa"
	"fmt"
	"math/big"

	"github.com/kardiachain/go-kardia/lib/common"
	"github.com/kardiachain/go-kardia/lib/crypto"
	"github.com/kardiachain/go-kardia/types"
)

// ---- rule model: written from the property text and the protocol parameters,
// never calling pool code. Everything here works on the values the harness chose
// when it built a transaction (txrec), not on what the pool says about it. ----

const (
	// protocol parameters (specification values)
	baseGasLegacy   = 29000 // plain transfer before the Galaxias fork
	baseGasGalaxias = 21000 // plain transfer from the Galaxias fork on
	gasPerZeroByte  = 4
	gasPerNonZero   = 68
	maxTxBytes      = 128 * 1024 // largest encoded transaction the pool accepts
	slotBytes       = 32 * 1024  // one pool slot
	galaxiasHeight  = 6039393    // configs.TestChainConfig.GalaxiasBlock
	poolChainID     = 242        // configs.TestChainConfig.ChainID
	foreignChainID  = 999
)

type limits struct {
	AccountSlots, GlobalSlots, AccountQueue, GlobalQueue uint64
	PriceBump                                            uint64
}

var tight = limits{AccountSlots: 2, GlobalSlots: 6, AccountQueue: 3, GlobalQueue: 6, PriceBump: 10}

type account struct {
	idx  int
	key  *ecdsa.PrivateKey
	addr common.Address
}

func makeAccount(i int) *account {
	k, err := crypto.ToECDSA(common.Hex2Bytes(fmt.Sprintf("%064x", 0xC17000+i)))
	if err != nil {
		panic(err)
	}
	return &account{idx: i, key: k, addr: crypto.PubkeyToAddress(k.PublicKey)}
}

// txrec is what the harness knows about a transaction it built.
type txrec struct {
	id      int
	tx      *types.Transaction
	hash    common.Hash
	from    *account
	nonce   uint64
	price   *big.Int
	gas     uint64
	value   *big.Int
	dataLen int
	nzBytes int    // non-zero payload bytes
	encSize int    // RLP size of the signed transaction
	chain   string // "plain" (unprotected), "own" (EIP-155, pool's chain id), "foreign"
	black   bool   // sender is on the blacklist
}

func (t *txrec) cost() *big.Int {
	c := new(big.Int).Mul(t.price, new(big.Int).SetUint64(t.gas))
	return c.Add(c, t.value)
}

func (t *txrec) slots() int { return (t.encSize + slotBytes - 1) / slotBytes }

func (t *txrec) String() string {
	s := fmt.Sprintf("#%d a%d n=%d p=%v g=%d", t.id, t.from.idx, t.nonce, t.price, t.gas)
	if t.value.Cmp(big.NewInt(100)) != 0 {
		s += fmt.Sprintf(" v=%v", t.value)
	}
	if t.dataLen > 0 {
		s += fmt.Sprintf(" data=%d", t.dataLen)
	}
	if t.chain != "plain" {
		s += " chain=" + t.chain
	}
	return s
}

// buildTx signs a transaction with the given fields. data is dataLen bytes of which
// the first nz are non-zero.
func buildTx(id int, from *account, nonce uint64, price *big.Int, gas uint64, value *big.Int, dataLen, nz int, chain string) *txrec {
	var data []byte
	if dataLen > 0 {
		data = make([]byte, dataLen)
		for i := 0; i < nz && i < dataLen; i++ {
			data[i] = byte(1 + (i+id)%255)
		}
	}
	var signer types.Signer = types.HomesteadSigner{}
	switch chain {
	case "own":
		signer = types.NewChainIDSigner(big.NewInt(poolChainID))
	case "foreign":
		signer = types.NewChainIDSigner(big.NewInt(foreignChainID))
	}
	// the id is folded into the recipient so that otherwise equal transactions differ
	to := common.BytesToAddress([]byte{0xee, byte(id >> 16), byte(id >> 8), byte(id)})
	// types.SignTx always signs the unprotected hash, whatever signer it is given; an
	// EIP-155 transaction has to be signed over signer.Hash by hand.
	unsigned := types.NewTransaction(nonce, to, new(big.Int).Set(value), gas, new(big.Int).Set(price), data)
	h := signer.Hash(unsigned)
	sig, err := crypto.Sign(h[:], from.key)
	if err != nil {
		panic(err)
	}
	tx, err := unsigned.WithSignature(signer, sig)
	if err != nil {
		panic(err)
	}
	r := &txrec{id: id, tx: tx, from: from, nonce: nonce, price: new(big.Int).Set(price), gas: gas, value: new(big.Int).Set(value),
		dataLen: dataLen, nzBytes: nz, chain: chain}
	if nz > dataLen {
		r.nzBytes = dataLen
	}
	if value.Sign() >= 0 {
		r.hash = tx.Hash()
		r.encSize = int(tx.Size())
	}
	return r
}

func intrinsicGas(t *txrec, nextHeight uint64) uint64 {
	g := uint64(baseGasLegacy)
	if nextHeight >= galaxiasHeight {
		g = baseGasGalaxias
	}
	return g + uint64(t.nzBytes)*gasPerNonZero + uint64(t.dataLen-t.nzBytes)*gasPerZeroByte
}

// rejection classes decided from the transaction and the chain state alone.
const (
	rjKnown     = "known"
	rjSender    = "invalid-sender"
	rjBlack     = "blacklisted"
	rjOversized = "oversized"
	rjNegative  = "negative-value"
	rjGasLimit  = "gas-limit"
	rjPrice     = "under-price-limit"
	rjNonce     = "nonce-too-low"
	rjFunds     = "insufficient-funds"
	rjIntrinsic = "intrinsic-gas"
)

// errClass maps the pool's error text to a class (the texts are the public contract
// of errors.go; comparing text keeps the model free of pool identifiers).
func errClass(err error) string {
	if err == nil {
		return ""
	}
	switch err.Error() {
	case "already known":
		return rjKnown
	case "invalid sender":
		return rjSender
	case "blacklisted sender":
		return rjBlack
	case "oversized data":
		return rjOversized
	case "negative value":
		return rjNegative
	case "exceeds block gas limit":
		return rjGasLimit
	case "transaction underpriced":
		return rjPrice // also the full-pool "underpriced"; told apart by the caller
	case "nonce too low":
		return rjNonce
	case "insufficient funds for gas * price + value":
		return rjFunds
	case "intrinsic gas too low":
		return rjIntrinsic
	case "replacement transaction underpriced":
		return "replace-underpriced"
	case "txpool is full":
		return "pool-full"
	}
	return "other:" + err.Error()
}

// clearCutRejections lists every state/transaction-only reason for which t must be
// refused. isLocal: the submission enjoys the local exemption. Empty = individually valid.
func clearCutRejections(t *txrec, head *blk, gasPrice *big.Int, isLocal, known bool) []string {
	var r []string
	if known {
		return []string{rjKnown} // decided before anything else is looked at
	}
	if t.chain == "foreign" {
		r = append(r, rjSender)
	}
	if t.black {
		r = append(r, rjBlack)
	}
	if t.value.Sign() < 0 {
		r = append(r, rjNegative)
	} else if t.encSize > maxTxBytes {
		r = append(r, rjOversized)
	}
	if t.gas > head.gasLimit {
		r = append(r, rjGasLimit)
	}
	if t.chain == "foreign" {
		return r // no sender: nothing about the account can be decided
	}
	if !isLocal && t.price.Cmp(gasPrice) < 0 {
		r = append(r, rjPrice)
	}
	if t.nonce < head.nonce(t.from.addr) {
		r = append(r, rjNonce)
	}
	if t.cost().Cmp(head.bal(t.from.addr)) > 0 {
		r = append(r, rjFunds)
	}
	if t.gas < intrinsicGas(t, head.height+1) {
		r = append(r, rjIntrinsic)
	}
	return r
}

// bump verdict for a replacement of old by neu.
//
//	+1 : the required bump is met (must replace)
//	-1 : clearly below (must be refused)
//	 0 : inside the rounding zone of the integer percentage (either outcome accepted)
func bumpVerdict(old, neu *big.Int, bump uint64) int {
	if neu.Cmp(old) <= 0 {
		return -1
	}
	lhs := new(big.Int).Mul(neu, big.NewInt(100))
	rhs := new(big.Int).Mul(old, big.NewInt(100+int64(bump)))
	if lhs.Cmp(rhs) >= 0 {
		return 1
	}
	floor := new(big.Int).Div(rhs, big.NewInt(100))
	if neu.Cmp(floor) >= 0 {
		return 0
	}
	return -1
}

// ---- observation of a pool and the invariants over it ----

type place struct {
	list byte // 'p' or 'q'
	pos  int
}

// view is one atomic observation (taken by the caller from the pool's snapshot hook),
// expressed in txrecs.
type view struct {
	pending map[common.Address][]*txrec
	queued  map[common.Address][]*txrec
	where   map[common.Hash]place
	locals  map[common.Address]bool
	localTx map[common.Hash]bool // flagged local in the index
	slots   int
}

func (v *view) has(h common.Hash) bool { _, ok := v.where[h]; return ok }

func (v *view) count() (p, q int) {
	for _, l := range v.pending {
		p += len(l)
	}
	for _, l := range v.queued {
		q += len(l)
	}
	return
}

func (v *view) fingerprint() string {
	p, q := v.count()
	np, nq := 0, 0
	for range v.pending {
		np++
	}
	for range v.queued {
		nq++
	}
	return fmt.Sprintf("p%d/%d q%d/%d l%d", p, np, q, nq, len(v.locals))
}

type finding struct{ key, what string }

// structural invariants: must hold after every call.
func checkStructural(v *view, head *blk) *finding {
	for a, l := range v.pending {
		want := head.nonce(a)
		bal := head.bal(a)
		for i, t := range l {
			if t.nonce != want+uint64(i) {
				switch {
				case i == 0 && t.nonce < want:
					return &finding{"mined-tx-still-pending", fmt.Sprintf("pending of %x starts at nonce %d below the state nonce %d (%v)", a[:3], t.nonce, want, t)}
				case i == 0:
					return &finding{"pending-not-from-state-nonce", fmt.Sprintf("pending of %x starts at nonce %d, state nonce is %d (%v)", a[:3], t.nonce, want, t)}
				}
				return &finding{"pending-gap", fmt.Sprintf("pending of %x is not gap-free: position %d has nonce %d, expected %d", a[:3], i, t.nonce, want+uint64(i))}
			}
			if t.cost().Cmp(bal) > 0 {
				return &finding{"pending-unaffordable", fmt.Sprintf("pending %v costs %v, balance of %x is %v", t, t.cost(), a[:3], bal)}
			}
			if t.gas > head.gasLimit {
				return &finding{"pending-over-gas-limit", fmt.Sprintf("pending %v needs gas %d, block gas limit %d", t, t.gas, head.gasLimit)}
			}
		}
	}
	// one transaction per (sender, nonce) over both lists
	for a, l := range v.queued {
		seen := map[uint64]*txrec{}
		for _, t := range v.pending[a] {
			seen[t.nonce] = t
		}
		for _, t := range l {
			if o := seen[t.nonce]; o != nil {
				return &finding{"replaced-tx-still-present", fmt.Sprintf("%v and %v occupy the same sender/nonce", o, t)}
			}
			seen[t.nonce] = t
		}
	}
	return nil
}

// limit invariants: evaluated at the reorg fixpoint only (see DESIGN calibration).
func checkLimits(v *view, head *blk, lim limits) *finding {
	nonLocalQueued := 0
	for a, l := range v.queued {
		for _, t := range l {
			if t.nonce < head.nonce(a) {
				return &finding{"stale-queued-at-fixpoint", fmt.Sprintf("queued %v has a nonce below the state nonce %d", t, head.nonce(a))}
			}
		}
		if v.locals[a] {
			continue
		}
		nonLocalQueued += len(l)
		if uint64(len(l)) > lim.AccountQueue {
			return &finding{"account-queue-limit", fmt.Sprintf("non-local %x has %d queued > AccountQueue %d", a[:3], len(l), lim.AccountQueue)}
		}
	}
	if uint64(nonLocalQueued) > lim.GlobalQueue {
		return &finding{"global-queue-limit", fmt.Sprintf("%d non-local queued > GlobalQueue %d", nonLocalQueued, lim.GlobalQueue)}
	}
	total, over := 0, false
	for a, l := range v.pending {
		total += len(l)
		if !v.locals[a] && uint64(len(l)) > lim.AccountSlots {
			over = true
		}
	}
	if uint64(total) > lim.GlobalSlots && over {
		return &finding{"global-slots-limit", fmt.Sprintf("%d pending > GlobalSlots %d while a non-local account holds more than AccountSlots %d", total, lim.GlobalSlots, lim.AccountSlots)}
	}
	return nil
}

// exempt: the transaction does not take part in price eviction. That is every transaction of
// a local sender; the pool additionally flags the transaction itself when a local submission
// replaced a pending transaction without the sender being recorded as local (DESIGN
// calibration: an account becomes local only through the enqueue path).
func (v *view) exempt(t *txrec) bool { return v.locals[t.from.addr] || v.localTx[t.hash] }

// slot invariant: must hold after every call. The pool admits a transaction only after it has
// made room for all of its slots (one slot per started 32 KB), so the slots of everything it
// holds never exceed GlobalSlots+GlobalQueue. The one exception the rules make: a local
// submission is admitted by force after EVERY non-exempt transaction has been discarded, so a
// pool above the limit holds exempt transactions only.
func checkSlots(v *view, lim limits) *finding {
	limit := int(lim.GlobalSlots + lim.GlobalQueue)
	if v.slots <= limit {
		return nil
	}
	for _, m := range []map[common.Address][]*txrec{v.pending, v.queued} {
		for _, l := range m {
			for _, t := range l {
				if !v.exempt(t) {
					return &finding{"slot-limit-exceeded", fmt.Sprintf("the pool holds %d slots, limit GlobalSlots+GlobalQueue = %d, and not only transactions of local senders: %v (%d slots) is not exempt", v.slots, limit, t, t.slots())}
				}
			}
		}
	}
	return nil
}

// fullVerdict is the model's admission decision for an individually valid transaction that
// arrives when the pool has no room for its slots.
//
//	must = "under-price-limit": it pays no more than the cheapest non-exempt transaction: refused as underpriced
//	must = "pool-full":         discarding every non-exempt transaction would not free the slots it needs
//	must = "":                  room is made (cheapest non-exempt first); it is then judged like any other
//	                            submission (fresh nonce slot: accepted; occupied: price-bump rule)
type fullVerdict struct {
	must        string
	remotes     int      // non-exempt transactions in the pool
	remoteSlots int      // their slots
	cheapest    *big.Int // their lowest price (nil when there is none)
}

// fullPoolVerdict: content is everything the pool holds at that instant, need the number of
// slots that have to be freed. A local submission is never refused for its price and is
// admitted by force.
func fullPoolVerdict(t *txrec, isLocal bool, content map[slotKey]*txrec, exempt func(*txrec) bool, need int) fullVerdict {
	var fv fullVerdict
	for _, o := range content {
		if exempt(o) {
			continue
		}
		fv.remotes++
		fv.remoteSlots += o.slots()
		if fv.cheapest == nil || o.price.Cmp(fv.cheapest) < 0 {
			fv.cheapest = o.price
		}
	}
	switch {
	case isLocal:
	case fv.remotes > 0 && t.price.Cmp(fv.cheapest) <= 0:
		fv.must = rjPrice
	case fv.remoteSlots < need:
		fv.must = "pool-full"
	}
	return fv
}

// universe of one operation: everything that could be in the pool at some instant of it.
type universe struct {
	perAcct map[common.Address]int
	slots   int
	cands   map[common.Address]map[uint64][]*txrec // possible replacers (new in this operation)
}

func newUniverse(pre *view, fresh []*txrec) *universe {
	u := &universe{perAcct: map[common.Address]int{}, cands: map[common.Address]map[uint64][]*txrec{}}
	add := func(t *txrec) {
		u.perAcct[t.from.addr]++
		u.slots += t.slots()
	}
	for _, l := range pre.pending {
		for _, t := range l {
			add(t)
		}
	}
	for _, l := range pre.queued {
		for _, t := range l {
			add(t)
		}
	}
	seen := map[common.Hash]bool{}
	for _, t := range fresh {
		if pre.has(t.hash) || seen[t.hash] {
			continue
		}
		seen[t.hash] = true
		add(t)
		m := u.cands[t.from.addr]
		if m == nil {
			m = map[uint64][]*txrec{}
			u.cands[t.from.addr] = m
		}
		m[t.nonce] = append(m[t.nonce], t)
	}
	return u
}

// explainGone says by which rule transaction t (of the universe, absent afterwards) may
// have left. "" = no rule allows it.
//
//	local:      sender was in pool.Locals() before the operation
//	maxPrice:   highest price threshold in force during the operation
//	expiry:     the lifetime rule may have fired (queued, non-local)
func explainGone(t *txrec, head *blk, u *universe, lim limits, local bool, maxPrice *big.Int, expiry bool) string {
	a := t.from.addr
	if t.nonce < head.nonce(a) {
		return "mined"
	}
	if t.cost().Cmp(head.bal(a)) > 0 || t.gas > head.gasLimit {
		return "unpayable"
	}
	for _, o := range u.cands[a][t.nonce] {
		if o != t && bumpVerdict(t.price, o.price, lim.PriceBump) >= 0 {
			return "replaced"
		}
	}
	if local {
		return ""
	}
	if maxPrice != nil && t.price.Cmp(maxPrice) < 0 {
		return "price"
	}
	minAcct, minGlobal := lim.AccountSlots, lim.GlobalSlots
	if lim.AccountQueue < minAcct {
		minAcct = lim.AccountQueue
	}
	if lim.GlobalQueue < minGlobal {
		minGlobal = lim.GlobalQueue
	}
	if uint64(u.perAcct[a]) > minAcct || uint64(u.slots) > minGlobal {
		return "capacity"
	}
	if expiry {
		return "expired"
	}
	return ""
}
