package c17

import (
	"fmt"
	"math/big"
	"sync"
	"time"

	"github.com/kardiachain/go-kardia/kai/events"
	"github.com/kardiachain/go-kardia/kai/kaidb/memorydb"
	"github.com/kardiachain/go-kardia/kai/state"
	"github.com/kardiachain/go-kardia/lib/common"
	"github.com/kardiachain/go-kardia/lib/event"
	"github.com/kardiachain/go-kardia/trie"
	"github.com/kardiachain/go-kardia/types"
)

// acct is the harness' own picture of one account at one block.
type acct struct {
	nonce uint64
	bal   *big.Int
}

// blk is one block of the fake chain together with the account state after it.
type blk struct {
	b        *types.Block
	parent   *blk
	height   uint64
	gasLimit uint64
	st       map[common.Address]acct
	txs      []*txrec
}

func (b *blk) nonce(a common.Address) uint64 { return b.st[a].nonce }
func (b *blk) bal(a common.Address) *big.Int {
	if v, ok := b.st[a]; ok && v.bal != nil {
		return v.bal
	}
	return new(big.Int)
}

// chain implements tx_pool's blockChain interface. The harness owns head and
// state; the pool only reads. All blocks ever created stay retrievable by hash, so
// the pool's reorg walk (reset: GetBlock down to the common ancestor) always finds
// a rooted chain.
type chain struct {
	mu      sync.Mutex
	byHash  map[common.Hash]*blk
	head    *blk
	feed    event.Feed
	salt    uint64
	cbCalls int // CurrentBlock calls (NewTxPool makes one, the pool's loop goroutine one at start)

	awaiting bool          // a ChainHeadEvent was sent and its reset has not yet asked for the state
	sig      chan struct{} // receives one token per awaited StateAt call
}

func newChain(genesisHeight, gasLimit uint64, st map[common.Address]acct, salt uint64) *chain {
	c := &chain{byHash: map[common.Hash]*blk{}, sig: make(chan struct{}, 16), salt: salt}
	g := c.makeBlock(nil, genesisHeight, gasLimit, st, nil)
	c.head = g
	return c
}

// makeBlock creates (and stores) a block on top of parent; it does not move the head.
func (c *chain) makeBlock(parent *blk, height, gasLimit uint64, st map[common.Address]acct, txs []*txrec) *blk {
	h := &types.Header{Height: height, GasLimit: gasLimit}
	c.mu.Lock()
	c.salt++
	// the salt makes sibling blocks with the same content distinct
	h.AppHash = common.BytesToHash(new(big.Int).SetUint64(c.salt).Bytes())
	c.mu.Unlock()
	if parent != nil {
		h.LastBlockID = types.BlockID{Hash: parent.b.Hash()}
	}
	var raw []*types.Transaction
	for _, t := range txs {
		raw = append(raw, t.tx)
	}
	b := &blk{b: types.NewBlock(h, raw, nil, nil, trie.NewStackTrie(nil)), parent: parent, height: height, gasLimit: gasLimit, st: st, txs: txs}
	c.mu.Lock()
	c.byHash[b.b.Hash()] = b
	c.mu.Unlock()
	return b
}

func (c *chain) setHead(b *blk) {
	c.mu.Lock()
	c.head = b
	c.mu.Unlock()
}

func (c *chain) Head() *blk {
	c.mu.Lock()
	defer c.mu.Unlock()
	return c.head
}

func (c *chain) CurrentBlock() *types.Block {
	c.mu.Lock()
	defer c.mu.Unlock()
	c.cbCalls++
	return c.head.b
}

func (c *chain) currentBlockCalls() int {
	c.mu.Lock()
	defer c.mu.Unlock()
	return c.cbCalls
}

func (c *chain) GetBlock(hash common.Hash, number uint64) *types.Block {
	c.mu.Lock()
	defer c.mu.Unlock()
	if b := c.byHash[hash]; b != nil {
		return b.b
	}
	return nil
}

func (c *chain) StateAt(height uint64) (*state.StateDB, error) {
	c.mu.Lock()
	b := c.head
	for b != nil && b.height > height {
		b = b.parent
	}
	signal := c.awaiting
	c.awaiting = false
	c.mu.Unlock()
	if b == nil || b.height != height {
		return nil, fmt.Errorf("no block at height %d", height)
	}
	// a fresh, private StateDB per call: the pool keeps and copies it under its own lock
	sdb, err := state.New(common.Hash{}, state.NewDatabase(memorydb.New()), nil)
	if err != nil {
		return nil, err
	}
	for a, v := range b.st {
		sdb.SetNonce(a, v.nonce)
		sdb.SetBalance(a, new(big.Int).Set(v.bal))
	}
	if signal {
		c.sig <- struct{}{}
	}
	return sdb, nil
}

func (c *chain) SubscribeChainHeadEvent(ch chan<- events.ChainHeadEvent) event.Subscription {
	return c.feed.Subscribe(ch)
}

// announce moves the head to b, publishes a real ChainHeadEvent and waits until the
// pool's reset for it has fetched the state (the reset itself then completes under the
// pool lock; a following VerifWaitReorg is ordered after it). false = watchdog fired.
func (c *chain) announce(b *blk) bool {
	c.mu.Lock()
	c.head = b
	c.awaiting = true
	c.mu.Unlock()
	c.feed.Send(events.ChainHeadEvent{Block: b.b})
	select {
	case <-c.sig:
		return true
	case <-time.After(60 * time.Second):
		return false
	}
}

func copyState(st map[common.Address]acct) map[common.Address]acct {
	n := make(map[common.Address]acct, len(st))
	for a, v := range st {
		n[a] = acct{v.nonce, new(big.Int).Set(v.bal)}
	}
	return n
}

// branchTxs returns the transactions of the blocks that are on the branch ending in
// from but not on the branch ending in to (what a reorg from -> to may reinject).
func branchTxs(from, to *blk) []*txrec {
	onTo := map[*blk]bool{}
	for b := to; b != nil; b = b.parent {
		onTo[b] = true
	}
	var out []*txrec
	for b := from; b != nil && !onTo[b]; b = b.parent {
		out = append(out, b.txs...)
	}
	return out
}
