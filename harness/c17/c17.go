// Package c17 decides C17: the transaction pool only offers executable
// transactions and respects its limits. The real tx_pool.TxPool is driven over a
// fake chain by generated sequential and concurrent histories; after every
// operation (structural invariants) and at the reorg fixpoint (limit invariants)
// the pool is compared with an independent rule model.
package c17

import (
	"fmt"
	"os"
	"path/filepath"
	"strings"

	"verifharness/core"
)

func init() { core.Register("C17", Main) }

// raceLogOnly: reports excluded by exact key because the racing read cannot influence
// what the pool holds or offers (DESIGN 3.5). txPricedList.Reheap stores l.stales with a
// plain write under the pool lock while the pool's loop goroutine (inlined into
// NewTxPool's go statement) loads it atomically without the lock; the loaded value only
// feeds the "Transaction pool status report" debug line.
var raceLogOnly = map[string]bool{
	"mainchain/tx_pool.(*txPricedList).Reheap|mainchain/tx_pool.NewTxPool.gowrap2": true,
}

func Main() {
	r := core.Start("C17", "exploration")
	processSetup()
	r.SetRule("sequential history = 50..400 operations (AddLocal(s)/AddRemotes/AddRemotesSync/AddRemote of valid, replacing, duplicate, underpriced, gapped, oversized, multi-slot (payloads up to 128 KB: 1..4 slots, also right at the slot boundaries), unaffordable, wrong-chain, negative, blacklisted transactions; ChainHeadEvents and silent head changes with mined blocks, forks, nonce/balance/gas-limit moves; SetGasPrice; journal reload; lifetime expiry) over 4 senders, limits 2/6/3/6 in three histories of four and 2/4/2/4, 4/10/4/8 or 1/4/3/3 otherwise, locals disabled in one history of nine; about 3 % of the operations start a directed episode whose steps are built from the pool's state when they run: 'role switch' (0..3 submissions of other remote senders, 1..3 remote transactions of a sender that has never been local, its first AddLocal(s) - next nonce, gapped, or replacing one of its pending/queued transactions -, then a SetGasPrice raise above its prices and/or floods of better-paying remote transactions into the full pool) and 'near full' (fill the pool up to 0..3 slots below GlobalSlots+GlobalQueue, then a transaction of 2..4 slots, cheaper than, as cheap as or dearer than what is there, through any entry point); judged after every operation; non-trivial = at least one ChainHeadEvent was processed and at least 10 distinct transactions were accepted; concurrent history = 8 submitters + head producer + price changer, non-trivial = at least 20 accepted transactions and one processed head event; distinct by case index")
	r.Extra("race_keys_excluded_by_rule", map[string]string{
		"mainchain/tx_pool.(*txPricedList).Reheap|mainchain/tx_pool.NewTxPool.gowrap2": "plain store of priced.stales under the pool lock vs atomic load in the loop's stats report; the value only feeds a debug log line"})
	r.Assume("per-account and per-list limit invariants are evaluated at the reorg fixpoint (two idle reorg runs), structural invariants and the slot limit after every call; local = member of pool.Locals()")
	r.Assume("slot limit: the slots of all pooled transactions (one per started 32 KB of the encoded transaction) never exceed GlobalSlots+GlobalQueue, except that a pool above the limit may hold exempt transactions only (a local submission is admitted by force after every non-exempt transaction has been discarded); exempt = sender in pool.Locals(), or the transaction itself flagged local in the pool's index (a local submission that replaced a pending transaction does not record its sender as local)")
	r.Assume("admission into a pool without room is judged strictly for the first such submission since the last reorg run, outside expiry histories: local = never refused for its price nor as pool-full; remote paying no more than the cheapest non-exempt transaction = refused as underpriced; remote needing more slots than all non-exempt transactions hold = refused as pool-full; otherwise room is made and the submission is judged like one into a pool with room (the occupant of its nonce slot may have been discarded). Later submissions of the same call only have to be explainable (which of several equally cheap transactions were discarded is out of the model's reach)")
	r.Assume("the sequential observer is the read-only hook VerifView; the re-heaping hook VerifSnapshot is used in one history of six and once at the end of every history, so that stale entries of the price heap live as long as they do in production")
	// development aid only: C17_GROUPS=corpus,history restricts the groups that run
	// (floors of skipped groups then make the run inconclusive, as they should)
	want := func(g string) bool {
		f := os.Getenv("C17_GROUPS")
		return f == "" || strings.Contains(","+f+",", ","+g+",")
	}
	if want("corpus") {
		r.Cases("corpus", len(scenarios()), core.Opts{Workers: 8}, guarded(180, corpus))
	}
	if want("history") {
		r.Cases("history", r.N(300, 10000), core.Opts{Workers: 16}, guarded(180, history))
	}

	// concurrent histories under the race detector, in child processes
	var env []string
	scratch := ""
	if !r.IsChild() {
		var err error
		if scratch, err = os.MkdirTemp("", "c17race"); err != nil {
			r.Inconclusive("mkdtemp: " + err.Error())
		} else {
			env = []string{"GORACE=halt_on_error=0 exitcode=0 log_path=" + filepath.Join(scratch, "race")}
		}
	}
	withRaces := func(fn func(c *core.Case)) func(c *core.Case) {
		return func(c *core.Case) {
			fn(c)
			for _, rr := range newRaceReports() {
				r.Count("race_reports", 1)
				switch {
				case raceLogOnly[rr.key]:
					r.Count("race_reports_excluded_log_only", 1)
					r.Distinct("race_keys_excluded", rr.key)
				case rr.inKardia:
					r.Distinct("race_keys", rr.key)
					c.Violation("race:"+rr.key, "DATA RACE reported with an access in go-kardia code (tx_pool non-test code: "+fmt.Sprint(rr.inPool)+")", map[string]interface{}{"report": rr.text})
				default:
					r.Inconclusive("race entirely inside harness code: " + rr.key)
				}
			}
		}
	}
	if want("concurrent") {
		r.Cases("concurrent", r.N(8, 200), core.Opts{Race: true, Procs: r.N(4, 8), StallSec: 400, Env: env}, withRaces(concurrent))
	}
	if want("blacklist-refresh") {
		r.Cases("blacklist-refresh", r.N(2, 6), core.Opts{Race: true, Procs: 2, StallSec: 400, Env: env}, withRaces(blacklistRefresh))
	}
	if scratch != "" {
		os.RemoveAll(scratch) // Finish exits the process: no defer
	}
	// floors: low enough to hold at every seed, high enough to trip when a mechanism is no longer reached
	r.Floor("corpus_scenarios", int64(len(scenarios())))
	r.Floor("histories", 250)
	r.Floor("op:head:event", 1000)
	r.Floor("op:head:event:reorg", 200)
	r.Floor("reinjected_txs", 50)
	r.Floor("blocks_with_mined_txs", 300)
	r.Floor("replacements_accepted", 500)
	r.Floor("replacements_refused", 500)
	r.Floor("gone:capacity", 500)
	r.Floor("gone:unpayable", 500)
	r.Floor("gone_local:unpayable", 100)
	r.Floor("capacity_dependent_submissions", 500)
	r.Floor("reload_restored_txs", 500)
	r.Floor("expired_txs", 15)
	r.Floor("rejected:known", 50)
	r.Floor("rejected:invalid-sender", 100)
	r.Floor("rejected:oversized", 50)
	// senders that change role, price events after the change
	r.Floor("role_switches", 250)
	r.Floor("role_switches_with_remote_txs_in_pool", 100)
	r.Floor("migrated_txs", 200)
	r.Floor("price_raises_over_migrated_txs", 50)
	r.Floor("price_raises_migrated_txs_spared", 80)
	r.Floor("full_pool_arrivals_with_migrated_txs_in_pool", 400)
	r.Floor("full_pool_arrivals_migrated_tx_is_cheapest", 200)
	r.Floor("histories_locals_disabled", 10)
	r.Floor("op:add:local:locals_disabled", 100)
	// multi-slot transactions, pools at and next to their slot limit
	r.Floor("multislot_valid_submissions", 1000)
	r.Floor("multislot_accepted", 500)
	r.Floor("multislot_arrivals_pool_almost_full", 120)
	r.Floor("multislot_almost_full_refused_underpriced", 30)
	r.Floor("multislot_almost_full_room_made", 50)
	r.Floor("txs_sized_exactly_at_slot_boundary", 100)
	r.Floor("full_pool_refused_underpriced", 150)
	r.Floor("full_pool_refused_underpriced_multislot", 40)
	r.Floor("full_pool_refused_no_room", 200)
	r.Floor("full_pool_room_made", 200)
	r.Floor("full_pool_local_forced", 1000)
	r.Floor("obs_pool_exactly_at_slot_limit", 1500)
	r.Floor("conc_accepted_txs", 100)
	r.Floor("conc_head_events", 20)
	r.Floor("blacklist_refreshes_ok", 1)
	r.Finish()
}
