package c17

import (
	"fmt"
	"math/big"
	"math/rand"
	"sync"

	"verifharness/core"
)

// ---- small constructors for operation lists ----

func tx(acct int, nonce uint64, price int64) txSpec {
	return txSpec{Acct: acct, Nonce: nonce, Price: price, Gas: 30000}
}
func (t txSpec) gas(g uint64) txSpec        { t.Gas = g; return t }
func (t txSpec) val(v *big.Int) txSpec      { t.Value = v; return t }
func (t txSpec) data(n, nz int) txSpec      { t.DataLen, t.NZ = n, nz; return t }
func (t txSpec) chain(c string) txSpec      { t.Chain = c; return t }
func (t txSpec) fit(size int) txSpec        { t.Fit = size; return t }
func add(via string, txs ...txSpec) *opSpec { return &opSpec{Kind: "add", Via: via, Txs: txs} }
func price(p int64) *opSpec                 { return &opSpec{Kind: "price", Price: p} }
func head(event bool, mv ...move) *opSpec   { return &opSpec{Kind: "head", Event: event, Moves: mv} }
func mine(event bool, m map[int]int) *opSpec {
	return &opSpec{Kind: "head", Event: event, Mine: m}
}
func bal(acct int, b int64) move         { return move{Acct: acct, Bal: big.NewInt(b)} }
func dn(acct int, d int64) move          { return move{Acct: acct, DNonce: d} }
func (o *opSpec) limit(g uint64) *opSpec { o.GasLimit = g; return o }
func (o *opSpec) back(n int, remine bool, extend int) *opSpec {
	o.Back, o.Remine, o.Extend = n, remine, extend
	return o
}

// slotsData is a payload length with which a transaction occupies exactly k pool slots
// (k = 1..4), off bytes into the last slot; zeroGas is the gas a zero payload of n bytes needs.
func slotsData(k, off int) int { return (k-1)*slotBytes + off }
func zeroGas(n int) uint64     { return baseGasLegacy + uint64(n)*gasPerZeroByte }

// fat is a transaction of k slots.
func fat(acct int, nonce uint64, price int64, k int) txSpec {
	n := slotsData(k, 1000)
	return tx(acct, nonce, price).data(n, 0).gas(zeroGas(n) + 1000)
}

func seq(acct int, via string, price int64, nonces ...uint64) *opSpec {
	o := &opSpec{Kind: "add", Via: via}
	for _, n := range nonces {
		o.Txs = append(o.Txs, tx(acct, n, price))
	}
	return o
}

// ---- boundary corpus ----

type scenario struct {
	name string
	o    sessionOpts
	ops  func(s *session) []*opSpec
}

func baseOpts() sessionOpts {
	return sessionOpts{lim: tight, priceLimit: 1, genesisHeight: 1, journal: false}
}

// sizeProbe finds the payload length at which the signed transaction encodes to exactly maxTxBytes.
var (
	probeOnce sync.Once
	probeLen  int
)

func sizeProbe() int {
	probeOnce.Do(func() { probeLen = sizeProbeSlow() })
	return probeLen
}

func sizeProbeSlow() int {
	n := maxTxBytes - 120
	for ; n < maxTxBytes; n++ {
		t := buildTx(0, accounts[1], 0, big.NewInt(100), 900000, big.NewInt(100), n, 0, "plain")
		if t.encSize >= maxTxBytes {
			break
		}
	}
	return n
}

func scenarios() []scenario {
	with := func(f func(o *sessionOpts)) sessionOpts { o := baseOpts(); f(&o); return o }
	static := func(ops ...*opSpec) func(*session) []*opSpec { return func(*session) []*opSpec { return ops } }
	exact := sizeProbe()
	list := []scenario{
		{"demote-unaffordable", baseOpts(), static(
			add("sync", tx(1, 0, 100), tx(1, 1, 500), tx(1, 2, 100)),
			head(false, bal(1, 4000000)), // affords price 100 (3 000 100), not price 500
			add("sync", tx(2, 0, 100), tx(2, 1, 500), tx(2, 2, 100), tx(2, 3, 100)),
			head(true, bal(2, 4000000)),
			head(true, bal(1, 1000000000), bal(2, 0)),
			add("sync", tx(1, 1, 100)),
			head(true, bal(1, 0)),
		)},
		{"demote-gas-limit", baseOpts(), static(
			add("sync", tx(1, 0, 100), tx(1, 1, 100).gas(200000), tx(1, 2, 100)),
			add("sync", tx(2, 3, 100).gas(200000)),
			head(true).limit(150000),
			add("sync", tx(1, 1, 100).gas(150000), tx(3, 0, 100).gas(150001)),
			head(false).limit(defGasLimit),
		)},
		{"promote-gap", baseOpts(), static(
			add("sync", tx(1, 0, 100), tx(1, 2, 100), tx(1, 3, 100)),
			add("async", tx(2, 1, 100), tx(2, 3, 100)),
			add("sync", tx(2, 0, 100)),
			add("sync", tx(1, 1, 100)),
			mine(true, map[int]int{1: 2}),
			add("remote1", tx(3, 2, 100)),
			head(true, dn(3, 2)),
			head(true, dn(2, 1)),
			add("sync", tx(2, 2, 100)),
		)},
		{"nonce-backwards", baseOpts(), static(
			add("sync", tx(1, 0, 100), tx(1, 1, 100)),
			mine(true, map[int]int{1: 2}),
			add("sync", tx(1, 2, 100), tx(1, 3, 100)),
			head(false, dn(1, -1)),
			add("sync", tx(1, 1, 150)),
			head(true, dn(1, -1)),
			head(true, dn(1, 3)),
		)},
		{"truncate-pending-locals", baseOpts(), static(
			seq(0, "local", 100, 0, 1, 2, 3, 4),
			seq(1, "sync", 200, 0, 1, 2),
			seq(2, "sync", 300, 0, 1, 2),
			seq(3, "sync", 400, 0, 1, 2, 3),
			seq(0, "local", 100, 5, 6),
			seq(1, "async", 200, 2, 3),
			head(true, dn(3, 1)),
		)},
		{"truncate-pending-preset-local", with(func(o *sessionOpts) { o.presetLocal = true }), static(
			seq(0, "sync", 100, 0, 1, 2, 3, 4), // remote submission of a sender configured as local
			seq(1, "sync", 200, 0, 1, 2),
			seq(2, "sync", 300, 0, 1, 2),
			price(250),
			price(1),
		)},
		{"global-slots", baseOpts(), static(
			seq(1, "sync", 100, 0, 1, 2),
			seq(2, "sync", 100, 0, 1, 2),
			seq(3, "sync", 100, 0, 1),
			seq(3, "sync", 100, 2),
			seq(0, "sync", 100, 0, 1, 2),
		)},
		{"queue-limits", baseOpts(), static(
			seq(1, "sync", 100, 1, 2, 3),
			seq(1, "sync", 100, 4),
			seq(2, "sync", 100, 1, 2, 3),
			seq(3, "sync", 100, 1),
			seq(3, "sync", 100, 2),
			seq(0, "local", 100, 1, 2, 3, 4, 5),
			seq(3, "async", 100, 3, 4),
			seq(0, "local", 100, 6, 7, 8),
			seq(2, "sync", 500, 5),
		)},
		{"bump-boundaries", baseOpts(), static(
			add("sync", tx(1, 0, 100), tx(1, 5, 200)),
			add("sync", tx(1, 0, 100)),
			add("sync", tx(1, 0, 109)),
			add("sync", tx(1, 0, 110)),
			add("sync", tx(1, 0, 120)),
			add("sync", tx(1, 0, 121)),
			add("sync", tx(1, 5, 200)),
			add("sync", tx(1, 5, 219)),
			add("sync", tx(1, 5, 220)),
			add("local", tx(0, 0, 1000), tx(0, 3, 1000)),
			add("local", tx(0, 0, 1099)),
			add("local", tx(0, 0, 1100)),
			add("local", tx(0, 3, 1099)),
			add("local", tx(0, 3, 1100)),
			add("sync", tx(1, 0, 90)),
			add("sync", tx(1, 0, 1000), tx(1, 0, 1099), tx(1, 0, 1100)),
		)},
		{"gas-funds-size-boundaries", baseOpts(), static(
			add("sync", tx(1, 0, 100).gas(defGasLimit)),
			add("sync", tx(1, 1, 100).gas(defGasLimit+1)),
			add("sync", tx(2, 0, 100).gas(29000)),
			add("sync", tx(2, 1, 100).gas(28999)),
			add("sync", tx(2, 1, 100).gas(29000+68*3+4*7).data(10, 3)),
			add("sync", tx(2, 2, 100).gas(29000+68*3+4*7-1).data(10, 3)),
			head(true, bal(3, 3000100)),
			add("sync", tx(3, 0, 100).val(big.NewInt(101))),
			add("sync", tx(3, 0, 100)),
			add("sync", tx(3, 1, 100).val(big.NewInt(-1))),
			add("sync", tx(1, 1, 100).gas(900000).data(exact+1, 0)),
			add("sync", tx(1, 1, 100).gas(900000).data(exact, 0)),
			add("sync", tx(1, 2, 100).gas(300000).data(40000, 0)),
		)},
		{"fork-boundary", with(func(o *sessionOpts) { o.genesisHeight = galaxiasHeight - 2 }), static(
			add("sync", tx(1, 0, 100).gas(21000)),
			add("sync", tx(1, 0, 100).gas(29000)),
			head(true),
			add("sync", tx(1, 1, 100).gas(21000)),
			add("sync", tx(1, 2, 100).gas(20999)),
			head(true).back(1, false, 0),
			add("sync", tx(2, 0, 100).gas(21000)),
		)},
		{"reject-classes", with(func(o *sessionOpts) { o.priceLimit = 100 }), func(s *session) []*opSpec {
			first := add("sync", tx(1, 0, 100), tx(1, 1, 100).chain("own"))
			return []*opSpec{first,
				add("sync", tx(1, 2, 100).chain("foreign")),
				add("sync", tx(1, 2, 99)),
				add("local", tx(0, 0, 1)),
				add("sync", tx(blackIdx, 0, 100)),
				add("local", tx(blackIdx, 0, 100)),
				add("sync", tx(2, 0, 100).val(new(big.Int).Set(richBal))),
				mine(true, map[int]int{1: 1}),
				add("sync", tx(1, 0, 500)),
				add("async", tx(1, 0, 500), tx(2, 0, 100).gas(100)),
			}
		}},
		{"duplicates", baseOpts(), func(s *session) []*opSpec {
			return []*opSpec{add("sync", tx(1, 0, 100), tx(1, 3, 100)), &opSpec{Kind: "dup"}, &opSpec{Kind: "dup"}}
		}},
		{"setgasprice", baseOpts(), static(
			add("sync", tx(1, 0, 100), tx(1, 1, 300), tx(1, 2, 100), tx(1, 4, 100)),
			add("local", tx(0, 0, 100), tx(0, 2, 100)),
			add("sync", tx(2, 0, 300), tx(2, 1, 300), tx(2, 3, 300), tx(2, 4, 300), tx(2, 5, 300)),
			price(200),
			add("sync", tx(3, 0, 199)),
			add("sync", tx(3, 0, 200)),
			add("local", tx(0, 1, 50)),
			add("sync", tx(0, 3, 50)),
			price(301),
			price(1),
			add("sync", tx(3, 1, 2)),
		)},
		{"reorg-reinject", baseOpts(), static(
			add("sync", tx(1, 0, 100), tx(1, 1, 100), tx(2, 0, 100)),
			mine(true, map[int]int{1: 2, 2: 1}),
			add("sync", tx(1, 2, 100)),
			head(true).back(1, false, 0),
			mine(true, map[int]int{1: 3}),
			head(true).back(1, true, 1),
			mine(true, map[int]int{2: 1}),
			head(true).back(2, false, 2),
			head(false, dn(1, 1)),
			mine(true, map[int]int{1: 1, 2: 1}),
			head(true).back(1, false, 70),
		)},
		{"reorg-reinject-partial", baseOpts(), static(
			// a one-block reorg after the operator raised the price threshold: of the four
			// discarded transactions only the first two are taken back
			add("sync", tx(1, 0, 300), tx(1, 1, 300), tx(1, 2, 100), tx(1, 3, 100), tx(1, 4, 300), tx(1, 5, 300)),
			mine(true, map[int]int{1: 4}),
			price(200),
			head(true).back(1, false, 0),
			head(true),
		)},
		{"journal-reload", with(func(o *sessionOpts) { o.journal = true }), static(
			add("local", tx(0, 0, 100), tx(0, 1, 100), tx(0, 3, 100)),
			add("sync", tx(1, 0, 100), tx(1, 2, 100)),
			add("sync", tx(0, 4, 100)),
			add("local", tx(0, 1, 200)),
			&opSpec{Kind: "reload"},
			add("sync", tx(1, 0, 100)),
			add("local", tx(0, 2, 100)),
			mine(true, map[int]int{0: 2}),
			&opSpec{Kind: "reload"},
			add("local", tx(2, 0, 100)),
			&opSpec{Kind: "reload"},
		)},
		{"lifetime-expiry", with(func(o *sessionOpts) { o.lifetime = true }), static(
			add("sync", tx(1, 0, 100), tx(1, 2, 100), tx(2, 3, 100)),
			add("local", tx(0, 2, 100)),
			&opSpec{Kind: "expire"},
			add("sync", tx(1, 2, 100), tx(1, 1, 100)),
			add("sync", tx(3, 1, 100)),
			&opSpec{Kind: "expire"},
			head(true, bal(1, 0)),
			&opSpec{Kind: "expire"},
		)},
		{"full-pool", baseOpts(), static(
			seq(0, "local", 100, 0, 1, 2, 3, 4, 5, 6),
			seq(1, "sync", 200, 0, 1),
			seq(2, "sync", 300, 0, 1),
			seq(3, "sync", 400, 0, 1),
			seq(1, "sync", 150, 2),
			seq(2, "sync", 500, 2),
			seq(0, "local", 100, 7, 8, 9),
			seq(3, "sync", 100, 2),
			seq(3, "sync", 600, 2),
			seq(1, "sync", 700, 5, 6, 7),
			seq(0, "sync", 100, 10),
			price(350),
		)},
		{"no-locals", with(func(o *sessionOpts) { o.noLocals = true }), static(
			seq(0, "local", 100, 0, 1, 2, 3, 4),
			seq(1, "sync", 200, 0, 1, 2),
			seq(2, "sync", 300, 0, 1, 2),
			price(150),
		)},
		// a sender that was remote becomes local (its pooled transactions migrate; their price-heap
		// entries stay behind: two of eight, no re-heap), then the price threshold rises above them
		{"role-switch-then-reprice", baseOpts(), static(
			seq(1, "sync", 300, 0, 1), seq(2, "sync", 300, 0, 1), seq(3, "sync", 300, 0, 1),
			seq(0, "sync", 100, 0, 1),
			add("local", tx(0, 2, 100)),
			price(200),
			add("sync", tx(0, 3, 50)),
			price(350),
			price(1),
		)},
		// ... then the pool fills up and better-paying remote transactions arrive
		{"role-switch-then-full-pool", baseOpts(), static(
			seq(1, "sync", 300, 0, 1), seq(2, "sync", 300, 0, 1), seq(3, "sync", 300, 0, 1),
			seq(0, "sync", 100, 0, 1),
			add("local", tx(0, 2, 100)),
			seq(1, "sync", 300, 3, 4, 5),
			add("sync", tx(2, 3, 500)),
			add("sync", tx(3, 3, 300)),
			add("sync", tx(3, 3, 250)),
			add("sync", tx(3, 3, 301)),
			add("sync", fat(2, 4, 600, 3)),
			price(400),
		)},
		// the same history with local handling disabled: no exemption, the transactions may go
		{"role-switch-no-locals", with(func(o *sessionOpts) { o.noLocals = true }), static(
			seq(1, "sync", 300, 0, 1), seq(2, "sync", 300, 0, 1), seq(3, "sync", 300, 0, 1),
			seq(0, "sync", 100, 0, 1),
			add("local", tx(0, 2, 100)),
			price(200),
			seq(0, "local", 250, 0, 1, 2),
			seq(1, "sync", 300, 3, 4, 5),
			add("sync", tx(2, 3, 500)),
			add("local", tx(0, 3, 100)),
		)},
		// first local submission replaces a pending transaction: the sender is not recorded as local
		// (DESIGN calibration), the second one records it
		{"role-switch-by-pending-replacement", baseOpts(), static(
			seq(1, "sync", 300, 0, 1), seq(2, "sync", 300, 0, 1), seq(3, "sync", 300, 0, 1),
			seq(0, "sync", 100, 0, 1),
			add("local", tx(0, 0, 150)),
			price(200),
			add("local", tx(0, 1, 100)),
			add("sync", tx(0, 2, 100)),
			price(300),
			price(1),
		)},
		// the sender migrates with a queue of its own, several price raises and a flood follow
		{"role-switch-queued-and-pending", baseOpts(), static(
			seq(1, "sync", 400, 0, 1), seq(2, "sync", 400, 0, 1),
			add("sync", tx(3, 0, 100), tx(3, 1, 120), tx(3, 3, 110), tx(3, 4, 130)),
			add("local", tx(3, 6, 90)),
			price(105),
			price(125),
			seq(1, "sync", 400, 3, 4, 5), seq(2, "sync", 400, 3, 4),
			add("sync", tx(0, 0, 500), tx(0, 1, 500)),
			add("sync", fat(0, 2, 500, 2)),
			price(450),
		)},
		// local multi-slot transactions on top of a full pool: every remote transaction goes, the
		// pool ends above its limit with local transactions only
		{"multislot-local-forced", baseOpts(), static(
			seq(1, "sync", 200, 0, 1), seq(2, "sync", 200, 0, 1), seq(3, "sync", 200, 0, 1),
			seq(1, "sync", 200, 3, 4, 5), seq(2, "sync", 200, 3, 4),
			add("local", fat(0, 0, 50, 4)),
			add("local", fat(0, 1, 50, 4), fat(0, 2, 50, 4)),
			add("local", fat(0, 3, 50, 4)),
			add("sync", tx(1, 0, 900)),
			add("sync", fat(2, 0, 900, 2)),
			mine(true, map[int]int{0: 2}),
			add("sync", tx(1, 0, 900)),
		)},
	}
	// transactions sized to the byte at a slot boundary, next to the limit
	list = append(list, scenario{"multislot-exact-slot-boundary", baseOpts(), static(
		seq(1, "sync", 200, 0, 1), seq(2, "sync", 250, 0, 1), seq(3, "sync", 300, 0, 1), seq(1, "sync", 200, 3, 4, 5), seq(2, "sync", 250, 3),
		add("sync", fat(0, 0, 150, 2).fit(2*slotBytes)), // the two free slots to the byte, cheap: nothing has to go
		add("sync", fat(0, 1, 150, 1).fit(slotBytes+1)), // one byte into a second slot, cheap, pool full
		add("sync", fat(0, 1, 500, 1).fit(slotBytes)),   // one slot to the byte, dear: one transaction goes
		add("sync", fat(3, 2, 500, 3).fit(3*slotBytes)),
		add("sync", fat(3, 3, 900, 4).fit(maxTxBytes)),
	)})
	// multi-slot arrivals into an almost full pool: free = 1..3 slots left, the arrival needs more
	for free := 1; free <= 3; free++ {
		for k := free + 1; k <= 4; k++ {
			for _, dear := range []bool{false, true} {
				free, k, dear := free, k, dear
				name, p := fmt.Sprintf("multislot-%d-slots-into-%d-free-cheap", k, free), int64(150)
				if dear {
					name, p = fmt.Sprintf("multislot-%d-slots-into-%d-free-dear", k, free), 500
				}
				list = append(list, scenario{name, baseOpts(), func(*session) []*opSpec {
					ops := []*opSpec{seq(1, "sync", 200, 0, 1), seq(2, "sync", 250, 0, 1), seq(3, "sync", 300, 0, 1), seq(1, "sync", 200, 3, 4, 5)}
					if free < 3 {
						ops = append(ops, seq(2, "sync", 250, []uint64{3, 4}[:3-free]...))
					}
					return append(ops,
						add("sync", fat(0, 0, p, k)),
						add("sync", fat(0, 0, 200, k)), // as cheap as the cheapest
						add("sync", fat(0, 1, 201, k)),
						add("sync", tx(3, 2, 100)),
						add("async", fat(3, 2, 1000, 4)),
					)
				}})
			}
		}
	}
	return list
}

func corpus(c *core.Case) {
	list := scenarios()
	if c.I >= len(list) {
		return
	}
	sc := list[c.I]
	s := newSession(c, sc.o)
	defer s.close()
	for _, op := range sc.ops(s) {
		if op.Kind == "dup" {
			// resubmit everything seen so far, one call each, through alternating entry points
			var ops []*opSpec
			for i, t := range s.recs {
				via := []string{"sync", "local", "async", "remote1"}[i%4]
				ops = append(ops, &opSpec{Kind: "add", Via: via, Txs: []txSpec{{Resubmit: t}}})
			}
			for _, o := range ops {
				s.exec(o)
			}
			continue
		}
		s.exec(op)
	}
	s.finish()
	if !s.dead {
		c.Run.Count("corpus_scenarios", 1)
		c.Run.Nontrivial("corpus:" + sc.name)
	}
}

// ---- random histories ----

var (
	// limit sets of one history in four: the demonstration-sized pool, a roomier one (bigger price
	// heap: a migration leaves a smaller share of it stale), and one with odd proportions
	otherLimits = []limits{
		{AccountSlots: 2, GlobalSlots: 4, AccountQueue: 2, GlobalQueue: 4, PriceBump: 10},
		{AccountSlots: 4, GlobalSlots: 10, AccountQueue: 4, GlobalQueue: 8, PriceBump: 10},
		{AccountSlots: 1, GlobalSlots: 4, AccountQueue: 3, GlobalQueue: 3, PriceBump: 25},
	}
	balances  = []int64{0, 2000000, 4000000, 10000000, 50000000}
	gasPrices = []int64{1, 100, 150, 200, 300, 450}
)

func pickVia(r *rand.Rand, acct int) string {
	x := r.Intn(100)
	if acct == 0 {
		if x < 55 {
			return "local"
		}
	} else if x < 2 {
		return "local"
	}
	switch {
	case x < 70:
		return "sync"
	case x < 92:
		return "async"
	}
	return "remote1"
}

// genTx draws one transaction of a random class for the given account.
func genTx(r *rand.Rand, s *session, acct int) txSpec {
	head := s.ch.Head()
	a := accounts[acct]
	sn := head.nonce(a.addr)
	t := tx(acct, sn+uint64(r.Intn(5)), 10*int64(10+r.Intn(51)))
	// price games around the present occupant of the nonce slot
	occPrice := func() *big.Int {
		for _, l := range [][]*txrec{s.pre.pending[a.addr], s.pre.queued[a.addr]} {
			for _, o := range l {
				if o.nonce == t.Nonce {
					return o.price
				}
			}
		}
		return nil
	}
	bumpGame := func() {
		if p := occPrice(); p != nil && p.IsInt64() && r.Intn(10) < 7 {
			o := p.Int64()
			fl := o * 110 / 100
			t.Price = []int64{o, o + 1, fl - 1, fl, fl + 1, (o*110 + 99) / 100, o * 2, o - 10, o + o/20}[r.Intn(9)]
			if t.Price < 1 {
				t.Price = 1
			}
		}
	}
	switch x := r.Intn(1000); {
	case x < 40: // valid and large: two to four slots
		bumpGame()
		multiSlot(r, &t)
		if t.DataLen < slotBytes && t.Fit == 0 {
			t.DataLen += slotBytes
			t.Gas = zeroGas(t.DataLen) + 500
		}
	case x < 600: // valid, possibly a replacement
		bumpGame()
		switch g := r.Intn(100); {
		case g < 5:
			t.Gas = 25000 // enough only after the fork
		case g < 10:
			t.Gas = 29000
		case g < 16:
			t.Gas = 200000
		case g < 18:
			t.Gas = head.gasLimit
		}
		if r.Intn(30) == 0 { // cost exactly the balance (or one more)
			b := head.bal(a.addr)
			fee := new(big.Int).Mul(big.NewInt(t.Price), new(big.Int).SetUint64(t.Gas))
			if v := new(big.Int).Sub(b, fee); v.Sign() >= 0 && b.Cmp(richBal) < 0 {
				t.Value = v.Add(v, big.NewInt(int64(r.Intn(2))))
			}
		}
		if r.Intn(25) == 0 {
			t.Chain = "own"
		}
	case x < 660: // duplicate of something seen before
		if len(s.recs) > 0 {
			return txSpec{Resubmit: s.recs[r.Intn(len(s.recs))]}
		}
	case x < 700: // below the pool's price threshold
		if s.gasPrice.IsInt64() && s.gasPrice.Int64() > 1 {
			t.Price = s.gasPrice.Int64() - 1 - int64(r.Intn(int(s.gasPrice.Int64()-1)))%50
			if t.Price < 1 {
				t.Price = 1
			}
		} else {
			bumpGame()
		}
	case x < 760: // far gap
		t.Nonce = sn + 5 + uint64(r.Intn(4))
	case x < 772: // oversized
		t.DataLen, t.Gas = maxTxBytes+1+r.Intn(2000), 900000
	case x < 795: // one to four slots, around the slot boundaries
		multiSlot(r, &t)
	case x < 835: // unaffordable
		if r.Intn(2) == 0 {
			t.Value = new(big.Int).Add(head.bal(a.addr), big.NewInt(1))
		} else {
			t.Price = 1000000000
		}
	case x < 865:
		t.Chain = "foreign"
	case x < 885:
		t.Value = big.NewInt(-1 - int64(r.Intn(1000)))
	case x < 915:
		t.Gas = head.gasLimit + 1 + uint64(r.Intn(1000))
	case x < 945:
		t.Gas = []uint64{0, 100, 20999, 28999}[r.Intn(4)]
	case x < 985:
		if sn > 0 {
			t.Nonce = sn - 1 - uint64(r.Intn(int(sn)))%3
		}
	default:
		t.Acct = blackIdx
		t.Nonce = 0
	}
	return t
}

// multiSlot gives t a zero payload that makes it occupy one to four slots; one time in three the
// size sits right at a slot boundary.
func multiSlot(r *rand.Rand, t *txSpec) {
	k := 1 + r.Intn(4)
	n := slotsData(k, r.Intn(slotBytes))
	if n > maxTxBytes-200 {
		n = maxTxBytes - 200
	}
	t.DataLen, t.NZ, t.Gas = n, 0, zeroGas(n)+uint64(r.Intn(2000))
	if r.Intn(3) == 0 {
		// k slots to the byte, or one byte less or more (k = 4: the largest admissible transaction)
		t.DataLen, t.Fit = k*slotBytes-120, k*slotBytes+[]int{0, 0, -1, 1}[r.Intn(4)]
		t.Gas = zeroGas(t.DataLen) + 1000
	}
}

func genOp(r *rand.Rand, s *session) *opSpec {
	// a directed episode in progress: its next step (now and then an unrelated operation slips in)
	for len(s.script) > 0 && r.Intn(6) != 0 {
		f := s.script[0]
		s.script = s.script[1:]
		if o := f(r, s); o != nil && (o.Kind != "add" || len(o.Txs) > 0) {
			return o
		}
	}
	if len(s.script) == 0 {
		switch e := r.Intn(1000); {
		case e < 14:
			s.script = roleSwitchEpisode(r, s)
		case e < 28:
			s.script = nearFullEpisode(r, s)
		}
		if len(s.script) > 0 {
			return genOp(r, s)
		}
	}
	x := r.Intn(100)
	switch {
	case x < 70:
		acct := r.Intn(nSenders)
		via := pickVia(r, acct)
		n := 1
		switch y := r.Intn(100); {
		case y >= 95:
			n = 5 + r.Intn(5)
		case y >= 70:
			n = 2 + r.Intn(3)
		}
		if via == "remote1" {
			n = 1
		}
		o := &opSpec{Kind: "add", Via: via}
		used := map[string]bool{}
		burst := n >= 5 && r.Intn(2) == 0 // consecutive nonces from one account: fills the pool
		base := s.ch.Head().nonce(accounts[acct].addr)
		for i := 0; i < n; i++ {
			a := acct
			if !burst && via != "local" && r.Intn(3) == 0 {
				a = r.Intn(nSenders)
			}
			t := genTx(r, s, a)
			if burst {
				t = tx(acct, base+uint64(i)+uint64(len(s.pre.pending[accounts[acct].addr])), 10*int64(10+r.Intn(51)))
			}
			// no two submissions of the same transaction in one call
			key := fmt.Sprint(t.Acct, t.Nonce, t.Price, t.Gas, t.Value, t.DataLen, t.Fit, t.Chain)
			if t.Resubmit != nil {
				key = fmt.Sprint("dup", t.Resubmit.id)
			}
			if used[key] {
				continue
			}
			used[key] = true
			o.Txs = append(o.Txs, t)
		}
		return o
	case x < 85:
		o := &opSpec{Kind: "head", Event: r.Intn(4) != 0}
		moves := func(n int) {
			for i := 0; i < n; i++ {
				m := move{Acct: r.Intn(nSenders)}
				switch r.Intn(3) {
				case 0:
					m.DNonce = []int64{1, 2, 3, -1, -2}[r.Intn(5)]
				case 1:
					m.Bal = big.NewInt(balances[r.Intn(len(balances))])
				default:
					m.Bal = new(big.Int).Set(richBal)
				}
				o.Moves = append(o.Moves, m)
			}
		}
		switch y := r.Intn(100); {
		case y < 40: // a block with pool transactions
			o.Mine = map[int]int{}
			for a := 0; a < nSenders; a++ {
				if r.Intn(2) == 0 {
					o.Mine[a] = 1 + r.Intn(3)
				}
			}
			if r.Intn(4) == 0 {
				moves(1)
			}
		case y < 65:
			moves(1 + r.Intn(2))
		case y < 88:
			o.Back = 1 + r.Intn(3)
			o.Remine = r.Intn(2) == 0
			o.Extend = r.Intn(3)
			if r.Intn(2) == 0 {
				moves(1)
			}
		case y < 90:
			o.Extend = 66 + r.Intn(6)
			o.Back = r.Intn(2)
		default:
			o.GasLimit = []uint64{150000, defGasLimit, 29999, 250000}[r.Intn(4)]
		}
		return o
	case x < 93:
		return price(gasPrices[r.Intn(len(gasPrices))])
	case x < 96:
		if s.cfg.Journal != "" {
			return &opSpec{Kind: "reload"}
		}
	default:
		if s.lifetime {
			return &opSpec{Kind: "expire"}
		}
	}
	return genOp(r, s)
}

func history(c *core.Case) {
	r := c.R
	o := sessionOpts{lim: tight, priceLimit: []uint64{1, 1, 100}[r.Intn(3)], genesisHeight: 1,
		lifetime: r.Intn(8) == 0, noLocals: r.Intn(9) == 0, presetLocal: r.Intn(4) == 0, journal: r.Intn(3) != 0,
		reheapObs: r.Intn(6) == 0}
	if r.Intn(4) == 0 {
		o.lim = otherLimits[r.Intn(len(otherLimits))]
	}
	if r.Intn(6) == 0 {
		o.genesisHeight = galaxiasHeight - 1 - uint64(r.Intn(6))
	}
	n := 50 + r.Intn(351)
	if o.lifetime {
		n = 50 + r.Intn(120)
	}
	s := newSession(c, o)
	defer s.close()
	done := 0
	for ; done < n && !s.dead; done++ {
		s.exec(genOp(r, s))
	}
	s.finish()
	if s.dead {
		return
	}
	c.Run.Count("histories", 1)
	if s.noLocals {
		c.Run.Count("histories_locals_disabled", 1)
	}
	if o.reheapObs {
		c.Run.Count("histories_reheaping_observer", 1)
	}
	if s.events > 0 && len(s.everAcc) >= 10 {
		c.Run.Nontrivial(fmt.Sprint("history", c.I, n))
	}
	if c.I < 2 {
		tr := s.trace
		if len(tr) > 10 {
			tr = tr[:10]
		}
		c.Run.Sample(map[string]interface{}{"group": c.Group, "case": c.I, "ops": n, "first_ops": tr})
	}
}
