package c17

import (
	"fmt"
	"os"
	"regexp"
	"sort"
	"strings"
)

// Race reports are read from the GORACE log of this very process after each case
// (halt_on_error=0: the runtime appends a report and carries on).

var raceOffset int64

func raceLogPath() string {
	for _, f := range strings.Fields(os.Getenv("GORACE")) {
		if strings.HasPrefix(f, "log_path=") {
			return fmt.Sprintf("%s.%d", strings.TrimPrefix(f, "log_path="), os.Getpid())
		}
	}
	return ""
}

type raceReport struct {
	key      string // unordered pair of the innermost go-kardia functions of the two accesses
	inPool   bool   // one access is in mainchain/tx_pool non-test code
	inKardia bool   // one access is in go-kardia code at all
	text     string
}

var (
	frameFn   = regexp.MustCompile(`^  (\S+)\(`)
	lineStrip = regexp.MustCompile(`:\d+`)
)

// innermost go-kardia frame of one access stack (function name; the file line follows it).
func kardiaFrame(stack []string) (fn, file string) {
	for i := 0; i < len(stack); i++ {
		m := frameFn.FindStringSubmatch(stack[i])
		if m == nil || !strings.Contains(m[1], "github.com/kardiachain/go-kardia/") {
			continue
		}
		f := strings.TrimPrefix(m[1], "github.com/kardiachain/go-kardia/")
		if i+1 < len(stack) {
			file = strings.TrimSpace(stack[i+1])
		}
		return f, file
	}
	return "", ""
}

func parseRaceReports(text string) []raceReport {
	var out []raceReport
	for _, blockText := range strings.Split(text, "==================") {
		if !strings.Contains(blockText, "WARNING: DATA RACE") {
			continue
		}
		// sections are separated by blank lines; the first two are the conflicting accesses
		var sections [][]string
		var cur []string
		for _, l := range strings.Split(blockText, "\n") {
			if strings.TrimSpace(l) == "" {
				if len(cur) > 0 {
					sections = append(sections, cur)
					cur = nil
				}
				continue
			}
			cur = append(cur, l)
		}
		if len(cur) > 0 {
			sections = append(sections, cur)
		}
		var acc [][]string
		for _, s := range sections {
			h := s[0]
			if strings.HasPrefix(h, "WARNING") && len(s) > 1 {
				h = s[1]
				s = s[1:]
			}
			if strings.Contains(h, " by goroutine ") || strings.Contains(h, " by main goroutine") {
				if strings.HasPrefix(strings.TrimSpace(h), "Goroutine") {
					continue
				}
				acc = append(acc, s)
			}
		}
		rr := raceReport{text: blockText}
		var fns []string
		for _, a := range acc {
			if len(fns) == 2 {
				break
			}
			fn, file := kardiaFrame(a)
			if fn == "" {
				fn = "(harness)"
			} else {
				rr.inKardia = true
				if strings.Contains(file, "/mainchain/tx_pool/") && !strings.Contains(file, "_test.go") {
					rr.inPool = true
				}
			}
			fns = append(fns, lineStrip.ReplaceAllString(fn, ""))
		}
		sort.Strings(fns)
		rr.key = strings.Join(fns, "|")
		if len(rr.text) > 6000 {
			rr.text = rr.text[:6000]
		}
		out = append(out, rr)
	}
	return out
}

// newRaceReports returns the reports written since the last call.
func newRaceReports() []raceReport {
	p := raceLogPath()
	if p == "" {
		return nil
	}
	b, err := os.ReadFile(p)
	if err != nil || int64(len(b)) <= raceOffset {
		return nil
	}
	// only complete reports (each ends with a separator line)
	chunk := string(b[raceOffset:])
	end := strings.LastIndex(chunk, "==================")
	if end < 0 {
		return nil
	}
	end += len("==================")
	raceOffset += int64(end)
	return parseRaceReports(chunk[:end])
}
