package c17

import (
	"fmt"
	"github.com/kardiachain/go-kardia/lib/rlp"
	"math/big"
	"os"
	"path/filepath"
	"sort"
	"strings"
	"time"

	"github.com/kardiachain/go-kardia/configs"
	"github.com/kardiachain/go-kardia/lib/common"
	"github.com/kardiachain/go-kardia/mainchain/tx_pool"
	"github.com/kardiachain/go-kardia/types"

	"verifharness/core"
)

const (
	evictTick   = 4 * time.Millisecond  // package-level eviction tick, set once per process
	tinyLife    = 40 * time.Millisecond // Lifetime of the expiry histories
	nSenders    = 4
	blackIdx    = 4 // account index of the blacklisted sender
	defGasLimit = 1000000
)

var (
	accounts   []*account
	richBal, _ = new(big.Int).SetString("1000000000000", 10)
)

// processSetup runs once per process, before any pool exists: the eviction tick and the
// blacklist are package-level variables of tx_pool which pools read without a lock, so
// they are written here and never again.
func processSetup() {
	for i := 0; i <= blackIdx; i++ {
		accounts = append(accounts, makeAccount(i))
	}
	tx_pool.VerifSetEvictionInterval(evictTick)
	tx_pool.Blacklisted[accounts[blackIdx].addr.Hex()] = true
}

type slotKey struct {
	a common.Address
	n uint64
}

type txSpec struct {
	Acct     int
	Nonce    uint64
	Price    int64
	Gas      uint64
	Value    *big.Int
	DataLen  int
	NZ       int
	Chain    string
	Fit      int    // > 0: adjust the payload so that the signed transaction encodes to exactly this many bytes
	Resubmit *txrec // submit this earlier transaction again instead of a new one
}

type move struct {
	Acct   int
	DNonce int64    // change of the state nonce (may be negative: reorg)
	Bal    *big.Int // new balance (nil = keep)
}

type opSpec struct {
	Kind string // add | head | price | reload | expire
	// add
	Via string // local | sync | async | remote1
	Txs []txSpec
	// head
	Event    bool        // publish a ChainHeadEvent (else: silent head change + idle reorg)
	Back     int         // 0: extend the head; n>0: fork from the n-th ancestor
	Extend   int         // additional empty blocks on top of the new block
	Mine     map[int]int // account -> number of its pending transactions to include
	Remine   bool        // on a fork: include again the discarded transactions of one account
	Moves    []move
	GasLimit uint64
	// price
	Price int64
}

type session struct {
	c        *core.Case
	run      *core.Run
	lim      limits
	cfg      tx_pool.TxPoolConfig
	ch       *chain
	pool     *tx_pool.TxPool
	recs     []*txrec
	byHash   map[common.Hash]*txrec
	gasPrice *big.Int
	lifetime bool
	noLocals bool
	lastEv   *blk // the head the pool's loop goroutine remembers (old head of the next event)
	everAcc  map[common.Hash]bool
	everLoc  map[common.Address]bool
	trace    []string
	pre      *view
	dir      string
	dead     bool
	nextID   int
	events   int

	reheapObs bool                 // observe through VerifSnapshot (which re-heaps the price list) instead of the read-only view
	script    []stepFn             // pending steps of a directed episode (gen.go)
	migrated  map[common.Hash]bool // transactions that were in the pool as remote ones when their sender became local
	switched  map[common.Address]bool
}

func (s *session) logf(f string, a ...interface{}) {
	s.trace = append(s.trace, fmt.Sprintf("%d: ", len(s.trace))+fmt.Sprintf(f, a...))
}

func (s *session) witness() interface{} {
	tr := s.trace
	skipped := 0
	if len(tr) > 80 {
		skipped = len(tr) - 80
		tr = tr[skipped:]
	}
	w := map[string]interface{}{"limits": s.lim, "lifetime_mode": s.lifetime, "no_locals": s.noLocals, "price_limit": s.cfg.PriceLimit,
		"preset_locals": len(s.cfg.Locals), "journal": s.cfg.Journal != "", "reheaping_observer": s.reheapObs, "genesis_height": s.genesisHeight(), "ops_omitted": skipped, "ops": tr}
	if s.pool != nil {
		if v, _ := s.observe(false); v != nil {
			w["pool_now"] = dumpView(v)
		}
		h := s.ch.Head()
		var st []string
		for _, a := range accounts[:nSenders] {
			st = append(st, fmt.Sprintf("a%d nonce=%d bal=%v", a.idx, h.nonce(a.addr), h.bal(a.addr)))
		}
		w["head"] = map[string]interface{}{"height": h.height, "gas_limit": h.gasLimit, "state": st, "pool_gas_price": s.gasPrice}
	}
	return w
}

func (s *session) genesisHeight() uint64 {
	b := s.ch.Head()
	for b.parent != nil {
		b = b.parent
	}
	return b.height
}

func dumpView(v *view) map[string][]string {
	out := map[string][]string{}
	for _, side := range []struct {
		n string
		m map[common.Address][]*txrec
	}{{"pending", v.pending}, {"queued", v.queued}} {
		var l []string
		for _, txs := range side.m {
			for _, t := range txs {
				l = append(l, t.String())
			}
		}
		sort.Strings(l)
		out[side.n] = l
	}
	for a := range v.locals {
		out["locals"] = append(out["locals"], fmt.Sprintf("%x", a[:3]))
	}
	return out
}

func (s *session) fail(f *finding) {
	if s.dead {
		return
	}
	s.dead = true
	s.c.Violation(f.key, f.what, s.witness())
}

func (s *session) newPool() {
	before := s.ch.currentBlockCalls()
	s.pool = tx_pool.NewTxPool(s.cfg, configs.TestChainConfig, s.ch)
	// the loop goroutine reads the chain head once when it starts and keeps it as the
	// "old head" of the first event: wait for that read before the head may move.
	for i := 0; s.ch.currentBlockCalls() < before+2; i++ {
		time.Sleep(50 * time.Microsecond)
		if i > 400000 {
			s.run.Inconclusive("pool loop did not start")
			s.dead = true
			return
		}
	}
	s.lastEv = s.ch.Head()
	s.gasPrice = new(big.Int).SetUint64(s.cfg.PriceLimit)
}

func (s *session) close() {
	if s.pool != nil {
		s.pool.Stop()
		s.pool = nil
	}
	if s.dir != "" {
		os.RemoveAll(s.dir)
	}
}

// finish ends a history with one observation through the re-heaping snapshot hook, for the
// consistency checks only that hook makes (lists against the pool's own counters).
func (s *session) finish() {
	if s.dead || s.pool == nil {
		return
	}
	s.reheapObs = true
	s.check(false)
}

// fixpoint: two idle reorg runs (DESIGN calibration: limits are enforced lazily).
func (s *session) fixpoint() {
	s.pool.VerifWaitReorg()
	s.pool.VerifWaitReorg()
}

// observe takes one atomic snapshot through the hook and translates it; with cross the
// public API views are compared with it (only meaningful when nothing runs concurrently).
func (s *session) observe(cross bool) (*view, *finding) {
	// The read-only view is the normal observation: VerifSnapshot re-heaps the price list, and an
	// observer that repairs the heap after every operation hides everything that depends on
	// stale heap entries (migrated, removed and re-added transactions).
	var ix *tx_pool.VerifIndex
	var ierr error
	if s.reheapObs {
		ix, ierr = s.pool.VerifSnapshot()
	} else {
		ix = s.pool.VerifView()
	}
	v := &view{pending: map[common.Address][]*txrec{}, queued: map[common.Address][]*txrec{}, where: map[common.Hash]place{},
		locals: ix.Locals, localTx: ix.All}
	var f *finding
	note := func(key, what string) {
		if f == nil {
			f = &finding{key, what}
		}
	}
	load := func(list byte, src map[common.Address][]common.Hash, dst map[common.Address][]*txrec) {
		for a, hs := range src {
			for i, h := range hs {
				t := s.byHash[h]
				if t == nil {
					note("alien-tx-in-pool", fmt.Sprintf("pool lists a transaction %x the harness never built", h[:4]))
					continue
				}
				if t.from.addr != a {
					note("tx-under-wrong-sender", fmt.Sprintf("%v is listed under %x", t, a[:3]))
				}
				if p, dup := v.where[h]; dup {
					if p.list != list {
						note("tx-pending-and-queued", fmt.Sprintf("%v is both pending and queued", t))
					} else {
						note("tx-listed-twice", fmt.Sprintf("%v appears twice in one list", t))
					}
					continue
				}
				if _, ok := ix.All[h]; !ok {
					note("listed-not-indexed", fmt.Sprintf("%v is in list %c but not in the hash index", t, list))
				}
				v.where[h] = place{list, i}
				dst[a] = append(dst[a], t)
				v.slots += t.slots()
			}
		}
	}
	load('p', ix.Pending, v.pending)
	load('q', ix.Queue, v.queued)
	if !s.reheapObs {
		// the view lists a sender's transactions in map order: sort by nonce, re-index the positions
		for _, side := range []map[common.Address][]*txrec{v.pending, v.queued} {
			for _, l := range side {
				sort.SliceStable(l, func(i, j int) bool { return l[i].nonce < l[j].nonce })
				for i, t := range l {
					v.where[t.hash] = place{v.where[t.hash].list, i}
				}
			}
		}
		for a, l := range v.pending {
			if n := len(l); n > 0 && ix.PendingNonce[a] != l[n-1].nonce+1 {
				note("internal:pending-nonce", fmt.Sprintf("pending nonce mismatch for %x: have %d, want %d", a[:4], ix.PendingNonce[a], l[n-1].nonce+1))
			}
		}
	}
	for h := range ix.All {
		if _, ok := v.where[h]; !ok {
			what := fmt.Sprintf("%x", h[:4])
			if t := s.byHash[h]; t != nil {
				what = t.String()
			}
			note("indexed-not-listed", "the hash index holds "+what+" which is in neither list")
		}
	}
	if ierr != nil && f == nil {
		e := ierr.Error()
		key := "internal:other"
		switch {
		case strings.HasPrefix(e, "pending nonce mismatch"):
			key = "internal:pending-nonce"
		case strings.HasPrefix(e, "total transaction count"):
			key = "internal:count"
		case strings.HasPrefix(e, "priced remote count"):
			key = "internal:priced"
		}
		note(key, e)
	}
	if f != nil || !cross {
		return v, f
	}
	return v, s.crossCheck(v)
}

// crossCheck compares the public API views with a snapshot taken just before (only
// meaningful when nothing runs concurrently).
func (s *session) crossCheck(v *view) *finding { return s.crossCheckWith(v, accounts[:nSenders]) }

func (s *session) crossCheckWith(v *view, accts []*account) *finding {
	var f *finding
	note := func(key, what string) {
		if f == nil {
			f = &finding{key, what}
		}
	}
	cp, cq := s.pool.Content()
	pp, _ := s.pool.Pending()
	sameList := func(a types.Transactions, b []*txrec) bool {
		if len(a) != len(b) {
			return false
		}
		for i := range a {
			if a[i].Hash() != b[i].hash {
				return false
			}
		}
		return true
	}
	if len(cp) != len(v.pending) || len(cq) != len(v.queued) || len(pp) != len(v.pending) {
		note("api-mismatch:content", fmt.Sprintf("Content/Pending list %d/%d/%d senders, snapshot %d/%d", len(cp), len(cq), len(pp), len(v.pending), len(v.queued)))
	}
	for a, l := range v.pending {
		if !sameList(cp[a], l) || !sameList(pp[a], l) {
			note("api-mismatch:pending", fmt.Sprintf("Content()/Pending() of %x differ from the snapshot", a[:3]))
		}
	}
	for a, l := range v.queued {
		if !sameList(cq[a], l) {
			note("api-mismatch:queued", fmt.Sprintf("Content() queue of %x differs from the snapshot", a[:3]))
		}
	}
	np, nq := s.pool.Stats()
	if vp, vq := v.count(); np != vp || nq != vq {
		note("api-mismatch:stats", fmt.Sprintf("Stats() = %d/%d, lists hold %d/%d", np, nq, vp, vq))
	}
	head := s.ch.Head()
	for _, a := range accts {
		fp, fq := s.pool.ContentFrom(a.addr)
		if !sameList(fp, v.pending[a.addr]) || !sameList(fq, v.queued[a.addr]) {
			note("api-mismatch:content-from", fmt.Sprintf("ContentFrom(%x) differs from the snapshot", a.addr[:3]))
		}
		if want, got := head.nonce(a.addr)+uint64(len(v.pending[a.addr])), s.pool.Nonce(a.addr); got != want {
			note("nonce-api-mismatch", fmt.Sprintf("Nonce(a%d) = %d, state nonce %d + %d pending = %d", a.idx, got, head.nonce(a.addr), len(v.pending[a.addr]), want))
		}
	}
	var hs []common.Hash
	var want []tx_pool.TxStatus
	for h, p := range v.where {
		hs = append(hs, h)
		if p.list == 'p' {
			want = append(want, tx_pool.TxStatusPending)
		} else {
			want = append(want, tx_pool.TxStatusQueued)
		}
		if g := s.pool.Get(h); g == nil || g.Hash() != h {
			note("api-mismatch:get", fmt.Sprintf("Get(%v) does not return the listed transaction", s.byHash[h]))
		}
	}
	for i, st := range s.pool.Status(hs) {
		if st != want[i] {
			note("api-mismatch:status", fmt.Sprintf("Status(%v) = %d, want %d", s.byHash[hs[i]], st, want[i]))
		}
	}
	loc := s.pool.Locals()
	if len(loc) != len(v.locals) {
		note("api-mismatch:locals", fmt.Sprintf("Locals() has %d entries, snapshot %d", len(loc), len(v.locals)))
	}
	return f
}

// settle = observe + structural + slot limit (+ the other limits at the fixpoint).
func (s *session) check(atFixpoint bool) *view {
	v, f := s.observe(false)
	if f == nil {
		f = checkStructural(v, s.ch.Head())
	}
	if f == nil {
		f = checkSlots(v, s.lim)
	}
	if f == nil && !s.lifetime {
		f = s.crossCheck(v)
	}
	if f == nil && atFixpoint {
		f = checkLimits(v, s.ch.Head(), s.lim)
	}
	if f != nil {
		s.fail(f)
		return nil
	}
	s.noteOccupancy(v)
	return v
}

// noteOccupancy records how close to (or, with exempt transactions only, how far above) its
// slot limit the pool was observed.
func (s *session) noteOccupancy(v *view) {
	limit := int(s.lim.GlobalSlots + s.lim.GlobalQueue)
	bound := false // a non-exempt transaction is present: the limit binds
	for _, m := range []map[common.Address][]*txrec{v.pending, v.queued} {
		for _, l := range m {
			for _, t := range l {
				if !v.exempt(t) {
					bound = true
				}
			}
		}
	}
	switch {
	case bound:
		s.run.Max(fmt.Sprintf("slots_held_with_remote_txs:limit_%d", limit), int64(v.slots))
		if v.slots == limit {
			s.run.Count("obs_pool_exactly_at_slot_limit", 1)
		}
	case v.slots > limit:
		s.run.Count("obs_pool_above_slot_limit_exempt_txs_only", 1)
		s.run.Max(fmt.Sprintf("slots_held_exempt_txs_only:limit_%d", limit), int64(v.slots))
	}
}

func (s *session) isLocalAcct(v *view, a common.Address) bool { return v.locals[a] }

// transition judges what left and what entered the pool between pre and post.
//
//	accepted:  submitted in this operation with a nil error
//	cands:     further transactions the operation may legitimately have (re)introduced
//	demoting:  the operation can move pending transactions back to the queue
func (s *session) transition(post *view, accepted, cands []*txrec, maxPrice *big.Int, demoting bool, anyAppear func(*txrec) bool) {
	pre := s.pre
	head := s.ch.Head()
	u := newUniverse(pre, append(append([]*txrec{}, accepted...), cands...))
	gone := func(t *txrec, wasQueued, fresh bool) {
		local := pre.locals[t.from.addr]
		expiry := s.lifetime && (wasQueued || fresh || demoting)
		why := explainGone(t, head, u, s.lim, local, maxPrice, expiry)
		if why == "" {
			if local {
				s.fail(&finding{"local-tx-evicted", fmt.Sprintf("%v of local sender a%d left the pool though it is not mined, unpayable or replaced", t, t.from.idx)})
			} else {
				s.fail(&finding{"remote-tx-vanished-unexplained", fmt.Sprintf("%v left the pool and no rule (mined, unpayable, replaced, price, capacity, expiry) allows it", t)})
			}
			return
		}
		s.run.Count("gone:"+why, 1)
		if local {
			s.run.Count("gone_local:"+why, 1)
		}
	}
	for h, p := range pre.where {
		if !post.has(h) {
			gone(s.byHash[h], p.list == 'q', false)
		}
	}
	accSet := map[common.Hash]bool{}
	for _, t := range accepted {
		accSet[t.hash] = true
		if !pre.has(t.hash) && !post.has(t.hash) {
			gone(t, false, true)
		}
	}
	for _, t := range cands {
		accSet[t.hash] = true
	}
	for h := range post.where {
		if !pre.has(h) && !accSet[h] && (anyAppear == nil || !anyAppear(s.byHash[h])) {
			s.fail(&finding{"tx-appeared-unsubmitted", fmt.Sprintf("%v is in the pool although no successful submission or reorg of this step put it there", s.byHash[h])})
			return
		}
	}
}

func sameContent(a, b *view) bool {
	if len(a.where) != len(b.where) {
		return false
	}
	for h, p := range a.where {
		if q, ok := b.where[h]; !ok || q.list != p.list {
			return false
		}
	}
	return true
}

func (s *session) build(sp txSpec) *txrec {
	if sp.Resubmit != nil {
		return sp.Resubmit
	}
	a := accounts[sp.Acct]
	val := sp.Value
	if val == nil {
		val = big.NewInt(100)
	}
	ch := sp.Chain
	if ch == "" {
		ch = "plain"
	}
	t := buildTx(s.c.I*100000+s.nextID, a, sp.Nonce, big.NewInt(sp.Price), sp.Gas, val, sp.DataLen, sp.NZ, ch)
	for i := 0; sp.Fit > 0 && t.encSize != sp.Fit && sp.DataLen+sp.Fit-t.encSize >= 0 && i < 3; i++ {
		sp.DataLen += sp.Fit - t.encSize
		if sp.NZ == 0 {
			sp.Gas = zeroGas(sp.DataLen) + 1000
		}
		t = buildTx(s.c.I*100000+s.nextID, a, sp.Nonce, big.NewInt(sp.Price), sp.Gas, val, sp.DataLen, sp.NZ, ch)
	}
	if sp.Fit > 0 && t.encSize == sp.Fit && sp.Fit%slotBytes <= 1 {
		s.run.Count("txs_sized_exactly_at_slot_boundary", 1)
	}
	s.nextID++
	t.black = sp.Acct == blackIdx
	s.recs = append(s.recs, t)
	if t.value.Sign() >= 0 {
		s.byHash[t.hash] = t
	}
	return t
}

func in(x string, l []string) bool {
	for _, y := range l {
		if x == y {
			return true
		}
	}
	return false
}

// ---- operations ----

func (s *session) doAdd(op *opSpec) {
	pre, head := s.pre, s.ch.Head()
	var recs []*txrec
	var raw []*types.Transaction
	for _, sp := range op.Txs {
		t := s.build(sp)
		recs = append(recs, t)
		raw = append(raw, t.tx)
	}
	viaLocal := op.Via == "local"
	if !viaLocal && (s.nextID+len(raw))%3 == 0 {
		// what a peer sends reaches the pool RLP-decoded (the reactor decodes each transaction of a message): a third of
		// the remote submissions take that way - same transaction, but every memoised field is the decoder's
		for i, tx := range raw {
			bz, err := rlp.EncodeToBytes(tx)
			if err != nil {
				continue
			}
			d := new(types.Transaction)
			if err := rlp.DecodeBytes(bz, d); err != nil {
				continue
			}
			raw[i] = d
			s.run.Count("remote_submissions_of_rlp_decoded_transactions", 1)
		}
	}
	var errs []error
	switch op.Via {
	case "local":
		if len(raw) == 1 {
			errs = []error{s.pool.AddLocal(raw[0])}
		} else {
			errs = s.pool.AddLocals(raw)
		}
	case "sync":
		errs = s.pool.AddRemotesSync(raw)
	case "remote1":
		errs = []error{s.pool.AddRemote(raw[0])}
		s.pool.VerifWaitReorg()
	default:
		errs = s.pool.AddRemotes(raw)
		s.pool.VerifWaitReorg()
	}
	var desc []string
	for i, t := range recs {
		e := "ok"
		if errs[i] != nil {
			e = errs[i].Error()
		}
		desc = append(desc, fmt.Sprintf("[%v -> %s]", t, e))
	}
	s.logf("add via=%s %s", op.Via, strings.Join(desc, " "))
	s.run.Count("op:add:"+op.Via, 1)
	if viaLocal && s.noLocals {
		s.run.Count("op:add:local:locals_disabled", 1)
	}
	s.run.Count("submissions", len(recs))

	imm := s.check(false)
	if imm == nil {
		return
	}
	// admission predicate. The model follows the content of the pool through the call: it is
	// exact (outside expiry histories) until the pool has to make room for the first time;
	// which transactions it then discards among equally priced ones is out of the model's reach.
	limit := int(s.lim.GlobalSlots + s.lim.GlobalQueue)
	occupant := map[slotKey]*txrec{}
	uncertain := map[slotKey]bool{}
	inPending := map[slotKey]bool{} // the nonce slot is held by a pending transaction
	for _, m := range []map[common.Address][]*txrec{pre.pending, pre.queued} {
		for a, l := range m {
			for _, t := range l {
				occupant[slotKey{a, t.nonce}] = t
				if pre.where[t.hash].list == 'p' {
					inPending[slotKey{a, t.nonce}] = true
				}
				if s.lifetime && !pre.locals[a] && pre.where[t.hash].list == 'q' {
					uncertain[slotKey{a, t.nonce}] = true // may have expired since the last observation
				}
			}
		}
	}
	localNow := map[common.Address]bool{} // senders the pool treats as local at this point of the call
	for a := range pre.locals {
		localNow[a] = true
	}
	flagged := map[common.Hash]bool{} // transactions exempt by their own flag (see view.exempt)
	for h, l := range pre.localTx {
		if l {
			flagged[h] = true
		}
	}
	exemptNow := func(o *txrec) bool { return localNow[o.from.addr] || flagged[o.hash] }
	mayBeFull := false // sticky: the pool may have had to make room (upper estimate of its content)
	madeRoom := false  // the model has seen the first make-room step of this call
	upperSlots := pre.slots
	modelSlots := pre.slots
	var accepted []*txrec
	allClearCut := true
	// bumpRule judges the outcome for a transaction that has room: fresh nonce slot = accepted,
	// occupied = price-bump rule. oldMayBeGone: the occupant may have been discarded to make room.
	bumpRule := func(t, old *txrec, err error, cls string, oldMayBeGone bool, ctx string) bool {
		if old == nil {
			if err != nil {
				s.fail(&finding{"valid-tx-rejected:" + cls, fmt.Sprintf("valid %v (free nonce slot, %s) refused with %q", t, ctx, err.Error())})
				return false
			}
			s.run.Count("accepted_fresh_slot", 1)
			return true
		}
		switch bumpVerdict(old.price, t.price, s.lim.PriceBump) {
		case 1:
			if err != nil {
				s.fail(&finding{"replacement-refused-above-bump", fmt.Sprintf("%v offers the required bump over %v but was refused: %v", t, old, err)})
				return false
			}
			s.run.Count("replacements_accepted", 1)
			if pre.has(old.hash) && pre.where[old.hash].list == 'p' {
				s.run.Count("replacements_accepted_pending", 1)
			}
		case -1:
			if err == nil && oldMayBeGone {
				break
			}
			if err == nil {
				s.fail(&finding{"replacement-accepted-below-bump", fmt.Sprintf("%v replaced %v without the required %d%% bump", t, old, s.lim.PriceBump)})
				return false
			}
			if cls != "replace-underpriced" {
				s.fail(&finding{"valid-tx-rejected:" + cls, fmt.Sprintf("%v (insufficient bump over %v) refused with %q", t, old, err.Error())})
				return false
			}
			s.run.Count("replacements_refused", 1)
		default:
			s.run.Count("replacements_in_rounding_zone", 1)
			if err != nil && cls != "replace-underpriced" {
				s.fail(&finding{"valid-tx-rejected:" + cls, fmt.Sprintf("%v refused with %q", t, err.Error())})
				return false
			}
		}
		return true
	}
	for i, t := range recs {
		err := errs[i]
		cls := errClass(err)
		if err == nil {
			accepted = append(accepted, t)
			s.everAcc[t.hash] = true
		}
		isLocal := (viaLocal && !s.noLocals) || pre.locals[t.from.addr]
		k := slotKey{t.from.addr, t.nonce}
		known := t.value.Sign() >= 0 && pre.has(t.hash)
		if known && uncertain[k] {
			// a queued non-local transaction in an expiry history: it may or may not still be
			// there. If it has expired, the resubmission is judged like a new transaction, and an
			// earlier transaction of the same call may meanwhile hold its nonce slot.
			allClearCut = false
			allowed := append(clearCutRejections(t, head, s.gasPrice, isLocal, false), rjKnown, rjPrice, "pool-full", "replace-underpriced")
			if err != nil && !in(cls, allowed) {
				s.fail(&finding{"admission:known:wrong-error", fmt.Sprintf("resubmission of %v: %v", t, err)})
				return
			}
			continue
		}
		if rej := clearCutRejections(t, head, s.gasPrice, isLocal, known); len(rej) > 0 {
			s.run.Count("rejected:"+rej[0], 1)
			if err == nil {
				s.fail(&finding{"admission:" + rej[0] + ":accepted", fmt.Sprintf("%v must be refused (%s) but was accepted", t, strings.Join(rej, ","))})
				return
			}
			if !in(cls, rej) {
				s.fail(&finding{"admission:" + rej[0] + ":wrong-error", fmt.Sprintf("%v must be refused as %s, got %q", t, strings.Join(rej, ","), err.Error())})
				return
			}
			continue
		}
		allClearCut = false
		n := t.slots()
		multi := ""
		if n > 1 {
			multi = "_multislot"
			s.run.Count("multislot_valid_submissions", 1)
			if err == nil {
				s.run.Count("multislot_accepted", 1)
			}
		}
		upperSlots += n
		if upperSlots > limit {
			mayBeFull = true
		}
		old := occupant[k]
		if !s.lifetime && !madeRoom {
			// ---- the model knows the exact content ----
			if modelSlots+n <= limit {
				// room without discarding anything
				if !bumpRule(t, old, err, cls, false, "pool not full") {
					return
				}
				if err == nil {
					if old != nil {
						modelSlots -= old.slots()
					}
					modelSlots += n
					occupant[k] = t
					if viaLocal && !s.noLocals {
						if inPending[k] && !localNow[t.from.addr] {
							// replacement of a pending transaction: the transaction is flagged, the sender is not recorded
							flagged[t.hash] = true
							s.run.Count("local_submissions_replacing_pending_sender_not_recorded", 1)
						} else {
							localNow[t.from.addr] = true
						}
					}
				}
				continue
			}
			// ---- first make-room step of the call: strict admission decision ----
			madeRoom, mayBeFull = true, true
			uncertain[k] = true
			need := modelSlots + n - limit
			fv := fullPoolVerdict(t, isLocal, occupant, exemptNow, need)
			s.run.Count("full_pool_arrivals_judged"+multi, 1)
			if modelSlots < limit {
				// occupancy within n-1 slots of the limit: only a multi-slot transaction gets here
				s.run.Count("multislot_arrivals_pool_almost_full", 1)
				s.run.Distinct("multislot_almost_full_shapes", fmt.Sprintf("free%d/slots%d/local%v/%s", limit-modelSlots, n, isLocal, fv.must))
			}
			mig, migCheaper := 0, 0
			for _, o := range occupant {
				if s.migrated[o.hash] && localNow[o.from.addr] {
					mig++
					if o.price.Cmp(t.price) < 0 && (fv.cheapest == nil || o.price.Cmp(fv.cheapest) < 0) {
						migCheaper++
					}
				}
			}
			if modelSlots < limit && !isLocal {
				switch fv.must {
				case rjPrice:
					s.run.Count("multislot_almost_full_refused_underpriced", 1)
				case "":
					s.run.Count("multislot_almost_full_room_made", 1)
				}
			}
			if mig > 0 {
				s.run.Count("full_pool_arrivals_with_migrated_txs_in_pool", 1)
			}
			if migCheaper > 0 {
				s.run.Count("full_pool_arrivals_migrated_tx_is_cheapest", 1)
			}
			switch {
			case isLocal:
				if cls == rjPrice {
					s.fail(&finding{"local-rejected-underpriced", fmt.Sprintf("local %v refused for its price", t)})
					return
				}
				if cls == "pool-full" {
					s.fail(&finding{"local-refused-pool-full", fmt.Sprintf("local %v refused with %q: a local submission is admitted by force (first make-room step since the last reorg run)", t, err.Error())})
					return
				}
				s.run.Count("full_pool_local_forced"+multi, 1)
				if !bumpRule(t, old, err, cls, old != nil && !exemptNow(old), "pool full, local") {
					return
				}
			case fv.must == rjPrice:
				s.run.Count("full_pool_refused_underpriced"+multi, 1)
				if err == nil {
					s.fail(&finding{"admission:underpriced-into-full-pool:accepted", fmt.Sprintf("%v (%d slots) pays no more than the cheapest of the %d non-exempt transactions (%v) of a pool holding %d of %d slots: it must be refused as underpriced but was accepted", t, n, fv.remotes, fv.cheapest, modelSlots, limit)})
					return
				}
				if cls != rjPrice {
					s.fail(&finding{"admission:underpriced-into-full-pool:wrong-error", fmt.Sprintf("%v (%d slots) pays no more than the cheapest non-exempt transaction (%v) of a full pool (%d of %d slots): must be refused as underpriced, got %q", t, n, fv.cheapest, modelSlots, limit, err.Error())})
					return
				}
			case fv.must == "pool-full":
				s.run.Count("full_pool_refused_no_room"+multi, 1)
				if err == nil {
					s.fail(&finding{"admission:no-room:accepted", fmt.Sprintf("%v needs %d more slots, the %d non-exempt transactions hold only %d: it must be refused (pool full) but was accepted", t, need, fv.remotes, fv.remoteSlots)})
					return
				}
				if cls != "pool-full" {
					s.fail(&finding{"admission:no-room:wrong-error", fmt.Sprintf("%v needs %d more slots, the %d non-exempt transactions hold only %d: must be refused as pool full, got %q", t, need, fv.remotes, fv.remoteSlots, err.Error())})
					return
				}
			default:
				s.run.Count("full_pool_room_made"+multi, 1)
				if cls == rjPrice {
					s.fail(&finding{"valid-tx-rejected:underpriced-above-cheapest", fmt.Sprintf("%v pays more than the cheapest non-exempt transaction (%v) of the full pool but was refused as underpriced", t, fv.cheapest)})
					return
				}
				if cls == "pool-full" {
					s.fail(&finding{"valid-tx-rejected:pool-full-with-room-to-make", fmt.Sprintf("%v needs %d more slots, non-exempt cheaper-first discards could free %d, yet it was refused with %q (first make-room step since the last reorg run)", t, need, fv.remoteSlots, err.Error())})
					return
				}
				if !bumpRule(t, old, err, cls, old != nil && !exemptNow(old), "pool full, room can be made") {
					return
				}
			}
			if err == nil {
				occupant[k] = t
			}
			continue
		}
		// ---- content not exactly known: expiry history, or the pool has made room before ----
		if mayBeFull || uncertain[k] {
			// capacity-dependent: the pool may evict before it decides (DESIGN calibration)
			s.run.Count("capacity_dependent_submissions", 1)
			uncertain[k] = true
			if err != nil && cls != rjPrice && cls != "pool-full" && cls != "replace-underpriced" {
				s.fail(&finding{"valid-tx-rejected:" + cls, fmt.Sprintf("valid %v refused with %q", t, err.Error())})
				return
			}
			if err != nil && isLocal && cls == rjPrice {
				s.fail(&finding{"local-rejected-underpriced", fmt.Sprintf("local %v refused for its price", t)})
				return
			}
			if err == nil {
				occupant[k] = t
			}
			continue
		}
		if !bumpRule(t, old, err, cls, false, "pool not full") {
			return
		}
		if err == nil {
			occupant[k] = t
		}
	}
	if allClearCut && !s.lifetime && !sameContent(pre, imm) {
		s.fail(&finding{"rejected-submission-changed-pool", "every transaction of the call was refused, yet the pool content changed"})
		return
	}
	if allClearCut {
		s.run.Count("calls_all_refused", 1)
	}
	s.fixpoint()
	post := s.check(true)
	if post == nil {
		return
	}
	s.transition(post, accepted, nil, nil, false, nil)
	s.noteRoleSwitches(pre, post)
	s.pre = post
}

// noteRoleSwitches records the senders that became local in the operation just judged, and
// which of their transactions were in the pool as remote ones at that moment ("migrated":
// from then on they are exempt like any other transaction of a local sender).
func (s *session) noteRoleSwitches(pre, post *view) {
	for a := range post.locals {
		if pre.locals[a] {
			continue
		}
		s.run.Count("role_switches", 1)
		s.switched[a] = true
		remotes, m := 0, 0
		for h := range pre.where {
			t := s.byHash[h]
			switch {
			case t.from.addr != a:
				if !pre.exempt(t) {
					remotes++
				}
			case post.has(h) && !pre.localTx[h]:
				s.migrated[h] = true
				m++
			}
		}
		if m > 0 {
			s.run.Count("role_switches_with_remote_txs_in_pool", 1)
			s.run.Count("migrated_txs", m)
			if m > 4 {
				m = 4
			}
			s.run.Distinct("role_switch_shapes", fmt.Sprintf("migrated%d/other_remotes%d", m, remotes))
		}
	}
}

// migratedIn lists the migrated transactions a view holds (sender still local).
func (s *session) migratedIn(v *view) []*txrec {
	var out []*txrec
	for h := range v.where {
		if t := s.byHash[h]; s.migrated[h] && v.locals[t.from.addr] {
			out = append(out, t)
		}
	}
	return out
}

func (s *session) doHead(op *opSpec) {
	cur := s.ch.Head()
	parent := cur
	for i := 0; i < op.Back && parent.parent != nil; i++ {
		parent = parent.parent
	}
	st := copyState(parent.st)
	var included []*txrec
	if op.Back == 0 {
		for ai, k := range op.Mine {
			a := accounts[ai].addr
			l := s.pre.pending[a]
			for i := 0; i < k && i < len(l); i++ {
				included = append(included, l[i])
			}
		}
	} else if op.Remine {
		// include again, on the new branch, the leading discarded transactions of each account
		disc := branchTxs(cur, parent)
		sort.Slice(disc, func(i, j int) bool { return disc[i].nonce < disc[j].nonce })
		next := map[common.Address]uint64{}
		for _, t := range disc {
			a := t.from.addr
			if _, ok := next[a]; !ok {
				next[a] = st[a].nonce
			}
			if t.nonce == next[a] && t.cost().Cmp(st[a].bal) <= 0 {
				included = append(included, t)
				next[a]++
			}
		}
	}
	for _, t := range included {
		v := st[t.from.addr]
		v.nonce = t.nonce + 1
		v.bal = new(big.Int).Sub(v.bal, t.cost())
		if v.bal.Sign() < 0 {
			v.bal = new(big.Int)
		}
		st[t.from.addr] = v
	}
	var mv []string
	for _, m := range op.Moves {
		a := accounts[m.Acct].addr
		v := st[a]
		n := int64(v.nonce) + m.DNonce
		if n < 0 {
			n = 0
		}
		v.nonce = uint64(n)
		if m.Bal != nil {
			v.bal = new(big.Int).Set(m.Bal)
		}
		st[a] = v
		mv = append(mv, fmt.Sprintf("a%d nonce=%d bal=%v", m.Acct, v.nonce, v.bal))
	}
	gl := parent.gasLimit
	if op.GasLimit != 0 {
		gl = op.GasLimit
	}
	nb := s.ch.makeBlock(parent, parent.height+1, gl, st, included)
	for i := 0; i < op.Extend; i++ {
		nb = s.ch.makeBlock(nb, nb.height+1, gl, copyState(st), nil)
	}
	cands := branchTxs(s.lastEv, nb)
	var inc []string
	for _, t := range included {
		inc = append(inc, fmt.Sprintf("#%d", t.id))
	}
	s.logf("head event=%v back=%d height=%d gaslimit=%d mined=%v moves=%v reinjectable=%d", op.Event, op.Back, nb.height, gl, inc, mv, len(cands))
	if op.Event {
		if !s.ch.announce(nb) {
			s.run.Inconclusive("watchdog: pool did not process a ChainHeadEvent within 60s")
			s.dead = true
			return
		}
		s.lastEv = nb
		s.events++
		s.run.Count("op:head:event", 1)
		if op.Back > 0 {
			s.run.Count("op:head:event:reorg", 1)
		}
	} else {
		cands = nil
		s.ch.setHead(nb)
		s.pool.VerifWaitReorg()
		s.run.Count("op:head:silent", 1)
	}
	if len(included) > 0 {
		s.run.Count("blocks_with_mined_txs", 1)
	}
	if s.check(false) == nil {
		return
	}
	s.fixpoint()
	post := s.check(true)
	if post == nil {
		return
	}
	for _, t := range cands {
		if post.has(t.hash) && !s.pre.has(t.hash) {
			s.run.Count("reinjected_txs", 1)
		}
	}
	s.transition(post, nil, cands, nil, true, nil)
	s.pre = post
}

func (s *session) doPrice(op *opSpec) {
	p := big.NewInt(op.Price)
	var maxPrice *big.Int
	if p.Cmp(s.gasPrice) > 0 {
		maxPrice = p
		s.run.Count("op:price:up", 1)
	} else {
		s.run.Count("op:price:down", 1)
	}
	s.pool.SetGasPrice(p)
	s.gasPrice = p
	s.logf("setgasprice %v", p)
	if got := s.pool.GasPrice(); got.Cmp(p) != 0 {
		s.fail(&finding{"api-mismatch:gasprice", fmt.Sprintf("GasPrice() = %v after SetGasPrice(%v)", got, p)})
		return
	}
	if s.check(false) == nil {
		return
	}
	s.fixpoint()
	post := s.check(true)
	if post == nil {
		return
	}
	s.transition(post, nil, nil, maxPrice, true, nil)
	if maxPrice != nil {
		// the exemption at work for senders that became local: their transactions from the remote
		// days that pay less than the new threshold (transition has judged the ones that left)
		below, spared := 0, 0
		for _, t := range s.migratedIn(s.pre) {
			if t.price.Cmp(maxPrice) < 0 {
				below++
				if post.has(t.hash) {
					spared++
				}
			}
		}
		if below > 0 {
			s.run.Count("price_raises_over_migrated_txs", 1)
			s.run.Count("price_raises_migrated_txs_spared", spared)
		}
	}
	s.pre = post
}

func (s *session) doReload() {
	if s.cfg.Journal == "" {
		return
	}
	for a := range s.pre.locals {
		s.everLoc[a] = true
	}
	s.pool.Stop()
	s.pool = nil
	s.newPool()
	if s.dead {
		return
	}
	s.logf("journal reload into a new pool")
	s.run.Count("op:reload", 1)
	if s.check(false) == nil {
		return
	}
	s.fixpoint()
	post := s.check(true)
	if post == nil {
		return
	}
	restored := 0
	for h := range post.where {
		t := s.byHash[h]
		if !s.everLoc[t.from.addr] || !s.everAcc[h] {
			s.fail(&finding{"reload-restored-foreign-tx", fmt.Sprintf("%v came back from the journal although it was never an accepted transaction of a local sender", t)})
			return
		}
		if !post.locals[t.from.addr] {
			s.fail(&finding{"reload-lost-local-status", fmt.Sprintf("%v was reloaded from the journal but its sender is not local", t)})
			return
		}
		restored++
	}
	s.run.Count("reload_restored_txs", restored)
	s.pre = post
}

func (s *session) doExpire() {
	time.Sleep(tinyLife + 4*evictTick)
	s.logf("wait for lifetime expiry")
	s.run.Count("op:expire", 1)
	post := s.check(false)
	if post == nil {
		return
	}
	for h, p := range s.pre.where {
		if !post.has(h) && p.list == 'q' {
			s.run.Count("expired_txs", 1)
		}
	}
	s.fixpoint()
	if post = s.check(true); post == nil {
		return
	}
	s.transition(post, nil, nil, nil, false, nil)
	s.pre = post
}

func (s *session) exec(op *opSpec) {
	if s.dead {
		return
	}
	s.run.Eval(1)
	switch op.Kind {
	case "add":
		s.doAdd(op)
	case "head":
		s.doHead(op)
	case "price":
		s.doPrice(op)
	case "reload":
		s.doReload()
	case "expire":
		s.doExpire()
	}
	if !s.dead && s.pre != nil {
		s.run.Distinct("pool_shapes", s.pre.fingerprint())
	}
}

type sessionOpts struct {
	lifetime, noLocals, presetLocal, journal bool
	reheapObs                                bool
	priceLimit                               uint64
	genesisHeight                            uint64
	lim                                      limits
}

func newSession(c *core.Case, o sessionOpts) *session {
	s := &session{c: c, run: c.Run, lim: o.lim, lifetime: o.lifetime, noLocals: o.noLocals,
		byHash: map[common.Hash]*txrec{}, everAcc: map[common.Hash]bool{}, everLoc: map[common.Address]bool{},
		reheapObs: o.reheapObs, migrated: map[common.Hash]bool{}, switched: map[common.Address]bool{}}
	cfg := tx_pool.DefaultTxPoolConfig
	cfg.Journal = ""
	cfg.Rejournal = time.Hour
	cfg.NoLocals = o.noLocals
	cfg.PriceLimit = o.priceLimit
	cfg.PriceBump = o.lim.PriceBump
	cfg.AccountSlots, cfg.GlobalSlots, cfg.AccountQueue, cfg.GlobalQueue = o.lim.AccountSlots, o.lim.GlobalSlots, o.lim.AccountQueue, o.lim.GlobalQueue
	cfg.Lifetime = time.Hour
	if o.lifetime {
		cfg.Lifetime = tinyLife
	}
	if o.presetLocal && !o.noLocals {
		cfg.Locals = []common.Address{accounts[0].addr}
	}
	if o.journal && !o.noLocals {
		d, err := os.MkdirTemp("", "c17journal")
		if err != nil {
			c.Run.Inconclusive("mkdtemp: " + err.Error())
			s.dead = true
			return s
		}
		s.dir = d
		cfg.Journal = filepath.Join(d, "transactions.rlp")
	}
	s.cfg = cfg
	st := map[common.Address]acct{}
	for _, a := range accounts {
		st[a.addr] = acct{0, new(big.Int).Set(richBal)}
	}
	s.ch = newChain(o.genesisHeight, defGasLimit, st, uint64(c.I)<<20)
	s.newPool()
	if s.dead {
		return s
	}
	s.fixpoint()
	s.pre = s.check(true)
	return s
}
