package c17

import (
	"fmt"
	"math/big"
	"math/rand"
	"os"
	"path/filepath"
	"runtime"
	"sort"
	"strings"
	"sync"
	"sync/atomic"
	"time"

	"github.com/kardiachain/go-kardia/configs"
	"github.com/kardiachain/go-kardia/kai/events"
	"github.com/kardiachain/go-kardia/lib/common"
	"github.com/kardiachain/go-kardia/mainchain/tx_pool"
	"github.com/kardiachain/go-kardia/types"

	"verifharness/core"
)

// ---- concurrent histories: every call recorded, conservation judged at quiescence ----

const nConc = 6 // senders of the concurrent histories

var concAccts []*account

func concSetup() {
	if concAccts != nil {
		return
	}
	for i := 0; i < nConc; i++ {
		a := makeAccount(10 + i)
		a.idx = i
		concAccts = append(concAccts, a)
	}
}

type callRec struct {
	G     int
	API   string
	Txs   []*txrec
	Call  int64
	Ret   int64
	Errs  []error
	Price int64
}

type headRec struct {
	sent, done int64
	b          *blk
}

type concRun struct {
	c        *core.Case
	lim      limits
	ch       *chain
	pool     *tx_pool.TxPool
	clock    int64
	hint     [nConc]uint64 // state nonce of the current head, for the submitters
	idSeq    int64
	progress int64 // submitter calls completed
	total    int64 // submitter calls planned

	mu         sync.Mutex
	calls      []*callRec
	heads      []headRec
	localSince map[common.Address]int64
	lastSeen   map[common.Hash]int64
	byHash     map[common.Hash]*txrec
	obsErr     *finding
	snapshots  int
}

func (cr *concRun) tick() int64 { return atomic.AddInt64(&cr.clock, 1) }

func (cr *concRun) newTx(r *rand.Rand, g int, localCall bool) *txrec {
	ai := r.Intn(nConc)
	if localCall {
		ai = r.Intn(2) // only senders 0 and 1 ever use the local entry points: 2..5 stay remote
	}
	a := concAccts[ai]
	id := int(atomic.AddInt64(&cr.idSeq, 1))
	nonce := atomic.LoadUint64(&cr.hint[ai]) + uint64(r.Intn(7))
	if r.Intn(12) == 0 && nonce > 0 {
		nonce--
	}
	price := big.NewInt(10 * int64(10+r.Intn(51)))
	gas, val, dl, chain := uint64(30000), big.NewInt(100), 0, "plain"
	switch x := r.Intn(100); {
	case x < 4:
		chain = "foreign"
	case x < 7:
		val = big.NewInt(-5)
	case x < 9:
		dl, gas = maxTxBytes+10, 900000
	case x < 12:
		a = accounts[blackIdx]
		nonce = 0
	case x < 16:
		chain = "own"
	case x < 21: // two to four slots
		dl = slotsData(2+r.Intn(3), 100)
		gas = zeroGas(dl) + 1000
	}
	t := buildTx(cr.c.I*100000+id, a, nonce, price, gas, val, dl, 0, chain)
	t.black = a == accounts[blackIdx]
	if t.value.Sign() >= 0 {
		cr.mu.Lock()
		cr.byHash[t.hash] = t
		cr.mu.Unlock()
	}
	return t
}

func (cr *concRun) submitter(g int, r *rand.Rand, calls int, out *[]*callRec) {
	var mine []*txrec
	for i := 0; i < calls; i++ {
		n := 1 + r.Intn(3)
		rec := &callRec{G: g}
		api := []string{"AddRemotes", "AddRemotes", "AddRemotesSync", "AddLocals", "AddRemote", "AddLocal"}[r.Intn(6)]
		if g >= 2 && (api == "AddLocals" || api == "AddLocal") && r.Intn(4) != 0 {
			api = "AddRemotes" // most local traffic comes from submitters 0 and 1
		}
		localCall := api == "AddLocals" || api == "AddLocal"
		if api == "AddRemote" || api == "AddLocal" {
			n = 1
		}
		for j := 0; j < n; j++ {
			if len(mine) > 0 && r.Intn(10) == 0 {
				if t := mine[r.Intn(len(mine))]; !localCall || (t.from.idx < 2 && !t.black) {
					rec.Txs = append(rec.Txs, t) // resubmission
					continue
				}
			}
			t := cr.newTx(r, g, localCall)
			mine = append(mine, t)
			rec.Txs = append(rec.Txs, t)
		}
		raw := make([]*types.Transaction, len(rec.Txs))
		for j, t := range rec.Txs {
			raw[j] = t.tx
		}
		rec.API = api
		rec.Call = cr.tick()
		switch api {
		case "AddRemotes":
			rec.Errs = cr.pool.AddRemotes(raw)
		case "AddRemotesSync":
			rec.Errs = cr.pool.AddRemotesSync(raw)
		case "AddLocals":
			rec.Errs = cr.pool.AddLocals(raw)
		case "AddRemote":
			rec.Errs = []error{cr.pool.AddRemote(raw[0])}
		case "AddLocal":
			rec.Errs = []error{cr.pool.AddLocal(raw[0])}
		}
		rec.Ret = cr.tick()
		atomic.AddInt64(&cr.progress, 1)
		*out = append(*out, rec)
		if r.Intn(3) == 0 {
			runtime.Gosched()
		}
	}
}

// headProducer mines blocks out of what the pool offers, forks now and then, moves balances,
// and publishes every head as a real ChainHeadEvent (one in flight at a time).
// pace spreads the rounds of a background actor over the submitters' run.
func (cr *concRun) pace(i, rounds int) {
	for atomic.LoadInt64(&cr.progress) < cr.total*int64(i)/int64(rounds) {
		time.Sleep(200 * time.Microsecond)
	}
}

func (cr *concRun) headProducer(r *rand.Rand, rounds int) bool {
	for i := 0; i < rounds; i++ {
		cr.pace(i, rounds)
		cur := cr.ch.Head()
		parent := cur
		fork := r.Intn(5) == 0 && cur.parent != nil
		if fork {
			parent = cur.parent
		}
		st := copyState(parent.st)
		var included []*txrec
		if !fork {
			pend, _ := cr.pool.Pending()
			for _, a := range concAccts {
				next := st[a.addr].nonce
				k := r.Intn(3)
				for _, tx := range pend[a.addr] {
					if k == 0 || tx.Nonce() != next {
						break
					}
					cr.mu.Lock()
					t := cr.byHash[tx.Hash()]
					cr.mu.Unlock()
					if t == nil || t.cost().Cmp(st[a.addr].bal) > 0 {
						break
					}
					included = append(included, t)
					v := st[a.addr]
					v.nonce, v.bal = next+1, new(big.Int).Sub(v.bal, t.cost())
					st[a.addr] = v
					next++
					k--
				}
			}
		}
		if r.Intn(4) == 0 {
			a := concAccts[1+r.Intn(nConc-1)].addr
			v := st[a]
			v.bal = big.NewInt(balances[r.Intn(len(balances))])
			if r.Intn(2) == 0 {
				v.bal = new(big.Int).Set(richBal)
			}
			st[a] = v
		}
		nb := cr.ch.makeBlock(parent, parent.height+1, defGasLimit, st, included)
		sent := cr.tick()
		if !cr.ch.announce(nb) {
			return false
		}
		for j, a := range concAccts {
			atomic.StoreUint64(&cr.hint[j], st[a.addr].nonce)
		}
		cr.mu.Lock()
		cr.heads = append(cr.heads, headRec{sent, cr.tick(), nb})
		cr.mu.Unlock()
		time.Sleep(time.Duration(100+r.Intn(400)) * time.Microsecond)
	}
	return true
}

func (cr *concRun) priceChanger(r *rand.Rand, rounds int, out *[]*callRec) {
	for i := 0; i < rounds; i++ {
		cr.pace(i, rounds)
		p := gasPrices[r.Intn(len(gasPrices))]
		rec := &callRec{API: "SetGasPrice", Price: p, Call: cr.tick()}
		cr.pool.SetGasPrice(big.NewInt(p))
		rec.Ret = cr.tick()
		*out = append(*out, rec)
		_ = cr.pool.GasPrice()
		time.Sleep(time.Duration(100+r.Intn(600)) * time.Microsecond)
	}
}

// observer reads the pool through every public view while the others write; each atomic
// view must be consistent in itself (state-independent part of the structural invariants).
func (cr *concRun) observer(stop *int32) {
	note := func(key, what string) {
		cr.mu.Lock()
		if cr.obsErr == nil {
			cr.obsErr = &finding{key, what}
		}
		cr.mu.Unlock()
	}
	for atomic.LoadInt32(stop) == 0 {
		pend, queued := cr.pool.Content()
		seen := map[common.Hash]bool{}
		for a, l := range pend {
			for i, tx := range l {
				if i > 0 && tx.Nonce() != l[i-1].Nonce()+1 {
					note("pending-gap", fmt.Sprintf("concurrent Content(): pending of %x jumps from nonce %d to %d", a[:3], l[i-1].Nonce(), tx.Nonce()))
				}
				seen[tx.Hash()] = true
			}
		}
		for _, l := range queued {
			for _, tx := range l {
				if seen[tx.Hash()] {
					note("tx-pending-and-queued", fmt.Sprintf("concurrent Content(): %x is pending and queued", tx.Hash().Bytes()[:4]))
				}
				seen[tx.Hash()] = true
			}
		}
		ix := cr.pool.VerifView() // read-only hook (VerifSnapshot re-heaps the price list: not while others run)
		listed := 0
		for _, m := range []map[common.Address][]common.Hash{ix.Pending, ix.Queue} {
			for _, l := range m {
				for _, h := range l {
					listed++
					if _, ok := ix.All[h]; !ok {
						note("listed-not-indexed", fmt.Sprintf("concurrent snapshot: %x listed but not indexed", h[:4]))
					}
				}
			}
		}
		if listed != len(ix.All) {
			note("indexed-not-listed", fmt.Sprintf("concurrent snapshot: %d listed, %d indexed", listed, len(ix.All)))
		}
		// slot limit in every atomic view: above it the pool may hold exempt transactions only
		slots, remotes := 0, 0
		cr.mu.Lock()
		for h, local := range ix.All {
			if t := cr.byHash[h]; t != nil {
				slots += t.slots()
			}
			if !local {
				remotes++
			}
		}
		cr.mu.Unlock()
		if limit := int(cr.lim.GlobalSlots + cr.lim.GlobalQueue); slots > limit && remotes > 0 {
			note("slot-limit-exceeded", fmt.Sprintf("concurrent snapshot: the pool holds %d slots, limit GlobalSlots+GlobalQueue = %d, %d of its %d transactions are not exempt", slots, limit, remotes, len(ix.All)))
		} else if remotes > 0 {
			cr.c.Run.Max(fmt.Sprintf("conc_slots_held_with_remote_txs:limit_%d", limit), int64(slots))
		}
		after := cr.tick() // the view was taken before this stamp
		cr.mu.Lock()
		cr.snapshots++
		for a := range ix.Locals {
			if _, ok := cr.localSince[a]; !ok {
				cr.localSince[a] = after // local in a view taken before `after`: local for every later call
			}
		}
		for h := range ix.All {
			cr.lastSeen[h] = after
		}
		cr.mu.Unlock()
		// the remaining read-only API, for the race detector's benefit
		cr.pool.Stats()
		cr.pool.Locals()
		for _, a := range concAccts {
			cr.pool.Nonce(a.addr)
			cr.pool.ContentFrom(a.addr)
		}
		var hs []common.Hash
		for h := range seen {
			hs = append(hs, h)
			if len(hs) >= 8 {
				break
			}
		}
		cr.pool.Status(hs)
		for _, h := range hs {
			cr.pool.Get(h)
			cr.pool.Has(h)
		}
		time.Sleep(150 * time.Microsecond)
	}
}

// rpcReader plays a second API client (several RPC requests can be served at once).
func (cr *concRun) rpcReader(stop *int32) {
	for i := 0; atomic.LoadInt32(stop) == 0; i++ {
		a := concAccts[i%nConc]
		p, q := cr.pool.ContentFrom(a.addr)
		cr.pool.Nonce(a.addr)
		cr.pool.Stats()
		var hs []common.Hash
		for _, tx := range append(p, q...) {
			hs = append(hs, tx.Hash())
		}
		cr.pool.Status(hs)
		cr.pool.GasPrice()
		time.Sleep(100 * time.Microsecond)
	}
}

// guarded runs one case body under a watchdog: a pool that leaves a lock behind blocks
// the calling goroutine for ever. When the body does not return, the goroutine dump
// decides: somebody waiting for a lock inside tx_pool = violation, anything else =
// inconclusive. The stuck goroutine is abandoned.
func guarded(seconds int, fn func(c *core.Case)) func(c *core.Case) {
	return func(c *core.Case) {
		done := make(chan struct{})
		go func() {
			defer close(done)
			c.Guard("case "+c.Group, nil, func() { fn(c) })
		}()
		select {
		case <-done:
		case <-time.After(time.Duration(seconds) * time.Second):
			d := goroutineDump()
			if poolLockWaiter(d) {
				if len(d) > 20000 {
					d = d[:20000]
				}
				c.Violation("hang:pool-lock", fmt.Sprintf("case made no progress for %ds; a goroutine waits for a tx_pool lock", seconds), map[string]interface{}{"goroutines": d})
			} else {
				c.Run.Inconclusive(fmt.Sprintf("watchdog: case %s:%d did not finish within %ds", c.Group, c.I, seconds))
			}
		}
	}
}

func poolLockWaiter(dump string) bool {
	for _, g := range strings.Split(dump, "\n\n") {
		if strings.Contains(g, "mainchain/tx_pool.") && (strings.Contains(g, "RWMutex).Lock") || strings.Contains(g, "RWMutex).RLock") || strings.Contains(g, "Mutex).Lock")) {
			return true
		}
	}
	return false
}

func goroutineDump() string {
	buf := make([]byte, 1<<20)
	return string(buf[:runtime.Stack(buf, true)])
}

func concurrent(c *core.Case) {
	concSetup()
	r, run := c.R, c.Run
	lim := tight
	if r.Intn(2) == 0 {
		lim = limits{AccountSlots: 4, GlobalSlots: 16, AccountQueue: 6, GlobalQueue: 12, PriceBump: 10}
	}
	dir, err := os.MkdirTemp("", "c17conc")
	if err != nil {
		run.Inconclusive("mkdtemp: " + err.Error())
		return
	}
	defer os.RemoveAll(dir)
	cfg := tx_pool.DefaultTxPoolConfig
	cfg.Journal = filepath.Join(dir, "transactions.rlp")
	cfg.Rejournal = time.Hour
	cfg.PriceLimit = 1
	cfg.PriceBump = lim.PriceBump
	cfg.AccountSlots, cfg.GlobalSlots, cfg.AccountQueue, cfg.GlobalQueue = lim.AccountSlots, lim.GlobalSlots, lim.AccountQueue, lim.GlobalQueue
	cfg.Lifetime = time.Hour
	cfg.Locals = []common.Address{concAccts[0].addr}
	st := map[common.Address]acct{accounts[blackIdx].addr: {0, new(big.Int).Set(richBal)}}
	for _, a := range concAccts {
		st[a.addr] = acct{0, new(big.Int).Set(richBal)}
	}
	cr := &concRun{c: c, lim: lim, ch: newChain(1, defGasLimit, st, uint64(c.I)<<20),
		localSince: map[common.Address]int64{concAccts[0].addr: 0}, lastSeen: map[common.Hash]int64{}, byHash: map[common.Hash]*txrec{}}
	before := cr.ch.currentBlockCalls()
	cr.pool = tx_pool.NewTxPool(cfg, configs.TestChainConfig, cr.ch)
	for i := 0; cr.ch.currentBlockCalls() < before+2; i++ {
		time.Sleep(50 * time.Microsecond)
		if i > 400000 {
			run.Inconclusive("pool loop did not start")
			return
		}
	}
	// a subscriber, as the tx reactor has one
	evCh := make(chan events.NewTxsEvent, 64)
	sub := cr.pool.SubscribeNewTxsEvent(evCh)
	var announced int64
	evDone := make(chan struct{})
	go func() {
		defer close(evDone)
		for {
			select {
			case ev := <-evCh:
				atomic.AddInt64(&announced, int64(len(ev.Txs)))
			case <-sub.Err():
				return
			}
		}
	}()

	const submitters = 8
	callsPer := 30 + r.Intn(30)
	cr.total = int64(submitters * callsPer)
	seeds := make([]int64, submitters+2)
	for i := range seeds {
		seeds[i] = r.Int63()
	}
	outs := make([][]*callRec, submitters+1)
	var wg sync.WaitGroup
	var stop int32
	var obs sync.WaitGroup
	obs.Add(1)
	go func() { defer obs.Done(); cr.observer(&stop) }()
	obs.Add(1)
	go func() { defer obs.Done(); cr.rpcReader(&stop) }()
	for g := 0; g < submitters; g++ {
		wg.Add(1)
		go func(g int) {
			defer wg.Done()
			cr.submitter(g, rand.New(rand.NewSource(seeds[g])), callsPer, &outs[g])
		}(g)
	}
	headsOK := true
	wg.Add(2)
	go func() {
		defer wg.Done()
		headsOK = cr.headProducer(rand.New(rand.NewSource(seeds[submitters])), 12+r.Intn(14))
	}()
	go func() {
		defer wg.Done()
		cr.priceChanger(rand.New(rand.NewSource(seeds[submitters+1])), 20, &outs[submitters])
	}()

	// everything below may block for ever if the pool left a lock behind: watchdog
	finished := make(chan struct{})
	var final *tx_pool.VerifIndex
	var finalErr error
	unlocked := false
	go func() {
		defer close(finished)
		wg.Wait()
		atomic.StoreInt32(&stop, 1)
		obs.Wait()
		if !headsOK {
			return
		}
		cr.pool.VerifWaitReorg()
		cr.pool.VerifWaitReorg()
		final, finalErr = cr.pool.VerifSnapshot()
		for i := 0; i < 2000 && !unlocked; i++ { // the eviction tick takes the lock every few ms: retry
			unlocked = cr.pool.VerifTryLock()
			if !unlocked {
				time.Sleep(500 * time.Microsecond)
			}
		}
	}()
	select {
	case <-finished:
	case <-time.After(240 * time.Second):
		d := goroutineDump()
		blocked := poolLockWaiter(d)
		if len(d) > 20000 {
			d = d[:20000]
		}
		if blocked {
			c.Violation("hang:pool-lock", "concurrent history did not reach quiescence within 240s; a goroutine waits for a tx_pool lock", map[string]interface{}{"goroutines": d})
		} else {
			run.Inconclusive(fmt.Sprintf("watchdog: concurrent case %d did not reach quiescence within 240s", c.I))
		}
		return // the pool is left behind; the process ends soon
	}
	defer func() {
		sub.Unsubscribe()
		cr.pool.Stop()
		<-evDone
	}()
	if !headsOK {
		run.Inconclusive("watchdog: pool did not process a ChainHeadEvent within 60s (concurrent history)")
		return
	}
	run.Eval(1)

	// ---- judgement ----
	var calls []*callRec
	for _, o := range outs {
		calls = append(calls, o...)
	}
	sort.Slice(calls, func(i, j int) bool { return calls[i].Call < calls[j].Call })
	head := cr.ch.Head()
	witness := func() interface{} {
		var cl []string
		for _, k := range calls {
			if k.API == "SetGasPrice" {
				cl = append(cl, fmt.Sprintf("[%d,%d] SetGasPrice(%d)", k.Call, k.Ret, k.Price))
				continue
			}
			var ts []string
			for i, t := range k.Txs {
				e := "ok"
				if k.Errs[i] != nil {
					e = k.Errs[i].Error()
				}
				ts = append(ts, fmt.Sprintf("%v -> %s", t, e))
			}
			cl = append(cl, fmt.Sprintf("[%d,%d] g%d %s %s", k.Call, k.Ret, k.G, k.API, strings.Join(ts, "; ")))
		}
		var hl []string
		for _, h := range cr.heads {
			var stt []string
			for _, a := range concAccts {
				stt = append(stt, fmt.Sprintf("a%d:%d/%v", a.idx, h.b.nonce(a.addr), h.b.bal(a.addr)))
			}
			hl = append(hl, fmt.Sprintf("[%d,%d] height %d txs %d %s", h.sent, h.done, h.b.height, len(h.b.txs), strings.Join(stt, " ")))
		}
		if len(cl) > 400 {
			cl = append(cl[:200], cl[len(cl)-200:]...)
		}
		return map[string]interface{}{"limits": lim, "calls": cl, "heads": hl}
	}
	fail := func(f *finding) { c.Violation(f.key, f.what, witness()) }
	if cr.obsErr != nil {
		fail(cr.obsErr)
		return
	}
	if !unlocked {
		fail(&finding{"mutex-left-locked", "the pool mutex cannot be acquired at quiescence"})
		return
	}
	// final view through the sequential machinery
	s := &session{c: c, run: run, lim: lim, ch: cr.ch, pool: cr.pool, byHash: cr.byHash}
	v, f := s.observe(false)
	_ = final
	if f == nil && finalErr != nil {
		f = &finding{"internal:final-snapshot", finalErr.Error()}
	}
	if f == nil {
		f = checkStructural(v, head)
	}
	if f == nil {
		f = checkSlots(v, lim)
	}
	if f == nil {
		f = checkLimits(v, head, lim)
	}
	if f == nil {
		s.lifetime = false
		// accounts of the concurrent histories are not the ones crossCheck iterates over; the
		// list/stat/status comparisons are account-independent
		f = s.crossCheckWith(v, concAccts)
	}
	if f != nil {
		fail(f)
		return
	}
	// conservation
	type info struct {
		t        *txrec
		accepted bool
		firstOK  int64 // call stamp of the first accepting call
		lastOK   int64
		rejected int
	}
	infos := map[*txrec]*info{}
	get := func(t *txrec) *info {
		if infos[t] == nil {
			infos[t] = &info{t: t}
		}
		return infos[t]
	}
	maxPrice := int64(0)
	bySlot := map[slotKey][]*txrec{}
	nAccepted := 0
	for _, k := range calls {
		if k.API == "SetGasPrice" {
			if k.Price > maxPrice {
				maxPrice = k.Price
			}
			continue
		}
		for i, t := range k.Txs {
			in := get(t)
			err := k.Errs[i]
			cls := errClass(err)
			// state-independent refusals are exact even under concurrency
			want := ""
			switch {
			case t.chain == "foreign":
				want = rjSender
			case t.black:
				want = rjBlack
			case t.value.Sign() < 0:
				want = rjNegative
			case t.encSize > maxTxBytes:
				want = rjOversized
			}
			if want != "" {
				run.Count("conc_rejected:"+want, 1)
				if cls != want {
					fail(&finding{"admission:" + want + ":concurrent", fmt.Sprintf("%v must be refused as %s, got %q", t, want, fmt.Sprint(err))})
					return
				}
				continue
			}
			if err == nil {
				if !in.accepted {
					in.accepted, in.firstOK = true, k.Call
					nAccepted++
					bySlot[slotKey{t.from.addr, t.nonce}] = append(bySlot[slotKey{t.from.addr, t.nonce}], t)
				}
				in.lastOK = k.Call
			} else {
				in.rejected++
				run.Count("conc_refused:"+cls, 1)
			}
		}
	}
	run.Count("conc_calls", len(calls))
	run.Count("conc_accepted_txs", nAccepted)
	run.Count("conc_head_events", len(cr.heads))
	run.Count("conc_observer_snapshots", cr.snapshots)
	run.Count("conc_announced_txs", int(atomic.LoadInt64(&announced)))
	mined := map[common.Hash]bool{}
	for _, h := range cr.heads {
		for _, t := range h.b.txs {
			mined[t.hash] = true
			bySlot[slotKey{t.from.addr, t.nonce}] = append(bySlot[slotKey{t.from.addr, t.nonce}], t)
		}
	}
	for h := range v.where {
		t := cr.byHash[h]
		if in := infos[t]; (in == nil || !in.accepted) && !mined[h] {
			fail(&finding{"refused-tx-in-pool", fmt.Sprintf("%v is in the pool although no call accepted it", t)})
			return
		}
	}
	for _, in := range infos {
		if !in.accepted {
			continue
		}
		t := in.t
		if v.has(t.hash) {
			run.Count("conc_final:present", 1)
			continue
		}
		a := t.from.addr
		why := ""
		// heads the pool was reset to after the transaction was accepted (plus the one before)
		for _, h := range cr.heads {
			if h.done < in.firstOK {
				continue
			}
			if t.nonce < h.b.nonce(a) {
				why = "mined"
				break
			}
			if t.cost().Cmp(h.b.bal(a)) > 0 || t.gas > h.b.gasLimit {
				why = "unpayable"
				break
			}
		}
		if why == "" {
			for _, o := range bySlot[slotKey{a, t.nonce}] {
				if o != t && bumpVerdict(t.price, o.price, lim.PriceBump) >= 0 {
					why = "replaced"
					break
				}
			}
		}
		since, isLocal := cr.localSince[a]
		protected := isLocal && (in.lastOK > since || cr.lastSeen[t.hash] > since)
		if why == "" && !protected {
			if t.price.Cmp(big.NewInt(maxPrice)) < 0 {
				why = "price"
			} else {
				why = "capacity" // non-local: any limit rule may have chosen it (exact choice out of reach)
			}
		}
		if why == "" {
			fail(&finding{"local-tx-evicted", fmt.Sprintf("%v of local sender a%d was accepted (call stamp %d, sender local since %d) and is gone at quiescence though never mined, unpayable or replaced", t, t.from.idx, in.lastOK, since)})
			return
		}
		run.Count("conc_final:"+why, 1)
		if protected {
			run.Count("conc_final_local:"+why, 1)
		}
	}
	if nAccepted >= 20 && len(cr.heads) > 0 {
		run.Nontrivial(fmt.Sprint("concurrent", c.I))
	}
	if c.I == 0 {
		p, q := v.count()
		run.Sample(map[string]interface{}{"group": c.Group, "case": 0, "calls": len(calls), "accepted": nAccepted, "heads": len(cr.heads), "final_pending": p, "final_queued": q})
	}
}
