package c15

import (
	"fmt"
	"os"
	"path/filepath"
	"time"

	"github.com/kardiachain/go-kardia/consensus"
	"github.com/kardiachain/go-kardia/lib/autofile"

	"verifharness/core"
)

// Group encoder: a rotation may come between any two Write calls the encoder makes on the group (in production the
// group's ticker goroutine takes the group's lock whenever it fires). The real encoder writes through a wrapper that
// runs the group's limit check after EVERY Write call, with a head limit of a few records. Afterwards every file of
// the group must start and end at a record boundary (reference parser), and the real strict search - which opens each
// file from its start - must find every marker that was written.

type rotWriter struct {
	w     *consensus.BaseWAL
	calls int
}

func (x *rotWriter) Write(p []byte) (int, error) {
	n, err := x.w.Group().Write(p)
	x.calls++
	x.w.FlushAndSync()
	x.w.Group().VerifCheckLimits()
	return n, err
}

func encoderCase(c *core.Case) {
	r, run := c.R, c.Run
	g := &gen{r: r}
	list := g.list(15 + r.Intn(40))
	dir, err := scratchDir("verif-c15-enc-")
	if err != nil {
		run.Inconclusive("scratch dir: " + err.Error())
		return
	}
	defer os.RemoveAll(dir)
	path := filepath.Join(dir, "cs.wal", "wal")
	limit := int64(200 + r.Intn(3000))
	w, err := consensus.NewWAL(path, autofile.GroupHeadSizeLimit(limit), autofile.GroupCheckDuration(24*time.Hour))
	if err != nil {
		run.Inconclusive("NewWAL: " + err.Error())
		return
	}
	if err := w.Start(); err != nil {
		run.Inconclusive("WAL.Start: " + err.Error())
		return
	}
	rw := &rotWriter{w: w}
	enc := consensus.NewWALEncoder(rw)
	heights := map[int64]bool{0: true} // OnStart wrote the marker of height 0
	written := 0
	for i, m := range list {
		if err := enc.Encode(&consensus.TimedWALMessage{Time: clockBase.Add(time.Duration(i) * time.Millisecond), Msg: m}); err != nil {
			continue // over the size limit: refused by the encoder, nothing written
		}
		written++
		if e, ok := m.(consensus.EndHeightMessage); ok {
			heights[e.Height] = true
		}
	}
	w.FlushAndSync()
	rotations := w.Group().MaxIndex()
	run.Eval(1)
	run.Count("encoder_logs", 1)
	run.Count("encoder_records", written)
	run.Count("encoder_write_calls_each_followed_by_a_limit_check", rw.calls)
	run.Count("encoder_rotations", rotations)
	wit := func() map[string]interface{} {
		return map[string]interface{}{"head_size_limit": limit, "records": written, "rotations": rotations, "write_calls": rw.calls}
	}
	// the real strict search while the log is still open
	for h := range heights {
		rd, found, err := w.SearchForEndHeight(h, &consensus.WALSearchOptions{IgnoreDataCorruptionErrors: false})
		if rd != nil {
			rd.Close()
		}
		run.Count("encoder_strict_searches", 1)
		if err != nil || !found {
			c.Violation("search:layout:rotation-between-writes:intact-marker-not-found", fmt.Sprintf("nothing was damaged, the end marker of height %d was written, but the strict search returns found=%v err=%v", h, found, err), wit())
			break
		}
	}
	w.Stop()
	w.Wait()
	w.Group().Head.Close()
	files, err := loadLayout(path)
	if err != nil {
		run.Inconclusive("cannot read the WAL directory: " + err.Error())
		return
	}
	for i, f := range files {
		if _, stop, at := refParseAt(f.data); stop != "clean" {
			c.Violation("framing:layout:rotation-splits-a-record", fmt.Sprintf("file %d of %d (%s, %d bytes) does not consist of whole records: the reference parser stops at offset %d with %s - a rotation came between two writes of one record", i, len(files), filepath.Base(f.path), len(f.data), at, stop), wit())
			return
		}
	}
	if rotations >= 2 {
		run.Nontrivial(fmt.Sprint("encoder", c.I, limit, written, rotations))
	}
}
