package c15

import (
	"bytes"
	"fmt"
	"math/rand"
	"os"
	"path/filepath"

	"github.com/kardiachain/go-kardia/consensus"

	"verifharness/core"
	"verifharness/netsim"
)

// Group onstart-repair: the repair as the node performs it. A validator of a simulated four-node network writes its
// real on-disk WAL, is stopped somewhere inside a height, one record behind the last end-height marker is damaged
// (bit flip in the payload, in the checksum, a changed length field, or a cut in the middle of the file's last
// records) and the node is started again through the real OnStart (torn-tail cut, catch-up replay, repair). After
// that start the log on disk must again be a log: the reference parser reads it to its end without meeting a damaged
// record, and it begins with exactly the records that preceded the damage (the longest valid prefix).

func onStartRepair(c *core.Case) {
	r, run := c.R, c.Run
	base := os.Getenv("VERIF_C15_SCRATCH")
	if base == "" {
		base = os.Getenv("VERIF_SCRATCH")
	}
	dir, err := os.MkdirTemp(base, "onstart")
	if err != nil {
		run.Inconclusive("scratch: " + err.Error())
		return
	}
	defer os.RemoveAll(dir)
	v := r.Intn(4)
	nt, err := netsim.NewNet(netsim.NetOpts{N: 4, Powers: []int64{20, 20, 20, 20}, Root: filepath.Join(dir, "net"), Node: func(i int) netsim.NodeOpts {
		if i == v {
			return netsim.NodeOpts{FileWAL: true, Dir: filepath.Join(dir, "victim")}
		}
		return netsim.NodeOpts{}
	}})
	if err != nil {
		run.Inconclusive("network: " + err.Error())
		return
	}
	defer nt.Close()
	if err := nt.StartAll(); err != nil {
		run.Inconclusive("network start: " + err.Error())
		return
	}
	if res := nt.RunSync(uint64(1+r.Intn(3)), 40, nil); !res.Reached {
		run.Inconclusive(fmt.Sprintf("network did not advance: %+v", res))
		return
	}
	srng := rand.New(rand.NewSource(r.Int63()))
	for i, n := 0, 1+r.Intn(25); i < n; i++ {
		nt.AdvStep(srng, nil)
	}
	old := nt.Nodes[v]
	if old == nil || old.Dead {
		run.Inconclusive("victim not running")
		return
	}
	path := old.WALPath()
	old.Stop(true)
	old.WAL.Stop()
	img, err := os.ReadFile(path)
	if err != nil {
		run.Inconclusive("read wal: " + err.Error())
		return
	}
	frames, stop := refParse(img)
	if stop != "clean" {
		run.Inconclusive("the log of a cleanly stopped node does not parse: " + stop)
		return
	}
	// the last end-height marker
	last := -1
	dec := consensus.NewWALDecoder(bytes.NewReader(img))
	for i := range frames {
		m, err := dec.Decode()
		if err != nil {
			run.Inconclusive("decode of the intact log: " + err.Error())
			return
		}
		if _, ok := m.Msg.(consensus.EndHeightMessage); ok {
			last = i
		}
	}
	if last < 0 || last+1 >= len(frames) {
		run.Count("onstart_no_record_behind_the_last_marker", 1)
		return
	}
	rec := last + 1 + r.Intn(len(frames)-last-1)
	f := frames[rec]
	bad := append([]byte{}, img...)
	kind := []string{"payload-bit", "crc-bit", "length-up", "length-down", "cut-inside"}[r.Intn(5)]
	switch kind {
	case "payload-bit":
		bad[f.start+8+r.Intn(f.end-f.start-8)] ^= 1 << uint(r.Intn(8))
	case "crc-bit":
		bad[f.start+r.Intn(4)] ^= 1 << uint(r.Intn(8))
	case "length-up":
		bad[f.start+7] += byte(1 + r.Intn(3))
	case "length-down":
		if bad[f.start+7] < 4 {
			bad[f.start+6]--
		}
		bad[f.start+7] -= byte(1 + r.Intn(3))
	case "cut-inside":
		// the bytes of the record's second half are gone, the following records moved up
		mid := f.start + 8 + (f.end-f.start-8)/2
		bad = append(bad[:mid:mid], img[f.end:]...)
	}
	if err := os.WriteFile(path, bad, 0600); err != nil {
		run.Inconclusive("write wal: " + err.Error())
		return
	}
	wit := func() interface{} {
		return map[string]interface{}{"victim": v, "records": len(frames), "last_end_height_marker_record": last, "damaged_record": rec, "damage": kind, "damaged_record_offset": f.start, "log_bytes": len(img)}
	}
	run.Eval(1)
	run.Count("onstart_damage:"+kind, 1)
	if rec == len(frames)-1 {
		run.Count("onstart_damage_in_the_last_record", 1)
	} else {
		run.Count("onstart_damage_before_the_last_record", 1)
	}
	n2, err := netsim.BuildNode(v, nt.Gen, old.Key, old.Base, nil, nil, old.Opts)
	if err != nil {
		run.Inconclusive("rebuild: " + err.Error())
		return
	}
	startErr := n2.Start()
	if startErr == nil {
		nt.Nodes[v] = n2
		n2.Quiesce()
	}
	n2.Stop(true)
	n2.WAL.Stop()
	if startErr != nil {
		// the node refused to start on the damaged log: counted (start-up is C05's subject), the log is judged all the same
		run.Count("onstart_start_errors", 1)
	}
	after, err := os.ReadFile(path)
	if err != nil {
		run.Inconclusive("read wal after restart: " + err.Error())
		return
	}
	fr2, stop2, at := refParseAt(after)
	if stop2 != "clean" {
		c.Violation("onstart:damaged-record-left-in-the-log:"+kind, fmt.Sprintf("after the node was started on a log with a damaged record (%s in record %d of %d, behind the last end-height marker) the log still does not read to its end: %s at offset %d of %d (%d records readable); the node went on writing behind the damage (start error: %v)", kind, rec, len(frames), stop2, at, len(after), len(fr2), startErr), wit())
		return
	}
	if len(after) < f.start || !bytes.Equal(after[:f.start], img[:f.start]) {
		c.Violation("onstart:repair-lost-valid-prefix:"+kind, fmt.Sprintf("the log after the restart does not begin with the %d bytes (%d records) that preceded the damaged record", f.start, rec), wit())
		return
	}
	run.Count("onstart_logs_readable_after_restart", 1)
	run.Nontrivial(fmt.Sprint("onstart", c.I, kind))
}
