package c15

import (
	"bytes"
	"encoding/binary"
	"fmt"
	"hash/crc32"
	"io"
	"runtime"
	"runtime/metrics"

	"github.com/kardiachain/go-kardia/consensus"

	"verifharness/core"
)

// ---- reference model of the on-disk framing, written from the property text ----
// record = CRC-32C(payload) big endian | len(payload) big endian | payload, 0 < len <= limit.

// maxMsgSizeBytes is the message size limit of consensus/wal.go (maxMsgSize + 24), transcribed.
const maxMsgSizeBytes = 1048576 + 24

var castagnoli = crc32.MakeTable(crc32.Castagnoli)

type frame struct{ start, end int }

// refParse returns the maximal prefix of well-formed records of img and why it stopped:
// "clean" (img ends exactly after the last record) or the defect of the next record.
func refParse(img []byte) (frames []frame, stop string) {
	frames, stop, _ = refParseAt(img)
	return
}

// refParseAt also returns the offset at which parsing stopped.
func refParseAt(img []byte) (frames []frame, stop string, p int) {
	for {
		if p == len(img) {
			return frames, "clean", p
		}
		if len(img)-p < 8 {
			return frames, "short-header", p
		}
		crc := binary.BigEndian.Uint32(img[p:])
		n := binary.BigEndian.Uint32(img[p+4:])
		if n == 0 {
			return frames, "empty-record", p // every record carries a time stamp and a message
		}
		if n > maxMsgSizeBytes {
			return frames, "length-over-limit", p
		}
		if uint64(len(img)-p-8) < uint64(n) {
			return frames, "crosses-eof", p
		}
		if crc32.Checksum(img[p+8:p+8+int(n)], castagnoli) != crc {
			return frames, "crc-mismatch", p
		}
		frames = append(frames, frame{p, p + 8 + int(n)})
		p += 8 + int(n)
	}
}

func frameRecord(payload []byte) []byte {
	b := make([]byte, 8+len(payload))
	binary.BigEndian.PutUint32(b[0:], crc32.Checksum(payload, castagnoli))
	binary.BigEndian.PutUint32(b[4:], uint32(len(payload)))
	copy(b[8:], payload)
	return b
}

// logModel is what the harness knows about an intact log image.
type logModel struct {
	where   string // "flat" (encoder output in memory / one file) or "layout" (real rotated files)
	img     []byte
	frames  []frame
	msgs    []tmsg
	canon   []string
	byBytes map[string]int
	heights map[int64][]int
	bound   uint64 // allocation allowed for one Decode
	maxRec  int

	fileStart []int // layout: offset in img at which each file starts (flat: [0])
}

const allocSlack = 256 << 10

func newLogModel(where string, img []byte, frames []frame, msgs []tmsg) *logModel {
	lm := &logModel{where: where, img: img, frames: frames, msgs: msgs, byBytes: map[string]int{}, heights: heightsOf(msgs), fileStart: []int{0}}
	for i, f := range frames {
		lm.canon = append(lm.canon, canonT(msgs[i].T, msgs[i].M))
		k := string(img[f.start:f.end])
		if _, ok := lm.byBytes[k]; !ok {
			lm.byBytes[k] = i
		}
		if f.end-f.start > lm.maxRec {
			lm.maxRec = f.end - f.start
		}
	}
	// one record may cost its read buffer plus the copies protobuf decoding makes of it
	lm.bound = maxMsgSizeBytes + 2*uint64(lm.maxRec) + allocSlack
	return lm
}

// noOpt / oosOpt are values of expectation.opt.
const (
	noOpt  = -1
	oosOpt = -2
)

// expectation is what a correct reader returns for a (possibly damaged) image: the records
// of the maximal well-formed prefix (exp, as indices of written records) and then an end
// (io.EOF if stop is "clean", else io.EOF or a DataCorruptionError).
//
// oos: the prefix ends at a well-formed record that was never written (a corruption that
// preserves the CRC: out of scope from there on).
//
// opt: the image ends inside a record whose missing tail consists of zero bytes only. A reader
// that fills its buffer with what is left sees exactly the written record (buffers start
// zeroed) and may return it: the sequence is still a prefix of the written list and the cut is
// reported as end-of-log by the next call. opt is the written record it may return (noOpt: none;
// oosOpt: zero padding gives a CRC-consistent record that was never written).
type expectation struct {
	exp  []int
	stop string
	oos  bool
	opt  int
}

func (lm *logModel) expect(m []byte) expectation {
	frames, stop, p := refParseAt(m)
	e := expectation{stop: stop, opt: noOpt}
	for _, f := range frames {
		idx, ok := lm.byBytes[string(m[f.start:f.end])]
		if !ok {
			e.stop, e.oos = "crc-consistent-unwritten-record", true
			return e
		}
		e.exp = append(e.exp, idx)
	}
	if stop == "crosses-eof" {
		n := int(binary.BigEndian.Uint32(m[p+4:]))
		padded := make([]byte, 8+n)
		copy(padded, m[p:])
		if crc32.Checksum(padded[8:], castagnoli) == binary.BigEndian.Uint32(padded) {
			if idx, ok := lm.byBytes[string(padded)]; ok {
				e.opt = idx
			} else {
				e.opt = oosOpt
			}
		}
	}
	return e
}

// ---- running the real decoder ----

type decRes struct {
	msgs       []*consensus.TimedWALMessage
	err        error
	maxAlloc   uint64
	maxAllocAt int
}

// Allocation meters. meterExact reads runtime.MemStats.TotalAlloc (stops the world, exact);
// meterCheap reads the runtime/metrics counter of allocated heap bytes, which includes every
// large allocation (> 32 KiB) at once and small ones with a delay: a lower bound that cannot
// miss a buffer sized by a damaged length field. The caller runs single-threaded.
const (
	meterOff = iota
	meterCheap
	meterExact
)

var allocSample = []metrics.Sample{{Name: "/gc/heap/allocs:bytes"}}

func allocated(mode int, ms *runtime.MemStats) uint64 {
	if mode == meterExact {
		runtime.ReadMemStats(ms)
		return ms.TotalAlloc
	}
	metrics.Read(allocSample)
	if allocSample[0].Value.Kind() == metrics.KindUint64 {
		return allocSample[0].Value.Uint64()
	}
	runtime.ReadMemStats(ms)
	return ms.TotalAlloc
}

// decodeAll decodes until the first error and measures the bytes allocated by each single Decode call.
func decodeAll(rd io.Reader, meter int) (res decRes) {
	dec := consensus.NewWALDecoder(rd)
	var ms runtime.MemStats
	var last uint64
	if meter != meterOff {
		last = allocated(meter, &ms)
	}
	for {
		m, err := dec.Decode()
		if meter != meterOff {
			now := allocated(meter, &ms)
			if d := now - last; d > res.maxAlloc {
				res.maxAlloc, res.maxAllocAt = d, len(res.msgs)
			}
			last = now
		}
		if err != nil {
			res.err = err
			return
		}
		if m == nil {
			res.err = fmt.Errorf("harness: Decode returned (nil, nil)")
			return
		}
		res.msgs = append(res.msgs, m)
		if len(res.msgs) > 1<<20 {
			res.err = fmt.Errorf("harness: runaway decoder")
			return
		}
	}
}

// fault describes one corruption; it is the replayable part of a witness.
type fault struct {
	Kind string `json:"kind"`
	File int    `json:"file,omitempty"` // layout only: position of the file in index order
	Off  int    `json:"offset"`
	Bit  int    `json:"bit,omitempty"`
	Len  int    `json:"len,omitempty"`
	Val  string `json:"value,omitempty"`
	Rec  int    `json:"record,omitempty"`
}

func (f fault) String() string {
	return fmt.Sprintf("%s file=%d off=%d bit=%d len=%d val=%s rec=%d", f.Kind, f.File, f.Off, f.Bit, f.Len, f.Val, f.Rec)
}

type judge struct {
	c   *core.Case
	lm  *logModel
	cur fault                  // fault being evaluated (for panic witnesses)
	ctx map[string]interface{} // how the log was produced (file WAL configuration and trace), part of every witness
}

func (j *judge) witness(f fault, extra map[string]interface{}) map[string]interface{} {
	w := map[string]interface{}{"log": j.lm.where, "fault": f, "records": len(j.lm.canon), "image_bytes": len(j.lm.img)}
	var list []string
	for i, s := range j.lm.canon {
		if i >= 40 {
			break
		}
		list = append(list, fmt.Sprintf("[%d @%d..%d] %s", i, j.lm.frames[i].start, j.lm.frames[i].end, short(s, 160)))
	}
	w["written"] = list
	if len(j.lm.img) <= 4608 {
		w["intact_image_hex"] = fmt.Sprintf("%x", j.lm.img)
	}
	for k, v := range j.ctx {
		w[k] = v
	}
	for k, v := range extra {
		w[k] = v
	}
	return w
}

func errClass(err error) string {
	switch {
	case err == nil:
		return "nil"
	case err == io.EOF:
		return "eof"
	case consensus.IsDataCorruptionError(err):
		return "corruption"
	}
	return "other"
}

// match compares what the decoder returned for image m with the reference expectation.
// It returns "" if they agree, "oos" if the comparison left the scope of the property, or the violated clause.
func (j *judge) match(m []byte, res decRes) (verdict, detail string) {
	e := j.lm.expect(m)
	exp, stop, oos := e.exp, e.stop, e.oos
	tookOpt := false
	for i, got := range res.msgs {
		switch {
		case i < len(exp):
			if g := canonT(got.Time, got.Msg); g != j.lm.canon[exp[i]] {
				return "different-message", fmt.Sprintf("message %d read back as %s, written as %s", i, short(g, 300), short(j.lm.canon[exp[i]], 300))
			}
		case oos:
			return "oos", ""
		case i == len(exp) && e.opt == oosOpt:
			return "oos", ""
		case i == len(exp) && e.opt >= 0 && canonT(got.Time, got.Msg) == j.lm.canon[e.opt]:
			tookOpt = true
		default:
			return "undetected:" + stop, fmt.Sprintf("the decoder returned a message (%s) for record %d, which is damaged (%s)", short(canonT(got.Time, got.Msg), 200), i, stop)
		}
	}
	if len(res.msgs) < len(exp) {
		return "lost-intact-record", fmt.Sprintf("%d intact records lie before the damage, the decoder returned %d and then %v", len(exp), len(res.msgs), res.err)
	}
	switch errClass(res.err) {
	case "eof":
	case "corruption":
		if stop == "clean" && !oos {
			return "intact-log-reported-corrupt", fmt.Sprintf("every record of the image is well-formed, the decoder ended with %v", res.err)
		}
	default:
		return "unexpected-error", fmt.Sprintf("decoding ended with %T %v (neither io.EOF nor DataCorruptionError)", res.err, res.err)
	}
	if oos {
		return "oos", ""
	}
	if tookOpt {
		j.c.Run.Count("cut_record_with_zero_tail_returned", 1)
	}
	return "", ""
}

// decode judges one decode-all of the damaged image m.
func (j *judge) decode(f fault, m []byte, res decRes) {
	run := j.c.Run
	run.Eval(1)
	cls := faultClass(f)
	v, detail := j.match(m, res)
	switch v {
	case "":
		run.Count("decode_end:"+errClass(res.err), 1)
	case "oos":
		run.Count("out_of_scope_crc_preserving", 1)
		if f.Kind == "flip:crc" || f.Kind == "flip:payload" || f.Kind == "none" {
			// CRC-32C detects every single-bit error: the reference model itself must be wrong
			run.Inconclusive(fmt.Sprintf("reference model: %s log, %s classified as CRC-preserving", j.lm.where, f))
		}
	default:
		j.c.Violation("decode:"+j.lm.where+":"+cls+":"+v, fmt.Sprintf("%s log, %s: %s", j.lm.where, f, detail), j.witness(f, nil))
	}
	if res.maxAlloc > 0 {
		run.Max("max_alloc_one_decode", int64(res.maxAlloc))
		if res.maxAlloc > j.lm.bound {
			j.c.Violation("alloc:"+j.lm.where+":"+cls, fmt.Sprintf("%s log, %s: Decode call %d allocated %d bytes; limit %d + 2*largest record %d + slack %d",
				j.lm.where, f, res.maxAllocAt, res.maxAlloc, maxMsgSizeBytes, j.lm.maxRec, allocSlack), j.witness(f, nil))
		}
	}
}

// class of a fault for keys and counters
func faultClass(f fault) string { return f.Kind }

// fieldOf tells which field of which record byte off of the intact image belongs to.
func (lm *logModel) fieldOf(off int) (rec int, field string) {
	for i, f := range lm.frames {
		if off < f.end {
			switch {
			case off < f.start+4:
				return i, "crc"
			case off < f.start+8:
				return i, "len"
			}
			return i, "payload"
		}
	}
	return len(lm.frames), "beyond"
}

// occurrences of record rec's bytes in image m (end offsets).
func (lm *logModel) occurrences(m []byte, rec int) []int {
	pat := lm.img[lm.frames[rec].start:lm.frames[rec].end]
	var out []int
	for p := 0; ; {
		i := bytes.Index(m[p:], pat)
		if i < 0 {
			return out
		}
		out = append(out, p+i+len(pat))
		p += i + 1
	}
}
