package c15

import (
	"bytes"
	"fmt"
	"io"
	"math/rand"
	"os"
	"path/filepath"
	"regexp"
	"sort"
	"strconv"
	"time"

	"github.com/kardiachain/go-kardia/consensus"
	"github.com/kardiachain/go-kardia/lib/autofile"
	ktime "github.com/kardiachain/go-kardia/types/time"

	"verifharness/core"
)

// walCfg is the replayable description of how a message list is written through the real file WAL.
type walCfg struct {
	Limit    int64 `json:"head_size_limit"` // 0 = unlimited
	Timed    bool  `json:"rotation_by_ticker"`
	Sessions int   `json:"sessions"` // Stop / reopen between sessions
}

// fileLog drives consensus.NewWAL on a scratch directory and shadows it with a model.
type fileLog struct {
	c    *core.Case
	cfg  walCfg
	dir  string
	path string
	wal  *consensus.BaseWAL

	model     []tmsg // every record the log must contain, in order (including the end-height-0 markers OnStart writes)
	tick      int64
	rotations int
	restarts  int
	trace     []string
	extra     []func(*autofile.Group) // further group options (total size limit)
}

// scratchDir creates a scratch directory, on a memory file system when there is one: the
// enumeration rewrites small files several hundred thousand times, which a journalled disk
// file system makes ten times slower without changing anything the WAL code does.
func scratchDir(prefix string) (string, error) {
	if base := os.Getenv("VERIF_C15_SCRATCH"); base != "" {
		if d, err := os.MkdirTemp(base, prefix); err == nil {
			return d, nil
		}
	}
	if base := os.Getenv("VERIF_SCRATCH"); base != "" { // the run's scratch directory (core removes it in Finish)
		if d, err := os.MkdirTemp(base, prefix); err == nil {
			return d, nil
		}
	}
	if st, err := os.Stat("/dev/shm"); err == nil && st.IsDir() {
		if d, err := os.MkdirTemp("/dev/shm", prefix); err == nil {
			return d, nil
		}
	}
	return os.MkdirTemp("", prefix)
}

var clockBase = time.Unix(1700000000, 0).UTC()

func (fl *fileLog) now() time.Time {
	return clockBase.Add(time.Duration(fl.tick) * 1234567 * time.Nanosecond)
}

func newFileLog(c *core.Case, cfg walCfg) (*fileLog, error) {
	dir, err := scratchDir("verif-c15-")
	if err != nil {
		return nil, err
	}
	fl := &fileLog{c: c, cfg: cfg, dir: dir, path: filepath.Join(dir, "cs.wal", "wal")}
	// the WAL stamps records with types/time.Now(): a virtual clock makes the stamps part of the model
	ktime.VerifSetNow(fl.now)
	return fl, nil
}

// ctx is the part of a witness that tells how the files were produced.
func (fl *fileLog) ctx() map[string]interface{} {
	return map[string]interface{}{"wal": fl.cfg, "trace": append([]string{}, fl.trace...)}
}

func (fl *fileLog) cleanup() {
	ktime.VerifSetNow(nil)
	os.RemoveAll(fl.dir)
}

func (fl *fileLog) options() []func(*autofile.Group) {
	opts := []func(*autofile.Group){autofile.GroupHeadSizeLimit(fl.cfg.Limit)}
	if fl.cfg.Timed {
		opts = append(opts, autofile.GroupCheckDuration(time.Millisecond))
	} else {
		opts = append(opts, autofile.GroupCheckDuration(24*time.Hour)) // the harness places the checks itself
	}
	return append(opts, fl.extra...)
}

// start opens and starts the WAL. OnStart writes an end-height-0 marker when the head file is empty.
func (fl *fileLog) start() error {
	empty := true
	if st, err := os.Stat(fl.path); err == nil && st.Size() > 0 {
		empty = false
	}
	w, err := consensus.NewWAL(fl.path, fl.options()...)
	if err != nil {
		return fmt.Errorf("NewWAL: %w", err)
	}
	if empty {
		fl.model = append(fl.model, tmsg{fl.now(), consensus.EndHeightMessage{Height: 0}})
		fl.trace = append(fl.trace, "start(head empty: writes EndHeight 0)")
	} else {
		fl.trace = append(fl.trace, "start")
	}
	if err := w.Start(); err != nil {
		return fmt.Errorf("WAL.Start: %w", err)
	}
	fl.tick++
	fl.wal = w
	return nil
}

func (fl *fileLog) stop() {
	if fl.wal == nil {
		return
	}
	fl.wal.Stop()
	fl.wal.Wait()
	fl.wal.Group().Head.Close() // the group leaves the head's helper goroutines running
	fl.wal = nil
	fl.restarts++
	fl.trace = append(fl.trace, "stop")
}

// write appends one message; refused tells whether an error is the expected outcome.
func (fl *fileLog) write(m consensus.WALMessage, sync bool) error {
	var err error
	if sync {
		err = fl.wal.WriteSync(m)
	} else {
		err = fl.wal.Write(m)
	}
	if err == nil {
		fl.model = append(fl.model, tmsg{fl.now(), m})
	}
	fl.tick++
	return err
}

// check runs the group's periodic limit check once (deterministic rotation point).
func (fl *fileLog) check(flushFirst bool) {
	if flushFirst {
		fl.wal.FlushAndSync()
	}
	before := fl.wal.Group().MaxIndex()
	fl.wal.Group().VerifCheckLimits()
	if d := fl.wal.Group().MaxIndex() - before; d > 0 {
		fl.rotations += d
		fl.trace = append(fl.trace, fmt.Sprintf("rotate@%d", len(fl.model)))
	}
}

// ---- the files on disk ----

type lfile struct {
	path string
	data []byte
}

var idxRe = regexp.MustCompile(`^wal\.([0-9]{3,})$`)

// loadLayout reads the group's files in index order (head last).
func loadLayout(headPath string) ([]lfile, error) {
	dir := filepath.Dir(headPath)
	ents, err := os.ReadDir(dir)
	if err != nil {
		return nil, err
	}
	type ix struct {
		i    int
		name string
	}
	var rot []ix
	head := false
	for _, e := range ents {
		if e.Name() == "wal" {
			head = true
		} else if m := idxRe.FindStringSubmatch(e.Name()); m != nil {
			i, _ := strconv.Atoi(m[1])
			rot = append(rot, ix{i, e.Name()})
		}
	}
	sort.Slice(rot, func(a, b int) bool { return rot[a].i < rot[b].i })
	var out []lfile
	for _, x := range rot {
		b, err := os.ReadFile(filepath.Join(dir, x.name))
		if err != nil {
			return nil, err
		}
		out = append(out, lfile{filepath.Join(dir, x.name), b})
	}
	if head {
		b, err := os.ReadFile(headPath)
		if err != nil {
			return nil, err
		}
		out = append(out, lfile{headPath, b})
	}
	return out, nil
}

// shiftIndices renames the rotated files wal.NNN of a stopped log so that their (contiguous) indices straddle a
// power of ten: what the directory of a long-running validator looks like after the oldest files were pruned.
// Returns the highest index in use afterwards (0 if there was nothing to rename).
func shiftIndices(headPath string, r *rand.Rand) (int, error) {
	dir := filepath.Dir(headPath)
	ents, err := os.ReadDir(dir)
	if err != nil {
		return 0, err
	}
	var idx []int
	for _, e := range ents {
		if m := idxRe.FindStringSubmatch(e.Name()); m != nil {
			i, _ := strconv.Atoi(m[1])
			idx = append(idx, i)
		}
	}
	if len(idx) == 0 {
		return 0, nil
	}
	sort.Ints(idx)
	base := []int{10, 100, 1000, 10000, 100000}[r.Intn(5)]
	// the file that had index idx[k] gets base-1-below+k with 0 <= below < len: at least one index on each side when len > 1
	below := r.Intn(len(idx))
	off := base - 1 - below - idx[0]
	if off <= 0 {
		return idx[len(idx)-1], nil
	}
	for k := len(idx) - 1; k >= 0; k-- {
		from := fmt.Sprintf("%s.%03d", headPath, idx[k])
		to := fmt.Sprintf("%s.%03d", headPath, idx[k]+off)
		if err := os.Rename(from, to); err != nil {
			return 0, err
		}
	}
	return idx[len(idx)-1] + off, nil
}

func concat(files []lfile, replace int, with []byte) []byte {
	var b []byte
	for i, f := range files {
		if i == replace {
			b = append(b, with...)
		} else {
			b = append(b, f.data...)
		}
	}
	return b
}

// readGroup decodes the whole group through the real group reader.
func readGroup(w *consensus.BaseWAL, meter int) (decRes, error) {
	gr, err := w.Group().NewReader(w.Group().MinIndex())
	if err != nil {
		return decRes{}, err
	}
	defer gr.Close()
	return decodeAll(gr, meter), nil
}

// readIntact reads the undamaged group back and compares it with everything written.
func (j *judge) readIntact(w *consensus.BaseWAL, meter int) {
	res, err := readGroup(w, meter)
	if err != nil {
		j.c.Run.Inconclusive("group reader: " + err.Error())
		return
	}
	j.decode(fault{Kind: "none"}, j.lm.img, res)
	j.c.Run.Count("file_logs_read_back", 1)
}

// ---- SearchForEndHeight ----

// search runs SearchForEndHeight(h) on w and judges the outcome against image m of the
// files as they are on disk now (cur, in index order). reorder tells that whole
// records were moved, so heights may not be monotone and only soundness is asserted.
func (j *judge) search(w *consensus.BaseWAL, f fault, cur [][]byte, h int64, ignore, intact, reorder bool) {
	run := j.c.Run
	run.Eval(1)
	m := bytes.Join(cur, nil)
	fileStart := j.lm.fileStart
	key := func(what string) string {
		k := "search:" + j.lm.where + ":"
		if !intact {
			k += faultClass(f) + ":"
		}
		return k + what
	}
	wit := func() map[string]interface{} {
		return j.witness(f, map[string]interface{}{"height": h, "ignore_data_corruption_errors": ignore, "file_starts": fileStart})
	}
	rd, found, err := w.SearchForEndHeight(h, &consensus.WALSearchOptions{IgnoreDataCorruptionErrors: ignore})
	if rd != nil {
		defer rd.Close()
	}
	markers := j.lm.heights[h]
	if err != nil {
		run.Count("search_error:"+errClass(err), 1)
		switch {
		case intact:
			j.c.Violation(key("error-on-intact-log"), fmt.Sprintf("SearchForEndHeight(%d) on an intact log: %v", h, err), wit())
		case !consensus.IsDataCorruptionError(err):
			j.c.Violation(key("unexpected-error"), fmt.Sprintf("SearchForEndHeight(%d): %T %v", h, err, err), wit())
		case found || rd != nil:
			j.c.Violation(key("found-with-error"), fmt.Sprintf("SearchForEndHeight(%d) returned found=%v reader=%v together with %v", h, found, rd != nil, err), wit())
		}
		return
	}
	if found {
		run.Count("search_found", 1)
		if rd == nil {
			j.c.Violation(key("found-without-reader"), fmt.Sprintf("SearchForEndHeight(%d): found but nil reader", h), wit())
			return
		}
		if len(markers) == 0 {
			j.c.Violation(key("found-unwritten-height"), fmt.Sprintf("SearchForEndHeight(%d) found a marker that was never written", h), wit())
			return
		}
		rest := decodeAll(rd, meterOff)
		// the reader must stand right after an occurrence of the marker record on disk
		var why string
		for _, mk := range markers {
			for _, g := range j.lm.occurrences(m, mk) {
				v, d := j.match(m[g:], rest)
				if v == "" || v == "oos" {
					if len(rest.msgs) > 0 {
						run.Count("search_positioned_before_a_message", 1)
					} else {
						run.Count("search_positioned_at_end", 1)
					}
					return
				}
				why = v + ": " + d
			}
		}
		got := "nothing"
		if len(rest.msgs) > 0 {
			got = short(canonT(rest.msgs[0].Time, rest.msgs[0].Msg), 200)
		}
		j.c.Violation(key("reader-not-after-marker"), fmt.Sprintf("SearchForEndHeight(%d) found the marker, but the reader does not continue with the messages after it (next message read: %s; %d read until %v; %s)",
			h, got, len(rest.msgs), rest.err, why), wit())
		return
	}
	run.Count("search_not_found", 1)
	if rd != nil {
		j.c.Violation(key("reader-without-found"), fmt.Sprintf("SearchForEndHeight(%d): not found but non-nil reader", h), wit())
		return
	}
	if len(markers) == 0 {
		return
	}
	if intact {
		j.c.Violation(key("written-height-not-found"), fmt.Sprintf("SearchForEndHeight(%d): the marker was written (record %d) but is not found", h, markers[0]), wit())
		return
	}
	if reorder {
		return
	}
	// damaged log: the marker must still be found when its file is well-formed from its start up to the marker
	for _, mk := range markers {
		fr := j.lm.frames[mk]
		fi := sort.Search(len(fileStart), func(i int) bool { return fileStart[i] > fr.start }) - 1
		if fi < 0 {
			continue
		}
		// does the damaged file still hold its records up to the marker, at the same place?
		le := fr.end - fileStart[fi]
		if fi >= len(cur) || le > len(cur[fi]) || !bytes.Equal(cur[fi][:le], j.lm.img[fileStart[fi]:fr.end]) {
			continue
		}
		j.c.Violation(key("intact-marker-not-found"), fmt.Sprintf("SearchForEndHeight(%d): marker record %d and everything before it in its file are intact, but it is not found (no error either)", h, mk), wit())
		return
	}
}

var _ = io.EOF
