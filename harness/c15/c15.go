// Package c15 decides C15: the consensus WAL returns exactly what was written and
// detects every corruption. Message lists of all WAL message kinds are written through
// the real file WAL (consensus.NewWAL on a scratch directory, rotation forced by small
// head-size limits, Stop/reopen in between) and through the real encoder; the logs are
// read back with the real decoder, SearchForEndHeight and repairWalFile, intact and
// under enumerated faults, and every outcome is compared with a reference model of the
// on-disk framing written from the property text (ref.go).
package c15

import (
	"bytes"
	"fmt"
	"math/rand"
	"os"
	"path/filepath"
	"sort"
	"strings"
	"time"

	"github.com/kardiachain/go-kardia/consensus"
	"github.com/kardiachain/go-kardia/lib/log"

	"verifharness/core"
)

func init() { core.Register("C15", Main) }

// ---- flat logs: the real encoder writing into memory ----

func encodeFlat(msgs []tmsg) (img []byte, ends []int, err error) {
	var buf bytes.Buffer
	enc := consensus.NewWALEncoder(&buf)
	for i, m := range msgs {
		if e := enc.Encode(&consensus.TimedWALMessage{Time: m.T, Msg: m.M}); e != nil {
			return nil, nil, fmt.Errorf("record %d (%s): %v", i, short(canon(m.M), 120), e)
		}
		ends = append(ends, buf.Len())
	}
	return buf.Bytes(), ends, nil
}

// buildFlat encodes msgs, checks the framing against the reference and reads the intact image back.
func buildFlat(c *core.Case, msgs []tmsg) *logModel {
	img, ends, err := encodeFlat(msgs)
	if err != nil {
		c.Violation("roundtrip:flat:encoder-refused-valid-message", "WALEncoder.Encode: "+err.Error(), nil)
		return nil
	}
	frames, stop := refParse(img)
	ok := stop == "clean" && len(frames) == len(ends)
	for i := 0; ok && i < len(frames); i++ {
		ok = frames[i].end == ends[i]
	}
	lm := newLogModel("flat", img, frames, msgs[:len(frames)])
	if !ok {
		c.Violation("framing:flat:not-as-specified", fmt.Sprintf("encoder output is not a sequence of crc32c|length|payload records (reference parser: %d records then %s; encoder wrote %d)",
			len(frames), stop, len(ends)), (&judge{c: c, lm: lm}).witness(fault{Kind: "none"}, nil))
		return nil
	}
	j := &judge{c: c, lm: lm}
	j.decode(fault{Kind: "none"}, img, decodeAll(bytes.NewReader(img), meterExact))
	return lm
}

// ---- fault construction ----

func flipField(lm *logModel, off int) string {
	_, fld := lm.fieldOf(off)
	return fld
}

var lenValues = []string{"0", "1", "L-1", "L+1", "to-eof", "eof+1", "swallow-next", "max", "max+1", "2^31", "2^32-1"}

// lenFieldValue computes the replacement for the length field of record rec of data.
func lenFieldValue(name string, data []byte, frames []frame, rec int) uint32 {
	f := frames[rec]
	L := uint32(f.end - f.start - 8)
	remaining := uint32(len(data) - f.start - 8)
	switch name {
	case "0":
		return 0
	case "1":
		return 1
	case "L-1":
		return L - 1
	case "L+1":
		return L + 1
	case "to-eof":
		return remaining
	case "eof+1":
		return remaining + 1
	case "swallow-next":
		if rec+1 < len(frames) {
			return uint32(frames[rec+1].end - f.start - 8)
		}
		return L + 8
	case "max":
		return maxMsgSizeBytes
	case "max+1":
		return maxMsgSizeBytes + 1
	case "2^31":
		return 1 << 31
	}
	return 1<<32 - 1
}

func setLen(data []byte, frames []frame, rec int, name string) (fault, []byte, bool) {
	v := lenFieldValue(name, data, frames, rec)
	out := append([]byte{}, data...)
	p := frames[rec].start + 4
	out[p], out[p+1], out[p+2], out[p+3] = byte(v>>24), byte(v>>16), byte(v>>8), byte(v)
	return fault{Kind: "lenfield", Off: p, Rec: rec, Val: fmt.Sprintf("%s=%d", name, v)}, out, !bytes.Equal(out, data)
}

func dupRecord(data []byte, frames []frame, rec, after int) (fault, []byte) {
	// insert a copy of record rec after record `after` (-1: at the start)
	at := 0
	if after >= 0 {
		at = frames[after].end
	}
	out := append([]byte{}, data[:at]...)
	out = append(out, data[frames[rec].start:frames[rec].end]...)
	out = append(out, data[at:]...)
	return fault{Kind: "dup", Off: at, Rec: rec, Val: fmt.Sprintf("copy of record %d inserted after record %d", rec, after)}, out
}

func swapRecords(data []byte, frames []frame, a, b int) (fault, []byte) {
	if a > b {
		a, b = b, a
	}
	var out []byte
	out = append(out, data[:frames[a].start]...)
	out = append(out, data[frames[b].start:frames[b].end]...)
	out = append(out, data[frames[a].end:frames[b].start]...)
	out = append(out, data[frames[a].start:frames[a].end]...)
	out = append(out, data[frames[b].end:]...)
	return fault{Kind: "swap", Off: frames[a].start, Rec: a, Val: fmt.Sprintf("records %d and %d swapped", a, b)}, out
}

func dropRecord(data []byte, frames []frame, rec int) (fault, []byte) {
	out := append([]byte{}, data[:frames[rec].start]...)
	out = append(out, data[frames[rec].end:]...)
	return fault{Kind: "drop", Off: frames[rec].start, Rec: rec, Val: "whole record removed"}, out
}

func suffix(r *rand.Rand, data []byte, frames []frame, kind int) (fault, []byte) {
	var sfx []byte
	name := ""
	switch kind {
	case 0:
		name = "random"
		n := 1 + r.Intn(64)
		if r.Intn(4) == 0 {
			n = 1 + r.Intn(8192)
		}
		sfx = make([]byte, n)
		r.Read(sfx)
	case 1:
		name = "zeros"
		n := 1 + r.Intn(16)
		if r.Intn(3) == 0 {
			n = []int{8, 512, 4096, 8192}[r.Intn(4)]
		}
		sfx = make([]byte, n)
	case 2:
		name = "header"
		sfx = make([]byte, 8+r.Intn(40))
		r.Read(sfx)
		v := []uint32{0, 1, uint32(len(sfx) - 8), uint32(len(sfx) - 7), maxMsgSizeBytes, maxMsgSizeBytes + 1, 1 << 31, 1<<32 - 1}[r.Intn(8)]
		sfx[4], sfx[5], sfx[6], sfx[7] = byte(v>>24), byte(v>>16), byte(v>>8), byte(v)
	default:
		name = "partial-record"
		if len(frames) == 0 {
			sfx = []byte{1}
			break
		}
		f := frames[r.Intn(len(frames))]
		n := 1 + r.Intn(f.end-f.start-1)
		sfx = append(sfx, data[f.start:f.start+n]...)
	}
	out := append(append([]byte{}, data...), sfx...)
	return fault{Kind: "suffix:" + name, Off: len(data), Len: len(sfx), Val: fmt.Sprintf("%x", sfx[:minInt(len(sfx), 64)])}, out
}

func minInt(a, b int) int {
	if a < b {
		return a
	}
	return b
}

// randomFault builds one random fault on data (records frames). changed=false means the draw was a no-op.
func randomFault(r *rand.Rand, data []byte, frames []frame) (f fault, out []byte, reorder, changed bool) {
	if len(data) == 0 || len(frames) == 0 {
		f, out = suffix(r, data, frames, r.Intn(3))
		return f, out, false, true
	}
	switch k := r.Intn(20); {
	case k < 5: // multi-byte overwrite
		off := r.Intn(len(data))
		if r.Intn(3) == 0 { // aim at a header
			off = frames[r.Intn(len(frames))].start + r.Intn(8)
		}
		n := 1 + r.Intn(64)
		if r.Intn(5) == 0 {
			n = 1 + r.Intn(4096)
		}
		if off+n > len(data) {
			n = len(data) - off
		}
		out = append([]byte{}, data...)
		r.Read(out[off : off+n])
		if bytes.Equal(out, data) {
			out[off] ^= 0x5a
		}
		first := off
		for out[first] == data[first] {
			first++
		}
		return fault{Kind: "overwrite", Off: first, Len: off + n - first, Val: fmt.Sprintf("%x", out[first:minInt(off+n, first+48)])}, out, false, true
	case k < 7: // a lost sector: aligned block of zeros
		bs := []int{512, 4096}[r.Intn(2)]
		off := (r.Intn(len(data)) / bs) * bs
		end := minInt(off+bs, len(data))
		out = append([]byte{}, data...)
		for i := off; i < end; i++ {
			out[i] = 0
		}
		if bytes.Equal(out, data) {
			return f, nil, false, false
		}
		first := off
		for out[first] == data[first] {
			first++
		}
		return fault{Kind: "zerofill", Off: first, Len: end - first}, out, false, true
	case k < 10:
		rec := r.Intn(len(frames))
		f, out, changed = setLen(data, frames, rec, lenValues[r.Intn(len(lenValues))])
		return f, out, false, changed
	case k < 12: // truncation, often next to a record boundary
		cut := r.Intn(len(data))
		if r.Intn(2) == 0 {
			cut = frames[r.Intn(len(frames))].end + r.Intn(3) - 1
			if cut > len(data) {
				cut = len(data)
			}
		}
		return fault{Kind: "trunc", Off: cut}, data[:cut:cut], false, cut < len(data)
	case k < 14:
		off, bit := r.Intn(len(data)), r.Intn(8)
		if r.Intn(3) == 0 {
			off = frames[r.Intn(len(frames))].start + r.Intn(8)
		}
		out = append([]byte{}, data...)
		out[off] ^= 1 << uint(bit)
		_, fld := fieldIn(frames, off)
		return fault{Kind: "flip:" + fld, Off: off, Bit: bit}, out, false, true
	case k < 17:
		f, out = suffix(r, data, frames, r.Intn(4))
		return f, out, false, true
	case k < 18:
		f, out = dupRecord(data, frames, r.Intn(len(frames)), r.Intn(len(frames)+1)-1)
		return f, out, true, true
	case k < 19:
		if len(frames) < 2 {
			return f, nil, false, false
		}
		a := r.Intn(len(frames))
		b := r.Intn(len(frames))
		if a == b {
			b = (a + 1) % len(frames)
		}
		f, out = swapRecords(data, frames, a, b)
		return f, out, true, !bytes.Equal(out, data)
	}
	f, out = dropRecord(data, frames, r.Intn(len(frames)))
	return f, out, true, true
}

func fieldIn(frames []frame, off int) (int, string) {
	for i, f := range frames {
		if off < f.end {
			switch {
			case off < f.start+4:
				return i, "crc"
			case off < f.start+8:
				return i, "len"
			}
			return i, "payload"
		}
	}
	return len(frames), "beyond"
}

// ---- evaluation of one fault ----

type flatEnv struct {
	j      *judge
	dir    string // scratch for repair
	repair bool
	cheap  bool // exhaustive loops: exact meter only where a header is damaged, the cheap one elsewhere
}

// meterFor picks the allocation meter for a fault in an exhaustive loop: exact whenever the
// damage touches a record header (the only way to make the decoder size a buffer differently).
func meterFor(lm *logModel, f fault, cheap bool) int {
	if !cheap {
		return meterExact
	}
	if _, fld := lm.fieldOf(f.Off); fld == "crc" || fld == "len" || fld == "beyond" {
		return meterExact
	}
	return meterCheap
}

func (e *flatEnv) eval(f fault, m []byte) {
	e.j.cur = f
	e.j.decode(f, m, decodeAll(bytes.NewReader(m), meterFor(e.j.lm, f, e.cheap)))
	e.j.nontrivial(f, m)
	if e.repair {
		e.j.repair(e.dir, f, m)
	}
}

func (j *judge) nontrivial(f fault, m []byte) {
	e := j.lm.expect(m)
	if len(e.exp) >= 1 && (e.stop != "clean" || len(e.exp) != len(j.lm.frames)) {
		rec, _ := j.lm.fieldOf(f.Off)
		j.c.Run.Nontrivial(fmt.Sprintf("%s:%d:%s:%s:%d:%d", j.c.Group, j.c.I, j.lm.where, f.Kind, f.File, rec))
	}
	j.c.Run.Count("faults:"+f.Kind, 1)
}

// repair runs the real repairWalFile on image m and requires exactly the longest valid prefix.
func (j *judge) repair(dir string, f fault, m []byte) {
	run := j.c.Run
	run.Eval(1)
	src, dst := filepath.Join(dir, "corrupt"), filepath.Join(dir, "repaired")
	if err := os.WriteFile(src, m, 0600); err != nil {
		run.Inconclusive("scratch write failed: " + err.Error())
		return
	}
	cls := faultClass(f)
	if err := consensus.VerifRepairWalFile(src, dst); err != nil {
		j.c.Violation("repair:"+cls+":error", fmt.Sprintf("%s: repairWalFile: %v", f, err), j.witness(f, nil))
		return
	}
	out, err := os.ReadFile(dst)
	if err != nil {
		run.Inconclusive("scratch read failed: " + err.Error())
		return
	}
	e := j.lm.expect(m)
	exp, oos := e.exp, e.oos
	res := decodeAll(bytes.NewReader(out), meterOff)
	run.Count("repairs", 1)
	for i, got := range res.msgs {
		if i == len(exp) && e.opt == oosOpt {
			oos = true
		}
		if i == len(exp) && e.opt >= 0 && canonT(got.Time, got.Msg) == j.lm.canon[e.opt] {
			run.Count("cut_record_with_zero_tail_repaired", 1)
			continue
		}
		if i < len(exp) {
			if g := canonT(got.Time, got.Msg); g != j.lm.canon[exp[i]] {
				j.c.Violation("repair:"+cls+":different-message", fmt.Sprintf("%s: message %d of the repaired log is %s, written as %s", f, i, short(g, 300), short(j.lm.canon[exp[i]], 300)), j.witness(f, nil))
				return
			}
			continue
		}
		if oos {
			run.Count("out_of_scope_crc_preserving", 1)
			return
		}
		j.c.Violation("repair:"+cls+":kept-more-than-valid-prefix", fmt.Sprintf("%s: the longest valid prefix has %d records, the repaired log has %d (extra: %s)", f, len(exp), len(res.msgs),
			short(canonT(got.Time, got.Msg), 200)), j.witness(f, nil))
		return
	}
	if len(res.msgs) < len(exp) {
		j.c.Violation("repair:"+cls+":lost-valid-records", fmt.Sprintf("%s: the longest valid prefix has %d records, the repaired log has %d", f, len(exp), len(res.msgs)), j.witness(f, nil))
		return
	}
	if _, stop := refParse(out); stop != "clean" || res.err == nil || errClass(res.err) != "eof" {
		j.c.Violation("repair:"+cls+":repaired-log-not-clean", fmt.Sprintf("%s: the repaired log does not end cleanly (reference parser: %s, decoder: %v)", f, stop, res.err), j.witness(f, nil))
		return
	}
	if len(exp) < len(j.lm.frames) {
		run.Count("repairs_that_cut", 1)
	}
}

// ---- the file WAL ----

// writeThroughFileWAL writes msgs through the real WAL as cfg says and returns the driver (stopped).
func writeThroughFileWAL(c *core.Case, r *rand.Rand, msgs []consensus.WALMessage, cfg walCfg, checkWhileRunning bool) (*fileLog, bool) {
	fl, err := newFileLog(c, cfg)
	if err != nil {
		c.Run.Inconclusive("scratch dir: " + err.Error())
		return nil, false
	}
	fail := func(key, what string) (*fileLog, bool) {
		c.Violation(key, what, map[string]interface{}{"cfg": cfg, "trace": fl.trace, "messages": len(msgs)})
		fl.stop()
		fl.cleanup()
		return nil, false
	}
	// session boundaries
	cuts := []int{}
	for s := 1; s < cfg.Sessions; s++ {
		cuts = append(cuts, r.Intn(len(msgs)+1))
	}
	sort.Ints(cuts)
	cuts = append(cuts, len(msgs))
	readSession := r.Intn(len(cuts))
	i := 0
	for s, end := range cuts {
		if err := fl.start(); err != nil {
			return fail("roundtrip:file:start-failed", err.Error())
		}
		for ; i < end; i++ {
			sync := r.Intn(3) == 0
			if err := fl.write(msgs[i], sync); err != nil {
				return fail("roundtrip:file:write-refused-valid-message", fmt.Sprintf("Write(%s): %v", short(canon(msgs[i]), 160), err))
			}
			if cfg.Timed {
				if r.Intn(3) == 0 {
					fl.wal.FlushAndSync()
					before := fl.wal.Group().MaxIndex()
					time.Sleep(3 * time.Millisecond)
					fl.rotations += fl.wal.Group().MaxIndex() - before
				}
			} else if r.Intn(2) == 0 {
				fl.check(r.Intn(2) == 0)
			}
		}
		if checkWhileRunning && !cfg.Timed && s == readSession {
			fl.wal.FlushAndSync()
			if lm, files := layoutModel(c, fl, "while running"); lm != nil {
				j := &judge{c: c, lm: lm, ctx: fl.ctx()}
				j.readIntact(fl.wal, meterOff)
				searchAll(j, fl.wal, r, files, 2)
				c.Run.Count("read_while_running", 1)
			}
		}
		if !cfg.Timed && r.Intn(4) == 0 {
			fl.check(true) // a rotation right before Stop leaves an empty head: the next start writes EndHeight 0 again
		}
		fl.stop()
	}
	return fl, true
}

// layoutModel loads the files of fl from disk and builds the model of the intact layout.
func layoutModel(c *core.Case, fl *fileLog, when string) (*logModel, []lfile) {
	files, err := loadLayout(fl.path)
	if err != nil {
		c.Run.Inconclusive("cannot read the WAL directory: " + err.Error())
		return nil, nil
	}
	img := concat(files, -1, nil)
	frames, stop := refParse(img)
	n := len(frames)
	if n > len(fl.model) {
		n = len(fl.model)
	}
	lm := newLogModel("layout", img, frames[:n], fl.model[:n])
	lm.fileStart = nil
	p := 0
	for _, f := range files {
		lm.fileStart = append(lm.fileStart, p)
		p += len(f.data)
	}
	if stop != "clean" || len(frames) != len(fl.model) {
		c.Violation("framing:layout:files-do-not-hold-the-written-records", fmt.Sprintf("%s: %d messages were written, the files hold %d well-formed records and then: %s", when, len(fl.model), len(frames), stop),
			(&judge{c: c, lm: lm, ctx: fl.ctx()}).witness(fault{Kind: "none"}, nil))
		return nil, nil
	}
	return lm, files
}

func contents(files []lfile) [][]byte {
	out := make([][]byte, len(files))
	for i, f := range files {
		out[i] = f.data
	}
	return out
}

// searchAll searches every written end-height and a few unwritten ones, with both option values.
func searchAll(j *judge, w *consensus.BaseWAL, r *rand.Rand, files []lfile, absent int) {
	cur := contents(files)
	var hs []int64
	var max int64
	for h := range j.lm.heights {
		hs = append(hs, h)
		if h > max {
			max = h
		}
	}
	sort.Slice(hs, func(a, b int) bool { return hs[a] < hs[b] })
	cand := []int64{-1, max + 1, max + 1 + r.Int63n(1000), r.Int63n(max + 2)}
	for _, h := range cand {
		if absent > 0 && len(j.lm.heights[h]) == 0 {
			hs = append(hs, h)
			absent--
		}
	}
	for _, h := range hs {
		for _, ign := range []bool{false, true} {
			j.search(w, fault{Kind: "none"}, cur, h, ign, true, false)
		}
	}
}

// openReadOnly opens the stopped log without starting it (so nothing is appended).
func openReadOnly(c *core.Case, fl *fileLog) *consensus.BaseWAL {
	ro, err := consensus.NewWAL(fl.path)
	if err != nil {
		c.Run.Inconclusive("NewWAL on the written directory: " + err.Error())
		return nil
	}
	return ro
}

func closeReadOnly(ro *consensus.BaseWAL) {
	ro.Group().Close()
	ro.Group().Head.Close()
}

type layoutEnv struct {
	cheap bool
	j     *judge
	ro    *consensus.BaseWAL
	files []lfile
	r     *rand.Rand
	hs    []int64 // heights to search, round robin
	n     int
}

func newLayoutEnv(j *judge, ro *consensus.BaseWAL, files []lfile, r *rand.Rand) *layoutEnv {
	e := &layoutEnv{j: j, ro: ro, files: files, r: r}
	var max int64
	for h := range j.lm.heights {
		e.hs = append(e.hs, h)
		if h > max {
			max = h
		}
	}
	sort.Slice(e.hs, func(a, b int) bool { return e.hs[a] < e.hs[b] })
	e.hs = append(e.hs, max+1)
	return e
}

// eval writes the damaged content of file fi, reads the group back and searches one height.
func (e *layoutEnv) eval(f fault, fi int, data []byte, reorder bool) {
	e.j.cur = f
	if err := os.WriteFile(e.files[fi].path, data, 0600); err != nil {
		e.j.c.Run.Inconclusive("scratch write failed: " + err.Error())
		return
	}
	cur := contents(e.files)
	cur[fi] = data
	m := bytes.Join(cur, nil)
	res, err := readGroup(e.ro, meterFor(e.j.lm, f, e.cheap))
	if err != nil {
		e.j.c.Run.Inconclusive("group reader: " + err.Error())
		return
	}
	e.j.decode(f, m, res)
	e.j.nontrivial(f, m)
	h := e.hs[e.n%len(e.hs)]
	ign := (e.n/len(e.hs))%2 == 1
	e.n++
	e.j.search(e.ro, f, cur, h, ign, false, reorder)
}

func (e *layoutEnv) restore(fi int) {
	os.WriteFile(e.files[fi].path, e.files[fi].data, 0600)
}

// localFrames returns the records of file fi with offsets relative to the file.
func localFrames(lm *logModel, files []lfile, fi int) []frame {
	lo := lm.fileStart[fi]
	hi := lo + len(files[fi].data)
	var out []frame
	for _, f := range lm.frames {
		if f.start >= lo && f.end <= hi {
			out = append(out, frame{f.start - lo, f.end - lo})
		}
	}
	return out
}

// ---- the case functions ----

func randomTimes(r *rand.Rand, msgs []consensus.WALMessage) []tmsg {
	g := &gen{r: r}
	out := make([]tmsg, len(msgs))
	for i, m := range msgs {
		out[i] = tmsg{g.time(), m}
	}
	return out
}

func pickCfg(r *rand.Rand, small bool, approxBytes int) walCfg {
	cfg := walCfg{Sessions: 1 + r.Intn(3)}
	switch r.Intn(6) {
	case 0:
		cfg.Limit = 1 // every check rotates a non-empty head
	case 1:
		cfg.Limit = 0 // unlimited
	default:
		cfg.Limit = int64(1 + r.Intn(approxBytes/2+2))
	}
	cfg.Timed = r.Intn(8) == 0
	return cfg
}

func kindsOf(msgs []tmsg) string {
	m := map[string]int{}
	for _, x := range msgs {
		m[kindOf(x.M)]++
	}
	var ks []string
	for k, n := range m {
		ks = append(ks, fmt.Sprintf("%s=%d", k, n))
	}
	sort.Strings(ks)
	return strings.Join(ks, " ")
}

// smallLog: one log of at most 4 KiB, every truncation offset and every single-bit flip,
// on the encoder image (decode + repair) and on the real rotated files (group reader + search).
func smallLog(c *core.Case) {
	r, run := c.R, c.Run
	g := &gen{r: r, small: true}
	// grow the list while the encoded image stays below the target
	target := 1200 + r.Intn(2400)
	var list []consensus.WALMessage
	for n := 0; ; n++ {
		k := r.Intn(6)
		if n < 6 {
			k = (n + 2) % 6
		}
		m := g.msg(k)
		img, _, err := encodeFlat(randomTimes(rand.New(rand.NewSource(1)), append(append([]consensus.WALMessage{}, list...), m)))
		if err != nil {
			c.Violation("roundtrip:flat:encoder-refused-valid-message", err.Error(), nil)
			return
		}
		if len(img) > target && n >= 6 {
			break
		}
		list = append(list, m)
	}
	run.Count("generator_draws_rejected_by_validatebasic", g.rejected)
	exhaustive(c, r, list, fmt.Sprintf("small:%03d", c.I))
	run.Count("exh_logs_done", 1)
}

func exhaustive(c *core.Case, r *rand.Rand, list []consensus.WALMessage, tag string) {
	run := c.Run
	msgs := randomTimes(r, list)
	dir, err := scratchDir("verif-c15-repair-")
	if err != nil {
		run.Inconclusive("scratch dir: " + err.Error())
		return
	}
	defer os.RemoveAll(dir)

	// (a) the encoder image
	lm := buildFlat(c, msgs)
	if lm == nil {
		return
	}
	run.Count("logs", 1)
	run.Count("records_written", len(msgs))
	run.Distinct("kinds", kindsOf(msgs))
	j := &judge{c: c, lm: lm}
	env := &flatEnv{j: j, dir: dir, repair: true, cheap: true}
	img := lm.img
	perLog := c.I < 12
	c.Guard("flat log under enumerated faults", func() interface{} { return j.witness(j.cur, nil) }, func() {
		run.Count("exh_flat_bytes", len(img))
		run.Count("exh_flat_trunc_space", len(img)+1)
		run.Count("exh_flat_flip_space", len(img)*8)
		for cut := 0; cut <= len(img); cut++ {
			env.eval(fault{Kind: "trunc", Off: cut}, img[:cut:cut])
			run.Count("exh_flat_trunc_visited", 1)
		}
		buf := append([]byte{}, img...)
		for bit := 0; bit < len(img)*8; bit++ {
			off := bit / 8
			buf[off] ^= 1 << uint(bit%8)
			env.eval(fault{Kind: "flip:" + flipField(lm, off), Off: off, Bit: bit % 8}, buf)
			buf[off] ^= 1 << uint(bit%8)
			run.Count("exh_flat_flip_visited", 1)
		}
		if perLog {
			run.Count("log["+tag+"].flat_bytes", len(img))
			run.Count("log["+tag+"].flat_records", len(lm.frames))
			run.Count("log["+tag+"].flat_truncations_visited", len(img)+1)
			run.Count("log["+tag+"].flat_bit_flips_visited", len(img)*8)
		}
	})

	// (b) the real files
	cfg := pickCfg(r, true, len(img))
	cfg.Timed = false
	fl, ok := writeThroughFileWAL(c, r, list, cfg, true)
	if !ok {
		return
	}
	defer fl.cleanup()
	run.Count("rotations", fl.rotations)
	run.Count("restarts", fl.restarts)
	if !cfg.Timed && r.Intn(2) == 0 {
		// a validator that has been running for a long time: old files were pruned (the group's total size limit),
		// the indices of the remaining ones are high and straddle a power of ten (file names are "%03d"-formatted)
		if hi, err := shiftIndices(fl.path, r); err != nil {
			run.Inconclusive("renaming rotated files: " + err.Error())
			return
		} else if hi > 0 {
			run.Count("layouts_with_high_file_indices", 1)
			run.Max("max_file_index", int64(hi))
		}
	}
	llm, files := layoutModel(c, fl, "after stop")
	if llm == nil {
		return
	}
	run.Max("max_files_in_layout", int64(len(files)))
	ro := openReadOnly(c, fl)
	if ro == nil {
		return
	}
	defer closeReadOnly(ro)
	lj := &judge{c: c, lm: llm, ctx: fl.ctx()}
	c.Guard("rotated files under enumerated faults", func() interface{} { return lj.witness(lj.cur, nil) }, func() {
		lj.readIntact(ro, meterExact)
		searchAll(lj, ro, r, files, 3)
		le := newLayoutEnv(lj, ro, files, r)
		le.cheap = true
		total := len(llm.img)
		run.Count("exh_layout_bytes", total)
		run.Count("exh_layout_trunc_space", total+len(files))
		run.Count("exh_layout_flip_space", total*8)
		for fi, f := range files {
			for cut := 0; cut <= len(f.data); cut++ {
				le.eval(fault{Kind: "trunc", File: fi, Off: llm.fileStart[fi] + cut}, fi, f.data[:cut:cut], false)
				run.Count("exh_layout_trunc_visited", 1)
			}
			buf := append([]byte{}, f.data...)
			for bit := 0; bit < len(f.data)*8; bit++ {
				off := bit / 8
				buf[off] ^= 1 << uint(bit%8)
				le.eval(fault{Kind: "flip:" + flipField(llm, llm.fileStart[fi]+off), File: fi, Off: llm.fileStart[fi] + off, Bit: bit % 8}, fi, buf, false)
				buf[off] ^= 1 << uint(bit%8)
				run.Count("exh_layout_flip_visited", 1)
			}
			le.restore(fi)
		}
		if perLog {
			run.Count("log["+tag+"].layout_bytes", total)
			run.Count("log["+tag+"].layout_files", len(files))
			run.Count("log["+tag+"].layout_truncations_visited", total+len(files))
			run.Count("log["+tag+"].layout_bit_flips_visited", total*8)
		}
	})
	if c.I < 2 {
		run.Sample(map[string]interface{}{"case": c.Group + ":" + fmt.Sprint(c.I), "records": len(msgs), "kinds": kindsOf(msgs), "flat_bytes": len(img), "wal": cfg,
			"files": len(files), "rotations": fl.rotations, "first_records": lm.canonHead(4)})
	}
}

func (lm *logModel) canonHead(n int) []string {
	var out []string
	for i := 0; i < n && i < len(lm.canon); i++ {
		out = append(out, short(lm.canon[i], 140))
	}
	return out
}

// largeLog: records up to the full part size, random faults of every class.
func largeLog(c *core.Case) {
	r, run := c.R, c.Run
	g := &gen{r: r}
	n := 6 + r.Intn(40)
	list := g.list(n)
	run.Count("generator_draws_rejected_by_validatebasic", g.rejected)
	msgs := randomTimes(r, list)
	dir, err := scratchDir("verif-c15-repair-")
	if err != nil {
		run.Inconclusive("scratch dir: " + err.Error())
		return
	}
	defer os.RemoveAll(dir)
	lm := buildFlat(c, msgs)
	if lm == nil {
		return
	}
	run.Count("logs", 1)
	run.Count("records_written", len(msgs))
	run.Distinct("kinds", kindsOf(msgs))
	run.Max("max_log_bytes", int64(len(lm.img)))
	run.Max("max_record_bytes", int64(lm.maxRec))
	j := &judge{c: c, lm: lm}
	env := &flatEnv{j: j, dir: dir, repair: true}
	nf := 40
	c.Guard("flat log under random faults", func() interface{} { return j.witness(j.cur, nil) }, func() {
		for i := 0; i < nf; i++ {
			f, out, _, changed := randomFault(r, lm.img, lm.frames)
			if !changed {
				continue
			}
			env.eval(f, out)
		}
	})

	cfg := pickCfg(r, false, len(lm.img))
	fl, ok := writeThroughFileWAL(c, r, list, cfg, true)
	if !ok {
		return
	}
	defer fl.cleanup()
	run.Count("rotations", fl.rotations)
	run.Count("restarts", fl.restarts)
	if cfg.Timed {
		run.Count("logs_rotated_by_ticker", 1)
	}
	if !cfg.Timed && r.Intn(2) == 0 {
		// as in the small logs: high file indices straddling a power of ten
		if hi, err := shiftIndices(fl.path, r); err != nil {
			run.Inconclusive("renaming rotated files: " + err.Error())
			return
		} else if hi > 0 {
			run.Count("layouts_with_high_file_indices", 1)
			run.Max("max_file_index", int64(hi))
		}
	}
	llm, files := layoutModel(c, fl, "after stop")
	if llm == nil {
		return
	}
	run.Max("max_files_in_layout", int64(len(files)))
	ro := openReadOnly(c, fl)
	if ro == nil {
		return
	}
	defer closeReadOnly(ro)
	lj := &judge{c: c, lm: llm, ctx: fl.ctx()}
	c.Guard("rotated files under random faults", func() interface{} { return lj.witness(lj.cur, nil) }, func() {
		lj.readIntact(ro, meterExact)
		searchAll(lj, ro, r, files, 3)
		if cfg.Timed {
			// the real ticker placed the rotation points: the layout is not a function of the case's
			// PRNG, so only the layout-independent checks above are made (a fault drawn on these
			// files would not replay)
			return
		}
		le := newLayoutEnv(lj, ro, files, r)
		for i := 0; i < nf; i++ {
			fi := r.Intn(len(files))
			f, out, reorder, changed := randomFault(r, files[fi].data, localFrames(llm, files, fi))
			if !changed {
				continue
			}
			f.File = fi
			f.Off += llm.fileStart[fi]
			le.eval(f, fi, out, reorder)
			le.restore(fi)
		}
	})
	if c.I < 2 {
		run.Sample(map[string]interface{}{"case": c.Group + ":" + fmt.Sprint(c.I), "records": len(msgs), "kinds": kindsOf(msgs), "flat_bytes": len(lm.img), "wal": cfg,
			"files": len(files), "rotations": fl.rotations, "first_records": lm.canonHead(3)})
	}
}

func Main() {
	log.Root().SetHandler(log.DiscardHandler())
	r := core.Start("C15", "fault_enumeration")
	r.SetRule("a fault evaluation is non-trivial when at least one intact record precedes the damage and the damaged image differs from the written log (the reader must both keep a prefix and stop); distinct by (log, flat image or rotated files, fault class, file, damaged record). Logs hold all six WAL message kinds with random field values; small logs (<= 4 KiB) get EVERY truncation offset and EVERY single-bit flip, on the encoder image (decoder and repairWalFile) and on the real rotated files (group reader and SearchForEndHeight); large logs get random faults of every class")
	r.Assume("messages are in the domain the consensus state writes (they pass ValidateBasic); end-height markers increase strictly; a corruption that leaves a well-formed record with a matching CRC-32C is out of scope (counted as out_of_scope_crc_preserving)")
	r.Assume(fmt.Sprintf("message size limit transcribed from consensus/wal.go: %d bytes; one Decode may allocate the limit + 2 x largest record of the log + %d slack", maxMsgSizeBytes, allocSlack))
	// the cases are single-threaded; few Ps keep the stop-the-world of the exact allocation meter short on a busy machine
	// one scratch root per run, removed by the parent even when a child process died inside a case
	if !r.IsChild() {
		if base, err := scratchDir("verif-c15-run-"); err == nil {
			os.Setenv("VERIF_C15_SCRATCH", base)
			defer os.RemoveAll(base)
		}
	}
	opts := func(p int) core.Opts {
		return core.Opts{Procs: p, HangIsViolation: true, StallSec: 900, MemMB: 8192, Env: []string{"GOMAXPROCS=2"}}
	}
	r.Cases("corpus", corpusSize, opts(4), corpus)
	nSmall := r.N(6, 300)
	r.Cases("small", nSmall, opts(r.N(6, 16)), smallLog)
	r.Cases("large", r.N(40, 3000), opts(r.N(8, 16)), largeLog)
	r.Cases("encoder", r.N(40, 2000), opts(r.N(8, 16)), encoderCase)
	r.Cases("onstart-repair", r.N(40, 1200), core.Opts{Procs: r.N(8, 16), StallSec: 600}, onStartRepair)
	r.Cases("total-size-pruning", r.N(60, 3000), opts(r.N(6, 16)), pruneCase)

	if !r.IsChild() && os.Getenv("VERIF_ONLY_CASE") == "" {
		complete := r.Counter("exh_logs_done") == int64(nSmall)+int64(corpusExhaustive)
		summary := map[string]interface{}{"small_logs_enumerated": r.Counter("exh_logs_done")}
		for _, k := range []string{"exh_flat_trunc", "exh_flat_flip", "exh_layout_trunc", "exh_layout_flip"} {
			v, s := r.Counter(k+"_visited"), r.Counter(k+"_space")
			summary[k] = fmt.Sprintf("%d of %d", v, s)
			if v != s || s == 0 {
				complete = false
			}
		}
		r.Extra("exhaustive_enumeration", summary)
		r.Exhaustive(complete)
		r.Floor("exh_logs_done", int64(nSmall))
		r.Floor("rotations", 20)
		r.Floor("encoder_rotations", 100)
		r.Floor("layouts_with_high_file_indices", 5)
		r.Floor("restarts", 20)
		r.Floor("search_found", 50)
		r.Floor("search_not_found", 20)
		r.Floor("search_positioned_before_a_message", 20)
		r.Floor("decode_end:corruption", 1000)
		r.Floor("decode_end:eof", 100)
		r.Floor("repairs_that_cut", 1000)
		r.Floor("faults:lenfield", 20)
		r.Floor("faults:overwrite", 20)
		r.Floor("corpus_size_limit_checks", 3)
		r.Floor("onstart_logs_readable_after_restart", 15)
		r.Floor("prune_passes_that_removed", 100)
		r.Floor("prune_passes_that_kept_rotated_files", 50)
		r.Floor("pruned_logs_that_lost_a_prefix", 30)
	}
	if base := os.Getenv("VERIF_C15_SCRATCH"); base != "" && !r.IsChild() {
		os.RemoveAll(base) // Finish exits the process
	}
	r.Finish()
}
