package c15

import (
	"bytes"
	"fmt"
	"math/rand"
	"os"
	"strings"
	"time"

	"github.com/gogo/protobuf/proto"
	"github.com/kardiachain/go-kardia/consensus"
	kcons "github.com/kardiachain/go-kardia/proto/kardiachain/consensus"
	"github.com/kardiachain/go-kardia/types"

	"verifharness/core"
)

// The boundary corpus does not depend on the seed: fixed logs, fixed faults, aimed at the
// places where a mutation of the anchored mechanisms shows (size limit +-1, every value of
// a length field, zero-filled tails, whole-record moves, markers at file boundaries,
// records larger than the reader's and writer's buffers).

const corpusSize = 9
const corpusExhaustive = 2 // corpus cases 7 and 8 are exhaustively enumerated fixed logs

var corpusTime = time.Unix(1700000000, 123456789).UTC()

func stepMsg(k int) consensus.WALMessage {
	return types.EventDataRoundState{Height: 1, Round: 2, Step: strings.Repeat("s", k)}
}

// payloadLen is the length field the real encoder writes for m.
func payloadLen(m consensus.WALMessage) (int, error) {
	img, _, err := encodeFlat([]tmsg{{corpusTime, m}})
	if err != nil {
		return 0, err
	}
	return len(img) - 8, nil
}

// exactStep returns k such that stepMsg(k) encodes to exactly the size limit.
func exactStep(c *core.Case) (int, bool) {
	l0, err := payloadLen(stepMsg(1000000))
	if err != nil {
		c.Violation("size-limit:encoder-refused-below-limit", "a record of about 1 000 030 bytes was refused: "+err.Error(), nil)
		return 0, false
	}
	k := maxMsgSizeBytes - (l0 - 1000000)
	return k, true
}

func marshalPayload(m consensus.WALMessage) ([]byte, error) {
	pb, err := consensus.WALToProto(m)
	if err != nil {
		return nil, err
	}
	return proto.Marshal(&kcons.TimedWALMessage{Time: corpusTime, Msg: pb})
}

func fixedList(seed int64, n int, small bool) []consensus.WALMessage {
	g := &gen{r: rand.New(rand.NewSource(seed)), small: small}
	return g.list(n)
}

func corpus(c *core.Case) {
	run := c.Run
	fr := rand.New(rand.NewSource(1500 + int64(c.I)))
	small := []consensus.WALMessage{consensus.EndHeightMessage{Height: 7}, fixedList(3, 6, true)[0]}
	switch c.I {
	case 0: // encoder: exactly at the limit is written, one byte more is refused and leaves the log readable
		k, ok := exactStep(c)
		if !ok {
			return
		}
		var buf bytes.Buffer
		enc := consensus.NewWALEncoder(&buf)
		var msgs []tmsg
		put := func(m consensus.WALMessage) error {
			err := enc.Encode(&consensus.TimedWALMessage{Time: corpusTime, Msg: m})
			if err == nil {
				msgs = append(msgs, tmsg{corpusTime, m})
			}
			return err
		}
		put(small[0])
		before := buf.Len()
		if err := put(stepMsg(k)); err != nil {
			c.Violation("size-limit:encoder-refused-at-limit", fmt.Sprintf("a record of exactly %d bytes was refused: %v", maxMsgSizeBytes, err), nil)
			return
		}
		if got := buf.Len() - before - 8; got != maxMsgSizeBytes {
			run.Inconclusive(fmt.Sprintf("corpus: could not build a record of exactly the limit (got %d)", got))
			return
		}
		put(small[1])
		before = buf.Len()
		err := put(stepMsg(k + 1))
		if err == nil {
			c.Violation("size-limit:encoder-accepted-over-limit", fmt.Sprintf("a record of %d bytes (limit %d) was written", maxMsgSizeBytes+1, maxMsgSizeBytes), nil)
			return
		}
		if buf.Len() != before {
			c.Violation("size-limit:refused-message-left-bytes", fmt.Sprintf("the refused message left %d bytes in the log", buf.Len()-before), nil)
			return
		}
		put(small[0])
		img := append([]byte{}, buf.Bytes()...)
		frames, stop := refParse(img)
		if stop != "clean" || len(frames) != len(msgs) {
			c.Violation("framing:flat:not-as-specified", fmt.Sprintf("after a refused message: %d records then %s, %d written", len(frames), stop, len(msgs)), nil)
			return
		}
		lm := newLogModel("flat", img, frames, msgs)
		j := &judge{c: c, lm: lm}
		c.Guard("log with a record at the size limit", func() interface{} { return j.witness(j.cur, nil) }, func() {
			j.decode(fault{Kind: "none"}, img, decodeAll(bytes.NewReader(img), meterExact))
			// the big record's length field +1 (crosses into the next record) and a cut inside it
			for _, name := range []string{"L+1", "max+1", "2^32-1", "0"} {
				f, out, _ := setLen(img, frames, 1, name)
				j.cur = f
				j.decode(f, out, decodeAll(bytes.NewReader(out), meterExact))
				j.nontrivial(f, out)
			}
		})
		run.Count("corpus_size_limit_checks", 1)
		run.Nontrivial("corpus:size-limit-encoder")

	case 1: // the same through the real file WAL
		k, ok := exactStep(c)
		if !ok {
			return
		}
		fl, err := newFileLog(c, walCfg{Limit: 0, Sessions: 1})
		if err != nil {
			run.Inconclusive(err.Error())
			return
		}
		defer fl.cleanup()
		if err := fl.start(); err != nil {
			c.Violation("roundtrip:file:start-failed", err.Error(), nil)
			return
		}
		fl.write(small[0], false)
		if err := fl.write(stepMsg(k), true); err != nil {
			c.Violation("size-limit:encoder-refused-at-limit", fmt.Sprintf("WAL.WriteSync of a record of exactly %d bytes: %v", maxMsgSizeBytes, err), nil)
			fl.stop()
			return
		}
		errW := fl.write(stepMsg(k+1), false)
		errS := fl.write(stepMsg(k+1), true)
		fl.write(small[1], true)
		fl.stop()
		if errW == nil || errS == nil {
			c.Violation("size-limit:encoder-accepted-over-limit", fmt.Sprintf("WAL.Write/WriteSync of a record of %d bytes returned %v / %v", maxMsgSizeBytes+1, errW, errS), nil)
			return
		}
		lm, files := layoutModel(c, fl, "after a refused message")
		if lm == nil {
			return
		}
		ro := openReadOnly(c, fl)
		if ro == nil {
			return
		}
		defer closeReadOnly(ro)
		j := &judge{c: c, lm: lm, ctx: fl.ctx()}
		c.Guard("file WAL with a record at the size limit", func() interface{} { return j.witness(j.cur, nil) }, func() {
			j.readIntact(ro, meterExact)
			searchAll(j, ro, fr, files, 2)
		})
		run.Count("corpus_size_limit_checks", 1)
		run.Nontrivial("corpus:size-limit-file")

	case 2: // decoder: a well-formed record one byte over the limit is not a record
		k, ok := exactStep(c)
		if !ok {
			return
		}
		msgs := []tmsg{{corpusTime, small[0]}, {corpusTime, small[1]}, {corpusTime, stepMsg(k)}}
		lmIntact := buildFlat(c, msgs)
		if lmIntact == nil {
			return
		}
		pe, err1 := marshalPayload(stepMsg(k))
		po, err2 := marshalPayload(stepMsg(k + 1))
		if err1 != nil || err2 != nil || len(pe) != maxMsgSizeBytes || len(po) != maxMsgSizeBytes+1 {
			run.Inconclusive(fmt.Sprintf("corpus: hand-made payloads have %d / %d bytes (%v %v)", len(pe), len(po), err1, err2))
			return
		}
		if !bytes.Equal(frameRecord(pe), lmIntact.img[lmIntact.frames[2].start:]) {
			c.Violation("framing:flat:not-as-specified", "the record at the size limit is not crc32c|length|protobuf(TimedWALMessage)", nil)
			return
		}
		// intact, intact, OVER-LIMIT (valid CRC, valid protobuf), intact
		var img []byte
		img = append(img, lmIntact.img[:lmIntact.frames[1].end]...)
		at := len(img)
		img = append(img, frameRecord(po)...)
		img = append(img, lmIntact.img[:lmIntact.frames[0].end]...)
		dir, err := scratchDir("verif-c15-repair-")
		if err != nil {
			run.Inconclusive(err.Error())
			return
		}
		defer os.RemoveAll(dir)
		j := &judge{c: c, lm: lmIntact}
		env := &flatEnv{j: j, dir: dir, repair: true}
		c.Guard("record over the size limit on disk", func() interface{} { return j.witness(j.cur, nil) }, func() {
			env.eval(fault{Kind: "overlimit", Off: at, Val: "well-formed record of limit+1 bytes inserted after record 1"}, img)
		})
		run.Count("corpus_size_limit_checks", 1)
		run.Nontrivial("corpus:size-limit-decoder")

	case 3, 4: // fixed log: every value of every length field, tails, whole-record moves; flat (3) and rotated files (4)
		list := fixedList(15, 9, true)
		if c.I == 3 {
			msgs := randomTimes(rand.New(rand.NewSource(16)), list)
			lm := buildFlat(c, msgs)
			if lm == nil {
				return
			}
			dir, err := scratchDir("verif-c15-repair-")
			if err != nil {
				run.Inconclusive(err.Error())
				return
			}
			defer os.RemoveAll(dir)
			j := &judge{c: c, lm: lm}
			env := &flatEnv{j: j, dir: dir, repair: true}
			c.Guard("fixed flat log", func() interface{} { return j.witness(j.cur, nil) }, func() {
				fixedFaults(fr, lm.img, lm.frames, func(f fault, out []byte, reorder bool) { env.eval(f, out) })
			})
		} else {
			fl, ok := writeThroughFileWAL(c, fr, list, walCfg{Limit: 300, Sessions: 2}, true)
			if !ok {
				return
			}
			defer fl.cleanup()
			run.Count("rotations", fl.rotations)
			run.Count("restarts", fl.restarts)
			lm, files := layoutModel(c, fl, "after stop")
			if lm == nil {
				return
			}
			ro := openReadOnly(c, fl)
			if ro == nil {
				return
			}
			defer closeReadOnly(ro)
			j := &judge{c: c, lm: lm, ctx: fl.ctx()}
			c.Guard("fixed rotated log", func() interface{} { return j.witness(j.cur, nil) }, func() {
				le := newLayoutEnv(j, ro, files, fr)
				for fi := range files {
					lf := localFrames(lm, files, fi)
					if len(lf) == 0 {
						continue
					}
					fixedFaults(fr, files[fi].data, lf, func(f fault, out []byte, reorder bool) {
						f.File = fi
						f.Off += lm.fileStart[fi]
						le.eval(f, fi, out, reorder)
					})
					le.restore(fi)
				}
			})
		}
		run.Nontrivial(fmt.Sprintf("corpus:fixed-log:%d", c.I))

	case 5: // markers at file boundaries: every record in a file of its own, empty head, restart on an empty head, rotation with unflushed writes
		list := fixedList(17, 21, true)
		fl, err := newFileLog(c, walCfg{Limit: 1, Sessions: 3})
		if err != nil {
			run.Inconclusive(err.Error())
			return
		}
		defer fl.cleanup()
		for s := 0; s < 3; s++ {
			if err := fl.start(); err != nil {
				c.Violation("roundtrip:file:start-failed", err.Error(), nil)
				return
			}
			fl.check(true)
			// sessions 0 and 1: every write synced, then a check (one record per file);
			// session 2: every second write is unsynced and sits in the group's buffer when the check rotates the head
			for i, m := range list[s*7 : s*7+7] {
				synced := s < 2 || i%2 == 0
				if err := fl.write(m, synced); err != nil {
					c.Violation("roundtrip:file:write-refused-valid-message", err.Error(), nil)
					fl.stop()
					return
				}
				if s < 2 {
					fl.check(true)
				} else if !synced {
					fl.check(false) // the head holds the previous record on disk and this one only in the buffer
				}
			}
			if s == 2 {
				// a marker as the very last record (heights stay increasing), followed by an empty head
				fl.write(consensus.EndHeightMessage{Height: 1 << 50}, true)
				fl.check(true)
			}
			fl.wal.FlushAndSync()
			lm, files := layoutModel(c, fl, "one record per file")
			if lm != nil {
				j := &judge{c: c, lm: lm, ctx: fl.ctx()}
				c.Guard("one record per file", func() interface{} { return j.witness(j.cur, nil) }, func() {
					j.readIntact(fl.wal, meterExact)
					searchAll(j, fl.wal, fr, files, 3)
				})
				run.Max("max_files_in_layout", int64(len(files)))
			}
			fl.stop()
		}
		run.Count("rotations", fl.rotations)
		run.Count("restarts", fl.restarts)
		// the second start found an empty head and wrote EndHeight 0 again: at least two markers for height 0
		if n := len(heightsOf(fl.model)[0]); n < 2 {
			run.Inconclusive(fmt.Sprintf("corpus: expected end-height-0 markers after a restart on an empty head, model has %d", n))
		}
		run.Nontrivial("corpus:one-record-per-file")

	case 6: // records larger than the 4 KiB reader buffer and the 40 KiB writer buffer
		g := &gen{r: rand.New(rand.NewSource(18))}
		ps := types.NewPartSetFromData(g.bytes(3*types.BlockPartSizeBytes-100), types.BlockPartSizeBytes)
		var list []consensus.WALMessage
		for i := 0; i < 3; i++ {
			list = append(list, g.msg(2), consensus.VerifNewMsgInfo(&consensus.BlockPartMessage{Height: 5, Round: 0, Part: ps.GetPart(i)}, ""), g.msg(5), g.msg(0))
		}
		msgs := randomTimes(rand.New(rand.NewSource(19)), list)
		lm := buildFlat(c, msgs)
		if lm == nil {
			return
		}
		dir, err := scratchDir("verif-c15-repair-")
		if err != nil {
			run.Inconclusive(err.Error())
			return
		}
		defer os.RemoveAll(dir)
		j := &judge{c: c, lm: lm}
		env := &flatEnv{j: j, dir: dir, repair: true}
		c.Guard("log with full-size block parts", func() interface{} { return j.witness(j.cur, nil) }, func() {
			boundaryFaults(lm.img, lm.frames, func(f fault, out []byte) { env.eval(f, out) })
		})
		fl, ok := writeThroughFileWAL(c, fr, list, walCfg{Limit: 100000, Sessions: 2}, true)
		if !ok {
			return
		}
		defer fl.cleanup()
		run.Count("rotations", fl.rotations)
		run.Count("restarts", fl.restarts)
		llm, files := layoutModel(c, fl, "after stop")
		if llm == nil {
			return
		}
		ro := openReadOnly(c, fl)
		if ro == nil {
			return
		}
		defer closeReadOnly(ro)
		lj := &judge{c: c, lm: llm, ctx: fl.ctx()}
		c.Guard("rotated log with full-size block parts", func() interface{} { return lj.witness(lj.cur, nil) }, func() {
			lj.readIntact(ro, meterExact)
			searchAll(lj, ro, fr, files, 2)
			le := newLayoutEnv(lj, ro, files, fr)
			for fi := range files {
				lf := localFrames(llm, files, fi)
				boundaryFaults(files[fi].data, lf, func(f fault, out []byte) {
					f.File = fi
					f.Off += llm.fileStart[fi]
					le.eval(f, fi, out, false)
				})
				le.restore(fi)
			}
		})
		run.Nontrivial("corpus:large-records")

	case 7: // a fixed small log, exhaustively
		exhaustive(c, rand.New(rand.NewSource(20)), fixedList(21, 8, true), "corpus:fixed")
		run.Count("exh_logs_done", 1)

	case 8: // records that end in zero bytes: a cut that only loses zeros leaves a record a buffer-filling reader still sees whole
		l := fixedList(22, 3, true)
		list := []consensus.WALMessage{l[0], types.EventDataRoundState{Height: 3, Round: 1, Step: "RoundStepPropose\x00\x00\x00"}, l[1],
			consensus.EndHeightMessage{Height: 1}, types.EventDataRoundState{Height: 4, Round: 0, Step: "\x00"}, l[2],
			consensus.EndHeightMessage{Height: 2}, types.EventDataRoundState{Height: 5, Round: 0, Step: "\x00\x00"}}
		exhaustive(c, rand.New(rand.NewSource(23)), list, "corpus:zero-tails")
		run.Count("exh_logs_done", 1)
	}
	run.Count("corpus_scenarios", 1)
}

// fixedFaults enumerates, for a small log: every listed value in every length field, a zeroed
// header at every record, tails of every kind, every whole-record duplication, swap and removal.
func fixedFaults(r *rand.Rand, data []byte, frames []frame, eval func(f fault, out []byte, reorder bool)) {
	for rec := range frames {
		for _, name := range lenValues {
			if f, out, changed := setLen(data, frames, rec, name); changed {
				eval(f, out, false)
			}
		}
		// crc and length both zero: a record whose empty payload matches its checksum
		out := append([]byte{}, data...)
		for i := 0; i < 8; i++ {
			out[frames[rec].start+i] = 0
		}
		eval(fault{Kind: "overwrite", Off: frames[rec].start, Len: 8, Rec: rec, Val: "header zeroed"}, out, false)
	}
	for _, n := range []int{1, 3, 4, 5, 7, 8, 9, 16, 512, 4096} {
		out := append(append([]byte{}, data...), make([]byte, n)...)
		eval(fault{Kind: "suffix:zeros", Off: len(data), Len: n}, out, false)
	}
	for i := 0; i < 40; i++ {
		f, out := suffix(r, data, frames, i%4)
		eval(f, out, false)
	}
	for a := range frames {
		for b := -1; b < len(frames); b++ {
			f, out := dupRecord(data, frames, a, b)
			eval(f, out, true)
		}
		for b := a + 1; b < len(frames); b++ {
			f, out := swapRecords(data, frames, a, b)
			if !bytes.Equal(out, data) {
				eval(f, out, true)
			}
		}
		f, out := dropRecord(data, frames, a)
		eval(f, out, true)
	}
}

// boundaryFaults: for every record a cut at its start+-1, inside its header and inside its
// payload, a flip in every header byte and in the first, a middle and the last payload byte,
// and the length field +-1.
func boundaryFaults(data []byte, frames []frame, eval func(f fault, out []byte)) {
	for rec, fr := range frames {
		cuts := []int{fr.start - 1, fr.start, fr.start + 1, fr.start + 4, fr.start + 7, fr.start + 8, fr.start + 9, (fr.start + fr.end) / 2, fr.end - 1}
		for _, cut := range cuts {
			if cut >= 0 && cut < len(data) {
				eval(fault{Kind: "trunc", Off: cut, Rec: rec}, data[:cut:cut])
			}
		}
		offs := []int{fr.start, fr.start + 1, fr.start + 2, fr.start + 3, fr.start + 4, fr.start + 5, fr.start + 6, fr.start + 7, fr.start + 8, (fr.start + fr.end) / 2, fr.end - 1}
		for i, off := range offs {
			out := append([]byte{}, data...)
			bit := i % 8
			out[off] ^= 1 << uint(bit)
			_, fld := fieldIn(frames, off)
			eval(fault{Kind: "flip:" + fld, Off: off, Bit: bit, Rec: rec}, out)
		}
		for _, name := range []string{"L-1", "L+1", "0", "2^32-1", "max+1"} {
			if f, out, changed := setLen(data, frames, rec, name); changed {
				eval(f, out)
			}
		}
	}
}
