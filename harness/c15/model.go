package c15

import (
	"crypto/sha256"
	"encoding/hex"
	"fmt"
	"math"
	"math/rand"
	"strings"
	"time"

	"github.com/kardiachain/go-kardia/consensus"
	cstypes "github.com/kardiachain/go-kardia/consensus/types"
	"github.com/kardiachain/go-kardia/lib/common"
	"github.com/kardiachain/go-kardia/lib/p2p"
	kproto "github.com/kardiachain/go-kardia/proto/kardiachain/types"
	"github.com/kardiachain/go-kardia/types"
)

// tmsg is one WAL record as the harness knows it: the time stamp and the message.
type tmsg struct {
	T time.Time
	M consensus.WALMessage
}

// ---- canonical rendering (harness side; every persisted field, nothing else) ----

func hexOrSum(b []byte) string {
	if len(b) <= 40 {
		return hex.EncodeToString(b)
	}
	s := sha256.Sum256(b)
	return fmt.Sprintf("len%d:sha%x", len(b), s[:12])
}

func canonTime(t time.Time) string { return fmt.Sprintf("%d.%09d", t.Unix(), t.Nanosecond()) }

func canonBlockID(b types.BlockID) string {
	return fmt.Sprintf("%x/%d/%x", b.Hash[:], b.PartsHeader.Total, b.PartsHeader.Hash[:])
}

func canonConsMsg(m consensus.Message) string {
	switch v := m.(type) {
	case *consensus.VoteMessage:
		if v == nil || v.Vote == nil {
			return "Vote{nil}"
		}
		x := v.Vote
		return fmt.Sprintf("Vote{addr=%x idx=%d h=%d r=%d ts=%s type=%d bid=%s sig=%s}", x.ValidatorAddress[:], x.ValidatorIndex,
			x.Height, x.Round, canonTime(x.Timestamp), int32(x.Type), canonBlockID(x.BlockID), hexOrSum(x.Signature))
	case *consensus.ProposalMessage:
		if v == nil || v.Proposal == nil {
			return "Proposal{nil}"
		}
		x := v.Proposal
		return fmt.Sprintf("Proposal{h=%d r=%d pol=%d ts=%s bid=%s sig=%s}", x.Height, x.Round, x.POLRound, canonTime(x.Timestamp),
			canonBlockID(x.POLBlockID), hexOrSum(x.Signature))
	case *consensus.BlockPartMessage:
		if v == nil || v.Part == nil {
			return "BlockPart{nil}"
		}
		p := v.Part
		var aunts []string
		for _, a := range p.Proof.Aunts {
			aunts = append(aunts, hex.EncodeToString(a))
		}
		return fmt.Sprintf("BlockPart{h=%d r=%d idx=%d bytes=%s proof={total=%d index=%d leaf=%x aunts=[%s]}}", v.Height, v.Round, p.Index,
			hexOrSum(p.Bytes), p.Proof.Total, p.Proof.Index, p.Proof.LeafHash, strings.Join(aunts, ","))
	}
	return fmt.Sprintf("?%T{%+v}", m, m)
}

// canon renders a WAL message. The RoundState field of a round-step event is
// documented as private and not persisted, so it is not part of the rendering.
func canon(m consensus.WALMessage) string {
	switch v := m.(type) {
	case types.EventDataRoundState:
		return fmt.Sprintf("RoundStep{h=%d r=%d step=%q}", v.Height, v.Round, v.Step)
	case consensus.VerifTimeoutInfo:
		return fmt.Sprintf("Timeout{d=%d h=%d r=%d step=%d}", int64(v.Duration), v.Height, v.Round, uint8(v.Step))
	case consensus.EndHeightMessage:
		return fmt.Sprintf("EndHeight{%d}", v.Height)
	case consensus.VerifMsgInfo:
		return fmt.Sprintf("MsgInfo{peer=%q %s}", string(v.PeerID), canonConsMsg(v.Msg))
	}
	return fmt.Sprintf("?%T{%+v}", m, m)
}

func canonT(t time.Time, m consensus.WALMessage) string { return canonTime(t) + "|" + canon(m) }

func kindOf(m consensus.WALMessage) string {
	switch v := m.(type) {
	case types.EventDataRoundState:
		return "roundstep"
	case consensus.VerifTimeoutInfo:
		return "timeout"
	case consensus.EndHeightMessage:
		return "endheight"
	case consensus.VerifMsgInfo:
		switch v.Msg.(type) {
		case *consensus.VoteMessage:
			return "vote"
		case *consensus.ProposalMessage:
			return "proposal"
		case *consensus.BlockPartMessage:
			return "blockpart"
		}
	}
	return "other"
}

func short(s string, n int) string {
	if len(s) > n {
		return s[:n] + "..."
	}
	return s
}

// ---- generator ----

var u64Boundary = []uint64{0, 1, 127, 128, 1<<32 - 1, 1 << 32, 1<<63 - 1, 1 << 63, math.MaxUint64}
var u32Boundary = []uint32{0, 1, 127, 128, 1<<31 - 1, 1 << 31, math.MaxUint32}

type gen struct {
	r     *rand.Rand
	small bool  // small records (exhaustive logs)
	h     int64 // last end-height written
	parts []*types.PartSet

	rejected int // draws outside the ValidateBasic domain
}

func (g *gen) u64() uint64 {
	switch g.r.Intn(8) {
	case 0:
		return u64Boundary[g.r.Intn(len(u64Boundary))]
	case 1:
		return g.r.Uint64()
	}
	return uint64(g.r.Intn(2000))
}

func (g *gen) u32() uint32 {
	switch g.r.Intn(8) {
	case 0:
		return u32Boundary[g.r.Intn(len(u32Boundary))]
	case 1:
		return g.r.Uint32()
	}
	return uint32(g.r.Intn(20))
}

func (g *gen) bytes(n int) []byte {
	b := make([]byte, n)
	g.r.Read(b)
	return b
}

// time stamps inside the range protobuf can carry (year 1 .. 9999), UTC, as the code base uses them.
func (g *gen) time() time.Time {
	switch g.r.Intn(10) {
	case 0:
		return time.Time{}
	case 1:
		return time.Unix(253402300799, 999999999).UTC()
	case 2:
		return time.Unix(g.r.Int63n(4102444800), 0).UTC()
	}
	return time.Unix(g.r.Int63n(4102444800), g.r.Int63n(1e9)).UTC()
}

func (g *gen) hash() common.Hash {
	h := common.BytesToHash(g.bytes(32))
	h[31] |= 1 // never the zero hash
	return h
}

// completeBlockID: non-zero hashes and a part count inside the bound validation puts on it.
func (g *gen) completeBlockID() types.BlockID {
	total := uint32(g.r.Intn(20))
	switch g.r.Intn(8) {
	case 0:
		total = types.MaxBlockPartsCount
	case 1:
		total = uint32(g.r.Intn(types.MaxBlockPartsCount + 1))
	}
	return types.BlockID{Hash: g.hash(), PartsHeader: types.PartSetHeader{Total: total, Hash: g.hash()}}
}

func (g *gen) sig() []byte {
	switch g.r.Intn(6) {
	case 0:
		return g.bytes(1 + g.r.Intn(8))
	case 1:
		if !g.small {
			return g.bytes(66 + g.r.Intn(200))
		}
	}
	return g.bytes(65)
}

func (g *gen) peer() p2p.ID {
	switch g.r.Intn(4) {
	case 0:
		return "" // internal message
	case 1:
		return p2p.ID(fmt.Sprintf("p%d", g.r.Intn(100)))
	}
	return p2p.ID(hex.EncodeToString(g.bytes(20)))
}

var stepNames = []string{"RoundStepNewHeight", "RoundStepNewRound", "RoundStepPropose", "RoundStepPrevote", "RoundStepPrevoteWait",
	"RoundStepPrecommit", "RoundStepPrecommitWait", "RoundStepCommit", "RoundStepUnknown", ""}

func (g *gen) partSet() *types.PartSet {
	if len(g.parts) > 0 && g.r.Intn(3) != 0 {
		return g.parts[g.r.Intn(len(g.parts))]
	}
	var dataLen, partSize int
	if g.small {
		partSize = 8 + g.r.Intn(120)
		dataLen = 1 + g.r.Intn(4*partSize)
	} else {
		switch g.r.Intn(6) {
		case 0: // full-size parts
			partSize = types.BlockPartSizeBytes
			dataLen = partSize*(1+g.r.Intn(3)) - g.r.Intn(2)*g.r.Intn(partSize)
		case 1:
			partSize = 1024 + g.r.Intn(types.BlockPartSizeBytes-1024+1)
			dataLen = 1 + g.r.Intn(3*partSize)
		default:
			partSize = 16 + g.r.Intn(4096)
			dataLen = 1 + g.r.Intn(8*partSize)
		}
	}
	ps := types.NewPartSetFromData(g.bytes(dataLen), uint32(partSize))
	if len(g.parts) < 4 {
		g.parts = append(g.parts, ps)
	} else {
		g.parts[g.r.Intn(len(g.parts))] = ps
	}
	return ps
}

// msg generates one message of the given kind (0..5) inside the domain the consensus
// state writes: peer and internal messages that passed ValidateBasic. The real ValidateBasic
// is the definition of that domain (the decoder re-validates what it reads), so a draw it
// rejects is discarded; rejected counts such draws.
func (g *gen) msg(kind int) consensus.WALMessage {
	for try := 0; ; try++ {
		m := g.draw(kind)
		if mi, ok := m.(consensus.VerifMsgInfo); ok && try < 50 {
			err := mi.Msg.ValidateBasic()
			if bp, isPart := mi.Msg.(*consensus.BlockPartMessage); isPart && err == nil {
				err = bp.Part.Proof.ValidateBasic()
			}
			if err != nil {
				g.rejected++
				continue
			}
		}
		return m
	}
}

func (g *gen) draw(kind int) consensus.WALMessage {
	switch kind {
	case 0:
		step := stepNames[g.r.Intn(len(stepNames))]
		if g.r.Intn(5) == 0 {
			step = string(g.bytes(g.r.Intn(24))) // arbitrary bytes in a string field
		}
		return types.EventDataRoundState{Height: g.u64(), Round: g.u32(), Step: step}
	case 1:
		var d time.Duration
		switch g.r.Intn(5) {
		case 0:
			d = 0
		case 1:
			d = -time.Duration(g.r.Int63n(int64(time.Hour)))
		case 2:
			d = time.Duration(g.r.Uint64())
		default:
			d = time.Duration(g.r.Int63n(int64(time.Minute)))
		}
		step := cstypes.RoundStepType(1 + g.r.Intn(8))
		if g.r.Intn(8) == 0 {
			step = cstypes.RoundStepType(g.r.Intn(256))
		}
		return consensus.VerifTimeoutInfo{Duration: d, Height: g.u64(), Round: g.u32(), Step: step}
	case 2:
		v := &types.Vote{ValidatorAddress: common.BytesToAddress(g.bytes(20)), ValidatorIndex: g.u32(), Height: g.u64(), Round: g.u32(),
			Timestamp: g.time(), Type: kproto.PrevoteType, Signature: g.sig()}
		if g.r.Intn(2) == 0 {
			v.Type = kproto.PrecommitType
		}
		if g.r.Intn(4) != 0 {
			v.BlockID = g.completeBlockID()
		}
		return consensus.VerifNewMsgInfo(&consensus.VoteMessage{Vote: v}, g.peer())
	case 3:
		ps := g.partSet()
		part := ps.GetPart(g.r.Intn(int(ps.Total())))
		return consensus.VerifNewMsgInfo(&consensus.BlockPartMessage{Height: g.u64(), Round: g.u32(), Part: part}, g.peer())
	case 4:
		p := &types.Proposal{Height: g.u64(), Round: g.u32(), POLRound: g.u32(), Timestamp: g.time(), POLBlockID: g.completeBlockID(), Signature: g.sig()}
		return consensus.VerifNewMsgInfo(&consensus.ProposalMessage{Proposal: p}, g.peer())
	}
	// end-height markers increase strictly, with gaps, as the consensus state writes them
	g.h += 1 + int64(g.r.Intn(3))/2
	if g.r.Intn(40) == 0 {
		g.h += g.r.Int63n(1 << 40)
	}
	return consensus.EndHeightMessage{Height: g.h}
}

// list generates n messages; every kind appears when n >= 6.
func (g *gen) list(n int) []consensus.WALMessage {
	var out []consensus.WALMessage
	for i := 0; i < n; i++ {
		k := g.r.Intn(7)
		if k == 6 {
			k = 5 // end-heights a bit more often: they are what search looks for
		}
		if i < 6 {
			k = (i + 2) % 6
		}
		out = append(out, g.msg(k))
	}
	return out
}

func heightsOf(msgs []tmsg) map[int64][]int {
	hs := map[int64][]int{}
	for i, m := range msgs {
		if e, ok := m.M.(consensus.EndHeightMessage); ok {
			hs[e.Height] = append(hs[e.Height], i)
		}
	}
	return hs
}
