package c15

import (
	"fmt"
	"math/rand"
	"os"
	"path/filepath"
	"sort"
	"strconv"

	"github.com/kardiachain/go-kardia/consensus"
	"github.com/kardiachain/go-kardia/lib/autofile"

	"verifharness/core"
)

// Group total-size-pruning: a log written through the real file WAL whose group has a small total
// size limit, so that the periodic limit check removes old files while the log grows. The written
// messages that remain must still be read back in order and unchanged, and a pass of the check may
// only remove what the limit asks for: the oldest files, one after the other, while the group is at
// or above the limit. Everything is judged on the directory before and after one pass (no writes in
// between) and on the records the group reader returns at the end.

type dirState struct {
	rot  map[int]int64 // rotated files: index -> size
	head int64
}

func statDir(headPath string) (dirState, error) {
	st := dirState{rot: map[int]int64{}}
	ents, err := os.ReadDir(filepath.Dir(headPath))
	if err != nil {
		return st, err
	}
	for _, e := range ents {
		fi, err := e.Info()
		if err != nil {
			return st, err
		}
		if e.Name() == "wal" {
			st.head = fi.Size()
		} else if m := idxRe.FindStringSubmatch(e.Name()); m != nil {
			i, _ := strconv.Atoi(m[1])
			st.rot[i] = fi.Size()
		}
	}
	return st, nil
}

func (d dirState) total() int64 {
	t := d.head
	for _, s := range d.rot {
		t += s
	}
	return t
}

func (d dirState) indices() []int {
	var out []int
	for i := range d.rot {
		out = append(out, i)
	}
	sort.Ints(out)
	return out
}

func pruneCase(c *core.Case) {
	r, run := c.R, c.Run
	head := int64(500 + r.Intn(2500))
	total := head*int64(2+r.Intn(5)) + int64(r.Intn(int(head)))
	fl, err := newFileLog(c, walCfg{Limit: head, Sessions: 1})
	if err != nil {
		run.Inconclusive("scratch dir: " + err.Error())
		return
	}
	defer fl.cleanup()
	fl.extra = []func(*autofile.Group){autofile.GroupTotalSizeLimit(total)}
	if err := fl.start(); err != nil {
		c.Violation("pruning:wal-start", err.Error(), fl.ctx())
		return
	}
	wit := func(extra map[string]interface{}) map[string]interface{} {
		w := fl.ctx()
		w["total_size_limit"] = total
		for k, v := range extra {
			w[k] = v
		}
		return w
	}
	g := &gen{r: rand.New(rand.NewSource(r.Int63())), small: true}
	list := g.list(60 + r.Intn(240))
	next := 1 + r.Intn(5)
	for i, m := range list {
		if err := fl.write(m, r.Intn(4) == 0); err != nil {
			c.Violation("pruning:write-refused", err.Error(), wit(map[string]interface{}{"message": i}))
			return
		}
		next--
		if next > 0 && i != len(list)-1 {
			continue
		}
		next = 1 + r.Intn(5)
		// one pass of the limit check between two quiescent directory listings
		fl.wal.FlushAndSync()
		before, err := statDir(fl.path)
		if err != nil {
			run.Inconclusive("stat: " + err.Error())
			return
		}
		maxBefore := fl.wal.Group().MaxIndex()
		fl.check(false)
		after, err := statDir(fl.path)
		if err != nil {
			run.Inconclusive("stat: " + err.Error())
			return
		}
		run.Eval(1)
		// the directory as the pruning step found it: a rotation renames the head to index maxBefore
		virt := dirState{rot: map[int]int64{}, head: before.head}
		for k, v := range before.rot {
			virt.rot[k] = v
		}
		if fl.wal.Group().MaxIndex() > maxBefore {
			virt.rot[maxBefore] = before.head
			virt.head = 0
		}
		var removed []int
		for _, k := range virt.indices() {
			if _, ok := after.rot[k]; !ok {
				removed = append(removed, k)
			}
		}
		w := func() map[string]interface{} {
			return wit(map[string]interface{}{"after_message": i, "before_pruning": virt.rot, "head_before": virt.head, "after": after.rot, "head_after": after.head, "removed": removed})
		}
		for k, s := range after.rot {
			if vs, ok := virt.rot[k]; !ok || vs != s {
				c.Violation("pruning:remaining-file-changed", fmt.Sprintf("file %03d has %d bytes after the pass, %d before", k, s, vs), w())
				return
			}
		}
		if after.head != virt.head {
			c.Violation("pruning:head-changed", fmt.Sprintf("head has %d bytes after the pass, %d expected", after.head, virt.head), w())
			return
		}
		if len(removed) == 0 {
			run.Count("prune_passes_without_removal", 1)
			continue
		}
		idx := virt.indices()
		for n, k := range removed {
			if idx[n] != k {
				c.Violation("pruning:removed-file-is-not-the-oldest", fmt.Sprintf("file %03d removed while %03d is still there", k, idx[n]), w())
				return
			}
		}
		last := removed[len(removed)-1]
		if after.total()+virt.rot[last] < total {
			c.Violation("pruning:file-removed-while-group-below-total-size-limit",
				fmt.Sprintf("file %03d (%d bytes) was removed when the group held %d bytes, limit %d: written records that the limit does not ask to drop are gone", last, virt.rot[last], after.total()+virt.rot[last], total), w())
			return
		}
		run.Count("prune_passes_that_removed", 1)
		run.Count("prune_files_removed", len(removed))
		if len(after.rot) > 0 {
			run.Count("prune_passes_that_kept_rotated_files", 1)
		}
		if len(removed) > 1 {
			run.Count("prune_passes_removing_several_files", 1)
		}
	}
	// what is left is read back through the group reader: the written list from a file boundary on
	fl.stop()
	if err := fl.start(); err != nil {
		c.Violation("pruning:wal-restart", err.Error(), wit(nil))
		return
	}
	res, err := readGroup(fl.wal, meterOff)
	fl.stop()
	if err != nil {
		run.Inconclusive("group reader: " + err.Error())
		return
	}
	run.Eval(1)
	if errClass(res.err) != "eof" {
		c.Violation("pruning:pruned-log-does-not-end-cleanly", fmt.Sprintf("reading the pruned log ends with %v after %d records", res.err, len(res.msgs)), wit(nil))
		return
	}
	if len(res.msgs) > len(fl.model) {
		c.Violation("pruning:more-records-than-written", fmt.Sprintf("%d read, %d written", len(res.msgs), len(fl.model)), wit(nil))
		return
	}
	off := len(fl.model) - len(res.msgs)
	for i, m := range res.msgs {
		want := fl.model[off+i]
		if got := canonT(m.Time, m.Msg); got != canonT(want.T, want.M) {
			c.Violation("pruning:remaining-records-are-not-a-suffix-of-the-written-list",
				fmt.Sprintf("record %d read back (written #%d): got %s, want %s", i, off+i, short(got, 120), short(canonT(want.T, want.M), 120)), wit(nil))
			return
		}
	}
	// the suffix starts at a file boundary: the bytes on disk hold exactly these records
	files, err := loadLayout(fl.path)
	if err != nil {
		run.Inconclusive("layout: " + err.Error())
		return
	}
	frames, stop := refParse(concat(files, -1, nil))
	if stop != "clean" || len(frames) != len(res.msgs) {
		c.Violation("pruning:reader-and-files-disagree", fmt.Sprintf("files hold %d records (%s), reader returned %d", len(frames), stop, len(res.msgs)), wit(nil))
		return
	}
	run.Count("pruned_logs_read_back", 1)
	run.Count("pruned_records_read_back", len(res.msgs))
	if off > 0 {
		run.Count("pruned_logs_that_lost_a_prefix", 1)
	}
	var _ consensus.WALMessage
}
