package c11

import (
	"encoding/hex"
	"fmt"
	"math/big"
	"math/rand"
	"runtime/debug"
	"strings"

	"github.com/kardiachain/go-kardia/lib/common"
	"github.com/kardiachain/go-kardia/lib/crypto"
	kproto "github.com/kardiachain/go-kardia/proto/kardiachain/types"
	"github.com/kardiachain/go-kardia/types"
	"github.com/kardiachain/go-kardia/types/evidence"

	"verifharness/core"
)

// Byte strings offered as signatures to every public verification function.
// Oracle: no panic; a byte string is accepted for signer A over digest d only if its
// first 64 bytes are an ECDSA signature (r,s) of d under A's key (reference
// verification) - "never accepted for the wrong signer"; on the transaction path the
// stricter rule of the property applies (refTxRule).

type sigCtx struct {
	kind   int // 0 vote, 1 proposal, 2 transaction
	k      *keyT
	x      *vctx
	chain  string
	vote   *types.Vote
	prop   *types.Proposal
	digest []byte // what the signer signed (votes, proposals)
	f      txF
	sg     signerSpec
	honest []byte // [R || S || V], V in {0,1}
}

func newSigCtx(c *core.Case, r *rand.Rand, kind int) *sigCtx {
	ks := allKeys()
	k := ks[r.Intn(len(ks))]
	h := ks[(k.i+1+r.Intn(len(ks)-1))%len(ks)]
	s := &sigCtx{kind: kind, k: k, x: newVctx(k, h), chain: voteChains[r.Intn(len(voteChains))]}
	switch kind {
	case 0:
		v := &types.Vote{ValidatorAddress: k.addr, ValidatorIndex: s.x.idxK, Height: 1 + genHeight(r)%(1<<63), Round: genRound(r), Timestamp: genTime(r),
			Type: kproto.PrecommitType, BlockID: genBlockID(r)}
		if r.Intn(3) == 0 {
			v.Type = kproto.PrevoteType
		}
		signVote(k, s.chain, v)
		s.vote, s.honest = v, v.Signature
		s.digest = crypto.Keccak256(types.VoteSignBytes(s.chain, v.ToProto()))
	case 1:
		p := &types.Proposal{Height: genHeight(r), Round: genRound(r), POLRound: genRound(r), Timestamp: genTime(r), POLBlockID: genBlockID(r)}
		signProposal(k, s.chain, p)
		s.prop, s.honest = p, p.Signature
		s.digest = crypto.Keccak256(types.ProposalSignBytes(s.chain, p.ToProto()))
	default:
		s.f = genTxF(r)
		s.sg = allSignerSpecs()[r.Intn(len(allSignerSpecs()))]
		// signed over the reference digest with the real crypto.Sign: an externally produced, standard signature
		var chain *big.Int
		if s.sg.Kind == skChainID {
			chain = s.sg.Chain
		}
		sig, err := crypto.Sign(refSigHash(s.f, chain), k.priv)
		if err != nil {
			panic(err)
		}
		s.honest = sig
	}
	return s
}

// sigClass separates panic keys by the shape of the offending byte string, so that one
// panic site reached by two different input classes gives two findings.
func sigClass(b []byte) string {
	switch {
	case len(b) < 65:
		return "signature-shorter-than-65"
	case len(b) > 65:
		return "signature-longer-than-65"
	}
	if new(big.Int).Mod(new(big.Int).SetBytes(b[:32]), curveN).Sign() == 0 {
		return "r-multiple-of-N"
	}
	if new(big.Int).Mod(new(big.Int).SetBytes(b[32:64]), curveN).Sign() == 0 {
		return "s-multiple-of-N"
	}
	return "65-byte-signature"
}

// guard is core.Case.Guard with the input class appended to the key.
func guard(c *core.Case, class, what string, w func() interface{}, fn func()) (panicked bool) {
	defer func() {
		if e := recover(); e != nil {
			st := string(debug.Stack())
			panicked = true
			l := strings.Split(st, "\n")
			if len(l) > 40 {
				l = l[:40]
			}
			c.Violation("panic:"+core.PanicKey(st)+":"+class, fmt.Sprintf("%s: panic: %v", what, e),
				map[string]interface{}{"input": w(), "stack": strings.Join(l, "\n")})
		}
	}()
	fn()
	return false
}

type namedSig struct {
	name string
	b    []byte
}

func be(v *big.Int, n int) []byte {
	b := v.Bytes()
	if len(b) > n {
		return b[len(b)-n:]
	}
	o := make([]byte, n)
	copy(o[n-len(b):], b)
	return o
}

func sigVariants(r *rand.Rand, honest []byte) []namedSig {
	R := new(big.Int).SetBytes(honest[:32])
	S := new(big.Int).SetBytes(honest[32:64])
	V := honest[64]
	mk := func(rv, sv *big.Int, v byte) []byte { return append(append(be(rv, 32), be(sv, 32)...), v) }
	var o []namedSig
	add := func(n string, b []byte) { o = append(o, namedSig{n, b}) }
	add("valid", append([]byte{}, honest...))
	for _, d := range []byte{1, 2, 3, 4, 5, 6, 7, 8, 26, 27, 28, 29, 31, 35, 128, 228, 229, 230, 255} {
		add(fmt.Sprintf("v+%d", d), mk(R, S, V+d))
	}
	add("v^1", mk(R, S, V^1))
	nS := new(big.Int).Sub(curveN, S)
	add("high-s-twin", mk(R, nS, V^1))
	add("high-s-same-v", mk(R, nS, V))
	add("high-s-twin-v+4", mk(R, nS, (V^1)+4))
	two256 := new(big.Int).Lsh(big1, 256)
	specials := map[string]*big.Int{"0": big0, "1": big1, "N-1": new(big.Int).Sub(curveN, big1), "N": curveN, "N+1": new(big.Int).Add(curveN, big1),
		"halfN": halfN, "halfN+1": new(big.Int).Add(halfN, big1), "P-1": new(big.Int).Sub(curveP, big1), "P": curveP, "2^256-1": new(big.Int).Sub(two256, big1)}
	for _, n := range []string{"0", "1", "N-1", "N", "N+1", "halfN", "halfN+1", "P-1", "P", "2^256-1"} {
		add("r="+n, mk(specials[n], S, V))
		add("s="+n, mk(R, specials[n], V))
		add("r=s="+n, mk(specials[n], specials[n], V))
	}
	if rn := new(big.Int).Add(R, curveN); rn.Cmp(two256) < 0 {
		add("r+N", mk(rn, S, V))
	}
	if sn := new(big.Int).Add(S, curveN); sn.Cmp(two256) < 0 {
		add("s+N", mk(R, sn, V))
	}
	for _, d := range []byte{1, 2, 3} {
		add(fmt.Sprintf("r=0,v+%d", d), mk(big0, S, V+d))
		add(fmt.Sprintf("r=N,v+%d", d), mk(curveN, S, V+d))
		add(fmt.Sprintf("s=N,v+%d", d), mk(R, curveN, V+d))
	}
	add("swap-r-s", mk(S, R, V))
	add("all-zero", make([]byte, 65))
	ff := make([]byte, 65)
	for i := range ff {
		ff[i] = 0xff
	}
	add("all-ff", ff)
	for i := 0; i < 3; i++ {
		b := append([]byte{}, honest...)
		b[r.Intn(64)] ^= 1 << uint(r.Intn(8))
		add("flipbit", b)
	}
	for n := 0; n < 65; n++ {
		add(fmt.Sprintf("truncated-%d", n), append([]byte{}, honest[:n]...))
	}
	for n := 66; n <= 70; n++ {
		b := append([]byte{}, honest...)
		for len(b) < n {
			b = append(b, byte(r.Intn(256)))
		}
		add(fmt.Sprintf("extended-%d", n), b)
		z := append([]byte{}, honest...)
		add(fmt.Sprintf("zero-extended-%d", n), append(z, make([]byte, n-65)...))
	}
	add("shifted", append(append([]byte{}, honest[1:]...), 0))
	add("der-like", append([]byte{0x30, 0x44, 0x02, 0x20}, honest[:62]...))
	return o
}

func randomSig(r *rand.Rand, n int, honest []byte) namedSig {
	b := make([]byte, n)
	switch r.Intn(5) {
	case 0:
		return namedSig{"zeros", b}
	case 1:
		for i := range b {
			b[i] = 0xff
		}
		return namedSig{"ones", b}
	case 2:
		if n == 65 {
			// plausible: r in [1,N), s in [1,N/2], v in {0,1}: about half of these recover some key
			rv := new(big.Int).Rand(r, new(big.Int).Sub(curveN, big1))
			sv := new(big.Int).Rand(r, halfN)
			copy(b, be(rv.Add(rv, big1), 32))
			copy(b[32:], be(sv.Add(sv, big1), 32))
			b[64] = byte(r.Intn(2))
			return namedSig{"plausible", b}
		}
		fallthrough
	case 3:
		// the honest signature, cut or padded to n bytes, one byte changed
		for i := range b {
			if i < len(honest) {
				b[i] = honest[i]
			} else {
				b[i] = byte(r.Intn(256))
			}
		}
		if n > 0 {
			b[r.Intn(n)] ^= byte(1 + r.Intn(255))
		}
		return namedSig{"honest-damaged", b}
	}
	r.Read(b)
	return namedSig{"random", b}
}

// legit reports whether acceptance of blob for key k over digest is allowed.
func legit(k *keyT, digest, blob []byte) bool {
	if len(blob) < 64 {
		return false
	}
	return refVerify(k.pub, digest, new(big.Int).SetBytes(blob[:32]), new(big.Int).SetBytes(blob[32:64]))
}

func (s *sigCtx) witness(ns namedSig) func() interface{} {
	return func() interface{} {
		w := map[string]interface{}{"signature_offered": hex.EncodeToString(ns.b), "length": len(ns.b), "variant": ns.name, "key": s.k.i,
			"honest_signature": hex.EncodeToString(s.honest)}
		switch s.kind {
		case 0:
			w["vote"] = voteW(s.vote, s.chain)
		case 1:
			w["proposal"] = propW(s.prop, s.chain)
		default:
			w["tx"] = txW(s.f, big0, big0, big0)
			w["signer"] = s.sg.String()
		}
		return w
	}
}

// offer presents one byte string to every public verification function of the kind.
func (s *sigCtx) offer(c *core.Case, r *rand.Rand, ns namedSig, ec bool) {
	run := c.Run
	run.Eval(1)
	run.Count("sigs_offered", 1)
	run.Distinct("sig_length", fmt.Sprint(len(ns.b)))
	run.Distinct("sig_variant", ns.name)
	if len(ns.b) == 65 {
		run.Count("sigs_offered_65", 1)
	}
	w := s.witness(ns)
	accepted := func(fn string) {
		run.Count("sig_acceptances", 1)
		if string(ns.b) == string(s.honest) {
			run.Count("sig_acceptances_honest", 1)
			return
		}
		if legit(s.k, s.digest, ns.b) {
			// another encoding of a signature the signer did make (other recovery-id byte, high-s twin, trailing bytes)
			run.Count("sig_acceptances_reencoded_same_signer", 1)
			run.Distinct("reencoding_accepted", ns.name+"@"+fn)
			return
		}
		c.Violation("sig:accepted-for-wrong-signer:"+fn,
			fmt.Sprintf("%s accepts a byte string (%s, %d bytes) that is not a signature of the signer over the message", fn, ns.name, len(ns.b)), w())
	}
	calls := 0
	g := func(fn string, f func() bool) {
		calls++
		guard(c, sigClass(ns.b), fn+" with a "+fmt.Sprint(len(ns.b))+"-byte signature ("+ns.name+")", w, func() {
			if f() {
				accepted(fn)
			}
		})
	}
	if s.kind == 0 || s.kind == 1 {
		d := s.digest
		g("crypto.SigToPub", func() bool {
			pub, err := crypto.SigToPub(d, ns.b)
			if err == nil && pub != nil {
				run.Count("sigtopub_recovered", 1)
				// a recovered key must be a key under which (r,s) verifies
				// (s = 0 mod N "recovers" a key under which nothing verifies; harmless for address comparison, only counted)
				if ec && len(ns.b) >= 64 {
					if refVerify(pt{pub.X, pub.Y}, d, new(big.Int).SetBytes(ns.b[:32]), new(big.Int).SetBytes(ns.b[32:64])) {
						run.Count("sigtopub_recovered_key_verifies", 1)
					} else {
						run.Count("sigtopub_recovered_key_does_not_verify", 1)
					}
				}
				return crypto.PubkeyToAddress(*pub) == s.k.addr
			}
			return false
		})
		g("crypto.Ecrecover", func() bool {
			pb, err := crypto.Ecrecover(d, ns.b)
			return err == nil && len(pb) == 65 && common.BytesToAddress(keccak(pb[1:])[12:]) == s.k.addr
		})
		g("crypto.VerifySignature", func() bool { return crypto.VerifySignature(s.k.addr, d, ns.b) })
		g("types.VerifySignature", func() bool { return types.VerifySignature(s.k.addr, d, ns.b) })
		// other digest lengths are outside the property (the node always hashes to 32 bytes): no verdict, only
		// "no panic", and not for r = 0 mod N, whose panic is independent of the digest and keyed above
		if cl := sigClass(ns.b); cl != "r-multiple-of-N" {
			for _, hl := range []int{0, 1, 31, 33, 64} {
				hl := hl
				guard(c, "non-32-byte-digest:"+cl, fmt.Sprintf("crypto.SigToPub with a %d-byte digest", hl), w, func() { crypto.SigToPub(make([]byte, hl), ns.b) })
			}
		}
	}
	switch s.kind {
	case 0:
		v := s.vote.Copy()
		v.Signature = ns.b
		g("Vote.Verify", func() bool { return v.Verify(s.chain, s.k.addr) == nil })
		g("VoteFromProto+Verify", func() bool { wv, err := wireVote(v); return err == nil && wv.Verify(s.chain, s.k.addr) == nil })
		g("VoteSet.AddVote", func() bool {
			added, err := types.NewVoteSet(s.chain, v.Height, v.Round, v.Type, s.x.vs).AddVote(v)
			return added && err == nil
		})
		if v.Type == kproto.PrecommitType {
			g("VerifyCommit", func() bool { a, ok := s.x.commitAccepts(v, s.chain, s.k.addr); return ok && a })
		}
		g("VerifyDuplicateVote", func() bool { a, _ := s.x.evidenceAccepts(r, v, s.chain); return a })
		g("DuplicateVoteEvidence.Verify", func() bool { _, a := s.x.evidenceAccepts(r, v, s.chain); return a })
	case 1:
		p := *s.prop
		p.Signature = ns.b
		g("setProposal-check", func() bool { a, _ := proposalAccepts(&p, s.chain, s.k.addr, false); return len(a) > 0 })
		g("ProposalFromProto+setProposal-check", func() bool { a, _ := proposalAccepts(&p, s.chain, s.k.addr, true); return len(a) > 1 })
	default:
		s.offerTx(c, r, ns, ec, &calls)
	}
	run.Count("sig_function_calls", calls)
}

// offerTx maps the byte string onto the (V,R,S) of a transaction in every way the code
// can be reached: WithSignature for 65-byte strings, and the wire form with R, S, V cut
// from the string (V taken raw, +27, and +35+2c).
func (s *sigCtx) offerTx(c *core.Case, r *rand.Rand, ns namedSig, ec bool, calls *int) {
	run := c.Run
	w := s.witness(ns)
	signers := []signerSpec{s.sg, {Kind: skHomestead}, allSignerSpecs()[r.Intn(len(allSignerSpecs()))]}
	check := func(route string, v, rr, ss *big.Int, sg signerSpec, tx *types.Transaction, useEC bool) {
		*calls++
		guard(c, sigClass(ns.b), "types.Sender("+sg.String()+") via "+route, w, func() {
			got, err := types.Sender(sg.real(), tx)
			if err == nil {
				run.Count("tx_sig_acceptances", 1)
			}
			diffRef(c, "signature bytes "+ns.name+" via "+route, s.f, v, rr, ss, sg, got, err, useEC)
			if m, merr := tx.AsMessage(sg.real()); (merr == nil) != (err == nil) || m.From() != got {
				c.Violation("tx:AsMessage-differs-from-Sender", "Transaction.AsMessage and types.Sender disagree", w())
			}
		})
	}
	if len(ns.b) == 65 {
		for i, sg := range signers {
			sg := sg
			var tx *types.Transaction
			if guard(c, sigClass(ns.b), "Transaction.WithSignature("+sg.String()+")", w, func() {
				var err error
				tx, err = unsignedTx(s.f).WithSignature(sg.real(), ns.b)
				if err != nil {
					tx = nil
				}
			}) || tx == nil {
				continue
			}
			v, rr, ss := tx.RawSignatureValues()
			check("WithSignature", v, rr, ss, sg, tx, ec && i == 0)
		}
	}
	cut := func(lo, hi int) *big.Int {
		if lo > len(ns.b) {
			lo = len(ns.b)
		}
		if hi > len(ns.b) {
			hi = len(ns.b)
		}
		return new(big.Int).SetBytes(ns.b[lo:hi])
	}
	rr, ss, raw := cut(0, 32), cut(32, 64), cut(64, len(ns.b))
	for i, sg := range signers[:2] {
		vs := []*big.Int{raw, new(big.Int).Add(raw, big27)}
		if sg.Kind == skChainID {
			vs = append(vs, new(big.Int).Add(raw, vFor(sg.Chain, 0)))
		}
		for j, v := range vs {
			tx, err := decodeTx(s.f, v, rr, ss)
			if err != nil {
				run.Count("tx_wire_undecodable", 1)
				continue
			}
			check("wire", v, rr, ss, sg, tx, ec && len(ns.b) != 65 && i == 0 && j == len(vs)-1)
		}
	}
}

// ---- groups ----

func sigStructured(c *core.Case) {
	r := c.R
	s := newSigCtx(c, r, c.I%3)
	vars := sigVariants(r, s.honest)
	for _, ns := range vars {
		s.offer(c, r, ns, true)
	}
	// wide values on the wire (not expressible as a 65-byte string): r, s, v beyond 32 / 8 bytes
	if s.kind == 2 {
		R := new(big.Int).SetBytes(s.honest[:32])
		S := new(big.Int).SetBytes(s.honest[32:64])
		var chain *big.Int
		if s.sg.Kind == skChainID {
			chain = s.sg.Chain
		}
		good := vFor(chain, uint(s.honest[64]))
		two := func(n uint) *big.Int { return new(big.Int).Lsh(big1, n) }
		type vrs struct {
			n       string
			v, r, s *big.Int
		}
		var list []vrs
		for _, n := range []uint{256, 257, 264, 320, 512} {
			list = append(list, vrs{fmt.Sprintf("r+2^%d", n), good, new(big.Int).Add(R, two(n)), S}, vrs{fmt.Sprintf("s+2^%d", n), good, R, new(big.Int).Add(S, two(n))},
				vrs{fmt.Sprintf("r=2^%d", n), good, two(n), S}, vrs{fmt.Sprintf("s=2^%d", n), good, R, two(n)})
		}
		for _, d := range []int64{-35, -28, -27, -26, -8, -2, -1, 1, 2, 8, 27, 35, 256, 1 << 32} {
			v := new(big.Int).Add(good, big.NewInt(d))
			if v.Sign() >= 0 {
				list = append(list, vrs{fmt.Sprintf("v%+d", d), v, R, S})
			}
		}
		for _, n := range []uint{8, 63, 64, 65, 128, 256} {
			list = append(list, vrs{fmt.Sprintf("v+2^%d", n), new(big.Int).Add(good, two(n)), R, S},
				vrs{fmt.Sprintf("v=27+2^%d", n), new(big.Int).Add(big27, two(n)), R, S})
		}
		for i := int64(0); i <= 40; i++ {
			list = append(list, vrs{fmt.Sprintf("v=%d", i), big.NewInt(i), R, S})
		}
		for _, e := range list {
			e := e
			ns := namedSig{"wide:" + e.n, append(append(e.r.Bytes(), e.s.Bytes()...), e.v.Bytes()...)}
			w := s.witness(ns)
			tx, err := decodeTx(s.f, e.v, e.r, e.s)
			if err != nil {
				c.Run.Count("tx_wire_undecodable", 1)
				continue
			}
			for _, sg := range []signerSpec{s.sg, {Kind: skHomestead}, {Kind: skChainID, Chain: new(big.Int).Sub(new(big.Int).Lsh(big1, 63), big.NewInt(17))}} {
				sg := sg
				c.Run.Eval(1)
				c.Run.Count("sigs_offered", 1)
				c.Run.Count("tx_wide_values_offered", 1)
				guard(c, "wide-values", "types.Sender("+sg.String()+") with "+e.n, w, func() {
					got, err := types.Sender(sg.real(), tx)
					diffRef(c, "wide value "+e.n, s.f, e.v, e.r, e.s, sg, got, err, true)
				})
			}
		}
	}
	c.Run.Nontrivial(fmt.Sprintf("%s/%d", c.Group, c.I))
	if c.I < 2 {
		c.Run.Sample(map[string]interface{}{"kind": "structured signatures", "case": c.I, "message_kind": []string{"vote", "proposal", "transaction"}[s.kind],
			"variants": len(vars), "example_variant": vars[1+c.I].name, "example_bytes": hex.EncodeToString(vars[1+c.I].b)})
	}
}

// sigRandom: lengths 0..70 in turn (case index mod 71), several strings per case.
func sigRandom(c *core.Case) {
	r := c.R
	s := newSigCtx(c, r, (c.I/71)%3)
	n := c.I % 71
	for i := 0; i < 6; i++ {
		ns := randomSig(r, n, s.honest)
		s.offer(c, r, ns, ns.name == "plausible" || i == 0)
	}
	c.Run.Nontrivial(fmt.Sprintf("%s/%d", c.Group, c.I))
}

// sig65: "all 65-byte strings", sampled.
func sig65(c *core.Case) {
	r := c.R
	s := newSigCtx(c, r, c.I%3)
	for i := 0; i < 8; i++ {
		ns := randomSig(r, 65, s.honest)
		s.offer(c, r, ns, ns.name == "plausible" || i == 0)
	}
	c.Run.Nontrivial(fmt.Sprintf("%s/%d", c.Group, c.I))
}

var _ = evidence.VerifyDuplicateVote
