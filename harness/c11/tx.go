package c11

import (
	"encoding/hex"
	"fmt"
	"math/big"
	"math/rand"

	"github.com/kardiachain/go-kardia/configs"
	"github.com/kardiachain/go-kardia/lib/common"
	"github.com/kardiachain/go-kardia/lib/crypto"
	"github.com/kardiachain/go-kardia/lib/rlp"
	"github.com/kardiachain/go-kardia/types"

	"verifharness/core"
)

// chain ids of the workload: 0, 1, 24 (mainnet in configs), 2^31, > 2^64, and 2^63-17
// (the value deriveChainId yields for V = 1 through unsigned wrap-around).
var txChains = []*big.Int{big.NewInt(0), big.NewInt(1), big.NewInt(24), big.NewInt(1 << 31),
	new(big.Int).Add(new(big.Int).Lsh(big1, 64), big.NewInt(5)), new(big.Int).Sub(new(big.Int).Lsh(big1, 63), big.NewInt(17)),
	big.NewInt(2), big.NewInt(69)}

func (s signerSpec) String() string {
	switch s.Kind {
	case skHomestead:
		return "HomesteadSigner"
	case skFrontier:
		return "FrontierSigner"
	}
	return "ChainIDSigner(" + s.Chain.String() + ")"
}

func (s signerSpec) kind() string {
	switch s.Kind {
	case skHomestead:
		return "HomesteadSigner"
	case skFrontier:
		return "FrontierSigner"
	}
	if s.Chain.Sign() == 0 {
		return "ChainIDSigner(0)" // degenerate: signs like an unprotected signer
	}
	return "ChainIDSigner"
}

// real builds the signer through one of the public constructors the node uses:
// NewChainIDSigner / HomesteadSigner{} directly, LatestSignerForChainID (keystore, api),
// MakeSigner (state processor, receipts) and LatestSigner (tx pool, block constructor).
func (s signerSpec) real() types.Signer {
	zero, late := uint64(0), uint64(1000)
	switch s.Kind {
	case skFrontier:
		return types.FrontierSigner{}
	case skHomestead:
		switch s.Via % 4 {
		case 1:
			return types.LatestSignerForChainID(nil)
		case 2: // before the Galaxias fork
			return types.MakeSigner(&configs.ChainConfig{ChainID: big.NewInt(24), GalaxiasBlock: &late}, &zero)
		case 3: // no chain id configured
			return types.LatestSigner(&configs.ChainConfig{GalaxiasBlock: &zero})
		}
		return types.HomesteadSigner{}
	}
	c := new(big.Int).Set(s.Chain)
	switch s.Via % 4 {
	case 1:
		return types.LatestSignerForChainID(c)
	case 2:
		return types.MakeSigner(&configs.ChainConfig{ChainID: c, GalaxiasBlock: &zero}, &late)
	case 3:
		return types.LatestSigner(&configs.ChainConfig{ChainID: c, GalaxiasBlock: &zero})
	}
	return types.NewChainIDSigner(c)
}

func allSignerSpecs() []signerSpec {
	o := []signerSpec{{Kind: skHomestead}, {Kind: skFrontier}}
	for _, c := range txChains {
		o = append(o, signerSpec{Kind: skChainID, Chain: c})
	}
	return o
}

func genBig(r *rand.Rand) *big.Int {
	switch r.Intn(6) {
	case 0:
		return big.NewInt(0)
	case 1:
		return big.NewInt(int64(r.Intn(256)))
	case 2:
		b := make([]byte, 1+r.Intn(32))
		r.Read(b)
		return new(big.Int).SetBytes(b)
	case 3:
		return new(big.Int).Lsh(big1, uint(r.Intn(257)))
	default:
		return big.NewInt(r.Int63n(1 << 40))
	}
}

func genU64(r *rand.Rand) uint64 {
	switch r.Intn(5) {
	case 0:
		return []uint64{0, 1, 127, 128, 255, 256, 1<<32 - 1, 1 << 32, 1<<63 - 1, 1 << 63, 1<<64 - 1}[r.Intn(11)]
	case 1:
		return r.Uint64()
	default:
		return uint64(r.Intn(1000000))
	}
}

func genTxF(r *rand.Rand) txF {
	f := txF{Nonce: genU64(r), Price: genBig(r), Gas: genU64(r), Value: genBig(r)}
	switch r.Intn(5) {
	case 0: // contract creation
	case 1:
		f.To = make([]byte, 20) // the zero address is an address, not "no recipient"
	default:
		f.To = make([]byte, 20)
		r.Read(f.To)
	}
	switch r.Intn(6) {
	case 0:
	case 1:
		f.Data = []byte{0}
	case 2:
		f.Data = []byte{byte(r.Intn(256))}
	case 3:
		f.Data = make([]byte, 55+r.Intn(3)) // around the RLP short/long string boundary
		r.Read(f.Data)
	default:
		f.Data = make([]byte, 1+r.Intn(200))
		r.Read(f.Data)
	}
	return f
}

func unsignedTx(f txF) *types.Transaction {
	if f.To == nil {
		return types.NewContractCreation(f.Nonce, f.Value, f.Gas, f.Price, f.Data)
	}
	return types.NewTransaction(f.Nonce, common.BytesToAddress(f.To), f.Value, f.Gas, f.Price, f.Data)
}

// decodeTx builds the transaction a node would hold after receiving these nine
// values on the wire (encoded here with go-ethereum's rlp, decoded by go-kardia's).
func decodeTx(f txF, v, r, s *big.Int) (*types.Transaction, error) {
	var tx types.Transaction
	if err := rlp.DecodeBytes(refTxRLP(f, v, r, s), &tx); err != nil {
		return nil, err
	}
	return &tx, nil
}

func txW(f txF, v, r, s *big.Int) map[string]interface{} {
	to := "nil"
	if f.To != nil {
		to = hex.EncodeToString(f.To)
	}
	return map[string]interface{}{"nonce": f.Nonce, "gas_price": f.Price.String(), "gas": f.Gas, "to": to, "value": f.Value.String(),
		"data": hex.EncodeToString(f.Data), "v": v.String(), "r": r.Text(16), "s": s.Text(16), "rlp": hex.EncodeToString(refTxRLP(f, v, r, s))}
}

// sender asks the real code who sent the transaction; both public entry points must agree.
func sender(c *core.Case, tx *types.Transaction, sg signerSpec) (common.Address, error) {
	a, err := types.Sender(sg.real(), tx)
	return a, err
}

// signHonest signs with the node's own signing code, along both public routes:
// (1) types.SignTx, which the keystore and the transaction helpers call;
// (2) the Signer interface itself: crypto.Sign over signer.Hash(tx), attached with
// WithSignature. Each must give a transaction whose sender is the key's address.
func signHonest(c *core.Case, f txF, sg signerSpec, k *keyT) (v, r, s *big.Int, ok bool) {
	run := c.Run
	signer := sg.real()
	tx, err := types.SignTx(signer, unsignedTx(f), k.priv)
	if err == nil {
		from, serr := types.Sender(signer, tx)
		run.Count("tx_signtx_recover", 1)
		if serr != nil || from != k.addr {
			tv, tr, ts := tx.RawSignatureValues()
			c.Violation("tx:sign-recover:SignTx:"+sg.kind(),
				fmt.Sprintf("types.SignTx(%s, tx, key) followed by types.Sender(%s, tx) does not return the key's address (got %x, err %v, want %x)", sg, sg, from, serr, k.addr),
				map[string]interface{}{"tx": txW(f, tv, tr, ts), "signer": sg.String(), "key": k.i, "want": hex.EncodeToString(k.addr[:]), "got": hex.EncodeToString(from[:]), "err": fmt.Sprint(serr)})
		} else {
			v, r, s = tx.RawSignatureValues()
			ok = true
		}
	} else {
		c.Violation("tx:sign-recover:SignTx:"+sg.kind(), "types.SignTx fails: "+err.Error(), map[string]interface{}{"signer": sg.String()})
	}
	// a transaction object that was looked at before it is signed, and one that is signed again by somebody else:
	// what the object memoised (hash, size, sender) must not follow it into the new signature
	if tx != nil && ok {
		warm := unsignedTx(f)
		_, _ = warm.Hash(), warm.Size()
		if wtx, werr := types.SignTx(signer, warm, k.priv); werr == nil {
			run.Count("tx_signed_after_inspection", 1)
			if wtx.Hash() != tx.Hash() {
				c.Violation("tx:memoised-fields-survive-signing:hash", fmt.Sprintf("a transaction whose Hash()/Size() were read before SignTx has hash %x after signing; the same transaction signed without reading them first has %x", wtx.Hash(), tx.Hash()),
					map[string]interface{}{"signer": sg.String(), "key": k.i})
			}
		}
		other := allKeys()[(k.i+1)%len(allKeys())]
		if rtx, rerr := types.SignTx(signer, tx, other.priv); rerr == nil {
			from, serr := types.Sender(signer, rtx)
			run.Count("tx_resigned_by_another_key", 1)
			if serr != nil || from != other.addr {
				c.Violation("tx:memoised-fields-survive-signing:sender", fmt.Sprintf("a signed transaction whose sender had been recovered (%x) was signed again by another key: types.Sender returns %x (err %v), the new signer is %x", k.addr, from, serr, other.addr),
					map[string]interface{}{"signer": sg.String(), "first_key": k.i, "second_key": other.i})
			}
		}
	}
	utx := unsignedTx(f)
	h := signer.Hash(utx)
	sig, err := crypto.Sign(h[:], k.priv)
	if err != nil {
		c.Violation("tx:sign-recover:Hash+Sign:"+sg.kind(), "crypto.Sign fails: "+err.Error(), nil)
		return
	}
	tx2, err := utx.WithSignature(signer, sig)
	if err != nil {
		c.Violation("tx:sign-recover:Hash+Sign:"+sg.kind(), "WithSignature fails: "+err.Error(), nil)
		return
	}
	from, serr := types.Sender(signer, tx2)
	run.Count("tx_manual_sign_recover", 1)
	v2, r2, s2 := tx2.RawSignatureValues()
	if serr != nil || from != k.addr {
		c.Violation("tx:sign-recover:Hash+Sign:"+sg.kind(),
			fmt.Sprintf("signing signer.Hash(tx) and attaching it with WithSignature does not recover the key's address under %s (got %x, err %v, want %x)", sg, from, serr, k.addr),
			map[string]interface{}{"tx": txW(f, v2, r2, s2), "signer": sg.String(), "key": k.i, "want": hex.EncodeToString(k.addr[:]), "got": hex.EncodeToString(from[:]), "err": fmt.Sprint(serr)})
		return
	}
	if !ok {
		v, r, s, ok = v2, r2, s2, true
	}
	return
}

// vFor encodes a recovery id for a signer: 27+id unprotected, 35+2c+id protected.
func vFor(chain *big.Int, recid uint) *big.Int {
	if chain == nil {
		return big.NewInt(int64(27 + recid))
	}
	v := new(big.Int).Lsh(chain, 1)
	return v.Add(v, big.NewInt(int64(35+recid)))
}

type tmut struct {
	field, name string
	f           txF
	v           *big.Int
	chain       *big.Int // chain id encoded in v (nil: unprotected)
}

func txMutants(r *rand.Rand, o txF, chain *big.Int, recid uint) []tmut {
	var out []tmut
	v0 := vFor(chain, recid)
	add := func(field, name string, fn func(f *txF)) {
		f := o.clone()
		fn(&f)
		out = append(out, tmut{field, name, f, v0, chain})
	}
	add("nonce", "nonce:+1", func(f *txF) { f.Nonce++ })
	add("nonce", "nonce:-1", func(f *txF) { f.Nonce-- })
	add("nonce", "nonce:zero", func(f *txF) { f.Nonce = 0 })
	add("nonce", "nonce:flipbit", func(f *txF) { f.Nonce ^= 1 << uint(r.Intn(64)) })
	add("nonce", "nonce<->gas", func(f *txF) { f.Nonce, f.Gas = f.Gas, f.Nonce })
	add("gas_price", "gas_price:+1", func(f *txF) { f.Price.Add(f.Price, big1) })
	add("gas_price", "gas_price:-1", func(f *txF) {
		if f.Price.Sign() > 0 {
			f.Price.Sub(f.Price, big1)
		}
	})
	add("gas_price", "gas_price:zero", func(f *txF) { f.Price.SetInt64(0) })
	add("gas_price", "gas_price:*256", func(f *txF) { f.Price.Lsh(f.Price, 8) })
	add("gas_price", "gas_price<->value", func(f *txF) { f.Price, f.Value = f.Value, f.Price })
	add("gas", "gas:+1", func(f *txF) { f.Gas++ })
	add("gas", "gas:-1", func(f *txF) { f.Gas-- })
	add("gas", "gas:flipbit", func(f *txF) { f.Gas ^= 1 << uint(r.Intn(64)) })
	if o.To == nil {
		add("to", "to:nil->zero-address", func(f *txF) { f.To = make([]byte, 20) })
		add("to", "to:nil->address", func(f *txF) { f.To = make([]byte, 20); r.Read(f.To) })
	} else {
		add("to", "to:address->nil", func(f *txF) { f.To = nil })
		add("to", "to:flipbit", func(f *txF) { f.To[r.Intn(20)] ^= 1 << uint(r.Intn(8)) })
		add("to", "to:zero-address", func(f *txF) { f.To = make([]byte, 20) })
		add("to", "to:other", func(f *txF) { r.Read(f.To) })
	}
	add("value", "value:+1", func(f *txF) { f.Value.Add(f.Value, big1) })
	add("value", "value:-1", func(f *txF) {
		if f.Value.Sign() > 0 {
			f.Value.Sub(f.Value, big1)
		}
	})
	add("value", "value:zero", func(f *txF) { f.Value.SetInt64(0) })
	add("value", "value:*256", func(f *txF) { f.Value.Lsh(f.Value, 8) })
	add("data", "data:append-0", func(f *txF) { f.Data = append(f.Data, 0) })
	add("data", "data:append-byte", func(f *txF) { f.Data = append(f.Data, byte(1+r.Intn(255))) })
	add("data", "data:prepend-0", func(f *txF) { f.Data = append([]byte{0}, f.Data...) })
	if len(o.Data) > 0 {
		add("data", "data:drop-last", func(f *txF) { f.Data = f.Data[:len(f.Data)-1] })
		add("data", "data:drop-first", func(f *txF) { f.Data = f.Data[1:] })
		add("data", "data:flipbit", func(f *txF) { f.Data[r.Intn(len(f.Data))] ^= 1 << uint(r.Intn(8)) })
		add("data", "data:empty", func(f *txF) { f.Data = nil })
	} else {
		add("data", "data:0x80", func(f *txF) { f.Data = []byte{0x80} })
	}
	// chain id: carried by V; the recovery id is kept
	if chain != nil {
		out = append(out, tmut{"chain_id", "chain_id:strip-protection", o.clone(), vFor(nil, recid), nil})
	}
	for _, c2 := range txChains {
		if chain != nil && c2.Cmp(chain) == 0 {
			continue
		}
		nm := "chain_id:->" + c2.String()
		if chain == nil {
			nm = "chain_id:protect-for-" + c2.String()
		}
		out = append(out, tmut{"chain_id", nm, o.clone(), vFor(c2, recid), c2})
	}
	if chain != nil {
		c1 := new(big.Int).Add(chain, big1)
		out = append(out, tmut{"chain_id", "chain_id:+1", o.clone(), vFor(c1, recid), c1})
	}
	// the other recovery id: same message, same (r,s): must not give the signer either
	out = append(out, tmut{"recovery_id", "recovery_id:flip", o.clone(), vFor(chain, recid^1), chain})
	return out
}

func sameTxF(a, b txF) bool {
	return string(refTxRLP(a, big0, big0, big0)) == string(refTxRLP(b, big0, big0, big0))
}

// signersFor lists the signers under which a presented transaction is examined.
func signersFor(r *rand.Rand, orig signerSpec, extra *big.Int, all bool) []signerSpec {
	if all {
		return allSignerSpecs()
	}
	o := []signerSpec{orig, {Kind: skHomestead}}
	if orig.Kind != skChainID {
		o = append(o, signerSpec{Kind: skFrontier})
	}
	if extra != nil {
		o = append(o, signerSpec{Kind: skChainID, Chain: extra})
	}
	o = append(o, signerSpec{Kind: skChainID, Chain: txChains[r.Intn(len(txChains))]})
	return o
}

// diffRef compares the real verdict with the rule of the property text and, where the
// rule accepts, with the reference recovery.
func diffRef(c *core.Case, what string, f txF, v, r, s *big.Int, sg signerSpec, got common.Address, gotErr error, ec bool) {
	run := c.Run
	_, _, okRule := refTxRule(f, v, r, s, sg)
	if !okRule {
		run.Count("tx_rule_rejects", 1)
		if gotErr == nil {
			c.Violation("tx:accepts-malformed:"+whyRejected(f, v, r, s, sg)+":"+sg.kind(),
				fmt.Sprintf("%s: types.Sender(%s) returns %x for signature values the property requires to be rejected (%s)", what, sg, got, whyRejected(f, v, r, s, sg)),
				map[string]interface{}{"tx": txW(f, v, r, s), "signer": sg.String()})
		}
		return
	}
	if !ec {
		return
	}
	want, ok := refTxSender(f, v, r, s, sg)
	run.Count("tx_ec_reference_recoveries", 1)
	switch {
	case ok && gotErr == nil && common.Address(want) != got:
		c.Violation("tx:sender-differs-from-reference:"+sg.kind(),
			fmt.Sprintf("%s: types.Sender(%s) returns %x, the Homestead/EIP-155 rule with an independent secp256k1 recovery gives %x", what, sg, got, want),
			map[string]interface{}{"tx": txW(f, v, r, s), "signer": sg.String()})
	case !ok && gotErr == nil:
		c.Violation("tx:accepts-unrecoverable:"+sg.kind(),
			fmt.Sprintf("%s: types.Sender(%s) returns %x although no public key can be recovered from the values", what, sg, got),
			map[string]interface{}{"tx": txW(f, v, r, s), "signer": sg.String()})
	case ok && gotErr != nil:
		run.Count("tx_rejected_though_rule_accepts", 1)
	default:
		run.Count("tx_agrees_with_reference", 1)
	}
}

func whyRejected(f txF, v, r, s *big.Int, sg signerSpec) string {
	switch {
	case !inRangeN(r):
		return "r-out-of-range"
	case !inRangeN(s):
		return "s-out-of-range"
	case s.Cmp(halfN) > 0:
		return "high-s"
	case sg.Kind == skChainID && v.Cmp(big35) >= 0:
		return "chain-id-or-v"
	}
	return "bad-v"
}

// judgeTx: honest signing, reference comparison, every single-field mutation, chain
// replay, malleability, sender-cache order.
func judgeTx(c *core.Case, r *rand.Rand, f txF, sg signerSpec, k *keyT, allSigners bool) {
	run := c.Run
	v, rr, ss, ok := signHonest(c, f, sg, k)
	if !ok {
		return
	}
	var chain *big.Int
	if sg.Kind == skChainID && v.Cmp(big28) > 0 {
		chain = sg.Chain
	}
	recid := uint(new(big.Int).Sub(v, vFor(chain, 0)).Uint64())
	if recid > 1 || ss.Cmp(halfN) > 0 {
		c.Violation("tx:sign-produces-noncanonical", fmt.Sprintf("honest signing produced v=%v (recid %d) s>N/2=%v", v, recid, ss.Cmp(halfN) > 0), map[string]interface{}{"tx": txW(f, v, rr, ss)})
		return
	}
	// the wire form of the honest transaction, and the reference
	tx, err := decodeTx(f, v, rr, ss)
	if err != nil {
		c.Violation("tx:honest-undecodable", "the RLP of an honestly signed transaction does not decode: "+err.Error(), map[string]interface{}{"tx": txW(f, v, rr, ss)})
		return
	}
	from, err := sender(c, tx, sg)
	if err != nil || from != k.addr {
		c.Violation("tx:sign-recover:wire:"+sg.kind(), fmt.Sprintf("an honestly signed transaction decoded from RLP recovers %x (err %v), signer is %x", from, err, k.addr),
			map[string]interface{}{"tx": txW(f, v, rr, ss), "signer": sg.String()})
		return
	}
	if msg, err := tx.AsMessage(sg.real()); err != nil || msg.From() != k.addr {
		c.Violation("tx:sign-recover:AsMessage:"+sg.kind(), "AsMessage disagrees with the signer", map[string]interface{}{"tx": txW(f, v, rr, ss)})
	}
	run.Count("tx_controls_accepted", 1)
	diffRef(c, "honest transaction", f, v, rr, ss, sg, from, err, true)
	if sg.Kind == skChainID && chain == nil {
		run.Count("tx_chainid_signer_zero_unprotected", 1) // chain id 0: the signer produces unprotected signatures
	}

	// single-field mutations, original signature
	muts := txMutants(r, f, chain, recid)
	ecPick := r.Intn(len(muts))
	for i, m := range muts {
		if m.field != "chain_id" && m.field != "recovery_id" && sameTxF(m.f, f) {
			run.Count("mutation_noop", 1)
			continue
		}
		mtx, err := decodeTx(m.f, m.v, rr, ss)
		if err != nil {
			run.Count("tx_mutant_undecodable", 1)
			continue
		}
		run.Eval(1)
		run.Count("tx_mutants", 1)
		run.Distinct("tx_mutation", func() string {
			if m.field == "chain_id" {
				return "chain_id"
			}
			return m.name
		}())
		run.Nontrivial(fmt.Sprintf("%s/%d/%s", c.Group, c.I, m.name))
		sgs := signersFor(r, sg, m.chain, allSigners)
		for j, s2 := range sgs {
			got, gerr := sender(c, mtx, s2) // same object: the sender cache is in play
			run.Count("tx_mutant_checks", 1)
			if gerr == nil && got == k.addr {
				c.Violation("tx:"+m.field+":"+s2.kind(),
					fmt.Sprintf("a transaction signature stays valid after changing %s (%s): types.Sender(%s) still returns the signer", m.field, m.name, s2),
					map[string]interface{}{"signed": txW(f, v, rr, ss), "signed_under": sg.String(), "presented": txW(m.f, m.v, rr, ss), "examined_under": s2.String(), "mutation": m.name, "key": k.i})
			}
			diffRef(c, "mutant "+m.name, m.f, m.v, rr, ss, s2, got, gerr, i == ecPick && j == 0)
		}
	}

	// chain replay: a protected transaction must be rejected (an error, not merely another sender) elsewhere
	if chain != nil {
		for _, s2 := range allSignerSpecs() {
			if s2.Kind == skChainID && s2.Chain.Cmp(chain) == 0 {
				continue
			}
			t2, _ := decodeTx(f, v, rr, ss)
			got, gerr := sender(c, t2, s2)
			run.Eval(1)
			run.Count("tx_chain_replay_checks", 1)
			if gerr == nil {
				c.Violation("tx:chain-replay:"+s2.kind(),
					fmt.Sprintf("a transaction signed for chain id %v is not rejected by %s (sender %x)", chain, s2, got),
					map[string]interface{}{"tx": txW(f, v, rr, ss), "signed_under": sg.String(), "examined_under": s2.String()})
			}
		}
	} else {
		run.Count("tx_unprotected_valid_on_every_chain", 1) // by design: unprotected signatures carry no chain id
	}

	// sender cache: the answer must not depend on which signer asked first
	{
		a, b := sg, allSignerSpecs()[r.Intn(len(allSignerSpecs()))]
		for _, order := range [][2]signerSpec{{a, b}, {b, a}} {
			t2, _ := decodeTx(f, v, rr, ss)
			sender(c, t2, order[0])
			got, gerr := sender(c, t2, order[1])
			t3, _ := decodeTx(f, v, rr, ss)
			want, werr := sender(c, t3, order[1])
			run.Count("tx_cache_order_checks", 1)
			if (gerr == nil) != (werr == nil) || got != want {
				c.Violation("tx:sender-cache:"+order[0].kind()+"->"+order[1].kind(),
					fmt.Sprintf("types.Sender(%s) after types.Sender(%s) on the same object gives (%x,%v), on a fresh object (%x,%v)", order[1], order[0], got, gerr, want, werr),
					map[string]interface{}{"tx": txW(f, v, rr, ss), "first": order[0].String(), "second": order[1].String()})
			}
		}
	}

	// malleability: (r, N-s, other recovery id) is the same ECDSA signature; the tx path must reject it
	hs := new(big.Int).Sub(curveN, ss)
	for _, rec := range []uint{recid ^ 1, recid} {
		hv := vFor(chain, rec)
		for _, s2 := range signersFor(r, sg, nil, allSigners) {
			t2, err := decodeTx(f, hv, rr, hs)
			if err != nil {
				continue
			}
			got, gerr := sender(c, t2, s2)
			run.Eval(1)
			run.Count("tx_high_s_checks", 1)
			if gerr == nil {
				c.Violation("tx:malleable-high-s:"+s2.kind(),
					fmt.Sprintf("types.Sender(%s) accepts the high-s twin (r, N-s, v=%v) of a valid signature (sender %x, signer %x)", s2, hv, got, k.addr),
					map[string]interface{}{"tx": txW(f, hv, rr, hs), "original_s": ss.Text(16), "signer": s2.String()})
			}
		}
	}
	if c.Group == "corpus-tx" && c.I == 3 {
		run.Sample(map[string]interface{}{"kind": "transaction", "group": c.Group, "case": c.I, "signer": sg.String(), "key": k.i, "tx": txW(f, v, rr, ss), "mutations_tried": len(muts)})
	}
}
