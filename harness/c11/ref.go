package c11

// Reference models. Nothing in this file calls go-kardia code that is judged:
//   - secp256k1 arithmetic, ECDSA verification and public-key recovery are written
//     from SEC 1 (4.1.4, 4.1.6) / SEC 2 over math/big;
//   - Keccak-256 comes from golang.org/x/crypto/sha3;
//   - the canonical sign-bytes of votes and proposals are transcribed from
//     proto/kardiachain/types/canonical.proto and the proto3 wire format;
//   - transaction signing hashes are transcribed from the Homestead / EIP-155 rule and
//     encoded with go-ethereum's rlp package;
//   - the acceptance rule for transaction signature values follows the property text.

import (
	"encoding/binary"
	"math/big"
	"time"

	gethrlp "github.com/ethereum/go-ethereum/rlp"
	"golang.org/x/crypto/sha3"
)

func hexBig(s string) *big.Int {
	v, ok := new(big.Int).SetString(s, 16)
	if !ok {
		panic("bad constant")
	}
	return v
}

var (
	curveP = hexBig("fffffffffffffffffffffffffffffffffffffffffffffffffffffffefffffc2f")
	curveN = hexBig("fffffffffffffffffffffffffffffffebaaedce6af48a03bbfd25e8cd0364141")
	curveG = pt{hexBig("79be667ef9dcbbac55a06295ce870b07029bfcdb2dce28d959f2815b16f81798"),
		hexBig("483ada7726a3c4655da4fbfc0e1108a8fd17b448a68554199c47d08ffb10d4b8")}
	halfN  = new(big.Int).Rsh(curveN, 1)
	big0   = big.NewInt(0)
	big1   = big.NewInt(1)
	big2   = big.NewInt(2)
	big3   = big.NewInt(3)
	big7   = big.NewInt(7)
	big27  = big.NewInt(27)
	big28  = big.NewInt(28)
	big35  = big.NewInt(35)
	sqrtEx = new(big.Int).Rsh(new(big.Int).Add(curveP, big1), 2) // (p+1)/4, p = 3 mod 4
)

// pt is an affine point; x == nil is the point at infinity.
type pt struct{ x, y *big.Int }

func (a pt) inf() bool { return a.x == nil }

func modP(v *big.Int) *big.Int { return v.Mod(v, curveP) }

func padd(a, b pt) pt {
	if a.inf() {
		return b
	}
	if b.inf() {
		return a
	}
	if a.x.Cmp(b.x) == 0 {
		if a.y.Cmp(b.y) != 0 || a.y.Sign() == 0 {
			return pt{}
		}
		// doubling: l = 3x^2 / 2y
		l := new(big.Int).Mul(a.x, a.x)
		l.Mul(l, big3)
		d := new(big.Int).Lsh(a.y, 1)
		d.ModInverse(modP(d), curveP)
		modP(l.Mul(l, d))
		return chord(a, a, l)
	}
	l := new(big.Int).Sub(b.y, a.y)
	d := new(big.Int).Sub(b.x, a.x)
	d.ModInverse(modP(d), curveP)
	modP(l.Mul(l, d))
	return chord(a, b, l)
}

func chord(a, b pt, l *big.Int) pt {
	x := new(big.Int).Mul(l, l)
	x.Sub(x, a.x)
	x.Sub(x, b.x)
	modP(x)
	y := new(big.Int).Sub(a.x, x)
	y.Mul(y, l)
	y.Sub(y, a.y)
	modP(y)
	return pt{x, y}
}

func pmul(k *big.Int, a pt) pt {
	r := pt{}
	for i := k.BitLen() - 1; i >= 0; i-- {
		r = padd(r, r)
		if k.Bit(i) == 1 {
			r = padd(r, a)
		}
	}
	return r
}

// pmul2 computes k1*a + k2*b (Shamir).
func pmul2(k1 *big.Int, a pt, k2 *big.Int, b pt) pt {
	ab := padd(a, b)
	n := k1.BitLen()
	if k2.BitLen() > n {
		n = k2.BitLen()
	}
	r := pt{}
	for i := n - 1; i >= 0; i-- {
		r = padd(r, r)
		switch {
		case k1.Bit(i) == 1 && k2.Bit(i) == 1:
			r = padd(r, ab)
		case k1.Bit(i) == 1:
			r = padd(r, a)
		case k2.Bit(i) == 1:
			r = padd(r, b)
		}
	}
	return r
}

func onCurve(a pt) bool {
	if a.inf() {
		return false
	}
	l := new(big.Int).Mul(a.y, a.y)
	modP(l)
	r := new(big.Int).Mul(a.x, a.x)
	r.Mul(r, a.x)
	r.Add(r, big7)
	modP(r)
	return l.Cmp(r) == 0
}

// liftX returns the point with the given x and y parity, if x is on the curve.
func liftX(x *big.Int, odd bool) (pt, bool) {
	if x.Sign() < 0 || x.Cmp(curveP) >= 0 {
		return pt{}, false
	}
	rhs := new(big.Int).Mul(x, x)
	rhs.Mul(rhs, x)
	rhs.Add(rhs, big7)
	modP(rhs)
	y := new(big.Int).Exp(rhs, sqrtEx, curveP)
	if new(big.Int).Exp(y, big2, curveP).Cmp(rhs) != 0 {
		return pt{}, false
	}
	if (y.Bit(0) == 1) != odd {
		y.Sub(curveP, y)
	}
	return pt{new(big.Int).Set(x), y}, true
}

func inRangeN(v *big.Int) bool { return v != nil && v.Sign() > 0 && v.Cmp(curveN) < 0 }

// refVerify is ECDSA verification (SEC 1, 4.1.4) of (r,s) over a 32-byte digest.
func refVerify(q pt, digest []byte, r, s *big.Int) bool {
	if len(digest) != 32 || !inRangeN(r) || !inRangeN(s) || !onCurve(q) {
		return false
	}
	e := new(big.Int).SetBytes(digest)
	w := new(big.Int).ModInverse(s, curveN)
	u1 := new(big.Int).Mul(e, w)
	u1.Mod(u1, curveN)
	u2 := new(big.Int).Mul(r, w)
	u2.Mod(u2, curveN)
	x := pmul2(u1, curveG, u2, q)
	if x.inf() {
		return false
	}
	v := new(big.Int).Mod(x.x, curveN)
	return v.Cmp(r) == 0
}

// refRecover is public-key recovery (SEC 1, 4.1.6) with recovery id 0 or 1
// (x = r, parity of y = recid); ids 2, 3 (x = r + n) are not part of the
// signature format [R || S || V], V in {0,1}.
func refRecover(digest []byte, r, s *big.Int, recid uint) (pt, bool) {
	if len(digest) != 32 || !inRangeN(r) || !inRangeN(s) || recid > 1 {
		return pt{}, false
	}
	R, ok := liftX(r, recid == 1)
	if !ok {
		return pt{}, false
	}
	e := new(big.Int).SetBytes(digest)
	ri := new(big.Int).ModInverse(r, curveN)
	u1 := new(big.Int).Mul(e, ri)
	u1.Neg(u1)
	u1.Mod(u1, curveN)
	u2 := new(big.Int).Mul(s, ri)
	u2.Mod(u2, curveN)
	q := pmul2(u1, curveG, u2, R)
	if q.inf() {
		return pt{}, false
	}
	return q, true
}

func keccak(data ...[]byte) []byte {
	h := sha3.NewLegacyKeccak256()
	for _, d := range data {
		h.Write(d)
	}
	return h.Sum(nil)
}

func pad32(v *big.Int) []byte {
	b := v.Bytes()
	if len(b) >= 32 {
		return b[len(b)-32:]
	}
	o := make([]byte, 32)
	copy(o[32-len(b):], b)
	return o
}

// refAddress: last 20 bytes of Keccak-256 of the 64-byte uncompressed public key.
func refAddress(q pt) [20]byte {
	var a [20]byte
	copy(a[:], keccak(pad32(q.x), pad32(q.y))[12:])
	return a
}

// ---- canonical sign-bytes (canonical.proto, proto3 wire format) ----

func pbUvarint(b []byte, v uint64) []byte {
	var t [binary.MaxVarintLen64]byte
	n := binary.PutUvarint(t[:], v)
	return append(b, t[:n]...)
}

func pbVarintField(b []byte, field int, v uint64) []byte {
	if v == 0 {
		return b // proto3: default values are not emitted
	}
	b = pbUvarint(b, uint64(field)<<3|0)
	return pbUvarint(b, v)
}

func pbBytesField(b []byte, field int, v []byte, always bool) []byte {
	if len(v) == 0 && !always {
		return b
	}
	b = pbUvarint(b, uint64(field)<<3|2)
	b = pbUvarint(b, uint64(len(v)))
	return append(b, v...)
}

// google.protobuf.Timestamp{ int64 seconds = 1; int32 nanos = 2; }: resolution 1 ns,
// the location and the monotonic reading of a time.Time are not part of it.
func refTimestamp(t time.Time) []byte {
	var b []byte
	b = pbVarintField(b, 1, uint64(t.Unix()))
	b = pbVarintField(b, 2, uint64(int64(t.Nanosecond())))
	return b
}

type refBlockID struct {
	Hash      [32]byte
	PartsHash [32]byte
	Total     uint32
}

func (b refBlockID) zero() bool { return b == refBlockID{} }

func (b refBlockID) encode() []byte {
	var psh []byte
	psh = pbVarintField(psh, 1, uint64(b.Total))
	psh = pbBytesField(psh, 2, b.PartsHash[:], false)
	var o []byte
	o = pbBytesField(o, 1, b.Hash[:], false)
	o = pbBytesField(o, 2, psh, true) // non-nullable
	return o
}

func delimited(m []byte) []byte { return append(pbUvarint(nil, uint64(len(m))), m...) }

// CanonicalVote{type=1, height=2, round=3, block_id=4 (absent for nil), timestamp=5, chain_id=6}
func refVoteSignBytes(chain string, typ int32, height uint64, round uint32, bid refBlockID, ts time.Time) []byte {
	var m []byte
	m = pbVarintField(m, 1, uint64(int64(typ)))
	m = pbVarintField(m, 2, height)
	m = pbVarintField(m, 3, uint64(round))
	if !bid.zero() {
		m = pbBytesField(m, 4, bid.encode(), true)
	}
	m = pbBytesField(m, 5, refTimestamp(ts), true)
	m = pbBytesField(m, 6, []byte(chain), false)
	return delimited(m)
}

// CanonicalProposal{type=1 (32), height=2, round=3, pol_round=4, block_id=5, timestamp=6, chain_id=7}
func refProposalSignBytes(chain string, height uint64, round, pol uint32, bid refBlockID, ts time.Time) []byte {
	var m []byte
	m = pbVarintField(m, 1, 32)
	m = pbVarintField(m, 2, height)
	m = pbVarintField(m, 3, uint64(round))
	m = pbVarintField(m, 4, uint64(pol))
	if !bid.zero() {
		m = pbBytesField(m, 5, bid.encode(), true)
	}
	m = pbBytesField(m, 6, refTimestamp(ts), true)
	m = pbBytesField(m, 7, []byte(chain), false)
	return delimited(m)
}

// ---- transactions ----

// txF holds the signed content of a transaction; To == nil is contract creation.
type txF struct {
	Nonce uint64
	Price *big.Int
	Gas   uint64
	To    []byte // nil or 20 bytes
	Value *big.Int
	Data  []byte
}

func (f txF) clone() txF {
	g := f
	g.Price = new(big.Int).Set(f.Price)
	g.Value = new(big.Int).Set(f.Value)
	if f.To != nil {
		g.To = append([]byte{}, f.To...)
	}
	g.Data = append([]byte{}, f.Data...)
	return g
}

// refSigHash: chain == nil: Homestead hash keccak(rlp([nonce, price, gas, to, value, data]));
// otherwise EIP-155: keccak(rlp([nonce, price, gas, to, value, data, chainId, 0, 0])).
func refSigHash(f txF, chain *big.Int) []byte {
	l := []interface{}{f.Nonce, f.Price, f.Gas, f.To, f.Value, f.Data}
	if chain != nil {
		l = append(l, chain, uint(0), uint(0))
	}
	b, err := gethrlp.EncodeToBytes(l)
	if err != nil {
		panic(err)
	}
	return keccak(b)
}

// refTxRLP is the wire form of a signed transaction.
func refTxRLP(f txF, v, r, s *big.Int) []byte {
	b, err := gethrlp.EncodeToBytes([]interface{}{f.Nonce, f.Price, f.Gas, f.To, f.Value, f.Data, v, r, s})
	if err != nil {
		panic(err)
	}
	return b
}

// signer kinds of the reference rule
const (
	skHomestead = iota
	skFrontier
	skChainID
)

type signerSpec struct {
	Kind  int
	Chain *big.Int // skChainID only
	Via   int      // which public constructor builds the real signer (tx.go); irrelevant to the rule
}

// refTxRule applies the property's acceptance rule to signature values offered under
// a signer: ok=false means "must be rejected". For accepted values it returns the
// digest that was signed and the recovery id.
//   - r, s in [1, N-1]; s <= N/2 (no malleable twin);
//   - Homestead / Frontier signer: V in {27, 28};
//   - chain-id signer c: V in {27, 28} (unprotected, Homestead digest) or
//     V in {35+2c, 36+2c} (digest covers c); any other V, in particular one that
//     encodes another chain id, is rejected.
func refTxRule(f txF, v, r, s *big.Int, sg signerSpec) (digest []byte, recid uint, ok bool) {
	if !inRangeN(r) || !inRangeN(s) || s.Cmp(halfN) > 0 || v == nil || v.Sign() < 0 {
		return nil, 0, false
	}
	if v.Cmp(big27) == 0 || v.Cmp(big28) == 0 {
		return refSigHash(f, nil), uint(v.Uint64() - 27), true
	}
	if sg.Kind != skChainID {
		return nil, 0, false
	}
	base := new(big.Int).Lsh(sg.Chain, 1)
	base.Add(base, big35)
	d := new(big.Int).Sub(v, base)
	if d.Sign() < 0 || d.Cmp(big1) > 0 {
		return nil, 0, false
	}
	return refSigHash(f, sg.Chain), uint(d.Uint64()), true
}

// refTxSender: the address the rule attributes the transaction to.
func refTxSender(f txF, v, r, s *big.Int, sg signerSpec) (addr [20]byte, ok bool) {
	digest, recid, ok := refTxRule(f, v, r, s, sg)
	if !ok {
		return addr, false
	}
	q, ok := refRecover(digest, r, s, recid)
	if !ok {
		return addr, false
	}
	return refAddress(q), true
}
