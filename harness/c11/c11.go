// Package c11 decides C11: signatures bind signer and full content of votes,
// proposals and transactions. Messages are signed with the node's own signing code;
// every single-field mutation of a signed message is then presented, with the
// ORIGINAL signature, to the public verification functions the node uses
// (Vote.Verify, the setProposal check, VoteSet.AddVote, ValidatorSet.VerifyCommit,
// evidence verification, types.Sender) and must be refused (or, for transactions,
// must not yield the signer). Signature values and arbitrary byte strings are offered
// to the same functions in child processes: never a panic, never acceptance for a
// key that did not sign, and on the transaction path rejection of high-s, out-of-range
// and wrongly tagged values.
package c11

import (
	"encoding/hex"
	"fmt"
	"math/big"
	"math/rand"
	"time"

	"github.com/kardiachain/go-kardia/lib/common"
	"github.com/kardiachain/go-kardia/lib/crypto"
	kproto "github.com/kardiachain/go-kardia/proto/kardiachain/types"
	"github.com/kardiachain/go-kardia/types"

	"verifharness/core"
)

func init() { core.Register("C11", Main) }

func Main() {
	r := core.Start("C11", "exploration")
	r.SetRule("a case = one message (vote / proposal / transaction; fixed boundary corpus first, then random: 16 keys incl. d=1, d=N-1; heights, rounds, totals, " +
		"timestamps at encoding boundaries; 12 chain-id strings / 8 numeric chain ids incl. 0, 2^31, >2^64) signed by the node's signing code and accepted on every path " +
		"(positive control); an evaluation = one single-field mutant of it (or one byte string) presented with the original signature; non-trivial = the mutant differs " +
		"from the signed message in an independent transcription of the canonical encoding (canonical.proto / RLP field list), so that no-op mutations such as truncating " +
		"a timestamp without sub-second part are not counted; distinct by (group, case, mutation); signature-string cases are distinct by (group, case)")
	r.Assume("timestamps are within 0001-01-01..9999-12-31 (outside, gogoproto refuses to marshal and the wire decoder refuses to decode); the canonical encoding has 1 ns resolution and ignores location and monotonic reading")
	r.Assume("unprotected (V=27/28) transactions are valid under every chain-id signer by design; only protected transactions are 'signed for a chain id'")
	r.Assume("for votes and proposals the property does not forbid a second encoding of a signature the signer did make (recovery byte +4, high-s twin); such acceptances are counted, not reported")

	r.Cases("keys", nKeys, core.Opts{}, keyCase)
	r.Cases("corpus-vote", len(voteCorpus()), core.Opts{Workers: 16}, func(c *core.Case) { corpusVote(c) })
	r.Cases("corpus-proposal", len(proposalCorpus()), core.Opts{Workers: 16}, func(c *core.Case) { corpusProposal(c) })
	r.Cases("corpus-tx", len(txCorpus()), core.Opts{Workers: 16}, func(c *core.Case) { corpusTx(c) })
	r.Cases("cross", r.N(200, 10000), core.Opts{Workers: 16}, crossCase)
	r.Cases("rand-vote", r.N(900, 45000), core.Opts{Workers: 16}, randVote)
	r.Cases("rand-proposal", r.N(500, 25000), core.Opts{Workers: 16}, randProposal)
	r.Cases("rand-tx", r.N(600, 30000), core.Opts{Workers: 16}, randTx)
	child := core.Opts{Procs: 8, HangIsViolation: true, StallSec: 120, MemMB: 4096}
	r.Cases("sig-structured", r.N(48, 600), child, sigStructured)
	r.Cases("sig-random", r.N(71*6, 71*75), child, sigRandom)
	r.Cases("sig65", r.N(600, 20000), child, sig65)

	r.Floor("vote_controls_accepted", 500)
	r.Floor("proposal_controls_accepted", 300)
	r.Floor("tx_controls_accepted", 300)
	r.Floor("vote_mutants", 20000)
	r.Floor("proposal_mutants", 10000)
	r.Floor("tx_mutants", 10000)
	r.Floor("cross_checks", 2000)
	r.Floor("tx_chain_replay_checks", 1000)
	r.Floor("tx_high_s_checks", 1000)
	r.Floor("sigs_offered", 10000)
	r.Floor("sigs_offered_65", 4000)
	r.Floor("sig_acceptances_honest", 100)
	r.Floor("tx_ec_reference_recoveries", 500)
	r.Finish()
}

// ---- keys: address derivation and sign -> recover on raw digests ----

func keyCase(c *core.Case) {
	run := c.Run
	k := allKeys()[c.I]
	real := crypto.PubkeyToAddress(k.priv.PublicKey)
	if real != k.addr || k.pv.GetAddress() != k.addr {
		c.Violation("key:address-derivation", fmt.Sprintf("crypto.PubkeyToAddress gives %x, keccak256(d*G)[12:] computed independently is %x", real, k.addr),
			map[string]interface{}{"key": k.i, "d": k.d.Text(16)})
	}
	for i := 0; i < 8; i++ {
		d := make([]byte, 32)
		switch i {
		case 0: // zero digest
		case 1:
			for j := range d {
				d[j] = 0xff
			}
		case 2:
			copy(d, pad32(curveN))
		default:
			c.R.Read(d)
		}
		sig, err := crypto.Sign(d, k.priv)
		run.Eval(1)
		run.Count("raw_sign_recover", 1)
		if err != nil {
			c.Violation("key:sign-fails", "crypto.Sign fails: "+err.Error(), map[string]interface{}{"key": k.i, "digest": hex.EncodeToString(d)})
			continue
		}
		w := map[string]interface{}{"key": k.i, "digest": hex.EncodeToString(d), "signature": hex.EncodeToString(sig)}
		R, S := new(big.Int).SetBytes(sig[:32]), new(big.Int).SetBytes(sig[32:64])
		if len(sig) != 65 || sig[64] > 1 || S.Cmp(halfN) > 0 || !refVerify(k.pub, d, R, S) {
			c.Violation("key:sign-not-canonical", "crypto.Sign does not return [R||S||V], V in {0,1}, s <= N/2, valid under the key", w)
			continue
		}
		q, ok := refRecover(d, R, S, uint(sig[64]))
		if !ok || common.Address(refAddress(q)) != k.addr {
			c.Violation("key:recovery-id", "the recovery id returned by crypto.Sign does not select the signer's key", w)
		}
		pub, err := crypto.SigToPub(d, sig)
		if err != nil || crypto.PubkeyToAddress(*pub) != k.addr || !crypto.VerifySignature(k.addr, d, sig) || !types.VerifySignature(k.addr, d, sig) {
			c.Violation("key:sign-recover", "sign then recover does not return the signer", w)
		}
		other := allKeys()[(k.i+1)%nKeys]
		if crypto.VerifySignature(other.addr, d, sig) || types.VerifySignature(other.addr, d, sig) {
			c.Violation("key:other-signer-accepted", "a signature verifies for another key's address", w)
		}
	}
	run.Nontrivial(fmt.Sprint("key/", c.I))
}

// ---- corpora ----

type voteSpec struct {
	typ    kproto.SignedMsgType
	nilBlk bool
	height uint64
	round  uint32
	ts     time.Time
	chain  string
	total  uint32
}

func voteCorpus() []voteSpec {
	type hr struct {
		h     uint64
		r     uint32
		ts    time.Time
		chain string
		total uint32
	}
	base := []hr{
		{1, 0, time.Unix(1600000000, 0).UTC(), "kardia-1", 1},
		{2, 1, time.Unix(1600000000, 1).UTC(), "kai", 2},
		{1 << 32, 1 << 31, time.Unix(1600000000, 999999999).UTC(), "", 128},
		{1<<64 - 1, 1<<32 - 1, time.Unix(maxSec, 999999999).UTC(), voteChains[8], 1<<32 - 1},
		{1 << 63, 127, time.Time{}, "kardia-1\x00", 127},
		{128, 128, time.Unix(0, 0).UTC(), "KARDIA-1", 1 << 31},
		{255, 2, time.Unix(-1, 500000000).UTC(), "24", 3},
		{1<<32 - 1, 3, time.Unix(1<<32, 123456789).UTC(), "kárdia", 40},
	}
	var o []voteSpec
	for _, b := range base {
		for _, t := range []kproto.SignedMsgType{kproto.PrevoteType, kproto.PrecommitType} {
			for _, n := range []bool{false, true} {
				o = append(o, voteSpec{t, n, b.h, b.r, b.ts, b.chain, b.total})
			}
		}
	}
	return o
}

func fixedRand(tag string, i int) *rand.Rand {
	h := keccak([]byte(fmt.Sprintf("c11 corpus %s %d", tag, i)))
	return rand.New(rand.NewSource(int64(new(big.Int).SetBytes(h[:8]).Uint64())))
}

func pickKeys(r *rand.Rand) (*keyT, *keyT) {
	ks := allKeys()
	k := ks[r.Intn(len(ks))]
	return k, ks[(k.i+1+r.Intn(len(ks)-1))%len(ks)]
}

func corpusVote(c *core.Case) {
	sp := voteCorpus()[c.I]
	r := fixedRand("vote", c.I) // the corpus does not depend on the seed
	ks := allKeys()
	k, h := ks[c.I%nKeys], ks[(c.I+5)%nKeys]
	x := newVctx(k, h)
	v := &types.Vote{ValidatorAddress: k.addr, ValidatorIndex: x.idxK, Height: sp.height, Round: sp.round, Timestamp: sp.ts, Type: sp.typ}
	if !sp.nilBlk {
		v.BlockID = types.BlockID{Hash: randHash(r), PartsHeader: types.PartSetHeader{Total: sp.total, Hash: randHash(r)}}
	}
	signVote(k, sp.chain, v)
	c.Run.Count("votes_signed", 1)
	judgeVote(c, r, v, sp.chain, x, func(int) int { return pAll })
	if c.I == 1 {
		c.Run.Sample(map[string]interface{}{"kind": "vote", "group": c.Group, "case": c.I, "key": k.i, "vote": voteW(v, sp.chain),
			"mutations_presented_with_this_signature": len(voteMutants(r, v, sp.chain, x)), "paths": "Vote.Verify, VoteFromProto+Verify, VoteSet.AddVote, VerifyCommit, VerifyDuplicateVote, DuplicateVoteEvidence.Verify"})
	}
}

type propSpec struct {
	height uint64
	round  uint32
	pol    uint32
	ts     time.Time
	chain  string
	total  uint32
	nilBlk bool
}

func proposalCorpus() []propSpec {
	var o []propSpec
	for i, b := range voteCorpus() {
		if b.typ != kproto.PrevoteType {
			continue
		}
		pol := []uint32{0, 1, b.round, 1<<32 - 1, 1 << 31, 127, 128, 2}[(i/4)%8]
		o = append(o, propSpec{b.height, b.round, pol, b.ts, b.chain, b.total, b.nilBlk})
	}
	return o
}

func corpusProposal(c *core.Case) {
	sp := proposalCorpus()[c.I]
	r := fixedRand("proposal", c.I)
	ks := allKeys()
	k, o := ks[(c.I+3)%nKeys], ks[(c.I+9)%nKeys]
	p := &types.Proposal{Height: sp.height, Round: sp.round, POLRound: sp.pol, Timestamp: sp.ts}
	if !sp.nilBlk {
		p.POLBlockID = types.BlockID{Hash: randHash(r), PartsHeader: types.PartSetHeader{Total: sp.total, Hash: randHash(r)}}
	}
	signProposal(k, sp.chain, p)
	c.Run.Count("proposals_signed", 1)
	judgeProposal(c, r, p, sp.chain, k, o)
	if c.I < 1 {
		c.Run.Sample(map[string]interface{}{"kind": "proposal", "group": c.Group, "case": c.I, "key": k.i, "proposal": propW(p, sp.chain)})
	}
}

type txSpec struct {
	f  txF
	sg signerSpec
}

func txCorpus() []txSpec {
	addr := func(s string) []byte { return common.HexToAddress(s).Bytes() }
	fs := []txF{
		{Nonce: 0, Price: big.NewInt(0), Gas: 0, To: nil, Value: big.NewInt(0), Data: nil},
		{Nonce: 1, Price: big.NewInt(1), Gas: 21000, To: addr("0x00000000000000000000000000000000deadbeef"), Value: big.NewInt(1), Data: nil},
		{Nonce: 1<<64 - 1, Price: new(big.Int).Lsh(big1, 255), Gas: 1<<64 - 1, To: make([]byte, 20), Value: new(big.Int).Sub(new(big.Int).Lsh(big1, 256), big1), Data: []byte{0}},
		{Nonce: 127, Price: big.NewInt(128), Gas: 255, To: addr("0xffffffffffffffffffffffffffffffffffffffff"), Value: big.NewInt(256), Data: make([]byte, 55)},
		{Nonce: 128, Price: big.NewInt(127), Gas: 256, To: nil, Value: big.NewInt(255), Data: append(make([]byte, 55), 0x80)},
		{Nonce: 5, Price: big.NewInt(1000000000), Gas: 100000, To: addr("0x0000000000000000000000000000000000000001"), Value: big.NewInt(0), Data: []byte{0x80}},
	}
	var o []txSpec
	for _, f := range fs {
		for _, sg := range allSignerSpecs() {
			o = append(o, txSpec{f, sg})
		}
	}
	return o
}

func corpusTx(c *core.Case) {
	sp := txCorpus()[c.I]
	r := fixedRand("tx", c.I)
	k := allKeys()[c.I%nKeys]
	c.Run.Count("txs_signed", 1)
	sg := sp.sg
	sg.Via = c.I
	judgeTx(c, r, sp.f.clone(), sg, k, true)
}

// ---- random groups ----

func genVote(r *rand.Rand, k *keyT, x *vctx) *types.Vote {
	v := &types.Vote{ValidatorAddress: k.addr, ValidatorIndex: x.idxK, Height: genHeight(r), Round: genRound(r), Timestamp: genTime(r), Type: kproto.PrevoteType}
	if r.Intn(2) == 0 {
		v.Type = kproto.PrecommitType
	}
	if r.Intn(4) != 0 {
		v.BlockID = genBlockID(r)
	}
	return v
}

func randVote(c *core.Case) {
	r := c.R
	k, h := pickKeys(r)
	x := newVctx(k, h)
	chain := voteChains[r.Intn(len(voteChains))]
	v := genVote(r, k, x)
	signVote(k, chain, v)
	c.Run.Count("votes_signed", 1)
	// every mutant goes through Vote.Verify and the wire form, plus one of the three heavier paths in rotation
	rot := []int{pVoteSet, pCommit, pEvidence}
	off := r.Intn(3)
	judgeVote(c, r, v, chain, x, func(i int) int { return pVerify | pWire | rot[(i+off)%3] })
}

func genProposal(r *rand.Rand) *types.Proposal {
	p := &types.Proposal{Height: genHeight(r), Round: genRound(r), POLRound: genRound(r), Timestamp: genTime(r)}
	if r.Intn(8) != 0 {
		p.POLBlockID = genBlockID(r)
		if r.Intn(3) != 0 {
			p.POLBlockID.PartsHeader.Total = uint32(1 + r.Intn(40)) // within what Proposal.ValidateBasic admits, so that the wire path is exercised
		}
	}
	return p
}

func randProposal(c *core.Case) {
	r := c.R
	k, o := pickKeys(r)
	chain := voteChains[r.Intn(len(voteChains))]
	p := genProposal(r)
	signProposal(k, chain, p)
	c.Run.Count("proposals_signed", 1)
	judgeProposal(c, r, p, chain, k, o)
}

func randTx(c *core.Case) {
	r := c.R
	k, _ := pickKeys(r)
	specs := allSignerSpecs()
	sg := specs[r.Intn(len(specs))]
	sg.Via = r.Intn(4)
	c.Run.Count("txs_signed", 1)
	judgeTx(c, r, genTxF(r), sg, k, false)
}

// ---- cross-object reuse ----

func pAcc(p *types.Proposal, chain string, proposer common.Address) bool {
	acc, _ := proposalAccepts(p, chain, proposer, true)
	return len(acc) > 0
}

func crossCase(c *core.Case) {
	run := c.Run
	r := c.R
	k, h := pickKeys(r)
	x := newVctx(k, h)
	chain := voteChains[r.Intn(len(voteChains))]
	height, round, ts, bid := 1+genHeight(r)%(1<<63), genRound(r), genTime(r), genBlockID(r)
	mkVote := func(t kproto.SignedMsgType) *types.Vote {
		return &types.Vote{ValidatorAddress: k.addr, ValidatorIndex: x.idxK, Height: height, Round: round, Timestamp: ts, Type: t, BlockID: bid}
	}
	pre, com := mkVote(kproto.PrevoteType), mkVote(kproto.PrecommitType)
	signVote(k, chain, pre)
	signVote(k, chain, com)
	pols := []uint32{0, round, genRound(r)}
	prop := &types.Proposal{Height: height, Round: round, POLRound: pols[r.Intn(3)], Timestamp: ts, POLBlockID: bid}
	signProposal(k, chain, prop)
	w := func() map[string]interface{} {
		return map[string]interface{}{"prevote": voteW(pre, chain), "precommit": voteW(com, chain), "proposal": propW(prop, chain), "key": k.i}
	}
	chk := func(key, what string, accepted bool) {
		run.Eval(1)
		run.Count("cross_checks", 1)
		run.Distinct("cross_kind", key)
		if accepted {
			c.Violation("cross:"+key, what, w())
		}
	}
	with := func(v *types.Vote, t kproto.SignedMsgType, sig []byte) *types.Vote {
		m := v.Copy()
		m.Type = t
		m.Signature = sig
		return m
	}
	anyAcc := func(m *types.Vote, ch string) (bool, string) {
		acc, _ := x.accepts(r, m, ch, pAll, x.k.addr)
		return len(acc) > 0, fmt.Sprint(acc)
	}
	// prevote <-> precommit
	a, by := anyAcc(with(pre, kproto.PrecommitType, pre.Signature), chain)
	chk("prevote-sig-as-precommit", "a prevote signature verifies on the same vote typed precommit: "+by, a)
	acc0, _ := x.accepts(r, with(com, kproto.PrevoteType, com.Signature), chain, pAll&^pCommit, k.addr) // (a commit would read it as the precommit it is)
	a, by = len(acc0) > 0, fmt.Sprint(acc0)
	chk("precommit-sig-as-prevote", "a precommit signature verifies on the same vote typed prevote: "+by, a)
	if ca, ok := x.commitAccepts(pre, chain, k.addr); ok {
		chk("prevote-sig-in-commit", "a prevote signature is accepted by VerifyCommit", ca)
	}
	// proposal signature on votes of every type
	for _, t := range []kproto.SignedMsgType{kproto.PrevoteType, kproto.PrecommitType, kproto.ProposalType, kproto.UnknownType} {
		a, by = anyAcc(with(pre, t, prop.Signature), chain)
		chk(fmt.Sprintf("proposal-sig-on-vote-type-%d", t), "a proposal signature verifies on a vote with the same height/round/block/time: "+by, a)
	}
	// vote signatures on the proposal
	type nsig struct {
		name string
		sig  []byte
	}
	for _, e := range []nsig{{"prevote", pre.Signature}, {"precommit", com.Signature}} {
		name, sig := e.name, e.sig
		for _, pol := range []uint32{prop.POLRound, 0} {
			p := *prop
			p.POLRound = pol
			p.Signature = sig
			chk(name+"-sig-on-proposal", "a vote signature verifies on a proposal with the same height/round/block/time", pAcc(&p, chain, k.addr))
		}
	}
	// another chain
	for _, alt := range chainAlts(r, chain) {
		if alt.chain == chain {
			continue
		}
		a, by = anyAcc(com, alt.chain)
		chk("vote-on-other-chain", fmt.Sprintf("a precommit signed for chain %q verifies under chain %q: %s", chain, alt.chain, by), a)
		chk("proposal-on-other-chain", fmt.Sprintf("a proposal signed for chain %q verifies under chain %q", chain, alt.chain), pAcc(prop, alt.chain, k.addr))
	}
	// another signer: the helper's slot / address with k's signature
	m := com.Copy()
	m.ValidatorAddress, m.ValidatorIndex = h.addr, x.idxH
	acc, _ := x.accepts(r, m, chain, pAll, h.addr)
	chk("vote-under-other-signer", fmt.Sprintf("a precommit signed by key %d verifies as a vote of key %d: %v", k.i, h.i, acc), len(acc) > 0)
	if ca, ok := x.commitAccepts(com, chain, h.addr); ok {
		chk("precommit-in-other-validators-commit-slot", "a precommit of one validator is accepted by VerifyCommit in another validator's slot", ca)
	}
	chk("proposal-under-other-signer", "a proposal verifies for another proposer", pAcc(prop, chain, h.addr))
	// a second signer's honest vote for the same content carries a different signature and does not verify for k
	hv := mkVote(kproto.PrecommitType)
	hv.ValidatorAddress, hv.ValidatorIndex = h.addr, x.idxH
	signVote(h, chain, hv)
	chk("other-signers-sig-for-k", "a signature made by another key verifies for this validator", with(com, kproto.PrecommitType, hv.Signature).Verify(chain, k.addr) == nil)
	// vote / proposal signatures as transaction signatures (and back): the recovered sender is not the signer
	f := genTxF(r)
	for _, e := range []nsig{{"precommit", com.Signature}, {"proposal", prop.Signature}} {
		name, sig := e.name, e.sig
		for _, sg := range []signerSpec{{Kind: skHomestead}, {Kind: skChainID, Chain: txChains[r.Intn(len(txChains))]}} {
			tx, err := unsignedTx(f).WithSignature(sg.real(), sig)
			if err != nil {
				continue
			}
			from, serr := types.Sender(sg.real(), tx)
			chk(name+"-sig-on-transaction", "a consensus signature makes the validator the sender of a transaction", serr == nil && from == k.addr)
		}
	}
	run.Nontrivial(fmt.Sprintf("cross/%d", c.I))
	if c.I < 1 {
		run.Sample(map[string]interface{}{"kind": "cross-object reuse", "case": c.I, "objects": w()})
	}
}
