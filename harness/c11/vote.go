package c11

import (
	"bytes"
	"crypto/ecdsa"
	"encoding/hex"
	"fmt"
	"math/big"
	"math/rand"
	"strings"
	"sync"
	"time"

	"github.com/kardiachain/go-kardia/lib/common"
	"github.com/kardiachain/go-kardia/lib/crypto"
	kproto "github.com/kardiachain/go-kardia/proto/kardiachain/types"
	"github.com/kardiachain/go-kardia/types"
	"github.com/kardiachain/go-kardia/types/evidence"

	"verifharness/core"
)

// ---- keys ----

type keyT struct {
	i    int
	d    *big.Int
	priv *ecdsa.PrivateKey
	pv   *types.DefaultPrivValidator
	pub  pt             // reference: d*G
	addr common.Address // reference: keccak(pub)[12:]
}

const nKeys = 16

var (
	keys     []*keyT
	keysOnce sync.Once
)

func allKeys() []*keyT {
	keysOnce.Do(func() {
		for i := 0; i < nKeys; i++ {
			var d *big.Int
			switch i {
			case 0:
				d = big.NewInt(1)
			case 1:
				d = new(big.Int).Sub(curveN, big1)
			case 2:
				d = new(big.Int).Set(halfN)
			default:
				d = new(big.Int).SetBytes(keccak([]byte(fmt.Sprintf("C11 key %d", i))))
				d.Mod(d, new(big.Int).Sub(curveN, big1))
				d.Add(d, big1)
			}
			priv, err := crypto.ToECDSA(pad32(d))
			if err != nil {
				panic(err)
			}
			k := &keyT{i: i, d: d, priv: priv, pv: types.NewDefaultPrivValidator(priv), pub: pmul(d, curveG)}
			k.addr = common.Address(refAddress(k.pub))
			keys = append(keys, k)
		}
	})
	return keys
}

func keyByAddr(a common.Address) *keyT {
	for _, k := range allKeys() {
		if k.addr == a {
			return k
		}
	}
	return nil
}

// ---- generators ----

var voteChains = []string{"", "kai", "kardia-1", "kardia-2", "KARDIA-1", "kardia-1\x00", "kardia-1 ", "kardia-11",
	strings.Repeat("c", 300), "kárdia", "0", "24"}

var heightBounds = []uint64{0, 1, 2, 127, 128, 255, 256, 1<<32 - 1, 1 << 32, 1<<32 + 1, 1<<63 - 1, 1 << 63, 1<<64 - 1}
var roundBounds = []uint32{0, 1, 2, 127, 128, 1<<31 - 1, 1 << 31, 1<<32 - 1}

func genHeight(r *rand.Rand) uint64 {
	switch r.Intn(6) {
	case 0:
		return heightBounds[r.Intn(len(heightBounds))]
	case 1:
		return r.Uint64()
	case 2:
		return uint64(r.Uint32())
	case 3:
		return uint64(1) << uint(r.Intn(64))
	default:
		return uint64(1 + r.Intn(100000))
	}
}

func genRound(r *rand.Rand) uint32 {
	switch r.Intn(5) {
	case 0:
		return roundBounds[r.Intn(len(roundBounds))]
	case 1:
		return r.Uint32()
	default:
		return uint32(r.Intn(6))
	}
}

// The canonical encoding carries google.protobuf.Timestamp (seconds, nanos):
// resolution 1 ns, range 0001-01-01 .. 9999-12-31 (gogoproto refuses to marshal
// anything outside, which makes the sign-bytes functions panic; the wire decoder
// refuses such values too, so they are outside the workload).
const (
	minSec = -62135596800
	maxSec = 253402300799
)

func timeOK(t time.Time) bool { return t.Unix() >= minSec && t.Unix() <= maxSec }

func genTime(r *rand.Rand) time.Time {
	var sec int64
	switch r.Intn(8) {
	case 0:
		return time.Time{} // year 1, the zero value
	case 1:
		sec = 0
	case 2:
		sec = minSec + r.Int63n(maxSec-minSec)
	case 3:
		sec = -r.Int63n(1 << 31)
	case 4:
		sec = []int64{minSec, maxSec, 1<<31 - 1, 1 << 31, 1<<32 - 1, 1 << 32, -1}[r.Intn(7)]
	default:
		sec = 1500000000 + r.Int63n(400000000)
	}
	var ns int64
	switch r.Intn(6) {
	case 0:
		ns = 0
	case 1:
		ns = 999999999
	case 2:
		ns = 1
	case 3:
		ns = int64(r.Intn(1000)) * 1000000 // whole milliseconds
	default:
		ns = r.Int63n(1000000000)
	}
	return time.Unix(sec, ns).UTC()
}

func randHash(r *rand.Rand) (h common.Hash) {
	r.Read(h[:])
	if h.IsZero() {
		h[31] = 1
	}
	return
}

func genTotal(r *rand.Rand) uint32 {
	switch r.Intn(4) {
	case 0:
		return []uint32{1, 2, 127, 128, 1<<31 - 1, 1 << 31, 1<<32 - 1}[r.Intn(7)]
	case 1:
		return r.Uint32() | 1
	default:
		return uint32(1 + r.Intn(40))
	}
}

func genBlockID(r *rand.Rand) types.BlockID {
	return types.BlockID{Hash: randHash(r), PartsHeader: types.PartSetHeader{Total: genTotal(r), Hash: randHash(r)}}
}

func toRefBID(b types.BlockID) refBlockID {
	return refBlockID{Hash: [32]byte(b.Hash), PartsHash: [32]byte(b.PartsHeader.Hash), Total: b.PartsHeader.Total}
}

func voteRef(v *types.Vote, chain string) []byte {
	return refVoteSignBytes(chain, int32(v.Type), v.Height, v.Round, toRefBID(v.BlockID), v.Timestamp)
}

func propRef(p *types.Proposal, chain string) []byte {
	return refProposalSignBytes(chain, p.Height, p.Round, p.POLRound, toRefBID(p.POLBlockID), p.Timestamp)
}

func signVote(k *keyT, chain string, v *types.Vote) {
	pb := v.ToProto()
	if err := k.pv.SignVote(chain, pb); err != nil {
		panic(err)
	}
	v.Signature = pb.Signature
}

func signProposal(k *keyT, chain string, p *types.Proposal) {
	pb := p.ToProto()
	if err := k.pv.SignProposal(chain, pb); err != nil {
		panic(err)
	}
	p.Signature = pb.Signature
}

// ---- witnesses ----

func voteW(v *types.Vote, chain string) map[string]interface{} {
	return map[string]interface{}{"chain": chain, "type": int(v.Type), "height": v.Height, "round": v.Round,
		"block_hash": hex.EncodeToString(v.BlockID.Hash[:]), "parts_hash": hex.EncodeToString(v.BlockID.PartsHeader.Hash[:]),
		"parts_total": v.BlockID.PartsHeader.Total, "time_unix": v.Timestamp.Unix(), "time_nanos": v.Timestamp.Nanosecond(),
		"validator": hex.EncodeToString(v.ValidatorAddress[:]), "index": v.ValidatorIndex, "signature": hex.EncodeToString(v.Signature)}
}

func propW(p *types.Proposal, chain string) map[string]interface{} {
	return map[string]interface{}{"chain": chain, "height": p.Height, "round": p.Round, "pol_round": p.POLRound,
		"block_hash": hex.EncodeToString(p.POLBlockID.Hash[:]), "parts_hash": hex.EncodeToString(p.POLBlockID.PartsHeader.Hash[:]),
		"parts_total": p.POLBlockID.PartsHeader.Total, "time_unix": p.Timestamp.Unix(), "time_nanos": p.Timestamp.Nanosecond(),
		"signature": hex.EncodeToString(p.Signature)}
}

// ---- verification paths for votes (public functions only) ----

// vctx is the validator-set context of one case: the signer (power 1) and a helper
// (power 100) whose honest signatures let VerifyCommit succeed exactly when the
// signature under test is accepted.
type vctx struct {
	k, helper *keyT
	vs        *types.ValidatorSet
	idxK      uint32
	idxH      uint32
}

func newVctx(k, helper *keyT) *vctx {
	vs := types.NewValidatorSet([]*types.Validator{types.NewValidator(k.addr, 1), types.NewValidator(helper.addr, 100)})
	ik, _ := vs.GetByAddress(k.addr)
	ih, _ := vs.GetByAddress(helper.addr)
	return &vctx{k: k, helper: helper, vs: vs, idxK: uint32(ik), idxH: uint32(ih)}
}

const (
	pVerify = 1 << iota
	pWire
	pVoteSet
	pCommit
	pEvidence
	pAll = pVerify | pWire | pVoteSet | pCommit | pEvidence
)

var dummyBlock = types.BlockID{Hash: common.BytesToHash(keccak([]byte("c11 dummy block"))),
	PartsHeader: types.PartSetHeader{Total: 3, Hash: common.BytesToHash(keccak([]byte("c11 dummy parts")))}}

// verifyEither: the node verifies a vote against the address of the validator it
// expects; a vote is "accepted" here if it verifies for the real signer's address
// or for the address it claims.
func verifyEither(v *types.Vote, chain string, signer common.Address) bool {
	if v.Verify(chain, signer) == nil {
		return true
	}
	return v.ValidatorAddress != signer && v.Verify(chain, v.ValidatorAddress) == nil
}

func wireVote(v *types.Vote) (*types.Vote, error) {
	bz, err := v.ToProto().Marshal()
	if err != nil {
		return nil, err
	}
	var pb kproto.Vote
	if err := pb.Unmarshal(bz); err != nil {
		return nil, err
	}
	return types.VoteFromProto(&pb)
}

// commitAccepts places the vote's fields and signature in the commit slot of slotAddr
// (commits are precommits by construction). applicable=false when the vote cannot be
// expressed as a commit signature whose acceptance is observable.
func (x *vctx) commitAccepts(m *types.Vote, chain string, slotAddr common.Address) (accepted, applicable bool) {
	var slot uint32
	switch slotAddr {
	case x.k.addr:
		slot = x.idxK
	case x.helper.addr:
		slot = x.idxH
	default:
		return false, false
	}
	commitBID := m.BlockID
	flag := types.BlockIDFlagCommit
	switch {
	case m.BlockID.IsComplete():
	case m.BlockID.IsZero():
		if slotAddr == x.helper.addr {
			return false, false // a nil vote in the heavy slot never reaches 2/3: acceptance not observable
		}
		commitBID, flag = dummyBlock, types.BlockIDFlagNil
	default:
		return false, false // half-empty block ids have no commit-signature form
	}
	sigs := make([]types.CommitSig, 2)
	sigs[slot] = types.CommitSig{BlockIDFlag: flag, ValidatorAddress: m.ValidatorAddress, Timestamp: m.Timestamp, Signature: m.Signature}
	other := 1 - slot
	if other == x.idxH {
		hv := &types.Vote{ValidatorAddress: x.helper.addr, ValidatorIndex: x.idxH, Height: m.Height, Round: m.Round,
			Timestamp: m.Timestamp, Type: kproto.PrecommitType, BlockID: commitBID}
		signVote(x.helper, chain, hv)
		sigs[other] = hv.CommitSig()
	} else {
		sigs[other] = types.NewCommitSigAbsent()
	}
	commit := types.NewCommit(m.Height, m.Round, commitBID, sigs)
	return x.vs.VerifyCommit(chain, commitBID, m.Height, commit) == nil, true
}

// evidenceAccepts pairs the vote with an honestly signed conflicting vote of the same
// height/round/type/address and offers the pair as duplicate-vote evidence.
func (x *vctx) evidenceAccepts(r *rand.Rand, m *types.Vote, chain string) (accVerify, accDve bool) {
	b := m.Copy()
	b.BlockID = types.BlockID{Hash: m.BlockID.Hash, PartsHeader: m.BlockID.PartsHeader}
	b.BlockID.Hash[0] ^= 0x80
	if !b.BlockID.IsComplete() {
		b.BlockID = genBlockID(r)
	}
	bk := keyByAddr(m.ValidatorAddress)
	if bk == nil {
		bk = x.k
	}
	signVote(bk, chain, b)
	_, val := x.vs.GetByAddress(m.ValidatorAddress)
	power := int64(1)
	if val != nil {
		power = val.VotingPower
	}
	ev := &types.DuplicateVoteEvidence{VoteA: m, VoteB: b, TotalVotingPower: x.vs.TotalVotingPower(), ValidatorPower: power, Timestamp: m.Timestamp}
	if r.Intn(2) == 0 {
		ev.VoteA, ev.VoteB = b, m
	}
	accVerify = evidence.VerifyDuplicateVote(ev, chain, x.vs) == nil
	accDve = ev.Verify(chain, m.ValidatorAddress) == nil
	if !accDve && m.ValidatorAddress != x.k.addr {
		accDve = ev.Verify(chain, x.k.addr) == nil
	}
	return
}

// accepts returns the names of the paths that accepted the vote with its signature.
func (x *vctx) accepts(r *rand.Rand, m *types.Vote, chain string, paths int, commitSlot common.Address) (acc []string, tried int) {
	if paths&pVerify != 0 {
		tried++
		if verifyEither(m, chain, x.k.addr) {
			acc = append(acc, "Vote.Verify")
		}
	}
	if paths&pWire != 0 {
		// what VoteFromProto/ValidateBasic refuses never reaches the signature check: not a verdict on the signature
		if w, err := wireVote(m); err == nil {
			tried++
			if verifyEither(w, chain, x.k.addr) {
				acc = append(acc, "VoteFromProto+Verify")
			}
		}
	}
	if paths&pVoteSet != 0 && m.Height != 0 {
		tried++
		added, err := types.NewVoteSet(chain, m.Height, m.Round, m.Type, x.vs).AddVote(m)
		if added && err == nil {
			acc = append(acc, "VoteSet.AddVote")
		}
	}
	if paths&pCommit != 0 {
		if a, ok := x.commitAccepts(m, chain, commitSlot); ok {
			tried++
			if a {
				acc = append(acc, "VerifyCommit")
			}
		}
	}
	if paths&pEvidence != 0 {
		tried += 2
		a1, a2 := x.evidenceAccepts(r, m, chain)
		if a1 {
			acc = append(acc, "VerifyDuplicateVote")
		}
		if a2 {
			acc = append(acc, "DuplicateVoteEvidence.Verify")
		}
	}
	return
}

// ---- vote mutations ----

type vmut struct {
	field string // class used in violation keys
	name  string
	v     *types.Vote
	chain string
}

type chainAlt struct{ name, chain string }

func chainAlts(r *rand.Rand, chain string) []chainAlt {
	alts := []chainAlt{{"chain_id:append-x", chain + "x"}, {"chain_id:append-nul", chain + "\x00"}, {"chain_id:other", voteChains[r.Intn(len(voteChains))]}}
	if len(chain) > 0 {
		alts = append(alts, chainAlt{"chain_id:drop-last", chain[:len(chain)-1]}, chainAlt{"chain_id:empty", ""},
			chainAlt{"chain_id:upper", strings.ToUpper(chain)}, chainAlt{"chain_id:lower", strings.ToLower(chain)}, chainAlt{"chain_id:drop-first", chain[1:]})
	}
	return alts
}

type bidMut struct {
	name string
	b    types.BlockID
}

func blockIDAlts(r *rand.Rand, b types.BlockID) []bidMut {
	var o []bidMut
	add := func(name string, f func(x *types.BlockID)) {
		c := b
		f(&c)
		o = append(o, bidMut{name, c})
	}
	if b.IsZero() {
		o = append(o, bidMut{"block:nil->block", genBlockID(r)})
		add("block_hash:set", func(x *types.BlockID) { x.Hash = randHash(r) })
		add("parts_hash:set", func(x *types.BlockID) { x.PartsHeader.Hash = randHash(r) })
		add("parts_total:set1", func(x *types.BlockID) { x.PartsHeader.Total = 1 })
		return o
	}
	add("block_hash:flip", func(x *types.BlockID) { x.Hash[r.Intn(32)] ^= 1 << uint(r.Intn(8)) })
	add("block_hash:flip-last", func(x *types.BlockID) { x.Hash[31] ^= 1 })
	add("block_hash:zero", func(x *types.BlockID) { x.Hash = common.Hash{} })
	add("parts_hash:flip", func(x *types.BlockID) { x.PartsHeader.Hash[r.Intn(32)] ^= 1 << uint(r.Intn(8)) })
	add("parts_hash:zero", func(x *types.BlockID) { x.PartsHeader.Hash = common.Hash{} })
	add("parts_total:+1", func(x *types.BlockID) { x.PartsHeader.Total++ })
	add("parts_total:-1", func(x *types.BlockID) { x.PartsHeader.Total-- })
	add("parts_total:zero", func(x *types.BlockID) { x.PartsHeader.Total = 0 })
	add("parts_total:flipbit", func(x *types.BlockID) { x.PartsHeader.Total ^= 1 << uint(r.Intn(32)) })
	add("block:swap-hashes", func(x *types.BlockID) { x.Hash, x.PartsHeader.Hash = x.PartsHeader.Hash, x.Hash })
	add("block:->nil", func(x *types.BlockID) { *x = types.BlockID{} })
	return o
}

type tsMut struct {
	name string
	t    time.Time
}

func timeAlts(r *rand.Rand, t time.Time) []tsMut {
	var o []tsMut
	for _, d := range []struct {
		n string
		d time.Duration
	}{{"+1ns", 1}, {"-1ns", -1}, {"+1us", time.Microsecond}, {"+1ms", time.Millisecond}, {"-1ms", -time.Millisecond},
		{"+1s", time.Second}, {"-1s", -time.Second}, {"+1h", time.Hour}, {"+rand", time.Duration(1 + r.Int63n(1<<40))}} {
		o = append(o, tsMut{"timestamp:" + d.n, t.Add(d.d)})
	}
	o = append(o, tsMut{"timestamp:trunc-s", t.Truncate(time.Second)}, tsMut{"timestamp:trunc-ms", t.Truncate(time.Millisecond)},
		tsMut{"timestamp:trunc-us", t.Truncate(time.Microsecond)}, tsMut{"timestamp:zero", time.Time{}},
		tsMut{"timestamp:nanos-only", time.Unix(t.Unix(), int64((t.Nanosecond()+500000000)%1000000000)).UTC()},
		tsMut{"timestamp:secs-only", time.Unix(t.Unix()^1, int64(t.Nanosecond())).UTC()})
	var keep []tsMut
	for _, m := range o {
		if timeOK(m.t) {
			keep = append(keep, m)
		}
	}
	return keep
}

func voteMutants(r *rand.Rand, o *types.Vote, chain string, x *vctx) []vmut {
	var out []vmut
	add := func(field, name string, f func(v *types.Vote)) {
		v := o.Copy()
		f(v)
		out = append(out, vmut{field, name, v, chain})
	}
	for _, a := range chainAlts(r, chain) {
		out = append(out, vmut{"chain_id", a.name, o.Copy(), a.chain})
	}
	// type
	flip := kproto.PrevoteType
	if o.Type == kproto.PrevoteType {
		flip = kproto.PrecommitType
	}
	add("type", "type:prevote<->precommit", func(v *types.Vote) { v.Type = flip })
	add("type", "type:proposal(32)", func(v *types.Vote) { v.Type = kproto.ProposalType })
	add("type", "type:unknown(0)", func(v *types.Vote) { v.Type = kproto.UnknownType })
	add("type", "type:3", func(v *types.Vote) { v.Type = 3 })
	// height
	add("height", "height:+1", func(v *types.Vote) { v.Height++ })
	add("height", "height:-1", func(v *types.Vote) { v.Height-- })
	add("height", "height:zero", func(v *types.Vote) { v.Height = 0 })
	add("height", "height:flipbit", func(v *types.Vote) { v.Height ^= 1 << uint(r.Intn(64)) })
	add("height", "height:flipbit63", func(v *types.Vote) { v.Height ^= 1 << 63 })
	add("height", "height:+2^32", func(v *types.Vote) { v.Height += 1 << 32 })
	add("height", "height:low32", func(v *types.Vote) { v.Height = uint64(uint32(v.Height)) })
	add("height", "height<->round", func(v *types.Vote) { v.Height, v.Round = uint64(v.Round), uint32(v.Height) })
	// round
	add("round", "round:+1", func(v *types.Vote) { v.Round++ })
	add("round", "round:-1", func(v *types.Vote) { v.Round-- })
	add("round", "round:zero", func(v *types.Vote) { v.Round = 0 })
	add("round", "round:flipbit", func(v *types.Vote) { v.Round ^= 1 << uint(r.Intn(32)) })
	add("round", "round:flipbit31", func(v *types.Vote) { v.Round ^= 1 << 31 })
	// block id
	for _, b := range blockIDAlts(r, o.BlockID) {
		b := b
		add(strings.SplitN(b.name, ":", 2)[0], b.name, func(v *types.Vote) { v.BlockID = b.b })
	}
	// timestamp
	for _, t := range timeAlts(r, o.Timestamp) {
		t := t
		add("timestamp", t.name, func(v *types.Vote) { v.Timestamp = t.t })
	}
	// signer: the same message and signature presented under another validator
	add("validator_address", "validator_address:helper", func(v *types.Vote) { v.ValidatorAddress = x.helper.addr; v.ValidatorIndex = x.idxH })
	add("validator_address", "validator_address:helper-keep-index", func(v *types.Vote) { v.ValidatorAddress = x.helper.addr })
	add("validator_address", "validator_address:flipbit", func(v *types.Vote) { v.ValidatorAddress[r.Intn(20)] ^= 1 << uint(r.Intn(8)) })
	add("validator_address", "validator_address:zero", func(v *types.Vote) { v.ValidatorAddress = common.Address{} })
	// commit slot: VerifyCommit takes the key from the slot's position, not from the address in the entry
	add("commit_slot", "commit_slot:other-validator", func(v *types.Vote) {})
	// index (not signed; relevant where the verifier picks the key by index)
	add("validator_index", "validator_index:other", func(v *types.Vote) { v.ValidatorIndex = x.idxH })
	add("validator_index", "validator_index:out-of-range", func(v *types.Vote) { v.ValidatorIndex = 2 + uint32(r.Intn(1000)) })
	add("validator_index", "validator_index:max", func(v *types.Vote) { v.ValidatorIndex = 1<<32 - 1 })
	return out
}

// judgeVote runs the original vote (positive control) and every mutant through the paths.
func judgeVote(c *core.Case, r *rand.Rand, o *types.Vote, chain string, x *vctx, pathsFor func(i int) int) {
	run := c.Run
	oref := voteRef(o, chain)
	// sign-bytes against the transcription of canonical.proto
	real := types.VoteSignBytes(chain, o.ToProto())
	if !bytes.Equal(real, oref) {
		c.Violation("vote:sign-bytes-differ-from-canonical.proto", "VoteSignBytes does not equal the proto3 encoding of CanonicalVote{type,height,round,block_id,timestamp,chain_id} for this vote",
			map[string]interface{}{"vote": voteW(o, chain), "real": hex.EncodeToString(real), "spec": hex.EncodeToString(oref)})
	} else {
		run.Count("vote_signbytes_equal_spec", 1)
	}
	// positive control: the honest signature is accepted on every applicable path
	acc, tried := x.accepts(r, o, chain, pAll&^pCommit, x.k.addr)
	honestOK := len(acc) == tried
	if a, ok := x.commitAccepts(o, chain, x.k.addr); ok {
		if o.Type == kproto.PrecommitType {
			tried++
			if a {
				acc = append(acc, "VerifyCommit")
			} else {
				honestOK = false
			}
		} else {
			// cross-object reuse: a commit is a set of precommits
			run.Eval(1)
			run.Count("cross_prevote_sig_in_commit", 1)
			if a {
				c.Violation("vote:type:VerifyCommit", "a prevote signature placed in a commit (a set of precommits) passes VerifyCommit",
					map[string]interface{}{"vote": voteW(o, chain), "signer_key": x.k.i})
			}
		}
	}
	if !honestOK {
		c.Violation("vote:honest-signature-rejected", fmt.Sprintf("a vote signed by the validator's own key is rejected on some path (accepted only by %v)", acc),
			map[string]interface{}{"vote": voteW(o, chain), "accepted_by": acc, "signer_key": x.k.i})
		return
	}
	run.Count("vote_controls_accepted", 1)
	run.Count("vote_control_paths", tried)
	// recover: sign -> recover returns the signer
	if pub, err := crypto.SigToPub(crypto.Keccak256(real), o.Signature); err != nil || common.Address(refAddress(pt{pub.X, pub.Y})) != x.k.addr {
		c.Violation("vote:sign-recover", "recovering the signer from an honest vote signature does not give the signer's address",
			map[string]interface{}{"vote": voteW(o, chain), "err": fmt.Sprint(err)})
	}
	muts := voteMutants(r, o, chain, x)
	for i, m := range muts {
		different := !bytes.Equal(voteRef(m.v, m.chain), oref) || m.v.ValidatorAddress != o.ValidatorAddress
		paths := pathsFor(i)
		slot := x.k.addr
		switch m.field {
		case "validator_index":
			paths &= pVoteSet // the index is not signed; only the vote set selects the key by it
			if m.v.ValidatorIndex == o.ValidatorIndex {
				run.Count("mutation_noop", 1)
				continue
			}
		case "commit_slot":
			paths, slot = pCommit, x.helper.addr // the honest vote, untouched, in another validator's slot
		case "validator_address":
			slot = m.v.ValidatorAddress
		default:
			if !different {
				run.Count("mutation_noop", 1) // e.g. truncating a timestamp that has no sub-second part
				continue
			}
		}
		if paths&pCommit != 0 {
			// in a commit the vote is read as a precommit: applicable if that reading differs from the signed message
			cm := m.v.Copy()
			cm.Type = kproto.PrecommitType
			if bytes.Equal(voteRef(cm, m.chain), oref) && m.field != "validator_address" && m.field != "commit_slot" {
				paths &^= pCommit
			}
		}
		if paths == 0 {
			continue
		}
		acc, tried := x.accepts(r, m.v, m.chain, paths, slot)
		if tried == 0 {
			continue
		}
		run.Eval(1)
		run.Count("vote_mutants", 1)
		run.Count("vote_mutant_checks", tried)
		run.Distinct("vote_mutation", m.name)
		run.Nontrivial(fmt.Sprintf("%s/%d/%s", c.Group, c.I, m.name))
		if len(acc) > 0 {
			c.Violation("vote:"+m.field+":"+acc[0], // keyed by the first accepting path (fixed order); all of them are in the text
				fmt.Sprintf("a vote signature stays valid after changing %s (%s): accepted by %v", m.field, m.name, acc),
				map[string]interface{}{"signed": voteW(o, chain), "presented": voteW(m.v, m.chain), "mutation": m.name, "signer_key": x.k.i, "accepted_by": acc})
		}
	}
}

// ---- proposals ----

// proposalAccepts is the check consensus/state.go setProposal applies to a received
// proposal: types.VerifySignature(proposer, Keccak256(ProposalSignBytes(chainID, proposal.ToProto())), proposal.Signature).
func proposalAccepts(p *types.Proposal, chain string, proposer common.Address, wire bool) (acc []string, tried int) {
	tried = 1
	if types.VerifySignature(proposer, crypto.Keccak256(types.ProposalSignBytes(chain, p.ToProto())), p.Signature) {
		acc = append(acc, "setProposal-check")
	}
	if wire {
		bz, err := p.ToProto().Marshal()
		if err == nil {
			var pb kproto.Proposal
			if pb.Unmarshal(bz) == nil {
				// what ProposalFromProto/ValidateBasic refuses never reaches the signature check
				if q, err := types.ProposalFromProto(&pb); err == nil {
					tried++
					if types.VerifySignature(proposer, crypto.Keccak256(types.ProposalSignBytes(chain, q.ToProto())), q.Signature) {
						acc = append(acc, "ProposalFromProto+setProposal-check")
					}
				}
			}
		}
	}
	return
}

type pmut struct {
	field, name string
	p           *types.Proposal
	chain       string
	proposer    common.Address
}

func proposalMutants(r *rand.Rand, o *types.Proposal, chain string, k, other *keyT) []pmut {
	var out []pmut
	add := func(field, name string, f func(p *types.Proposal)) {
		p := *o
		f(&p)
		out = append(out, pmut{field, name, &p, chain, k.addr})
	}
	for _, a := range chainAlts(r, chain) {
		p := *o
		out = append(out, pmut{"chain_id", a.name, &p, a.chain, k.addr})
	}
	add("height", "height:+1", func(p *types.Proposal) { p.Height++ })
	add("height", "height:-1", func(p *types.Proposal) { p.Height-- })
	add("height", "height:zero", func(p *types.Proposal) { p.Height = 0 })
	add("height", "height:flipbit", func(p *types.Proposal) { p.Height ^= 1 << uint(r.Intn(64)) })
	add("height", "height:flipbit63", func(p *types.Proposal) { p.Height ^= 1 << 63 })
	add("height", "height:+2^32", func(p *types.Proposal) { p.Height += 1 << 32 })
	add("height", "height:low32", func(p *types.Proposal) { p.Height = uint64(uint32(p.Height)) })
	add("height", "height<->round", func(p *types.Proposal) { p.Height, p.Round = uint64(p.Round), uint32(p.Height) })
	add("round", "round:+1", func(p *types.Proposal) { p.Round++ })
	add("round", "round:-1", func(p *types.Proposal) { p.Round-- })
	add("round", "round:zero", func(p *types.Proposal) { p.Round = 0 })
	add("round", "round:flipbit", func(p *types.Proposal) { p.Round ^= 1 << uint(r.Intn(32)) })
	add("round", "round<->pol_round", func(p *types.Proposal) { p.Round, p.POLRound = p.POLRound, p.Round })
	add("pol_round", "pol_round:+1", func(p *types.Proposal) { p.POLRound++ })
	add("pol_round", "pol_round:-1", func(p *types.Proposal) { p.POLRound-- })
	add("pol_round", "pol_round:zero", func(p *types.Proposal) { p.POLRound = 0 })
	add("pol_round", "pol_round:flipbit", func(p *types.Proposal) { p.POLRound ^= 1 << uint(r.Intn(32)) })
	add("pol_round", "pol_round:=round", func(p *types.Proposal) { p.POLRound = p.Round })
	for _, b := range blockIDAlts(r, o.POLBlockID) {
		b := b
		add(strings.SplitN(b.name, ":", 2)[0], b.name, func(p *types.Proposal) { p.POLBlockID = b.b })
	}
	for _, t := range timeAlts(r, o.Timestamp) {
		t := t
		add("timestamp", t.name, func(p *types.Proposal) { p.Timestamp = t.t })
	}
	p := *o
	out = append(out, pmut{"proposer", "proposer:other-key", &p, chain, other.addr})
	fl := k.addr
	fl[r.Intn(20)] ^= 1 << uint(r.Intn(8))
	p2 := *o
	out = append(out, pmut{"proposer", "proposer:flipbit", &p2, chain, fl})
	return out
}

func judgeProposal(c *core.Case, r *rand.Rand, o *types.Proposal, chain string, k, other *keyT) {
	run := c.Run
	oref := propRef(o, chain)
	real := types.ProposalSignBytes(chain, o.ToProto())
	if !bytes.Equal(real, oref) {
		c.Violation("proposal:sign-bytes-differ-from-canonical.proto", "ProposalSignBytes does not equal the proto3 encoding of CanonicalProposal{type=32,height,round,pol_round,block_id,timestamp,chain_id}",
			map[string]interface{}{"proposal": propW(o, chain), "real": hex.EncodeToString(real), "spec": hex.EncodeToString(oref)})
	} else {
		run.Count("proposal_signbytes_equal_spec", 1)
	}
	acc, want := proposalAccepts(o, chain, k.addr, true)
	if want == 2 {
		run.Count("proposal_controls_through_wire", 1)
	}
	if len(acc) != want {
		c.Violation("proposal:honest-signature-rejected", fmt.Sprintf("a proposal signed by the proposer's own key is rejected (accepted by %v)", acc),
			map[string]interface{}{"proposal": propW(o, chain)})
		return
	}
	run.Count("proposal_controls_accepted", 1)
	if pub, err := crypto.SigToPub(crypto.Keccak256(real), o.Signature); err != nil || common.Address(refAddress(pt{pub.X, pub.Y})) != k.addr {
		c.Violation("proposal:sign-recover", "recovering the signer from an honest proposal signature does not give the signer's address",
			map[string]interface{}{"proposal": propW(o, chain), "err": fmt.Sprint(err)})
	}
	for _, m := range proposalMutants(r, o, chain, k, other) {
		if m.field != "proposer" && bytes.Equal(propRef(m.p, m.chain), oref) {
			run.Count("mutation_noop", 1)
			continue
		}
		acc, tried := proposalAccepts(m.p, m.chain, m.proposer, true)
		run.Eval(1)
		run.Count("proposal_mutants", 1)
		run.Count("proposal_mutant_checks", tried)
		run.Distinct("proposal_mutation", m.name)
		run.Nontrivial(fmt.Sprintf("%s/%d/%s", c.Group, c.I, m.name))
		if len(acc) > 0 {
			c.Violation("proposal:"+m.field+":"+acc[0],
				fmt.Sprintf("a proposal signature stays valid after changing %s (%s): accepted by %v", m.field, m.name, acc),
				map[string]interface{}{"signed": propW(o, chain), "presented": propW(m.p, m.chain), "presented_proposer": hex.EncodeToString(m.proposer[:]),
					"mutation": m.name, "signer_key": k.i})
		}
	}
}
