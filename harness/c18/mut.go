package c18

import (
	"fmt"
	"math/rand"
	"reflect"
	"strings"
	"time"
)

// Structure-level mutation of protobuf message structs (the generated gogo types):
// a deterministic walk enumerates every (field, boundary value) pair of a message;
// the k-th pair can be applied to a fresh copy. This is the level that can express
// e.g. a bit array whose Bits does not match len(Elems), a nil sub-message, an
// unknown enum value, a signature of 64 or 66 bytes.

type mutWalk struct {
	target int        // index of the mutation to apply (-1: only count)
	n      int        // mutations seen so far
	label  string     // label of the applied mutation
	r      *rand.Rand // source for filler bytes
	oneofs map[reflect.Type][]reflect.Type
}

var timeType = reflect.TypeOf(time.Time{})

// CountMutations returns the number of single mutations of msg.
func CountMutations(msg interface{}) int {
	w := &mutWalk{target: -1}
	w.walk(reflect.ValueOf(msg), "")
	return w.n
}

// ApplyMutation applies the k-th mutation to msg in place and returns its label.
func ApplyMutation(msg interface{}, k int, r *rand.Rand) string {
	w := &mutWalk{target: k, r: r}
	w.walk(reflect.ValueOf(msg), "")
	return w.label
}

// opt registers one mutation; returns true if it is the one to apply now.
func (w *mutWalk) opt(path, what string) bool {
	hit := w.n == w.target
	w.n++
	if hit {
		w.label = strings.TrimPrefix(path, ".") + "=" + what
	}
	return hit
}

var u64Bounds = []uint64{0, 1, 2, 3, 4, 5, 63, 64, 65, 127, 128, 1000, 65535, 65536, 1<<31 - 1, 1 << 31, 1<<32 - 1, 1 << 32, 1 << 40, 1 << 62, 1<<63 - 1, 1 << 63, 1<<64 - 1}
var i64Bounds = []int64{-1, -2, -1 << 31, -1 << 63, 0, 1, 2, 3, 4, 5, 32, 63, 64, 65, 128, 1000, 65536, 1<<31 - 1, 1 << 31, 1<<32 - 1, 1 << 32, 1 << 40, 1 << 62, 1<<63 - 1}

func (w *mutWalk) filler(n int) []byte {
	b := make([]byte, n)
	if w.r != nil {
		w.r.Read(b)
	} else {
		for i := range b {
			b[i] = byte(i*7 + 1)
		}
	}
	return b
}

func (w *mutWalk) walk(v reflect.Value, path string) {
	switch v.Kind() {
	case reflect.Ptr:
		if v.IsNil() {
			if v.CanSet() && w.opt(path, "new-zero") {
				v.Set(reflect.New(v.Type().Elem()))
			}
			return
		}
		if v.CanSet() {
			if w.opt(path, "nil") {
				v.Set(reflect.Zero(v.Type()))
				return
			}
			if v.Type().Elem().Kind() == reflect.Struct && w.opt(path, "zero-struct") {
				v.Set(reflect.New(v.Type().Elem()))
				return
			}
		}
		w.walk(v.Elem(), path)
	case reflect.Interface:
		// oneof field
		if v.CanSet() {
			if !v.IsNil() && w.opt(path, "oneof-nil") {
				v.Set(reflect.Zero(v.Type()))
				return
			}
			// the wrapper with a nil / zero inner message (the other variants are produced by the
			// generators of the other message types)
			if !v.IsNil() {
				wt := v.Elem().Type() // *Message_Xxx
				if wt.Kind() == reflect.Ptr && wt.Elem().Kind() == reflect.Struct && wt.Elem().NumField() == 1 {
					if w.opt(path, "oneof-inner-nil") {
						v.Set(reflect.New(wt.Elem()))
						return
					}
				}
			}
		}
		if !v.IsNil() {
			w.walk(v.Elem(), path)
		}
	case reflect.Struct:
		if v.Type() == timeType {
			if !v.CanSet() {
				return
			}
			for _, t := range []struct {
				l string
				t time.Time
			}{{"zero", time.Time{}}, {"epoch", time.Unix(0, 0).UTC()}, {"before-epoch", time.Unix(-62135596800, 0).UTC()}, {"year-9999", time.Date(9999, 12, 31, 23, 59, 59, 999999999, time.UTC)},
				{"plus-1ns", v.Interface().(time.Time).Add(1)}, {"far-future", time.Unix(1<<40, 0).UTC()}} {
				if w.opt(path, "time:"+t.l) {
					v.Set(reflect.ValueOf(t.t))
					return
				}
			}
			return
		}
		for i := 0; i < v.NumField(); i++ {
			f := v.Type().Field(i)
			if f.PkgPath != "" || strings.HasPrefix(f.Name, "XXX_") {
				continue
			}
			w.walk(v.Field(i), path+"."+f.Name)
		}
	case reflect.Slice:
		if v.Type().Elem().Kind() == reflect.Uint8 {
			w.bytesLeaf(v, path)
			return
		}
		if v.CanSet() {
			n := v.Len()
			if n > 0 && w.opt(path, "slice-empty") {
				v.Set(reflect.Zero(v.Type()))
				return
			}
			if n > 0 && w.opt(path, "slice-drop-last") {
				v.Set(v.Slice(0, n-1))
				return
			}
			if n > 1 && w.opt(path, "slice-drop-first") {
				v.Set(v.Slice(1, n))
				return
			}
			if n > 0 && w.opt(path, "slice-dup-first") {
				v.Set(reflect.Append(v, v.Index(0)))
				return
			}
			if n > 1 && w.opt(path, "slice-swap-ends") {
				a, b := reflect.New(v.Type().Elem()).Elem(), reflect.New(v.Type().Elem()).Elem()
				a.Set(v.Index(0))
				b.Set(v.Index(n - 1))
				nv := reflect.MakeSlice(v.Type(), n, n)
				reflect.Copy(nv, v)
				nv.Index(0).Set(b)
				nv.Index(n - 1).Set(a)
				v.Set(nv)
				return
			}
			if w.opt(path, "slice-append-zero") {
				v.Set(reflect.Append(v, reflect.Zero(v.Type().Elem())))
				return
			}
			for _, k := range []int{3, 64, 1025} {
				if w.opt(path, fmt.Sprintf("slice-append-%d-zero", k)) {
					nv := v
					for i := 0; i < k; i++ {
						nv = reflect.Append(nv, reflect.Zero(v.Type().Elem()))
					}
					v.Set(nv)
					return
				}
			}
			if n > 0 && w.opt(path, "slice-x200") {
				nv := reflect.MakeSlice(v.Type(), 0, 200)
				for i := 0; i < 200; i++ {
					nv = reflect.Append(nv, v.Index(i%n))
				}
				v.Set(nv)
				return
			}
		}
		// recurse into the first three and the last element
		n := v.Len()
		for i := 0; i < n; i++ {
			if i >= 3 && i != n-1 {
				continue
			}
			w.walk(v.Index(i), fmt.Sprintf("%s[%d]", path, i))
		}
	case reflect.Uint32, reflect.Uint64, reflect.Uint:
		if !v.CanSet() {
			return
		}
		cur := v.Uint()
		max := uint64(1<<64 - 1)
		if v.Kind() == reflect.Uint32 {
			max = 1<<32 - 1
		}
		seen := map[uint64]bool{cur: true}
		try := func(x uint64, l string) bool {
			if x > max {
				x = max
			}
			if seen[x] {
				return false
			}
			seen[x] = true
			if w.opt(path, l) {
				v.SetUint(x)
				return true
			}
			return false
		}
		if try(cur+1, "cur+1") || try(cur-1, "cur-1") || try(cur+2, "cur+2") {
			return
		}
		for _, b := range u64Bounds {
			if try(b, fmt.Sprint(b)) {
				return
			}
		}
	case reflect.Int32, reflect.Int64, reflect.Int:
		if !v.CanSet() {
			return
		}
		cur := v.Int()
		lo, hi := int64(-1<<63), int64(1<<63-1)
		if v.Kind() == reflect.Int32 {
			lo, hi = -1<<31, 1<<31-1
		}
		seen := map[int64]bool{cur: true}
		try := func(x int64, l string) bool {
			if x < lo {
				x = lo
			}
			if x > hi {
				x = hi
			}
			if seen[x] {
				return false
			}
			seen[x] = true
			if w.opt(path, l) {
				v.SetInt(x)
				return true
			}
			return false
		}
		if try(cur+1, "cur+1") || try(cur-1, "cur-1") {
			return
		}
		for _, b := range i64Bounds {
			if try(b, fmt.Sprint(b)) {
				return
			}
		}
	case reflect.Bool:
		if v.CanSet() && w.opt(path, "flip") {
			v.SetBool(!v.Bool())
		}
	case reflect.String:
		if !v.CanSet() {
			return
		}
		cur := v.String()
		for _, s := range []struct{ l, s string }{{"empty", ""}, {"one-char", "x"}, {"cut", cur[:len(cur)/2]}, {"plus-char", cur + "0"}, {"non-utf8", "\xff\xfe\x00"},
			{"long-4k", strings.Repeat("a", 4096)}, {"upper", strings.ToUpper(cur)}, {"ipv6", "2001:db8::1"}, {"ip-zero", "0.0.0.0"}, {"ip-bcast", "255.255.255.255"}, {"ip-loop", "127.0.0.1"}} {
			if s.s == cur {
				continue
			}
			if w.opt(path, "str:"+s.l) {
				v.SetString(s.s)
				return
			}
		}
	}
}

func (w *mutWalk) bytesLeaf(v reflect.Value, path string) {
	if !v.CanSet() {
		return
	}
	cur := v.Bytes()
	n := len(cur)
	set := func(b []byte) { v.SetBytes(b) }
	cp := func() []byte { return append([]byte(nil), cur...) }
	if n > 0 && w.opt(path, "bytes-nil") {
		set(nil)
		return
	}
	if n > 1 && w.opt(path, "bytes-len1") {
		set(cp()[:1])
		return
	}
	if n > 1 && w.opt(path, "bytes-cut-last") {
		set(cp()[:n-1])
		return
	}
	if n > 2 && w.opt(path, "bytes-cut-first") {
		set(cp()[1:])
		return
	}
	if n > 3 && w.opt(path, "bytes-half") {
		set(cp()[:n/2])
		return
	}
	if w.opt(path, "bytes-plus1") {
		set(append(cp(), 0x01))
		return
	}
	if w.opt(path, "bytes-plus100") {
		set(append(cp(), w.filler(100)...))
		return
	}
	if n > 0 && w.opt(path, "bytes-flip-first-bit") {
		b := cp()
		b[0] ^= 0x80
		set(b)
		return
	}
	if n > 0 && w.opt(path, "bytes-flip-last-bit") {
		b := cp()
		b[n-1] ^= 1
		set(b)
		return
	}
	if n > 0 && w.opt(path, "bytes-all-zero") {
		set(make([]byte, n))
		return
	}
	if n > 0 && w.opt(path, "bytes-all-ff") {
		b := make([]byte, n)
		for i := range b {
			b[i] = 0xff
		}
		set(b)
		return
	}
	for _, k := range []int{19, 20, 21, 31, 32, 33, 63, 64, 65, 66, 129} {
		if k == n {
			continue
		}
		if w.opt(path, fmt.Sprintf("bytes-random-%d", k)) {
			set(w.filler(k))
			return
		}
	}
	if w.opt(path, "bytes-70000") {
		set(w.filler(70000))
		return
	}
}
