package c18

import (
	"fmt"
	"time"

	"github.com/kardiachain/go-kardia/consensus"
	kproto "github.com/kardiachain/go-kardia/proto/kardiachain/types"
	"github.com/kardiachain/go-kardia/types"

	"verifharness/core"
	"verifharness/netsim"
)

// Group vote-rounds: what a peer can make the node keep. A peer sends hundreds of well-formed votes for distinct
// rounds the node has not reached - with signatures that do not verify, with signatures of keys outside the validator
// set, and genuine ones - through the node's real receive loop. The height vote set allows a peer two catch-up
// rounds; the number of rounds the node tracks for the height must stay bounded by that, whatever the votes are
// (count-based oracle: rounds r for which the node holds vote sets).

func voteRounds(r *core.Run) {
	r.Cases("vote-rounds", r.N(12, 600), childOpts, func(c *core.Case) {
		rg, run := c.R, c.Run
		victim := rg.Intn(4)
		s, err := netsim.NewScript(4, victim, []int64{20, 20, 20, 20})
		if err != nil {
			run.Inconclusive("script network: " + err.Error())
			return
		}
		defer s.Close()
		for h := 0; h < rg.Intn(2); h++ {
			if !s.CommitHeight() {
				break
			}
		}
		s.EnterRound()
		rs := s.RS()
		h, cur := rs.Height, rs.Round
		kind := c.I % 3 // 0: signature does not verify, 1: genuine votes of a validator, 2: mixed
		peers := 1 + rg.Intn(3)
		n := 200 + rg.Intn(300)
		top := cur
		for k := 0; k < n; k++ {
			round := cur + 2 + uint32(k)
			if round > top {
				top = round
			}
			o := s.Others[rg.Intn(len(s.Others))]
			typ := kproto.PrevoteType
			if rg.Intn(2) == 0 {
				typ = kproto.PrecommitType
			}
			v := s.Adv.SignVote(s.V, o, typ, h, round, types.BlockID{}, netsim.ClockNow().Add(time.Duration(k)*time.Microsecond))
			if kind == 0 || (kind == 2 && k%2 == 0) {
				v.Signature = append([]byte{}, v.Signature...)
				v.Signature[5] ^= 0x40
			}
			s.Peer = fmt.Sprintf("peer%d", k%peers)
			s.Send(&consensus.VoteMessage{Vote: v})
			if s.V.Dead {
				c.Violation("consensus-loop-dead:vote-rounds", "the consensus routine ended: "+s.V.DeadWhy, nil)
				return
			}
		}
		s.Peer = ""
		run.Eval(n)
		run.Count("votes_for_unreached_rounds_sent", n)
		hvs := s.RS().Votes
		tracked := 0
		for rd := uint32(1); rd <= top+1; rd++ {
			if hvs.Prevotes(rd) != nil {
				tracked++
			}
		}
		nowRound := s.RS().Round
		run.Max("max_rounds_tracked_after_a_flood_of_votes_for_unreached_rounds", int64(tracked))
		// rounds 1..current+1 are the node's own; each peer may open two more
		bound := int(nowRound) + 1 + 2*peers
		if tracked > bound {
			c.Violation("alloc:consensus:vote-sets-for-unreached-rounds", fmt.Sprintf("%d votes for distinct unreached rounds from %d peer(s) (signatures: %s) made the node track %d rounds at height %d (it is in round %d; two catch-up rounds per peer allow %d)",
				n, peers, []string{"do not verify", "genuine", "every other one does not verify"}[kind], tracked, h, nowRound, bound), map[string]interface{}{"votes": n, "peers": peers, "kind": kind})
			return
		}
		run.Nontrivial(fmt.Sprint("vote-rounds", c.I, kind, peers, n))
	})
}

// Group syncing-flood: a node that is still block-syncing receives more consensus data and vote messages than its
// consensus queue holds (nothing reads that queue before the switch to consensus). Receive must keep returning:
// the existing session oracle reports a Receive that does not return (hang) with the message that blocked.
func syncingFlood(r *core.Run) {
	r.Cases("syncing-flood", r.N(2, 12), childOpts, func(c *core.Case) {
		rg := c.R
		spec := envSpec{Mode: "syncing", Height: uint64(3 + rg.Intn(3))}
		rn := open(c, spec)
		if rn == nil {
			return
		}
		defer func() { rn.close() }()
		l := snapshot(rn.e)
		kinds := []string{"Vote", "BlockPart", "Proposal", "Vote"}
		sent := 0
		for sent < 1300 && !rn.broken {
			var sess []Msg
			for k := 0; k < 60; k++ {
				if m, ok := l.validMsg(kinds[rg.Intn(len(kinds))], l.H, l.R); ok {
					m.Subject = true
					sess = append(sess, m)
				}
			}
			if len(sess) == 0 {
				break
			}
			rn.Session("none", sess)
			sent += len(sess)
		}
		c.Run.Count("syncing_flood_messages", sent)
		if sent >= 1100 && !rn.broken {
			c.Run.Count("syncing_floods_beyond_the_queue_capacity_survived", 1)
			c.Run.Nontrivial(fmt.Sprint("syncing-flood", c.I, sent))
		}
	})
}

// Group vote-flood: several peer connections deliver well-formed but useless votes (votes the node already has) to a
// node that IS running consensus, faster than its loop takes them off the queue, so that Receive calls block on the
// full queue while the loop works. Every Receive must return once the loop has caught up, and the loop must keep
// going (a Receive that holds a lock the loop needs while it waits for a free slot stops both for ever).
func voteFlood(r *core.Run) {
	r.Cases("vote-flood", r.N(3, 24), childOpts, func(c *core.Case) {
		rg := c.R
		spec := envSpec{Mode: "caughtup", Height: uint64(2 + rg.Intn(2)), Stage: rg.Intn(6)}
		rn := open(c, spec)
		if rn == nil {
			return
		}
		defer func() { rn.close() }()
		e := rn.e
		l := snapshot(e)
		var msgs []Msg
		for _, k := range []string{"Vote", "Vote", "BlockPart"} {
			if m, ok := l.validMsg(k, l.H, l.R); ok {
				msgs = append(msgs, m)
			}
		}
		if len(msgs) == 0 {
			c.Run.Count("vote_flood_no_valid_message", 1)
			return
		}
		senders := 3 + rg.Intn(3)
		per := 1500
		var peers []*StubPeer
		for i := 0; i < senders; i++ {
			p := rn.begin("same", nil)
			if p == nil {
				return
			}
			peers = append(peers, p)
		}
		done := make(chan int, senders)
		for i, p := range peers {
			go func(i int, p *StubPeer) {
				n := 0
				defer func() { recover(); done <- n }()
				for k := 0; k < per; k++ {
					m := msgs[(i+k)%len(msgs)]
					e.byCh[m.Ch].Receive(m.Ch, p, m.Bytes)
					n++
				}
			}(i, p)
		}
		total, finished := 0, 0
		timeout := time.After(90 * time.Second)
	wait:
		for finished < senders {
			select {
			case n := <-done:
				total += n
				finished++
			case <-timeout:
				break wait
			}
		}
		c.Run.Eval(total)
		c.Run.Count("vote_flood_messages_received", total)
		c.Run.Max("vote_flood_senders", int64(senders))
		if finished < senders {
			rn.broken = true
			c.Violation("hang:consensus:vote-flood:consensus.(*ConsensusManager).Receive", fmt.Sprintf("%d of %d connections are still inside Receive 90 s after they started delivering %d well-formed votes/parts each to a node that is running consensus (queue of %d)", senders-finished, senders, per, 1000), nil)
			return
		}
		if !e.V.Quiesce() {
			rn.broken = true
			c.Violation("consensus-loop-dead:vote-flood", "the consensus routine does not reach quiescence after the flood: "+e.V.DeadWhy, nil)
			return
		}
		c.Run.Count("vote_floods_survived", 1)
		c.Run.Nontrivial(fmt.Sprint("vote-flood", c.I, senders))
	})
}
