package c18

import (
	"encoding/hex"
	"fmt"
	"os"
	"runtime/debug"
	"runtime/metrics"
	"strings"
	"sync/atomic"
	"syscall"
	"time"

	"github.com/kardiachain/go-kardia/consensus"
	"github.com/kardiachain/go-kardia/lib/p2p"

	"verifharness/core"
	"verifharness/netsim"
)

const (
	hangAfter   = 30 * time.Second // a Receive call that has not returned by then is examined as a hang
	allocConst  = 16 << 20         // C of the allocation bound c*len+C
	allocFactor = 256              // c
)

var allocSample = []metrics.Sample{{Name: "/gc/heap/allocs:bytes"}}

func heapAllocs() uint64 {
	metrics.Read(allocSample)
	return allocSample[0].Value.Uint64()
}

// Runner delivers sessions to one environment and applies the oracle.
type Runner struct {
	c        *core.Case
	run      *core.Run
	e        *Env
	envDesc  string
	nmsg     int
	outbound bool          // next peer is an outbound one (we dialled it)
	settle   time.Duration // extra wait at the end of a session for asynchronous event loops
	a0       uint64
	recent   [][]wmsg // the last sessions (witness of delayed effects)
	broken   bool     // the environment can no longer be used (dead node, hung call, leaked mutex)
	nsample  int
	calib    bool // ... only because of a calibration limit of the harness (not a finding)
}

type wmsg struct {
	Ch    string `json:"ch"`
	Kind  string `json:"kind"`
	Level string `json:"level"`
	Mut   string `json:"mutation"`
	Len   int    `json:"len"`
	Hex   string `json:"hex"`
}

func witnessMsgs(ms []Msg) []wmsg {
	var out []wmsg
	for _, m := range ms {
		h := hex.EncodeToString(m.Bytes)
		if len(h) > 4096 {
			h = h[:4096] + "..."
		}
		out = append(out, wmsg{fmt.Sprintf("%02x", m.Ch), m.Kind, m.Level, m.Mut, len(m.Bytes), h})
	}
	return out
}

func (rn *Runner) witness(variant string, sess []Msg, upto int, extra map[string]interface{}) map[string]interface{} {
	w := map[string]interface{}{"env": rn.envDesc, "peer_state_prelude": variant, "session": witnessMsgs(sess[:upto+1]), "failing_message_index": upto}
	for k, v := range extra {
		w[k] = v
	}
	return w
}

// resetChildLog keeps the child's log (the parent's only witness of a process-fatal
// event) small: it restarts the log at every session and writes the session first.
func (rn *Runner) resetChildLog(variant string, sess []Msg) {
	if !rn.run.IsChild() {
		return
	}
	syscall.Ftruncate(1, 0)
	syscall.Seek(1, 0, 0)
	var b strings.Builder
	fmt.Fprintf(&b, "CASE %s:%d ENV %s PRELUDE %s\n", rn.c.Group, rn.c.I, rn.envDesc, variant)
	for i, m := range sess {
		h := ""
		if m.Subject {
			h = hex.EncodeToString(m.Bytes)
			if len(h) > 700 {
				h = h[:700] + fmt.Sprintf("...(%d bytes)", len(m.Bytes))
			}
		}
		fmt.Fprintf(&b, "MSG %d %s %s\n", i, short(m.desc(), 200), h)
	}
	os.Stdout.WriteString(b.String())
}

func reactorName(e *Env, ch byte) string {
	if n, ok := e.nameByCh[ch]; ok {
		return strings.ToLower(n)
	}
	return "none"
}

// call runs fn in its own goroutine; a panic becomes a violation keyed by
// (reactor, message type, innermost go-kardia frame); returns false if fn has not
// returned within hangAfter.
func (rn *Runner) call(what, reactor, kind string, wit func() interface{}, fn func()) (returned, panicked bool) {
	done := make(chan bool, 1)
	go func() {
		p := false
		defer func() {
			if e := recover(); e != nil {
				p = true
				st := string(debug.Stack())
				rn.run.Count("receive_panics", 1)
				rn.c.Violation("panic:"+reactor+":"+kind+":"+frameKey(st), fmt.Sprintf("%s: panic: %v", what, short(fmt.Sprint(e), 300)),
					map[string]interface{}{"input": wit(), "stack": firstLines(st, 36)})
			}
			done <- p
		}()
		fn()
	}()
	select {
	case p := <-done:
		return true, p
	case <-time.After(hangAfter):
		return false, false
	}
}

func firstLines(s string, n int) string {
	l := strings.Split(s, "\n")
	if len(l) > n {
		l = l[:n]
	}
	return strings.Join(l, "\n")
}

func (rn *Runner) hang(what, reactor, kind, marker string, wit interface{}) {
	st := goroutineOf(marker)
	frame := frameKey(st)
	rn.broken = true
	if frame == "unknown-frame" {
		rn.run.Inconclusive(fmt.Sprintf("%s did not return within %v but no goroutine is inside go-kardia code", what, hangAfter))
		return
	}
	rn.c.Violation("hang:"+reactor+":"+kind+":"+frame, fmt.Sprintf("%s has not returned after %v", what, hangAfter), map[string]interface{}{"input": wit, "goroutine": firstLines(st, 40)})
}

// begin connects a fresh peer through the switch.
func (rn *Runner) begin(variant string, sess []Msg) *StubPeer {
	e := rn.e
	if rn.broken {
		return nil
	}
	rn.resetChildLog(variant, sess)
	atomic.StoreInt32(&formatLogs, 1)
	var peer *StubPeer
	ret, pan := rn.call("AddPeer", "switch", "AddPeer", func() interface{} { return rn.envDesc }, func() { peer = e.AddPeer(rn.outbound) })
	if !ret {
		rn.hang("AddPeer", "switch", "AddPeer", "c18.(*Env).AddPeer", rn.envDesc)
		return nil
	}
	if pan || peer == nil {
		rn.broken = true
		return nil
	}
	rn.run.Count("sessions", 1)
	rn.a0 = heapAllocs()
	if len(sess) > 0 {
		rn.recent = append(rn.recent, witnessMsgs(sess))
		if len(rn.recent) > 6 {
			rn.recent = rn.recent[1:]
		}
	}
	return peer
}

// Session connects a fresh peer, delivers the messages in order and checks the
// node afterwards. Returns false when the environment must be rebuilt.
func (rn *Runner) Session(variant string, sess []Msg) bool {
	defer atomic.StoreInt32(&formatLogs, 0)
	peer := rn.begin(variant, sess)
	if peer == nil {
		return false
	}
	last := -1
	for i := range sess {
		if !peer.BaseService.IsRunning() {
			rn.run.Count("messages_skipped_peer_already_stopped", len(sess)-i)
			break
		}
		last = i
		if !rn.deliver(peer, variant, sess, i) {
			return false
		}
		// let the gossip goroutines look at the peer state the mutant shaped before later messages change it
		// (they have no recover: a panic there ends the process)
		if sess[i].Subject && i+1 < len(sess) && reactorName(rn.e, sess[i].Ch) == "consensus" && peer.BaseService.IsRunning() {
			if w := rn.e.WaitGossip(peer, 2); w != "" {
				return rn.finish(peer, variant, sess, last) // reported there
			}
			rn.run.Count("gossip_waits", 1)
		}
	}
	return rn.finish(peer, variant, sess, last)
}

// finish applies the end-of-session checks and disconnects the peer.
func (rn *Runner) finish(peer *StubPeer, variant string, sess []Msg, last int) bool {
	e := rn.e
	if last < 0 {
		e.DropPeer(peer)
		return true
	}
	total := 0
	subj := sess[last]
	for _, m := range sess[:last+1] {
		total += len(m.Bytes)
		if m.Subject {
			subj = m
		}
	}
	reactor := reactorName(e, subj.Ch)
	if rn.settle > 0 {
		time.Sleep(rn.settle) // event loops of the block-sync / transaction fetcher work asynchronously
	}
	// effects that surface later: gossip goroutines working on the peer state this peer shaped
	if w := e.WaitGossip(peer, 2); w != "" {
		st := goroutineOf("consensus.(*ConsensusManager)." + w)
		frame := frameKey(st)
		if st == "" {
			// the goroutine is gone although peer and reactor are running: it can only have ended by a
			// panic, which would have ended the process; report as inconclusive if we get here at all
			rn.run.Inconclusive("gossip routine " + w + " vanished")
		} else if strings.Contains(st, "time.Sleep") {
			rn.run.Inconclusive("gossip routine " + w + " made no progress for 10s while sleeping (machine overloaded?)")
		} else {
			rn.c.Violation("hang:"+reactor+":"+subj.Kind+":"+frame, "gossip routine "+w+" stopped iterating after the session", rn.witness(variant, sess, last, map[string]interface{}{"goroutine": firstLines(st, 40)}))
		}
		rn.broken = true
		return false
	}
	rn.run.Count("gossip_waits", 1)
	// allocation over the whole session (Receive calls, consensus loop, gossip iterations)
	if d := heapAllocs() - rn.a0; d > uint64(allocConst+allocFactor*total) {
		rn.c.Violation("alloc:"+reactor+":"+subj.Kind, fmt.Sprintf("session of %d message bytes made the node allocate %d bytes (bound %d*len+%d)", total, d, allocFactor, allocConst),
			rn.witness(variant, sess, last, nil))
	}
	// mutexes
	if !rn.probes(peer, variant, sess, last, reactor, subj.Kind) {
		return false
	}
	if ps := peer.PeerState(); ps != nil {
		prs := ps.GetRoundState()
		rel := "other"
		switch {
		case prs.Height == 0:
			rel = "unknown"
		case prs.Height == rn.victimHeight():
			rel = "same"
		case prs.Height+1 == rn.victimHeight():
			rel = "lag1"
		case prs.Height < rn.victimHeight():
			rel = "lag>1"
		case prs.Height > rn.victimHeight():
			rel = "ahead"
		}
		rn.run.Distinct("peer_state_shape", fmt.Sprintf("%s prop=%v parts=%v pol=%v pv=%v pc=%v lc=%v cc=%v", rel, prs.Proposal, prs.ProposalBlockParts != nil, prs.ProposalPOL != nil,
			prs.Prevotes != nil, prs.Precommits != nil, prs.LastCommit != nil, prs.CatchupCommit != nil))
	}
	if peer.Stopped() {
		rn.run.Count("peers_stopped_for_error", 1)
	}
	if rn.c.I%7 == 0 && rn.nsample < 1 && subj.Subject {
		rn.nsample++
		var ms []map[string]interface{}
		for _, m := range sess[:last+1] {
			h := hex.EncodeToString(m.Bytes)
			if len(h) > 160 {
				h = h[:160] + "..."
			}
			ms = append(ms, map[string]interface{}{"ch": fmt.Sprintf("%02x", m.Ch), "type": m.Kind, "level": m.Level, "mutation": short(m.Mut, 160), "len": len(m.Bytes), "hex": h})
		}
		rn.run.Sample(map[string]interface{}{"group": rn.c.Group, "case": rn.c.I, "node": rn.envDesc, "peer_state_prelude": variant, "messages": ms,
			"peer_stopped_for_error": peer.Stopped(), "stop_reason": func() string {
				if peer.Stopped() {
					return short(capture.lastStop(), 160)
				}
				return ""
			}(), "node_sent_to_peer": peer.nsent})
	}
	if n := peer.nsent; n > 0 {
		rn.run.Count("messages_sent_to_peer", n)
	}
	// disconnect (RemovePeer of every reactor)
	ret, _ := rn.call("RemovePeer", reactor, subj.Kind, func() interface{} { return rn.witness(variant, sess, last, nil) }, func() { e.DropPeer(peer) })
	if !ret {
		rn.hang("RemovePeer after the session", reactor, subj.Kind, "c18.(*Env).DropPeer", rn.witness(variant, sess, last, nil))
		return false
	}
	return !rn.broken
}

func (rn *Runner) victimHeight() uint64 {
	return rn.e.V.CS.GetRoundState().Height
}

// deliver hands one message to the reactor owning the channel, as the peer's
// MConnection would, and checks the call and its queued effects.
func (rn *Runner) deliver(peer *StubPeer, variant string, sess []Msg, i int) bool {
	e := rn.e
	m := sess[i]
	reactor := e.byCh[m.Ch]
	rname := reactorName(e, m.Ch)
	if reactor == nil {
		return true // the connection layer refuses unknown channels (covered by the framing group)
	}
	if len(m.Bytes) > e.capByCh[m.Ch] {
		rn.run.Count("messages_over_channel_capacity_not_delivered", 1)
		return true // ... and messages beyond the channel's RecvMessageCapacity (framing group)
	}
	rn.nmsg++
	rn.run.Eval(1)
	rn.run.Count("messages", 1)
	rn.run.Count("messages:"+rname+":"+m.Level, 1)
	if m.Subject {
		rn.run.Distinct("subject_type", rname+":"+m.Kind)
	}
	wit := func() interface{} { return rn.witness(variant, sess, i, nil) }
	a0 := heapAllocs()
	ret, pan := rn.call("Receive("+rname+" "+m.Kind+")", rname, m.Kind, wit, func() { reactor.Receive(m.Ch, peer, m.Bytes) })
	if !ret {
		rn.hang("Receive("+rname+" "+m.Kind+")", rname, m.Kind, "c18.(*Runner).deliver.func", wit())
		return false
	}
	// (event loops may still be working on the earlier messages of the session: the bound counts their bytes too)
	sofar := 0
	for _, x := range sess[:i+1] {
		sofar += len(x.Bytes)
	}
	if d := heapAllocs() - a0; d > uint64(allocConst+allocFactor*sofar) {
		rn.c.Violation("alloc:"+rname+":"+m.Kind, fmt.Sprintf("Receive of a %d-byte message (session so far: %d bytes) allocated %d bytes (bound %d*len+%d)", len(m.Bytes), sofar, d, allocFactor, allocConst), wit())
	}
	if pan {
		// MConnection.recvRoutine would recover this panic and stop the peer; continue with a fresh peer
		rn.run.Count("sessions_cut_by_panic", 1)
		e.SW.StopPeerForError(peer, "panic in Receive")
	}
	if rname == "consensus" && e.Mode == "syncing" && (m.Ch == consensus.DataChannel || m.Ch == consensus.VoteChannel) {
		// nobody drains the consensus queue (capacity 1000) before the switch to consensus: a reactor that queues what
		// it receives while syncing blocks in Receive once the queue is full (judged by the hang oracle above)
		e.queued++
		rn.run.Max("max_data_and_vote_messages_sent_to_one_syncing_node", int64(e.queued))
	}
	// a consensus-state mutex leaked by Receive would block the loop: probe before waiting for it
	if rname == "consensus" && !tryLock(e.V.CS.VerifTryLock) {
		rn.broken = true
		rn.c.Violation("mutex-held:"+rname+":"+m.Kind+":ConsensusState.mtx", "ConsensusState.mtx is still held after Receive returned (the consensus loop and every later Receive block for ever)", wit())
		return false
	}
	// queued effects: drive the consensus loop to quiescence
	if e.Cons.IsRunning() && !e.Cons.WaitSync() {
		if !e.V.Quiesce() {
			rn.dead(variant, sess, i, rname, m.Kind)
			return false
		}
	}
	if peer.Stopped() {
		why := capture.lastStop()
		if m.Level == "valid" {
			rn.run.Count("wellformed_messages_refused_in_context:"+m.Kind, 1)
			rn.run.Distinct("refusal_of_wellformed", rname+":"+m.Kind+": "+classify(why))
			if os.Getenv("C18_DEBUG") != "" {
				fmt.Fprintln(os.Stderr, "REFUSED", rname, m.Kind, m.Mut, "|", short(why, 300), "|", rn.envDesc)
			}
		}
		rn.run.Distinct("stop_reason", rname+": "+classify(why))
	}
	if !peer.Stopped() {
		rn.run.Count("messages_accepted", 1)
		if m.Subject {
			rn.run.Count("mutants_accepted", 1)
			rn.run.Nontrivial(rname + m.Kind + m.Mut + variant)
		}
	} else {
		rn.run.Count("messages_rejected_peer_stopped", 1)
	}
	return true
}

// dead reports the death of the consensus loop and checks whether a restart on the
// same database and WAL works.
func (rn *Runner) dead(variant string, sess []Msg, i int, rname, kind string) {
	e := rn.e
	rn.broken = true
	fs := capture.takeFailures()
	frame, errs, stack := "no-failure-record", e.V.DeadWhy, ""
	if len(fs) > 0 {
		frame = frameKey(skipToPanic(fs[0].Stack))
		errs = fs[0].Err
		stack = firstLines(skipToPanic(fs[0].Stack), 30)
	}
	if strings.HasPrefix(e.V.DeadWhy, "watchdog") {
		st := goroutineOf("consensus.(*ConsensusState).receiveRoutine")
		rn.c.Violation("hang:"+rname+":"+kind+":"+frameKey(st), "consensus loop blocked: "+e.V.DeadWhy, rn.witness(variant, sess, i, map[string]interface{}{"goroutine": firstLines(st, 40)}))
		return
	}
	w := rn.witness(variant, sess, i, map[string]interface{}{"consensus_failure": short(errs, 400), "stack": stack})
	rn.c.Violation("consensus-loop-dead:"+rname+":"+kind+":"+frame, "the consensus loop terminated (CONSENSUS FAILURE) after the message: "+short(errs, 200), w)
	rn.run.Count("consensus_failures", 1)
	if e.Mode != "caughtup" {
		return
	}
	// restart on the same database and WAL
	var startErr string
	func() {
		defer func() {
			if r := recover(); r != nil {
				startErr = fmt.Sprintf("panic: %v at %s", short(fmt.Sprint(r), 200), frameKey(string(debug.Stack())))
			}
		}()
		e.V.Stop(false)
		n2, err := netsim.BuildNode(0, e.Net.Gen, e.Net.Keys[0], e.V.Base, nil, nil, netsim.NodeOpts{FileWAL: true, Dir: e.V.Opts.Dir})
		if err != nil {
			startErr = "build: " + err.Error()
			return
		}
		n2.CS.Logger.SetHandler(capture)
		defer func() {
			defer func() { recover() }()
			n2.Stop(false)
			n2.WAL.Stop()
		}()
		if err := n2.Start(); err != nil {
			startErr = "start: " + err.Error()
		}
	}()
	rn.run.Count("restarts_after_failure", 1)
	if startErr != "" {
		w["restart_error"] = startErr
		rn.c.Violation("restart-poisoned:"+rname+":"+kind+":"+frame, "after the consensus failure the node cannot be restarted on its database and WAL: "+startErr, w)
	}
}

// frameKey is core.PanicKey (innermost go-kardia frame) except that the generic
// "panic helper" frames are skipped, so that the key names the function that panicked.
func frameKey(stack string) string {
	var keep []string
	lines := strings.Split(stack, "\n")
	for i := 0; i < len(lines); i++ {
		if strings.Contains(lines[i], "lib/common.PanicSanity") || strings.Contains(lines[i], "lib/common.PanicCrisis") || strings.Contains(lines[i], "lib/common.PanicConsensus") || strings.Contains(lines[i], "lib/common.PanicQ") {
			i++ // and its file:line
			continue
		}
		keep = append(keep, lines[i])
	}
	return core.PanicKey(strings.Join(keep, "\n"))
}

func skipToPanic(stack string) string {
	if i := strings.Index(stack, "panic("); i >= 0 {
		return stack[i:]
	}
	return stack
}

// tryLock repeats a TryLock probe: readers (gossip goroutines, event loops) hold the
// mutexes for microseconds at a time, a leaked lock is held for ever.
func tryLock(f func() bool) bool {
	deadline := time.Now().Add(5 * time.Second)
	for {
		if f() {
			return true
		}
		if time.Now().After(deadline) {
			return false
		}
		time.Sleep(100 * time.Microsecond)
	}
}

func (rn *Runner) probes(peer *StubPeer, variant string, sess []Msg, last int, reactor, kind string) bool {
	e := rn.e
	leak := func(name string) bool {
		rn.broken = true
		rn.c.Violation("mutex-held:"+reactor+":"+kind+":"+name, "mutex "+name+" is still held after the session (later callers block for ever)", rn.witness(variant, sess, last, nil))
		return false
	}
	rn.run.Count("mutex_probes", 1)
	if !tryLock(e.V.CS.VerifTryLock) {
		return leak("ConsensusState.mtx")
	}
	if !tryLock(e.BC.VerifTryLock) {
		return leak("BlockchainReactor.mtx")
	}
	if !tryLock(e.V.Pool.VerifTryLock) {
		return leak("TxPool.mu")
	}
	if ps := peer.PeerState(); ps != nil {
		ok := make(chan struct{})
		go func() { ps.GetRoundState(); e.Cons.WaitSync(); close(ok) }()
		select {
		case <-ok:
		case <-time.After(5 * time.Second):
			return leak("PeerState.mtx")
		}
	}
	return true
}

var _ = p2p.ID("")

// classify strips the variable parts of an error text.
func classify(s string) string {
	var b strings.Builder
	for _, r := range s {
		switch {
		case r >= '0' && r <= '9':
			continue
		case r == '\n':
			r = ' '
		}
		b.WriteRune(r)
		if b.Len() >= 70 {
			break
		}
	}
	return b.String()
}
