package c18

import (
	"bytes"
	"encoding/hex"
	"fmt"
	"io"
	"math/rand"
	"net"
	"os"
	"strings"
	"sync"
	"time"

	"github.com/gogo/protobuf/proto"

	"github.com/kardiachain/go-kardia/configs"
	"github.com/kardiachain/go-kardia/lib/log"
	"github.com/kardiachain/go-kardia/lib/p2p"
	"github.com/kardiachain/go-kardia/lib/p2p/conn"
	kp2p "github.com/kardiachain/go-kardia/proto/kardiachain/p2p"

	"verifharness/core"
)

// The connection layer: a real MConnection (production configuration and channel
// descriptors) reads raw frames from a pipe. Reference model: frames are
// varint-delimited Packets of at most maxPacketMsgSize bytes; PacketMsg payloads are
// appended per channel until EOF; unknown channel, payload over the packet limit,
// accumulated message over the channel's RecvMessageCapacity, undecodable or empty
// packet end the connection with an error (onError exactly once) and nothing is
// delivered afterwards; it never panics, never delivers more than the capacity.

type frame struct {
	Desc  string
	Bytes []byte
	// model
	Ch      int32
	Data    []byte
	EOF     bool
	IsMsg   bool
	Invalid bool // the model says the connection must end here
	Unknown bool // the model cannot predict (byte noise)
}

func delimited(b []byte) []byte {
	return append(putUvarint(uint64(len(b))), b...)
}

func packetMsg(ch int32, data []byte, eof bool) []byte {
	b, _ := proto.Marshal(&kp2p.Packet{Sum: &kp2p.Packet_PacketMsg{PacketMsg: &kp2p.PacketMsg{ChannelID: ch, EOF: eof, Data: data}}})
	return b
}

type mconnRig struct {
	chDescs []*conn.ChannelDescriptor
	caps    map[byte]int
	cfg     conn.MConnConfig
	maxPkt  int
}

func newRig(e *Env) *mconnRig {
	rig := &mconnRig{caps: map[byte]int{}}
	for _, r := range e.reactors {
		for _, d := range r.GetChannels() {
			rig.chDescs = append(rig.chDescs, d)
			f := d.FillDefaults()
			rig.caps[d.ID] = f.RecvMessageCapacity
		}
	}
	rig.cfg = p2p.MConnConfig(configs.DefaultP2PConfig())
	b, _ := proto.Marshal(&kp2p.Packet{Sum: &kp2p.Packet_PacketMsg{PacketMsg: &kp2p.PacketMsg{ChannelID: 0xff, EOF: true, Data: make([]byte, rig.cfg.MaxPacketMsgPayloadSize)}}})
	rig.maxPkt = len(b)
	return rig
}

type delivery struct {
	Ch    byte
	Bytes []byte
}

// genFrames draws a frame sequence.
func (rig *mconnRig) genFrames(r *rand.Rand, boundary int) []frame {
	var out []frame
	chs := []byte{}
	for ch := range rig.caps {
		chs = append(chs, ch)
	}
	// deterministic order
	for i := range chs {
		for j := i + 1; j < len(chs); j++ {
			if chs[j] < chs[i] {
				chs[i], chs[j] = chs[j], chs[i]
			}
		}
	}
	msg := func(ch int32, n int, eof bool) frame {
		d := make([]byte, n)
		r.Read(d)
		return frame{Desc: fmt.Sprintf("msg ch=%#x len=%d eof=%v", ch, n, eof), Bytes: delimited(packetMsg(ch, d, eof)), Ch: ch, Data: d, EOF: eof, IsMsg: true}
	}
	maxPayload := rig.cfg.MaxPacketMsgPayloadSize
	switch boundary {
	case 1: // message of exactly the capacity of the PEX channel, then one byte more
		capPex := rig.caps[0x00]
		for _, total := range []int{capPex, capPex + 1} {
			left := total
			for left > 0 {
				n := maxPayload
				if n > left {
					n = left
				}
				left -= n
				out = append(out, msg(0, n, left == 0))
			}
		}
		return out
	case 2: // payload of exactly the packet limit, then limit+1
		out = append(out, msg(0x20, maxPayload, true), msg(0x20, maxPayload+1, true), msg(0x20, 1, true))
		return out
	case 3: // unknown channel / channel id whose low byte is a known channel
		out = append(out, msg(0x20, 10, true), msg(0x120, 10, true), msg(0x7f, 10, true), msg(0x20, 10, true))
		return out
	case 4: // frame length prefix at the limit and one over
		b := packetMsg(0x20, make([]byte, maxPayload), true)
		out = append(out, frame{Desc: "frame of max size", Bytes: delimited(b), Ch: 0x20, Data: make([]byte, maxPayload), EOF: true, IsMsg: true})
		over := append(putUvarint(uint64(rig.maxPkt+1)), make([]byte, rig.maxPkt+1)...)
		out = append(out, frame{Desc: "length prefix max+1", Bytes: over, Invalid: true}, msg(0x20, 5, true))
		return out
	case 5: // huge / overflowing length prefixes
		for _, l := range []uint64{1 << 31, 1<<63 - 1, 1 << 63, 1<<64 - 1} {
			out = append(out, frame{Desc: fmt.Sprintf("length prefix %d", l), Bytes: putUvarint(l), Invalid: true})
			break
		}
		return out
	case 6: // empty packet, ping, pong
		out = append(out, frame{Desc: "ping", Bytes: delimited(mustMarshal(&kp2p.Packet{Sum: &kp2p.Packet_PacketPing{PacketPing: &kp2p.PacketPing{}}}))},
			frame{Desc: "pong", Bytes: delimited(mustMarshal(&kp2p.Packet{Sum: &kp2p.Packet_PacketPong{PacketPong: &kp2p.PacketPong{}}}))},
			msg(0x22, 100, true),
			frame{Desc: "empty packet", Bytes: delimited(nil), Invalid: true}, msg(0x22, 5, true))
		return out
	case 7: // negative channel id
		out = append(out, msg(-1, 10, true), msg(0x20, 10, true))
		return out
	case 8: // interleaved partial messages on several channels
		out = append(out, msg(0x20, 100, false), msg(0x21, 200, false), msg(0x20, 50, true), msg(0x21, 1, true), msg(0x40, 0, true))
		return out
	}
	n := 1 + r.Intn(40)
	for i := 0; i < n; i++ {
		ch := int32(chs[r.Intn(len(chs))])
		switch x := r.Intn(40); {
		case x < 22:
			sz := []int{0, 1, 10, 100, maxPayload - 1, maxPayload}[r.Intn(6)]
			out = append(out, msg(ch, sz, r.Intn(3) != 0))
		case x < 24:
			out = append(out, msg(ch, maxPayload+1+r.Intn(3000), true))
		case x < 26:
			out = append(out, msg([]int32{0x01, 0x7f, 0x100, 0x120, -1, 1 << 30, -1 << 31}[r.Intn(7)], 10, true))
		case x < 28:
			out = append(out, frame{Desc: "ping", Bytes: delimited(mustMarshal(&kp2p.Packet{Sum: &kp2p.Packet_PacketPing{PacketPing: &kp2p.PacketPing{}}}))})
		case x < 30:
			out = append(out, frame{Desc: "pong", Bytes: delimited(mustMarshal(&kp2p.Packet{Sum: &kp2p.Packet_PacketPong{PacketPong: &kp2p.PacketPong{}}}))})
		case x < 31:
			out = append(out, frame{Desc: "empty packet", Bytes: delimited(nil), Invalid: true})
		case x < 33:
			l := []uint64{uint64(rig.maxPkt + 1), 1 << 20, 1 << 31, 1<<63 - 1, 1<<64 - 1}[r.Intn(5)]
			out = append(out, frame{Desc: fmt.Sprintf("length prefix %d", l), Bytes: putUvarint(l), Invalid: true})
		case x < 37: // structure-aware mutation of a valid packet
			v := packetMsg(ch, make([]byte, 1+r.Intn(50)), true)
			b, label := MutateBytes(v, r)
			if len(b) > rig.maxPkt {
				b = b[:rig.maxPkt]
			}
			out = append(out, frame{Desc: "mutated packet: " + label, Bytes: delimited(b), Unknown: true})
		default:
			b := make([]byte, 1+r.Intn(64))
			r.Read(b)
			out = append(out, frame{Desc: "random bytes", Bytes: b, Unknown: true})
		}
	}
	return out
}

func mustMarshal(pb proto.Message) []byte {
	b, err := proto.Marshal(pb)
	if err != nil {
		panic(err)
	}
	return b
}

// model computes the deliveries the connection must make, and whether it must end with an error.
func (rig *mconnRig) model(fs []frame) (exp []delivery, mustErr bool, exact bool) {
	bufs := map[byte][]byte{}
	for _, f := range fs {
		if f.Unknown {
			return exp, false, false
		}
		if f.Invalid {
			return exp, true, true
		}
		if !f.IsMsg {
			continue
		}
		ch := byte(f.Ch) // the product truncates the channel id to a byte
		capa, ok := rig.caps[ch]
		if !ok {
			return exp, true, true
		}
		if len(packetMsg(f.Ch, f.Data, f.EOF)) > rig.maxPkt {
			// the encoded packet is larger than the largest packet a node may send (payload limit on the
			// largest channel id, 0xff, with EOF; since 37cb7cc): refused by the frame reader. (A packet on channel 0 / without EOF may carry a few
			// bytes more than MaxPacketMsgPayloadSize: the limit is on the encoded size.)
			return exp, true, true
		}
		if len(bufs[ch])+len(f.Data) > capa {
			return exp, true, true
		}
		bufs[ch] = append(bufs[ch], f.Data...)
		if f.EOF {
			exp = append(exp, delivery{ch, append([]byte{}, bufs[ch]...)})
			bufs[ch] = nil
		}
	}
	return exp, false, true
}

type panicCatcher struct {
	mu    sync.Mutex
	stack string
	err   string
}

func (p *panicCatcher) Log(r *log.Record) error {
	if r.Msg == "MConnection panicked" {
		p.mu.Lock()
		for i := 0; i+1 < len(r.Ctx); i += 2 {
			k, _ := r.Ctx[i].(string)
			if k == "stack" {
				p.stack = fmt.Sprint(r.Ctx[i+1])
			}
			if k == "err" {
				p.err = fmt.Sprint(r.Ctx[i+1])
			}
		}
		p.mu.Unlock()
	}
	return nil
}

// runConn feeds the frames to a fresh connection and applies the oracle.
func (rig *mconnRig) runConn(c *core.Case, fs []frame, label string) {
	run := c.Run
	c1, c2 := net.Pipe()
	var mu sync.Mutex
	var gotLive []delivery // written by the connection's callbacks (under mu)
	var errsLive []string
	errCh := make(chan struct{}, 4)
	onReceive := func(ch byte, b []byte) {
		mu.Lock()
		gotLive = append(gotLive, delivery{ch, append([]byte{}, b...)})
		mu.Unlock()
	}
	onError := func(r interface{}) {
		mu.Lock()
		errsLive = append(errsLive, fmt.Sprint(r))
		mu.Unlock()
		errCh <- struct{}{}
	}
	mc := conn.NewMConnectionWithConfig(c2, rig.chDescs, onReceive, onError, rig.cfg)
	pc := &panicCatcher{}
	lg := log.New()
	lg.SetHandler(pc)
	mc.SetLogger(lg)
	if err := mc.Start(); err != nil {
		run.Inconclusive("mconn start: " + err.Error())
		return
	}
	go io.Copy(io.Discard, c1) // pongs and flushes of the node
	a0 := heapAllocs()
	tStart := time.Now()
	total := 0
	wrote := 0
	c1.SetWriteDeadline(time.Now().Add(20 * time.Second))
	var werr error
	for _, f := range fs {
		total += len(f.Bytes)
		if _, werr = c1.Write(f.Bytes); werr != nil {
			break
		}
		wrote++
	}
	run.Eval(wrote)
	run.Count("frames", wrote)
	exp, mustErr, exact := rig.model(fs)
	// wait for the expected outcome
	deadline := time.Now().Add(15 * time.Second)
	if !exact {
		deadline = time.Now().Add(30 * time.Millisecond) // unpredictable sequence: only panics, hangs and over-size deliveries are judged
	}
	for time.Now().Before(deadline) {
		mu.Lock()
		ng, ne := len(gotLive), len(errsLive)
		mu.Unlock()
		if ne > 0 || (exact && !mustErr && ng >= len(exp)) {
			break
		}
		time.Sleep(200 * time.Microsecond)
	}
	time.Sleep(300 * time.Microsecond)
	mu.Lock()
	got, errs := append([]delivery(nil), gotLive...), append([]string(nil), errsLive...) // what happened before the harness closes its end
	mu.Unlock()
	tWait := time.Now()
	c1.Close()
	stopped := make(chan struct{})
	go func() { mc.Stop(); close(stopped) }()
	select {
	case <-stopped:
	case <-time.After(20 * time.Second):
		c.Violation("hang:mconn:Stop", "MConnection.Stop does not return after the frame sequence", map[string]interface{}{"frames": frameWitness(fs)})
		return
	}
	alloc := heapAllocs() - a0
	if os.Getenv("C18_DEBUG") != "" {
		fmt.Fprintln(os.Stderr, "MCONN", label, len(fs), "frames; write+wait", tWait.Sub(tStart), "stop", time.Since(tWait))
	}
	wit := map[string]interface{}{"sequence": label, "frames": frameWitness(fs), "delivered": len(got), "errors": errs}
	pc.mu.Lock()
	pstack, perr := pc.stack, pc.err
	pc.mu.Unlock()
	if pstack != "" {
		wit["stack"] = firstLines(skipToPanic(pstack), 30)
		c.Violation("panic:mconn:packet:"+frameKey(skipToPanic(pstack)), "MConnection.recvRoutine panicked (recovered by the connection): "+short(perr, 200), wit)
		return
	}
	for _, e := range errs {
		if strings.Contains(e, "recovered from panic") {
			c.Violation("panic:mconn:packet:unknown-frame", "MConnection panicked: "+short(e, 200), wit)
			return
		}
	}
	// 8 MB receive buffers are allocated per channel and per completed message on the data channel
	if alloc > uint64(64<<20+allocFactor*total)+uint64(len(got))*(9<<20) {
		c.Violation("alloc:mconn:packet", fmt.Sprintf("%d frame bytes made the connection allocate %d bytes", total, alloc), wit)
	}
	for _, d := range got {
		if len(d.Bytes) > rig.caps[d.Ch] {
			c.Violation("mconn:delivered-beyond-capacity", fmt.Sprintf("a message of %d bytes was delivered on channel %#x whose RecvMessageCapacity is %d", len(d.Bytes), d.Ch, rig.caps[d.Ch]), wit)
			return
		}
	}
	n := len(got)
	if n > len(exp) {
		if exact {
			c.Violation("mconn:delivery-after-invalid-frame", fmt.Sprintf("%d messages delivered, the model allows %d (the connection must end at the first invalid frame)", n, len(exp)), wit)
			return
		}
		n = len(exp)
	}
	for i := 0; i < n; i++ {
		if got[i].Ch != exp[i].Ch || !bytes.Equal(got[i].Bytes, exp[i].Bytes) {
			c.Violation("mconn:reassembly", fmt.Sprintf("delivery %d differs from the concatenation of the packets sent (channel %#x/%#x, %d/%d bytes)", i, got[i].Ch, exp[i].Ch, len(got[i].Bytes), len(exp[i].Bytes)), wit)
			return
		}
	}
	if exact && len(got) < len(exp) && werr == nil {
		c.Violation("mconn:message-lost", fmt.Sprintf("%d of %d well-formed messages delivered", len(got), len(exp)), wit)
		return
	}
	if exact && mustErr && len(errs) == 0 {
		c.Violation("mconn:invalid-frame-accepted", "the frame sequence contains a frame the connection must refuse, but no error was raised", wit)
		return
	}
	if exact && !mustErr && len(errs) > 0 {
		c.Violation("mconn:valid-sequence-refused", "a well-formed frame sequence ended with an error: "+short(errs[0], 200), wit)
		return
	}
	if len(errs) > 1 {
		c.Violation("mconn:onError-twice", "onError called more than once", wit)
	}
	run.Count("mconn_sequences", 1)
	run.Count("mconn_messages_delivered", len(got))
	if len(errs) > 0 {
		run.Count("mconn_sequences_refused", 1)
		run.Distinct("mconn_error", classify(errs[0]))
	}
	if exact {
		run.Count("mconn_sequences_predicted_exactly", 1)
		run.Nontrivial("mconn" + label + fmt.Sprint(len(got), len(errs)))
	}
}

func frameWitness(fs []frame) []map[string]interface{} {
	var out []map[string]interface{}
	for _, f := range fs {
		h := hex.EncodeToString(f.Bytes)
		if len(h) > 200 {
			h = h[:200] + "..."
		}
		out = append(out, map[string]interface{}{"frame": f.Desc, "len": len(f.Bytes), "hex": h})
		if len(out) > 80 {
			break
		}
	}
	return out
}

func mconnGroup(r *core.Run) {
	r.Cases("mconn", r.N(16, 640), childOpts, func(c *core.Case) {
		e, err := NewEnv("syncing", 2)
		if err != nil {
			r.Inconclusive("environment: " + err.Error())
			return
		}
		defer e.Close()
		rig := newRig(e)
		if c.I == 0 {
			for b := 1; b <= 8; b++ {
				rig.runConn(c, rig.genFrames(c.R, b), fmt.Sprintf("boundary-%d", b))
			}
			return
		}
		for i := 0; i < 60; i++ {
			rig.runConn(c, rig.genFrames(c.R, 0), "random")
		}
	})
}
